import H2.Proofs.ServerOnce
import H2.Props.C03
import H2.Props.C04
import H2.Props.C05
import H2.Props.C06
import H2.Props.C20
/-!
# C01 — every multiplexed request reaches the handler once, intact; the reply is intact

Property text (properties.jsonl): *for any set of well-formed requests multiplexed on one connection, the handler
runs exactly once per request and sees exactly the method, path, authority, header fields, trailers and body octets
the peer sent. The peer receives, on the same stream, exactly the status, header fields and body octets that handler
produced, as HEADERS then DATA with END_STREAM set exactly once. This holds however the peer encodes, fragments
(HEADERS/CONTINUATION split at any octet, padding, priority fields, empty DATA frames) and interleaves the streams,
and in whatever order handlers finish.*

The property spans four layers (frame parser, HPACK decoder/encoder, stream loop, send path). This file states what
is proved about each part and how the parts fit. Lemmas are in `H2/Proofs/ServerOnce.lean` (full server model
`H2.Server.step`, every event list, every configuration) and in the files of C03–C06.

## which theorem carries which part

A. *handler runs once per request / however the streams are interleaved / whatever order handlers finish* —
   theorems about the FULL server model, for every event list (`runOuts cfg evs`: arbitrary octets in arbitrary
   chunks, arbitrary handler completions in arbitrary order, cuts, idle timeouts):
   * `handler_at_most_once`: no stream id is dispatched twice in a run;
   * `only_complete_requests_dispatched`: every dispatch record is the request view of a stream that had END_STREAM,
     a finished header block, was not handed over before, and whose body length matched `content-length`;
   * `complete_request_dispatched_step` (step level): a frame that is accepted and leaves its stream complete makes
     the loop hand it over in that very step (the "at least once" half, per step — see "not proved" below).
B. *the reply goes out on the same stream, HEADERS first, once* (full model, every event list):
   * `response_starts_once`: no stream id gets two response HEADERS;
   * `response_only_after_dispatch(_strict)`: a response HEADERS only for an id dispatched in an earlier step;
   * `response_on_same_stream`: the HEADERS written when the handler of stream `sid` finishes carry id `sid`;
   * `end_stream_at_most_once`: no stream id gets two frames carrying END_STREAM (HEADERS without body, or the last —
     possibly empty — DATA frame); `end_stream_only_after_headers`: END_STREAM only on a stream whose response
     HEADERS were written; `nothing_owed_after_end_stream`: once END_STREAM is out the stream owes nothing;
   * `table_ids_unique`: in every reachable state the table holds each stream id once and only ids ≤ `lastID`
     (a new stream needs an id above `lastID`) — the reason interleaving cannot mix two requests up.
C. *sees exactly the method, path, authority, header fields and body octets* (full model, per accepted frame):
   * `dispatch_record_is_view`: the dispatch record is a function of (id, view, body digest) only;
   * `header_frame_folds_fields`: after an accepted HEADERS/CONTINUATION frame the view is the fold of `viewUpd`
     over the fields `Hpack.Dec.next` yields from `carried-over tail ++ fragment` — nothing else enters it;
   * `data_frame_adds_payload`: an accepted DATA frame adds exactly its (unpadded) payload to the body digest;
   * `body_chunk_invariance`: the digest depends on the concatenation of the payloads only (empty frames included).
D. *however the peer encodes / fragments* — restated from C03 (HPACK decoder), about the same `Hpack.Dec.next`:
   * `encoding_independence` (= `C03.dec_complete`), `request_field_decoded` (its consequence for the server loop),
   * `fragmentation_independence` (= `C03.split_invariance`, every block and every cut: F04/F05 repaired),
     `whole_block` (= `C03.block_whole`).
E. *padding, priority fields* — restated from C05 (frame parser): `frame_payload_intact` (= `C05.read_ok`): the frame
   value the read loop hands on carries the payload without padding / priority section.
F. *the peer receives exactly the status and header fields* — composition of C04 with the full model:
   * `response_block_roundtrip`: the header block `responseHeaders` encodes is decoded by the RFC 7541 decoder to
     exactly `:status` + the handler's fields (names lower-cased), when encoder and peer decoder are in step;
   * `response_headers_intact`: under the same hypothesis the HEADERS frame the full model emits (whose field list is
     what the scripted peer's decoder reads) carries exactly those fields, on the stream's id, END_HEADERS set,
     END_STREAM iff there is no body.
G. *body octets, END_STREAM exactly once* — "at most once" is B (full model); the rest is restated from C06
   (abstract send-side model `Server.Flow`): `end_stream_once`, `body_conserved` (octets emitted + octets pending =
   octets owed), `nothing_sendable_left` (whatever is still owed is blocked by flow control: progress).

H. *the request as a message* — restated from the message model (`H2/Proofs/Msg.lean`, tied to the full model's field
   loop by the PROVED refinement `C20.field_is_full_model` and to its dispatch records by the lockstep adapter):
   * `request_view_intact` (= `Msg.view_intact`): for every well-formed request (header list, trailer list, DATA count
     within the limits) the view handed to the handler is exactly `specView`: method/path/authority from the
     pseudo-headers, the content-type and user-agent slots, every other regular field of the header block and then of
     the trailer block in arrival order;
   * `field_chunk_invariance` (= `Msg.chunk_invariance`): however the field list is cut into frames, the loop's
     result is that of the whole list.

## what is NOT proved

* No single end-to-end theorem from octets on the wire to the dispatch record: A–C are about the full model, D–G
  about the layer models; that `fieldLoop`/`rlDrain` call the very functions D and E are about is by definition
  (`Hpack.Dec.next`, `Frame.readFrame` appear in `H2/Server/Model.lean`), that `Hpack.Block.loop` (C03's loop) and
  `Server.fieldLoop` agree is NOT a theorem (they are written with the same case split over `Hpack.Dec.next` and
  `Hpack.Dec.skipUpdates`, by inspection), and that the abstract `Server.Flow` model (G) abstracts the full model's send path is checked by the
  lockstep run of the driver, not proved. The tie between model and Go code is the correspondence check.
* "exactly once" is proved as "at most once" for every history (A) plus "at least once" per step
  (`complete_request_dispatched_step`); there is no run-level liveness theorem (it would need well-formedness of the
  whole input: valid HPACK, no limit exceeded, connection not closing).
* The view after SEVERAL header frames / DATA frames of one stream is the composition of the per-frame statements in C;
  the composition over a run (a ghost history per stream) is not stated as one theorem.
* Trailers are folded into the same view (`viewUpd`); that the handler can tell trailers from headers is not modelled.
* F's hypothesis `Synced enc peerDec` is not shown to be an invariant of the full model's runs (C04.enc_history shows
  it for the encoder/decoder pair under SETTINGS changes; F35 is the known exception).
-/
namespace H2.Props.C01
open H2 H2.Server

/-! ## A. the handler runs at most once per request; only complete requests are dispatched -/

/-- **handler_at_most_once**: for every configuration and every event list, no stream id is handed to the handler
twice (`dispatchedIds` lists the ids of the `Out.dispatch` records in order of emission). -/
theorem handler_at_most_once (cfg : Cfg) (evs : List Event) : (dispatchedIds (runOuts cfg evs)).Nodup :=
  at_most_once cfg evs

/-- **only_complete_requests_dispatched**: every dispatch record of any run is `reqView st` for a stream `st` that was
half-closed (END_STREAM received), had its header block finished, was not yet marked `responded`, and had received
exactly `content-length` body octets if the request carried that field. -/
theorem only_complete_requests_dispatched (cfg : Cfg) (evs : List Event) :
    ∀ o ∈ runOuts cfg evs, o.isDispatch = true → ∃ st, Complete st ∧ o = reqView st :=
  Server.only_complete_requests_dispatched cfg evs

/-- step level, the other direction: an accepted frame that leaves its stream complete gets it dispatched at once -/
theorem complete_request_dispatched_step (r : R) (uid : Nat) (fr : Frame.Frame) (wc : Bool)
    (hp : (headersPrelude r fr).2 = true)
    (he : (onFrameError (handleFrame (headersPrelude r fr).1 uid fr).1 uid (handleFrame (headersPrelude r fr).1 uid fr).2).2 = false)
    (st : Strm)
    (hg : ((onFrameError (handleFrame (headersPrelude r fr).1 uid fr).1 uid
            (handleFrame (headersPrelude r fr).1 uid fr).2).1.updStrm uid (handleState fr)).getStrm uid = some st)
    (hc : Complete st) : reqView st ∈ (knownStream r uid fr wc).out :=
  Server.complete_request_dispatched_step r uid fr wc hp he st hg hc

/-- in every reachable state: each stream id once in the table, ids at most `lastID`, a stream not marked `responded`
has not been dispatched, a stream whose handler runs has been dispatched and not yet answered -/
theorem table_ids_unique (cfg : Cfg) (evs : List Event) :
    ((run cfg evs).1.strms.map (·.id)).Nodup ∧
    (∀ st ∈ (run cfg evs).1.strms, st.id ≤ (run cfg evs).1.lastID) ∧
    (∀ st ∈ (run cfg evs).1.strms, st.responded = false → st.id ∉ dispatchedIds (runOuts cfg evs)) ∧
    (∀ st ∈ (run cfg evs).1.strms, st.handlerRunning = true →
      st.id ∈ dispatchedIds (runOuts cfg evs) ∧ st.id ∉ headerIds (runOuts cfg evs)) :=
  reachable_table cfg evs

/-! ## B. the response starts once, after the dispatch, on the same stream -/

/-- **response_starts_once**: no stream id gets two response HEADERS frames -/
theorem response_starts_once (cfg : Cfg) (evs : List Event) : (headerIds (runOuts cfg evs)).Nodup :=
  Server.response_starts_once cfg evs

/-- a response HEADERS frame only for a stream id that was dispatched … -/
theorem response_only_after_dispatch (cfg : Cfg) (evs : List Event) :
    ∀ i ∈ headerIds (runOuts cfg evs), i ∈ dispatchedIds (runOuts cfg evs) :=
  headers_after_dispatch cfg evs

/-- … in an earlier step -/
theorem response_only_after_dispatch_strict (cfg : Cfg) (evs : List Event) (ev : Event) :
    ∀ i ∈ headerIds (step (run cfg evs).1 ev).2, i ∈ dispatchedIds (runOuts cfg evs) :=
  headers_after_dispatch_strict cfg evs ev

/-- **response_on_same_stream**: the HEADERS written when the handler of stream `sid` reports back carry id `sid`;
steps that handle input octets write no response HEADERS at all -/
theorem response_on_same_stream (cfg : Cfg) (evs : List Event) (ev : Event) :
    ∀ i ∈ headerIds (step (run cfg evs).1 ev).2, ∃ resp, ev = .done i resp := by
  intro i hi
  cases ev with
  | done sid resp =>
    have := headers_on_done_stream cfg evs sid resp i hi
    exact ⟨resp, by rw [this]⟩
  | bytes b => rw [input_step_no_headers _ _ (by intro _ _ h; cases h)] at hi; cases hi
  | cut => rw [input_step_no_headers _ _ (by intro _ _ h; cases h)] at hi; cases hi
  | idle => rw [input_step_no_headers _ _ (by intro _ _ h; cases h)] at hi; cases hi

/-- **end_stream_at_most_once**: in any run no stream id gets two frames carrying END_STREAM -/
theorem end_stream_at_most_once (cfg : Cfg) (evs : List Event) : (endStreamIds (runOuts cfg evs)).Nodup :=
  Server.end_stream_at_most_once cfg evs

/-- END_STREAM only on a stream whose response HEADERS have been written (HEADERS first, then DATA) -/
theorem end_stream_only_after_headers (cfg : Cfg) (evs : List Event) :
    ∀ i ∈ endStreamIds (runOuts cfg evs), i ∈ headerIds (runOuts cfg evs) :=
  end_stream_after_headers cfg evs

/-- once END_STREAM is out, the stream (if still in the table) owes nothing; nor does a stream without response
HEADERS: no DATA before HEADERS, none after END_STREAM -/
theorem nothing_owed_after_end_stream (cfg : Cfg) (evs : List Event) :
    (∀ st ∈ (run cfg evs).1.strms, st.id ∈ endStreamIds (runOuts cfg evs) → hasMoreToSend st = false) ∧
    (∀ st ∈ (run cfg evs).1.strms, st.id ∉ headerIds (runOuts cfg evs) → hasMoreToSend st = false) :=
  reachable_owes cfg evs

/-- non-vacuity of A and B: two interleaved streams (HEADERS 1, HEADERS 3 with END_STREAM, DATA 1 with END_STREAM),
handlers finishing in the order 3, 1: two dispatches, two responses -/
example : dispatchedIds (runOuts {} twoStreams) = [3, 1] ∧ headerIds (runOuts {} twoStreams) = [3, 1] ∧
    endStreamIds (runOuts {} twoStreams) = [3, 1] := by
  decide +kernel
example : (dispatchRecords (runOuts {} twoStreams)).length = 2 := by decide +kernel

/-! ## C. what the handler sees -/

/-- the dispatch record is a function of the stream id, the view (method, path, authority, content-type, user-agent,
other fields in order) and the body digest -/
theorem dispatch_record_is_view (st : Strm) :
    reqView st = .dispatch st.id st.view.method st.view.uri st.view.host
      ((match st.view.contentType with | some v => [(Gen.s_StringContentType, v)] | none => []) ++
       (match st.view.userAgent with | some v => [(Gen.s_StringUserAgent, v)] | none => []) ++ st.view.fields) st.body :=
  reqView_eq st

/-- **header_frame_folds_fields**: after a HEADERS or CONTINUATION frame that `handleHeaderFrame` accepts, the view is
the fold of `viewUpd` over the fields decoded (by `Hpack.Dec.next`, call after call) from the carried-over tail of
the previous frame followed by this frame's fragment -/
theorem header_frame_folds_fields (s : Srv) (st : Strm) (fr : Frame.Frame) (hn : (handleHeaderFrame s st fr).2.2 = none) :
    ∃ (bs : Bool) (frag : Bytes),
      (handleHeaderFrame s st fr).2.1.view =
        (loopFields ((st.prevHdr ++ frag).length + 1) s.dec bs 0 (st.prevHdr ++ frag)).foldl viewUpd st.view :=
  handleHeaderFrame_view s st fr hn

/-- **data_frame_adds_payload**: a DATA frame that `handleFrame` accepts adds exactly its payload — as the frame
parser delivers it, padding removed (E) — to the body digest, and nothing else of the request changes -/
theorem data_frame_adds_payload (r : R) (uid : Nat) (fr : Frame.Frame) (st : Strm) (es : Bool) (d : Bytes)
    (hg : r.getStrm uid = some st) (ht : fr.typ = Gen.c_FrameData) (hb : fr.body = .data es d)
    (hok : (handleFrame r uid fr).2 = none) :
    (handleFrame r uid fr).1.getStrm uid = some { st with recvBody := st.recvBody + d.length, body := st.body.add d } :=
  handleFrame_data r uid fr st es d hg ht hb hok

/-- **body_chunk_invariance**: the body digest after any sequence of DATA payloads is the digest of their
concatenation, so two chunkings of the same octets (empty frames included) give the handler the same body -/
theorem body_chunk_invariance (d : Digest) (c1 c2 : List Bytes) (h : c1.flatten = c2.flatten) :
    c1.foldl Digest.add d = c2.foldl Digest.add d :=
  Digest.chunk_invariance d c1 c2 h
example : [[104], [], [105]].foldl Digest.add {} = [[104, 105]].foldl Digest.add {} :=
  body_chunk_invariance {} _ _ rfl

/-! ## D. HPACK: encoding and fragmentation independence (restated from C03) -/

/-- **encoding_independence**: whatever representation the peer chooses for a field (indexed, literal with/without/
never indexing, name by index or literal, Huffman or raw strings — `Wire r w`), `Hpack.Dec.next` returns the RFC 7541
meaning of that representation -/
theorem encoding_independence (st : Hpack.DecState) (bs : Bool) (fp : Nat) (r : Hpack.Spec.Repr) (w rest : Bytes)
    (hw : Hpack.Spec.Wire r w) (st' : Hpack.DecState) (out : Option Hpack.Field)
    (ha : Hpack.Spec.apply st (if bs then fp else fp + 1) r = some (st', out)) :
    Hpack.Dec.next st bs fp (w ++ rest) =
      match out with
      | some f => .ok st' (some f) rest
      | none => Hpack.Dec.next st' bs fp rest :=
  C03.dec_complete st bs fp r w rest hw st' out ha

/-- a field the decoder yields is the next field the server's header loop takes -/
theorem loopFields_cons (n : Nat) (dec dec' : Hpack.DecState) (bs : Bool) (fp : Nat) (b rest : Bytes) (f : Hpack.Field)
    (h : Hpack.Dec.next dec bs fp b = .ok dec' (some f) rest) :
    loopFields (n + 1) dec bs fp b = f :: loopFields n dec' bs (fp + 1) rest := by
  have hlt := (C03.progress dec bs fp b dec' f rest h).2
  cases b with
  | nil => simp at hlt
  | cons c cs => simp [loopFields, h]

/-- **request_field_decoded**: in C01 vocabulary — whatever representation `w` the peer chose for a field with RFC
meaning `f`, the server's header loop takes `f` from `w ++ rest` and goes on with `rest` -/
theorem request_field_decoded (n : Nat) (st : Hpack.DecState) (bs : Bool) (fp : Nat) (r : Hpack.Spec.Repr) (w rest : Bytes)
    (hw : Hpack.Spec.Wire r w) (st' : Hpack.DecState) (f : Hpack.Field)
    (ha : Hpack.Spec.apply st (if bs then fp else fp + 1) r = some (st', some f)) :
    loopFields (n + 1) st bs fp (w ++ rest) = f :: loopFields n st' bs (fp + 1) rest :=
  loopFields_cons n st st' bs fp _ rest f (C03.dec_complete st bs fp r w rest hw st' (some f) ha)

/-- **fragmentation_independence**: cutting a header block into HEADERS + CONTINUATION frames at any octets gives the
header list, table and verdict of the whole block — also inside, between and right behind the dynamic table size
updates a block may open with (F04/F05 repaired) -/
theorem fragmentation_independence (dec : Hpack.DecState) (frames : List Bytes) (hne : frames ≠ [])
    (hle : dec.maxSize ≤ dec.limit) : C03.SplitAgrees dec frames :=
  C03.split_invariance dec frames hne hle

/-- a block in one frame: the header list RFC 7541 assigns to it, or an error exactly where RFC 7541 has one -/
theorem whole_block (dec : Hpack.DecState) (b : Bytes) (hle : dec.maxSize ≤ dec.limit) :
    match Hpack.Spec.decodeBlock dec b with
    | some (st', fs) => Hpack.Block.feed ⟨dec, [], false⟩ false true b = .ok ⟨st', [], !fs.isEmpty⟩ fs
    | none => ∃ fs, Hpack.Block.feed ⟨dec, [], false⟩ false true b = .err fs :=
  C03.block_whole dec b hle

/-! ## E. frames: padding and priority are stripped by the parser (restated from C05) -/

/-- **frame_payload_intact**: every frame the RFC 7540 grammar accepts — any padding, priority section, flags — is read
by `Frame.readFrame` (what `rlDrain` calls) to exactly the grammar's frame value, whose body carries the payload
without padding and priority section -/
theorem frame_payload_intact (max : Nat) (b : Bytes) (hb : WF b) (f : Frame.Frame) (rest : Bytes)
    (h : Frame.Spec.parse max b = .frame f rest) :
    Frame.readFrame max b = .ok f (9 + f.length) ∧ rest = b.drop (9 + f.length) ∧ 9 + f.length ≤ b.length :=
  C05.read_ok max b hb f rest h

/-! ## F. the response header block (composition of C04 with the full model) -/

/-- the encoder loop of `responseHeaders` is C04's `encBlock` -/
theorem encodeFields_eq_encBlock (enc : Hpack.EncState) (fields : List ((Bytes × Bytes) × Bool)) :
    encodeFields enc fields = Hpack.encBlock enc (fields.map fun fs => (⟨fs.1.1, fs.1.2, false⟩, fs.2)) := by
  have gen : ∀ (l : List ((Bytes × Bytes) × Bool)) (E : Hpack.EncState) (pre : Bytes),
      l.foldl (fun (acc : Hpack.EncState × Bytes) (fs : (Bytes × Bytes) × Bool) =>
        let x := Hpack.Enc.append acc.1 ⟨fs.1.1, fs.1.2, false⟩ fs.2
        (x.1, acc.2 ++ x.2)) (E, pre) =
      ((Hpack.encBlock E (l.map fun fs => (⟨fs.1.1, fs.1.2, false⟩, fs.2))).1,
        pre ++ (Hpack.encBlock E (l.map fun fs => (⟨fs.1.1, fs.1.2, false⟩, fs.2))).2) := by
    intro l
    induction l with
    | nil => intro E pre; simp [Hpack.encBlock]
    | cons a l ih => intro E pre; simp [Hpack.encBlock, ih, List.append_assoc]
  simpa [encodeFields] using gen fields enc []

/-- the fields of a response as HPACK fields -/
def responseFieldList (resp : Resp) : List Hpack.Field :=
  (responseFields resp).map fun fs => ⟨fs.1.1, fs.1.2, false⟩

/-- **response_block_roundtrip**: with encoder and peer decoder in step, the block `responseHeaders` encodes is decoded
by the RFC 7541 decoder to exactly `:status` and the handler's fields (names lower-cased), nothing left over, and the
two are in step again -/
theorem response_block_roundtrip (enc : Hpack.EncState) (D : Hpack.DecState) (resp : Resp) (hs : Hpack.Synced enc D)
    (hf : ∀ f ∈ responseFieldList resp, Hpack.FieldOK f) :
    ∃ D', Hpack.specFields (responseFieldList resp).length D 0 (encodeFields enc (responseFields resp)).2 =
        some (D', responseFieldList resp) ∧
      Hpack.Synced (encodeFields enc (responseFields resp)).1 D' := by
  have h := C04.enc_block_roundtrip ((responseFields resp).map fun fs => (⟨fs.1.1, fs.1.2, false⟩, fs.2)) enc D hs (by
    intro p hp
    obtain ⟨fs, hfs, rfl⟩ := List.mem_map.mp hp
    exact hf _ (List.mem_map.mpr ⟨fs, hfs, rfl⟩))
  rw [encodeFields_eq_encBlock]
  simpa [responseFieldList, List.map_map, Function.comp_def] using h

/-- the number of fields a block decodes to is at most its length -/
theorem specFields_le (n : Nat) (D D' : Hpack.DecState) (fp : Nat) (b : Bytes) (fs : List Hpack.Field)
    (h : Hpack.specFields n D fp b = some (D', fs)) : n ≤ b.length := by
  induction n generalizing D fp b fs with
  | zero => exact Nat.zero_le _
  | succ n ih =>
    simp only [Hpack.specFields] at h
    split at h
    · rename_i st' f rest hstep
      rw [← Hpack.next_eq_step] at hstep
      have hlt := (C03.progress D true fp b st' f rest hstep).2
      cases hr : Hpack.specFields n st' (fp + 1) rest with
      | none => simp [hr] at h
      | some p =>
        obtain ⟨D'', fs'⟩ := p
        simp only [hr, Option.map_some, Option.some.injEq, Prod.mk.injEq] at h
        obtain ⟨rfl, rfl⟩ := h
        have := ih st' (fp + 1) rest fs' hr
        omega
    · cases h

/-- the peer-side reference decoder of the full model reads what the specification decoder reads -/
theorem decodeAll_of_specFields (n : Nat) (D D' : Hpack.DecState) (fp : Nat) (b : Bytes) (fs acc : List Hpack.Field)
    (fuel : Nat) (hfuel : n < fuel) (h : Hpack.specFields n D fp b = some (D', fs)) :
    decodeAll fuel D true fp b acc = some (D', acc ++ fs) := by
  induction n generalizing D fp b fs acc fuel with
  | zero =>
    simp only [Hpack.specFields] at h
    split at h
    · rename_i hb
      subst hb
      cases fuel with
      | zero => omega
      | succ k => simp only [Option.some.injEq, Prod.mk.injEq] at h; simp [decodeAll, h.1, ← h.2]
    · cases h
  | succ n ih =>
    simp only [Hpack.specFields] at h
    split at h
    · rename_i st' f rest hstep
      rw [← Hpack.next_eq_step] at hstep
      have hlt := (C03.progress D true fp b st' f rest hstep).2
      cases hr : Hpack.specFields n st' (fp + 1) rest with
      | none => simp [hr] at h
      | some p =>
        obtain ⟨D'', fs'⟩ := p
        simp only [hr, Option.map_some, Option.some.injEq, Prod.mk.injEq] at h
        obtain ⟨rfl, rfl⟩ := h
        cases fuel with
        | zero => omega
        | succ k =>
          cases b with
          | nil => simp at hlt
          | cons c cs =>
            simp only [decodeAll, hstep]
            rw [ih st' (fp + 1) rest fs' (acc ++ [f]) k (by omega) hr]
            simp [List.append_assoc]
    · cases h

/-- **response_headers_intact**: with encoder and the peer's decoder in step, the frames of ONE header block are the only
thing the full model adds to the output for a handler's response: the encoder's block cut by the write loop
(`cutBlock`, `writeHeaderBlock` with 16384) into a HEADERS frame on the stream's id, with END_STREAM exactly when there is
no body, and CONTINUATION frames for what does not fit; END_HEADERS is on the last of them, and the field list the peer's
decoder reads from the whole block (printed on that last frame) is exactly `:status` followed by the handler's fields
(names lower-cased) -/
theorem response_headers_intact (r : R) (st : Strm) (resp : Resp) (hasBody : Bool)
    (hs : Hpack.Synced r.s.enc r.s.peerDec) (hf : ∀ f ∈ responseFieldList resp, Hpack.FieldOK f) :
    (responseHeaders r st resp hasBody).out =
      r.out ++ blockOuts st.id (!hasBody) ((responseFields resp).map (·.1)) false
        (cutBlock Gen.c_maxDataFrameSize (encodeFields r.s.enc (responseFields resp)).2) := by
  obtain ⟨D', h1, _⟩ := response_block_roundtrip r.s.enc r.s.peerDec resp hs hf
  have hle := specFields_le _ _ _ _ _ _ h1
  have h2 := decodeAll_of_specFields _ _ _ _ _ _ [] ((encodeFields r.s.enc (responseFields resp)).2.length + 1)
    (by omega) h1
  simp only [responseHeaders, h2]
  simp [responseFieldList, List.map_map, Function.comp_def]

/-- … and a block of at most 16384 octets is one HEADERS frame with END_HEADERS, as before the repair of F33 -/
theorem response_headers_intact_small (r : R) (st : Strm) (resp : Resp) (hasBody : Bool)
    (hs : Hpack.Synced r.s.enc r.s.peerDec) (hf : ∀ f ∈ responseFieldList resp, Hpack.FieldOK f)
    (hl : (encodeFields r.s.enc (responseFields resp)).2.length ≤ Gen.c_maxDataFrameSize) :
    (responseHeaders r st resp hasBody).out =
      r.out ++ [.headers st.id (!hasBody) true (encodeFields r.s.enc (responseFields resp)).2.length
        ((responseFields resp).map (·.1))] := by
  rw [response_headers_intact r st resp hasBody hs hf, blockOuts_small _ _ _ _ _ _ hl]

/-- non-vacuity of F: the first response of a connection (status 200, no further fields, no body) — the hypotheses
hold and the frame is `H(1, END_STREAM, END_HEADERS, :status: 200)` -/
example : (responseHeaders { s := {} } { uid := 0, id := 1, window := 0 } {} false).out =
    [.headers 1 true true (encodeFields {} (responseFields {})).2.length [(Gen.s_StringStatus, [50, 48, 48])]] := by
  have e : responseFieldList {} = [⟨Gen.s_StringStatus, [50, 48, 48], false⟩] := by decide +kernel
  have h := response_headers_intact_small { s := {} } { uid := 0, id := 1, window := 0 } {} false C04.synced_init (by
    intro f hf
    rw [e] at hf
    simp only [List.mem_singleton] at hf
    subst hf
    exact ⟨by decide, by decide, fun h => by cases h <;> exact ⟨by decide +kernel, by decide +kernel⟩⟩) (by decide +kernel)
  have e2 : (responseFields {}).map (·.1) = [(Gen.s_StringStatus, [50, 48, 48])] := by decide +kernel
  rw [e2] at h
  simpa using h

/-! ## G. body octets and END_STREAM (restated from C06, abstract send-side model) -/

/-- **end_stream_once**: in every reachable state of the send-side model, at most one DATA frame with END_STREAM has
been sent per stream, and once sent nothing is owed on the stream -/
theorem end_stream_once (evs : List Server.Flow.Ev) :
    ∀ s ∈ (Server.Flow.run Server.Flow.init evs).1.strms,
      s.fins ≤ 1 ∧ (s.fins = 1 → s.pending = 0 ∧ s.responded = true) :=
  C06.end_stream_once evs

/-- **body_conserved**: a `sendData` run emits plus leaves pending exactly what was pending -/
theorem body_conserved (s : Server.Flow.Strm) (cw : Int) (cs : Nat) :
    (Server.Flow.sendData s cw cs).1.pending + Server.Flow.total (Server.Flow.sendData s cw cs).2.2.2 = s.pending :=
  C06.send_conserves s cw cs

/-- **nothing_sendable_left**: after every step a stream that still owes octets is blocked by flow control -/
theorem nothing_sendable_left (evs : List Server.Flow.Ev) :
    ∀ s ∈ (Server.Flow.run Server.Flow.init evs).1.strms, s.responded = true → s.running = false → 0 < s.pending →
      min s.window (Server.Flow.run Server.Flow.init evs).1.cw ≤ 0 :=
  C06.no_sendable_left evs

/-! ## H. the request as a message (restated from the message model) -/

open H2.Server.Msg H2.Server.MsgSpec in
/-- **request_view_intact**: a well-formed request within the limits is handed to the handler with exactly the view the
specification derives from the header and trailer lists the peer sent -/
theorem request_view_intact (cfg : Server.Msg.Cfg) (hs tr : List Server.MsgSpec.Field) (d : Nat)
    (hl : Server.Msg.WithinLimits cfg hs tr d) (hv : Server.Msg.NoTrailerCL tr) (wf : Server.MsgSpec.WFRequest hs tr d) :
    Server.Msg.requestView cfg hs tr d = some (Server.MsgSpec.specView hs tr) :=
  Server.Msg.view_intact cfg hs tr d hl hv wf

/-- **field_chunk_invariance**: the field loop's result does not depend on how the list is cut into frames -/
theorem field_chunk_invariance (cfg : Server.Msg.Cfg) (cs : List (List Server.MsgSpec.Field)) (st : Server.Msg.St) :
    Server.Msg.loopChunks cfg st cs = Server.Msg.loop cfg st cs.flatten :=
  Server.Msg.chunk_invariance cfg cs st

end H2.Props.C01
