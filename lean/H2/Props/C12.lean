import H2.Proofs.ClientInter
import H2.Proofs.ClientWFail
import H2.Client.Locks
import H2.Proofs.ClientQueue
import H2.Proofs.ClientRunOnce
/-!
# C12 — every client request resolves exactly once, whatever the server does

`H2.Client.Inter`: all interleavings of callers in `Write`/`RoundTrip`, the write loop and its
teardown, `Close`, the read loop's `finish` and the timers, over an unbounded family of requests; what
the server does only decides which `finish`/`rdSetErr`/`close` actions happen, and they may happen at
any time. `H2.Client.Locks`: who holds and who asks for a request's ownership lock.
The theorems hold for the code before and after fix F42 (`rv` arbitrary) unless stated.

Write failures: in `H2.Client.Inter` the write loop can end by itself in three ways, each an action of
the transition system the theorems quantify over: `wlWriteFail` (the HEADERS of a request cannot be
written: `writeRequest`'s error branch), `wlBodyFail` (its HEADERS went out, a DATA write fails) and
`wlFail` (any other write fails: a frame of `out`, the DATA of `flushPending`, a PING; or pings go
unanswered). In `H2.Client.Locks` the error branch of `writeRequest` is `wlWriteFail` → `wlFailRelease` →
`wlFailDelete`: the lock is given back before `deletePending` asks for it. The serial model (the one
compared step by step with the real `Conn` under `failwrite`) has `write_failure_*` below.

A peer that is slow to read: `H2.Client.Queue` models the bounded control-frame queue `c.out`, its single
reader (the write loop) and the request lock both loops take. `queue_never_wedges` / `frame_leaves_full_queue`:
in the repaired code the write loop always gets back to its `select` without anybody needing room in the
queue, so a full queue drains once the peer reads again; `F83_deadlock_before_fix`, `F84_deadlock_before_fix`:
the code before the fixes reaches states in which nothing can move although the peer takes every octet.
(What the real client does while the peer does not read at all is runtime behaviour judged by the
monitors over the `clistall` family: results in time, Close returns, nobody left parked.)
-/
namespace H2.Props.C12

/-! ## the control-frame queue and the request lock: a full queue drains (findings F83, F84, fixed) -/

open H2.Client.Queue in
/-- **queue_never_wedges** (repaired code, any queue capacity): from every reachable state the write
loop gets back to its `select` in finitely many steps, none of which needs room in the control-frame
queue (its length does not change on the way): neither loop ever waits for the queue in a position
where the write loop, the queue's only reader, is held up -/
theorem queue_never_wedges (cap : Nat) {s : S} (h : Reach (Cfg.fixed cap) s) :
    ∃ s', Steps (Cfg.fixed cap) s s' ∧ s'.wl = .idle ∧ s'.q = s.q := by
  have i := inv h
  have j := inv_fixed h
  cases hw : s.wl with
  | idle => exact ⟨s, Steps.refl s, hw, rfl⟩
  | sending =>
    exact ⟨_, Steps.one (Step.wlSend s hw (i.wl.mpr hw)), rfl, rfl⟩
  | queueRst => exact absurd hw j.2
  | wantLock =>
    -- whoever holds the request lets go of it; then `acquireFor`, the DATA frames, release
    have fin : ∀ t, Reach (Cfg.fixed cap) t → t.holder = none → t.wl = .wantLock → t.q = s.q →
        ∃ s', Steps (Cfg.fixed cap) t s' ∧ s'.wl = .idle ∧ s'.q = s.q := fun t _ hn hwl hq =>
      ⟨_, Steps.tail (Steps.one (Step.wlAcquire t hwl hn)) (Step.wlSend _ rfl rfl), rfl, by simpa using hq⟩
    cases hh : s.holder with
    | none => exact fin s h hh hw rfl
    | some a =>
      cases a with
      | wl => rw [i.wl.mp hh] at hw; cases hw
      | rd =>
        obtain ⟨t, st, hn, hwl, hq⟩ := rd_releases h hh
        obtain ⟨s', st', r1, r2⟩ := fin t (h.steps st) hn (hwl.trans hw) hq
        exact ⟨s', st.trans st', r1, r2⟩

open H2.Client.Queue in
/-- **frame_leaves_full_queue**: however full the queue is, once the peer takes octets again the next
frame leaves it -/
theorem frame_leaves_full_queue (cap : Nat) {s : S} (h : Reach (Cfg.fixed cap) s) (hq : 0 < s.q) :
    ∃ s', Steps (Cfg.fixed cap) s s' ∧ s'.q = s.q - 1 := by
  obtain ⟨t, st, hw, hq'⟩ := queue_never_wedges cap h
  exact ⟨_, Steps.tail st (Step.wlTake t hw (by omega)), by simp [hq']⟩

open H2.Client.Queue in
/-- the hypotheses are satisfiable at the interesting point: the queue is full, the read loop holds the
request of a DATA frame, the write loop asks for it — and still a frame leaves the queue -/
example : ∃ s, Reach (Cfg.fixed 128) s ∧ s.q = 128 ∧ s.holder = some .rd ∧ s.wl = .wantLock ∧
    ∃ s', Steps (Cfg.fixed 128) s s' ∧ s'.q = 127 := by
  have r0 := reach_fill (Cfg.fixed 128) 128 (Nat.le_refl _)
  have r1 := Reach.step r0 (Step.wlWindow _ rfl)
  have r2 := Reach.step r1 (Step.rdAcquire _ rfl rfl)
  exact ⟨_, r2, rfl, rfl, rfl, frame_leaves_full_queue 128 r2 (by decide)⟩

open H2.Client.Queue in
/-- **F83 (before the fix)**: the queue is full, the read loop is in `dispatch` on a DATA frame of a stream
whose upload the write loop has just been woken for: the read loop waits for room in the queue with the
request held, the write loop waits for the request. Nothing can move (the state the harness reproduces
with known/F83.ops: `unstall quiet=0`) -/
theorem F83_deadlock_before_fix (cap : Nat) :
    ∃ s, Reach ⟨cap, true, false⟩ s ∧ s.q = cap ∧ Dead ⟨cap, true, false⟩ s := by
  have r0 := reach_fill ⟨cap, true, false⟩ cap (Nat.le_refl _)
  have r1 := Reach.step r0 (Step.wlWindow _ rfl)
  have r2 := Reach.step r1 (Step.rdAcquire _ rfl rfl)
  have r3 := Reach.step r2 (Step.rdDataOld _ rfl rfl)
  refine ⟨_, r3, rfl, ?_⟩
  intro s' st
  cases st <;> simp_all

open H2.Client.Queue in
/-- **F84 (before the fix)**: the queue is full and the write loop, in `sendPending`, queues the RST_STREAM
for a body whose reader failed: it waits for room in the queue only it can make; the read loop runs
into the full queue with its next frame (known/F84.ops) -/
theorem F84_deadlock_before_fix (cap : Nat) :
    ∃ s, Reach ⟨cap, false, true⟩ s ∧ s.q = cap ∧ Dead ⟨cap, false, true⟩ s := by
  have r0 := reach_fill ⟨cap, false, true⟩ cap (Nat.le_refl _)
  have r1 := Reach.step r0 (Step.wlWindow _ rfl)
  have r2 := Reach.step r1 (Step.wlAcquire _ rfl rfl)
  have r3 := Reach.step r2 (Step.wlReadFailOld _ rfl rfl rfl)
  have r4 := Reach.step r3 (Step.rdAcquire _ rfl rfl)
  have r5 := Reach.step r4 (Step.rdDataNew _ rfl rfl rfl)
  refine ⟨_, r5, rfl, ?_⟩
  intro s' st
  cases st <;> simp_all

open H2.Client.Inter

/-- **at_most_one_delivery**: a caller reads at most one value from its request's `Err` channel -/
theorem at_most_one_delivery {s : S} (h : Reach recheckFixed s) (i : Nat) : (s.r i).reads ≤ 1 := by
  have := (reachB h).b5 i
  split at this <;> omega

/-- **every unresolved request is somewhere a goroutine will find it**: past `Write`'s send, a request
on which no resolve has taken effect is still in `in` or in the stream table -/
theorem unresolved_is_held {rv} {s : S} (h : Reach rv s) (i : Nat) (hne : (s.r i).ever = false)
    (hp : (s.r i).pc = .recheck ∨ (s.r i).pc = .waiting) : (s.r i).inQ = true ∨ (s.r i).inTable = true :=
  (reachA h).i3 i hne hp

/-- **no_stranded_request**: once the write loop has exited (which implies `done` is closed: the
connection is over), every request whose caller is past `Write` and still waiting has a result in its
channel -/
theorem no_stranded_request {rv} {s : S} (h : Reach rv s) (hw : s.wl = .exited) (i : Nat)
    (hp : (s.r i).pc = .waiting) : (s.r i).errBuf.isSome = true := by
  have inv := reachA h
  have h3 := inv.i3 i
  have h4 := inv.i4 i
  have h5 := inv.i5 i
  have h6 := inv.i6 i
  grind

/-- a caller still inside `Write` after the write loop has exited is one step from a result:
`done` is closed, so its re-check resolves the request -/
theorem exited_implies_done {rv} {s : S} (h : Reach rv s) (hw : s.wl = .exited) : s.done = true :=
  (reachA h).i1 (Or.inr (Or.inr hw))

/-- a resolve that took effect is never lost: the value is in the channel until the caller takes it -/
theorem resolution_kept {rv} {s : S} (h : Reach rv s) (i : Nat) (he : (s.r i).ever = true) :
    (s.r i).errBuf.isSome = true ∨ (s.r i).pc = .taking ∨ (s.r i).pc = .got :=
  (reachA h).i6 i he

/-! ## ownership lock: no goroutine asks for a lock it holds (finding F46, fixed) -/

open H2.Client.Locks in
structure LockInv (s : H2.Client.Locks.S) : Prop where
  rd : s.holder = some .rd ↔ (s.rd = .holding ∨ s.rd = .finishing ∨ s.rd = .releasing)
  wl : s.holder = some .wl ↔ (s.wl = .holding ∨ s.wl = .failed ∨ s.wl = .sendHolding)
  other : s.holder ≠ some .timer ∧ s.holder ≠ some .caller

open H2.Client.Locks in
theorem lock_inv {s : H2.Client.Locks.S} (h : H2.Client.Locks.Reach true s) : LockInv s := by
  induction h with
  | init => constructor <;> simp
  | step _ st ih =>
    obtain ⟨h1, h2, h3⟩ := ih
    cases st <;> constructor <;> simp_all <;> grind

open H2.Client.Locks in
/-- **no_self_lock**: in the repaired code no reachable state has a goroutine asking for the
request lock it already holds -/
theorem no_self_lock {s : H2.Client.Locks.S} (h : H2.Client.Locks.Reach true s) : ¬ SelfLocked true s := by
  have inv := lock_inv h
  rintro ⟨a, hw, hh⟩
  cases a <;> simp [wants] at hw <;> grind [LockInv]

open H2.Client.Locks in
/-- **F46 (before the fix)**: the read loop takes a request in `dispatch`, a response or RST_STREAM ends
the stream while a streamed upload is pending, and `finish` → `deletePending` asks for the same lock:
a reachable self-locked state (the deadlock reproduced by replays/…F46-C12-before.json) -/
theorem F46_prefix_witness : ∃ s, H2.Client.Locks.Reach false s ∧ SelfLocked false s :=
  ⟨_, Reach.step (Reach.step Reach.init (Step.rdAcquire {} rfl rfl)) (Step.rdToFinish _ rfl), .rd, by decide, rfl⟩

/-! ## write failures on the serial model (`cli … failwrite n`) -/

open H2.Client in
/-- **write_failure_resolves_all**: when the octets a step writes exceed what the transport still takes,
the connection is dead after the step and every request that was in the stream table has a result
waiting (or its caller has already taken one) -/
theorem write_failure_resolves_all (c : Conn) (fs : List OutFrame) (b : Nat)
    (hb : (wireBytes c fs).1.wbudget = some b) (ho : b < (wireBytes c fs).2) :
    (afterWrites c fs).1.dead = true ∧ (afterWrites c fs).1.reqQueued = [] ∧
    ∀ r ∈ (wireBytes c fs).1.reqs, ((wireBytes c fs).1.reqQueued.any fun p => p.2 == r.tag) = true →
      ∃ r' ∈ (afterWrites c fs).1.reqs, r'.tag = r.tag ∧ (r'.errBuf.isSome = true ∨ r'.done = true) := by
  obtain ⟨h1, h2⟩ := afterWrites_over c fs b hb ho
  refine ⟨h2, by rw [h1]; rfl, fun r hr hq => ?_⟩
  rw [h1]
  exact dieWith_resolves _ _ r hr hq

open H2.Client in
/-- **write_failure_keeps_results**: the teardown after a failed write never replaces a result that was
already waiting for its caller: a request ends once -/
theorem write_failure_keeps_results (c : Conn) (fs : List OutFrame) (b : Nat)
    (hb : (wireBytes c fs).1.wbudget = some b) (ho : b < (wireBytes c fs).2) (x : Err)
    (r' : H2.Client.Req) (hr : r' ∈ (afterWrites c fs).1.reqs) :
    ∃ r ∈ (wireBytes c fs).1.reqs, r'.tag = r.tag ∧ (r.errBuf = some x → r'.errBuf = some x) := by
  rw [(afterWrites_over c fs b hb ho).1] at hr
  exact dieWith_keeps _ _ x r' hr

open H2.Client in
/-- **write_budget_exact**: within the budget all the step's frames go out and the budget shrinks by
exactly their octets; a transport that never fails leaves the model as it was before `failwrite` existed -/
theorem write_budget_exact (c : Conn) (fs : List OutFrame) :
    (∀ b, (wireBytes c fs).1.wbudget = some b → (wireBytes c fs).2 ≤ b →
      (afterWrites c fs).1 = { (wireBytes c fs).1 with wbudget := some (b - (wireBytes c fs).2) }) ∧
    ((wireBytes c fs).1.wbudget = none → (afterWrites c fs).1 = (wireBytes c fs).1) :=
  ⟨fun b hb hw => afterWrites_within c fs b hb hw, afterWrites_never c fs⟩

/-! ## non-vacuity -/

open H2.Client in
/-- the hypotheses of `write_failure_resolves_all` are satisfiable: a RST_STREAM (13 octets) against a
transport that takes 5 more, one request in the table -/
example : ∃ (c : Conn) (fs : List OutFrame) (b : Nat), (wireBytes c fs).1.wbudget = some b ∧ b < (wireBytes c fs).2 ∧
    ∃ r ∈ (wireBytes c fs).1.reqs, ((wireBytes c fs).1.reqQueued.any fun p => p.2 == r.tag) = true :=
  ⟨{ reqs := [{ tag := "a", sid := 1, hasConn := true }], reqQueued := [(1, "a")], wbudget := some 5 }, [.rst 1 8], 5,
    rfl, by decide, { tag := "a", sid := 1, hasConn := true }, by simp [wireBytes], by decide⟩

/-- a DATA write of `writeRequest` fails (`wlBodyFail`), the write loop tears the connection down and
exits: the request's caller, waiting, finds the error — an instance of `no_stranded_request` through the
write-failure actions -/
example : ∃ s, Reach recheckFixed s ∧ s.wl = .exited ∧ (s.r 0).pc = .waiting ∧ (s.r 0).written = true ∧
    (s.r 0).errBuf = some .fatal := by
  have r1 := Reach.step (rv := recheckFixed) Reach.init (Step.enqueue init 0 rfl)
  have r2 := Reach.step r1 (Step.recheckN _ 0 rfl rfl)
  have r3 := Reach.step r2 (Step.wlBodyFail _ 0 rfl rfl)
  have r4 := Reach.step r3 (Step.wlSetErr _ rfl)
  have r5 := Reach.step r4 (Step.wlClose _ rfl)
  have r6 := Reach.step r5 (Step.wlTakeAll _ rfl)
  have r7 := Reach.step r6 (Step.wlDrainEnd _ rfl (by intro j; by_cases hj : j = 0 <;> simp [upd, init, res, hj]))
  exact ⟨_, r7, rfl, by simp [upd, init, res], by simp [upd, init, res], by simp [upd, init, res]⟩

/-- the write loop can exit with a request whose caller is waiting: `no_stranded_request` is not empty -/
example : ∃ s, Reach recheckFixed s ∧ s.wl = .exited ∧ (s.r 0).pc = .waiting := by
  have r1 := Reach.step (rv := recheckFixed) Reach.init (Step.enqueue init 0 rfl)
  have r2 := Reach.step r1 (Step.recheckN _ 0 rfl rfl)
  have r3 := Reach.step r2 (Step.wlTakeWrite _ 0 rfl rfl)
  have r4 := Reach.step r3 (Step.close _)
  have r5 := Reach.step r4 (Step.wlSeeDone _ rfl rfl)
  have r6 := Reach.step r5 (Step.wlSetErr _ rfl)
  have r7 := Reach.step r6 (Step.wlClose _ rfl)
  have r8 := Reach.step r7 (Step.wlTakeAll _ rfl)
  have r9 := Reach.step r8 (Step.wlDrainEnd _ rfl (by intro j; by_cases hj : j = 0 <;> simp [upd, init, res, hj]))
  exact ⟨_, r9, rfl, by simp [upd, init, res]⟩

/-! ## the FULL serial model (`H2.Client.step`, the model the correspondence check compares with `conn.go`): every run

NEEDS `import H2.Proofs.ClientRunOnce` at the top of this file. `run c evs` folds `step` over ANY event list
(`req`, `bytes`, `timeout`, `read`, `close`, `cut`, `failwrite`; no bound on length or contents) and collects the
outputs; `Init c` is the connection as the driver creates it (`Drv.handshake`, `handshake_init`). The proofs are in
`H2/Proofs/ClientRun.lean` (runs, `MapLe`), `ClientRunRel.lean` (one lemma per function of the read loop),
`ClientRunStep.lean` (the invariant `Inv`, `step_inv`) and `ClientRunOnce.lean`. -/

section FullModel
open H2.Client

/-- **Full.delivered_at_most_once**: in any run of the full model from a new connection, for every tag, at most one
output hands a result of the request with that tag to its caller (`readRes (some _)`); no hypothesis on the tags -/
theorem Full.delivered_at_most_once (c : Conn) (h : Init c) (evs : List Event) (tag : String) :
    ((run c evs).2.filter (deliveredTo tag)).length ≤ 1 :=
  deliveries_le_one tag evs c (init_inv h)

/-- **Full.read_again_after_delivery**: if the step after `pre` delivers the result of `tag`, that step is the caller's
`read tag`, and in whatever follows nothing more is delivered for the tag and every `read tag` answers `readAgain` -/
theorem Full.read_again_after_delivery (c : Conn) (h : Init c) (pre : List Event) (e : Event) (post : List Event)
    (tag : String) (hd : deliveredTo tag (step (run c pre).1 e).2 = true) :
    e = .read tag ∧
    AllSteps (fun _ ev _ o => deliveredTo tag o = false ∧ (ev = .read tag → o = .readAgain)) (step (run c pre).1 e).1 post := by
  have hi := run_invariant (init_inv h) pre
  obtain ⟨he, hr⟩ := deliveredTo_marks _ e tag hd
  exact ⟨he, H2.Client.read_again_after_delivery tag _ (step_inv _ e hi) hr post⟩

/-- **Full.resolve_never_overwrites**: what `Ctx.resolve` does in the model, exactly: a request that was taken back by
its caller (`done`) or holds a result (`errBuf`) is returned unchanged; only a request with neither gets the result -/
theorem Full.resolve_never_overwrites (r : H2.Client.Req) (e : Err) :
    ((r.done = true ∨ r.errBuf.isSome = true) → r.resolve e = r) ∧
    ((r.done = false ∧ r.errBuf = none) → r.resolve e = { r with errBuf := some e }) :=
  Req.resolve_spec r e

/-- **Full.result_kept**: in any run, once the request `tag` holds the result `e`, it holds exactly `e` after any further
events that are not the caller's own `read tag` (frames, time-outs, write failures, `Close`, loss of the connection,
other requests), and the caller's `read tag` is then handed `e`: the first result is the one delivered -/
theorem Full.result_kept (c : Conn) (h : Init c) (pre evs : List Event) (tag : String) (e : Err)
    (hr : ∃ r, getReq (run c pre).1 tag = some r ∧ r.errBuf = some e) (hno : ∀ ev ∈ evs, isReadOf tag ev = false) :
    (∃ r', getReq (run (run c pre).1 evs).1 tag = some r' ∧ r'.errBuf = some e) ∧
    ∃ r', (step (run (run c pre).1 evs).1 (.read tag)).2 = .readRes (some (e, r')) :=
  ⟨H2.Client.result_kept tag e evs _ (run_invariant (init_inv h) pre) hr hno,
   first_result_is_delivered tag e evs _ (run_invariant (init_inv h) pre) hr hno⟩

/-- **Full.nothing_stranded**: in every state a run reaches with the connection dead, the request found under any tag
has a result waiting or was taken back by its caller -/
theorem Full.nothing_stranded (c : Conn) (h : Init c) (evs : List Event) (hd : (run c evs).1.dead = true) :
    ∀ t r, getReq (run c evs).1 t = some r → r.done = true ∨ r.errBuf.isSome = true :=
  dead_all_settled _ (run_invariant (init_inv h) evs) hd

/-- **Full.tags_are_the_req_events**: the requests of the connection are the `req` events of the run, in order (the
model never marks a connection `stuck`), so distinct tags stay distinct -/
theorem Full.tags_are_the_req_events (c : Conn) (h : Init c) (evs : List Event) :
    (run c evs).1.reqs.map (·.tag) = evs.filterMap reqTag := by
  rw [run_tags evs c (init_inv h), h.reqs]; rfl

/-- **Full.nothing_stranded_unique**: if the tags of the `req` events are distinct, EVERY request of a dead connection
is resolved -/
theorem Full.nothing_stranded_unique (c : Conn) (h : Init c) (evs : List Event) (hn : (evs.filterMap reqTag).Nodup)
    (hd : (run c evs).1.dead = true) : ∀ r ∈ (run c evs).1.reqs, r.done = true ∨ r.errBuf.isSome = true :=
  dead_all_settled_mem _ (run_invariant (init_inv h) evs) hd (by rw [Full.tags_are_the_req_events c h evs]; exact hn)

/-- **Full.req_on_dead_connection**: a request handed to a connection that has ended is answered `dead` and every request
with its tag is resolved in that same step -/
theorem Full.req_on_dead_connection (c : Conn) (h : Init c) (evs : List Event) (r : ReqSpec)
    (hd : (run c evs).1.dead = true) :
    (step (run c evs).1 (.req r)).2 = .dead ∧
    ∀ q ∈ (step (run c evs).1 (.req r)).1.reqs, q.tag = r.tag → q.done = true ∨ q.errBuf.isSome = true :=
  req_on_dead_settled _ r (run_invariant (init_inv h) evs).stuck hd

/-- **Full.table_streams_distinct**: in every reachable state the stream ids of the table of waiting requests are distinct
and below `nextID`, and a dead connection's table is empty -/
theorem Full.table_streams_distinct (c : Conn) (h : Init c) (evs : List Event) :
    ((run c evs).1.reqQueued.map (·.1)).Nodup ∧ (∀ p ∈ (run c evs).1.reqQueued, p.1 < (run c evs).1.nextID) ∧
    ((run c evs).1.dead = true → (run c evs).1.reqQueued = []) :=
  let i := run_invariant (init_inv h) evs
  ⟨i.keys, i.below, i.deadTable⟩

/-! ### non-vacuity: a request, its response, two reads, `Close`, a late request -/

def fullReq (tag : String) : ReqSpec :=
  { tag := tag, method := [71, 69, 84], scheme := [104, 116, 116, 112, 115], host := [104], path := [47], ua := [117],
    hdrs := [], body := .none }

/-- HEADERS on stream 1, END_STREAM | END_HEADERS, `:status 200` -/
def fullResp : List Nat := [0, 0, 1, 1, 5, 0, 0, 0, 1, 0x88]

def fullRun : List Event := [.req (fullReq "a"), .bytes fullResp, .read "a", .read "a", .req (fullReq "b"), .close, .read "b"]

example : Init ({} : Conn) := init_default

/-- the run delivers exactly one result for "a" (the second `read` answers `readAgain`) and one for "b" -/
example : ((run {} fullRun).2.filter (deliveredTo "a")).length = 1 ∧ ((run {} fullRun).2.filter (deliveredTo "b")).length = 1 := by
  decide +kernel

/-- `Full.read_again_after_delivery` is used: the third step delivers -/
example : deliveredTo "a" (step (run {} (fullRun.take 2)).1 (.read "a")).2 = true := by decide +kernel

/-- `Full.result_kept`: after the response "a" holds `ok`; `Close` and another request do not change it -/
example : (getReq (run {} (fullRun.take 2)).1 "a").map (·.errBuf) = some (some .ok) := by decide +kernel

/-- `Full.nothing_stranded`: the connection is dead after `close`, "b" was waiting and got `eof` -/
example : (run {} (fullRun.take 6)).1.dead = true ∧
    ((run {} (fullRun.take 6)).1.reqs.map fun q => (q.tag, q.done, q.errBuf)) = [("a", true, none), ("b", false, some .eof)] := by
  decide +kernel

/-- `Full.req_on_dead_connection` -/
example : (match (step (run {} (fullRun.take 6)).1 (.req (fullReq "c"))).2 with | .dead => true | _ => false) = true := by
  decide +kernel

example : (fullRun.filterMap reqTag).Nodup := by decide

end FullModel

end H2.Props.C12
