import H2.Client.Recv
/-!
# C18 (client half) — SETTINGS are acknowledged one for one and the server's limits persist

Serial model of the read loop (`rdFrame`, `handleSettings`, `applyPairs`) and of `CanOpenStream` /
`writeRequest`, after fix F47 (a SETTINGS frame no longer resets what it does not mention).
Not met and recorded as known: ENABLE_PUSH=0 is never transmitted (F35); a request's header block is
one HEADERS frame whatever the server's MAX_FRAME_SIZE (F33, shared with the server half).
-/
namespace H2.Props.C18c

open H2.Client

theorem applyPairs_outQ (c : Conn) (ps : List (Nat × Nat)) : (applyPairs c ps).outQ = c.outQ := by
  induction ps generalizing c with
  | nil => rfl
  | cons p ps ih =>
    obtain ⟨k, v⟩ := p
    simp only [applyPairs]
    rw [ih]; repeat (first | rfl | split)

/-- **acks**: every SETTINGS frame without ACK queues exactly one SETTINGS acknowledgement, after
whatever the read loop had queued before (the write loop sends `out` in order) -/
theorem acks (c : Conn) (f : Frame.Frame) (s : Frame.SettingsVal) (hs : f.stream = 0)
    (hb : f.body = .settings s) (hna : s.ack = false) :
    (rdFrame c f).1.outQ = c.outQ ++ [.settingsAck] ∧ (rdFrame c f).2 = false := by
  simp only [rdFrame, hs, hb, hna, beq_self_eq_true, if_true, Bool.false_eq_true, if_false, handleSettings, queueOut]
  constructor
  · split
    · simp [applyInitialWindow, applyPairs_outQ]
    · simp [applyPairs_outQ]
  · trivial

/-- an acknowledgement from the server is not acknowledged back -/
theorem ack_not_acked (c : Conn) (f : Frame.Frame) (s : Frame.SettingsVal) (hs : f.stream = 0)
    (hb : f.body = .settings s) (ha : s.ack = true) : (rdFrame c f).1 = c := by
  simp [rdFrame, hs, hb, ha]

/-- **limits persist**: a SETTINGS frame that does not mention MAX_CONCURRENT_STREAMS leaves the limit
the client holds for the server untouched (likewise MAX_FRAME_SIZE and HEADER_TABLE_SIZE) -/
theorem unmentioned_persist (c : Conn) (ps : List (Nat × Nat)) :
    ((∀ p ∈ ps, p.1 ≠ Gen.c_MaxConcurrentStreams) → (applyPairs c ps).maxStreams = c.maxStreams) ∧
    ((∀ p ∈ ps, p.1 ≠ Gen.c_MaxFrameSize) → (applyPairs c ps).maxFrameSize = c.maxFrameSize) ∧
    ((∀ p ∈ ps, p.1 ≠ Gen.c_HeaderTableSize) → (applyPairs c ps).srvTableSize = c.srvTableSize) := by
  induction ps generalizing c with
  | nil => exact ⟨fun _ => rfl, fun _ => rfl, fun _ => rfl⟩
  | cons p ps ih =>
    obtain ⟨k, v⟩ := p
    simp only [applyPairs, List.mem_cons, forall_eq_or_imp]
    refine ⟨?_, ?_, ?_⟩
    · rintro ⟨hk, hr⟩
      rw [(ih _).1 hr]
      have : (k == Gen.c_MaxConcurrentStreams) = false := by simpa using hk
      simp only [this, Bool.false_eq_true, if_false]; repeat (first | rfl | split)
    · rintro ⟨hk, hr⟩
      rw [(ih _).2.1 hr]
      have : (k == Gen.c_MaxFrameSize) = false := by simpa using hk
      simp only [this, Bool.false_eq_true, if_false]; repeat (first | rfl | split)
    · rintro ⟨hk, hr⟩
      rw [(ih _).2.2 hr]
      have : (k == Gen.c_HeaderTableSize) = false := by simpa using hk
      simp only [this, Bool.false_eq_true, if_false]; repeat (first | rfl | split)

/-- **MAX_CONCURRENT_STREAMS obeyed**: a request is only put on a new stream while the number of open
streams is below the server's limit; otherwise nothing is written -/
theorem concurrent_streams_obeyed (c : Conn) (r : ReqSpec) :
    (writeRequest c r).2 ≠ [] → c.openStreams < (c.maxStreams : Int) := by
  intro h
  by_cases hc : canOpenStream c = true
  · simp [canOpenStream] at hc; exact hc.2
  · simp only [Bool.not_eq_true] at hc
    simp [writeRequest, hc] at h

/-- **MAX_FRAME_SIZE obeyed by DATA**: see `H2.Props.C07.data_frames_within_max` (the step is the value
`applyPairs` recorded); here: the value recorded is the one the server sent last -/
theorem frame_size_recorded (c : Conn) (v : Nat) :
    (applyPairs c [(Gen.c_MaxFrameSize, v)]).maxFrameSize = v := by
  simp [applyPairs, Gen.c_MaxFrameSize, Gen.c_HeaderTableSize, Gen.c_MaxConcurrentStreams]

/-- non-vacuity of `acks` -/
example : ∃ c f s, f.stream = 0 ∧ f.body = Frame.Body.settings s ∧ s.ack = false ∧
    (rdFrame c f).1.outQ = c.outQ ++ [OutFrame.settingsAck] :=
  ⟨{}, ⟨Gen.c_FrameSettings, 0, 0, 0, .settings {}⟩, {}, rfl, rfl, rfl, (acks _ _ _ rfl rfl rfl).1⟩

end H2.Props.C18c
