import H2.Client.Recv
import H2.Proofs.HpackEnc
import H2.Proofs.ClientRunCount
import H2.Proofs.ClientHdrFrames
/-!
# C18 (client half) — SETTINGS are acknowledged one for one and the server's limits persist

Serial model of the read loop (`rdFrame`, `handleSettings`, `applyPairs`) and of `CanOpenStream` /
`writeRequest`, after fix F47 (a SETTINGS frame no longer resets what it does not mention) and the repair of
F09c: every SETTINGS_HEADER_TABLE_SIZE value reaches the write loop's encoder as "smallest since the last
request, then last" (`noted_*`, `applied_*`, `dip_announced`), so a size that dips and comes back is announced.
F35 is repaired as well: the SETTINGS frame of the handshake carries ENABLE_PUSH=0 (`advertises_push_off`), and the
zeros of the client's never-reset `Settings` still stay off the wire (`advertises_nothing_else`).
F33 (shared with the server half) is repaired too: a request's header block longer than the server's MAX_FRAME_SIZE goes
out as HEADERS + CONTINUATION frames of at most that size (`header_frames_within_server_max_frame_size`,
`request_block_frames_add_up`).
-/
namespace H2.Props.C18c

open H2.Client

theorem noteTableSizes_outQ (c : Conn) (ps : List (Nat × Nat)) :
    (noteTableSizes c ps).outQ = c.outQ ∧ (noteTableSizes c ps).pending = c.pending ∧
    (noteTableSizes c ps).streamWindow = c.streamWindow := by
  induction ps generalizing c with
  | nil => exact ⟨rfl, rfl, rfl⟩
  | cons p ps ih =>
    obtain ⟨k, v⟩ := p
    simp only [noteTableSizes]
    obtain ⟨h1, h2, h3⟩ := ih (if (k == Gen.c_HeaderTableSize) = true then
        { c with encTableMin := if (!c.encTableSet || decide (v < c.encTableMin)) = true then v else c.encTableMin
                 encTableSize := v, encTableSet := true } else c)
    rw [h1, h2, h3]
    split <;> exact ⟨rfl, rfl, rfl⟩

theorem applyPairs_outQ (c : Conn) (ps : List (Nat × Nat)) : (applyPairs c ps).outQ = c.outQ := by
  induction ps generalizing c with
  | nil => rfl
  | cons p ps ih =>
    obtain ⟨k, v⟩ := p
    simp only [applyPairs]
    rw [ih]; repeat (first | rfl | split)

/-- **acks**: every SETTINGS frame without ACK queues exactly one SETTINGS acknowledgement, after
whatever the read loop had queued before (the write loop sends `out` in order) -/
theorem acks (c : Conn) (f : Frame.Frame) (s : Frame.SettingsVal) (hs : f.stream = 0)
    (hb : f.body = .settings s) (hna : s.ack = false) :
    (rdFrame c f).1.outQ = c.outQ ++ [.settingsAck] ∧ (rdFrame c f).2 = false := by
  simp only [rdFrame, hs, hb, hna, beq_self_eq_true, if_true, Bool.false_eq_true, if_false, handleSettings, queueOut]
  constructor
  · split
    · simp [applyInitialWindow, applyPairs_outQ, (noteTableSizes_outQ _ _).1]
    · simp [applyPairs_outQ, (noteTableSizes_outQ _ _).1]
  · trivial

/-- an acknowledgement from the server is not acknowledged back -/
theorem ack_not_acked (c : Conn) (f : Frame.Frame) (s : Frame.SettingsVal) (hs : f.stream = 0)
    (hb : f.body = .settings s) (ha : s.ack = true) : (rdFrame c f).1 = c := by
  simp [rdFrame, hs, hb, ha]

/-- **limits persist**: a SETTINGS frame that does not mention MAX_CONCURRENT_STREAMS leaves the limit
the client holds for the server untouched (likewise MAX_FRAME_SIZE and HEADER_TABLE_SIZE) -/
theorem unmentioned_persist (c : Conn) (ps : List (Nat × Nat)) :
    ((∀ p ∈ ps, p.1 ≠ Gen.c_MaxConcurrentStreams) → (applyPairs c ps).maxStreams = c.maxStreams) ∧
    ((∀ p ∈ ps, p.1 ≠ Gen.c_MaxFrameSize) → (applyPairs c ps).maxFrameSize = c.maxFrameSize) ∧
    ((∀ p ∈ ps, p.1 ≠ Gen.c_HeaderTableSize) → (applyPairs c ps).srvTableSize = c.srvTableSize) := by
  induction ps generalizing c with
  | nil => exact ⟨fun _ => rfl, fun _ => rfl, fun _ => rfl⟩
  | cons p ps ih =>
    obtain ⟨k, v⟩ := p
    simp only [applyPairs, List.mem_cons, forall_eq_or_imp]
    refine ⟨?_, ?_, ?_⟩
    · rintro ⟨hk, hr⟩
      rw [(ih _).1 hr]
      have : (k == Gen.c_MaxConcurrentStreams) = false := by simpa using hk
      simp only [this, Bool.false_eq_true, if_false]; repeat (first | rfl | split)
    · rintro ⟨hk, hr⟩
      rw [(ih _).2.1 hr]
      have : (k == Gen.c_MaxFrameSize) = false := by simpa using hk
      simp only [this, Bool.false_eq_true, if_false]; repeat (first | rfl | split)
    · rintro ⟨hk, hr⟩
      rw [(ih _).2.2 hr]
      have : (k == Gen.c_HeaderTableSize) = false := by simpa using hk
      simp only [this, Bool.false_eq_true, if_false]; repeat (first | rfl | split)

/-- **MAX_CONCURRENT_STREAMS obeyed**: a request is only put on a new stream while the number of open
streams is below the server's limit; otherwise nothing is written -/
theorem concurrent_streams_obeyed (c : Conn) (r : ReqSpec) :
    (writeRequest c r).2 ≠ [] → c.openStreams < (c.maxStreams : Int) := by
  intro h
  by_cases hc : canOpenStream c = true
  · simp [canOpenStream] at hc; exact hc.2
  · simp only [Bool.not_eq_true] at hc
    simp [writeRequest, hc] at h

/-- **MAX_FRAME_SIZE obeyed by DATA**: see `H2.Props.C07.data_frames_within_max` (the step is the value
`applyPairs` recorded); here: the value recorded is the one the server sent last -/
theorem frame_size_recorded (c : Conn) (v : Nat) :
    (applyPairs c [(Gen.c_MaxFrameSize, v)]).maxFrameSize = v := by
  simp [applyPairs, Gen.c_MaxFrameSize, Gen.c_HeaderTableSize, Gen.c_MaxConcurrentStreams]

/-! ## MAX_FRAME_SIZE obeyed by header blocks (finding F33, repaired)

`writeRequest` queues ONE HEADERS frame per request; `writeHeaderBlock` cuts it where it is written, under `bwLck`, at
`frameStep` — the value `writeData` uses. `wireFrames` is what reaches the wire (and what the driver prints). -/

/-- the step header blocks and DATA are cut at is the server's SETTINGS_MAX_FRAME_SIZE: the value recorded by
`applyPairs` (`frame_size_recorded`) whenever it is one a SETTINGS frame can carry (2^14 … 2^24-1; anything else is
refused by the frame layer), the size every peer accepts otherwise; it is never 0 -/
theorem frame_step_is_servers (c : Conn) :
    0 < frameStep c ∧
    (0 < c.maxFrameSize → c.maxFrameSize ≤ Gen.c_maxFrameSize → frameStep c = c.maxFrameSize) ∧
    (c.maxFrameSize = 0 ∨ c.maxFrameSize > Gen.c_maxFrameSize → frameStep c = 2 ^ 14) :=
  ⟨frameStep_pos c, frameStep_is_servers c, fun h => by rw [frameStep_default c h]; rfl⟩

/-- **Every HEADERS-without-END_HEADERS and every CONTINUATION frame written is at most the server's MAX_FRAME_SIZE**,
whatever frames the step queued (`fs` without wire-only frames: what `writeRequest`, `sendPending` and the read loop
queue, see `request_queues_no_fragments`) and whatever the encoder's state; a HEADERS frame that keeps END_HEADERS
carries a block that fits (`whole_headers_frame_fits`). -/
theorem header_frames_within_server_max_frame_size (c : Conn) (fs : List OutFrame) (h : NoFrag fs) :
    ∀ n ∈ (wireFrames c fs).filterMap OutFrame.fragLen, n ≤ frameStep c := by
  intro n hn
  rcases wireFrames_frags c fs n hn with h1 | h1
  · exact h1
  · rw [h.filterMap] at h1; cases h1

theorem request_queues_no_fragments (c : Conn) (r : ReqSpec) : NoFrag (writeRequest c r).2 :=
  writeRequest_noFrag c r

/-- one queued HEADERS frame on the wire: the frames `headerFrames` makes of the fragment lengths of its block -/
theorem one_block_on_the_wire (c : Conn) (sid : Nat) (es : Bool) (fields : List (Bytes × Bytes)) :
    wireFrames c [.headers sid es fields] =
      headerFrames sid es fields (blockLens (frameStep c) (encodeHeaders c fields).2) := by
  simp [wireFrames]

/-- a block that fits stays the single HEADERS frame it was (END_HEADERS set) -/
theorem whole_headers_frame_fits (c : Conn) (sid : Nat) (es : Bool) (fields : List (Bytes × Bytes))
    (h : (encodeHeaders c fields).2 ≤ frameStep c) :
    wireFrames c [.headers sid es fields] = [.headers sid es fields] := by
  rw [one_block_on_the_wire, headerFrames_small _ _ _ _ _ h]

/-- **The fragments of a request header block add up to the block** (client twin of
`C18.header_block_frames_are_whole`; the client model carries block lengths, not octets): a block of `n` octets longer than
the step goes out as a HEADERS frame without END_HEADERS carrying exactly `step` octets, END_STREAM staying on it, then at
least one CONTINUATION frame; the payload lengths are `blockLens step n`, each at most `step`, none of the CONTINUATION
frames empty, and their sum is `n`; END_HEADERS and the field list are on the last CONTINUATION frame (`contFrames`). -/
theorem request_block_frames_add_up (sid : Nat) (es : Bool) (fields : List (Bytes × Bytes)) (step : Nat) (hs : 0 < step)
    (n : Nat) (h : step < n) :
    (∃ l rest, blockLens step n = step :: l :: rest ∧ (∀ x ∈ l :: rest, 0 < x) ∧
      headerFrames sid es fields (blockLens step n) = .hfrag sid es step :: contFrames sid fields (l :: rest) ∧
      (contFrames sid fields (l :: rest)).filterMap OutFrame.fragLen = l :: rest) ∧
    (∀ x ∈ blockLens step n, x ≤ step) ∧ (blockLens step n).sum = n := by
  obtain ⟨l, rest, e, hp⟩ := blockLens_big step hs n h
  exact ⟨⟨l, rest, e, hp, by simp [e, headerFrames], fragLen_contFrames _ _ _⟩, blockLens_le step n, blockLens_sum step hs n⟩

/-- END_HEADERS is on the last CONTINUATION frame and on no other, the decoded fields with it -/
theorem cont_frames_shape (sid : Nat) (fields : List (Bytes × Bytes)) (l : Nat) (rest : List Nat) :
    contFrames sid fields (l :: rest) =
      .cont sid rest.isEmpty l (if rest.isEmpty then fields else []) :: contFrames sid fields rest := rfl

/-- non-vacuity: 40 000 octets towards a server that left MAX_FRAME_SIZE at 16384: 3 frames; towards one that announced
32768: 2 frames; 16384 octets: the one HEADERS frame; 16385: two frames -/
example : blockLens 16384 40000 = [16384, 16384, 7232] := by decide
example : blockLens 32768 40000 = [32768, 7232] := by decide
example : blockLens 16384 16384 = [16384] ∧ blockLens 16384 16385 = [16384, 1] := by decide
example : headerFrames 1 true [([1], [2])] [16384, 16384, 7232] =
    [.hfrag 1 true 16384, .cont 1 false 16384 [], .cont 1 true 7232 [([1], [2])]] := rfl
example : frameStep { maxFrameSize := 32768 } = 32768 ∧ frameStep {} = 16384 ∧ frameStep { maxFrameSize := 0 } = 16384 := by decide

/-! ## SETTINGS_HEADER_TABLE_SIZE: every change reaches the encoder (repair of F09c) -/

/-- the values a SETTINGS frame carries for the header table size, in order -/
def tableVals (ps : List (Nat × Nat)) : List Nat := (ps.filter fun p => p.1 == Gen.c_HeaderTableSize).map (·.2)

/-- the hand-over as a function of the values alone: (anything to apply, smallest, last) -/
def noteVals : Bool × Nat × Nat → List Nat → Bool × Nat × Nat
  | s, [] => s
  | (set, mn, _), v :: vs => noteVals (true, if !set || v < mn then v else mn, v) vs

theorem noteTableSizes_eq (ps : List (Nat × Nat)) : ∀ c : Conn,
    ((noteTableSizes c ps).encTableSet, (noteTableSizes c ps).encTableMin, (noteTableSizes c ps).encTableSize) =
      noteVals (c.encTableSet, c.encTableMin, c.encTableSize) (tableVals ps) := by
  induction ps with
  | nil => intro c; rfl
  | cons p ps ih =>
    intro c
    obtain ⟨k, v⟩ := p
    simp only [noteTableSizes]
    by_cases hk : (k == Gen.c_HeaderTableSize) = true
    · have tv : tableVals ((k, v) :: ps) = v :: tableVals ps := by simp [tableVals, hk]
      simp only [hk, if_true, tv, noteVals]
      rw [ih]
    · have tv : tableVals ((k, v) :: ps) = tableVals ps := by simp [tableVals, hk]
      simp only [hk, Bool.false_eq_true, if_false, tv]
      rw [ih]

/-- the smallest handed over is at most every value sent, and at most what was waiting already -/
theorem noteVals_min (vs : List Nat) : ∀ (set : Bool) (mn last : Nat),
    (∀ v ∈ vs, (noteVals (set, mn, last) vs).2.1 ≤ v) ∧ (set = true → (noteVals (set, mn, last) vs).2.1 ≤ mn) := by
  induction vs with
  | nil => intro set mn last; exact ⟨fun v hv => by simp at hv, fun _ => Nat.le_refl _⟩
  | cons w ws ih =>
    intro set mn last
    simp only [noteVals]
    obtain ⟨i1, i2⟩ := ih true (if (!set || decide (w < mn)) = true then w else mn) w
    have i2 := i2 rfl
    refine ⟨?_, ?_⟩
    · intro v hv
      simp only [List.mem_cons] at hv
      rcases hv with rfl | hv
      · refine Nat.le_trans i2 ?_
        split
        · exact Nat.le_refl _
        · rename_i h; simp at h; omega
      · exact i1 v hv
    · intro hs
      refine Nat.le_trans i2 ?_
      subst hs
      simp only [Bool.not_true, Bool.false_or, decide_eq_true_eq]
      split <;> omega

/-- it is one of the values sent when nothing was waiting: no lower than it has to be -/
theorem noteVals_attained (vs : List Nat) : ∀ (set : Bool) (mn last : Nat),
    (noteVals (set, mn, last) vs).2.1 ∈ vs ∨ ((noteVals (set, mn, last) vs).2.1 = mn ∧ (set = true ∨ vs = [])) := by
  induction vs with
  | nil => intro set mn last; right; exact ⟨rfl, .inr rfl⟩
  | cons w ws ih =>
    intro set mn last
    simp only [noteVals]
    rcases ih true (if (!set || decide (w < mn)) = true then w else mn) w with h | ⟨h, _⟩
    · left; exact List.mem_cons_of_mem _ h
    · rw [h]
      by_cases hc : (!set || decide (w < mn)) = true
      · left; simp [hc]
      · right
        simp only [hc, Bool.false_eq_true, if_false, true_and]
        left
        cases set <;> simp_all

/-- and the last is the last -/
theorem noteVals_last (vs : List Nat) : ∀ (s : Bool × Nat × Nat) (h : vs ≠ []),
    (noteVals s vs).1 = true ∧ (noteVals s vs).2.2 = vs.getLast h := by
  induction vs with
  | nil => intro s h; exact absurd rfl h
  | cons w ws ih =>
    intro s h
    obtain ⟨set, mn, last⟩ := s
    simp only [noteVals]
    by_cases he : ws = []
    · subst he; simp [noteVals]
    · obtain ⟨j1, j2⟩ := ih (true, (if (!set || decide (w < mn)) = true then w else mn), w) he
      exact ⟨j1, by rw [j2, List.getLast_cons he]⟩

/-- **every change reaches the write loop**: with nothing waiting, a SETTINGS frame that carries table sizes hands over
their minimum (at most each of them, and one of them) and the last of them -/
theorem noted (c : Conn) (ps : List (Nat × Nat)) (hs : c.encTableSet = false) (hne : tableVals ps ≠ []) :
    (noteTableSizes c ps).encTableSet = true ∧
    (∀ v ∈ tableVals ps, (noteTableSizes c ps).encTableMin ≤ v) ∧
    (noteTableSizes c ps).encTableMin ∈ tableVals ps ∧
    (noteTableSizes c ps).encTableSize = (tableVals ps).getLast hne := by
  have e := noteTableSizes_eq ps c
  have e1 : (noteTableSizes c ps).encTableSet = (noteVals (c.encTableSet, c.encTableMin, c.encTableSize) (tableVals ps)).1 :=
    congrArg (·.1) e
  have e2 : (noteTableSizes c ps).encTableMin = (noteVals (c.encTableSet, c.encTableMin, c.encTableSize) (tableVals ps)).2.1 :=
    congrArg (·.2.1) e
  have e3 : (noteTableSizes c ps).encTableSize = (noteVals (c.encTableSet, c.encTableMin, c.encTableSize) (tableVals ps)).2.2 :=
    congrArg (·.2.2) e
  obtain ⟨l1, l2⟩ := noteVals_last (tableVals ps) (c.encTableSet, c.encTableMin, c.encTableSize) hne
  refine ⟨e1.trans l1, ?_, ?_, e3.trans l2⟩
  · intro v hv; rw [e2]; exact (noteVals_min _ _ _ _).1 v hv
  · rw [e2]
    rcases noteVals_attained (tableVals ps) c.encTableSet c.encTableMin c.encTableSize with h | ⟨_, h | h⟩
    · exact h
    · rw [hs] at h; cases h
    · exact absurd h hne

/-- with something waiting already (several SETTINGS frames between two requests) the minimum only goes down -/
theorem noted_again (c : Conn) (ps : List (Nat × Nat)) (hs : c.encTableSet = true) :
    (noteTableSizes c ps).encTableMin ≤ c.encTableMin ∧ ∀ v ∈ tableVals ps, (noteTableSizes c ps).encTableMin ≤ v := by
  have e2 : (noteTableSizes c ps).encTableMin = (noteVals (c.encTableSet, c.encTableMin, c.encTableSize) (tableVals ps)).2.1 :=
    congrArg (·.2.1) (noteTableSizes_eq ps c)
  rw [e2]
  exact ⟨(noteVals_min _ _ _ _).2 hs, (noteVals_min _ _ _ _).1⟩

open H2.Hpack in
/-- **the table obeys the smallest limit**: after `writeRequest` has told its encoder, the encoder's table is no
larger than the smallest SETTINGS_HEADER_TABLE_SIZE the server asked for in between (the size its own decoder may
have shrunk to), and its limit is the last value -/
theorem applied_within_min (c : Conn) (hs : c.encTableSet = true) (hle : c.encTableMin ≤ c.encTableSize)
    (hfit : tableSize c.enc.dyn ≤ c.enc.maxSize) :
    tableSize (applyTable c).dyn ≤ c.encTableMin ∧ (applyTable c).maxSize = c.encTableSize := by
  simp only [applyTable, hs, if_true]
  by_cases h1 : c.enc.maxSize = c.encTableMin
  · have e1 : c.enc.setMax c.encTableMin = c.enc := by simp [EncState.setMax, h1]
    rw [e1]
    by_cases h2 : c.enc.maxSize = c.encTableSize
    · have e2 : c.enc.setMax c.encTableSize = c.enc := by simp [EncState.setMax, h2]
      rw [e2]; exact ⟨by omega, h2⟩
    · simp only [EncState.setMax, h2, if_false]
      refine ⟨?_, trivial⟩
      rw [evict_of_fits _ _ (by omega)]; omega
  · have e1 : (c.enc.setMax c.encTableMin).dyn = evict c.enc.dyn c.encTableMin ∧
        (c.enc.setMax c.encTableMin).maxSize = c.encTableMin := by simp [EncState.setMax, h1]
    by_cases h2 : c.encTableMin = c.encTableSize
    · have e2 : ∀ E : EncState, E.maxSize = c.encTableSize → E.setMax c.encTableSize = E := by
        intro E h; simp [EncState.setMax, h]
      rw [e2 _ (e1.2.trans h2), e1.1, e1.2]
      exact ⟨evict_fits _ _, h2⟩
    · have e2 : ((c.enc.setMax c.encTableMin).setMax c.encTableSize).dyn = evict (evict c.enc.dyn c.encTableMin) c.encTableSize ∧
          ((c.enc.setMax c.encTableMin).setMax c.encTableSize).maxSize = c.encTableSize := by
        simp [EncState.setMax, h1, h2]
      rw [e2.1, e2.2, evict_evict, Nat.min_eq_left hle]
      exact ⟨evict_fits _ _, rfl⟩

open H2.Hpack in
/-- **a dip is announced**: if the server asked for less than the encoder's table limit at any point since the last
request, the next header block opens with dynamic table size updates: the encoder is left with an announcement
pending whose minimum is at most that value, whatever the last value is (4096 → 0 → 4096 included) -/
theorem dip_announced (c : Conn) (hs : c.encTableSet = true) (hdip : c.encTableMin < c.enc.maxSize) :
    (applyTable c).pending = true ∧ (applyTable c).minPending ≤ c.encTableMin ∧
    (applyTable c).maxSize = c.encTableSize := by
  have h1 : ¬ c.enc.maxSize = c.encTableMin := by omega
  have e1 : (c.enc.setMax c.encTableMin).pending = true ∧ (c.enc.setMax c.encTableMin).minPending ≤ c.encTableMin ∧
      (c.enc.setMax c.encTableMin).maxSize = c.encTableMin := by
    simp only [EncState.setMax, h1, if_false]
    refine ⟨trivial, ?_, trivial⟩
    split
    · exact Nat.le_refl _
    · rename_i h; simp at h; omega
  simp only [applyTable, hs, if_true]
  generalize c.enc.setMax c.encTableMin = E at e1
  obtain ⟨p1, p2, p3⟩ := e1
  simp only [EncState.setMax]
  split
  · rename_i h; exact ⟨p1, p2, h⟩
  · refine ⟨rfl, ?_, rfl⟩
    simp only [p1, Bool.not_true, Bool.false_or, decide_eq_true_eq]
    split <;> omega

/-- any change at all is announced -/
theorem change_announced (c : Conn) (hs : c.encTableSet = true)
    (hch : c.encTableMin ≠ c.enc.maxSize ∨ c.encTableSize ≠ c.enc.maxSize) : (applyTable c).pending = true := by
  simp only [applyTable, hs, if_true]
  by_cases h1 : c.enc.maxSize = c.encTableMin
  · have e1 : c.enc.setMax c.encTableMin = c.enc := by simp [Hpack.EncState.setMax, h1]
    have h2 : ¬ c.enc.maxSize = c.encTableSize := by omega
    rw [e1]; simp [Hpack.EncState.setMax, h2]
  · have e1 : (c.enc.setMax c.encTableMin).pending = true := by simp [Hpack.EncState.setMax, h1]
    generalize c.enc.setMax c.encTableMin = E at e1
    simp only [Hpack.EncState.setMax]
    split
    · exact e1
    · rfl

/-- nothing to apply, nothing changes -/
theorem nothing_noted_nothing_applied (c : Conn) (hs : c.encTableSet = false) : applyTable c = c.enc := by
  simp [applyTable, hs]

/-! ### the input of finding F09c: 4096 → 0 → 4096 between two requests, now a regression example -/

def cF09 : Conn := { enc := { dyn := [([0x78], [0x79])] } }

/-- both values in one SETTINGS frame: "0, then 4096" is handed over, and the encoder then has both to announce -/
theorem F09c_regression :
    let c := handleSettings cF09 { pairs := [(Gen.c_HeaderTableSize, 0), (Gen.c_HeaderTableSize, 4096)] }
    (c.encTableSet, c.encTableMin, c.encTableSize) = (true, 0, 4096) ∧
    ((applyTable c).pending, (applyTable c).minPending, (applyTable c).maxSize) = (true, 0, 4096) := by
  decide

/-- in two frames likewise -/
example :
    let c := handleSettings (handleSettings cF09 { pairs := [(Gen.c_HeaderTableSize, 0)] }) { pairs := [(Gen.c_HeaderTableSize, 4096)] }
    ((applyTable c).pending, (applyTable c).minPending, (applyTable c).maxSize) = (true, 0, 4096) := by
  decide

/-- what the code did before: told of the last value only, the encoder announced nothing -/
example : (cF09.enc.setMax 4096).pending = false := by decide

/-! ### what the client advertises (finding F35, repaired) -/

/-- **ENABLE_PUSH=0 is transmitted**: the SETTINGS frame of the handshake carries the pair (2, 0) … -/
theorem advertises_push_off : (Gen.c_EnablePush, 0) ∈ handshakeSettings := by decide

/-- … and beside it the stream window the client gives the server, nothing else: the untouched zeros of the client's
`Settings` (table size, stream limit, frame size — none of which it means) are not announced -/
theorem advertises_nothing_else :
    handshakeSettings = [(Gen.c_EnablePush, 0), (Gen.c_MaxWindowSize, Gen.c_clientMaxWindow)] := by decide

/-- what `Encode` did before the repair (no mark looked at, `false` encoded as absent): the window alone -/
example : Frame.settingsEncode { ownSettings with hasPush := false } = [0, 4, 0, 16, 0, 0] := by decide

/-- the marks are what makes the difference for every value that may be zero: set to 0 it is written, untouched it is not -/
theorem encode_zero_iff_marked (id : Nat) (has : Bool) :
    Frame.settingsPair id 0 has = (if has then toBe16 id ++ toBe32 0 else []) := by
  cases has <;> simp [Frame.settingsPair]

/-- non-vacuity of `acks` -/
example : ∃ c f s, f.stream = 0 ∧ f.body = Frame.Body.settings s ∧ s.ack = false ∧
    (rdFrame c f).1.outQ = c.outQ ++ [OutFrame.settingsAck] :=
  ⟨{}, ⟨Gen.c_FrameSettings, 0, 0, 0, .settings {}⟩, {}, rfl, rfl, rfl, (acks _ _ _ rfl rfl rfl).1⟩

/-! ## the FULL serial model, every run

NEEDS `import H2.Proofs.ClientRunCount` (which imports `H2.Proofs.ClientRunGoAway`) at the top of this file. `concurrent_streams_obeyed` above is about one call of
`writeRequest`; here: every step of every run of `H2.Client.step` from the connection the driver creates. -/

section FullModel
open H2.Client

/-- **Full.concurrent_streams_obeyed**: in any run (any events: requests, server octets with any SETTINGS, time-outs,
write failures …), whenever a step writes a frame of a header block (HEADERS whole or cut, CONTINUATION), the number of streams open just before the step
(`openStreams`) is below the `maxStreams` the connection holds at that moment (the last SETTINGS_MAX_CONCURRENT_STREAMS
the read loop has applied); the step's event is a request and the connection has seen no GOAWAY -/
theorem Full.concurrent_streams_obeyed (c : Conn) (h : Init c) (evs : List Event) :
    AllSteps (fun c e _ o => writesHeaders o = true →
      c.openStreams < (c.maxStreams : Int) ∧ c.goAway = false ∧ ∃ r, e = .req r) c evs :=
  headers_within_limit c (init_hinv h) evs

/-- … read at a position of the run: the step after any prefix -/
theorem Full.concurrent_streams_obeyed_at (c : Conn) (h : Init c) (pre : List Event) (e : Event)
    (hw : writesHeaders (step (run c pre).1 e).2 = true) :
    (run c pre).1.openStreams < ((run c pre).1.maxStreams : Int) :=
  ((Full.concurrent_streams_obeyed c h (pre ++ [e])).at pre hw).1

/-- **Full.counter_covers_table**: in every reachable state the counter `openStreams` is at least the number of streams in
the table of requests waiting for a response (a stream leaves the table with the counter decremented, or, when its
request was taken back by its caller first, without; it enters with the counter incremented) -/
theorem Full.counter_covers_table (c : Conn) (h : Init c) (evs : List Event) :
    ((run c evs).1.reqQueued.length : Int) ≤ (run c evs).1.openStreams :=
  run_cnt h evs

/-- **Full.waiting_streams_below_limit**: so, whenever a step of any run writes a HEADERS frame, the streams still waiting
for their response are fewer than the server's MAX_CONCURRENT_STREAMS as last applied -/
theorem Full.waiting_streams_below_limit (c : Conn) (h : Init c) (pre : List Event) (e : Event)
    (hw : writesHeaders (step (run c pre).1 e).2 = true) :
    (run c pre).1.reqQueued.length < (run c pre).1.maxStreams := by
  have h1 := Full.concurrent_streams_obeyed_at c h pre e hw
  have h2 := Full.counter_covers_table c h pre
  omega

/-- **Full.limit_before_every_stream_opening_frame**: the same over "frames that open a stream" — a HEADERS frame with
END_HEADERS (`.headers`) or without (`.hfrag`, the first frame of a block longer than the server's MAX_FRAME_SIZE): whenever
a step writes one, `openStreams < maxStreams` held just before, and the streams still waiting are fewer than `maxStreams` -/
theorem Full.limit_before_every_stream_opening_frame (c : Conn) (h : Init c) (pre : List Event) (e : Event)
    (hw : opensStream (step (run c pre).1 e).2 = true) :
    (run c pre).1.openStreams < ((run c pre).1.maxStreams : Int) ∧
    (run c pre).1.reqQueued.length < (run c pre).1.maxStreams :=
  ⟨Full.concurrent_streams_obeyed_at c h pre e (opensStream_writes hw),
   Full.waiting_streams_below_limit c h pre e (opensStream_writes hw)⟩

/-- **Full.only_requests_open_streams**: a step that is not a request admitted by `CanOpenStream` writes no frame of a
header block (HEADERS whole or cut, CONTINUATION) and leaves `nextID` alone; one that is moves `nextID` up by 2 and what it
writes begins with the frames of ONE header block on the old `nextID` (`headerFrames`: a HEADERS frame, or a HEADERS frame
without END_HEADERS followed at once by its CONTINUATION frames); nothing else written belongs to a header block -/
theorem Full.only_requests_open_streams (c : Conn) (h : Init c) (pre : List Event) (e : Event) :
    ((step (run c pre).1 e).1.nextID = (run c pre).1.nextID ∧ writesHeaders (step (run c pre).1 e).2 = false) ∨
    (∃ r, e = .req r ∧ canOpenStream (run c pre).1 = true ∧ (step (run c pre).1 e).1.nextID = (run c pre).1.nextID + 2 ∧
      ∀ fs, (step (run c pre).1 e).2 = .frames fs →
        ∃ blk rest, fs = blk ++ rest ∧ BlockOf (run c pre).1.nextID (wrEndStream r) (requestFields r) blk ∧ NoHdr rest) := by
  have hi := run_hinv (init_hinv h) pre
  rcases step_frames_spec _ hi.inv hi.outQ e with ⟨hn, hf⟩ | ⟨r, he, hc, _, hn, hf⟩
  · left
    refine ⟨hn, ?_⟩
    cases ho : (step (run c pre).1 e).2 with
    | frames fs => exact noHdr_any (hf fs ho)
    | _ => rfl
  · right; exact ⟨r, he, hc, hn, hf⟩

/-- **Full.continuations_contiguous**: in the output of every step of every run, each CONTINUATION frame directly follows
a HEADERS frame without END_HEADERS or a CONTINUATION frame of the same stream: nothing is written between the frames of a
header block -/
theorem Full.continuations_contiguous (c : Conn) (h : Init c) (pre : List Event) (e : Event) (fs : List OutFrame)
    (ho : (step (run c pre).1 e).2 = .frames fs) : contAfter none fs = true :=
  let hi := run_hinv (init_hinv h) pre
  step_contiguous _ hi.inv hi.outQ e fs ho

/-! ### non-vacuity: SETTINGS_MAX_CONCURRENT_STREAMS = 1, two requests -/

def fullReq (tag : String) : ReqSpec :=
  { tag := tag, method := [71, 69, 84], scheme := [104, 116, 116, 112, 115], host := [104], path := [47], ua := [117],
    hdrs := [], body := .none }

/-- SETTINGS, MAX_CONCURRENT_STREAMS = 1 -/
def fullSettings : List Nat := [0, 0, 6, 4, 0, 0, 0, 0, 0, 0, 3, 0, 0, 0, 1]

def fullRun : List Event := [.bytes fullSettings, .req (fullReq "a"), .req (fullReq "b"), .read "b"]

/-- the first request opens a stream (0 open < 1), the second is turned away: no HEADERS, `ErrNotAvailableStreams` -/
example : (run {} fullRun).2.map writesHeaders = [false, true, false, false] ∧
    (run {} (fullRun.take 1)).1.maxStreams = 1 ∧ (run {} (fullRun.take 1)).1.openStreams = 0 ∧
    (run {} (fullRun.take 2)).1.openStreams = 1 ∧
    (getReq (run {} (fullRun.take 3)).1 "b").map (·.errBuf) = some (some .noStreams) := by decide +kernel

/-- kind, stream, fragment length of the frames of an output: 1 HEADERS, 2 HEADERS without END_HEADERS, 3 CONTINUATION -/
def fullKinds : StepOut → List (Nat × Nat × Nat)
  | .frames fs => fs.map fun f => match f with
    | .headers sid _ _ => (1, sid, 0) | .hfrag sid _ l => (2, sid, l) | .cont sid _ l _ => (3, sid, l) | _ => (0, 0, 0)
  | _ => []

/-- a connection whose server allows frames of 4 octets only (`Init` says nothing about MAX_FRAME_SIZE): every header
block is cut -/
def fullTiny : Conn := { maxFrameSize := 4 }

example : Init fullTiny := by constructor <;> rfl

/-- two requests: blocks of 9 and 5 octets go out as HEADERS(4) + CONTINUATION(4) + CONTINUATION(1) on stream 1 and
HEADERS(4) + CONTINUATION(1) on stream 3; both outputs open a stream and their CONTINUATIONs are contiguous -/
example : (run fullTiny [.req (fullReq "a"), .req (fullReq "b")]).2.map fullKinds =
      [[(2, 1, 4), (3, 1, 4), (3, 1, 1)], [(2, 3, 4), (3, 3, 1)]] ∧
    (run fullTiny [.req (fullReq "a"), .req (fullReq "b")]).2.map opensStream = [true, true] ∧
    (run fullTiny [.req (fullReq "a"), .req (fullReq "b")]).2.map
      (fun o => match o with | .frames fs => contAfter none fs | _ => true) = [true, true] := by decide +kernel

end FullModel

end H2.Props.C18c
