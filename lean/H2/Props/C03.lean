import H2.Proofs.HpackSplit
/-!
# C03 — the HPACK decoder yields exactly what a conforming encoder encoded

Property theorems only; lemmas are in `H2/Proofs/Hpack{Int,Str,Dec,Block}.lean`.

* model: `Hpack.Dec.next` (mirror of `nextField`), `Hpack.Dec.skipUpdates` (what a cut-short `nextField`
  hands back), `Hpack.readInt`, `Hpack.readString`, `Hpack.Block.feed` (the `previousHeaderBytes` /
  `fieldSeen` loop of `handleHeaderFrame`);
* specification: `Hpack.Spec` — `Repr`, `ser`/`Wire` (RFC 7541 §5–§6), `apply` (§2.3, §4, §6), `step`.
The static table, `maxIndex` and the default table size come from `H2.Gen` (regenerated from `hpack.go`).
-/
namespace H2.Props.C03
open H2 H2.Hpack H2.Hpack.Spec

/-- T1: the static table read from `hpack.go` has the 61 entries `maxIndex` assumes -/
theorem static_table_size : Gen.staticTable.length + 1 = Gen.maxIndex := by decide

/-- T1: … and is the static table of RFC 7541 Appendix A, which the specification uses -/
theorem static_table_rfc : Gen.staticTable = Rfc.staticTable := static_rfc

/-! ## primitive types -/

/-- §5.1 round trip: the canonical encoding of any value below 2^64 on an `n`-bit prefix is read back,
whatever follows it -/
theorem int_roundtrip (n flags v : Nat) (rest : Bytes) (hn : 0 < n) (hf : flags % 2 ^ n = 0) (hv : v < 2 ^ 64) :
    readInt n (encInt n flags v ++ rest) = .ok v rest := by
  rw [← writeInt_eq_encInt]; exact readInt_writeInt n flags v rest hn hf hv
example : readInt 5 (encInt 5 32 1337 ++ [7]) = .ok 1337 [7] := int_roundtrip 5 32 1337 [7] (by decide) (by decide) (by decide)

/-- §5.2 round trip, raw and Huffman coded (the latter by C15) -/
theorem string_roundtrip (s rest : Bytes) (huff : Bool) (hs : WF s) (hl : strLen s huff < 2 ^ 64) :
    readString (encStr s huff ++ rest) = .ok s rest := by
  rw [← writeString_eq_encStr]; exact readString_writeString s rest huff hs hl
example : readString (encStr (strBytes "www.example.com") true ++ [1]) = .ok (strBytes "www.example.com") [1] := by
  decide +kernel

/-- no integer of 2^64 or more is ever accepted (F03 repaired) … -/
theorem int_bounded (n : Nat) (b : Bytes) (v : Nat) (r : Bytes) (hn : 0 < n) (h8 : n ≤ 8)
    (h : readInt n b = .ok v r) : v < 2 ^ 64 := by
  obtain ⟨_, _, _, hv⟩ := readInt_suffix n b v r h
  exact hv hn h8
/-- … e.g. 127 + 2·2^63 on a 7-bit prefix, which the unrepaired code read as 127 -/
theorem int_overflow_witness : readInt 7 [0xff, 0x80, 0x80, 0x80, 0x80, 0x80, 0x80, 0x80, 0x80, 0x80, 0x02] = .overflow := by
  decide

/-! ## one representation -/

/-- **refinement**: the model of `nextField` is the RFC 7541 step, on every input and every table -/
theorem next_eq_step (st : DecState) (bs : Bool) (fp : Nat) (b : Bytes) :
    Dec.next st bs fp b = Spec.step st bs fp b := Hpack.next_eq_step st bs fp b

/-- **dec_complete**: what a conforming encoder emits for `r` (`Wire r w`: canonical integers, either
string form) is decoded to the RFC meaning `apply` — field and table — whatever follows; a size update
is applied and decoding carries on behind it. -/
theorem dec_complete (st : DecState) (bs : Bool) (fp : Nat) (r : Repr) (w rest : Bytes) (hw : Wire r w)
    (st' : DecState) (out : Option Field) (ha : apply st (if bs then fp else fp + 1) r = some (st', out)) :
    Dec.next st bs fp (w ++ rest) =
      match out with
      | some f => .ok st' (some f) rest
      | none => Dec.next st' bs fp rest := by
  obtain ⟨hwf, rfl⟩ := hw
  rw [Hpack.next_eq_step, step_ser st bs fp r rest hwf st' out ha]
  cases out with
  | some f => rfl
  | none => simp only [Hpack.next_eq_step]

/-- non-vacuity: RFC 7541 C.2.2 (`:path: /sample/path` without indexing, name from static entry 4) and
C.2.1 (`custom-key: custom-header` with incremental indexing) -/
example : Dec.next {} true 0 (ser (.literal .without (.idx 4) [47, 115, 97, 109, 112, 108, 101, 47, 112, 97, 116, 104] false) ++ [0x82]) =
    .ok {} (some ⟨[58, 112, 97, 116, 104], [47, 115, 97, 109, 112, 108, 101, 47, 112, 97, 116, 104], false⟩) [0x82] :=
  dec_complete {} true 0 (.literal .without (.idx 4) [47, 115, 97, 109, 112, 108, 101, 47, 112, 97, 116, 104] false) _ [0x82]
    ⟨⟨by decide, by decide, by decide, by decide⟩, rfl⟩ {}
    (some ⟨[58, 112, 97, 116, 104], [47, 115, 97, 109, 112, 108, 101, 47, 112, 97, 116, 104], false⟩) (by decide)
example : Dec.next {} true 0 (ser (.literal .incremental (.lit [107] false) [118] false)) =
    .ok { dyn := [([107], [118])] } (some ⟨[107], [118], false⟩) [] := by
  have h := dec_complete {} true 0 (.literal .incremental (.lit [107] false) [118] false) _ []
    ⟨⟨by decide, by decide, by decide, by decide⟩, rfl⟩ { dyn := [([107], [118])] } (some ⟨[107], [118], false⟩)
    (by simp [apply, Spec.insert, Spec.evict, tableSize, entrySize, Gen.c_defaultHeaderTableSize])
  simpa using h

/-- **dec_rejects** (index 0 or past the table, for a field or for a literal's name; size update above
the SETTINGS limit, or after a field of the block, in this frame or an earlier one): a well-formed representation without RFC
meaning on the current table is an error, never a field -/
theorem dec_rejects (st : DecState) (bs : Bool) (fp : Nat) (r : Repr) (w rest : Bytes) (hw : Wire r w)
    (ha : apply st (if bs then fp else fp + 1) r = none) : Dec.next st bs fp (w ++ rest) = .err := by
  obtain ⟨hwf, rfl⟩ := hw
  rw [Hpack.next_eq_step]; exact step_ser_reject st bs fp r rest hwf ha
example : Dec.next {} true 0 [0x80] = .err := by decide                    -- index 0
example : Dec.next {} true 0 [0xbe] = .err := by decide                    -- index 62, empty table
example : Dec.next {} true 0 [0x3f, 0xe2, 0x1f] = .err := by decide        -- size update 4097 > 4096
example : Dec.next {} true 1 [0x20] = .err := by decide                    -- size update after a field

/-- rejected too: a string whose Huffman coding is invalid (padding of 8 bits or more, padding with a
zero bit, EOS inside: C15.decode_ok_iff says exactly which) -/
theorem dec_rejects_huffman (b0 : Nat) (rest : Bytes) (n : Nat) (r : Bytes) (hi : readInt 7 (b0 :: rest) = .ok n r)
    (hl : n ≤ r.length) (hh : b0 ≥ 128) (hd : Huffman.decode (r.take n) = none) :
    readString (b0 :: rest) = .err := by
  unfold readString
  have : ¬ r.length < n := by omega
  simp [hi, this, hh, hd]
example : Dec.next {} true 0 [0x00, 0x81, 0xff, 0x00] = .err := by decide +kernel

/-- **progress**: an `ok` step leaves a suffix of its input and, when it yields a field, has consumed
at least one octet (shared with C16) -/
theorem progress (st : DecState) (bs : Bool) (fp : Nat) (b : Bytes) (st' : DecState) (f : Field) (rest : Bytes)
    (h : Dec.next st bs fp b = .ok st' (some f) rest) : (∃ w, w ≠ [] ∧ b = w ++ rest) ∧ rest.length < b.length := by
  rw [Hpack.next_eq_step] at h
  obtain ⟨w, hb, hw⟩ := stepFuel_suffix _ _ _ _ _ _ _ _ h
  have hw' := hw rfl
  refine ⟨⟨w, hw', hb⟩, ?_⟩
  have : 0 < w.length := List.length_pos_iff.mpr hw'
  rw [hb]; simp; omega

/-- **dec_sound**, full statement: whatever `nextField` accepts is a sequence of size updates and one
field representation, each in a form a decoder must accept (`Wire'`), with that RFC meaning. -/
def dec_sound_full : Prop :=
  ∀ (st : DecState) (bs : Bool) (fp : Nat) (b : Bytes) (st' : DecState) (f : Field) (rest : Bytes),
    Dec.next st bs fp b = .ok st' (some f) rest →
    ∃ (rs : List Repr) (ws : List Bytes), b = ws.flatten ++ rest ∧ WireAll' rs ws ∧
      applyAll st (if bs then fp else fp + 1) rs = some (st', [f])

/-- **dec_sound_partial**: what is proved of it — a field is accepted only where the executable RFC
decoder `Spec.step` (`parse` then `apply`) accepts it, with the same field, table and remaining octets,
and it is a non-empty prefix of the input that was consumed. Missing: that `Spec.parse` accepts only
`Wire'` forms (its converse, `parse_ser`/`dec_complete`, is proved). -/
theorem dec_sound_partial (st : DecState) (bs : Bool) (fp : Nat) (b : Bytes) (st' : DecState) (f : Field) (rest : Bytes)
    (h : Dec.next st bs fp b = .ok st' (some f) rest) :
    Spec.step st bs fp b = .ok st' (some f) rest ∧ ∃ w, w ≠ [] ∧ b = w ++ rest := by
  refine ⟨by rw [← Hpack.next_eq_step]; exact h, (progress st bs fp b st' f rest h).1⟩

/-! ## header blocks -/

/-- a block in one HEADERS frame with END_HEADERS: the loop of `handleHeaderFrame` returns the header
list and table RFC 7541 assigns to the block and fails exactly on the blocks RFC 7541 makes invalid
(unknown index, misplaced or oversized size update, bad Huffman, overflowing integer, truncation); the
stream remembers whether the block had a field. Blocks of size updates only included (F05 repaired). -/
theorem block_whole (dec : DecState) (b : Bytes) (hle : dec.maxSize ≤ dec.limit) :
    match Spec.decodeBlock dec b with
    | some (st', fs) => Block.feed ⟨dec, [], false⟩ false true b = .ok ⟨st', [], !fs.isEmpty⟩ fs
    | none => ∃ fs, Block.feed ⟨dec, [], false⟩ false true b = .err fs := feed_whole dec b false hle
example : Block.feed {} false true [0x82, 0x86] = .ok ⟨{}, [], true⟩
    [⟨[58, 109, 101, 116, 104, 111, 100], [71, 69, 84], false⟩, ⟨[58, 115, 99, 104, 101, 109, 101], [104, 116, 116, 112], false⟩] := by
  decide +kernel
/-- a block that holds a size update and nothing else: no field is handed on (the unrepaired loop handed
on one with an empty name and value) -/
example : Block.feed {} false true [0x20] = .ok ⟨{ maxSize := 0 }, [], false⟩ [] := by decide +kernel

/-- **history_sync**, full statement: over every sequence of blocks the decoder does what the
specification does -/
def history_sync_full : Prop :=
  ∀ (blocks : List Bytes) (dec : DecState), dec.maxSize ≤ dec.limit → decodeBlocks dec blocks = specBlocks dec blocks

/-- **history_sync**: by induction over the blocks — same header lists, same dynamic table after every
block, same verdict, for every history (F05 repaired: blocks of size updates only are no exception) -/
theorem history_sync : history_sync_full := fun blocks dec hle => blocks_sync blocks dec hle
example : decodeBlocks {} [[0x40, 0x01, 0x61, 0x01, 0x62], [0xbe]] =
    some ({ dyn := [([0x61], [0x62])] }, [[⟨[0x61], [0x62], false⟩], [⟨[0x61], [0x62], false⟩]]) := by decide +kernel
/-- the input that failed before the repair: a block holding only a size update, then a block that needs
the table it announced -/
example : decodeBlocks {} [[0x20], [0x3f, 0xe1, 0x1f, 0x40, 0x01, 0x61, 0x01, 0x62]] =
    some ({ dyn := [([0x61], [0x62])] }, [[], [⟨[0x61], [0x62], false⟩]]) := by decide +kernel

/-- frames of one block, in the order sent: agreement of the split delivery and of the delivery in one
frame with the specification -/
def SplitAgrees (dec : DecState) (frames : List Bytes) : Prop :=
  match Spec.decodeBlock dec frames.flatten with
  | some (d, fs) => feedFrames ⟨dec, [], false⟩ true frames [] = .ok ⟨d, [], !fs.isEmpty⟩ fs ∧
      Block.feed ⟨dec, [], false⟩ false true frames.flatten = .ok ⟨d, [], !fs.isEmpty⟩ fs
  | none => (∃ fs, feedFrames ⟨dec, [], false⟩ true frames [] = .err fs) ∧
      (∃ fs, Block.feed ⟨dec, [], false⟩ false true frames.flatten = .err fs)

/-- **split_invariance**, full statement: cutting a header block into HEADERS + CONTINUATION frames at
any octets changes nothing -/
def split_invariance_full : Prop :=
  ∀ (dec : DecState) (frames : List Bytes), frames ≠ [] → dec.maxSize ≤ dec.limit → SplitAgrees dec frames

/-- **split_invariance**: whatever the cuts — any number of frames, empty frames, a cut inside an
integer, a string or a Huffman code, inside, between or right behind the dynamic table size updates a
block may open with (F04/F05 repaired) — the carry-over loop of `handleHeaderFrame` ends with the header
list, table and verdict of the whole block. -/
theorem split_invariance : split_invariance_full := by
  intro dec frames hne hle
  have hg := frames_gen frames dec [] false true 0 [] hne (fun _ => rfl) (fun h => by cases h)
  have hw := feed_whole dec frames.flatten false hle
  unfold SplitAgrees
  have hd : Spec.decodeBlock dec frames.flatten = blk dec 0 frames.flatten := by
    unfold Spec.decodeBlock blk
    have : ¬ dec.maxSize > dec.limit := by omega
    simp [this]
  simp only [List.nil_append] at hg
  cases hb : Spec.decodeBlock dec frames.flatten with
  | none =>
    simp only [hb] at hw
    rw [hd] at hb
    refine ⟨?_, hw⟩
    cases hr : feedFrames ⟨dec, [], false⟩ true frames [] with
    | err fs => exact ⟨fs, rfl⟩
    | ok s acc' =>
      simp only [hr] at hg
      obtain ⟨_, _, _, _, hsome⟩ := hg
      rw [hb] at hsome; cases hsome
  | some p =>
    obtain ⟨d, fs⟩ := p
    simp only [hb] at hw
    rw [hd] at hb
    refine ⟨?_, hw⟩
    cases hr : feedFrames ⟨dec, [], false⟩ true frames [] with
    | err e => simp only [hr] at hg; rw [hb] at hg; cases hg
    | ok s acc' =>
      obtain ⟨dec', r, sn'⟩ := s
      simp only [hr] at hg
      obtain ⟨hr0, fs', hacc, hsn, hsome⟩ := hg
      rw [hb] at hsome
      injection hsome with hsome
      injection hsome with h1 h2
      subst h1 h2 hr0
      rw [hacc, hsn, seenAfter_zero]
example : SplitAgrees {} [[0x40, 0x01], [0x61], [], [0x01, 0x62, 0xbe]] :=
  split_invariance {} _ (by simp) (by decide)

/-- the inputs that failed before the repair (F04: `20 40 01 | 61 01 62`, the CONTINUATION was read from
the size update again and rejected; cut inside and right behind the updates likewise) -/
example : feedFrames {} true [[0x20, 0x40, 0x01], [0x61, 0x01, 0x62]] [] =
    .ok ⟨{ maxSize := 0 }, [], true⟩ [⟨[0x61], [0x62], false⟩] := by decide +kernel
example : feedFrames {} true [[0x20, 0x3f], [0xe1], [0x1f], [0x40, 0x01, 0x61, 0x01, 0x62]] [] =
    .ok ⟨{ dyn := [([0x61], [0x62])] }, [], true⟩ [⟨[0x61], [0x62], false⟩] := by decide +kernel

/-- what is carried over between frames never contains an applied size update: the octets a cut-short
`nextField` hands back are a suffix of its input, and the step from there is the step on the input -/
theorem carry_is_rest (st : DecState) (bs : Bool) (fp : Nat) (x y : Bytes) :
    Spec.step st bs fp (x ++ y) =
      Spec.step (Dec.skipUpdates st bs fp x).1 bs fp ((Dec.skipUpdates st bs fp x).2 ++ y) :=
  skip_step bs fp y x.length st x (Nat.le_refl _)
example : Dec.skipUpdates {} true 0 [0x20, 0x3f, 0xe1, 0x1f, 0x40, 0x01] = ({}, [0x40, 0x01]) := by decide +kernel
example : Dec.skipUpdates {} true 0 [0x20, 0x3f, 0xe1] = ({ maxSize := 0 }, [0x3f, 0xe1]) := by decide +kernel

end H2.Props.C03
