import H2.Proofs.ServerRecvFull
import H2.Proofs.Recv
/-!
# C14 (server half) — the server hands flow-control credit back

Theorems about the abstract receive-credit model `H2.Server.Abs.Recv` (every sequence of DATA frames, no
bound). An event is what happens to one DATA frame the stream loop takes off the reader: accepted on its
stream (length with padding, END_STREAM or not), counted on the connection only (stream reset by this
side, or dropped by the request-body limit), or answered with a connection error. The driver runs the
model in lockstep with the full server model and compares every WINDOW_UPDATE and `currentWindow`.

The client half of C14 is not covered here.
-/
namespace H2.Props.C14
open H2.Server.Abs.Recv

theorem reachable (evs : List Ev) : Inv (run init evs) := run_inv evs init init_inv

/-- **credit conservation on the connection**: what has been credited plus what is outstanding equals
what was received, apart from the frames that were answered with a connection error; and what is
outstanding never exceeds half the window the server advertised, so a peer that respects the window can
always send (its view of the connection window stays above 65 535 + half of it, less the octets of its own
offending frames). -/
theorem credit_conservation (evs : List Ev) :
    let st := run init evs
    (st.credited : Int) + outstanding st = (st.received : Int) - st.lost ∧
    0 ≤ outstanding st ∧ outstanding st ≤ maxWin / 2 ∧
    peerConnView st ≥ 65535 + maxWin / 2 - st.lost := by
  have h := reachable evs
  have hv := maxWin_val
  have := h.cons; have := h.lo; have := h.hi
  simp only [outstanding, peerConnView]
  refine ⟨by assumption, ?_, ?_, ?_⟩ <;> omega

/-- **stream credit is returned in full**: on every stream, the increments sent add up to all the octets
accepted on it, except the frame that ended it (nothing is owed on a stream the peer has finished). -/
theorem stream_credit_in_full (evs : List Ev) :
    ∀ l ∈ (run init evs).leds, l.credited + l.final = l.received :=
  (reachable evs).leds

/-- … and at once: an accepted non-empty frame that does not end its stream is answered with a
WINDOW_UPDATE for its whole length on that stream, before anything else happens -/
theorem stream_credit_at_once (st : St) (sid len : Nat) (h : 0 < len) :
    ∃ rest, (step st (.accepted sid len false)).trace = st.trace ++ Rec.wu sid len :: rest := by
  have h0 : len ≠ 0 := by omega
  simp only [step, h0, if_false, Bool.false_eq_true, consumeConn]
  split
  · exact ⟨[Rec.wu 0 (maxWin - (st.recvWin - ↑len)).toNat], by simp⟩
  · exact ⟨[], rfl⟩

/-- **never an increment of 0** -/
theorem no_zero_increment (evs : List Ev) :
    ∀ sid inc, Rec.wu sid inc ∈ (run init evs).trace → 0 < inc :=
  (reachable evs).nz

/-- **never above 2^31−1**: neither the connection window nor any stream window, as the peer counts
them, ever exceeds what the server first advertised, which is below 2^31−1 -/
theorem never_above_max (evs : List Ev) :
    peerConnView (run init evs) ≤ 2 ^ 31 - 1 ∧
    ∀ l ∈ (run init evs).leds, peerStreamView l ≤ maxWin ∧ peerStreamView l ≤ 2 ^ 31 - 1 := by
  have h := reachable evs
  have hv := maxWin_val
  constructor
  · have := h.cons; have := h.lo; have := h.hi
    simp only [peerConnView]; omega
  · intro l hl
    have := h.leds l hl
    simp only [peerStreamView]; omega

/-- **padded empty DATA is credited**: a frame whose payload is padding only (length > 0, no data) is
an `accepted` event like any other — the code charges and credits `fr.Len()`, not `len(data)` — so
`stream_credit_at_once` and `credit_conservation` cover it. The frame of length 0 changes nothing and
writes nothing (no increment of 0). -/
theorem empty_frame_silent (st : St) (sid : Nat) (es : Bool) :
    (step st (.accepted sid 0 es)).trace = st.trace ∧ (step st (.accepted sid 0 es)).recvWin = st.recvWin := by
  simp [step]

/-! non-vacuity: half the window arrives in one piece — nothing yet (`currentWindow` is exactly half);
one more octet takes it below half: a single connection increment of 2 097 153, nothing outstanding -/
example : let st := run init [.accepted 1 2097152 false, .accepted 1 1 false]
    st.trace = [.wu 1 2097152, .wu 1 1, .wu 0 2097153] ∧ outstanding st = 0 ∧ st.received = 2097153 := by decide
example : (run init [.accepted 1 10 false, .dropped 3 5, .connErr 5 7, .accepted 1 4 true]).trace = [.wu 1 10] := by decide

end H2.Props.C14


/-! # C14 (server half) on the FULL server model: credit conservation

NEEDS one more import at the head of this file: `import H2.Proofs.ServerRecvFull`.

Everything below is about `H2/Server/Model.lean` itself, for EVERY configuration and EVERY event list; the abstract model
`H2.Server.Abs.Recv` above is not involved. `dataFwd fwd` = flow-controlled octets (`fr.length`, padding included) of the
DATA frames on a stream among the frames the read loop forwarded; `cred0 outs` = sum of the increments of the
`WINDOW_UPDATE(0, inc)` written (the handshake's own WINDOW_UPDATE is not part of `runOuts`).

Step level: `full_consume_conn`, `full_stream_credit_at_once`, `full_no_credit_on_final_frame`, `full_data_is_charged`.
Run level: `full_recv_ledger`, `full_recv_conservation`, `full_never_overcredits`, `full_no_zero_increment`.
The starvation-freedom reading ("the peer can always send its next octet") and the client half stay where they were. -/
namespace H2.Props.C14
open H2.Server

/-- **`consumeConnWindow`** (step level): nothing for an empty frame; otherwise `recvWin` goes down by `n`; when that takes it
below half of 4 MiB exactly one `WINDOW_UPDATE(0, inc)` is written with `inc = 4 MiB − (recvWin − n) > 0` and `recvWin` is
4 MiB again -/
theorem full_consume_conn (r : R) (n : Nat) :
    (n = 0 → consumeConnWindow r n = r) ∧
    (n ≠ 0 → r.s.recvWin - n < (H2.Gen.c_serverMaxWindow : Int) / 2 →
      (consumeConnWindow r n).out = r.out ++ [.wu 0 ((H2.Gen.c_serverMaxWindow : Int) - (r.s.recvWin - n)).toNat] ∧
      (consumeConnWindow r n).s.recvWin = H2.Gen.c_serverMaxWindow ∧
      0 < ((H2.Gen.c_serverMaxWindow : Int) - (r.s.recvWin - n)).toNat) ∧
    (n ≠ 0 → ¬ r.s.recvWin - n < (H2.Gen.c_serverMaxWindow : Int) / 2 →
      (consumeConnWindow r n).out = r.out ∧ (consumeConnWindow r n).s.recvWin = r.s.recvWin - n) :=
  consumeConnWindow_spec r n

/-- **stream credit in full and at once** (step level): a non-empty frame that does not end its stream is answered with
`WINDOW_UPDATE(stream, n)` for its whole length before the connection window is looked at -/
theorem full_stream_credit_at_once (r : R) (st : Strm) (fr : H2.Frame.Frame) (n : Nat) (hn : n ≠ 0)
    (hes : H2.Frame.hasFlag fr.flags H2.Gen.c_FlagEndStream = false) :
    consumeRecvWindow r st fr n = consumeConnWindow (r.emit (.wu st.id n)) n :=
  consumeRecvWindow_stream_credit r st fr n hn hes

/-- … and the frame that ends the stream gets none -/
theorem full_no_credit_on_final_frame (r : R) (st : Strm) (fr : H2.Frame.Frame) (n : Nat)
    (hes : H2.Frame.hasFlag fr.flags H2.Gen.c_FlagEndStream = true) :
    consumeRecvWindow r st fr n = consumeConnWindow r n :=
  consumeRecvWindow_final r st fr n hes

/-- **every DATA frame the model accepts, drops or ignores is charged** (step level). `Charged r r' n`: `r'` is `r` with some
outputs `l` appended, `r'.recvWin + n = r.recvWin + (connection credit written in l)`, no WINDOW_UPDATE of `l` has
increment 0, `l` has no DATA. (1) a DATA frame for a stream that may receive — in the table, headers finished, neither
half-closed nor closed — is charged `fr.length` whether it is accepted or dropped by the request-body limit (then the
error is RST_STREAM(ENHANCE_YOUR_CALM)); (2) a DATA frame for a stream this side has reset is ignored and charged. -/
theorem full_data_is_charged (r : R) (fr : H2.Frame.Frame) (ht : fr.typ = H2.Gen.c_FrameData) :
    (∀ uid st, r.getStrm uid = some st → verifyState st fr = none → st.headersFinished = true →
      ¬ st.state.rank ≥ StState.halfClosed.rank → st.id ≠ 0 →
        Charged r (handleFrame r uid fr).1 fr.length ∧
          ((handleFrame r uid fr).2 = none ∨ (handleFrame r uid fr).2 = some (.reset H2.Gen.c_EnhanceYourCalm))) ∧
    (∀ wc, r.s.resetByUs.contains fr.stream = true →
      unknownStream r fr wc = (consumeConnWindow r fr.length, none) ∧ Charged r (unknownStream r fr wc).1 fr.length) :=
  ⟨fun uid st hg hv hf hr hid => handleFrame_data_charged r uid fr st hg hv ht hf hr hid,
    fun wc hc => ⟨unknownStream_data_ignored r fr wc hc ht, unknownStream_data_charged r fr wc hc ht⟩⟩

/-- **receive ledger** (run level): `recvWin + DATA octets forwarded = 4 MiB + credit written + lost`, where `lost` (the
octets of DATA frames answered with a connection error) is 0 as long as no GOAWAY has been written; and
`4 MiB / 2 ≤ recvWin ≤ 4 MiB` always -/
theorem full_recv_ledger (cfg : Cfg) (evs : List Event) :
    (∃ lost : Nat, (run cfg evs).1.recvWin + (dataFwd (runFwd cfg evs) : Int) =
        (H2.Gen.c_serverMaxWindow : Nat) + (cred0 (runOuts cfg evs) : Int) + (lost : Int) ∧
      (cnt .goAway (runOuts cfg evs) = 0 → lost = 0)) ∧
    ((H2.Gen.c_serverMaxWindow : Nat) : Int) / 2 ≤ (run cfg evs).1.recvWin ∧
    (run cfg evs).1.recvWin ≤ ((H2.Gen.c_serverMaxWindow : Nat) : Int) :=
  recv_ledger cfg evs

/-- **credit conservation** (run level, no connection error so far): `recvWin + (received − credited) = serverMaxWindow`;
what is outstanding is never negative and never more than half the window -/
theorem full_recv_conservation (cfg : Cfg) (evs : List Event) (hga : cnt .goAway (runOuts cfg evs) = 0) :
    (run cfg evs).1.recvWin + ((dataFwd (runFwd cfg evs) : Int) - (cred0 (runOuts cfg evs) : Int)) =
      (H2.Gen.c_serverMaxWindow : Nat) ∧
    0 ≤ (dataFwd (runFwd cfg evs) : Int) - (cred0 (runOuts cfg evs) : Int) ∧
    (dataFwd (runFwd cfg evs) : Int) - (cred0 (runOuts cfg evs) : Int) ≤
      ((H2.Gen.c_serverMaxWindow : Nat) : Int) - ((H2.Gen.c_serverMaxWindow : Nat) : Int) / 2 :=
  recv_conservation cfg evs hga

/-- **never above what was received** (run level, any run): the connection credit written never exceeds the DATA octets
forwarded — the peer's view of the connection window never exceeds what the handshake announced -/
theorem full_never_overcredits (cfg : Cfg) (evs : List Event) : cred0 (runOuts cfg evs) ≤ dataFwd (runFwd cfg evs) :=
  recv_never_overcredits cfg evs

/-- **never an increment of 0** (run level): no WINDOW_UPDATE of any run, on a stream or on the connection, has increment 0 -/
theorem full_no_zero_increment (cfg : Cfg) (evs : List Event) (sid inc : Nat) (h : Out.wu sid inc ∈ runOuts cfg evs) :
    0 < inc :=
  H2.Server.no_zero_increment cfg evs sid inc h

/-! non-vacuity: SETTINGS; HEADERS(1, POST /); DATA(1, 2 octets) — WINDOW_UPDATE(1, 2); DATA(1, 3 octets, END_STREAM) — no
stream credit, the request is dispatched. 5 octets are outstanding on the connection: 4 194 299 + 5 = 4 194 304 + 0. -/
def fullRecvRun : List Event :=
  [.bytes [0, 0, 0, 4, 0, 0, 0, 0, 0],
   .bytes [0, 0, 3, 1, 4, 0, 0, 0, 1, 0x83, 0x86, 0x84],
   .bytes [0, 0, 2, 0, 0, 0, 0, 0, 1, 0x68, 0x69],
   .bytes [0, 0, 3, 0, 1, 0, 0, 0, 1, 0x68, 0x69, 0x6a]]

example : (run {} fullRecvRun).1.recvWin = 4194299 ∧ dataFwd (runFwd {} fullRecvRun) = 5 ∧
    cred0 (runOuts {} fullRecvRun) = 0 ∧ cnt .goAway (runOuts {} fullRecvRun) = 0 ∧
    (runOuts {} fullRecvRun).map Out.toString = ["S(ack)", "WU(1,2)", "dispatch(1,m=504f5354,p=2f,a=-,f=-,b=5:524:106)"] := by
  decide +kernel

end H2.Props.C14
