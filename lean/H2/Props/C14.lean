import H2.Proofs.Recv
/-!
# C14 (server half) — the server hands flow-control credit back

Theorems about the abstract receive-credit model `H2.Server.Abs.Recv` (every sequence of DATA frames, no
bound). An event is what happens to one DATA frame the stream loop takes off the reader: accepted on its
stream (length with padding, END_STREAM or not), counted on the connection only (stream reset by this
side, or dropped by the request-body limit), or answered with a connection error. The driver runs the
model in lockstep with the full server model and compares every WINDOW_UPDATE and `currentWindow`.

The client half of C14 is not covered here.
-/
namespace H2.Props.C14
open H2.Server.Abs.Recv

theorem reachable (evs : List Ev) : Inv (run init evs) := run_inv evs init init_inv

/-- **credit conservation on the connection**: what has been credited plus what is outstanding equals
what was received, apart from the frames that were answered with a connection error; and what is
outstanding never exceeds half the window the server advertised, so a peer that respects the window can
always send (its view of the connection window stays above 65 535 + half of it, less the octets of its own
offending frames). -/
theorem credit_conservation (evs : List Ev) :
    let st := run init evs
    (st.credited : Int) + outstanding st = (st.received : Int) - st.lost ∧
    0 ≤ outstanding st ∧ outstanding st ≤ maxWin / 2 ∧
    peerConnView st ≥ 65535 + maxWin / 2 - st.lost := by
  have h := reachable evs
  have hv := maxWin_val
  have := h.cons; have := h.lo; have := h.hi
  simp only [outstanding, peerConnView]
  refine ⟨by assumption, ?_, ?_, ?_⟩ <;> omega

/-- **stream credit is returned in full**: on every stream, the increments sent add up to all the octets
accepted on it, except the frame that ended it (nothing is owed on a stream the peer has finished). -/
theorem stream_credit_in_full (evs : List Ev) :
    ∀ l ∈ (run init evs).leds, l.credited + l.final = l.received :=
  (reachable evs).leds

/-- … and at once: an accepted non-empty frame that does not end its stream is answered with a
WINDOW_UPDATE for its whole length on that stream, before anything else happens -/
theorem stream_credit_at_once (st : St) (sid len : Nat) (h : 0 < len) :
    ∃ rest, (step st (.accepted sid len false)).trace = st.trace ++ Rec.wu sid len :: rest := by
  have h0 : len ≠ 0 := by omega
  simp only [step, h0, if_false, Bool.false_eq_true, consumeConn]
  split
  · exact ⟨[Rec.wu 0 (maxWin - (st.recvWin - ↑len)).toNat], by simp⟩
  · exact ⟨[], rfl⟩

/-- **never an increment of 0** -/
theorem no_zero_increment (evs : List Ev) :
    ∀ sid inc, Rec.wu sid inc ∈ (run init evs).trace → 0 < inc :=
  (reachable evs).nz

/-- **never above 2^31−1**: neither the connection window nor any stream window, as the peer counts
them, ever exceeds what the server first advertised, which is below 2^31−1 -/
theorem never_above_max (evs : List Ev) :
    peerConnView (run init evs) ≤ 2 ^ 31 - 1 ∧
    ∀ l ∈ (run init evs).leds, peerStreamView l ≤ maxWin ∧ peerStreamView l ≤ 2 ^ 31 - 1 := by
  have h := reachable evs
  have hv := maxWin_val
  constructor
  · have := h.cons; have := h.lo; have := h.hi
    simp only [peerConnView]; omega
  · intro l hl
    have := h.leds l hl
    simp only [peerStreamView]; omega

/-- **padded empty DATA is credited**: a frame whose payload is padding only (length > 0, no data) is
an `accepted` event like any other — the code charges and credits `fr.Len()`, not `len(data)` — so
`stream_credit_at_once` and `credit_conservation` cover it. The frame of length 0 changes nothing and
writes nothing (no increment of 0). -/
theorem empty_frame_silent (st : St) (sid : Nat) (es : Bool) :
    (step st (.accepted sid 0 es)).trace = st.trace ∧ (step st (.accepted sid 0 es)).recvWin = st.recvWin := by
  simp [step]

/-! non-vacuity: half the window arrives in one piece — nothing yet (`currentWindow` is exactly half);
one more octet takes it below half: a single connection increment of 2 097 153, nothing outstanding -/
example : let st := run init [.accepted 1 2097152 false, .accepted 1 1 false]
    st.trace = [.wu 1 2097152, .wu 1 1, .wu 0 2097153] ∧ outstanding st = 0 ∧ st.received = 2097153 := by decide
example : (run init [.accepted 1 10 false, .dropped 3 5, .connErr 5 7, .accepted 1 4 true]).trace = [.wu 1 10] := by decide

end H2.Props.C14
