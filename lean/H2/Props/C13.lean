import H2.Proofs.ServerHdrLimitFull
import H2.Proofs.Slots
import H2.Proofs.Limits
/-!
# C13 — server work and memory per connection stay within the configured limits

Theorems about the abstract slot-accounting model `H2.Server.Abs.Slots` (every event sequence, no
bound). `run (init max) evs` is the state after the events `evs`, where an event is: a HEADERS frame
that reaches the concurrency-limit check, a dispatch, a `closeStream`, a handler reporting back.
The driver runs this model in lockstep with the full server model and compares `openStreams`, the
table, the abandoned streams, the ring, the refusals and the dispatches after every step.
-/
namespace H2.Props.C13
open H2.Server.Abs.Slots

/-- **handlers ≤ slots ≤ limit**: after any history, the number of handlers running for the connection
(streams in the table with `handlerRunning`, plus streams closed while their handler runs) is at most
`openStreams`, which is exactly the number of live stream objects (table + abandoned) and is at most
MaxConcurrentStreams. In particular the stream table holds at most MaxConcurrentStreams entries. -/
theorem handlers_le_slots_le_limit (max : Nat) (evs : List Ev) :
    let st := run (init max) evs
    (runningCount st : Int) ≤ st.opn ∧
    st.opn = (st.tbl.length : Int) + st.abandoned.length ∧
    st.opn ≤ (max : Int) ∧
    st.tbl.length ≤ max := by
  intro st
  have h : Cnt st := run_cnt evs _ (init_cnt max)
  have hm : st.max = max := run_max evs _
  have hr := runningCount_le st
  obtain ⟨c, l⟩ := h
  rw [hm] at l
  refine ⟨?_, c, l, ?_⟩ <;> omega

/-- **closed-stream memory**: the ring of recently closed ids never holds more than 256 entries -/
theorem ring_bounded (max : Nat) (evs : List Ev) : (run (init max) evs).ring.length ≤ 256 :=
  run_ring evs _ (by simp [init])

/-- **one table entry per stream id** (now that only HEADERS creates a stream): no two entries of the stream
table carry the same id, and none is above `lastID`. So `Streams.Del(id)` removes the entry being closed and
never a namesake — the aliasing of finding F17 cannot occur. -/
theorem table_ids_unique (max : Nat) (evs : List Ev) :
    ((run (init max) evs).tbl.map (·.id)).Nodup ∧ ∀ s ∈ (run (init max) evs).tbl, s.id ≤ (run (init max) evs).lastID :=
  let h := run_ids evs _ (init_ids max)
  ⟨h.nodup, h.le⟩

/-- **a cancelled stream keeps its slot until its handler returns**: closing a stream whose handler is
running (peer's RST_STREAM, stream error, timeout) takes it out of the table, moves it to `abandoned`, leaves
`openStreams` as it is and hands nothing to the pool -/
theorem cancelled_keeps_slot (st : St) (s : Strm) (hr : s.running = true) :
    (closeEntry st s).opn = st.opn ∧ (closeEntry st s).pool = st.pool ∧
    (closeEntry st s).abandoned = st.abandoned ++ [s] := by
  simp [closeEntry, hr]

/-- … and an abandoned stream leaves `abandoned` (giving the slot back) only when a handler reports back:
every other event keeps all abandoned streams where they are -/
theorem abandoned_until_done (st : St) (e : Ev) (he : ∀ id fin, e ≠ .done id fin) :
    ∀ a ∈ st.abandoned, a ∈ (step st e).abandoned := by
  intro a ha
  cases e with
  | hdrNew id closing => simp only [step]; repeat' split
                         all_goals exact ha
  | dispatch id => simp only [step]; repeat' split
                   all_goals exact ha
  | close id =>
    simp only [step, closeStream, closeEntry, release]
    repeat' split
    all_goals first | exact ha | exact List.mem_append_left _ ha
  | done id fin => exact absurd rfl (he id fin)

/-- every abandoned stream's handler is still running, and the slot count includes it (this is what bounds
a rapid-reset flood: HEADERS + RST_STREAM buys the peer no extra handler) -/
theorem abandoned_are_running (max : Nat) (evs : List Ev) :
    ∀ a ∈ (run (init max) evs).abandoned, a.running = true ∧ a.uid ∈ (run (init max) evs).handlers := by
  intro a ha
  have h := run_own evs _ (init_own max)
  have hr := h.abRun a ha
  exact ⟨hr, (h.hand a.uid).mpr ⟨a, List.mem_append_right _ ha, rfl, hr⟩⟩

/-! non-vacuity: with a limit of 1, the second request is refused and the counter stays at 1 -/
example : (run (init 1) [.hdrNew 1 false, .dispatch 1, .hdrNew 3 false]).opn = 1 := by decide
example : (run (init 1) [.hdrNew 1 false, .dispatch 1, .hdrNew 3 false]).trace =
    [.dispatched 1 0, .refused 3] := by decide


/-! ### what a handler is given stays within MaxRequestBodySize and MaxHeaderListSize

Theorems about the abstract model `H2.Server.Abs.Limits` (its own lockstep adapter: body octets and
header-list size of every dispatched request, every rejection, and the per-stream counters are compared
with the full model after every step). -/
section Limits
open H2.Server.Abs

/-- **request size limits**: whatever the peer sends, every request handed to a handler carries a body of at
most MaxRequestBodySize octets (when a limit is set) and a header list of at most MaxHeaderListSize
(RFC 7540 §6.5.2 size: Σ name + value + 32; when a limit is set). -/
theorem handler_input_within_limits (maxBody : Nat) (maxHdr : Int) (evs : List Limits.Ev) :
    ∀ id body hdr, Limits.Rec.handed id body hdr ∈ (Limits.run (Limits.init maxBody maxHdr) evs).trace →
      (maxBody > 0 → body ≤ maxBody) ∧ (maxHdr > 0 → (hdr : Int) ≤ maxHdr) := by
  intro id b h hm
  have hi := Limits.run_inv evs _ (Limits.init_inv maxBody maxHdr)
  have hmx := Limits.run_max evs (Limits.init maxBody maxHdr)
  have := hi.handed id b h hm
  rw [hmx.1, hmx.2] at this
  exact this

/-- the body buffered for a stream that has not broken the limit is within it at every moment, not only at
dispatch (this is the per-stream memory bound; with `handlers_le_slots_le_limit`: at most
MaxConcurrentStreams × MaxRequestBodySize octets of request bodies per connection) -/
theorem buffered_body_within_limit (maxBody : Nat) (maxHdr : Int) (evs : List Limits.Ev) :
    ∀ s ∈ (Limits.run (Limits.init maxBody maxHdr) evs).tbl, s.dead = false → maxBody > 0 → s.body ≤ maxBody := by
  intro s hs hd hpos
  have hi := Limits.run_inv evs _ (Limits.init_inv maxBody maxHdr)
  have hmx := Limits.run_max evs (Limits.init maxBody maxHdr)
  have := (hi.tbl s hs hd).1
  rw [hmx.1] at this
  exact this hpos

/-- **held header octets are bounded by the list limit, not by the number of frames**: the octets of a header field
that is not complete yet (carried from frame to frame until the field ends) never exceed `heldFactor` = 4 times
MaxHeaderListSize for any stream, however many CONTINUATION frames the peer sends (F68 repaired) -/
theorem held_header_octets_within_limit (maxBody : Nat) (maxHdr : Int) (evs : List Limits.Ev) (hpos : maxHdr > 0) :
    ∀ s ∈ (Limits.run (Limits.init maxBody maxHdr) evs).tbl, (s.held : Int) ≤ 4 * maxHdr := by
  intro s hs
  have hi := Limits.run_inv evs _ (Limits.init_inv maxBody maxHdr)
  have hmx := Limits.run_max evs (Limits.init maxBody maxHdr)
  have := hi.held s hs
  rw [Limits.HeldOK, hmx.2] at this
  exact this hpos

/-! non-vacuity: limit 100; a tail of 400 octets is carried over, one of 401 is refused and nothing is kept -/
example : ((Limits.run (Limits.init 10 100) [.opened 1, .hdrTail 1 400]).tbl.map (·.held),
           (Limits.run (Limits.init 10 100) [.opened 1, .hdrTail 1 400]).trace) = ([400], []) := by decide
example : ((Limits.run (Limits.init 10 100) [.opened 1, .hdrTail 1 400, .hdrTail 1 401]).tbl.map (·.held),
           (Limits.run (Limits.init 10 100) [.opened 1, .hdrTail 1 400, .hdrTail 1 401]).trace) = ([0], [.fieldTooLarge 1]) := by decide

/-! non-vacuity: limit 10; 6 + 4 octets are accepted and handed over, one more octet is rejected and that
request is never dispatched -/
example : (Limits.run (Limits.init 10 100) [.opened 1, .hdrBytes 1 90, .data 1 6, .data 1 4, .dispatch 1,
    .opened 3, .hdrBytes 3 90, .data 3 10, .data 3 1, .dispatch 3, .opened 5, .hdrBytes 5 101, .dispatch 5]).trace =
    [.handed 1 10 90, .bodyTooLarge 3, .hdrTooLarge 5] := by decide

end Limits

end H2.Props.C13


/-! ### the same bounds, proved directly on the FULL server model

NEEDS `import H2.Proofs.ServerHdrLimitFull` (which imports `H2.Proofs.ServerSlotsFull`) among the imports at the top of
this file.

Everything below is about `H2.Server.step` itself (`H2/Server/Model.lean`, the model the driver runs against the real
`serverConn`), for EVERY configuration `cfg` and EVERY event list `evs` (octets from the peer cut anywhere, handler
completions, disconnects, the idle timer): `run cfg evs` is the state after the events, `runOuts cfg evs` everything
written and dispatched. No abstract model and no lockstep comparison stands between these statements and the model
the correspondence check exercises. Proofs: `H2/Proofs/ServerSlotsFull.lean` and `H2/Proofs/ServerHdrLimitFull.lean`
(invariants of `step`, preserved by every function of the model). -/
namespace H2.Props.C13
section FullModel
open H2.Server

/-- **open_slots_are_table_plus_abandoned** (full model, run level): in every reachable state `openStreams` equals the
number of table entries holding a slot (opened by HEADERS) plus the number of abandoned streams (closed while their
handler runs); all table entries and all abandoned streams do hold a slot; every abandoned stream's handler is still
running. -/
theorem Full.open_slots_are_table_plus_abandoned (cfg : Cfg) (evs : List Event) :
    (run cfg evs).1.openStreams = ((slotHolders (run cfg evs).1.strms + (run cfg evs).1.abandoned.length : Nat) : Int) ∧
    slotHolders (run cfg evs).1.strms = (run cfg evs).1.strms.length ∧
    slotHolders (run cfg evs).1.abandoned = (run cfg evs).1.abandoned.length ∧
    (∀ a ∈ (run cfg evs).1.abandoned, a.handlerRunning = true) :=
  H2.Server.open_slots_are_table_plus_abandoned cfg evs

/-- **open_slots_within_limit** (full model, run level): `0 ≤ openStreams ≤ MaxConcurrentStreams`, so the table and the
abandoned streams together are at most MaxConcurrentStreams stream objects (a HEADERS frame for a new stream is refused
while `openStreams ≥ MaxConcurrentStreams`). -/
theorem Full.open_slots_within_limit (cfg : Cfg) (evs : List Event) :
    0 ≤ (run cfg evs).1.openStreams ∧ (run cfg evs).1.openStreams ≤ (cfg.maxStreams : Int) ∧
    (run cfg evs).1.strms.length + (run cfg evs).1.abandoned.length ≤ cfg.maxStreams :=
  H2.Server.open_slots_within_limit cfg evs

/-- **handlers_within_limit** (full model, run level): handlers running for the connection (table entries with
`handlerRunning`, plus abandoned streams) ≤ `openStreams` ≤ MaxConcurrentStreams. HEADERS + RST_STREAM buys the peer no
extra handler. -/
theorem Full.handlers_within_limit (cfg : Cfg) (evs : List Event) :
    (runningHandlers (run cfg evs).1 : Int) ≤ (run cfg evs).1.openStreams ∧
    (run cfg evs).1.openStreams ≤ (cfg.maxStreams : Int) ∧
    runningHandlers (run cfg evs).1 ≤ cfg.maxStreams :=
  H2.Server.handlers_within_limit cfg evs

/-- **ring_bounded** (full model, run level): the ring of recently closed ids and the list of streams this side reset
never hold more than `closedStrmsCap` = 256 entries each. -/
theorem Full.ring_bounded (cfg : Cfg) (evs : List Event) :
    (run cfg evs).1.ring.length ≤ 256 ∧ (run cfg evs).1.resetByUs.length ≤ 256 :=
  H2.Server.ring_bounded cfg evs

/-- (full model, run level) stream objects are never aliased: table and abandoned streams are pairwise distinct
objects, and the table holds each stream id once — `Streams.Del(id)` removes the stream being closed, and a handler
reporting back for an abandoned stream gives back exactly one slot. -/
theorem Full.stream_objects_distinct (cfg : Cfg) (evs : List Event) :
    (((run cfg evs).1.strms ++ (run cfg evs).1.abandoned).map (·.uid)).Nodup ∧
    ((run cfg evs).1.strms.map (·.id)).Nodup :=
  H2.Server.stream_objects_distinct cfg evs

/-- **dispatched_body_within_limit** (full model, run level): with MaxRequestBodySize set, every dispatch record of
every run carries a body of at most that many octets. -/
theorem Full.dispatched_body_within_limit (cfg : Cfg) (evs : List Event) (sid : Nat) (m p a : Bytes)
    (fields : List (Bytes × Bytes)) (body : Digest)
    (h : Out.dispatch sid m p a fields body ∈ runOuts cfg evs) (hpos : cfg.maxBody > 0) : body.len ≤ cfg.maxBody :=
  H2.Server.dispatched_body_within_limit cfg evs sid m p a fields body h hpos

/-- (full model, run level) … and at every moment the body buffered for any stream of the table is within the limit
and no longer than the DATA octets received for it. -/
theorem Full.buffered_body_within_limit (cfg : Cfg) (evs : List Event) (hpos : cfg.maxBody > 0) :
    ∀ st ∈ (run cfg evs).1.strms, st.body.len ≤ cfg.maxBody ∧ st.body.len ≤ st.recvBody :=
  H2.Server.buffered_body_within_limit cfg evs hpos

/-- **handler_headers_within_limit** (full model, run level): with MaxHeaderListSize set, in every reachable state every
stream whose handler is running — in the table or abandoned — has a header list (RFC 7540 §6.5.2 size, all its header
blocks together) of at most that size; in the table such a stream has its header section finished and is at least
half-closed, so no further header block is ever decoded for it; and every stream of the table that has not been closed
is within the limit at every moment (the header-list part of the per-connection memory bound). -/
theorem Full.handler_headers_within_limit (cfg : Cfg) (evs : List Event) (hpos : cfg.maxHeaderList > 0) :
    (∀ st ∈ (run cfg evs).1.strms, st.handlerRunning = true →
      (st.hdrListSize : Int) ≤ cfg.maxHeaderList ∧ st.headersFinished = true ∧ st.state.rank ≥ StState.halfClosed.rank) ∧
    (∀ a ∈ (run cfg evs).1.abandoned, (a.hdrListSize : Int) ≤ cfg.maxHeaderList) ∧
    (∀ st ∈ (run cfg evs).1.strms, st.state ≠ .closed → (st.hdrListSize : Int) ≤ cfg.maxHeaderList) :=
  H2.Server.handler_headers_within_limit cfg evs hpos

/-- (full model, step level) a header frame that `handleHeaderFrame` accepts without error leaves the stream's running
header-list size within the limit, provided it was within it before: the field loop checks before it adds. -/
theorem Full.accepted_header_frame_within_limit (s : Srv) (st : Strm) (fr : H2.Frame.Frame) (hpos : s.cfg.maxHeaderList > 0)
    (h0 : (st.hdrListSize : Int) ≤ s.cfg.maxHeaderList) (hn : (handleHeaderFrame s st fr).2.2 = none) :
    ((handleHeaderFrame s st fr).2.1.hdrListSize : Int) ≤ s.cfg.maxHeaderList :=
  H2.Server.handleHeaderFrame_limit s st fr hpos h0 hn

/-- **held_header_octets_bounded** (full model, run level; F68 repaired): with MaxHeaderListSize set, in every reachable
state every stream of the table holds at most 4 × MaxHeaderListSize octets of a header field that is not complete yet
(`prevHdr`, Go `strm.previousHeaderBytes`: carried from frame to frame until the field ends) — a bound in the limit and
not in the number of HEADERS/CONTINUATION frames the peer has sent. With `open_slots_within_limit`: at most
MaxConcurrentStreams × 4 × MaxHeaderListSize such octets per connection. The field loop checks before it stores, so no
frame's worth of slack is needed; the bound is attained (`Ex.cutRun` below). 4 × the limit loses no request: HPACK wire
octets decode to at least 8/30 of their number, so a longer field could never fit the list limit. -/
theorem Full.held_header_octets_bounded (cfg : Cfg) (evs : List Event) (hpos : cfg.maxHeaderList > 0) :
    ∀ st ∈ (run cfg evs).1.strms, (st.prevHdr.length : Int) ≤ 4 * cfg.maxHeaderList :=
  H2.Server.held_header_octets_bounded cfg evs hpos

/-- (full model, step level) whatever `handleHeaderFrame` is given and however it ends, the stream it returns holds an
unfinished field within the bound, provided the one it was given did. -/
theorem Full.header_frame_keeps_held_bound (s : Srv) (st : Strm) (fr : H2.Frame.Frame) (hpos : s.cfg.maxHeaderList > 0)
    (h0 : (st.prevHdr.length : Int) ≤ 4 * s.cfg.maxHeaderList) :
    ((handleHeaderFrame s st fr).2.1.prevHdr.length : Int) ≤ 4 * s.cfg.maxHeaderList :=
  H2.Server.handleHeaderFrame_held s st fr (fun _ => h0) hpos

/-! non-vacuity (`Ex.cutRun`, MaxHeaderListSize = 10: a literal field whose value announces 127 octets; 35 + 5 = 40
octets of it are held and nothing is written; one more octet draws GOAWAY(ENHANCE_YOUR_CALM) and nothing is held) -/
example : (run { maxHeaderList := 10 } Ex.cutRun).1.strms.map (fun st => (st.id, st.prevHdr.length)) = [(1, 40)] ∧
    fm Ex.tag (runOuts { maxHeaderList := 10 } Ex.cutRun) = [] := by decide +kernel
example : (run { maxHeaderList := 10 } (Ex.cutRun ++ [Ex.moreCont 1 1])).1.strms.map (fun st => (st.id, st.prevHdr.length)) = [(1, 0)] ∧
    fm Ex.tag (runOuts { maxHeaderList := 10 } (Ex.cutRun ++ [Ex.moreCont 1 1])) = [("goaway", 1)] := by decide +kernel

/-! non-vacuity on the full model (`Ex.slotRun`, MaxConcurrentStreams = 1: HEADERS(1) dispatched, HEADERS(3) refused,
the peer resets 1 while its handler runs — abandoned, slot kept — HEADERS(5) still refused; after the handler of 1
reports back HEADERS(7) is accepted. `Ex.bodyRun`, MaxRequestBodySize = 2: two octets are handed over, three are not).
The same operations replayed on the real server give the same lines (REPORT). -/
example : (run { maxStreams := 1 } Ex.slotRun).1.openStreams = 1 ∧ (run { maxStreams := 1 } Ex.slotRun).1.strms.length = 0 ∧
    (run { maxStreams := 1 } Ex.slotRun).1.abandoned.length = 1 ∧ runningHandlers (run { maxStreams := 1 } Ex.slotRun).1 = 1 := by
  decide +kernel
example : fm Ex.tag (runOuts { maxStreams := 1 } Ex.slotRun) = [("dispatch", 1), ("rst", 3), ("rst", 5)] := by decide +kernel
example : dispatchedIds (runOuts { maxStreams := 1 } (Ex.slotRun ++ [.done 1 {}, Ex.hdrs 7])) = [1, 7] := by decide +kernel
example : Ex.bodyLens (runOuts { maxBody := 2 } Ex.bodyRun) = [(1, 2)] ∧
    fm Ex.tag (runOuts { maxBody := 2 } Ex.bodyRun) = [("dispatch", 1), ("rst", 3)] := by decide +kernel

/-! `Ex.hdrRun`, MaxHeaderListSize = 200: GET / http (123 octets) is dispatched; the same with two more fields (243 octets)
draws GOAWAY(ENHANCE_YOUR_CALM) and is not -/
example : fm Ex.tag (runOuts { maxHeaderList := 200 } Ex.hdrRun) = [("dispatch", 1), ("goaway", 3)] := by decide +kernel
example : (run { maxHeaderList := 200 } Ex.hdrRun).1.strms.map (fun st => (st.id, st.hdrListSize, st.handlerRunning)) =
    [(1, 123, true), (3, 243, false)] := by decide +kernel

end FullModel
end H2.Props.C13
