import H2.Proofs.Slots
import H2.Proofs.Limits
/-!
# C13 — server work and memory per connection stay within the configured limits

Theorems about the abstract slot-accounting model `H2.Server.Abs.Slots` (every event sequence, no
bound). `run (init max) evs` is the state after the events `evs`, where an event is: a HEADERS frame
that reaches the concurrency-limit check, a dispatch, a `closeStream`, a handler reporting back.
The driver runs this model in lockstep with the full server model and compares `openStreams`, the
table, the abandoned streams, the ring, the refusals and the dispatches after every step.
-/
namespace H2.Props.C13
open H2.Server.Abs.Slots

/-- **handlers ≤ slots ≤ limit**: after any history, the number of handlers running for the connection
(streams in the table with `handlerRunning`, plus streams closed while their handler runs) is at most
`openStreams`, which is exactly the number of live stream objects (table + abandoned) and is at most
MaxConcurrentStreams. In particular the stream table holds at most MaxConcurrentStreams entries. -/
theorem handlers_le_slots_le_limit (max : Nat) (evs : List Ev) :
    let st := run (init max) evs
    (runningCount st : Int) ≤ st.opn ∧
    st.opn = (st.tbl.length : Int) + st.abandoned.length ∧
    st.opn ≤ (max : Int) ∧
    st.tbl.length ≤ max := by
  intro st
  have h : Cnt st := run_cnt evs _ (init_cnt max)
  have hm : st.max = max := run_max evs _
  have hr := runningCount_le st
  obtain ⟨c, l⟩ := h
  rw [hm] at l
  refine ⟨?_, c, l, ?_⟩ <;> omega

/-- **closed-stream memory**: the ring of recently closed ids never holds more than 256 entries -/
theorem ring_bounded (max : Nat) (evs : List Ev) : (run (init max) evs).ring.length ≤ 256 :=
  run_ring evs _ (by simp [init])

/-- **one table entry per stream id** (now that only HEADERS creates a stream): no two entries of the stream
table carry the same id, and none is above `lastID`. So `Streams.Del(id)` removes the entry being closed and
never a namesake — the aliasing of finding F17 cannot occur. -/
theorem table_ids_unique (max : Nat) (evs : List Ev) :
    ((run (init max) evs).tbl.map (·.id)).Nodup ∧ ∀ s ∈ (run (init max) evs).tbl, s.id ≤ (run (init max) evs).lastID :=
  let h := run_ids evs _ (init_ids max)
  ⟨h.nodup, h.le⟩

/-- **a cancelled stream keeps its slot until its handler returns**: closing a stream whose handler is
running (peer's RST_STREAM, stream error, timeout) takes it out of the table, moves it to `abandoned`, leaves
`openStreams` as it is and hands nothing to the pool -/
theorem cancelled_keeps_slot (st : St) (s : Strm) (hr : s.running = true) :
    (closeEntry st s).opn = st.opn ∧ (closeEntry st s).pool = st.pool ∧
    (closeEntry st s).abandoned = st.abandoned ++ [s] := by
  simp [closeEntry, hr]

/-- … and an abandoned stream leaves `abandoned` (giving the slot back) only when a handler reports back:
every other event keeps all abandoned streams where they are -/
theorem abandoned_until_done (st : St) (e : Ev) (he : ∀ id fin, e ≠ .done id fin) :
    ∀ a ∈ st.abandoned, a ∈ (step st e).abandoned := by
  intro a ha
  cases e with
  | hdrNew id closing => simp only [step]; repeat' split
                         all_goals exact ha
  | dispatch id => simp only [step]; repeat' split
                   all_goals exact ha
  | close id =>
    simp only [step, closeStream, closeEntry, release]
    repeat' split
    all_goals first | exact ha | exact List.mem_append_left _ ha
  | done id fin => exact absurd rfl (he id fin)

/-- every abandoned stream's handler is still running, and the slot count includes it (this is what bounds
a rapid-reset flood: HEADERS + RST_STREAM buys the peer no extra handler) -/
theorem abandoned_are_running (max : Nat) (evs : List Ev) :
    ∀ a ∈ (run (init max) evs).abandoned, a.running = true ∧ a.uid ∈ (run (init max) evs).handlers := by
  intro a ha
  have h := run_own evs _ (init_own max)
  have hr := h.abRun a ha
  exact ⟨hr, (h.hand a.uid).mpr ⟨a, List.mem_append_right _ ha, rfl, hr⟩⟩

/-! non-vacuity: with a limit of 1, the second request is refused and the counter stays at 1 -/
example : (run (init 1) [.hdrNew 1 false, .dispatch 1, .hdrNew 3 false]).opn = 1 := by decide
example : (run (init 1) [.hdrNew 1 false, .dispatch 1, .hdrNew 3 false]).trace =
    [.dispatched 1 0, .refused 3] := by decide


/-! ### what a handler is given stays within MaxRequestBodySize and MaxHeaderListSize

Theorems about the abstract model `H2.Server.Abs.Limits` (its own lockstep adapter: body octets and
header-list size of every dispatched request, every rejection, and the per-stream counters are compared
with the full model after every step). -/
section Limits
open H2.Server.Abs

/-- **request size limits**: whatever the peer sends, every request handed to a handler carries a body of at
most MaxRequestBodySize octets (when a limit is set) and a header list of at most MaxHeaderListSize
(RFC 7540 §6.5.2 size: Σ name + value + 32; when a limit is set). -/
theorem handler_input_within_limits (maxBody : Nat) (maxHdr : Int) (evs : List Limits.Ev) :
    ∀ id body hdr, Limits.Rec.handed id body hdr ∈ (Limits.run (Limits.init maxBody maxHdr) evs).trace →
      (maxBody > 0 → body ≤ maxBody) ∧ (maxHdr > 0 → (hdr : Int) ≤ maxHdr) := by
  intro id b h hm
  have hi := Limits.run_inv evs _ (Limits.init_inv maxBody maxHdr)
  have hmx := Limits.run_max evs (Limits.init maxBody maxHdr)
  have := hi.handed id b h hm
  rw [hmx.1, hmx.2] at this
  exact this

/-- the body buffered for a stream that has not broken the limit is within it at every moment, not only at
dispatch (this is the per-stream memory bound; with `handlers_le_slots_le_limit`: at most
MaxConcurrentStreams × MaxRequestBodySize octets of request bodies per connection) -/
theorem buffered_body_within_limit (maxBody : Nat) (maxHdr : Int) (evs : List Limits.Ev) :
    ∀ s ∈ (Limits.run (Limits.init maxBody maxHdr) evs).tbl, s.dead = false → maxBody > 0 → s.body ≤ maxBody := by
  intro s hs hd hpos
  have hi := Limits.run_inv evs _ (Limits.init_inv maxBody maxHdr)
  have hmx := Limits.run_max evs (Limits.init maxBody maxHdr)
  have := (hi.tbl s hs hd).1
  rw [hmx.1] at this
  exact this hpos

/-! non-vacuity: limit 10; 6 + 4 octets are accepted and handed over, one more octet is rejected and that
request is never dispatched -/
example : (Limits.run (Limits.init 10 100) [.opened 1, .hdrBytes 1 90, .data 1 6, .data 1 4, .dispatch 1,
    .opened 3, .hdrBytes 3 90, .data 3 10, .data 3 1, .dispatch 3, .opened 5, .hdrBytes 5 101, .dispatch 5]).trace =
    [.handed 1 10 90, .bodyTooLarge 3, .hdrTooLarge 5] := by decide

end Limits

end H2.Props.C13
