import H2.Server.Abs.Owner
/-!
# C19 — a pooled object never has two owners (ownership half; see DESIGN.md for the data-race half)

The first half of C19 — no unsynchronised concurrent memory access — is a statement about every load and store
of the running program under the Go memory model. The models here have no memory accesses in their actions, so
no theorem below can exhibit or exclude a race; the check runs the Go race detector over concurrent workloads in
its thorough tier as a *search aid* (a report is a failing history), never as a proof. What is proved is the
ownership half, in three pieces: the discipline below is safe for every interleaving of every number of actors;
the frame read path follows it on every input (`C16.pool_once`); the server's request contexts follow it
(`C17.ctx_not_recycled_in_use`, `C17.ctx_released_once`, on the slot-accounting model). That the rest of the code
follows the discipline is checked at run time by the pool tracker on every correspondence run.
-/
namespace H2.Props.C19
open H2.Server.Owner

/-- **single owner**: at any point of any run that respects the discipline, if two actors may touch the same
object they are the same actor -/
theorem single_owner (s : St) (a b o : Nat) (ha : mayTouch s a o) (hb : mayTouch s b o) : a = b := by
  unfold mayTouch at *
  rw [ha] at hb
  injection hb

/-- an action by an actor that does not hold the object is not possible -/
theorem foreign_release_impossible (s : St) (a o : Nat) (h : s o ≠ .held a) : step s (.release a o) = none := by
  simp [step, h]

/-- **no double release**: after a release the object is free, and a second release — by anyone — is not possible
until somebody has acquired it again -/
theorem no_double_release (s s' : St) (a b o : Nat) (h : step s (.release a o) = some s') :
    s' o = .free ∧ step s' (.release b o) = none := by
  simp only [step] at h
  split at h
  · injection h with h; subst h
    simp [step, put]
  · cases h

/-- **no second owner**: an object that is held or in transit cannot be acquired -/
theorem no_acquire_while_owned (s : St) (a o : Nat) (h : s o ≠ .free) : step s (.acquire a o) = none := by
  simp [step, h]

/-- the balance of one object: as many releases as acquisitions when it is free, one fewer otherwise -/
def Bal (s : St) (o n m : Nat) : Prop := (s o = .free → n = m) ∧ (s o ≠ .free → n = m + 1)

theorem put_other (s : St) (o o' : Nat) (v : Own) (h : o' ≠ o) : put s o' v o = s o := by
  simp [put, Ne.symm h]

theorem step_balance (s0 s1 : St) (a : Act) (o n m : Nat) (hs : step s0 a = some s1) (hb : Bal s0 o n m) :
    Bal s1 o (n + acquires o [a]) (m + releases o [a]) := by
  cases a with
  | acquire x o' =>
    simp only [step] at hs
    split at hs
    · rename_i hf
      injection hs with hs; subst hs
      by_cases ho : o' = o
      · subst ho
        have := hb.1 hf
        simp [Bal, put, acquires, releases, this]
      · have e1 : acquires o [Act.acquire x o'] = 0 := by simp [acquires, ho]
        have e2 : releases o [Act.acquire x o'] = 0 := by simp [releases]
        simpa [Bal, put_other _ _ _ _ ho, e1, e2] using hb
    · cases hs
  | send x ch o' =>
    simp only [step] at hs
    split at hs
    · rename_i hf
      injection hs with hs; subst hs
      by_cases ho : o' = o
      · subst ho
        have := hb.2 (by rw [hf]; simp)
        simp [Bal, put, acquires, releases, this]
      · simpa [Bal, put_other _ _ _ _ ho, acquires, releases] using hb
    · cases hs
  | recv x ch o' =>
    simp only [step] at hs
    split at hs
    · rename_i hf
      injection hs with hs; subst hs
      by_cases ho : o' = o
      · subst ho
        have := hb.2 (by rw [hf]; simp)
        simp [Bal, put, acquires, releases, this]
      · simpa [Bal, put_other _ _ _ _ ho, acquires, releases] using hb
    · cases hs
  | release x o' =>
    simp only [step] at hs
    split at hs
    · rename_i hf
      injection hs with hs; subst hs
      by_cases ho : o' = o
      · subst ho
        have := hb.2 (by rw [hf]; simp)
        simp [Bal, put, acquires, releases, this]
      · have e1 : acquires o [Act.release x o'] = 0 := by simp [acquires]
        have e2 : releases o [Act.release x o'] = 0 := by simp [releases, ho]
        simpa [Bal, put_other _ _ _ _ ho, e1, e2] using hb
    · cases hs

theorem acquires_cons (o : Nat) (a : Act) (as : List Act) : acquires o (a :: as) = acquires o [a] + acquires o as := by
  have : a :: as = [a] ++ as := rfl
  simp only [acquires]
  rw [this, List.filter_append, List.length_append]

theorem releases_cons (o : Nat) (a : Act) (as : List Act) : releases o (a :: as) = releases o [a] + releases o as := by
  have : a :: as = [a] ++ as := rfl
  simp only [releases]
  rw [this, List.filter_append, List.length_append]

theorem run_balance (as : List Act) (s0 s : St) (o n m : Nat) (h : run s0 as = some s) (hb : Bal s0 o n m) :
    Bal s o (n + acquires o as) (m + releases o as) := by
  induction as generalizing s0 n m with
  | nil =>
    simp only [run] at h
    injection h with h; subst h
    simpa [acquires, releases] using hb
  | cons a as ih =>
    simp only [run] at h
    cases hs : step s0 a with
    | none => rw [hs] at h; cases h
    | some s1 =>
      rw [hs] at h
      have := ih s1 _ _ h (step_balance s0 s1 a o n m hs hb)
      rw [acquires_cons, releases_cons]
      simpa [Nat.add_assoc] using this

/-- **releases never outnumber acquisitions**: along every run from the initial state that respects the
discipline, every object has been released exactly as often as it was acquired when it is free, and exactly once
less while somebody owns it or it is in transit -/
theorem balance (as : List Act) (s : St) (h : run init as = some s) (o : Nat) :
    (s o = .free → acquires o as = releases o as) ∧ (s o ≠ .free → acquires o as = releases o as + 1) := by
  have := run_balance as init s o 0 0 h ⟨fun _ => rfl, fun hne => absurd rfl hne⟩
  simpa [Bal] using this

/-! non-vacuity: the read loop acquires a frame, hands it to the stream loop, which releases it -/
example : ∃ s, run init [.acquire 0 7, .send 0 1 7, .recv 1 1 7, .release 1 7] = some s ∧ s 7 = .free :=
  ⟨_, rfl, by decide⟩
/-- a double release (the shape of finding F10) is not a possible run -/
example : run init [.acquire 0 7, .release 0 7, .release 0 7] = none := by decide

end H2.Props.C19
