import H2.Proofs.Slots
import H2.Server.Model
/-!
# C17 — the server never recycles a request context a handler is still using; the step function is total

Two parts.

**Ownership** (abstract model `H2.Server.Abs.Slots`, every event sequence). Each stream object carries the
ghost identity `uid` of the `*Stream`/`*fasthttp.RequestCtx` pair it took from the pools. Ghost ledgers,
kept independently of the `handlerRunning` flags the code consults: `handlers` — contexts a handler
goroutine was started with and has not reported back for; `pool` — contexts put back with `ctxPool.Put`;
`trace` — `dispatched`, `returned`, `released u inUse` records in order, where `inUse` is computed from
the ledger at the moment of the `Put`.

**Totality.** `H2.Server.stepR : Srv → Event → R` is a total Lean function and `R`/`Out` have no "panicked"
outcome for the serving code: the model cannot even express a panic of `readLoop`, `handleStreams`,
`writeLoop` or `Serve`. That the Go code does not panic where the model just computes on is therefore an
ASSUMPTION of every theorem about the model, discharged outside Lean: (a) by the correspondence runs
(the harness reports a Go panic as the result `panic`, which the model never prints, and the monitors of
C17 look for "panicked" in the server's log), (b) by the inspection of every expression of `serverConn.go`
that can panic (index, nil dereference, type assertion, channel operation) in the report's table.
The only panic the model knows is the application handler's own (`Out.handlerPanicLogged`), which the
code recovers and answers with a 500.
-/
namespace H2.Props.C17
open H2.Server.Abs.Slots

theorem reachable (max : Nat) (evs : List Ev) : Own (run (init max) evs) := run_own evs _ (init_own max)

/-- **a context is never recycled while in use**: whenever a context goes back to the pool, no handler
has it (at that very moment, by the independent ledger) … -/
theorem ctx_not_recycled_in_use (max : Nat) (evs : List Ev) :
    ∀ u inUse, Rec.released u inUse ∈ (run (init max) evs).trace → inUse = false :=
  (reachable max evs).relOK

/-- … and in every reachable state no running handler holds a context that is in the pool (so neither
"released while the handler runs" nor "a handler started on a released context" ever happens) -/
theorem pool_and_handlers_disjoint (max : Nat) (evs : List Ev) :
    ∀ u ∈ (run (init max) evs).pool, u ∉ (run (init max) evs).handlers := by
  intro u hp hh
  have h := reachable max evs
  obtain ⟨s, hs, e, _⟩ := (h.hand u).mp hh
  exact h.disj s hs (e ▸ hp)

/-- **released at most once**: the contexts put back are pairwise different, and they are exactly the
`released` records of the trace -/
theorem ctx_released_once (max : Nat) (evs : List Ev) :
    (run (init max) evs).pool.Nodup ∧
    (run (init max) evs).pool = (run (init max) evs).trace.filterMap relUid :=
  ⟨(reachable max evs).poolNodup, (reachable max evs).poolTrace⟩

/-- the flags the code consults agree with the ledger: a context is in a handler's hands exactly when its
stream object (in the table or abandoned) has `handlerRunning` set; live stream objects have pairwise
different contexts, none of them in the pool -/
theorem flags_match_ledger (max : Nat) (evs : List Ev) :
    let st := run (init max) evs
    (∀ u, u ∈ st.handlers ↔ ∃ s ∈ st.tbl ++ st.abandoned, s.uid = u ∧ s.running = true) ∧
    ((st.tbl ++ st.abandoned).map (·.uid)).Nodup ∧
    (∀ s ∈ st.tbl ++ st.abandoned, s.uid ∉ st.pool) :=
  let h := reachable max evs
  ⟨h.hand, h.nodup, h.disj⟩

/-- **totality**: every event has an outcome in every state (see the module text for what this does and
does not say about the Go code) -/
theorem stepR_total (s : H2.Server.Srv) (ev : H2.Server.Event) : ∃ r : H2.Server.R, H2.Server.stepR s ev = r :=
  ⟨_, rfl⟩

/-- the outcomes: a list of frames/dispatch records/markers; the only panic marker is the handler's -/
theorem outcomes_enumerated (o : H2.Server.Out) :
    (∃ x, o = .settings x) ∨ o = .settingsAck ∨ (∃ a b, o = .wu a b) ∨ (∃ a b, o = .ping a b) ∨
    (∃ a b c d e f, o = .headers a b c d e f) ∨ (∃ a b c d e, o = .cont a b c d e) ∨ (∃ a b c d, o = .data a b c d) ∨ (∃ a b, o = .rst a b) ∨
    (∃ a b c, o = .goAway a b c) ∨ (∃ a b c d e f, o = .dispatch a b c d e f) ∨
    o = .handlerPanicLogged ∨ o = .returned := by
  cases o <;> simp

/-! non-vacuity: request 1 dispatched, reset by the peer while the handler runs (abandoned, nothing
released), handler returns (released, not in use); request 3 answered normally -/
example : (run (init 2) [.hdrNew 1 false, .dispatch 1, .close 1, .hdrNew 3 false, .dispatch 3,
                         .done 1 false, .done 3 true]).trace =
    [.dispatched 1 0, .dispatched 3 1, .returned 0, .released 0 false, .returned 1, .released 1 false] := by decide

end H2.Props.C17
