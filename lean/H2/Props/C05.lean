import H2.Proofs.Frame
import H2.Proofs.FrameWrite
/-!
# C05 — frames serialise to, and parse from, the RFC 7540 wire layout

* `H2.Frame.readFrame` / `deserialize` (Frame/Model.lean) mirror `ReadFrameFromWithSize` and every `Deserialize`;
  `H2.Frame.write` / `serialize` (Frame/Write.lean) mirror `FrameHeader.WriteTo` and every `Serialize`. Both are run
  against the real code on every check (correspondence).
* `H2.Frame.Spec.parse` / `sendWF` (Frame/Spec.lean) is the RFC 7540 §4.1/§6 grammar, written with the RFC's numbers.

Read side: full theorem. Write side: full theorem too (`write_wf`, `C05_write_full_proved`). F14 (the PUSH_PROMISE
writer wrote no promised stream id, END_HEADERS or padding) is repaired: PUSH_PROMISE frames are covered like every
other type, with every promised id `SetStream` accepts (`write_wf_pushPromise`), and the former witnesses are kept as
regression examples of the repaired layout. F35 (SETTINGS values of zero could not be written) is repaired: SETTINGS
frames are covered in full (`write_wf_settings`) and the former witnesses are kept as regression examples.
-/
namespace H2.Props.C05
open H2 H2.Frame

/-- §4.1 header layout: what `parseHeader` writes for 24/8/8/31-bit fields, the RFC grammar reads back -/
theorem header_roundtrip (len typ flags stream : Nat) (rest : Bytes)
    (hl : len < 2 ^ 24) (ht : typ < 256) (hf : flags < 256) (hs : stream < 2 ^ 31) :
    Spec.parseHdr (header len typ flags stream ++ rest) = some (⟨len, typ, flags, stream⟩, rest) :=
  parseHdr_header len typ flags stream rest hl ht hf hs

/-- … and `parseValues` reads the same fields: a frame with an unknown type shows the header fields alone -/
theorem header_roundtrip_impl (len typ flags stream : Nat) (p : Bytes)
    (hl : len < 2 ^ 24) (ht : 9 < typ) (ht' : typ < 256) (hf : flags < 256) (hs : stream < 2 ^ 31) (hp : p.length = len) :
    readFrame 0 (header len typ flags stream ++ p) = .unknownType typ (9 + len) := by
  have h24 : len / 65536 % 256 * 65536 + len / 256 % 256 * 256 + len % 256 = len := by omega
  have hm : typ % 256 = typ := by omega
  have ht9 : typ > 9 := ht
  simp [readFrame, header, toBe24, toBe32, be24, h24, hm, ht9, Gen.c_FrameContinuation, hp]

/-- **read_ok**: every frame the RFC grammar accepts (any type, any flags octet, padding, priority section, any length
up to the limit, followed by anything) is read by the implementation model to exactly those fields — reserved bits
dropped, padding stripped — consuming exactly `9 + length` octets, and the grammar's remainder is what is left in the
reader. -/
theorem read_ok (max : Nat) (b : Bytes) (hb : WF b) (f : Frame) (rest : Bytes)
    (h : Spec.parse max b = .frame f rest) :
    readFrame max b = .ok f (9 + f.length) ∧ rest = b.drop (9 + f.length) ∧ 9 + f.length ≤ b.length := by
  have := read_refines max b hb
  rw [h] at this
  exact this

/-- reserved bit of the stream identifier is ignored on receipt -/
theorem reserved_ignored (max : Nat) (h0 h1 h2 h3 h4 s0 : Nat) (tl : Bytes) :
    readFrame max (h0 :: h1 :: h2 :: h3 :: h4 :: (s0 + 128) :: tl) = readFrame max (h0 :: h1 :: h2 :: h3 :: h4 :: s0 :: tl) := by
  have e : be32 ((s0 + 128) :: tl) % 2 ^ 31 = be32 (s0 :: tl) % 2 ^ 31 := by
    simp only [be32, List.getD_cons_zero, List.getD_cons_succ]; omega
  simp only [readFrame, List.length_cons, be24, List.getD_cons_zero, List.getD_cons_succ, List.drop_succ_cons, List.drop_zero, e]

/-- the same on the grammar's side, so `read_ok` covers frames with the R bit set -/
theorem reserved_ignored_spec (max : Nat) (h0 h1 h2 h3 h4 s0 : Nat) (tl : Bytes) :
    Spec.parse max (h0 :: h1 :: h2 :: h3 :: h4 :: (s0 + 128) :: tl) = Spec.parse max (h0 :: h1 :: h2 :: h3 :: h4 :: s0 :: tl) := by
  rcases tl with _ | ⟨s1, _ | ⟨s2, _ | ⟨s3, tl⟩⟩⟩
  all_goals try (simp [Spec.parse, Spec.parseHdr]; done)
  have : (s0 + 128) % 128 = s0 % 128 := by omega
  simp [Spec.parse, Spec.parseHdr, Spec.u31, this]

/-- the full write-side statement of the property: every frame value the public API can build, with every pad length
`AddPadding` can draw, is written as exactly one RFC 7540 frame a conforming sender may emit, and the RFC grammar reads
the caller's fields back from it -/
def C05_write_full : Prop :=
  ∀ (stream pad : Nat) (w : WFrame), InRange w → PadOk pad → stream < 2 ^ 31 →
    (serialize 0 pad w).2.length < 2 ^ 24 → Spec.streamOk w.typ stream = true →
    Spec.sendWF (write 0 stream pad w) = true ∧
    ∃ bd, Spec.parse 0 (write 0 stream pad w) =
        .frame ⟨w.typ, (serialize 0 pad w).1, stream, (serialize 0 pad w).2.length, bd⟩ [] ∧
      sameBody bd w.want = true

/-- **write_wf**: every frame value the public API can build — all ten types, PUSH_PROMISE included — with every pad
length `AddPadding` can draw, is written as exactly one RFC 7540 frame a conforming sender may emit, and the RFC grammar
reads the caller's fields back from it -/
theorem write_wf (stream pad : Nat) (w : WFrame) (hr : InRange w) (hp : PadOk pad) (hs : stream < 2 ^ 31)
    (hsz : (serialize 0 pad w).2.length < 2 ^ 24) (hso : Spec.streamOk w.typ stream = true) :
    Spec.sendWF (write 0 stream pad w) = true ∧
    ∃ bd, Spec.parse 0 (write 0 stream pad w) =
        .frame ⟨w.typ, (serialize 0 pad w).1, stream, (serialize 0 pad w).2.length, bd⟩ [] ∧
      sameBody bd w.want = true :=
  have hB := buildable_of w hr
  ⟨write_sendwf stream pad w hB hp hs hsz hso, write_parse stream pad w hB hp hs hsz⟩

/-- the full write-side statement holds -/
theorem C05_write_full_proved : C05_write_full := write_wf

/-- **write_wf for PUSH_PROMISE, spelled out** (F14 repaired): whatever promised id `SetStream` was handed (any uint32),
END_HEADERS on or off, padding off or of any length `AddPadding` draws, any header block fragment — the frame written
is one a conforming sender may emit (reserved bit of the promised id clear, padding zero) and the RFC grammar reads
back the 31-bit promised id, END_HEADERS and exactly the caller's fragment. -/
theorem write_wf_pushPromise (stream pad pr : Nat) (eh : Bool) (h : Bytes) (hpr : pr < 2 ^ 32) (hh : WF h) (hp : PadOk pad)
    (hs : stream < 2 ^ 31) (hs0 : stream ≠ 0) (hsz : (serialize 0 pad (.pushPromise pr eh h)).2.length < 2 ^ 24) :
    Spec.sendWF (write 0 stream pad (.pushPromise pr eh h)) = true ∧
    Spec.parse 0 (write 0 stream pad (.pushPromise pr eh h)) =
      .frame ⟨5, (serialize 0 pad (.pushPromise pr eh h)).1, stream, (serialize 0 pad (.pushPromise pr eh h)).2.length,
              .pushPromise (pr % 2 ^ 31) eh h⟩ [] := by
  obtain ⟨h1, bd, h2, h3⟩ := write_wf stream pad (.pushPromise pr eh h) ⟨hpr, hh⟩ hp hs hsz
    (by simp [WFrame.typ, Gen.c_FramePushPromise, Spec.streamOk, hs0])
  refine ⟨h1, ?_⟩
  cases bd <;> simp [sameBody, WFrame.want] at h3
  obtain ⟨rfl, rfl, rfl⟩ := h3
  exact h2

/-- F14, the recorded witness, now a regression example: a PUSH_PROMISE with a 2-octet header block (it used to be
written as a malformed frame) is written with its promised id in front and parses back to that id and that block … -/
theorem write_pushPromise_regression :
    write 0 1 0 (.pushPromise 2 true [130, 134]) = [0, 0, 6, 5, 4, 0, 0, 0, 1, 0, 0, 0, 2, 130, 134] ∧
    Spec.parse 0 (write 0 1 0 (.pushPromise 2 true [130, 134])) = .frame ⟨5, 4, 1, 6, .pushPromise 2 true [130, 134]⟩ [] ∧
    Spec.sendWF (write 0 1 0 (.pushPromise 2 true [130, 134])) = true := by decide

/-- … and with a longer block (its first four octets used to be read as the promised stream 42370113) the whole
block is the fragment -/
theorem write_pushPromise_regression' :
    Spec.parse 0 (write 0 1 0 (.pushPromise 2 false [130, 134, 132, 65, 138])) =
      .frame ⟨5, 0, 1, 9, .pushPromise 2 false [130, 134, 132, 65, 138]⟩ [] := by decide

/-- the reserved bit of the promised id is never written: an id with bit 31 set goes out as its low 31 bits -/
theorem write_pushPromise_reserved_clear :
    write 0 3 0 (.pushPromise (2 ^ 31 + 7) false []) = [0, 0, 4, 5, 0, 0, 0, 0, 3, 0, 0, 0, 7] ∧
    write 0 3 0 (.pushPromise (2 ^ 32 - 1) false []) = [0, 0, 4, 5, 0, 0, 0, 0, 3, 127, 255, 255, 255] := by decide

/-- padding: pad-length octet, promised id, fragment, that many zero octets; PADDED and END_HEADERS set -/
theorem write_pushPromise_padded :
    write 0 1 9 (.pushPromise 2 true [130]) = [0, 0, 15, 5, 12, 0, 0, 0, 1, 9, 0, 0, 0, 2, 130, 0, 0, 0, 0, 0, 0, 0, 0, 0] ∧
    Spec.parse 0 (write 0 1 9 (.pushPromise 2 true [130])) = .frame ⟨5, 12, 1, 15, .pushPromise 2 true [130]⟩ [] := by decide

/-- a SETTINGS payload is at most six pairs -/
theorem settings_payload_le (pad : Nat) (ack push : Bool) (ts ms ws fs hs : Nat) :
    (serialize 0 pad (.settings ack ts push ms ws fs hs)).2.length ≤ 36 := by
  cases ack
  · simp only [serialize, settingsEncode, settingsPair, toBe16, toBe32, Bool.false_eq_true, if_false, List.length_append]
    repeat' split
    all_goals simp
  · simp [serialize]

/-- **write_wf for SETTINGS, in full** (F35 repaired): every SETTINGS frame the setters can build — any table size,
stream limit and window from 0 up, push on or off, acknowledgement or not — is written as one frame a conforming sender
may emit and the RFC grammar reads back exactly the values the caller set, zero included. -/
theorem write_wf_settings (pad : Nat) (ack push : Bool) (ts ms ws fs hs : Nat)
    (hr : InRange (.settings ack ts push ms ws fs hs)) (hp : PadOk pad) :
    Spec.sendWF (write 0 0 pad (.settings ack ts push ms ws fs hs)) = true ∧
    ∃ bd, Spec.parse 0 (write 0 0 pad (.settings ack ts push ms ws fs hs)) =
        .frame ⟨4, (serialize 0 pad (.settings ack ts push ms ws fs hs)).1, 0,
                (serialize 0 pad (.settings ack ts push ms ws fs hs)).2.length, bd⟩ [] ∧
      sameBody bd (WFrame.settings ack ts push ms ws fs hs).want = true :=
  write_wf 0 pad _ hr hp (by omega)
    (Nat.lt_of_le_of_lt (settings_payload_le pad ack push ts ms ws fs hs) (by omega))
    (by simp [WFrame.typ, Gen.c_FrameSettings, Spec.streamOk])

/-- F35, the recorded witness, now a regression example: HEADER_TABLE_SIZE = 0 is written (with ENABLE_PUSH = 0 beside
it) and a reader is left with a table of 0 octets, not the initial 4096 -/
theorem write_settings_zero_regression :
    ∃ sv, Spec.parse 0 (write 0 0 0 (.settings false 0 false 100 65535 16384 0)) = .frame ⟨4, 0, 0, 30, .settings sv⟩ [] ∧
      sv.tableSize = 0 ∧ sv.hasPush = true ∧ sv.enablePush = false ∧
      sameBody (.settings sv) (WFrame.want (.settings false 0 false 100 65535 16384 0)) = true :=
  ⟨Spec.settingsVal false [(1, 0), (2, 0), (3, 100), (4, 65535), (5, 16384)], by decide, by decide, by decide, by decide, by decide⟩

/-- … and MAX_CONCURRENT_STREAMS = 0, INITIAL_WINDOW_SIZE = 0 (second line of known/F35.ops) -/
theorem write_settings_zero_regression' :
    ∃ sv, Spec.parse 0 (write 0 0 0 (.settings false 4096 false 0 0 16384 0)) = .frame ⟨4, 0, 0, 30, .settings sv⟩ [] ∧
      sv.maxStreams = 0 ∧ sv.windowSize = 0 ∧
      sameBody (.settings sv) (WFrame.want (.settings false 4096 false 0 0 16384 0)) = true :=
  ⟨Spec.settingsVal false [(1, 4096), (2, 0), (3, 0), (4, 0), (5, 16384)], by decide, by decide, by decide, by decide⟩

/-- a `Settings` that was never `Reset` and had two setters called (the client's own: `SetMaxWindowSize(1<<20)`,
`SetPush(false)`) announces those two values and none of its untouched zeros -/
theorem encode_unset_zero_left_out :
    settingsEncode { tableSize := 0, maxStreams := 0, windowSize := 1048576, frameSize := 0, headerSize := 0,
                     hasWindowSize := true, hasPush := true } =
      [0, 2, 0, 0, 0, 0, 0, 4, 0, 16, 0, 0] := by decide

/-! non-vacuity -/
example : InRange (.data true [104, 105]) ∧ PadOk 9 ∧ Spec.streamOk (WFrame.data true [104, 105]).typ 1 = true := by
  refine ⟨by unfold InRange; decide, Or.inr ⟨by omega, by omega⟩, by decide⟩
example : InRange (.pushPromise (2 ^ 32 - 1) true [130, 134]) ∧ PadOk 255 ∧
    (serialize 0 255 (.pushPromise (2 ^ 32 - 1) true [130, 134])).2.length < 2 ^ 24 ∧
    Spec.streamOk (WFrame.pushPromise (2 ^ 32 - 1) true [130, 134]).typ 1 = true := by
  refine ⟨⟨by omega, by unfold WF; decide⟩, Or.inr ⟨by omega, by omega⟩, by decide +kernel, by decide⟩
example : write 0 1 9 (.data true [104, 105]) = [0, 0, 12, 0, 9, 0, 0, 0, 1, 9, 104, 105, 0, 0, 0, 0, 0, 0, 0, 0, 0] := by decide
example : Spec.parse 16384 [0, 0, 12, 0, 9, 128, 0, 0, 1, 9, 104, 105, 1, 2, 3, 4, 5, 6, 7, 8, 9, 77] =
    .frame ⟨0, 9, 1, 12, .data true [104, 105]⟩ [77] := by decide
example : InRange (.settings false 0 false 0 0 16384 0) ∧ PadOk 0 := ⟨Or.inr (by omega), Or.inl rfl⟩

end H2.Props.C05
