import H2.Proofs.HpackEnc
/-!
# C04 — HPACK encoder output decodes to the same list; tables stay in sync

Property theorems only; lemmas are in `H2/Proofs/HpackEnc.lean`.

* model: `Hpack.Enc.append` (mirror of `AppendHeader`, with `search`, `appendInt`, `appendString`),
  `Hpack.EncState.setMax` (`SetMaxTableSize`);
* reference decoder: the RFC 7541 specification `Hpack.Spec.step` / `Spec.apply` (not this package's
  decoder; C03.next_eq_step shows separately that the package's decoder computes the same);
* `Synced E D`: encoder state `E` and peer decoder state `D` agree (tables identical, or — while a size
  change is pending — the encoder's is the peer's cut down to the smallest size set since).
-/
namespace H2.Props.C04
open H2 H2.Hpack H2.Hpack.Spec

theorem static_table_size : Gen.staticTable.length + 1 = Gen.maxIndex := by decide

/-- the start of a connection is in sync -/
theorem synced_init : Synced {} {} :=
  ⟨rfl, by decide, by decide, by simp⟩

/-- what `AppendHeader` emits: the pending size updates, then one representation -/
theorem enc_output (E : EncState) (f : Field) (store : Bool) :
    (Enc.append E f store).2 = serAll (encPre E) ++ ser (encRepr E f store) := append_out E f store

/-- **enc_roundtrip**: for a decoder in step with the encoder, the octets of one `AppendHeader` call —
followed by anything — are read by the RFC 7541 decoder as exactly the field that went in (name, value,
never-indexed mark) with nothing left over, and encoder and decoder are in step again. -/
theorem enc_roundtrip (E : EncState) (D : DecState) (f : Field) (store : Bool) (fp : Nat) (rest : Bytes)
    (hs : Synced E D) (hf : FieldOK f) (hp : E.pending = true → fp = 0) :
    ∃ D', Spec.step D true fp ((Enc.append E f store).2 ++ rest) = .ok D' (some f) rest ∧
      Synced (Enc.append E f store).1 D' ∧ (Enc.append E f store).1.pending = false :=
  enc_step E D f store fp rest hs hf hp

/-- non-vacuity: first request header of a connection -/
example : ∃ D', Spec.step {} true 0 ((Enc.append {} ⟨[58, 112, 97, 116, 104], [47, 120], false⟩ true).2 ++ []) =
    .ok D' (some ⟨[58, 112, 97, 116, 104], [47, 120], false⟩) [] ∧ Synced (Enc.append {} ⟨[58, 112, 97, 116, 104], [47, 120], false⟩ true).1 D' ∧
    (Enc.append {} ⟨[58, 112, 97, 116, 104], [47, 120], false⟩ true).1.pending = false :=
  enc_roundtrip {} {} ⟨[58, 112, 97, 116, 104], [47, 120], false⟩ true 0 [] synced_init
    ⟨by decide, by decide, fun h => by cases h <;> exact ⟨by decide +kernel, by decide +kernel⟩⟩ (fun _ => rfl)

/-- a whole header block -/
theorem enc_block_roundtrip (fs : List (Field × Bool)) (E : EncState) (D : DecState) (hs : Synced E D)
    (hf : ∀ p ∈ fs, FieldOK p.1) :
    ∃ D', specFields fs.length D 0 (encBlock E fs).2 = some (D', fs.map (·.1)) ∧ Synced (encBlock E fs).1 D' := by
  obtain ⟨D', h1, h2, _⟩ := enc_block fs E D 0 hs hf (fun _ => rfl)
  exact ⟨D', h1, h2⟩

/-- **enc_history**: over any sequence of header lists (any store flags, sensitive marks, compression and
dynamic-table options) and `SetMaxTableSize` calls placed between blocks, every block is decoded by the
RFC 7541 decoder to the list that went in — including the §4.2 obligation to open with a size update
when the limit went below the size in use — and the two tables are identical after every block. -/
theorem enc_history (es : List EncEvent) (E : EncState) (D : DecState) (hs : Synced E D) (hok : ∀ e ∈ es, e.ok) :
    ∃ E' D', runHistory E D es = some (E', D') ∧ Synced E' D' := enc_history_aux es E D hs hok

example : ∃ E' D', runHistory {} {} [.setMax 0, .setMax 100, .block [(⟨[97], [98], false⟩, true)]] = some (E', D') ∧ Synced E' D' :=
  enc_history _ {} {} synced_init (by
    intro e he
    simp only [List.mem_cons, List.mem_nil_iff, or_false] at he
    rcases he with rfl | rfl | rfl
    · show (0 : Nat) < 2 ^ 32; decide
    · show (100 : Nat) < 2 ^ 32; decide
    · refine ⟨by simp, ?_⟩
      intro p hp
      simp only [List.mem_cons, List.mem_nil_iff, or_false] at hp
      subst hp
      exact ⟨by decide, by decide, fun h => by cases h <;> exact ⟨by decide +kernel, by decide +kernel⟩⟩)

/-- in step means: identical tables once nothing is pending -/
theorem synced_tables (E : EncState) (D : DecState) (hs : Synced E D) (hp : E.pending = false) :
    E.dyn = D.dyn ∧ E.maxSize = D.maxSize := by
  have := hs.tbl; simpa [hp] using this

/-- **enc_within_limit** (1): the encoder's table never exceeds the limit the peer last advertised —
`Synced` carries it, and `enc_roundtrip`, `enc_history` and `setmax_synced` preserve `Synced` -/
theorem enc_within_limit (E : EncState) (D : DecState) (hs : Synced E D) : tableSize E.dyn ≤ D.limit := by
  have := hs.fits; have := hs.lim; omega

theorem setmax_synced (E : EncState) (D : DecState) (n : Nat) (hn : n < 2 ^ 32) (hs : Synced E D) :
    Synced (E.setMax n) (Spec.setLimit D n) := synced_setMax E D n hn hs

/-- **enc_within_limit** (2): a size change is pending after `SetMaxTableSize` with a new value, and the
next `AppendHeader` opens with the size updates — the smallest size set since the last block when it is
below the final one (§4.2), then the final one — and clears the mark -/
theorem enc_announces (E : EncState) (n : Nat) (f : Field) (store : Bool) (hne : E.maxSize ≠ n) :
    (E.setMax n).pending = true ∧ (E.setMax n).maxSize = n ∧
    (∃ pre, encPre (E.setMax n) = pre ++ [.sizeUpdate n] ∧ (pre = [] ∨ ∃ k, k < n ∧ pre = [.sizeUpdate k])) ∧
    (Enc.append (E.setMax n) f store).2 = serAll (encPre (E.setMax n)) ++ ser (encRepr (E.setMax n) f store) := by
  refine ⟨by simp [EncState.setMax, hne], by simp [EncState.setMax, hne], ?_, append_out _ _ _⟩
  unfold encPre
  simp only [EncState.setMax, hne, if_false, if_true]
  by_cases hc : (!E.pending || decide (n < E.minPending)) = true
  · simp only [hc, if_true, Nat.lt_irrefl, if_false]
    exact ⟨[], rfl, Or.inl rfl⟩
  · simp only [hc, Bool.false_eq_true, if_false]
    by_cases hm : E.minPending < n
    · simp only [hm, if_true]
      exact ⟨_, rfl, Or.inr ⟨_, hm, rfl⟩⟩
    · simp only [hm, if_false]
      exact ⟨[], rfl, Or.inl rfl⟩

/-- **enc_sensitive**: a field marked sensitive goes out as a never-indexed literal with raw strings, and
the encoder's table is left as it was -/
theorem enc_sensitive (E : EncState) (f : Field) (store : Bool) (hs : f.sens = true) :
    (∃ nr, encRepr E f store = .literal .never nr f.value false) ∧ (Enc.append E f store).1.dyn = E.dyn := by
  constructor
  · unfold encRepr
    simp only [hs, if_true]
    split
    · exact ⟨_, rfl⟩
    · exact ⟨_, rfl⟩
  · unfold Enc.append
    simp [hs]
example : (Enc.append {} ⟨[97, 117, 116, 104, 111, 114, 105, 122, 97, 116, 105, 111, 110], [120], true⟩ true).2 = [0x1f, 0x08, 0x01, 120] := by
  decide +kernel

end H2.Props.C04
