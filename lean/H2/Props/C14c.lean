import H2.Client.Recv
/-!
# C14 (client half) — the client hands receive-window credit back

Serial model of the read loop's DATA path. `readLoop` counts **every** DATA frame against the connection
window before it looks for the request waiting on the stream (`consumeConnWindow`): the window is topped
back up to its maximum as soon as less than half is left, so the server's outstanding (sent, not credited)
octets never exceed half the window, whether the stream is still waited on, was reset, timed out or has
finished. `readStream` credits the stream with the whole frame, padding included, whenever the frame is
not empty.

History: until the repair of F39 the connection window was only touched behind the stream lookup and the
stream credit was tied to the frame carrying data; `C14c_full` was refuted then (`C14c_full_fails`,
`F39_witness_*`). Those inputs are now the regression examples at the end of the file.
-/
namespace H2.Props.C14c

open H2.Client

def dataFrame (sid len : Nat) (es : Bool) (d : Bytes) : Frame.Frame :=
  ⟨Gen.c_FrameData, (if es then 1 else 0), sid, len, .data es d⟩

/-- outstanding connection credit as the server sees it -/
def outstanding (c : Conn) : Int := maxWindow - c.currentWindow

/-- frames queued by a step -/
def newOut (c c' : Conn) : List OutFrame := c'.outQ.drop c.outQ.length

theorem finish_outQ (c : Conn) (tag : String) (sid : Nat) (e : Err) :
    (finish c tag sid e).outQ = c.outQ ∧ (finish c tag sid e).currentWindow = c.currentWindow := by
  simp only [finish, resolve, updReq, deletePending, takeReq]
  split <;> exact ⟨rfl, rfl⟩

theorem settle_ledger (c : Conn) (tag : String) (sid : Nat) (err : Option Err) (endS : Bool) :
    (settle c tag sid err endS).1.outQ = c.outQ ∧ (settle c tag sid err endS).1.currentWindow = c.currentWindow := by
  simp only [settle]
  split
  · split
    · exact finish_outQ _ _ _ _
    · exact ⟨rfl, rfl⟩
  · exact finish_outQ _ _ _ _

theorem readStream_data (c : Conn) (tag : String) (r : Req) (sid len : Nat) (es : Bool) (d : Bytes) :
    (readStream c tag r (dataFrame sid len es d)).1.outQ = c.outQ ++ (if len != 0 then [.windowUpdate sid len] else []) ∧
    (readStream c tag r (dataFrame sid len es d)).1.currentWindow = c.currentWindow ∧
    (readStream c tag r (dataFrame sid len es d)).2 = none := by
  simp only [readStream, dataFrame, queueOut, updReq]
  by_cases hd : (d.length != 0) = true <;> by_cases hl : (len != 0) = true <;> simp [hd, hl]

/-- what `dispatch` does with a DATA frame, as far as the receive ledger goes: the connection window is
left alone, at most the stream's WINDOW_UPDATE is queued -/
theorem dispatch_data (c : Conn) (sid len : Nat) (es : Bool) (d : Bytes) :
    (dispatch c (dataFrame sid len es d)).1.currentWindow = c.currentWindow ∧
    ((dispatch c (dataFrame sid len es d)).1.outQ = c.outQ ∨
     (len ≠ 0 ∧ (dispatch c (dataFrame sid len es d)).1.outQ = c.outQ ++ [.windowUpdate sid len])) := by
  unfold dispatch
  split
  · exact ⟨rfl, .inl rfl⟩
  · split
    · exact ⟨rfl, .inl rfl⟩
    · split
      · exact ⟨rfl, .inl rfl⟩
      · rename_i tag _ _ r _ _
        have hp : (prepare c (dataFrame sid len es d)).1 = c := by
          simp [prepare, noteHeaders, endsBlock, dataFrame, Gen.c_FrameData, Gen.c_FrameHeaders, Gen.c_FrameContinuation]
        rcases hpq : prepare c (dataFrame sid len es d) with ⟨c0, endS⟩
        rw [hpq] at hp
        simp only at hp
        have hp' := hp.symm
        subst hp'
        have h := readStream_data c tag r sid len es d
        rcases hrs : readStream c tag r (dataFrame sid len es d) with ⟨c1, e1⟩
        rw [hrs] at h
        obtain ⟨hq, hw, he⟩ := h
        simp only at hq hw he
        subst he
        obtain ⟨sq, sw⟩ := settle_ledger c1 tag (dataFrame sid len es d).stream none endS
        simp only [hrs]
        rw [sq, sw, hq, hw]
        refine ⟨rfl, ?_⟩
        by_cases hl : (len != 0) = true
        · right; exact ⟨by simpa using hl, by simp [hl]⟩
        · left; simp [hl]

theorem refuse_ledger (c : Conn) (sid : Nat) (tag : String) :
    (refuse c sid tag).outQ = c.outQ ∧ (refuse c sid tag).currentWindow = c.currentWindow := by
  simp only [refuse]
  split
  · exact ⟨rfl, rfl⟩
  · split
    · exact ⟨rfl, rfl⟩
    · exact finish_outQ _ _ _ _

theorem refuseAbove_ledger (l : List (Nat × String)) :
    ∀ c : Conn, (refuseAbove c l).outQ = c.outQ ∧ (refuseAbove c l).currentWindow = c.currentWindow := by
  induction l with
  | nil => intro c; exact ⟨rfl, rfl⟩
  | cons p ps ih =>
    intro c
    obtain ⟨sid, tag⟩ := p
    simp only [refuseAbove]
    split
    · obtain ⟨h1, h2⟩ := ih (refuse c sid tag)
      obtain ⟨h3, h4⟩ := refuse_ledger c sid tag
      exact ⟨h1.trans h3, h2.trans h4⟩
    · exact ih c

/-- failing the requests a GOAWAY leaves out does not touch the receive ledger -/
theorem dispatchLoop_ledger (c : Conn) (f : Frame.Frame) :
    (dispatchLoop c f).1.outQ = (dispatch c f).1.outQ ∧
    (dispatchLoop c f).1.currentWindow = (dispatch c f).1.currentWindow := by
  simp only [dispatchLoop, afterGoAway]
  split
  · exact refuseAbove_ledger _ _
  · exact ⟨rfl, rfl⟩

/-- `consumeConnWindow` moves the ledger by exactly `n` minus what it credits back, and leaves at most half
the window outstanding -/
theorem consume_conservation (c : Conn) (n : Nat) :
    outstanding (consumeConnWindow c n) + connCredit (newOut c (consumeConnWindow c n)) = outstanding c + n ∧
    outstanding (consumeConnWindow c n) ≤ maxWindow / 2 := by
  simp only [consumeConnWindow, outstanding, newOut, queueOut]
  split
  · simp [connCredit, maxWindow, Gen.c_clientMaxWindow] at *; omega
  · simp [connCredit, maxWindow, Gen.c_clientMaxWindow] at *; omega

theorem consume_outQ (c : Conn) (n : Nat) : ∃ l, (consumeConnWindow c n).outQ = c.outQ ++ l := by
  simp only [consumeConnWindow, queueOut]
  split
  · exact ⟨_, rfl⟩
  · exact ⟨[], by simp⟩

/-- the read loop's step on a DATA frame of a stream other than 0 -/
theorem rdFrame_data (c : Conn) (sid len : Nat) (es : Bool) (d : Bytes) (hsid : sid ≠ 0) :
    (rdFrame c (dataFrame sid len es d)).1 = (dispatchLoop (consumeConnWindow c len) (dataFrame sid len es d)).1 := by
  simp [rdFrame, dataFrame, hsid]

/-- the read loop's step on a DATA frame, as far as the receive ledger goes -/
theorem loop_data (c : Conn) (sid len : Nat) (es : Bool) (d : Bytes) :
    (dispatchLoop c (dataFrame sid len es d)).1.currentWindow = c.currentWindow ∧
    ((dispatchLoop c (dataFrame sid len es d)).1.outQ = c.outQ ∨
     (len ≠ 0 ∧ (dispatchLoop c (dataFrame sid len es d)).1.outQ = c.outQ ++ [.windowUpdate sid len])) := by
  obtain ⟨h1, h2⟩ := dispatchLoop_ledger c (dataFrame sid len es d)
  rw [h1, h2]
  exact dispatch_data c sid len es d

/-- full statement: every DATA frame the server sends, on whatever stream (waited on, reset, timed out,
finished, never opened), is counted against the connection window and credited back -/
def C14c_full : Prop :=
  ∀ (c : Conn) (sid len : Nat) (es : Bool) (d : Bytes), sid ≠ 0 →
    let c' := (rdFrame c (dataFrame sid len es d)).1
    outstanding c' + connCredit (newOut c c') = outstanding c + len ∧ outstanding c' ≤ maxWindow / 2

theorem drop_own_length {α} (a l : List α) : (a ++ l).drop a.length = l := by simp

theorem connCredit_append (a b : List OutFrame) : connCredit (a ++ b) = connCredit a + connCredit b := by
  simp [connCredit]

/-- **credit_conservation (connection)**, at full strength -/
theorem credit_conservation : C14c_full := by
  intro c sid len es d hsid
  simp only [rdFrame_data c sid len es d hsid]
  obtain ⟨h1, h2⟩ := consume_conservation c len
  obtain ⟨l, hl⟩ := consume_outQ c len
  obtain ⟨hw, hq⟩ := loop_data (consumeConnWindow c len) sid len es d
  have e1 : newOut c (consumeConnWindow c len) = l := by simp only [newOut, hl, drop_own_length]
  rw [e1] at h1
  have hout : outstanding (dispatchLoop (consumeConnWindow c len) (dataFrame sid len es d)).1 =
      outstanding (consumeConnWindow c len) := by simp only [outstanding, hw]
  rw [hout]
  refine ⟨?_, h2⟩
  rcases hq with hq | ⟨_, hq⟩
  · have e2 : newOut c (dispatchLoop (consumeConnWindow c len) (dataFrame sid len es d)).1 = l := by
      simp only [newOut, hq, hl, drop_own_length]
    rw [e2]; exact h1
  · have e2 : newOut c (dispatchLoop (consumeConnWindow c len) (dataFrame sid len es d)).1 = l ++ [.windowUpdate sid len] := by
      simp only [newOut, hq, hl, List.append_assoc, drop_own_length]
    rw [e2, connCredit_append]
    have : connCredit [OutFrame.windowUpdate sid len] = 0 := by simp [connCredit, hsid]
    omega

/-- **stream credit**: a DATA frame on a stream the client waits on is credited on that stream with its
whole length, padding included, also when it carries no data at all; an empty frame queues nothing -/
theorem stream_credit (c : Conn) (tag : String) (r : Req) (sid len : Nat) (es : Bool) (d : Bytes) :
    (readStream c tag r (dataFrame sid len es d)).1.outQ =
      c.outQ ++ (if len != 0 then [.windowUpdate sid len] else []) :=
  (readStream_data c tag r sid len es d).1

/-- **no_zero_increment**: the connection increment is more than half the window, a stream increment is the
length of a non-empty frame -/
theorem increments_positive (c : Conn) (sid len : Nat) (es : Bool) (d : Bytes) (hsid : sid ≠ 0) :
    ∀ f ∈ newOut c (rdFrame c (dataFrame sid len es d)).1,
      match f with
      | .windowUpdate _ inc => 0 < inc
      | _ => True := by
  intro f hf
  rw [rdFrame_data c sid len es d hsid] at hf
  obtain ⟨_, hq⟩ := loop_data (consumeConnWindow c len) sid len es d
  have hc : ∀ g ∈ newOut c (consumeConnWindow c len), match g with
      | .windowUpdate _ inc => 0 < inc
      | _ => True := by
    intro g hg
    simp only [consumeConnWindow, newOut, queueOut] at hg
    split at hg
    · simp at hg; subst hg
      simp [maxWindow, Gen.c_clientMaxWindow] at *; omega
    · simp at hg
  obtain ⟨l, hl⟩ := consume_outQ c len
  have e1 : newOut c (consumeConnWindow c len) = l := by simp only [newOut, hl, drop_own_length]
  rw [e1] at hc
  rcases hq with hq | ⟨hlen, hq⟩
  · have e2 : newOut c (dispatchLoop (consumeConnWindow c len) (dataFrame sid len es d)).1 = l := by
      simp only [newOut, hq, hl, drop_own_length]
    rw [e2] at hf; exact hc f hf
  · have e2 : newOut c (dispatchLoop (consumeConnWindow c len) (dataFrame sid len es d)).1 = l ++ [.windowUpdate sid len] := by
      simp only [newOut, hq, hl, List.append_assoc, drop_own_length]
    rw [e2] at hf
    simp only [List.mem_append, List.mem_singleton] at hf
    rcases hf with hf | rfl
    · exact hc f hf
    · simp; omega

/-- the window never goes above its maximum (2^20, far below 2^31-1) -/
theorem never_above_max (c : Conn) (sid len : Nat) (es : Bool) (d : Bytes) (hsid : sid ≠ 0)
    (h0 : c.currentWindow ≤ maxWindow) :
    (rdFrame c (dataFrame sid len es d)).1.currentWindow ≤ maxWindow := by
  rw [rdFrame_data c sid len es d hsid, (loop_data _ sid len es d).1]
  simp only [consumeConnWindow, queueOut]
  split
  · simp
  · simp; omega

/-! ## any sequence of DATA frames -/

/-- the read loop over DATA frames `(stream, length, END_STREAM, data)` -/
def recvAll (c : Conn) : List (Nat × Nat × Bool × Bytes) → Conn
  | [] => c
  | (sid, len, es, d) :: fs => recvAll (rdFrame c (dataFrame sid len es d)).1 fs

/-- whatever the server sends and whatever has become of the streams, after every frame at most half the
connection window is outstanding -/
theorem never_starves (fs : List (Nat × Nat × Bool × Bytes)) (hs : ∀ x ∈ fs, x.1 ≠ 0) :
    ∀ c, outstanding c ≤ maxWindow / 2 → outstanding (recvAll c fs) ≤ maxWindow / 2 := by
  induction fs with
  | nil => intro c h; exact h
  | cons x xs ih =>
    intro c _
    obtain ⟨sid, len, es, d⟩ := x
    have h1 : sid ≠ 0 := hs (sid, len, es, d) (by simp)
    exact ih (fun y hy => hs y (by simp [hy])) _ (credit_conservation c sid len es d h1).2

/-! ## the inputs of finding F39, now regression examples -/

/-- DATA on a stream the client does not wait on is counted: the ledger moves although `dispatch` finds nobody -/
theorem F39_regression_counted (c : Conn) (sid len : Nat) (es : Bool) (d : Bytes) (hsid : sid ≠ 0)
    (_h : lookupA c.reqQueued sid = none) :
    let c' := (rdFrame c (dataFrame sid len es d)).1
    outstanding c' + connCredit (newOut c c') = outstanding c + len :=
  (credit_conservation c sid len es d hsid).1

/-- the old counterexample: ten octets on stream 1 of a connection with no request -/
example : outstanding (rdFrame {} (dataFrame 1 10 false [1, 2, 3, 4, 5, 6, 7, 8, 9, 10])).1 = 10 := by decide

/-- a padded DATA frame with no data gets its stream WINDOW_UPDATE -/
theorem F39_regression_padded_empty (c : Conn) (tag : String) (r : Req) (sid len : Nat) (hl : len ≠ 0) :
    (readStream c tag r (dataFrame sid len false [])).1.outQ = c.outQ ++ [.windowUpdate sid len] := by
  rw [stream_credit]; simp [hl]

/-- non-vacuity: a frame on a stream nobody waits on triggers the top-up -/
example : ∃ c : Conn, outstanding c ≤ maxWindow / 2 ∧ lookupA c.reqQueued 1 = none ∧
    connCredit (newOut c (rdFrame c (dataFrame 1 16384 false [1])).1) > 0 :=
  ⟨{ currentWindow := 530000 }, by decide, by decide, by decide⟩

end H2.Props.C14c
