import H2.Client.Recv
/-!
# C14 (client half) — the client hands receive-window credit back

Serial model of the read loop's DATA branch (`readStream`). The connection window is topped back up to
its maximum as soon as less than half is left, so the server's outstanding (sent, not credited) octets
never exceed half the window plus one frame **on streams the client still waits on**. DATA on a stream it
no longer waits on is not counted at all, and a padded empty DATA frame gets no stream credit: finding
F39, known; `C14c_full` is the statement without that exclusion and `F39_witness_*` refute it.
-/
namespace H2.Props.C14c

open H2.Client

def dataFrame (sid len : Nat) (es : Bool) (d : Bytes) : Frame.Frame :=
  ⟨Gen.c_FrameData, (if es then 1 else 0), sid, len, .data es d⟩

/-- outstanding connection credit as the server sees it -/
def outstanding (c : Conn) : Int := maxWindow - c.currentWindow

/-- **credit_conservation (connection)**: processing a DATA frame of `len` octets (padding included) on a
stream the client waits on moves the receive ledger by exactly `len` minus what is credited back, and what
is left outstanding is at most half the window -/
theorem conn_credit_conservation (c : Conn) (tag : String) (r : Req) (sid len : Nat) (es : Bool) (d : Bytes)
    (hsid : sid ≠ 0) (h0 : c.currentWindow ≤ maxWindow) (hlen : (len : Int) ≤ c.currentWindow) :
    let c' := (readStream c tag r (dataFrame sid len es d)).1
    outstanding c' + connCredit (c'.outQ.drop c.outQ.length) = outstanding c + len ∧
    outstanding c' ≤ maxWindow / 2 := by
  simp only [readStream, dataFrame, outstanding, queueOut]
  by_cases hd : (d.length != 0) = true
  · simp only [hd, if_true]
    split
    · simp [connCredit, updReq, maxWindow, Gen.c_clientMaxWindow, hsid] at *; omega
    · simp [connCredit, updReq, maxWindow, Gen.c_clientMaxWindow, hsid] at *; omega
  · simp only [hd, Bool.false_eq_true, if_false]
    split
    · simp [connCredit, maxWindow, Gen.c_clientMaxWindow] at *; omega
    · simp [connCredit, maxWindow, Gen.c_clientMaxWindow] at *; omega

/-- **no_zero_increment**: the connection increment is more than half the window, the stream increment is
the length of a frame that carried data -/
theorem increments_positive (c : Conn) (tag : String) (r : Req) (sid len : Nat) (es : Bool) (d : Bytes)
    (hdl : d.length ≤ len) (h0 : c.currentWindow ≤ maxWindow) :
    ∀ f ∈ (readStream c tag r (dataFrame sid len es d)).1.outQ.drop c.outQ.length,
      match f with
      | .windowUpdate _ inc => 0 < inc
      | _ => True := by
  intro f hf
  simp only [readStream, dataFrame, queueOut] at hf
  by_cases hd : (d.length != 0) = true
  · have hdp : 0 < d.length := by simpa [Nat.pos_iff_ne_zero] using hd
    simp only [hd, if_true] at hf
    split at hf
    · simp [updReq] at hf
      rcases hf with rfl | rfl
      · simp; omega
      · simp [maxWindow, Gen.c_clientMaxWindow] at *; omega
    · simp [updReq] at hf
      subst hf; simp; omega
  · simp only [hd, Bool.false_eq_true, if_false] at hf
    split at hf
    · simp at hf; subst hf
      simp [maxWindow, Gen.c_clientMaxWindow] at *; omega
    · simp at hf

/-- the window never goes above its maximum (2^20, far below 2^31-1) -/
theorem never_above_max (c : Conn) (tag : String) (r : Req) (sid len : Nat) (es : Bool) (d : Bytes)
    (h0 : c.currentWindow ≤ maxWindow) :
    (readStream c tag r (dataFrame sid len es d)).1.currentWindow ≤ maxWindow := by
  simp only [readStream, dataFrame, queueOut]
  by_cases hd : (d.length != 0) = true
  · simp only [hd, if_true]
    split
    · simp [updReq]
    · simp [updReq]; omega
  · simp only [hd, Bool.false_eq_true, if_false]
    split
    · simp
    · simp; omega

/-! ## what is missing (F39, known) -/

/-- full statement: every DATA frame the server sends, on whatever stream, is counted against the
connection window -/
def C14c_full : Prop :=
  ∀ (c : Conn) (sid len : Nat) (es : Bool) (d : Bytes), sid ≠ 0 → len > 0 →
    let c' := (dispatch c (dataFrame sid len es d)).1
    outstanding c' + connCredit (c'.outQ.drop c.outQ.length) = outstanding c + len

/-- DATA on a stream the client does not wait on (timed out, reset, finished) leaves the state as it was:
neither counted nor credited -/
theorem F39_witness_uncounted (c : Conn) (f : Frame.Frame) (h : lookupA c.reqQueued f.stream = none) :
    (dispatch c f).1 = c := by
  simp [dispatch, h]

theorem C14c_full_fails : ¬ C14c_full := by
  intro h
  have := h {} 1 10 false [1, 2, 3, 4, 5, 6, 7, 8, 9, 10] (by decide) (by decide)
  simp [dispatch, dataFrame, lookupA, outstanding, connCredit] at this
  omega

/-- a padded DATA frame with no data consumes stream window and gets no stream WINDOW_UPDATE -/
theorem F39_witness_padded_empty (c : Conn) (tag : String) (r : Req) (sid len : Nat) (hw : ¬ c.currentWindow - len < maxWindow / 2) :
    (readStream c tag r (dataFrame sid len false [])).1.outQ = c.outQ := by
  simp [readStream, dataFrame, hw]

/-- non-vacuity of `conn_credit_conservation`: a frame that triggers the top-up -/
example : ∃ c : Conn, c.currentWindow ≤ maxWindow ∧ ((16384 : Nat) : Int) ≤ c.currentWindow ∧
    connCredit ((readStream c "t" { tag := "t" } (dataFrame 1 16384 false [1])).1.outQ.drop c.outQ.length) > 0 :=
  ⟨{ currentWindow := 530000 }, by decide, by decide, by decide⟩

end H2.Props.C14c
