import H2.Proofs.ClientSerial
import H2.Proofs.ClientRunIds
/-!
# C02 — each request is sent intact and gets exactly its own response

Statements about the serial client model (`H2.Client.Model`), the one the stepping harness compares
with the real `Conn` step by step. Response assembly happens on the read loop alone, so "however the
server orders or interleaves its frames" is "for every frame and every state": the theorems quantify
over all states and frames, not over a generated set.

A header block that goes on in CONTINUATION frames is kept until END_HEADERS and decoded whole (repair of F36):
`split_invariance` is the property's "fragmented at any byte", and `C02_full`, refuted before the repair
(`C02_full_fails`, `F36_witness`), is now a theorem. The old witness is the regression example at the end.
-/
namespace H2.Props.C02

open H2.Client

/-! ## stream ids -/

/-- `writeRequest` either turns the request away without touching the id counter, or writes HEADERS on
exactly `nextID` and advances it by two -/
theorem ids_fresh_odd_increasing (c : Conn) (r : ReqSpec) :
    (canOpenStream c = false → (writeRequest c r).2 = [] ∧ (writeRequest c r).1.nextID = c.nextID) ∧
    (canOpenStream c = true →
      (∃ es fs rest, (writeRequest c r).2 = OutFrame.headers c.nextID es fs :: rest) ∧
      (writeRequest c r).1.nextID = c.nextID + 2) := by
  constructor
  · intro h; simp [writeRequest, h, resolve, updReq]
  · intro h
    simp only [writeRequest, h, Bool.not_true, Bool.false_eq_true, if_false]
    cases r.body with
    | none => exact ⟨⟨_, _, _, rfl⟩, by simp [updReq]⟩
    | buf n =>
      refine ⟨⟨_, _, _, rfl⟩, ?_⟩
      simp only; rw [sendPending_nextID]; simp [updReq]
    | stream d ch t =>
      refine ⟨⟨_, _, _, rfl⟩, ?_⟩
      simp only; rw [sendPending_nextID]; simp [updReq]

/-- so ids stay odd: 1, 3, 5, … -/
theorem next_id_stays_odd (c : Conn) (r : ReqSpec) (h : c.nextID % 2 = 1) : (writeRequest c r).1.nextID % 2 = 1 := by
  have := ids_fresh_odd_increasing c r
  cases hc : canOpenStream c
  · rw [(this.1 hc).2]; exact h
  · rw [(this.2 hc).2]; omega

/-- a stream is opened only while its id is within the 31-bit space -/
theorem id_within_space (c : Conn) (h : canOpenStream c = true) : c.nextID ≤ Gen.c_maxStreamID := by
  simp [canOpenStream] at h; exact h.1.2

/-! ## the request on the wire -/

/-- the header list starts with the four pseudo-header fields and the user agent, as given -/
theorem request_head (r : ReqSpec) :
    (requestFields r).take 5 = [(Gen.s_StringAuthority, r.host), (Gen.s_StringMethod, r.method),
      (Gen.s_StringPath, r.path), (Gen.s_StringScheme, r.scheme), (Gen.s_StringUserAgent, r.ua)] := by
  simp [requestFields]

/-- no connection-specific field goes out, and every other field of the request does, lower-cased -/
theorem request_regular_fields (r : ReqSpec) (k v : Bytes) :
    (k, v) ∈ (requestFields r).drop 5 ↔
      ((∃ d ch t, r.body = .stream d ch t ∧ d ≥ 0 ∧ k = Gen.s_StringContentLength ∧ v = strBytes (toString d)) ∨
       (∃ k0, (k0, v) ∈ r.hdrs ∧ k = toLowerGo k0 ∧ k ≠ Gen.s_StringUserAgent ∧ isConnectionSpecific k = false)) := by
  simp only [requestFields, List.drop_append_of_le_length, List.length_cons, List.length_nil, Nat.le_refl,
    List.drop_succ_cons, List.drop_zero, List.nil_append, List.cons_append, List.drop_length]
  simp only [List.drop, List.mem_append, List.mem_filterMap]
  constructor
  · rintro (h | ⟨⟨k0, v0⟩, hm, hk⟩)
    · left
      cases hb : r.body <;> simp [hb] at h
      rename_i d ch t
      exact ⟨d, ch, t, rfl, h.1, h.2.1, h.2.2⟩
    · right
      simp only at hk
      split at hk
      · cases hk
      · rename_i hc
        simp only [Option.some.injEq, Prod.mk.injEq] at hk
        obtain ⟨rfl, rfl⟩ := hk
        simp only [Bool.or_eq_true, beq_iff_eq, not_or, Bool.not_eq_true] at hc
        exact ⟨k0, hm, rfl, hc.1, hc.2⟩
  · rintro (⟨d, ch, t, hb, hd, rfl, rfl⟩ | ⟨k0, hm, rfl, h1, h2⟩)
    · left; simp [hb, hd]
    · right
      refine ⟨(k0, v), hm, ?_⟩
      simp [h1, h2]

/-! ## responses: a frame touches only the request bound to its stream -/

theorem othersSame_settle (c : Conn) (tag : String) (sid : Nat) (err : Option Err) (endS : Bool) :
    OthersSame tag c (settle c tag sid err endS).1 := by
  simp only [settle]
  split
  · split
    · exact othersSame_finish _ _ _ _
    · exact OthersSame.refl _ _
  · exact othersSame_finish _ _ _ _

/-- **no_cross_delivery**: processing any server frame on stream `f.stream` leaves every request other
than the one registered for that stream exactly as it was — status, fields, body, result -/
theorem no_cross_delivery (c : Conn) (f : Frame.Frame) (tag : String)
    (hq : lookupA c.reqQueued f.stream = some tag) : OthersSame tag c (dispatch c f).1 := by
  obtain ⟨skd, skb, ske, hsk⟩ := skipHeaders_shape c f
  simp only [dispatch, hq, hsk]
  split
  · exact OthersSame.of_reqs rfl
  · rename_i r hr
    split
    · exact OthersSame.of_reqs rfl
    · rcases hp : prepare c f with ⟨c', endS⟩
      have h0 : OthersSame tag c c' := by
        have : c'.reqs = c.reqs := by
          have := congrArg (fun x => x.1.reqs) hp
          simp only [prepare, noteHeaders] at this
          rw [← this]; repeat (first | rfl | split)
        exact OthersSame.of_reqs this
      have h1 := h0.trans (othersSame_readStream c' tag r f (getReq_tag hr))
      rcases hrs : readStream c' tag r f with ⟨c1, e⟩
      rw [hrs] at h1
      exact h1.trans (othersSame_settle _ _ _ _ _)

/-- responses that cannot be told apart by stream id do not exist: a stream id is bound to at most one
request (`insertA` replaces, `writeRequest` uses a fresh id) -/
theorem lookup_insert (l : List (Nat × String)) (k : Nat) (v : String) : lookupA (insertA l k v) k = some v := by
  induction l with
  | nil => simp [insertA, lookupA]
  | cons p t ih =>
    obtain ⟨k', v'⟩ := p
    simp only [insertA]
    split
    · simp [lookupA]
    · split
      · simp [lookupA]
      · rename_i h1 h2
        have : (k' == k) = false := by
          simp only [beq_eq_false_iff_ne, ne_eq]; intro h; subst h; simp at h2
        simp only [lookupA, List.find?_cons, this] at ih ⊢
        exact ih

/-! ## header blocks continued in CONTINUATION -/

def hdrFrame (sid : Nat) (es eh : Bool) (frag : Bytes) : Frame.Frame :=
  ⟨Gen.c_FrameHeaders, (if es then 1 else 0) + (if eh then 4 else 0), sid, frag.length, .headers es eh none frag⟩

def contFrame (sid : Nat) (eh : Bool) (frag : Bytes) : Frame.Frame :=
  ⟨Gen.c_FrameContinuation, (if eh then 4 else 0), sid, frag.length, .continuation eh frag⟩

theorem hdr_es (sid : Nat) (es eh : Bool) (frag : Bytes) :
    Frame.hasFlag (hdrFrame sid es eh frag).flags Gen.c_FlagEndStream = es := by
  cases es <;> cases eh <;> simp [hdrFrame, Frame.hasFlag, Gen.c_FlagEndStream]

theorem hdr_eh (sid : Nat) (es eh : Bool) (frag : Bytes) :
    Frame.hasFlag (hdrFrame sid es eh frag).flags Gen.c_FlagEndHeaders = eh := by
  cases es <;> cases eh <;> simp [hdrFrame, Frame.hasFlag, Gen.c_FlagEndHeaders]

theorem cont_eh (sid : Nat) (eh : Bool) (frag : Bytes) :
    Frame.hasFlag (contFrame sid eh frag).flags Gen.c_FlagEndHeaders = eh := by
  cases eh <;> simp [contFrame, Frame.hasFlag, Gen.c_FlagEndHeaders]

/-- the request on stream `sid` is still waited on -/
structure Live (c : Conn) (sid : Nat) (tag : String) : Prop where
  queued : lookupA c.reqQueued sid = some tag
  held : ∃ r, getReq c tag = some r ∧ r.done = false

theorem settle_none_false (c : Conn) (tag : String) (sid : Nat) : (settle c tag sid none false).1 = c := by
  simp only [settle]
  split
  · rfl
  · rename_i e h
    split at h <;> simp_all

/-- what `readStream` does with the decoded block `blk` -/
def decodeBlock (c : Conn) (tag : String) (r : Req) (blk : Bytes) : Conn × Option Err :=
  let (st, r', e) := readHeader (blk.length + 1) c.dec r false false 0 blk
  (updReq { c with dec := st, hdrBlock := [] } tag fun _ => r', e)

theorem readStream_hdr (c : Conn) (tag : String) (r : Req) (sid : Nat) (es eh : Bool) (frag : Bytes) :
    readStream c tag r (hdrFrame sid es eh frag) =
      if eh then decodeBlock c tag r frag else ({ c with hdrBlock := frag }, none) := by
  cases es <;> cases eh <;>
    simp [readStream, hdrFrame, decodeBlock, Frame.hasFlag, Gen.c_FlagEndHeaders, Gen.c_FrameHeaders]

theorem readStream_cont (c : Conn) (tag : String) (r : Req) (sid : Nat) (eh : Bool) (frag : Bytes) :
    readStream c tag r (contFrame sid eh frag) =
      if eh then decodeBlock c tag r (c.hdrBlock ++ frag) else ({ c with hdrBlock := c.hdrBlock ++ frag }, none) := by
  cases eh <;>
    simp [readStream, contFrame, decodeBlock, Frame.hasFlag, Gen.c_FlagEndHeaders, Gen.c_FrameHeaders, Gen.c_FrameContinuation]

theorem prepare_hdr (c : Conn) (sid : Nat) (es eh : Bool) (frag : Bytes) (h0 : sid ≠ 0) :
    prepare c (hdrFrame sid es eh frag) =
      ({ c with hdrEndStream := if eh then 0 else if es then sid else 0 }, eh && es) := by
  have ht : ((hdrFrame sid es eh frag).typ == Gen.c_FrameHeaders) = true := rfl
  have hs : (hdrFrame sid es eh frag).stream = sid := rfl
  have hd : ((hdrFrame sid es eh frag).typ == Gen.c_FrameData) = false := rfl
  have h0' : (0 == sid) = false := by simpa using fun h : 0 = sid => h0 h.symm
  simp only [prepare, noteHeaders, endsBlock, endsStream, ht, hs, hd, hdr_es, hdr_eh, Bool.true_or, Bool.true_and, if_true,
    Bool.and_false]
  cases eh <;> cases es <;> simp [h0']

theorem prepare_cont (c : Conn) (sid : Nat) (eh : Bool) (frag : Bytes) :
    prepare c (contFrame sid eh frag) =
      ({ c with hdrEndStream := if eh then 0 else c.hdrEndStream }, eh && c.hdrEndStream == sid) := by
  have ht : ((contFrame sid eh frag).typ == Gen.c_FrameHeaders) = false := rfl
  have ht2 : ((contFrame sid eh frag).typ == Gen.c_FrameContinuation) = true := rfl
  have hs : (contFrame sid eh frag).stream = sid := rfl
  have hd : ((contFrame sid eh frag).typ == Gen.c_FrameData) = false := rfl
  simp only [prepare, noteHeaders, endsBlock, endsStream, ht, ht2, hs, hd, cont_eh, Bool.or_true, Bool.true_and, Bool.false_eq_true,
    if_false, Bool.and_false]
  cases eh <;> simp

/-- `dispatch` of a HEADERS frame on a stream that is waited on -/
theorem dispatch_hdr (c : Conn) (sid : Nat) (tag : String) (r : Req) (es eh : Bool) (frag : Bytes) (h0 : sid ≠ 0)
    (hq : lookupA c.reqQueued sid = some tag) (hr : getReq c tag = some r) (hd : r.done = false) :
    dispatch c (hdrFrame sid es eh frag) =
      settle (readStream { c with hdrEndStream := if eh then 0 else if es then sid else 0 } tag r (hdrFrame sid es eh frag)).1 tag sid
        (readStream { c with hdrEndStream := if eh then 0 else if es then sid else 0 } tag r (hdrFrame sid es eh frag)).2 (eh && es) := by
  have hs : (hdrFrame sid es eh frag).stream = sid := rfl
  simp only [dispatch, hs, hq, hr, hd, Bool.false_eq_true, if_false, prepare_hdr c sid es eh frag h0]

/-- `dispatch` of a CONTINUATION frame on a stream that is waited on -/
theorem dispatch_cont (c : Conn) (sid : Nat) (tag : String) (r : Req) (eh : Bool) (frag : Bytes)
    (hq : lookupA c.reqQueued sid = some tag) (hr : getReq c tag = some r) (hd : r.done = false) :
    dispatch c (contFrame sid eh frag) =
      settle (readStream { c with hdrEndStream := if eh then 0 else c.hdrEndStream } tag r (contFrame sid eh frag)).1 tag sid
        (readStream { c with hdrEndStream := if eh then 0 else c.hdrEndStream } tag r (contFrame sid eh frag)).2
        (eh && c.hdrEndStream == sid) := by
  have hs : (contFrame sid eh frag).stream = sid := rfl
  simp only [dispatch, hs, hq, hr, hd, Bool.false_eq_true, if_false, prepare_cont]

/-- a HEADERS frame without END_HEADERS opens a block: nothing is decoded, the fragment is kept and so is the stream
END_STREAM is for -/
theorem dispatch_open_block (c : Conn) (sid : Nat) (tag : String) (es : Bool) (frag : Bytes) (h0 : sid ≠ 0)
    (h : Live c sid tag) :
    (dispatch c (hdrFrame sid es false frag)).1 = { c with hdrEndStream := if es then sid else 0, hdrBlock := frag } := by
  obtain ⟨hq, r, hr, hd⟩ := h
  rw [dispatch_hdr c sid tag r es false frag h0 hq hr hd, readStream_hdr]
  simp only [Bool.false_eq_true, if_false, Bool.false_and, settle_none_false]

/-- a CONTINUATION frame without END_HEADERS adds its fragment -/
theorem dispatch_more_block (c : Conn) (sid : Nat) (tag : String) (frag : Bytes) (h : Live c sid tag) :
    (dispatch c (contFrame sid false frag)).1 = { c with hdrBlock := c.hdrBlock ++ frag } := by
  obtain ⟨hq, r, hr, hd⟩ := h
  rw [dispatch_cont c sid tag r false frag hq hr hd, readStream_cont]
  simp only [Bool.false_eq_true, if_false, Bool.false_and, settle_none_false]

theorem live_of_eq {c c' : Conn} {sid : Nat} {tag : String} (h : Live c sid tag)
    (h1 : c'.reqQueued = c.reqQueued) (h2 : c'.reqs = c.reqs) : Live c' sid tag := by
  obtain ⟨hq, r, hr, hd⟩ := h
  exact ⟨by rw [h1]; exact hq, r, by simpa [getReq, h2] using hr, hd⟩

/-- the CONTINUATION frame that closes a block does exactly what a single HEADERS frame with the whole block does -/
theorem dispatch_close_block (c : Conn) (sid : Nat) (tag : String) (es : Bool) (b frag : Bytes) (h0 : sid ≠ 0)
    (h : Live c sid tag) :
    dispatch { c with hdrEndStream := if es then sid else 0, hdrBlock := b } (contFrame sid true frag) =
      dispatch c (hdrFrame sid es true (b ++ frag)) := by
  have h' : Live { c with hdrEndStream := if es then sid else 0, hdrBlock := b } sid tag := live_of_eq h rfl rfl
  obtain ⟨hq, r, hr, hd⟩ := h
  obtain ⟨hq', r', hr', hd'⟩ := h'
  have : r' = r := by
    have : getReq { c with hdrEndStream := if es then sid else 0, hdrBlock := b } tag = getReq c tag := rfl
    rw [this, hr] at hr'; exact (Option.some.inj hr').symm
  subst this
  rw [dispatch_cont _ sid tag r' true frag hq' hr' hd', dispatch_hdr c sid tag r' es true (b ++ frag) h0 hq hr hd,
    readStream_cont, readStream_hdr]
  have he : ((if es = true then sid else 0) == sid) = es := by
    cases es
    · simpa using fun h : 0 = sid => h0 h.symm
    · simp
  simp only [if_true, Bool.true_and, decodeBlock, he]

/-- the read loop's state after a HEADERS frame and any number of CONTINUATION frames, none with END_HEADERS -/
def afterFragments (c : Conn) (sid : Nat) : List Bytes → Conn
  | [] => c
  | frag :: rest => afterFragments (dispatch c (contFrame sid false frag)).1 sid rest

theorem afterFragments_eq (sid : Nat) (tag : String) (frags : List Bytes) :
    ∀ c, Live c sid tag → afterFragments c sid frags = { c with hdrBlock := c.hdrBlock ++ frags.flatten } := by
  induction frags with
  | nil => intro c _; simp [afterFragments]
  | cons f fs ih =>
    intro c h
    simp only [afterFragments]
    rw [dispatch_more_block c sid tag f h, ih { c with hdrBlock := c.hdrBlock ++ f } (live_of_eq h rfl rfl)]
    simp

/-- **split_invariance**: a response header block cut into a HEADERS frame and any number of CONTINUATION frames, at
any octets (in the middle of a field included), leaves the connection (the request, the HPACK decoding context,
everything) in exactly the state in which the block in one HEADERS frame leaves it, and gives the read loop the same
verdict -/
theorem split_invariance (c : Conn) (sid : Nat) (tag : String) (es : Bool) (first : Bytes) (middle : List Bytes)
    (last : Bytes) (h0 : sid ≠ 0) (h : Live c sid tag) :
    dispatch (afterFragments (dispatch c (hdrFrame sid es false first)).1 sid middle) (contFrame sid true last) =
      dispatch c (hdrFrame sid es true (first ++ middle.flatten ++ last)) := by
  rw [dispatch_open_block c sid tag es first h0 h,
    afterFragments_eq sid tag middle { c with hdrEndStream := if es then sid else 0, hdrBlock := first } (live_of_eq h rfl rfl)]
  exact dispatch_close_block c sid tag es (first ++ middle.flatten) last h0 h

/-- END_STREAM on a HEADERS frame ends the stream it was sent on and no other: a CONTINUATION frame with END_HEADERS on a
stream for which no block ending the stream is open never ends that stream (it did between the first version of the
repair of F36 and this one: the flag of an earlier block on another stream was still around) -/
theorem stray_continuation_does_not_end (c : Conn) (sid : Nat) (frag : Bytes) (h : c.hdrEndStream ≠ sid) :
    (prepare c (contFrame sid true frag)).2 = false := by
  rw [prepare_cont]
  simpa using h

/-- and once a block is complete nothing of its END_STREAM is left -/
theorem end_stream_spent (c : Conn) (f : Frame.Frame) (h : endsBlock f = true) : (prepare c f).1.hdrEndStream = 0 := by
  simp [prepare, h]


/-! ## the statement that failed before the repair of F36 -/

theorem lookupA_eraseA {α} (l : List (Nat × α)) (k : Nat) : lookupA (eraseA l k) k = none := by
  simp [lookupA, eraseA]

/-- full strength: wherever a header block is cut into HEADERS + CONTINUATION, the request ends up as if
the block had arrived in one frame (with `no_cross_delivery`: the property's "fragmented at any byte") -/
def C02_full : Prop :=
  ∀ (c : Conn) (sid : Nat) (tag : String) (block : Bytes) (k : Nat) (es : Bool),
    sid ≠ 0 → lookupA c.reqQueued sid = some tag → k ≤ block.length →
    getReq (dispatch (dispatch c (hdrFrame sid es false (block.take k))).1 (contFrame sid true (block.drop k))).1 tag =
    getReq (dispatch c (hdrFrame sid es true block)).1 tag

/-- a frame for a stream nobody waits on, or whose request was taken back, changes no request -/
theorem dispatch_gone_reqs (c : Conn) (f : Frame.Frame)
    (h : lookupA c.reqQueued f.stream = none ∨
      ∃ tag, lookupA c.reqQueued f.stream = some tag ∧
        (getReq c tag = none ∨ ∃ r, getReq c tag = some r ∧ r.done = true)) :
    (dispatch c f).1.reqs = c.reqs ∧
    ((dispatch c f).1.reqQueued = c.reqQueued ∨ (dispatch c f).1.reqQueued = eraseA c.reqQueued f.stream) := by
  obtain ⟨skd, skb, ske, hsk⟩ := skipHeaders_shape c f
  rcases h with hq | ⟨tag, hq, hn | ⟨r, hr, hd⟩⟩
  · simp [dispatch, hq, hsk]
  · simp [dispatch, hq, hn, hsk]
  · simp [dispatch, hq, hr, hd, hsk]

theorem C02_full_holds : C02_full := by
  intro c sid tag block k es h0 hq _
  have hs1 : ∀ eh frag, (hdrFrame sid es eh frag).stream = sid := fun _ _ => rfl
  have hs2 : ∀ eh frag, (contFrame sid eh frag).stream = sid := fun _ _ => rfl
  have gone : (getReq c tag = none ∨ ∃ r, getReq c tag = some r ∧ r.done = true) →
      getReq (dispatch (dispatch c (hdrFrame sid es false (block.take k))).1 (contFrame sid true (block.drop k))).1 tag =
      getReq (dispatch c (hdrFrame sid es true block)).1 tag := by
    intro hg
    have g1 := dispatch_gone_reqs c (hdrFrame sid es false (block.take k)) (.inr ⟨tag, by rw [hs1]; exact hq, hg⟩)
    have g3 := dispatch_gone_reqs c (hdrFrame sid es true block) (.inr ⟨tag, by rw [hs1]; exact hq, hg⟩)
    have hgr : ∀ c' : Conn, c'.reqs = c.reqs → getReq c' tag = getReq c tag := fun c' e => by simp only [getReq, e]
    have g2 : (dispatch (dispatch c (hdrFrame sid es false (block.take k))).1 (contFrame sid true (block.drop k))).1.reqs = c.reqs := by
      rcases g1.2 with e | e
      · refine (dispatch_gone_reqs _ _ (.inr ⟨tag, by rw [hs2, e]; exact hq, ?_⟩)).1.trans g1.1
        rw [hgr _ g1.1]; exact hg
      · refine (dispatch_gone_reqs _ _ (.inl ?_)).1.trans g1.1
        rw [hs2, e, hs1]; exact lookupA_eraseA _ _
    rw [hgr _ g2, hgr _ g3.1]
  cases hr : getReq c tag with
  | none => exact gone (.inl hr)
  | some r =>
    cases hd : r.done with
    | true => exact gone (.inr ⟨r, hr, hd⟩)
    | false =>
      have h : Live c sid tag := ⟨hq, r, hr, hd⟩
      have := split_invariance c sid tag es (block.take k) [] (block.drop k) h0 h
      simp only [afterFragments, List.flatten_nil, List.append_nil, List.take_append_drop] at this
      rw [this]

def cF36 : Conn := { reqs := [{ tag := "a", sid := 1, hasConn := true }], reqQueued := [(1, "a")], nextID := 3, openStreams := 1 }

/-- `:status: 200`, then the literal `x-a: b` -/
def blockF36 : Bytes := [0x88, 0x40, 0x03, 0x78, 0x2d, 0x61, 0x01, 0x62]

/-- in one frame the block is fine … -/
theorem F36_whole_ok :
    ((getReq (dispatch cF36 (hdrFrame 1 true true blockF36)).1 "a").map fun r => (r.errBuf, r.status, r.hdrs)) =
      some (some .ok, 200, [([0x78, 0x2d, 0x61], [0x62])]) := by
  decide

/-- … and so it is cut after three octets, in the middle of the field `x-a: b` (the input on which the request used to
fail with the decoder's error): non-vacuity of `split_invariance`, and the regression example of F36 -/
theorem F36_regression :
    ((getReq (dispatch (dispatch cF36 (hdrFrame 1 true false (blockF36.take 3))).1 (contFrame 1 true (blockF36.drop 3))).1 "a").map
      fun r => (r.errBuf, r.status, r.hdrs)) = some (some .ok, 200, [([0x78, 0x2d, 0x61], [0x62])]) := by
  decide

example : Live cF36 1 "a" := ⟨by decide, _, rfl, rfl⟩

/-! ## dynamic table size updates in a response block -/

/-- **a dynamic table size update behind a field of the block is refused**, and the decoder's table is left as it was:
`readHeader` sees the whole block and tells the decoder how many fields it has decoded (RFC 7541 4.2) -/
theorem update_after_field_rejected (st : Hpack.DecState) (nf c : Nat) (rest : Bytes) (n : Nat) (r : Bytes)
    (hnf : nf > 0) (hc : 32 ≤ c ∧ c < 64) (hi : Hpack.readInt 5 (c :: rest) = .ok n r) :
    nextField st nf (c :: rest) = .err st := by
  have h1 : ¬ c ≥ 128 := by omega
  have h2 : ¬ c ≥ 64 := by omega
  have h3 : c ≥ 32 := by omega
  have hn : Hpack.Dec.next st true nf (c :: rest) = .err := by
    simp [Hpack.Dec.next, Hpack.nextFuel, h1, h2, h3, hi, hnf]
  have hs : Hpack.Dec.skipUpdates st true nf (c :: rest) = (st, c :: rest) := by
    simp [Hpack.Dec.skipUpdates, Hpack.skipFuel, hc.1, hc.2, hi, hnf]
  have hm : indexMiss st (c :: rest) = false := by
    simp [indexMiss, h1, h2, h3]
  simp only [nextField, hn, hs, hm]
  rfl

/-- so the request ends with the decoder's error -/
theorem block_with_late_update_fails (fuel : Nat) (st : Hpack.DecState) (q : Req) (rs ss : Bool) (nf c : Nat) (rest : Bytes)
    (n : Nat) (r : Bytes) (hnf : nf > 0) (hc : 32 ≤ c ∧ c < 64) (hi : Hpack.readInt 5 (c :: rest) = .ok n r) :
    readHeader (fuel + 1) st q rs ss nf (c :: rest) = (st, q, some .hpack) := by
  simp [readHeader, update_after_field_rejected st nf c rest n r hnf hc hi]

/-- a dynamic table size update behind a field is a decoding error … -/
example : (readHeader 3 {} { tag := "a" } false false 0 [0x88, 0x20]).2.2 = some .hpack := by decide

/-- … in front of the first field it is in its place … -/
example : (readHeader 3 {} { tag := "a" } false false 0 [0x20, 0x88]).2.2 = none := by decide

/-- … and a block that is a size update and nothing else (a trailer block can be) is no error -/
example : (readHeader 3 {} { tag := "a" } false false 0 [0x20]).2.2 = none := by decide

/-- blocks in a single frame are decoded whole by construction of `readHeader` -/
theorem single_frame_block_decoded_whole (c : Conn) (tag : String) (r : Req) (sid : Nat) (es : Bool) (block : Bytes) :
    (readStream c tag r (hdrFrame sid es true block)).2 = (readHeader (block.length + 1) c.dec r false false 0 block).2.2 := by
  rw [readStream_hdr]; simp [decodeBlock]

/-! ## the FULL serial model, every run

NEEDS `import H2.Proofs.ClientRunIds` at the top of this file. `ids_fresh_odd_increasing` and `no_cross_delivery` above
are about one call of `writeRequest` / `dispatch`; here: every run of `H2.Client.step` from the connection the driver
creates (`Init`), and whole `bytes` events. Proofs: `H2/Proofs/ClientRunHdr.lean`, `ClientRunIds.lean`. -/

section FullModel
open H2.Client

/-- **Full.stream_ids_increase**: in any run, the stream identifiers of the frames that open a stream (`runIds`: HEADERS
frames with END_HEADERS, `.headers`, or without, `.hfrag`; CONTINUATION frames open nothing), in the order written, are strictly increasing and odd; each is below the `nextID` the connection ends with, which is odd as well.
(Each is the `nextID` held just before its step and that step moves `nextID` up by 2: `Full.headers_carry_nextID`.) -/
theorem Full.stream_ids_increase (c : Conn) (h : Init c) (evs : List Event) :
    (runIds (run c evs).2).Pairwise (· < ·) ∧
    (∀ i ∈ runIds (run c evs).2, i % 2 = 1 ∧ 1 ≤ i ∧ i < (run c evs).1.nextID) ∧ (run c evs).1.nextID % 2 = 1 := by
  obtain ⟨a, b, _, d⟩ := run_ids evs c (init_hinv h) (by rw [h.nextID])
  refine ⟨a, ?_, d⟩
  intro i hi
  obtain ⟨x, y, z⟩ := b i hi
  rw [h.nextID] at x
  exact ⟨y, x, z⟩

/-- **Full.headers_carry_nextID**: the step after any prefix of a run writes no stream-opening frame and moves `nextID` by 0 or 2, or
writes exactly one (`.headers` or `.hfrag`), on the `nextID` held before the step, and moves `nextID` up by 2 -/
theorem Full.headers_carry_nextID (c : Conn) (h : Init c) (pre : List Event) (e : Event) :
    (outIds (step (run c pre).1 e).2 = [] ∧
      ((step (run c pre).1 e).1.nextID = (run c pre).1.nextID ∨ (step (run c pre).1 e).1.nextID = (run c pre).1.nextID + 2)) ∨
    (outIds (step (run c pre).1 e).2 = [(run c pre).1.nextID] ∧ (step (run c pre).1 e).1.nextID = (run c pre).1.nextID + 2) :=
  step_ids _ (run_hinv (init_hinv h) pre) e

/-- **Full.frame_touches_its_stream_only**: in ANY state, a frame on stream `sid ≠ 0` leaves alone the request of every tag
that is not registered under `sid`; the one exception is a connection that has had GOAWAY(last > 0), where the requests
waiting on streams above `last` are failed after every frame (C11) -/
theorem Full.frame_touches_its_stream_only (c : Conn) (f : Frame.Frame) (hs : f.stream ≠ 0) (t : String)
    (h1 : lookupA c.reqQueued f.stream ≠ some t)
    (h2 : c.stateClosed = true → ∀ s, (s, t) ∈ c.reqQueued → s ≤ c.closeRef) :
    getReq (rdFrame c f).1 t = getReq c t :=
  rdFrame_touches_only c f hs t h1 h2

/-- **Full.bytes_touch_their_streams_only**: in any run, a `bytes` event whose octets are complete frames on streams that
are not registered for `t` leaves the request `t` exactly as it was (result, status, headers, body), provided the step
does not end the connection -/
theorem Full.bytes_touch_their_streams_only (c : Conn) (h : Init c) (pre : List Event) (b : Bytes) (t : String)
    (hf : ForeignTo (run c pre).1 t (bytesSplit (run c pre).1 b).1)
    (h2 : (run c pre).1.stateClosed = true → ∀ s, (s, t) ∈ (run c pre).1.reqQueued → s ≤ (run c pre).1.closeRef)
    (hlive : ∃ fs, (step (run c pre).1 (.bytes b)).2 = .frames fs) :
    getReq (step (run c pre).1 (.bytes b)).1 t = getReq (run c pre).1 t :=
  step_bytes_touches_only _ (run_invariant (init_inv h) pre) b t hf h2 hlive

/-! ### non-vacuity: two requests, the response to the first -/

def fullReq (tag : String) : ReqSpec :=
  { tag := tag, method := [71, 69, 84], scheme := [104, 116, 116, 112, 115], host := [104], path := [47], ua := [117],
    hdrs := [], body := .none }

/-- HEADERS on stream 1, END_STREAM | END_HEADERS, `:status 200` -/
def fullResp : List Nat := [0, 0, 1, 1, 5, 0, 0, 0, 1, 0x88]

def fullRun : List Event := [.req (fullReq "a"), .req (fullReq "b"), .bytes fullResp, .req (fullReq "c")]

/-- three HEADERS frames, on streams 1, 3, 5; `nextID` ends at 7 -/
example : runIds (run {} fullRun).2 = [1, 3, 5] ∧ (run {} fullRun).1.nextID = 7 := by decide +kernel

/-- the hypotheses of `Full.bytes_touch_their_streams_only` hold for "b" and the response on stream 1, which does change "a" -/
example : ForeignTo (run {} (fullRun.take 2)).1 "b" (bytesSplit (run {} (fullRun.take 2)).1 fullResp).1 := by
  refine ⟨by decide +kernel, ?_, trivial⟩
  intro s hm
  have : (run {} (fullRun.take 2)).1.reqQueued = [(1, "a"), (3, "b")] := by decide +kernel
  rw [this] at hm
  have : (match (bytesSplit (run {} (fullRun.take 2)).1 fullResp).1 with | [.frame f] => f.stream | _ => 0) = 1 := by
    decide +kernel
  simp only [List.mem_cons, Prod.mk.injEq, List.mem_nil_iff, or_false] at hm
  rcases hm with ⟨_, hm⟩ | ⟨rfl, _⟩
  · exact absurd hm (by decide)
  · decide +kernel

example : (getReq (run {} (fullRun.take 3)).1 "a").map (·.errBuf) = some (some .ok) ∧
    (getReq (run {} (fullRun.take 3)).1 "b").map (·.errBuf) = some none ∧
    (run {} (fullRun.take 2)).1.stateClosed = false := by decide +kernel

end FullModel

/-! ## header blocks for streams nobody waits on (finding F85, repaired): they still go through the HPACK decoder

`Conn.dispatch` used to drop such a block undecoded (the request had timed out, been cancelled or finished): the entries
the block adds to the dynamic table were lost and every later response, on any stream, was decoded against a table that
was out of step with the server's. `skipHeaders` now runs the block through the decoder and drops the fields. -/

section Skipped
open H2.Client

/-- **skip_agrees_with_read**: on a block that `readHeader` accepts (no decoding error, no malformed field), `skipFields`
leaves the decoder in exactly the state `readHeader` leaves it in: dropping a response keeps the compression context where
delivering it would have put it -/
theorem skip_agrees_with_read (fuel : Nat) : ∀ (st : Hpack.DecState) (r : H2.Client.Req) (rs ss : Bool) (nf : Nat) (b : Bytes)
    (st' : Hpack.DecState) (r' : H2.Client.Req), readHeader fuel st r rs ss nf b = (st', r', none) →
    skipFields fuel st nf b = st' := by
  induction fuel with
  | zero => intro st r rs ss nf b st' r' h; simp [readHeader] at h
  | succ k ih =>
    intro st r rs ss nf b st' r' h
    simp only [readHeader] at h
    simp only [skipFields]
    split
    · rename_i he; simp only [he, if_true, Prod.mk.injEq] at h; exact h.1
    · rename_i he
      simp only [he, Bool.false_eq_true, if_false] at h
      cases hn : nextField st nf b with
      | idxMiss s1 => rw [hn] at h; simp at h
      | err s1 => rw [hn] at h; simp at h
      | done s1 => rw [hn] at h; simp only [Prod.mk.injEq] at h; exact h.1
      | field s1 k' v rest =>
        rw [hn] at h
        simp only at h ⊢
        cases hf : fieldStep r rs ss k' v with
        | none => rw [hf] at h; simp at h
        | some x =>
          obtain ⟨r1, rs1, ss1⟩ := x
          rw [hf] at h
          exact ih s1 r1 rs1 ss1 (nf + 1) rest st' r' h

/-- … in the form the read loop uses it: a whole response block, decoded from field 0 -/
theorem skipped_block_keeps_context (st : Hpack.DecState) (r r' : H2.Client.Req) (st' : Hpack.DecState) (blk : Bytes)
    (h : readHeader (blk.length + 1) st r false false 0 blk = (st', r', none)) :
    skipFields (blk.length + 1) st 0 blk = st' :=
  skip_agrees_with_read _ st r false false 0 blk st' r' h

theorem skipHeaders_headers (c : Conn) (f : Frame.Frame) (es eh : Bool) (p : Option (Nat × Nat)) (frag : Bytes)
    (hb : f.body = .headers es eh p frag) (ht : f.typ = Gen.c_FrameHeaders) :
    skipHeaders c f = if Frame.hasFlag f.flags Gen.c_FlagEndHeaders then
        { c with dec := skipFields (frag.length + 1) c.dec 0 frag, hdrBlock := [], hdrEndStream := 0 }
      else { c with hdrBlock := frag } := by
  unfold skipHeaders
  rw [hb]
  simp [ht]

theorem skipHeaders_continuation (c : Conn) (f : Frame.Frame) (eh : Bool) (frag : Bytes)
    (hb : f.body = .continuation eh frag) (ht : f.typ = Gen.c_FrameContinuation) :
    skipHeaders c f = if Frame.hasFlag f.flags Gen.c_FlagEndHeaders then
        { c with dec := skipFields ((c.hdrBlock ++ frag).length + 1) c.dec 0 (c.hdrBlock ++ frag), hdrBlock := [],
                 hdrEndStream := 0 }
      else { c with hdrBlock := c.hdrBlock ++ frag } := by
  have hne : (Gen.c_FrameContinuation == Gen.c_FrameHeaders) = false := by decide
  unfold skipHeaders
  rw [hb]
  simp [ht, hne]

/-- **skipped_block_is_decoded**: a complete header block (one HEADERS frame with END_HEADERS) for a stream that is not, or
no longer, in the table of waiting requests leaves the decoder in the state decoding that block leaves it in; no request,
no table entry changes, and no block is left open -/
theorem skipped_block_is_decoded (c : Conn) (sid : Nat) (es : Bool) (blk : Bytes) (hq : lookupA c.reqQueued sid = none) :
    (dispatch c (hdrFrame sid es true blk)).1 =
      { c with dec := skipFields (blk.length + 1) c.dec 0 blk, hdrBlock := [], hdrEndStream := 0 } := by
  have hs : (hdrFrame sid es true blk).stream = sid := rfl
  simp only [dispatch, hs, hq]
  rw [skipHeaders_headers c _ es true none blk rfl rfl, hdr_eh]
  rfl

/-- … and cut into HEADERS + CONTINUATION at any octet it leaves the same state -/
theorem skipped_split_block_is_decoded (c : Conn) (sid : Nat) (es : Bool) (first last : Bytes)
    (hq : lookupA c.reqQueued sid = none) :
    (dispatch (dispatch c (hdrFrame sid es false first)).1 (contFrame sid true last)).1 =
      { c with dec := skipFields ((first ++ last).length + 1) c.dec 0 (first ++ last), hdrBlock := [], hdrEndStream := 0 } := by
  have hs1 : (hdrFrame sid es false first).stream = sid := rfl
  have hs2 : (contFrame sid true last).stream = sid := rfl
  have e1 : (dispatch c (hdrFrame sid es false first)).1 = { c with hdrBlock := first } := by
    simp only [dispatch, hs1, hq]
    rw [skipHeaders_headers c _ es false none first rfl rfl, hdr_eh]
    rfl
  rw [e1]
  simp only [dispatch, hs2, hq]
  rw [skipHeaders_continuation _ _ true last rfl rfl, cont_eh]
  rfl

/-! ### non-vacuity: the witness of F85 in small -/

/-- request "a" waits on stream 3; stream 1 has been given up -/
def cF85 : Conn := { reqs := [{ tag := "a", sid := 3, hasConn := true }], reqQueued := [(3, "a")], nextID := 5, openStreams := 1 }

/-- `:status: 200`, then the literal `x: y` WITH incremental indexing: the server's table gets the entry 62 -/
def blockF85a : Bytes := [0x88, 0x40, 0x01, 0x78, 0x01, 0x79]
/-- `:status: 200`, then the indexed field 62 -/
def blockF85b : Bytes := [0x88, 0xbe]

/-- the response to the stream nobody waits on is skipped, the response on stream 3 refers to the entry it inserted:
"a" gets `x: y` and succeeds (before the repair: an index that does not exist, a connection-level decoding error) -/
example :
    (getReq (dispatch (dispatch cF85 (hdrFrame 1 true true blockF85a)).1 (hdrFrame 3 true true blockF85b)).1 "a").map
      (fun q => (q.errBuf, q.status, q.hdrs)) = some (some .ok, 200, [([0x78], [0x79])]) ∧
    (dispatch cF85 (hdrFrame 1 true true blockF85a)).1.reqs = cF85.reqs := by decide +kernel

/-- the hypothesis of `skipped_block_keeps_context` holds for the first block, and both sides are the table with `x: y` -/
example : (readHeader (blockF85a.length + 1) {} { tag := "z" } false false 0 blockF85a).2.2 = none ∧
    (skipFields (blockF85a.length + 1) {} 0 blockF85a).dyn = [([0x78], [0x79])] := by decide +kernel

end Skipped

end H2.Props.C02
