import H2.Proofs.ClientSerial
/-!
# C02 — each request is sent intact and gets exactly its own response

Statements about the serial client model (`H2.Client.Model`), the one the stepping harness compares
with the real `Conn` step by step. Response assembly happens on the read loop alone, so "however the
server orders or interleaves its frames" is "for every frame and every state": the theorems quantify
over all states and frames, not over a generated set.
-/
namespace H2.Props.C02

open H2.Client

/-! ## stream ids -/

/-- `writeRequest` either turns the request away without touching the id counter, or writes HEADERS on
exactly `nextID` and advances it by two -/
theorem ids_fresh_odd_increasing (c : Conn) (r : ReqSpec) :
    (canOpenStream c = false → (writeRequest c r).2 = [] ∧ (writeRequest c r).1.nextID = c.nextID) ∧
    (canOpenStream c = true →
      (∃ es fs rest, (writeRequest c r).2 = OutFrame.headers c.nextID es fs :: rest) ∧
      (writeRequest c r).1.nextID = c.nextID + 2) := by
  constructor
  · intro h; simp [writeRequest, h, resolve, updReq]
  · intro h
    simp only [writeRequest, h, Bool.not_true, Bool.false_eq_true, if_false]
    cases r.body with
    | none => exact ⟨⟨_, _, _, rfl⟩, by simp [updReq]⟩
    | buf n =>
      refine ⟨⟨_, _, _, rfl⟩, ?_⟩
      simp only; rw [sendPending_nextID]; simp [updReq]
    | stream d ch t =>
      refine ⟨⟨_, _, _, rfl⟩, ?_⟩
      simp only; rw [sendPending_nextID]; simp [updReq]

/-- so ids stay odd: 1, 3, 5, … -/
theorem next_id_stays_odd (c : Conn) (r : ReqSpec) (h : c.nextID % 2 = 1) : (writeRequest c r).1.nextID % 2 = 1 := by
  have := ids_fresh_odd_increasing c r
  cases hc : canOpenStream c
  · rw [(this.1 hc).2]; exact h
  · rw [(this.2 hc).2]; omega

/-- a stream is opened only while its id is within the 31-bit space -/
theorem id_within_space (c : Conn) (h : canOpenStream c = true) : c.nextID ≤ Gen.c_maxStreamID := by
  simp [canOpenStream] at h; exact h.1.2

/-! ## the request on the wire -/

/-- the header list starts with the four pseudo-header fields and the user agent, as given -/
theorem request_head (r : ReqSpec) :
    (requestFields r).take 5 = [(Gen.s_StringAuthority, r.host), (Gen.s_StringMethod, r.method),
      (Gen.s_StringPath, r.path), (Gen.s_StringScheme, r.scheme), (Gen.s_StringUserAgent, r.ua)] := by
  simp [requestFields]

/-- no connection-specific field goes out, and every other field of the request does, lower-cased -/
theorem request_regular_fields (r : ReqSpec) (k v : Bytes) :
    (k, v) ∈ (requestFields r).drop 5 ↔
      ((∃ d ch t, r.body = .stream d ch t ∧ d ≥ 0 ∧ k = Gen.s_StringContentLength ∧ v = strBytes (toString d)) ∨
       (∃ k0, (k0, v) ∈ r.hdrs ∧ k = toLowerGo k0 ∧ k ≠ Gen.s_StringUserAgent ∧ isConnectionSpecific k = false)) := by
  simp only [requestFields, List.drop_append_of_le_length, List.length_cons, List.length_nil, Nat.le_refl,
    List.drop_succ_cons, List.drop_zero, List.nil_append, List.cons_append, List.drop_length]
  simp only [List.drop, List.mem_append, List.mem_filterMap]
  constructor
  · rintro (h | ⟨⟨k0, v0⟩, hm, hk⟩)
    · left
      cases hb : r.body <;> simp [hb] at h
      rename_i d ch t
      exact ⟨d, ch, t, rfl, h.1, h.2.1, h.2.2⟩
    · right
      simp only at hk
      split at hk
      · cases hk
      · rename_i hc
        simp only [Option.some.injEq, Prod.mk.injEq] at hk
        obtain ⟨rfl, rfl⟩ := hk
        simp only [Bool.or_eq_true, beq_iff_eq, not_or, Bool.not_eq_true] at hc
        exact ⟨k0, hm, rfl, hc.1, hc.2⟩
  · rintro (⟨d, ch, t, hb, hd, rfl, rfl⟩ | ⟨k0, hm, rfl, h1, h2⟩)
    · left; simp [hb, hd]
    · right
      refine ⟨(k0, v), hm, ?_⟩
      simp [h1, h2]

/-! ## responses: a frame touches only the request bound to its stream -/

/-- **no_cross_delivery**: processing any server frame on stream `f.stream` leaves every request other
than the one registered for that stream exactly as it was — status, fields, body, result -/
theorem no_cross_delivery (c : Conn) (f : Frame.Frame) (tag : String)
    (hq : lookupA c.reqQueued f.stream = some tag) : OthersSame tag c (dispatch c f).1 := by
  simp only [dispatch, hq]
  split
  · exact OthersSame.refl _ _
  · rename_i r hr
    split
    · exact OthersSame.of_reqs rfl
    · have h1 := othersSame_readStream c tag r f (getReq_tag hr)
      rcases hrs : readStream c tag r f with ⟨c1, e⟩
      rw [hrs] at h1
      simp only
      split
      · split
        · exact h1.trans (othersSame_finish _ _ _ _)
        · exact h1
      · exact h1.trans (othersSame_finish _ _ _ _)

/-- responses that cannot be told apart by stream id do not exist: a stream id is bound to at most one
request (`insertA` replaces, `writeRequest` uses a fresh id) -/
theorem lookup_insert (l : List (Nat × String)) (k : Nat) (v : String) : lookupA (insertA l k v) k = some v := by
  induction l with
  | nil => simp [insertA, lookupA]
  | cons p t ih =>
    obtain ⟨k', v'⟩ := p
    simp only [insertA]
    split
    · simp [lookupA]
    · split
      · simp [lookupA]
      · rename_i h1 h2
        have : (k' == k) = false := by
          simp only [beq_eq_false_iff_ne, ne_eq]; intro h; subst h; simp at h2
        simp only [lookupA, List.find?_cons, this] at ih ⊢
        exact ih

/-! ## header blocks continued in CONTINUATION (finding F36, known) -/

def hdrFrame (sid : Nat) (es eh : Bool) (frag : Bytes) : Frame.Frame :=
  ⟨Gen.c_FrameHeaders, (if es then 1 else 0) + (if eh then 4 else 0), sid, frag.length, .headers es eh none frag⟩

def contFrame (sid : Nat) (eh : Bool) (frag : Bytes) : Frame.Frame :=
  ⟨Gen.c_FrameContinuation, (if eh then 4 else 0), sid, frag.length, .continuation eh frag⟩

/-- full strength: wherever a header block is cut into HEADERS + CONTINUATION, the request ends up as if
the block had arrived in one frame (`split_invariance`, which with `no_cross_delivery` gives the
property's "fragmented at any byte") -/
def C02_full : Prop :=
  ∀ (c : Conn) (sid : Nat) (tag : String) (block : Bytes) (k : Nat) (es : Bool),
    lookupA c.reqQueued sid = some tag → k ≤ block.length →
    getReq (dispatch (dispatch c (hdrFrame sid es false (block.take k))).1 (contFrame sid true (block.drop k))).1 tag =
    getReq (dispatch c (hdrFrame sid es true block)).1 tag

def cF36 : Conn := { reqs := [{ tag := "a", sid := 1, hasConn := true }], reqQueued := [(1, "a")], nextID := 3, openStreams := 1 }

/-- `:status: 200`, then the literal `x-a: b` -/
def blockF36 : Bytes := [0x88, 0x40, 0x03, 0x78, 0x2d, 0x61, 0x01, 0x62]

/-- in one frame the block is fine … -/
theorem F36_whole_ok :
    ((getReq (dispatch cF36 (hdrFrame 1 true true blockF36)).1 "a").map fun r => (r.errBuf, r.status, r.hdrs)) =
      some (some .ok, 200, [([0x78, 0x2d, 0x61], [0x62])]) := by
  decide

/-- … cut after three octets, the first frame alone is decoded, fails in the middle of a field, and the
request is failed with the decoder's error before the rest of the block arrives -/
theorem F36_witness :
    ((getReq (dispatch (dispatch cF36 (hdrFrame 1 true false (blockF36.take 3))).1 (contFrame 1 true (blockF36.drop 3))).1 "a").map
      fun r => r.errBuf) = some (some .hpack) := by
  decide

theorem C02_full_fails : ¬ C02_full := by
  intro h
  have := h cF36 1 "a" blockF36 3 true (by decide) (by decide)
  have e1 := F36_whole_ok
  have e2 := F36_witness
  rw [this] at e2
  cases hg : getReq (dispatch cF36 (hdrFrame 1 true true blockF36)).1 "a" with
  | none => rw [hg] at e1; cases e1
  | some r => rw [hg] at e1 e2; simp at e1 e2; rw [e1.1] at e2; cases e2

/-- **no_cross_delivery_partial** is `no_cross_delivery` above: it holds for every frame; what is
missing from the full property is only `split_invariance` (blocks in a single frame are decoded whole by
construction of `readHeader`). -/
theorem single_frame_block_decoded_whole (c : Conn) (tag : String) (r : Req) (sid : Nat) (es : Bool) (block : Bytes) :
    (readStream c tag r (hdrFrame sid es true block)).2 = (readHeader (block.length + 1) c.dec r false false block).2.2 := by
  simp [readStream, hdrFrame]

end H2.Props.C02
