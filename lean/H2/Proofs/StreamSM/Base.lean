import H2.Server.Abs.StreamSpec
/-!
# C08 — proofs about the abstract stream-decision model: lifting lemmas and the table check

The state spaces are finite, so the pointwise facts are established by evaluating a Boolean check over the
whole table (`decide +kernel`: kernel evaluation, no axioms) and then lifted to `∀` statements with the
`forall_spec` lemmas. The statements about event sequences follow by induction.
-/
namespace H2.Server.StreamSM

theorem allB_spec {q : Bool → Bool} (h : allB q = true) (b : Bool) : q b = true := by
  cases b <;> simp_all [allB]

theorem TSt.forall_spec {q : TSt → Bool} (h : TSt.forall q = true) (x : TSt) : q x = true := by
  cases x <;> simp_all [TSt.forall]

theorem Cmp.forall_spec {q : Cmp → Bool} (h : Cmp.forall q = true) (x : Cmp) : q x = true := by
  cases x <;> simp_all [Cmp.forall]

theorem Inc.forall_spec {q : Inc → Bool} (h : Inc.forall q = true) (x : Inc) : q x = true := by
  cases x <;> simp_all [Inc.forall]

theorem Blk.forall_spec {q : Blk → Bool} (h : Blk.forall q = true) (x : Blk) : q x = true := by
  cases x <;> simp_all [Blk.forall]

theorem BlockOn.forall_spec {q : BlockOn → Bool} (h : BlockOn.forall q = true) (x : BlockOn) : q x = true := by
  cases x <;> simp_all [BlockOn.forall]

theorem Pos.forall_spec {q : Pos → Bool} (h : Pos.forall q = true) (p : Pos) : q p = true := by
  simp only [Pos.forall, Bool.and_eq_true] at h
  cases p with
  | tab st a b c => exact allB_spec (allB_spec (allB_spec (TSt.forall_spec h.1.1 st) a) b) c
  | out a b c => exact Cmp.forall_spec (allB_spec (allB_spec h.1.2 a) b) c
  | even => exact h.2

theorem Fr.forall_spec {q : Fr → Bool} (h : Fr.forall q = true) (f : Fr) : q f = true := by
  simp only [Fr.forall, Bool.and_eq_true] at h
  obtain ⟨⟨⟨⟨⟨⟨⟨⟨⟨h1, h2⟩, h3⟩, h4⟩, h5⟩, h6⟩, h7⟩, h8⟩, h9⟩, h10⟩ := h
  cases f with
  | data a b => exact allB_spec (allB_spec h1 a) b
  | headers a b c d => exact Blk.forall_spec (allB_spec (allB_spec (allB_spec h2 a) b) c) d
  | priority a => exact allB_spec h3 a
  | rst => exact h4
  | wu i => exact Inc.forall_spec h5 i
  | cont a b d => exact Blk.forall_spec (allB_spec (allB_spec h6 a) b) d
  | ping => exact h7
  | pushPromise => exact h8
  | other => exact h9
  | ext => exact h10

theorem Ctx.forall_spec {q : Ctx → Bool} (h : Ctx.forall q = true) (c : Ctx) : q c = true := by
  obtain ⟨bl, a, b, c', d⟩ := c
  exact allB_spec (allB_spec (allB_spec (allB_spec (BlockOn.forall_spec h bl) a) b) c') d

end H2.Server.StreamSM

namespace H2.Server.StreamSpec
open H2.Server.StreamSM

theorem SpecSt.forall_spec {q : SpecSt → Bool} (h : SpecSt.forall q = true) (σ : SpecSt) : q σ = true := by
  simp only [SpecSt.forall, Bool.and_eq_true] at h
  obtain ⟨⟨⟨⟨⟨⟨⟨h1, h2⟩, h3⟩, h4⟩, h5⟩, h6⟩, h7⟩, h8⟩ := h
  cases σ with
  | idle => exact h1
  | idleClosed => exact h2
  | «open» b => exact allB_spec h3 b
  | hcr b => exact allB_spec h4 b
  | closedPeer b => exact allB_spec h5 b
  | closedOur b => exact allB_spec h6 b
  | closedDone b => exact allB_spec h7 b
  | evenId => exact h8

def isConnErr : Reaction → Bool
  | .connErr _ => true
  | _ => false

/-- everything C08 says about one cell of the table: state pair related by `sim`, consistent context -/
def cellOK (p : Pos) (σ : SpecSt) (f : Fr) (c : Ctx) : Bool :=
  !consistent σ c ||
  (let rp := react p f c
   let r := rp.1
   let lg := legal σ f c
   let cp := completes σ f
   allowed σ f c r &&                                -- the reaction is one the RFC allows
   (isConnErr r || sim rp.2 (next σ f r)) &&         -- and the tables keep describing the RFC state
   (!lg || !r.isError) &&                            -- a legal frame is taken without error
   (r != .dispatch || cp) &&                         -- a request is dispatched only when the frames form a complete request
   (!(lg && cp) || r == .dispatch))                  -- and a legal complete request is dispatched

def tableOK (p : Pos) : Bool :=
  SpecSt.forall fun σ => !sim p σ || Fr.forall fun f => Ctx.forall fun c => cellOK p σ f c


end H2.Server.StreamSpec
