import H2.Proofs.StreamSM.Base
/-! C08: part of the table check (`decide +kernel`: evaluation in the kernel, no axioms). Split over several files so that they build in parallel. -/
namespace H2.Server.StreamSpec
open H2.Server.StreamSM
set_option maxRecDepth 100000

theorem table_outGone_rest :
    (tableOK (.out false false .above) && tableOK (.out false false .gap) && tableOK (.out false false .equal)) = true := by
  decide +kernel

end H2.Server.StreamSpec
