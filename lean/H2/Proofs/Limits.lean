import H2.Server.Abs.Limits
/-! Helper lemmas for C13 (abstract request-size limits `H2.Server.Abs.Limits`). -/
namespace H2.Server.Abs.Limits

/-- a stream that has broken no limit is within both -/
def Within (st : St) (s : Strm) : Prop :=
  s.dead = false → (st.maxBody > 0 → s.body ≤ st.maxBody) ∧ (st.maxHdr > 0 → (s.hdr : Int) ≤ st.maxHdr) ∧ s.body ≤ s.recv

/-- the octets of an unfinished field a stream holds are within `heldFactor` times the list limit -/
def HeldOK (st : St) (s : Strm) : Prop := st.maxHdr > 0 → (s.held : Int) ≤ (heldFactor : Int) * st.maxHdr

structure Inv (st : St) : Prop where
  tbl : ∀ s ∈ st.tbl, Within st s
  held : ∀ s ∈ st.tbl, HeldOK st s
  handed : ∀ id b h, Rec.handed id b h ∈ st.trace →
    (st.maxBody > 0 → b ≤ st.maxBody) ∧ (st.maxHdr > 0 → (h : Int) ≤ st.maxHdr)

theorem get_mem {id : Nat} : ∀ {l : List Strm} {s : Strm}, get id l = some s → s ∈ l := by
  intro l
  induction l with
  | nil => intro s h; cases h
  | cons x xs ih =>
    intro s h
    simp only [get] at h
    split at h
    · injection h with h; subst h; exact List.mem_cons_self
    · exact List.mem_cons_of_mem _ (ih h)

theorem mem_upd {f : Strm → Strm} {id : Nat} : ∀ {l : List Strm} {y : Strm}, y ∈ upd f id l →
    y ∈ l ∨ ∃ s, get id l = some s ∧ y = f s := by
  intro l
  induction l with
  | nil => intro y h; cases h
  | cons x xs ih =>
    intro y h
    simp only [upd] at h
    simp only [get]
    split at h
    · rename_i hx
      simp only [hx, if_true]
      rcases List.mem_cons.mp h with h | h
      · exact Or.inr ⟨x, rfl, h⟩
      · exact Or.inl (List.mem_cons_of_mem _ h)
    · rename_i hx
      simp only [hx, if_false]
      rcases List.mem_cons.mp h with h | h
      · exact Or.inl (h ▸ List.mem_cons_self)
      · rcases ih h with h | ⟨z, hz, e⟩
        · exact Or.inl (List.mem_cons_of_mem _ h)
        · exact Or.inr ⟨z, hz, e⟩

theorem mem_del {id : Nat} : ∀ {l : List Strm} {y : Strm}, y ∈ del id l → y ∈ l := by
  intro l
  induction l with
  | nil => intro y h; cases h
  | cons x xs ih =>
    intro y h
    simp only [del] at h
    split at h
    · exact List.mem_cons_of_mem _ h
    · rcases List.mem_cons.mp h with h | h
      · exact h ▸ List.mem_cons_self
      · exact List.mem_cons_of_mem _ (ih h)

/-- an in-place update that keeps `held` keeps the bound on it -/
theorem held_upd {st : St} {f : Strm → Strm} {id : Nat} (hf : ∀ x, (f x).held = x.held)
    (hk : ∀ s ∈ st.tbl, HeldOK st s) : ∀ y ∈ upd f id st.tbl, st.maxHdr > 0 → (y.held : Int) ≤ (heldFactor : Int) * st.maxHdr := by
  intro y hy
  rcases mem_upd hy with hy | ⟨x, hx, e⟩
  · exact hk y hy
  · subst e; rw [hf]; exact hk x (get_mem hx)

theorem handed_append_other {st : St} {r : Rec} (hr : ∀ id b h, r ≠ .handed id b h)
    (hh : ∀ id b h, Rec.handed id b h ∈ st.trace → (st.maxBody > 0 → b ≤ st.maxBody) ∧ (st.maxHdr > 0 → (h : Int) ≤ st.maxHdr)) :
    ∀ id b h, Rec.handed id b h ∈ st.trace ++ [r] → (st.maxBody > 0 → b ≤ st.maxBody) ∧ (st.maxHdr > 0 → (h : Int) ≤ st.maxHdr) := by
  intro id b h hm
  simp only [List.mem_append, List.mem_singleton] at hm
  rcases hm with hm | hm
  · exact hh id b h hm
  · exact absurd hm.symm (hr id b h)

theorem step_inv {st : St} (e : Ev) (hi : Inv st) : Inv (step st e) := by
  obtain ⟨ht, hk, hh⟩ := hi
  cases e with
  | opened id =>
    refine ⟨?_, ?_, hh⟩
    · intro s hs
      simp only [step, List.mem_append, List.mem_singleton] at hs
      rcases hs with hs | hs
      · exact ht s hs
      · subst hs; intro _; refine ⟨fun _ => Nat.zero_le _, fun h => ?_, Nat.le_refl _⟩; simp only [step] at h ⊢; omega
    · intro s hs
      simp only [step, List.mem_append, List.mem_singleton] at hs
      rcases hs with hs | hs
      · exact hk s hs
      · subst hs; intro h; simp only [step, heldFactor] at h ⊢; omega
  | hdrBytes id n =>
    simp only [step]
    split
    · exact ⟨ht, hk, hh⟩
    · rename_i s hg
      split
      · refine ⟨?_, held_upd (fun _ => rfl) hk, handed_append_other (by intro _ _ _ h; cases h) hh⟩
        intro y hy
        rcases mem_upd hy with hy | ⟨x, _, e⟩
        · exact ht y hy
        · subst e; intro hd; cases hd
      · rename_i hlim
        refine ⟨?_, held_upd (fun _ => rfl) hk, hh⟩
        intro y hy
        rcases mem_upd hy with hy | ⟨x, hx, e⟩
        · exact ht y hy
        · rw [hg] at hx; injection hx with hx; subst hx; subst e
          intro hd
          have hw := ht s (get_mem hg) hd
          refine ⟨hw.1, ?_, hw.2.2⟩
          intro hpos
          simp only [not_and, Int.not_lt] at hlim
          exact hlim hpos
  | hdrTail id n =>
    simp only [step]
    split
    · exact ⟨ht, hk, hh⟩
    · rename_i s hg
      split
      · refine ⟨?_, ?_, handed_append_other (by intro _ _ _ h; cases h) hh⟩
        · intro y hy
          rcases mem_upd hy with hy | ⟨x, _, e⟩
          · exact ht y hy
          · subst e; intro hd; cases hd
        · intro y hy
          rcases mem_upd hy with hy | ⟨x, _, e⟩
          · exact hk y hy
          · subst e; intro h; simp only [heldFactor] at h ⊢; omega
      · rename_i hlim
        refine ⟨?_, ?_, hh⟩
        · intro y hy
          rcases mem_upd hy with hy | ⟨x, hx, e⟩
          · exact ht y hy
          · subst e; exact ht x (get_mem hx)
        · intro y hy
          rcases mem_upd hy with hy | ⟨x, _, e⟩
          · exact hk y hy
          · subst e
            intro hpos
            simp only [fieldTooLong, Bool.and_eq_true, decide_eq_true_eq, not_and, Int.not_lt] at hlim
            exact hlim hpos
  | data id n =>
    simp only [step]
    split
    · exact ⟨ht, hk, hh⟩
    · rename_i s hg
      split
      · refine ⟨?_, held_upd (fun _ => rfl) hk, handed_append_other (by intro _ _ _ h; cases h) hh⟩
        intro y hy
        rcases mem_upd hy with hy | ⟨x, _, e⟩
        · exact ht y hy
        · subst e; intro hd; cases hd
      · rename_i hlim
        refine ⟨?_, held_upd (fun _ => rfl) hk, hh⟩
        intro y hy
        rcases mem_upd hy with hy | ⟨x, hx, e⟩
        · exact ht y hy
        · rw [hg] at hx; injection hx with hx; subst hx; subst e
          intro hd
          have hw := ht s (get_mem hg) hd
          simp only [not_and, Nat.not_lt] at hlim
          refine ⟨?_, hw.2.1, ?_⟩
          · intro hpos; have := hlim hpos; have := hw.2.2; simp only []; omega
          · have := hw.2.2; simp only []; omega
  | dispatch id =>
    simp only [step]
    split
    · exact ⟨ht, hk, hh⟩
    · rename_i s hg
      split
      · exact ⟨ht, hk, hh⟩
      · rename_i hd
        refine ⟨ht, hk, ?_⟩
        intro i b h hm
        simp only [List.mem_append, List.mem_singleton] at hm
        rcases hm with hm | hm
        · exact hh i b h hm
        · injection hm with e1 e2 e3
          subst e2; subst e3
          have hw := ht s (get_mem hg) (by simpa using hd)
          exact ⟨hw.1, hw.2.1⟩
  | close id => exact ⟨fun s hs => ht s (mem_del hs), fun s hs => hk s (mem_del hs), hh⟩

theorem run_inv (evs : List Ev) : ∀ st, Inv st → Inv (run st evs) := by
  induction evs with
  | nil => intro st h; exact h
  | cons e es ih => intro st h; exact ih _ (step_inv e h)

theorem init_inv (mb : Nat) (mh : Int) : Inv (init mb mh) := by
  constructor <;> simp [init]

theorem step_max (st : St) (e : Ev) : (step st e).maxBody = st.maxBody ∧ (step st e).maxHdr = st.maxHdr := by
  cases e <;> simp only [step] <;> repeat' split
  all_goals first | exact ⟨rfl, rfl⟩ | trivial | simp

theorem run_max (evs : List Ev) : ∀ st, (run st evs).maxBody = st.maxBody ∧ (run st evs).maxHdr = st.maxHdr := by
  induction evs with
  | nil => intro st; exact ⟨rfl, rfl⟩
  | cons e es ih =>
    intro st
    have h1 := ih (step st e)
    have h2 := step_max st e
    exact ⟨h1.1.trans h2.1, h1.2.trans h2.2⟩

end H2.Server.Abs.Limits
