import H2.Server.Abs.Closing
/-! Helper lemmas for C10 (abstract GOAWAY / closing model `H2.Server.Abs.Closing`). -/
namespace H2.Server.Abs.Closing

structure Inv (st : St) : Prop where
  tblLe : ∀ id ∈ st.tbl, id ≤ st.lastID
  dispLe : ∀ d, Rec.dispatched d ∈ st.trace → d ≤ st.lastID
  gaGe : ∀ l c, Rec.goAway l c ∈ st.trace → st.lastID ≤ l
  gaClosing : ∀ l c, Rec.goAway l c ∈ st.trace → st.closing = true

theorem init_inv : Inv init := by
  constructor <;> simp [init]

theorem writeGoAway_inv {st : St} (sid code : Nat) (h : Inv st) : Inv (writeGoAway st sid code) := by
  obtain ⟨h1, h2, h3, h4⟩ := h
  simp only [writeGoAway]
  refine ⟨h1, ?_, ?_, ?_⟩
  · intro d hd
    simp only [List.mem_append, List.mem_singleton] at hd
    rcases hd with hd | hd
    · exact h2 d hd
    · cases hd
  · intro l c hl
    simp only [List.mem_append, List.mem_singleton] at hl
    rcases hl with hl | hl
    · exact h3 l c hl
    · injection hl with e1 e2
      subst e1; simp only []; split <;> omega
  · intro l c _; rfl

theorem stopped_inv {st : St} (h : Inv st) : Inv { st with stopped := true } := ⟨h.1, h.2, h.3, h.4⟩

theorem finish_inv {st : St} (m : Mode) (h : Inv st) : Inv (finish st m) := by
  cases m <;> simp only [finish]
  · exact stopped_inv h
  · split
    · exact stopped_inv h
    · exact h
  · exact h

theorem offend_inv {st : St} (o : Offence) (sid : Nat) (h : Inv st) : Inv (offend st o sid) :=
  finish_inv _ (writeGoAway_inv _ _ h)

theorem step_inv {st : St} (e : Ev) (h : Inv st) : Inv (step st e) := by
  unfold step
  split
  · exact h
  · cases e with
    | hdrNew id full =>
      simp only [stepLive]
      split
      · exact h
      · split
        · obtain ⟨h1, h2, h3, h4⟩ := h
          refine ⟨h1, ?_, ?_, ?_⟩
          · intro d hd
            simp only [List.mem_append, List.mem_singleton] at hd
            rcases hd with hd | hd
            · exact h2 d hd
            · cases hd
          · intro l c hl
            simp only [List.mem_append, List.mem_singleton] at hl
            rcases hl with hl | hl
            · exact h3 l c hl
            · cases hl
          · intro l c hl
            simp only [List.mem_append, List.mem_singleton] at hl
            rcases hl with hl | hl
            · exact h4 l c hl
            · cases hl
        · rename_i hnc
          split
          · exact offend_inv _ _ h
          · rename_i hge
            -- a stream is opened: not closing, so no GOAWAY has been written yet
            have hcl : st.closing = false := by
              simp only [Bool.or_eq_true, not_or, Bool.not_eq_true] at hnc; exact hnc.2
            have hgt : st.lastID < id := by
              simp only [Bool.or_eq_true, decide_eq_true_eq, not_or, Nat.not_le] at hge; exact hge.1
            obtain ⟨h1, h2, h3, h4⟩ := h
            refine ⟨?_, ?_, ?_, ?_⟩
            · intro x hx
              simp only [List.mem_append, List.mem_singleton] at hx
              rcases hx with hx | hx
              · have := h1 x hx; simp only []; omega
              · subst hx; exact Nat.le_refl _
            · intro d hd
              simp only [List.mem_append, List.mem_singleton] at hd
              rcases hd with hd | hd
              · have := h2 d hd; simp only []; omega
              · cases hd
            · intro l c hl
              simp only [List.mem_append, List.mem_singleton] at hl
              rcases hl with hl | hl
              · have := h4 l c hl; rw [hcl] at this; cases this
              · cases hl
            · intro l c hl
              simp only [List.mem_append, List.mem_singleton] at hl
              rcases hl with hl | hl
              · exact h4 l c hl
              · cases hl
    | offence o sid => exact offend_inv o sid h
    | dispatch id =>
      simp only [stepLive]
      split
      · rename_i hc
        obtain ⟨h1, h2, h3, h4⟩ := h
        refine ⟨h1, ?_, ?_, ?_⟩
        · intro d hd
          simp only [List.mem_append, List.mem_singleton] at hd
          rcases hd with hd | hd
          · exact h2 d hd
          · injection hd with e1; subst e1
            exact h1 d (by simpa using hc)
        · intro l c hl
          simp only [List.mem_append, List.mem_singleton] at hl
          rcases hl with hl | hl
          · exact h3 l c hl
          · cases hl
        · intro l c hl
          simp only [List.mem_append, List.mem_singleton] at hl
          rcases hl with hl | hl
          · exact h4 l c hl
          · cases hl
      · exact h
    | close id =>
      obtain ⟨h1, h2, h3, h4⟩ := h
      exact ⟨fun x hx => h1 x (List.mem_of_mem_erase hx), h2, h3, h4⟩
    | check =>
      simp only [stepLive]
      split
      · exact stopped_inv h
      · exact h
    | peerGone => exact stopped_inv h

theorem run_inv (evs : List Ev) : ∀ st, Inv st → Inv (run st evs) := by
  induction evs with
  | nil => intro st h; exact h
  | cons e es ih => intro st h; exact ih _ (step_inv e h)

theorem run_append (a b : List Ev) : ∀ st, run st (a ++ b) = run (run st a) b := by
  induction a with
  | nil => intro st; rfl
  | cons e es ih => intro st; simp only [List.cons_append, run]; exact ih _

/-- after a GOAWAY whose mode is not `cont` the code has looked -/
theorem finish_looks (st : St) (m : Mode) (hm : m ≠ .cont) :
    canClose (finish st m) = true → (finish st m).stopped = true := by
  cases m with
  | stop => intro _; rfl
  | ifDone =>
    simp only [finish]
    by_cases hcc : canClose st = true
    · simp only [hcc, if_true]; intro _; trivial
    · simp only [hcc]; intro h; exact absurd h hcc
  | cont => exact absurd rfl hm

/-! ## once closing, always closing: no stream is opened any more -/

def openedOf (t : List Rec) : List Nat :=
  t.filterMap fun r => match r with | .opened id => some id | _ => none

/-- how a later state relates to a closing one -/
structure Frozen (s s' : St) : Prop where
  closing : s'.closing = true
  lastID : s'.lastID = s.lastID
  opened : openedOf s'.trace = openedOf s.trace
  tbl : ∀ id ∈ s'.tbl, id ∈ s.tbl

theorem openedOf_append_other (t : List Rec) (r : Rec) (h : ∀ id, r ≠ .opened id) :
    openedOf (t ++ [r]) = openedOf t := by
  unfold openedOf
  rw [List.filterMap_append]
  cases r <;> simp_all

theorem finish_frozen {s st : St} (m : Mode) (hw : Frozen s st) : Frozen s (finish st m) := by
  cases m <;> simp only [finish]
  · exact ⟨hw.1, hw.2, hw.3, hw.4⟩
  · split
    · exact ⟨hw.1, hw.2, hw.3, hw.4⟩
    · exact hw
  · exact hw

theorem offend_frozen {s : St} (o : Offence) (sid : Nat) :
    Frozen s (offend s o sid) := by
  apply finish_frozen
  simp only [writeGoAway]
  exact ⟨rfl, rfl, openedOf_append_other _ _ (by intro id h; cases h), fun _ h => h⟩

theorem step_frozen {s : St} (e : Ev) (hc : s.closing = true) : Frozen s (step s e) := by
  have refl : Frozen s s := ⟨hc, rfl, rfl, fun _ h => h⟩
  unfold step
  split
  · exact refl
  · cases e with
    | hdrNew id full =>
      simp only [stepLive, hc, Bool.or_true, if_true]
      split
      · exact refl
      · exact ⟨rfl, rfl, openedOf_append_other _ _ (by intro id h; cases h), fun _ h => h⟩
    | offence o sid => exact offend_frozen o sid
    | dispatch id =>
      simp only [stepLive]
      split
      · exact ⟨hc, rfl, openedOf_append_other _ _ (by intro id h; cases h), fun _ h => h⟩
      · exact refl
    | close id => exact ⟨hc, rfl, rfl, fun _ h => List.mem_of_mem_erase h⟩
    | check =>
      simp only [stepLive]
      split
      · exact ⟨hc, rfl, rfl, fun _ h => h⟩
      · exact refl
    | peerGone => exact ⟨hc, rfl, rfl, fun _ h => h⟩

theorem run_frozen (evs : List Ev) : ∀ s, s.closing = true → Frozen s (run s evs) := by
  induction evs with
  | nil => intro s hc; exact ⟨hc, rfl, rfl, fun _ h => h⟩
  | cons e es ih =>
    intro s hc
    have h1 := step_frozen e hc
    have h2 := ih _ h1.closing
    exact ⟨h2.closing, h2.lastID.trans h1.lastID, h2.opened.trans h1.opened, fun id h => h1.tbl id (h2.tbl id h)⟩


/-! ## the connection closes once the promised streams are done

The stream loop works in iterations (one frame taken off the reader, or one handler reporting back); an
iteration is a short list of the model's events. The code looks whether it can close at the end of
the iterations that may have changed the answer. -/

/-- closing and nothing left to wait for means the stream loop has stopped -/
def Closed (s : St) : Prop := s.closing = true → canClose s = true → s.stopped = true

theorem stepLive_looks (s : St) (e : Ev) (he : looksAfter e = true) : Closed (stepLive s e) := by
  unfold Closed
  cases e with
  | check =>
    simp only [stepLive]
    intro hc hcc
    split at hc <;> simp_all
  | peerGone => intro _ _; rfl
  | offence o sid =>
    simp only [stepLive, offend]
    simp only [looksAfter, bne_iff_ne, ne_eq] at he
    intro _ hcc
    exact finish_looks _ _ he hcc
  | hdrNew id full => simp [looksAfter] at he
  | dispatch id => simp [looksAfter] at he
  | close id => simp [looksAfter] at he

theorem looks_closed (s : St) (e : Ev) (he : looksAfter e = true) : Closed (step s e) := by
  unfold step
  split
  · rename_i h
    simp only [Bool.and_eq_true] at h
    intro _ _; exact h.1
  · exact stepLive_looks s e he

theorem harmless_closed (s : St) (e : Ev) (he : harmless e = true) (h : Closed s) : Closed (step s e) := by
  unfold step
  split
  · exact h
  · rename_i hns
    have h0 : s.stopped = false := by
      cases e <;> simp_all [harmless, survivesStop]
    cases e with
    | hdrNew id full =>
      simp only [stepLive]
      split
      · exact h
      · split
        · intro hc hcc; have := h hc hcc; rw [h0] at this; cases this
        · rename_i hnc
          have hcl : s.closing = false := by
            simp only [Bool.or_eq_true, not_or, Bool.not_eq_true] at hnc; exact hnc.2
          split
          · intro _ hcc
            exact finish_looks _ _ (by decide) hcc
          · intro hc; simp only [hcl] at hc; cases hc
    | dispatch id =>
      simp only [stepLive]
      split
      · intro hc hcc; have := h hc hcc; rw [h0] at this; cases this
      · exact h
    | offence o sid => simp [harmless] at he
    | close id => simp [harmless] at he
    | check => simp [harmless] at he
    | peerGone => simp [harmless] at he

theorem run_harmless (it : List Ev) : ∀ s, it.all harmless = true → Closed s → Closed (run s it) := by
  induction it with
  | nil => intro s _ h; exact h
  | cons e es ih =>
    intro s ha h
    simp only [List.all_cons, Bool.and_eq_true] at ha
    exact ih _ ha.2 (harmless_closed s e ha.1 h)

theorem run_iter (it : List Ev) (s : St) (hok : okIter it = true) (h : Closed s) : Closed (run s it) := by
  unfold okIter at hok
  by_cases ha : it.all harmless = true
  · exact run_harmless it s ha h
  · simp only [ha, Bool.false_or] at hok
    cases hl : it.getLast? with
    | none =>
      have : it = [] := List.getLast?_eq_none_iff.mp hl
      subst this; exact h
    | some e =>
      rw [hl] at hok
      obtain ⟨pre, rfl⟩ := List.getLast?_eq_some_iff.mp hl
      rw [run_append]
      exact looks_closed _ e hok

theorem run_iters (iters : List (List Ev)) : ∀ s, (∀ it ∈ iters, okIter it = true) → Closed s → Closed (run s iters.flatten) := by
  induction iters with
  | nil => intro s _ h; exact h
  | cons it rest ih =>
    intro s hok h
    simp only [List.flatten_cons, run_append]
    exact ih _ (fun x hx => hok x (List.mem_cons_of_mem _ hx)) (run_iter it s (hok it (List.mem_cons_self)) h)

end H2.Server.Abs.Closing
