import H2.Proofs.ClientRunGoAway
/-!
# C02 on the full serial client model, run level

* `run_ids`: the stream identifiers of the HEADERS frames written in a run are odd, strictly increasing, each the
  `nextID` held just before its step, all below the final `nextID`.
* `rdFrame_touches_only`, `rdFrames_touches_only`, `step_bytes_touches_only`: a frame on stream `sid` changes no request
  but the one registered under `sid` (and, once GOAWAY(last > 0) has come, those on streams above `last`).
-/
namespace H2.Client

/-! ## stream identifiers -/

/-- the stream a frame opens: HEADERS, with END_HEADERS or without (CONTINUATION frames open nothing) -/
def hdrId : OutFrame → Option Nat
  | .headers sid _ _ => some sid
  | .hfrag sid _ _ => some sid
  | _ => none

theorem contFrames_ids (sid : Nat) (fl : List (Bytes × Bytes)) (ls : List Nat) : (contFrames sid fl ls).filterMap hdrId = [] := by
  induction ls with
  | nil => rfl
  | cons l ls ih => simp only [contFrames, List.filterMap_cons, hdrId]; exact ih

/-- one header block opens one stream -/
theorem block_ids {sid : Nat} {es : Bool} {fl : List (Bytes × Bytes)} {blk : List OutFrame} (h : BlockOf sid es fl blk) :
    blk.filterMap hdrId = [sid] := by
  obtain ⟨l, ls, rfl⟩ := h
  simp only [headerFrames]
  split <;> simp [hdrId, contFrames_ids]

/-- identifiers of the HEADERS frames of an output, in the order written -/
def outIds : StepOut → List Nat
  | .frames fs => fs.filterMap hdrId
  | _ => []

/-- identifiers of all HEADERS frames written in a run, in order -/
def runIds (outs : List StepOut) : List Nat := outs.flatMap outIds

theorem noHdr_ids {fs : List OutFrame} (h : NoHdr fs) : fs.filterMap hdrId = [] := by
  rw [List.filterMap_eq_nil_iff]
  intro f hf
  have := h f hf
  cases f <;> simp_all [OutFrame.isHeaders, hdrId]

/-- one step: no HEADERS and `nextID` stays, or exactly one HEADERS, on `nextID`, which moves up by 2 -/
theorem step_ids (c : Conn) (h : HInv c) (ev : Event) :
    (outIds (step c ev).2 = [] ∧ ((step c ev).1.nextID = c.nextID ∨ (step c ev).1.nextID = c.nextID + 2)) ∨
    (outIds (step c ev).2 = [c.nextID] ∧ (step c ev).1.nextID = c.nextID + 2) := by
  rcases step_frames_spec c h.inv h.outQ ev with ⟨hn, hf⟩ | ⟨r, _, _, _, hn, hf⟩
  · left
    refine ⟨?_, .inl hn⟩
    cases ho : (step c ev).2 with
    | frames fs => exact noHdr_ids (hf fs ho)
    | _ => rfl
  · cases ho : (step c ev).2 with
    | frames fs =>
      right
      obtain ⟨blk, rest, e, hb, hr⟩ := hf fs ho
      refine ⟨?_, hn⟩
      simp only [outIds, e, List.filterMap_append, block_ids hb, noHdr_ids hr, List.append_nil]
    | _ => left; exact ⟨rfl, .inr hn⟩

theorem run_ids : ∀ (evs : List Event) (c : Conn), HInv c → c.nextID % 2 = 1 →
    (runIds (run c evs).2).Pairwise (· < ·) ∧
    (∀ i ∈ runIds (run c evs).2, c.nextID ≤ i ∧ i % 2 = 1 ∧ i < (run c evs).1.nextID) ∧
    c.nextID ≤ (run c evs).1.nextID ∧ (run c evs).1.nextID % 2 = 1 := by
  intro evs
  induction evs with
  | nil => intro c _ ho; exact ⟨List.Pairwise.nil, fun i hi => nomem hi, Nat.le_refl _, ho⟩
  | cons e es ih =>
    intro c h ho
    rw [run_cons]
    simp only [runIds, List.flatMap_cons]
    have h' := step_hinv c e h
    rcases step_ids c h e with ⟨h1, h2⟩ | ⟨h1, h2⟩
    · have ho' : (step c e).1.nextID % 2 = 1 := by rcases h2 with h2 | h2 <;> rw [h2] <;> omega
      obtain ⟨i1, i2, i3, i4⟩ := ih _ h' ho'
      rw [h1, List.nil_append]
      refine ⟨i1, ?_, by rcases h2 with h2 | h2 <;> rw [h2] at i3 <;> omega, i4⟩
      intro i hi
      obtain ⟨a, b, d⟩ := i2 i hi
      exact ⟨by rcases h2 with h2 | h2 <;> rw [h2] at a <;> omega, b, d⟩
    · have ho' : (step c e).1.nextID % 2 = 1 := by rw [h2]; omega
      obtain ⟨i1, i2, i3, i4⟩ := ih _ h' ho'
      rw [h1]
      refine ⟨?_, ?_, by rw [h2] at i3; omega, i4⟩
      · simp only [List.singleton_append, List.pairwise_cons]
        refine ⟨?_, i1⟩
        intro i hi
        have := (i2 i hi).1
        rw [h2] at this; omega
      · intro i hi
        simp only [List.singleton_append, List.mem_cons] at hi
        rcases hi with rfl | hi
        · exact ⟨Nat.le_refl _, ho, by rw [h2] at i3; omega⟩
        · obtain ⟨a, b, d⟩ := i2 i hi
          exact ⟨by rw [h2] at a; omega, b, d⟩

/-! ## who a stream frame can touch -/

/-- the GOAWAY bookkeeping is the same -/
def SameClose (c c' : Conn) : Prop := c'.closeRef = c.closeRef ∧ c'.stateClosed = c.stateClosed

theorem SameClose.trans {a b c : Conn} (h1 : SameClose a b) (h2 : SameClose b c) : SameClose a c :=
  ⟨h2.1.trans h1.1, h2.2.trans h1.2⟩

theorem sameClose_finish (c : Conn) (tag : String) (sid : Nat) (e : Err) : SameClose c (finish c tag sid e) := by
  obtain ⟨o, hs⟩ := finish_shape c tag sid e; rw [hs]; exact ⟨rfl, rfl⟩

theorem sameClose_prepare (c : Conn) (f : Frame.Frame) : SameClose c (prepare c f).1 := by
  obtain ⟨h, e⟩ := prepare_shape c f; rw [e]; exact ⟨rfl, rfl⟩

theorem sameClose_readStream (c : Conn) (tag : String) (r : Req) (f : Frame.Frame) : SameClose c (readStream c tag r f).1 := by
  unfold readStream
  split
  · simp only; split <;> exact ⟨rfl, rfl⟩
  · simp only; split <;> exact ⟨rfl, rfl⟩
  · exact ⟨rfl, rfl⟩
  · simp only; split <;> split <;> exact ⟨rfl, rfl⟩
  · exact ⟨rfl, rfl⟩

theorem sameClose_settle (c : Conn) (tag : String) (sid : Nat) (err : Option Err) (endS : Bool) :
    SameClose c (settle c tag sid err endS).1 := by
  unfold settle
  simp only
  split
  · split
    · exact sameClose_finish _ _ _ _
    · exact ⟨rfl, rfl⟩
  · exact sameClose_finish _ _ _ _

theorem sameClose_dispatch (c : Conn) (f : Frame.Frame) : SameClose c (dispatch c f).1 := by
  obtain ⟨skd, skb, ske, hsk⟩ := skipHeaders_shape c f
  rw [dispatch_eq, hsk]
  split
  · exact ⟨rfl, rfl⟩
  · split
    · exact ⟨rfl, rfl⟩
    · split
      · exact ⟨rfl, rfl⟩
      · exact ((sameClose_prepare c f).trans (sameClose_readStream _ _ _ _)).trans (sameClose_settle _ _ _ _ _)

theorem sameClose_refuse (c : Conn) (sid : Nat) (tag : String) : SameClose c (refuse c sid tag) := by
  unfold refuse
  split
  · exact ⟨rfl, rfl⟩
  · split
    · exact ⟨rfl, rfl⟩
    · exact sameClose_finish _ _ _ _

theorem sameClose_refuseAbove (l : List (Nat × String)) : ∀ c : Conn, SameClose c (refuseAbove c l) := by
  induction l with
  | nil => intro c; exact ⟨rfl, rfl⟩
  | cons x xs ih =>
    intro c
    obtain ⟨sid, tag⟩ := x
    simp only [refuseAbove]
    split
    · exact (sameClose_refuse c sid tag).trans (ih _)
    · exact ih c

theorem sameClose_dispatchLoop (c : Conn) (f : Frame.Frame) : SameClose c (dispatchLoop c f).1 := by
  rw [dispatchLoop_eq]
  split
  · exact (sameClose_dispatch c f).trans (sameClose_refuseAbove _ _)
  · exact sameClose_dispatch c f

/-- a frame on a stream moves neither `closeRef` nor `stateClosed` -/
theorem sameClose_rdFrame (c : Conn) (f : Frame.Frame) (hs : f.stream ≠ 0) : SameClose c (rdFrame c f).1 := by
  have h0 : (f.stream == 0) = false := by simpa using hs
  simp only [rdFrame, h0, Bool.false_eq_true, if_false]
  split
  · obtain ⟨l, e⟩ := setLastErr_shape c (.h2conn Gen.c_ProtocolError); rw [e]; exact ⟨rfl, rfl⟩
  · obtain ⟨w, p, e⟩ := addWindow_shape c f.stream ‹Nat›
    refine SameClose.trans ?_ (sameClose_dispatchLoop _ f)
    rw [e]; exact ⟨rfl, rfl⟩
  · refine SameClose.trans ?_ (sameClose_dispatchLoop _ f)
    unfold consumeConnWindow; simp only; split <;> exact ⟨rfl, rfl⟩
  · exact sameClose_dispatchLoop c f

/-! ### the requests -/

theorem getReq_updReq_other' (c : Conn) (t tag : String) (f : Req → Req) (hf : ∀ r, r.tag = t → (f r).tag = t) (hne : tag ≠ t) :
    getReq (updReq c t f) tag = getReq c tag := by
  have hg : ∀ r : Req, ((fun r : Req => if r.tag == t then f r else r) r).tag = r.tag := by
    intro r; dsimp only; split
    · rename_i h; have h' : r.tag = t := by simpa using h
      rw [hf r h', h']
    · rfl
  rw [MapLe.getReq_map (c := c) (c' := updReq c t f) hg rfl]
  cases hq : getReq c tag with
  | none => rfl
  | some r =>
    have hrt : r.tag ≠ t := by rw [getReq_tag' hq]; exact hne
    simp [hrt]

theorem getReq_readStream_other (c : Conn) (tag : String) (r : Req) (f : Frame.Frame) (hr : r.tag = tag) (t : String)
    (hne : t ≠ tag) : getReq (readStream c tag r f).1 t = getReq c t := by
  have hdr : ∀ (c1 : Conn) (r' : Req), c1.reqs = c.reqs → r'.tag = r.tag →
      getReq (updReq c1 tag fun _ => r') t = getReq c t := by
    intro c1 r' e1 e2
    rw [getReq_updReq_other' c1 tag t _ (fun _ _ => e2.trans hr) hne]
    exact getReq_congr e1 t
  unfold readStream
  split
  · simp only
    split
    · exact hdr _ _ rfl (readHeader_le _ c.dec r false false 0 _).1
    · rfl
  · simp only
    split
    · exact hdr _ _ rfl (readHeader_le _ c.dec r false false 0 _).1
    · rfl
  · rfl
  · have h1 : ∀ d : Bytes, getReq
        (if (d.length != 0) = true then updReq c tag fun q => { q with body := q.body ++ d } else c) t = getReq c t := by
      intro d
      split
      · exact getReq_updReq_other' c tag t _ (fun _ h => h) hne
      · rfl
    simp only
    split
    · exact h1 _
    · exact h1 _
  · rfl

theorem getReq_settle_other (c : Conn) (tag : String) (sid : Nat) (err : Option Err) (endS : Bool) (t : String)
    (hne : t ≠ tag) : getReq (settle c tag sid err endS).1 t = getReq c t := by
  have hf : ∀ e, getReq (finish c tag sid e) t = getReq c t := by
    intro e; rw [getReq_finish', getReq_resolve_ne c tag t e hne]
  unfold settle
  simp only
  split
  · split
    · exact hf _
    · rfl
  · exact hf _

/-- `dispatch` changes no request but the one registered under the frame's stream -/
theorem getReq_dispatch_other (c : Conn) (f : Frame.Frame) (t : String) (h : lookupA c.reqQueued f.stream ≠ some t) :
    getReq (dispatch c f).1 t = getReq c t := by
  obtain ⟨skd, skb, ske, hsk⟩ := skipHeaders_shape c f
  rw [dispatch_eq, hsk]
  split
  · rfl
  · rename_i tag hl
    have hne : t ≠ tag := fun e => h (by rw [hl, e])
    split
    · rfl
    · rename_i r hr
      split
      · rfl
      · rw [getReq_settle_other _ _ _ _ _ t hne, getReq_readStream_other _ _ _ _ (getReq_tag' hr) t hne]
        obtain ⟨h, e⟩ := prepare_shape c f
        rw [e]; rfl

theorem dispatch_sub (c : Conn) (f : Frame.Frame) : (dispatch c f).1.reqQueued.Sublist c.reqQueued := by
  obtain ⟨skd, skb, ske, hsk⟩ := skipHeaders_shape c f
  rw [dispatch_eq, hsk]
  split
  · exact List.Sublist.refl _
  · split
    · exact List.Sublist.refl _
    · split
      · exact eraseA_sublist _ _
      · have h1 : (settle (readStream (prepare c f).1 ‹String› ‹Req› f).1 ‹String› f.stream
            (readStream (prepare c f).1 ‹String› ‹Req› f).2 (prepare c f).2).1.reqQueued.Sublist
            (readStream (prepare c f).1 ‹String› ‹Req› f).1.reqQueued := by
          unfold settle; simp only
          split
          · split
            · obtain ⟨o, hs⟩ := finish_shape (readStream (prepare c f).1 ‹String› ‹Req› f).1 ‹String› f.stream .ok
              rw [hs]; exact eraseA_sublist _ _
            · exact List.Sublist.refl _
          · rename_i e _
            obtain ⟨o, hs⟩ := finish_shape (readStream (prepare c f).1 ‹String› ‹Req› f).1 ‹String› f.stream e
            rw [hs]; exact eraseA_sublist _ _
        refine h1.trans ?_
        rw [readStream_reqQueued]
        obtain ⟨h, e⟩ := prepare_shape c f
        rw [e]
        exact List.Sublist.refl _

/-- **no cross-delivery, one frame**: a frame on stream `sid ≠ 0` leaves the request of every tag alone that is not
registered under `sid`, unless GOAWAY(last > 0) has come and the tag waits on a stream above `last` -/
theorem rdFrame_touches_only (c : Conn) (f : Frame.Frame) (hs : f.stream ≠ 0) (t : String)
    (h1 : lookupA c.reqQueued f.stream ≠ some t)
    (h2 : c.stateClosed = true → ∀ s, (s, t) ∈ c.reqQueued → s ≤ c.closeRef) :
    getReq (rdFrame c f).1 t = getReq c t := by
  have loop : ∀ c1 : Conn, c1.reqs = c.reqs → c1.reqQueued = c.reqQueued → c1.closeRef = c.closeRef →
      c1.stateClosed = c.stateClosed → getReq (dispatchLoop c1 f).1 t = getReq c t := by
    intro c1 e1 e2 e3 e4
    rw [dispatchLoop_eq]
    have hd : getReq (dispatch c1 f).1 t = getReq c t := by
      rw [getReq_dispatch_other c1 f t (by rw [e2]; exact h1)]; exact getReq_congr e1 t
    obtain ⟨k1, k2⟩ := sameClose_dispatch c1 f
    split
    · rename_i hc
      rw [k2, e4] at hc
      unfold afterGoAway
      rw [(refuseAbove_keeps t _ _ ?_).1, hd]
      intro p hp hg e
      have hp' : (p.1, t) ∈ c.reqQueued := by
        rw [← e2]; exact (dispatch_sub c1 f).subset (by rw [← e]; exact hp)
      have := h2 hc p.1 hp'
      rw [k1, e3] at hg
      omega
    · exact hd
  have h0 : (f.stream == 0) = false := by simpa using hs
  simp only [rdFrame, h0, Bool.false_eq_true, if_false]
  split
  · obtain ⟨l, e⟩ := setLastErr_shape c (.h2conn Gen.c_ProtocolError); rw [e]; rfl
  · obtain ⟨w, p, e⟩ := addWindow_shape c f.stream ‹Nat›
    rw [e]; exact loop _ rfl rfl rfl rfl
  · apply loop
    all_goals (unfold consumeConnWindow; simp only; split <;> rfl)
  · exact loop c rfl rfl rfl rfl

/-- all frames of the list are complete frames on streams that are not registered for `t` -/
def ForeignTo (c : Conn) (t : String) : List RdFrame → Prop
  | [] => True
  | .frame f :: fs => f.stream ≠ 0 ∧ (∀ s, (s, t) ∈ c.reqQueued → f.stream ≠ s) ∧ ForeignTo c t fs
  | _ :: _ => False

theorem rdFrame_sub (c : Conn) (f : Frame.Frame) (hk : Keys c) : (rdFrame c f).1.reqQueued.Sublist c.reqQueued :=
  (rdRel_rdFrame c f hk).sub

theorem ForeignTo.mono {c c' : Conn} {t : String} (hs : c'.reqQueued.Sublist c.reqQueued) :
    ∀ {fs : List RdFrame}, ForeignTo c t fs → ForeignTo c' t fs := by
  intro fs
  induction fs with
  | nil => intro _; trivial
  | cons x xs ih =>
    intro h
    cases x with
    | frame f => exact ⟨h.1, fun s hm => h.2.1 s (hs.subset hm), ih h.2.2⟩
    | unknown => exact h.elim
    | bad a b => exact h.elim

/-- **no cross-delivery, any number of frames** -/
theorem rdFrames_touches_only (t : String) (fs : List RdFrame) : ∀ c : Conn, Keys c → ForeignTo c t fs →
    (c.stateClosed = true → ∀ s, (s, t) ∈ c.reqQueued → s ≤ c.closeRef) →
    getReq (rdFrames fs c).1 t = getReq c t := by
  induction fs with
  | nil => intro c _ _ _; rfl
  | cons x xs ih =>
    intro c hk hf h2
    cases x with
    | unknown => exact hf.elim
    | bad a b => exact hf.elim
    | frame f =>
      obtain ⟨f1, f2, f3⟩ := hf
      rw [rdFrames_cons_frame]
      have one : getReq (rdFrame c f).1 t = getReq c t := by
        apply rdFrame_touches_only c f f1 t _ h2
        intro hl
        exact f2 _ (lookupA_mem hl) rfl
      split
      · rfl
      · split
        · exact one
        · have rr := rdRel_rdFrame c f hk
          obtain ⟨k1, k2⟩ := sameClose_rdFrame c f f1
          rw [ih _ (rr.keys hk) (f3.mono rr.sub) ?_, one]
          intro hc s hm
          rw [k1]
          exact h2 (by rw [← k2]; exact hc) s (rr.sub.subset hm)

/-- **no cross-delivery, one `bytes` event**: server octets that consist of complete frames on streams not registered for
`t` leave the request `t` exactly as it was, provided the step does not end the connection (a connection that ends
resolves every waiting request) and, once GOAWAY(last > 0) has come, `t` does not wait above `last` -/
theorem step_bytes_touches_only (c : Conn) (h : Inv c) (b : Bytes) (t : String)
    (hf : ForeignTo c t (bytesSplit c b).1)
    (h2 : c.stateClosed = true → ∀ s, (s, t) ∈ c.reqQueued → s ≤ c.closeRef)
    (hlive : ∃ fs, (step c (.bytes b)).2 = .frames fs) : getReq (step c (.bytes b)).1 t = getReq c t := by
  obtain ⟨fs, ho⟩ := hlive
  rw [step_bytes] at ho ⊢
  simp only [h.stuck, Bool.false_eq_true, if_false] at ho ⊢
  unfold stepBytes at ho ⊢
  have h0 : Inv { c with rdBuf := (bytesSplit c b).2 } := h.of_same rfl rfl rfl rfl rfl
  have hr : getReq (bytesRead c b).1 t = getReq c t :=
    rdFrames_touches_only t _ { c with rdBuf := (bytesSplit c b).2 } h0.keys
      (ForeignTo.mono (c := c) (c' := { c with rdBuf := (bytesSplit c b).2 }) (List.Sublist.refl _) hf) h2
  split at ho
  · cases ho
  rename_i k1; rw [if_neg k1]
  split at ho
  · cases ho
  rename_i k2; rw [if_neg k2]
  split at ho
  · cases ho
  rename_i k3; rw [if_neg k3]
  split at ho
  · cases ho
  rename_i k4; rw [if_neg k4]
  rcases afterWrites_cases (drain (bytesRead c b).1).1 (drain (bytesRead c b).1).2 with ⟨e, s, bd, hh⟩ | ⟨e, s, hh⟩
  · rw [hh]
    obtain ⟨p, w, a, hs⟩ := drain_shape (bytesRead c b).1
    rw [hs]; exact hr
  · rw [hh] at ho; cases ho

end H2.Client
