import H2.Client.Model
import H2.Client.Drv
/-!
# Runs of the FULL serial client model (`H2.Client.step`, the model the correspondence check compares with `conn.go`)

`run c evs` folds `step` over an event list and collects the outputs. Everything in the files
`ClientRun*.lean` is about this function, for EVERY event list (no bound on its length or contents).

This file: `run`, `AllSteps` (a predicate holds of every step of a run), the connection as the driver creates
it (`Init`, `handshake_init`), what each function of the model leaves alone ("shape" lemmas: a function's
result is its argument with a few named fields replaced, so every other field is untouched by `rfl`), and
the relation `MapLe c c'`: the requests of `c'` are those of `c`, each one evolved without its result being
replaced (`Req.Le`).
-/
namespace H2.Client

/-! ## runs -/

def run : Conn → List Event → Conn × List StepOut
  | c, [] => (c, [])
  | c, e :: es => ((run (step c e).1 es).1, (step c e).2 :: (run (step c e).1 es).2)

@[simp] theorem run_nil (c : Conn) : run c [] = (c, []) := rfl
@[simp] theorem run_cons (c : Conn) (e : Event) (es : List Event) :
    run c (e :: es) = ((run (step c e).1 es).1, (step c e).2 :: (run (step c e).1 es).2) := rfl

theorem run_append (es es' : List Event) : ∀ c : Conn,
    run c (es ++ es') = ((run (run c es).1 es').1, (run c es).2 ++ (run (run c es).1 es').2) := by
  induction es with
  | nil => intro c; rfl
  | cons e es ih => intro c; simp only [List.cons_append, run_cons, ih, List.cons_append]

/-- `P` holds of every step of the run of `evs` from `c`: state before, event, state after, output -/
def AllSteps (P : Conn → Event → Conn → StepOut → Prop) : Conn → List Event → Prop
  | _, [] => True
  | c, e :: es => P c e (step c e).1 (step c e).2 ∧ AllSteps P (step c e).1 es

/-- the way every run-level theorem is proved: an invariant of `step` that gives `P` at every step -/
theorem allSteps_of_inv {I : Conn → Prop} {P : Conn → Event → Conn → StepOut → Prop}
    (hstep : ∀ c e, I c → I (step c e).1) (hP : ∀ c e, I c → P c e (step c e).1 (step c e).2) :
    ∀ (evs : List Event) (c : Conn), I c → AllSteps P c evs := by
  intro evs
  induction evs with
  | nil => intro c _; trivial
  | cons e es ih => intro c hc; exact ⟨hP c e hc, ih _ (hstep c e hc)⟩

theorem run_inv {I : Conn → Prop} (hstep : ∀ c e, I c → I (step c e).1) :
    ∀ (evs : List Event) (c : Conn), I c → I (run c evs).1 := by
  intro evs
  induction evs with
  | nil => intro c h; exact h
  | cons e es ih => intro c hc; exact ih _ (hstep c e hc)

/-- `AllSteps` read at a position: the step taken after any prefix of the run -/
theorem AllSteps.at {P : Conn → Event → Conn → StepOut → Prop} :
    ∀ (pre : List Event) {c : Conn} {e : Event} {post : List Event}, AllSteps P c (pre ++ e :: post) →
      P (run c pre).1 e (step (run c pre).1 e).1 (step (run c pre).1 e).2 := by
  intro pre
  induction pre with
  | nil => intro c e post h; exact h.1
  | cons x xs ih => intro c e post h; exact ih h.2

/-! ## the connection as the driver creates it -/

/-- what `Drv.handshake` builds: nothing requested, nothing queued, alive, the windows of RFC 9113 6.9.2 -/
structure Init (c : Conn) : Prop where
  reqs : c.reqs = []
  nextID : c.nextID = 1
  openStreams : c.openStreams = 0
  connWindow : c.connWindow = 65535
  pending : c.pending = []
  reqQueued : c.reqQueued = []
  goAway : c.goAway = false
  stateClosed : c.stateClosed = false
  closeRef : c.closeRef = 0
  dead : c.dead = false
  stuck : c.stuck = false
  outQ : c.outQ = []
  winTok : c.winTok = false
  rdBuf : c.rdBuf = []
  hdrBlock : c.hdrBlock = []
  lastErr : c.lastErr = none
  wbudget : c.wbudget = none

theorem init_default : Init {} := by constructor <;> rfl

theorem handshake_init {b : Bytes} {c : Conn} (h : Drv.handshake b = some c) : Init c := by
  unfold Drv.handshake at h
  repeat' split at h
  all_goals first
    | (simp only [Option.some.injEq] at h; subst h; constructor <;> rfl)
    | cases h

/-! ## shapes: which fields a function can change -/

theorem setLastErr_shape (c : Conn) (e : Err) : ∃ l, setLastErr c e = { c with lastErr := l } := by
  unfold setLastErr; split
  · exact ⟨c.lastErr, rfl⟩
  · exact ⟨_, rfl⟩

/-- `skipHeaders` touches the decoder and the header block in progress, nothing else -/
theorem skipHeaders_shape (c : Conn) (f : Frame.Frame) :
    ∃ d b e, skipHeaders c f = { c with dec := d, hdrBlock := b, hdrEndStream := e } := by
  unfold skipHeaders
  split
  · simp only; split
    · exact ⟨_, _, _, rfl⟩
    · exact ⟨c.dec, _, c.hdrEndStream, rfl⟩
  · simp only; split
    · exact ⟨_, _, _, rfl⟩
    · exact ⟨c.dec, _, c.hdrEndStream, rfl⟩
  · exact ⟨c.dec, c.hdrBlock, c.hdrEndStream, rfl⟩

theorem sendPending_shape (fuel : Nat) : ∀ (c : Conn) (sid : Nat),
    ∃ p w q, (sendPending fuel c sid).1 = { c with pending := p, connWindow := w, outQ := q } := by
  induction fuel with
  | zero => intro c sid; exact ⟨_, _, _, rfl⟩
  | succ k ih =>
    intro c sid
    simp only [sendPending]
    split
    · exact ⟨_, _, _, rfl⟩
    · split
      · split
        · exact ⟨_, _, _, rfl⟩
        · obtain ⟨p, w, q, h⟩ := ih { c with pending := insertA c.pending sid _ } sid
          exact ⟨p, w, q, h⟩
      · split
        · exact ⟨_, _, _, rfl⟩
        · split
          · exact ⟨_, _, _, rfl⟩
          · split
            · exact ⟨_, _, _, rfl⟩
            · split
              · exact ⟨_, _, _, rfl⟩
              · obtain ⟨p, w, q, h⟩ := ih { c with connWindow := _, pending := _ } sid
                exact ⟨p, w, q, h⟩

theorem flushFold_shape (l : List Nat) : ∀ (acc : Conn × List OutFrame),
    ∃ p w q, (l.foldl (fun (acc : Conn × List OutFrame) sid =>
      ((sendPending 100000 acc.1 sid).1, acc.2 ++ (sendPending 100000 acc.1 sid).2)) acc).1 =
      { acc.1 with pending := p, connWindow := w, outQ := q } := by
  induction l with
  | nil => intro acc; exact ⟨_, _, _, rfl⟩
  | cons x xs ih =>
    intro acc
    simp only [List.foldl_cons]
    obtain ⟨p, w, q, h⟩ := ih ((sendPending 100000 acc.1 x).1, acc.2 ++ (sendPending 100000 acc.1 x).2)
    obtain ⟨p', w', q', h'⟩ := sendPending_shape 100000 acc.1 x
    rw [h]; simp only [h']
    exact ⟨_, _, _, rfl⟩

/-- `flushPending` written with projections (the model uses a destructuring `let`) -/
theorem flushPending_eq (c : Conn) :
    flushPending c = ((if flushAmbiguous c then { c with ambiguous := true } else c).pending.map (·.1)).foldl
      (fun (acc : Conn × List OutFrame) sid =>
        ((sendPending 100000 acc.1 sid).1, acc.2 ++ (sendPending 100000 acc.1 sid).2))
      (if flushAmbiguous c then { c with ambiguous := true } else c, []) := rfl

theorem flushPending_shape (c : Conn) :
    ∃ p w q a, (flushPending c).1 = { c with pending := p, connWindow := w, outQ := q, ambiguous := a } := by
  rw [flushPending_eq]
  obtain ⟨p, w, q, h⟩ := flushFold_shape
    ((if flushAmbiguous c then { c with ambiguous := true } else c).pending.map (·.1))
    (if flushAmbiguous c then { c with ambiguous := true } else c, [])
  rw [h]
  split
  · exact ⟨_, _, _, _, rfl⟩
  · exact ⟨_, _, _, c.ambiguous, rfl⟩

/-- `drain` written with projections -/
theorem drain_eq (c : Conn) :
    drain c = (if c.winTok then
        ({ (flushPending { c with outQ := [], winTok := false }).1 with outQ := [] },
          c.outQ ++ (flushPending { c with outQ := [], winTok := false }).2 ++
            (flushPending { c with outQ := [], winTok := false }).1.outQ)
      else ({ c with outQ := [] }, c.outQ ++ [] ++ [])) := by
  cases h : c.winTok <;> simp [drain, h]

theorem drain_shape (c : Conn) :
    ∃ p w a, (drain c).1 = { c with pending := p, connWindow := w, outQ := [], ambiguous := a, winTok := false } := by
  rw [drain_eq]
  split
  · obtain ⟨p, w, q, a, h⟩ := flushPending_shape { c with outQ := [], winTok := false }
    simp only [h]
    exact ⟨_, _, _, rfl⟩
  · rename_i h
    have : c.winTok = false := by simpa using h
    exact ⟨c.pending, c.connWindow, c.ambiguous, by simp only [← this]⟩

theorem encodeHeaders_shape (c : Conn) (fields : List (Bytes × Bytes)) :
    ∃ e, (encodeHeaders c fields).1 = { c with enc := e, encTableSet := false } := ⟨_, rfl⟩

theorem wireBytes_shape (fs : List OutFrame) : ∀ c : Conn,
    ∃ e s, (wireBytes c fs).1 = { c with enc := e, encTableSet := s } := by
  induction fs with
  | nil => intro c; exact ⟨c.enc, c.encTableSet, rfl⟩
  | cons f fs ih =>
    intro c
    cases f with
    | headers sid es fields =>
      simp only [wireBytes]
      obtain ⟨e, s, h⟩ := ih (encodeHeaders c fields).1
      rw [h]; exact ⟨_, _, rfl⟩
    | hfrag sid es len => simp only [wireBytes]; exact ih c
    | cont sid eh len fl => simp only [wireBytes]; exact ih c
    | data sid len es => simp only [wireBytes]; exact ih c
    | rst sid code => simp only [wireBytes]; exact ih c
    | settingsAck => simp only [wireBytes]; exact ih c
    | ping a d => simp only [wireBytes]; exact ih c
    | windowUpdate sid inc => simp only [wireBytes]; exact ih c

theorem applyPairs_shape (ps : List (Nat × Nat)) : ∀ c : Conn,
    ∃ a b d, applyPairs c ps = { c with srvTableSize := a, maxStreams := b, maxFrameSize := d } := by
  induction ps with
  | nil => intro c; exact ⟨_, _, _, rfl⟩
  | cons p ps ih =>
    intro c
    obtain ⟨k, v⟩ := p
    simp only [applyPairs]
    split
    · obtain ⟨a, b, d, h⟩ := ih { c with srvTableSize := v }; rw [h]; exact ⟨_, _, _, rfl⟩
    · split
      · obtain ⟨a, b, d, h⟩ := ih { c with maxStreams := v }; rw [h]; exact ⟨_, _, _, rfl⟩
      · split
        · obtain ⟨a, b, d, h⟩ := ih { c with maxFrameSize := v }; rw [h]; exact ⟨_, _, _, rfl⟩
        · exact ih c

theorem noteTableSizes_shape (ps : List (Nat × Nat)) : ∀ c : Conn,
    ∃ a b d, noteTableSizes c ps = { c with encTableMin := a, encTableSize := b, encTableSet := d } := by
  induction ps with
  | nil => intro c; exact ⟨_, _, _, rfl⟩
  | cons p ps ih =>
    intro c
    obtain ⟨k, v⟩ := p
    simp only [noteTableSizes]
    split
    · obtain ⟨a, b, d, h⟩ := ih { c with encTableMin := _, encTableSize := v, encTableSet := true }
      rw [h]; exact ⟨_, _, _, rfl⟩
    · exact ih c

theorem handleSettings_eq (c : Conn) (s : Frame.SettingsVal) :
    handleSettings c s = queueOut (if s.hasWindowSize then
        applyInitialWindow (noteTableSizes (applyPairs c s.pairs) s.pairs) s.windowSize
      else noteTableSizes (applyPairs c s.pairs) s.pairs) .settingsAck := rfl

/-- `handleSettings`: the values of the frame, the windows of the bodies that wait, and an acknowledgement queued -/
theorem handleSettings_shape (c : Conn) (s : Frame.SettingsVal) :
    ∃ a b d e f g sw p w, handleSettings c s =
      { c with srvTableSize := a, maxStreams := b, maxFrameSize := d, encTableMin := e, encTableSize := f,
               encTableSet := g, streamWindow := sw, pending := p, winTok := w, outQ := c.outQ ++ [.settingsAck] } := by
  rw [handleSettings_eq]
  obtain ⟨a, b, d, h1⟩ := applyPairs_shape s.pairs c
  rw [h1]
  obtain ⟨e, f, g, h2⟩ := noteTableSizes_shape s.pairs { c with srvTableSize := a, maxStreams := b, maxFrameSize := d }
  rw [h2]
  simp only [applyInitialWindow, queueOut]
  split
  · exact ⟨_, _, _, _, _, _, _, _, _, rfl⟩
  · exact ⟨_, _, _, _, _, _, c.streamWindow, c.pending, c.winTok, rfl⟩

/-! ## requests evolve, results are never replaced -/

/-- what anything but the caller's own `read` and `writeRequest` can do to a request: the identity of the request,
whether its caller has read it and whether the caller has taken it back stay, and so does the stream it is on; a result
that is waiting (or was taken) is not replaced -/
structure Req.Le (r r' : Req) : Prop where
  tag : r'.tag = r.tag
  read : r'.read = r.read
  done : r'.done = r.done
  keep : (r.done = true ∨ r.errBuf.isSome = true) → r'.errBuf = r.errBuf
  sid : r'.sid = r.sid
  hasConn : r'.hasConn = r.hasConn
  streamed : r'.streamed = r.streamed

theorem Req.Le.refl (r : Req) : Req.Le r r := ⟨rfl, rfl, rfl, fun _ => rfl, rfl, rfl, rfl⟩

theorem Req.Le.trans {a b c : Req} (h1 : Req.Le a b) (h2 : Req.Le b c) : Req.Le a c := by
  refine ⟨h2.tag.trans h1.tag, h2.read.trans h1.read, h2.done.trans h1.done, ?_, h2.sid.trans h1.sid,
    h2.hasConn.trans h1.hasConn, h2.streamed.trans h1.streamed⟩
  intro h
  have e1 := h1.keep h
  have : b.done = true ∨ b.errBuf.isSome = true := by
    rcases h with h | h
    · left; rw [h1.done]; exact h
    · right; rw [e1]; exact h
  exact (h2.keep this).trans e1

/-- **`Ctx.resolve` never overwrites** (what the model does, exactly): a request whose caller has taken it back
(`done`) or that holds a result (`errBuf`) is returned unchanged; otherwise the result is stored -/
theorem Req.resolve_spec (r : Req) (e : Err) :
    ((r.done = true ∨ r.errBuf.isSome = true) → r.resolve e = r) ∧
    ((r.done = false ∧ r.errBuf = none) → r.resolve e = { r with errBuf := some e }) := by
  unfold Req.resolve
  constructor
  · intro h
    have : (r.done || r.errBuf.isSome) = true := by simpa using h
    simp [this]
  · intro h
    simp [h.1, h.2]

theorem Req.resolve_le (r : Req) (e : Err) : Req.Le r (r.resolve e) := by
  unfold Req.resolve
  split
  · exact Req.Le.refl r
  · rename_i h
    refine ⟨rfl, rfl, rfl, ?_, rfl, rfl, rfl⟩
    intro h'
    exfalso; apply h; simpa using h'

theorem Req.resolve_settled' (r : Req) (e : Err) : (r.resolve e).done = true ∨ (r.resolve e).errBuf.isSome = true := by
  unfold Req.resolve
  split
  · rename_i h; simpa using h
  · right; rfl

/-- the first request of the list that carries its tag: the one `getReq` finds -/
def First (c : Conn) (r : Req) : Prop := getReq c r.tag = some r

theorem find_map_tag (l : List Req) (g : Req → Req) (hg : ∀ r, (g r).tag = r.tag) (t : String) :
    (l.map g).find? (fun r => r.tag == t) = (l.find? fun r => r.tag == t).map g := by
  induction l with
  | nil => rfl
  | cons x xs ih =>
    simp only [List.map_cons, List.find?_cons, hg]
    cases (x.tag == t)
    · exact ih
    · rfl

theorem getReq_tag' {c : Conn} {t : String} {r : Req} (h : getReq c t = some r) : r.tag = t := by
  have := List.find?_some h
  simpa using this

theorem first_of_getReq {c : Conn} {t : String} {r : Req} (h : getReq c t = some r) : First c r := by
  unfold First; rw [getReq_tag' h]; exact h

/-- the requests of `c'` are those of `c`, in the same order, each evolved by a function that keeps tags and, on the
request `getReq` finds under a tag, replaces no result -/
def MapLe (c c' : Conn) : Prop :=
  ∃ g : Req → Req, (∀ r, (g r).tag = r.tag) ∧ (∀ r, First c r → Req.Le r (g r)) ∧ c'.reqs = c.reqs.map g

theorem MapLe.of_reqs {c c' : Conn} (h : c'.reqs = c.reqs) : MapLe c c' :=
  ⟨id, fun _ => rfl, fun r _ => Req.Le.refl r, by simpa using h⟩

theorem MapLe.refl (c : Conn) : MapLe c c := MapLe.of_reqs rfl

theorem MapLe.getReq_map {c c' : Conn} {g : Req → Req} (hg : ∀ r, (g r).tag = r.tag) (h : c'.reqs = c.reqs.map g)
    (t : String) : getReq c' t = (getReq c t).map g := by
  unfold getReq; rw [h]; exact find_map_tag _ g hg t

theorem MapLe.trans {a b c : Conn} (h1 : MapLe a b) (h2 : MapLe b c) : MapLe a c := by
  obtain ⟨g1, t1, l1, e1⟩ := h1
  obtain ⟨g2, t2, l2, e2⟩ := h2
  refine ⟨g2 ∘ g1, fun r => (t2 _).trans (t1 r), ?_, by rw [e2, e1, List.map_map]⟩
  intro r hr
  have hb : First b (g1 r) := by
    unfold First
    rw [MapLe.getReq_map t1 e1, t1 r]
    unfold First at hr
    rw [hr]; rfl
  exact (l1 r hr).trans (l2 _ hb)

/-- the tags, in order, are the same -/
theorem MapLe.tags {c c' : Conn} (h : MapLe c c') : c'.reqs.map (·.tag) = c.reqs.map (·.tag) := by
  obtain ⟨g, t, _, e⟩ := h
  rw [e, List.map_map]
  apply List.map_congr_left
  intro r _; exact t r

/-- what `MapLe` says about the request found under a tag -/
theorem MapLe.get {c c' : Conn} (h : MapLe c c') (t : String) :
    (getReq c t = none ∧ getReq c' t = none) ∨
    ∃ r r', getReq c t = some r ∧ getReq c' t = some r' ∧ Req.Le r r' := by
  obtain ⟨g, tg, l, e⟩ := h
  rw [MapLe.getReq_map tg e]
  cases hq : getReq c t with
  | none => left; exact ⟨rfl, rfl⟩
  | some r => right; exact ⟨r, g r, rfl, rfl, l r (first_of_getReq hq)⟩

theorem mapLe_updReq (c : Conn) (tag : String) (f : Req → Req) (hf : ∀ r, r.tag = tag → (f r).tag = tag)
    (hl : ∀ r, getReq c tag = some r → Req.Le r (f r)) : MapLe c (updReq c tag f) := by
  refine ⟨fun r => if r.tag == tag then f r else r, ?_, ?_, rfl⟩
  · intro r
    by_cases h : r.tag = tag
    · simp only [h, beq_self_eq_true, if_true]; exact hf r h
    · have : (r.tag == tag) = false := by simpa using h
      simp [this]
  · intro r hr
    by_cases h : r.tag = tag
    · simp only [h, beq_self_eq_true, if_true]
      apply hl; unfold First at hr; rw [h] at hr; exact hr
    · have : (r.tag == tag) = false := by simpa using h
      simp only [this]; exact Req.Le.refl r

theorem mapLe_resolve (c : Conn) (tag : String) (e : Err) : MapLe c (resolve c tag e) :=
  mapLe_updReq c tag _ (fun r h => (Req.resolve_le r e).tag.trans h) (fun r _ => Req.resolve_le r e)

@[simp] theorem takeReq_reqs (c : Conn) (sid : Nat) : (takeReq c sid).reqs = c.reqs := by
  unfold takeReq; split <;> rfl

theorem mapLe_finish (c : Conn) (tag : String) (sid : Nat) (e : Err) : MapLe c (finish c tag sid e) := by
  unfold finish
  exact (MapLe.of_reqs (c := c) (c' := deletePending (takeReq c sid) sid) (by simp [deletePending])).trans
    (mapLe_resolve _ tag e)

theorem fieldStep_le {r : Req} {a b : Bool} {k v : Bytes} {r' : Req} {rs ss : Bool}
    (h : fieldStep r a b k v = some (r', rs, ss)) :
    r'.tag = r.tag ∧ r'.read = r.read ∧ r'.done = r.done ∧ r'.errBuf = r.errBuf ∧ r'.sid = r.sid ∧
    r'.streamed = r.streamed ∧ r'.hasConn = r.hasConn := by
  unfold fieldStep at h
  repeat' split at h
  all_goals (cases h; try exact ⟨rfl, rfl, rfl, rfl, rfl, rfl, rfl⟩)

theorem readHeader_le (fuel : Nat) : ∀ (st : Hpack.DecState) (r : Req) (a b : Bool) (nf : Nat) (bs : Bytes),
    (readHeader fuel st r a b nf bs).2.1.tag = r.tag ∧ (readHeader fuel st r a b nf bs).2.1.read = r.read ∧
    (readHeader fuel st r a b nf bs).2.1.done = r.done ∧ (readHeader fuel st r a b nf bs).2.1.errBuf = r.errBuf ∧
    (readHeader fuel st r a b nf bs).2.1.sid = r.sid ∧ (readHeader fuel st r a b nf bs).2.1.streamed = r.streamed ∧
    (readHeader fuel st r a b nf bs).2.1.hasConn = r.hasConn := by
  induction fuel with
  | zero => intros; exact ⟨rfl, rfl, rfl, rfl, rfl, rfl, rfl⟩
  | succ k ih =>
    intro st r a b nf bs
    simp only [readHeader]
    split
    · exact ⟨rfl, rfl, rfl, rfl, rfl, rfl, rfl⟩
    · split <;> try exact ⟨rfl, rfl, rfl, rfl, rfl, rfl, rfl⟩
      split
      · exact ⟨rfl, rfl, rfl, rfl, rfl, rfl, rfl⟩
      · rename_i hfs
        obtain ⟨h1, h2, h3, h4, h5, h6, h7⟩ := fieldStep_le hfs
        obtain ⟨i1, i2, i3, i4, i5, i6, i7⟩ := ih _ _ _ _ _ _
        exact ⟨i1.trans h1, i2.trans h2, i3.trans h3, i4.trans h4, i5.trans h5, i6.trans h6, i7.trans h7⟩

end H2.Client
