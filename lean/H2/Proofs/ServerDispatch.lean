import H2.Proofs.ServerExt
/-!
Lemmas about the full server model used by C01: where a request is handed to the handler, and that the
response starts with exactly one HEADERS frame.
-/
namespace H2.Server

/-- the handler is started only for a stream whose request is complete (END_STREAM seen: half-closed; header
block finished) and which has not been handed over before; that stream is marked, so it cannot be handed over
again -/
theorem dispatchOrSend_dispatch (r : R) (uid : Nat) (st : Strm) :
    cnt .dispatch (dispatchOrSend r uid st).out = cnt .dispatch r.out +
      (if st.state == .halfClosed && st.headersFinished && !st.responded &&
          !(st.hasCL && (st.recvBody : Int) != st.contentLength) then 1 else 0) := by
  simp only [dispatchOrSend]
  repeat' split
  all_goals simp_all [Out.kind, dispatch, sendData_cnt .dispatch (by decide)]

/-- a stream that has been handed over is never handed over again by this step -/
theorem no_second_dispatch (r : R) (uid : Nat) (st : Strm) (h : st.responded = true) :
    cnt .dispatch (dispatchOrSend r uid st).out = cnt .dispatch r.out := by
  rw [dispatchOrSend_dispatch]; simp [h]

/-- nothing but `dispatchOrSend` starts a handler: the other pieces of the loop body never emit a dispatch -/
theorem others_never_dispatch (r : R) (uid : Nat) (fr : Frame.Frame) (wc : Bool) (e : Option SErr) :
    cnt .dispatch (unknownStream r fr wc).1.out = cnt .dispatch r.out ∧
    cnt .dispatch (headersPrelude r fr).1.out = cnt .dispatch r.out ∧
    cnt .dispatch (handleFrame r uid fr).1.out = cnt .dispatch r.out ∧
    cnt .dispatch (onFrameError r uid e).1.out = cnt .dispatch r.out ∧
    cnt .dispatch (flushStreams r).out = cnt .dispatch r.out :=
  ⟨unknownStream_cnt _ (by decide) _ _ _, headersPrelude_cnt _ (by decide) _ _, handleFrame_cnt _ (by decide) _ _ _,
   onFrameError_cnt _ (by decide) _ _ _, flushStreams_cnt _ (by decide) _⟩

/-- a handler's completion is answered with exactly one HEADERS frame (when the stream is still there); what does not fit
into it follows in CONTINUATION frames (`writeHeaderBlock`) -/
theorem finishRequest_headers (r : R) (uid : Nat) (resp : Resp) (st : Strm) (h : r.getStrm uid = some st) :
    cnt .headers (finishRequest r uid resp).1.out = cnt .headers r.out + 1 := by
  simp only [finishRequest, h]
  repeat' split
  all_goals simp [sendData_cnt .headers (by decide), responseHeaders, Out.kind]
  all_goals (split <;> simp [cnt_blockOuts])

end H2.Server
