import H2.Server.Abs.Closing
/-!
The GOAWAY protocol with `goAwayMu` (F64 repaired): for every interleaving of any number of outside writers with
the stream loop, every GOAWAY covers what was dispatched before it and nothing is dispatched after the first one.
-/
namespace H2.Server.Abs.Closing.Locked

structure Inv (s : LSt) : Prop where
  ok : ∃ m g, s.trace.foldl ck (some (0, false)) = some (m, g) ∧ m ≤ s.lastID ∧
        (g = true → s.closing = true ∨ ∃ i, s.holder = some i ∧ s.pc i = 3)
  held : ∀ i, s.holder = some i → 1 ≤ s.pc i ∧ s.pc i ≤ 4 ∧ (2 ≤ s.pc i → s.loaded i = s.lastID)
  free : ∀ i, s.holder ≠ some i → s.pc i = 0 ∨ 5 ≤ s.pc i

theorem inv_init : Inv {} :=
  ⟨⟨0, false, rfl, Nat.le_refl _, by simp⟩, by simp, by simp⟩

theorem upd_same (f : Nat → Nat) (i v : Nat) : upd f i v i = v := by simp [upd]
theorem upd_other (f : Nat → Nat) (i v j : Nat) (h : j ≠ i) : upd f i v j = f j := by simp [upd, h]

theorem step_inv (s : LSt) (a : Act) (h : Inv s) : Inv (lstep s a) := by
  obtain ⟨⟨m, g, hf, hm, hg⟩, hheld, hfree⟩ := h
  cases a with
  | slHeaders id =>
    simp only [lstep]
    split
    · exact ⟨⟨m, g, hf, hm, hg⟩, hheld, hfree⟩
    · rename_i hnone
      have hn : s.holder = none := by
        cases hh : s.holder with
        | none => rfl
        | some j => simp [hh] at hnone
      split
      · refine ⟨⟨m, g, ?_, hm, hg⟩, hheld, hfree⟩
        simp [List.foldl_append, hf, ck]
      · rename_i hcl
        split
        · exact ⟨⟨m, g, hf, hm, hg⟩, hheld, hfree⟩
        · rename_i hid
          have hgf : g = false := by
            cases g with
            | false => rfl
            | true =>
              rcases hg rfl with hc | ⟨i, hi, _⟩
              · exact absurd hc hcl
              · rw [hn] at hi; cases hi
          subst hgf
          refine ⟨⟨max m id, false, ?_, ?_, by simp⟩, ?_, ?_⟩
          · simp [List.foldl_append, hf, ck]
          · show max m id ≤ id
            omega
          · intro i hi; rw [hn] at hi; cases hi
          · intro i hi; exact hfree i hi
  | w i strm =>
    simp only [lstep]
    split
    · -- pc i = 0
      rename_i hpc
      split
      · exact ⟨⟨m, g, hf, hm, hg⟩, hheld, hfree⟩
      · rename_i hnone
        have hn : s.holder = none := by
          cases hh : s.holder with
          | none => rfl
          | some j => simp [hh] at hnone
        refine ⟨⟨m, g, hf, hm, ?_⟩, ?_, ?_⟩
        · intro hgt
          rcases hg hgt with hc | ⟨j, hj, _⟩
          · exact Or.inl hc
          · rw [hn] at hj; cases hj
        · intro j hj
          simp only [Option.some.injEq] at hj
          subst hj
          simp [upd_same]
        · intro j hj
          have hji : j ≠ i := fun e => hj (by simp [e])
          simp only [upd_other _ _ _ _ hji]
          exact hfree j (by rw [hn]; simp)
    · -- pc i = 1
      rename_i hpc
      have hi : s.holder = some i := by
        by_cases hh : s.holder = some i
        · exact hh
        · rcases hfree i hh with h0 | h5 <;> omega
      refine ⟨⟨m, g, hf, hm, ?_⟩, ?_, ?_⟩
      · intro hgt
        rcases hg hgt with hc | ⟨j, hj, hj3⟩
        · exact Or.inl hc
        · rw [hi] at hj; cases hj; omega
      · intro j hj
        rw [hi] at hj; cases hj
        simp [upd_same]
      · intro j hj
        have hji : j ≠ i := fun e => hj (by rw [hi, e])
        simp only [upd_other _ _ _ _ hji]
        exact hfree j hj
    · -- pc i = 2
      rename_i hpc
      have hi : s.holder = some i := by
        by_cases hh : s.holder = some i
        · exact hh
        · rcases hfree i hh with h0 | h5 <;> omega
      have hl : s.loaded i = s.lastID := (hheld i hi).2.2 (by omega)
      refine ⟨⟨m, true, ?_, hm, ?_⟩, ?_, ?_⟩
      · have : ¬ max (s.loaded i) strm < m := by rw [hl]; omega
        simp [List.foldl_append, hf, ck, this]
      · intro _; exact Or.inr ⟨i, hi, by simp [upd_same]⟩
      · intro j hj
        rw [hi] at hj; cases hj
        simp only [upd_same]
        exact ⟨by omega, by omega, fun _ => hl⟩
      · intro j hj
        have hji : j ≠ i := fun e => hj (by rw [hi, e])
        simp only [upd_other _ _ _ _ hji]
        exact hfree j hj
    · -- pc i = 3
      rename_i hpc
      have hi : s.holder = some i := by
        by_cases hh : s.holder = some i
        · exact hh
        · rcases hfree i hh with h0 | h5 <;> omega
      have hl : s.loaded i = s.lastID := (hheld i hi).2.2 (by omega)
      refine ⟨⟨m, g, hf, hm, fun _ => Or.inl rfl⟩, ?_, ?_⟩
      · intro j hj
        rw [hi] at hj; cases hj
        simp only [upd_same]
        exact ⟨by omega, by omega, fun _ => hl⟩
      · intro j hj
        have hji : j ≠ i := fun e => hj (by rw [hi, e])
        simp only [upd_other _ _ _ _ hji]
        exact hfree j hj
    · -- pc i = 4
      rename_i hpc
      have hi : s.holder = some i := by
        by_cases hh : s.holder = some i
        · exact hh
        · rcases hfree i hh with h0 | h5 <;> omega
      refine ⟨⟨m, g, hf, hm, ?_⟩, ?_, ?_⟩
      · intro hgt
        rcases hg hgt with hc | ⟨j, hj, hj3⟩
        · exact Or.inl hc
        · rw [hi] at hj; cases hj; omega
      · intro j hj; cases hj
      · intro j _
        by_cases hji : j = i
        · subst hji; simp [upd_same]
        · simp only [upd_other _ _ _ _ hji]
          exact hfree j (fun e => hji (by rw [hi] at e; cases e; rfl))
    · exact ⟨⟨m, g, hf, hm, hg⟩, hheld, hfree⟩

theorem run_inv (acts : List Act) : ∀ s, Inv s → Inv (lrun s acts) := by
  induction acts with
  | nil => intro s h; exact h
  | cons a as ih => intro s h; exact ih _ (step_inv s a h)

theorem run_truth (acts : List Act) : Truth (lrun {} acts).trace := by
  obtain ⟨m, g, hf, _, _⟩ := (run_inv acts {} inv_init).ok
  unfold Truth
  rw [hf]
  rfl

end H2.Server.Abs.Closing.Locked
