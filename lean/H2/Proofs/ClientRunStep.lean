import H2.Proofs.ClientRunRel
/-!
# Full serial client model: `step` event by event, and the invariant `Inv` of its reachable states

`step_req`, `step_bytes`, `step_timeout` restate the branches of `H2.Client.step` with projections.
`Inv c` is what every run-level theorem of the `ClientRun*` files starts from: the model never marks the
connection `stuck`; every request is settled or waits in the table (`Covered`); a dead connection has an empty
table; stream ids of the table are distinct and below `nextID`; a request's `read`/`done`/`errBuf` are
consistent; a stream id that a request claims is registered for that request's tag.
`step_inv`: `Inv` is preserved by every event; `init_inv`: it holds of the connection the driver creates.
-/
namespace H2.Client

/-! ## the branches of `step` -/

def bytesSplit (c : Conn) (b : Bytes) : List RdFrame × Bytes :=
  splitFrames (b.length + c.rdBuf.length + 1) (c.rdBuf ++ b)

/-- the connection when the read loop has gone through the frames of the event -/
def bytesRead (c : Conn) (b : Bytes) : Conn × Bool :=
  rdFrames (bytesSplit c b).1 { c with rdBuf := (bytesSplit c b).2 }

def bytesOver (c : Conn) (b : Bytes) : Bool :=
  match (bytesRead c b).1.wbudget with
  | some bd => (wireBytes (drain (bytesRead c b).1).1 (drain (bytesRead c b).1).2).2 > bd
  | none => false

def stepBytes (c : Conn) (b : Bytes) : Conn × StepOut :=
  if c.dead then (c, .dead) else
  if (bytesRead c b).1.stuck then ((bytesRead c b).1, .stuck)
  else if bytesOver c b && racyAfterEnqueue (bytesSplit c b).1 { c with rdBuf := (bytesSplit c b).2 } then
    ({ die (bytesRead c b).1 with ambiguous := true }, .dead)
  else if (bytesRead c b).2 then (die (bytesRead c b).1, .dead)
  else afterWrites (drain (bytesRead c b).1).1 (drain (bytesRead c b).1).2

theorem step_bytes (c : Conn) (b : Bytes) : step c (.bytes b) = if c.stuck then (c, .stuck) else stepBytes c b := by
  simp only [step, stepBytes, bytesOver, bytesRead, bytesSplit]
  split
  · rfl
  · split
    · rfl
    · rfl

/-- the request as `Write` registers it with the connection -/
def withReq (c : Conn) (tag : String) : Conn := { c with reqs := c.reqs ++ [{ tag := tag }] }

def stepReq (c : Conn) (r : ReqSpec) : Conn × StepOut :=
  if c.dead then (resolve (withReq c r.tag) r.tag (c.lastErr.getD .connClosed), .dead)
  else afterWrites (drain (writeRequest (withReq c r.tag) r).1).1
    ((writeRequest (withReq c r.tag) r).2 ++ (drain (writeRequest (withReq c r.tag) r).1).2)

theorem step_req (c : Conn) (r : ReqSpec) : step c (.req r) = if c.stuck then (c, .stuck) else stepReq c r := by
  simp only [step, stepReq, withReq]

def stepTimeout (c : Conn) (tag : String) : Conn × StepOut :=
  match getReq c tag with
  | none => (c, .frames [])
  | some r =>
    if !r.hasConn || r.sid == 0 then (resolve c tag .timeout, if c.dead then .dead else .frames [])
    else if c.dead then (takeReq (deletePending (resolve c tag .timeout) r.sid) r.sid, .dead)
    else afterWrites (takeReq (deletePending (resolve c tag .timeout) r.sid) r.sid) [.rst r.sid Gen.c_StreamCanceled]

theorem resolve_dead (c : Conn) (tag : String) (e : Err) : (resolve c tag e).dead = c.dead := rfl

theorem takeReq_dead (c : Conn) (sid : Nat) : (takeReq c sid).dead = c.dead := by
  obtain ⟨o, h⟩ := takeReq_shape c sid; rw [h]

theorem step_timeout (c : Conn) (tag : String) :
    step c (.timeout tag) = if c.stuck then (c, .stuck) else stepTimeout c tag := by
  simp only [step, stepTimeout]
  split
  · rfl
  · cases getReq c tag with
    | none => rfl
    | some r =>
      simp only [resolve_dead, takeReq_dead, deletePending]
      split <;> rfl

/-- the caller's `read` takes the result out of the request -/
def markRead (q : Req) : Req := { q with errBuf := none, done := true, read := true }

theorem step_read (c : Conn) (tag : String) :
    step c (.read tag) = match getReq c tag with
      | none => (c, .readRes none)
      | some r =>
        if r.read then (c, .readAgain)
        else match r.errBuf with
          | none => (c, .readRes none)
          | some e => (updReq c tag markRead, .readRes (some (e, r))) := by
  simp only [step]
  rfl

theorem step_read_cases' (c : Conn) (tag : String) :
    step c (.read tag) = (c, .readRes none) ∨ step c (.read tag) = (c, .readAgain) ∨
    ∃ e r, step c (.read tag) = (updReq c tag markRead, .readRes (some (e, r))) := by
  rw [step_read]
  cases getReq c tag with
  | none => left; rfl
  | some q =>
    cases hrd : q.read with
    | true => right; left; simp [hrd]
    | false =>
      cases he : q.errBuf with
      | none => left; simp [hrd, he]
      | some e => right; right; exact ⟨e, q, by simp [hrd, he]⟩

theorem step_close (c : Conn) : step c .close = if c.stuck then (c, .stuck) else (die c, .dead) := by
  simp only [step]

theorem step_cut (c : Conn) : step c .cut = if c.stuck then (c, .stuck) else (die c, .dead) := by
  simp only [step]

theorem step_failwrite (c : Conn) (n : Nat) :
    step c (.failwrite n) = if c.stuck then (c, .stuck) else ({ c with wbudget := some n }, .frames []) := by
  simp only [step]

end H2.Client

namespace H2.Client

/-! ## the invariant -/

/-- every request found under a tag is settled or its tag waits in the table -/
def Covered (c : Conn) : Prop := ∀ t r, getReq c t = some r → r.done = true ∨ r.errBuf.isSome = true ∨ InTable c t

/-- `read` and `done` are set together by the caller's read, which also empties `errBuf` -/
def ReqWF (r : Req) : Prop := r.read = r.done ∧ (r.done = true → r.errBuf = none)

structure Inv (c : Conn) : Prop where
  stuck : c.stuck = false
  covered : Covered c
  deadTable : c.dead = true → c.reqQueued = []
  keys : Keys c
  below : ∀ p ∈ c.reqQueued, p.1 < c.nextID
  wf : ∀ t r, getReq c t = some r → ReqWF r
  sidBelow : ∀ t r, getReq c t = some r → r.sid < c.nextID
  claim : ∀ p ∈ c.reqQueued, ∀ t q, getReq c t = some q → q.hasConn = true → q.sid = p.1 → t = p.2
  pos : 0 < c.nextID

theorem init_inv {c : Conn} (h : Init c) : Inv c := by
  have hg : ∀ t, getReq c t = none := by intro t; simp [getReq, h.reqs]
  refine ⟨h.stuck, ?_, fun _ => h.reqQueued, ?_, ?_, ?_, ?_, ?_, by rw [h.nextID]; decide⟩
  · intro t r hr; rw [hg] at hr; cases hr
  · simp [Keys, h.reqQueued]
  · simp [h.reqQueued]
  · intro t r hr; rw [hg] at hr; cases hr
  · intro t r hr; rw [hg] at hr; cases hr
  · simp [h.reqQueued]

/-- what `Inv` needs of the way one request changes -/
structure Req.Le1 (r r' : Req) : Prop where
  sid : r'.sid = r.sid
  hasConn : r'.hasConn = r.hasConn
  wf : ReqWF r → ReqWF r'
  settled : (r.done = true ∨ r.errBuf.isSome = true) → (r'.done = true ∨ r'.errBuf.isSome = true)

theorem Req.Le.le1 {r r' : Req} (h : Req.Le r r') : Req.Le1 r r' := by
  refine ⟨h.sid, h.hasConn, ?_, h.settled⟩
  intro ⟨w1, w2⟩
  refine ⟨by rw [h.read, h.done]; exact w1, ?_⟩
  intro hd
  rw [h.done] at hd
  rw [h.keep (.inl hd)]; exact w2 hd

theorem Inv.map {c c' : Conn} (h : Inv c) (g : Req → Req) (hg : ∀ r, (g r).tag = r.tag) (hr : c'.reqs = c.reqs.map g)
    (h1 : ∀ r, First c r → Req.Le1 r (g r)) (ht : TableOK c c') (hs : c'.reqQueued.Sublist c.reqQueued)
    (hstuck : c'.stuck = c.stuck) (hn : c'.nextID = c.nextID) (hd : c'.dead = c.dead ∨ c'.reqQueued = []) : Inv c' := by
  have get : ∀ t r', getReq c' t = some r' → ∃ r, getReq c t = some r ∧ r' = g r ∧ Req.Le1 r (g r) := by
    intro t r' hr'
    rw [MapLe.getReq_map hg hr] at hr'
    cases hq : getReq c t with
    | none => rw [hq] at hr'; cases hr'
    | some r =>
      rw [hq] at hr'; simp only [Option.map_some, Option.some.injEq] at hr'
      exact ⟨r, rfl, hr'.symm, h1 r (first_of_getReq hq)⟩
  refine ⟨hstuck.trans h.stuck, ?_, ?_, List.Nodup.sublist (hs.map _) h.keys, ?_, ?_, ?_, ?_, by rw [hn]; exact h.pos⟩
  · intro t r' hr'
    obtain ⟨r, hq, rfl, le⟩ := get t r' hr'
    rcases h.covered t r hq with hc | hc | hc
    · rcases le.settled (.inl hc) with x | x
      · exact .inl x
      · exact .inr (.inl x)
    · rcases le.settled (.inr hc) with x | x
      · exact .inl x
      · exact .inr (.inl x)
    · rcases ht t hc with x | x
      · exact .inr (.inr x)
      · rcases x _ hr' with y | y
        · exact .inl y
        · exact .inr (.inl y)
  · intro hdead
    rcases hd with hd | hd
    · rw [hd] at hdead
      have := h.deadTable hdead
      rw [this] at hs
      exact List.eq_nil_of_sublist_nil hs
    · exact hd
  · intro p hp; rw [hn]; exact h.below p (hs.subset hp)
  · intro t r' hr'
    obtain ⟨r, hq, rfl, le⟩ := get t r' hr'
    exact le.wf (h.wf t r hq)
  · intro t r' hr'
    obtain ⟨r, hq, rfl, le⟩ := get t r' hr'
    rw [le.sid, hn]; exact h.sidBelow t r hq
  · intro p hp t q' hq' hc hsid
    obtain ⟨q, hq, rfl, le⟩ := get t q' hq'
    rw [le.hasConn] at hc; rw [le.sid] at hsid
    exact h.claim p (hs.subset hp) t q hq hc hsid

theorem Inv.step' {c c' : Conn} (h : Inv c) (hle : MapLe c c') (ht : TableOK c c') (hs : c'.reqQueued.Sublist c.reqQueued)
    (hstuck : c'.stuck = c.stuck) (hn : c'.nextID = c.nextID) (hd : c'.dead = c.dead ∨ c'.reqQueued = []) : Inv c' := by
  obtain ⟨g, hg, hl, hr⟩ := hle
  exact h.map g hg hr (fun r hf => (hl r hf).le1) ht hs hstuck hn hd

theorem Inv.rdRel {c c' : Conn} (h : Inv c) (r : RdRel c c') : Inv c' :=
  h.step' r.le r.table r.sub r.stuck r.nextID (.inl r.dead)

theorem Inv.of_same {c c' : Conn} (h : Inv c) (h1 : c'.reqs = c.reqs) (h2 : c'.reqQueued = c.reqQueued)
    (h3 : c'.dead = c.dead) (h4 : c'.stuck = c.stuck) (h5 : c'.nextID = c.nextID) : Inv c' :=
  h.step' (MapLe.of_reqs h1) (TableOK.of_eq h2) (by rw [h2]; exact List.Sublist.refl _) h4 h5 (.inl h3)

theorem Inv.dieWith {c : Conn} (h : Inv c) (e : Err) : Inv (dieWith c e) := by
  obtain ⟨l, hs⟩ := dieWith_shape c e
  refine h.step' (mapLe_dieWith c e) (tableOK_dieWith c e) ?_ ?_ ?_ ?_
  all_goals rw [hs]
  · exact List.nil_sublist _
  · exact .inr rfl

theorem Inv.afterWrites {c : Conn} (h : Inv c) (fs : List OutFrame) : Inv (afterWrites c fs).1 := by
  rcases afterWrites_cases c fs with ⟨e, s, b, hh⟩ | ⟨e, s, hh⟩
  · rw [hh]; exact h.of_same rfl rfl rfl rfl rfl
  · rw [hh]; exact (h.of_same (c' := { c with enc := e, encTableSet := s }) rfl rfl rfl rfl rfl).dieWith _

theorem Inv.drain {c : Conn} (h : Inv c) : Inv (drain c).1 := by
  obtain ⟨p, w, a, hs⟩ := drain_shape c
  rw [hs]; exact h.of_same rfl rfl rfl rfl rfl

/-! ### a new request -/

theorem getReq_append_map {c c' : Conn} (new : Req) (g : Req → Req) (hg : ∀ r, (g r).tag = r.tag)
    (hr : c'.reqs = (c.reqs ++ [new]).map g) (t : String) :
    getReq c' t = match getReq c t with
      | some r => some (g r)
      | none => if new.tag == t then some (g new) else none := by
  have h1 : getReq c' t = (getReq { c with reqs := c.reqs ++ [new] } t).map g :=
    MapLe.getReq_map (c := { c with reqs := c.reqs ++ [new] }) hg hr t
  rw [h1]
  simp only [getReq, List.find?_append]
  cases List.find? (fun r => r.tag == t) c.reqs with
  | some r => rfl
  | none =>
    simp only [Option.none_or, List.find?_cons, List.find?_nil]
    cases new.tag == t <;> rfl

/-- `Inv` when a new request has been appended and every request carrying `tag` went through `f`, the table having
grown by at most the new stream -/
theorem Inv.newReq {c c' : Conn} (h : Inv c) (tag : String) (f : Req → Req) (hf : ∀ r, (f r).tag = r.tag)
    (hr : c'.reqs = (c.reqs ++ [({ tag := tag } : Req)]).map fun (q : Req) => if q.tag == tag then f q else q)
    (hstuck : c'.stuck = c.stuck) (hdead : c'.dead = c.dead)
    (hcases :
      -- turned away: every request with the tag is resolved, the table stays
      (c'.reqQueued = c.reqQueued ∧ c'.nextID = c.nextID ∧ ∃ e, ∀ r, f r = r.resolve e) ∨
      -- registered on the new stream
      (c'.reqQueued = c.reqQueued ++ [(c.nextID, tag)] ∧ c'.nextID = c.nextID + 2 ∧ c.dead = false ∧
        ∃ s, ∀ r, f r = { r with sid := c.nextID, hasConn := true, streamed := s })) : Inv c' := by
  have hg : ∀ r : Req, ((fun q : Req => if q.tag == tag then f q else q) r).tag = r.tag := by
    intro r; simp only; split
    · exact hf r
    · rfl
  have get := getReq_append_map (c := c) (c' := c') { tag := tag } _ hg hr
  have hpos := h.pos
  rcases hcases with ⟨hq, hn, e, hfe⟩ | ⟨hq, hn, hnd, s, hfs⟩
  · -- the table is the same
    have old : ∀ t r, getReq c t = some r → ∃ r', getReq c' t = some r' ∧ Req.Le r r' := by
      intro t r hq'
      rw [get, hq']
      refine ⟨_, rfl, ?_⟩
      split
      · rw [hfe]; exact Req.resolve_le r e
      · exact Req.Le.refl r
    have cases2 : ∀ t r', getReq c' t = some r' →
        (∃ r, getReq c t = some r ∧ Req.Le r r') ∨ (getReq c t = none ∧ t = tag ∧ r' = { tag := tag, errBuf := some e }) := by
      intro t r' hr'
      cases hq' : getReq c t with
      | some r =>
        left
        obtain ⟨r2, h2, le⟩ := old t r hq'
        rw [h2] at hr'; cases hr'; exact ⟨r, rfl, le⟩
      | none =>
        right
        rw [get, hq'] at hr'
        simp only at hr'
        split at hr'
        · rename_i ht
          simp only [beq_iff_eq] at ht
          simp only [beq_self_eq_true, if_true, Option.some.injEq] at hr'
          refine ⟨rfl, ht.symm, ?_⟩
          rw [← hr', hfe]; rfl
        · cases hr'
    refine ⟨hstuck.trans h.stuck, ?_, ?_, by unfold Keys; rw [hq]; exact h.keys, ?_, ?_, ?_, ?_, by rw [hn]; exact hpos⟩
    · intro t r' hr'
      rcases cases2 t r' hr' with ⟨r, h1, le⟩ | ⟨_, _, rfl⟩
      · rcases h.covered t r h1 with x | x | x
        · rcases le.settled (.inl x) with y | y
          · exact .inl y
          · exact .inr (.inl y)
        · rcases le.settled (.inr x) with y | y
          · exact .inl y
          · exact .inr (.inl y)
        · obtain ⟨sid, hm⟩ := x
          exact .inr (.inr ⟨sid, by rw [hq]; exact hm⟩)
      · exact .inr (.inl rfl)
    · intro hd; rw [hq]; rw [hdead] at hd; exact h.deadTable hd
    · intro p hp; rw [hq] at hp; rw [hn]; exact h.below p hp
    · intro t r' hr'
      rcases cases2 t r' hr' with ⟨r, h1, le⟩ | ⟨_, _, rfl⟩
      · exact le.le1.wf (h.wf t r h1)
      · exact ⟨rfl, fun hd => by cases hd⟩
    · intro t r' hr'
      rcases cases2 t r' hr' with ⟨r, h1, le⟩ | ⟨_, _, rfl⟩
      · rw [le.sid, hn]; exact h.sidBelow t r h1
      · rw [hn]; exact hpos
    · intro p hp t q' hq' hc hsid
      rw [hq] at hp
      rcases cases2 t q' hq' with ⟨r, h1, le⟩ | ⟨_, _, rfl⟩
      · rw [le.hasConn] at hc; rw [le.sid] at hsid
        exact h.claim p hp t r h1 hc hsid
      · cases hc
  · -- registered
    have mem : ∀ p, p ∈ c'.reqQueued ↔ p ∈ c.reqQueued ∨ p = (c.nextID, tag) := by
      intro p; rw [hq]; simp
    have cases2 : ∀ t r', getReq c' t = some r' →
        (t ≠ tag ∧ getReq c t = some r') ∨
        (t = tag ∧ r'.sid = c.nextID ∧ r'.hasConn = true ∧
          ((∃ r, getReq c t = some r ∧ r'.done = r.done ∧ r'.errBuf = r.errBuf ∧ r'.read = r.read) ∨
           (r'.done = false ∧ r'.errBuf = none ∧ r'.read = false))) := by
      intro t r' hr'
      rw [get] at hr'
      cases hq' : getReq c t with
      | some r =>
        rw [hq'] at hr'
        simp only [Option.some.injEq] at hr'
        have ht := getReq_tag' hq'
        by_cases htt : t = tag
        · right
          rw [ht, htt] at hr'
          simp only [beq_self_eq_true, if_true] at hr'
          rw [← hr', hfs]
          exact ⟨htt, rfl, rfl, .inl ⟨r, rfl, rfl, rfl, rfl⟩⟩
        · left
          have : (r.tag == tag) = false := by rw [ht]; simpa using htt
          rw [this] at hr'
          simp only [Bool.false_eq_true, if_false] at hr'
          exact ⟨htt, by rw [hr']⟩
      | none =>
        rw [hq'] at hr'
        simp only at hr'
        split at hr'
        · rename_i ht
          simp only [beq_iff_eq] at ht
          simp only [beq_self_eq_true, if_true, Option.some.injEq] at hr'
          right
          rw [← hr', hfs]
          exact ⟨ht.symm, rfl, rfl, .inr ⟨rfl, rfl, rfl⟩⟩
        · cases hr'
    refine ⟨hstuck.trans h.stuck, ?_, ?_, ?_, ?_, ?_, ?_, ?_, by rw [hn]; omega⟩
    · intro t r' hr'
      rcases cases2 t r' hr' with ⟨_, h1⟩ | ⟨rfl, _, _, _⟩
      · rcases h.covered t r' h1 with x | x | x
        · exact .inl x
        · exact .inr (.inl x)
        · obtain ⟨sid, hm⟩ := x
          exact .inr (.inr ⟨sid, (mem _).mpr (.inl hm)⟩)
      · exact .inr (.inr ⟨c.nextID, (mem _).mpr (.inr rfl)⟩)
    · intro hd; rw [hdead, hnd] at hd; cases hd
    · unfold Keys
      rw [hq, List.map_append, List.nodup_append]
      refine ⟨h.keys, by simp, ?_⟩
      intro a ha b hb
      simp only [List.map_cons, List.map_nil, List.mem_singleton] at hb
      simp only [List.mem_map] at ha
      obtain ⟨p, hp, rfl⟩ := ha
      have := h.below p hp
      omega
    · intro p hp
      rw [hn]
      rcases (mem p).mp hp with hp | rfl
      · have := h.below p hp; omega
      · simp
    · intro t r' hr'
      rcases cases2 t r' hr' with ⟨_, h1⟩ | ⟨rfl, _, _, ⟨r, h1, e1, e2, e3⟩ | ⟨e1, e2, e3⟩⟩
      · exact h.wf t r' h1
      · obtain ⟨w1, w2⟩ := h.wf _ r h1
        exact ⟨by rw [e3, e1]; exact w1, by rw [e1, e2]; exact w2⟩
      · exact ⟨by rw [e3, e1], fun hd => by rw [e1] at hd; cases hd⟩
    · intro t r' hr'
      rw [hn]
      rcases cases2 t r' hr' with ⟨_, h1⟩ | ⟨rfl, e, _, _⟩
      · have := h.sidBelow t r' h1; omega
      · omega
    · intro p hp t q' hq' hc hsid
      rcases cases2 t q' hq' with ⟨hne, h1⟩ | ⟨rfl, e, _, _⟩
      · have hb := h.sidBelow t q' h1
        rcases (mem p).mp hp with hp | rfl
        · exact h.claim p hp t q' h1 hc hsid
        · simp only at hsid; omega
      · rcases (mem p).mp hp with hp | rfl
        · have := h.below p hp; omega
        · rfl

/-! ### every event keeps the invariant -/

theorem rdRel_takeReq (c : Conn) (sid : Nat) (tag : String) (hu : ∀ t, (sid, t) ∈ c.reqQueued → t = tag)
    (hs : SettledAt c tag) : RdRel c (takeReq c sid) := by
  obtain ⟨o, h⟩ := takeReq_shape c sid
  rw [h]
  refine ⟨MapLe.of_reqs rfl, ?_, eraseA_sublist _ _, rfl, rfl, rfl, id, Or.inl, fun _ h => .inl h⟩
  intro t ⟨s, hm⟩
  by_cases h : s = sid
  · right; subst h; rw [hu t hm]; exact hs
  · left; exact ⟨s, mem_eraseA.mpr ⟨hm, h⟩⟩

theorem rdRel_resolve (c : Conn) (tag : String) (e : Err) : RdRel c (resolve c tag e) :=
  rdRel_updReq c tag _ (fun r h => (Req.resolve_le r e).tag.trans h) (fun r _ => Req.resolve_le r e)

theorem Inv.readEvent {c : Conn} (h : Inv c) (tag : String) : Inv (updReq c tag markRead) := by
  refine h.map (fun q => if q.tag == tag then markRead q else q) ?_ rfl ?_
    (TableOK.of_eq rfl) (List.Sublist.refl _) rfl rfl (.inl rfl)
  · intro r; split <;> rfl
  · intro r _
    split
    · exact ⟨rfl, rfl, fun _ => ⟨rfl, fun _ => rfl⟩, fun _ => .inl rfl⟩
    · exact ⟨rfl, rfl, id, id⟩

theorem sendPending_inv {c : Conn} (h : Inv c) (fuel sid : Nat) : Inv (sendPending fuel c sid).1 := by
  obtain ⟨p, w, q, hs⟩ := sendPending_shape fuel c sid
  rw [hs]; exact h.of_same rfl rfl rfl rfl rfl

theorem writeRequest_inv {c : Conn} (h : Inv c) (r : ReqSpec) (hd : c.dead = false) :
    Inv (writeRequest (withReq c r.tag) r).1 := by
  rw [writeRequest_eq]
  split
  · exact h.newReq r.tag (fun q => q.resolve .noStreams) (fun q => (Req.resolve_le q _).tag) rfl rfl rfl
      (.inl ⟨rfl, rfl, _, fun _ => rfl⟩)
  · have h1 : Inv (wrOpen (withReq c r.tag) r) := by
      refine h.newReq r.tag (fun q => { q with sid := c.nextID, hasConn := true, streamed := reqStreamed r })
        (fun _ => rfl) rfl rfl rfl (.inr ⟨?_, rfl, hd, _, fun _ => rfl⟩)
      show insertA c.reqQueued c.nextID r.tag = _
      exact insertA_append _ _ _ h.below
    split
    · exact h1
    · show Inv (sendPending 100000 _ _).1
      apply sendPending_inv
      exact h1.of_same rfl rfl rfl rfl rfl

theorem step_inv (c : Conn) (ev : Event) (h : Inv c) : Inv (step c ev).1 := by
  cases ev with
  | read tag =>
    rw [step_read]
    split
    · exact h
    · split
      · exact h
      · split
        · exact h
        · exact h.readEvent tag
  | req r =>
    rw [step_req]
    split
    · exact h
    · unfold stepReq
      split
      · exact h.newReq r.tag (fun q => q.resolve (c.lastErr.getD .connClosed)) (fun q => (Req.resolve_le q _).tag)
          rfl rfl rfl (.inl ⟨rfl, rfl, _, fun _ => rfl⟩)
      · rename_i hd
        exact ((writeRequest_inv h r (by simpa using hd)).drain).afterWrites _
  | bytes b =>
    rw [step_bytes]
    split
    · exact h
    · unfold stepBytes
      have h0 : Inv { c with rdBuf := (bytesSplit c b).2 } := h.of_same rfl rfl rfl rfl rfl
      have h1 : Inv (bytesRead c b).1 := h0.rdRel (rdRel_rdFrames _ _ h0.keys)
      split
      · exact h
      · split
        · exact h1
        · split
          · exact (h1.dieWith .eof).of_same rfl rfl rfl rfl rfl
          · split
            · exact h1.dieWith .eof
            · exact h1.drain.afterWrites _
  | timeout tag =>
    rw [step_timeout]
    split
    · exact h
    · unfold stepTimeout
      split
      · exact h
      · rename_i r hr
        have h1 : Inv (resolve c tag .timeout) := h.rdRel (rdRel_resolve c tag _)
        split
        · exact h1
        · rename_i hc
          simp only [Bool.or_eq_true, Bool.not_eq_true', beq_iff_eq, not_or, Bool.not_eq_false] at hc
          have h2 : Inv (deletePending (resolve c tag .timeout) r.sid) := h1.of_same rfl rfl rfl rfl rfl
          have h3 : Inv (takeReq (deletePending (resolve c tag .timeout) r.sid) r.sid) := by
            refine h2.rdRel (rdRel_takeReq _ r.sid tag ?_ ?_)
            · intro t ht
              exact (h.claim (r.sid, t) ht tag r hr hc.1 rfl).symm
            · exact settledAt_resolve_self c tag .timeout
          split
          · exact h3
          · exact h3.afterWrites _
  | close => rw [step_close]; split; exact h; exact h.dieWith .eof
  | cut => rw [step_cut]; split; exact h; exact h.dieWith .eof
  | failwrite n => rw [step_failwrite]; split; exact h; exact h.of_same rfl rfl rfl rfl rfl

theorem run_invariant {c : Conn} (h : Inv c) (evs : List Event) : Inv (run c evs).1 :=
  run_inv (I := Inv) step_inv evs c h

end H2.Client
