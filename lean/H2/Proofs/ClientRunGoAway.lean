import H2.Proofs.ClientRunHdr
/-!
# C11 and C18c on the full serial client model, run level

* `no_headers_after_goaway`: once `goAway` is set, no step of any run writes a HEADERS frame (no new stream).
* `goaway_disclaims`: what a GOAWAY(last > 0) does, request by request: a waiting request on a stream above `last` gets
  exactly `goAwayErr` (retryable unless its body came from a reader); a request none of whose streams is above `last`
  is not touched and stays in the table.
* `headers_within_limit`: whenever a step writes HEADERS, `openStreams` was below `maxStreams` just before.
-/
namespace H2.Client

/-! ## C11 (1): no new stream after GOAWAY -/

/-- what the run-level theorems about HEADERS frames start from -/
structure HInv (c : Conn) : Prop where
  inv : Inv c
  outQ : NoHdr c.outQ
  closed : c.stateClosed = true → c.goAway = true

theorem init_hinv {c : Conn} (h : Init c) : HInv c :=
  ⟨init_inv h, by rw [h.outQ]; exact noHdr_nil, fun hc => by rw [h.stateClosed] at hc; cases hc⟩

theorem step_hinv (c : Conn) (ev : Event) (h : HInv c) : HInv (step c ev).1 :=
  let k := step_ctl c h.inv ev
  ⟨step_inv c ev h.inv, k.1 h.outQ, k.2.2 h.closed⟩

theorem run_hinv {c : Conn} (h : HInv c) (evs : List Event) : HInv (run c evs).1 :=
  run_inv (I := HInv) step_hinv evs c h

/-- the output contains a frame of a header block: HEADERS (whole or cut) or CONTINUATION -/
def writesHeaders : StepOut → Bool
  | .frames fs => fs.any OutFrame.isHeaders
  | _ => false

/-- the output contains a frame that opens a stream: a HEADERS frame, with END_HEADERS (`headers`) or without (`hfrag`) -/
def opensStream : StepOut → Bool
  | .frames fs => fs.any OutFrame.opens
  | _ => false

theorem opensStream_writes {o : StepOut} (h : opensStream o = true) : writesHeaders o = true := by
  cases o with
  | frames fs =>
    simp only [opensStream, writesHeaders, List.any_eq_true] at h ⊢
    obtain ⟨f, hf, ho⟩ := h
    exact ⟨f, hf, OutFrame.opens_isHeaders ho⟩
  | _ => cases h

theorem not_writes_not_opens {o : StepOut} (h : writesHeaders o = false) : opensStream o = false := by
  cases ho : opensStream o with
  | false => rfl
  | true => rw [opensStream_writes ho] at h; cases h

theorem canOpen_goAway {c : Conn} (h : canOpenStream c = true) : c.goAway = false := by
  simp only [canOpenStream, Bool.and_eq_true, Bool.not_eq_true'] at h
  exact h.1.1

theorem noHdr_any {fs : List OutFrame} (h : NoHdr fs) : fs.any OutFrame.isHeaders = false := by
  rw [List.any_eq_false]
  intro f hf; rw [h f hf]; simp

/-- one step with `goAway` set: it stays set and no HEADERS frame is written -/
theorem step_after_goaway (c : Conn) (h : HInv c) (hg : c.goAway = true) (ev : Event) :
    (step c ev).1.goAway = true ∧ writesHeaders (step c ev).2 = false := by
  refine ⟨(step_ctl c h.inv ev).2.1 hg, ?_⟩
  rcases step_frames_spec c h.inv h.outQ ev with ⟨_, hf⟩ | ⟨r, _, hc, _⟩
  · cases ho : (step c ev).2 with
    | frames fs => exact noHdr_any (hf fs ho)
    | _ => rfl
  · rw [canOpen_goAway hc] at hg; cases hg

/-- **no new stream after GOAWAY**: from a state with `goAway` set, no step of any run writes a HEADERS frame -/
theorem no_headers_after_goaway (c : Conn) (h : HInv c) (hg : c.goAway = true) (evs : List Event) :
    AllSteps (fun _ _ c' o => c'.goAway = true ∧ writesHeaders o = false) c evs := by
  refine allSteps_of_inv (I := fun c => HInv c ∧ c.goAway = true) ?_ ?_ evs c ⟨h, hg⟩
  · intro c e ⟨h, hg⟩; exact ⟨step_hinv c e h, (step_after_goaway c h hg e).1⟩
  · intro c e ⟨h, hg⟩; exact step_after_goaway c h hg e

/-- a GOAWAY frame sets the flag, whatever its last-stream-id -/
theorem rdFrame_goaway_sets (c : Conn) (hk : Keys c) (f : Frame.Frame) (last code : Nat) (d : Bytes)
    (hs : f.stream = 0) (hb : f.body = .goAway last code d) : (rdFrame c f).1.goAway = true := by
  simp only [rdFrame, hs, hb, beq_self_eq_true, if_true]
  split
  · exact (rdRel_setLastErr _ _).goAway rfl
  · have hk' : Keys { c with goAway := true, closeRef := last, stateClosed := true } := hk
    exact (rdRel_afterGoAway _ hk').goAway rfl

/-! ## C11 (2): who is disclaimed, who is kept -/

theorem getReq_resolve_ne (c : Conn) (t tag : String) (e : Err) (hne : tag ≠ t) :
    getReq (resolve c t e) tag = getReq c tag :=
  getReq_updReq_ne' c t tag _ (fun r => (Req.resolve_le r e).tag) hne
where
  getReq_updReq_ne' (c : Conn) (t tag : String) (f : Req → Req) (hf : ∀ r, (f r).tag = r.tag) (hne : tag ≠ t) :
      getReq (updReq c t f) tag = getReq c tag := by
    have hg : ∀ r : Req, ((fun r : Req => if r.tag == t then f r else r) r).tag = r.tag := by
      intro r; dsimp only; split
      · exact hf r
      · rfl
    rw [MapLe.getReq_map (c := c) (c' := updReq c t f) hg rfl]
    cases hq : getReq c tag with
    | none => rfl
    | some r =>
      have hrt : r.tag ≠ t := by rw [getReq_tag' hq]; exact hne
      simp [hrt]

theorem getReq_resolve_self (c : Conn) (tag : String) (e : Err) :
    getReq (resolve c tag e) tag = (getReq c tag).map (·.resolve e) := by
  have hg : ∀ r : Req, ((fun r : Req => if r.tag == tag then r.resolve e else r) r).tag = r.tag := by
    intro r; dsimp only; split
    · exact (Req.resolve_le r e).tag
    · rfl
  rw [resolve, MapLe.getReq_map (c := c) (c' := updReq c tag (·.resolve e)) hg rfl]
  cases hq : getReq c tag with
  | none => rfl
  | some r => simp [getReq_tag' hq]

theorem getReq_finish' (c : Conn) (t tag : String) (sid : Nat) (e : Err) :
    getReq (finish c t sid e) tag = getReq (resolve c t e) tag := by
  obtain ⟨o, hs⟩ := finish_shape c t sid e
  rw [hs]; rfl

theorem getReq_refuse_ne (c : Conn) (sid : Nat) (t tag : String) (hne : tag ≠ t) :
    getReq (refuse c sid t) tag = getReq c tag := by
  unfold refuse
  split
  · rfl
  · split
    · rfl
    · rw [getReq_finish', getReq_resolve_ne c t tag _ hne]

/-- the request with its GOAWAY error stored -/
def disclaimed (r : Req) : Req := { r with errBuf := some (goAwayErr r) }

/-- `refuse` on the tag itself: a waiting request gets `goAwayErr`; one that has it keeps it -/
theorem getReq_refuse_self (c : Conn) (sid : Nat) (tag : String) (r : Req) (hd : r.done = false) (he : r.errBuf = none)
    (h : getReq c tag = some r ∨ getReq c tag = some (disclaimed r)) :
    getReq (refuse c sid tag) tag = some (disclaimed r) := by
  unfold refuse
  rcases h with h | h
  · simp only [h, hd, Bool.false_eq_true, if_false]
    rw [getReq_finish', getReq_resolve_self, h]
    simp [Req.resolve, hd, he, disclaimed]
  · have hd' : (disclaimed r).done = false := hd
    simp only [h, hd', Bool.false_eq_true, if_false]
    rw [getReq_finish', getReq_resolve_self, h]
    simp [Req.resolve, disclaimed, hd]

theorem refuse_closeRef (c : Conn) (sid : Nat) (tag : String) : (refuse c sid tag).closeRef = c.closeRef := by
  unfold refuse
  split
  · rfl
  · split
    · rfl
    · obtain ⟨o, hs⟩ := finish_shape c tag sid (goAwayErr ‹Req›); rw [hs]

theorem refuse_reqQueued (c : Conn) (sid : Nat) (tag : String) : (refuse c sid tag).reqQueued = eraseA c.reqQueued sid := by
  unfold refuse
  split
  · rfl
  · split
    · rfl
    · obtain ⟨o, hs⟩ := finish_shape c tag sid (goAwayErr ‹Req›); rw [hs]

theorem refuseAbove_spec (tag : String) (r : Req) (hd : r.done = false) (he : r.errBuf = none) (l : List (Nat × String)) :
    ∀ c : Conn,
      ((getReq c tag = some r ∨ getReq c tag = some (disclaimed r)) →
        (getReq (refuseAbove c l) tag = some r ∨ getReq (refuseAbove c l) tag = some (disclaimed r)) ∧
        ((getReq c tag = some (disclaimed r) ∨ ∃ sid, (sid, tag) ∈ l ∧ sid > c.closeRef) →
          getReq (refuseAbove c l) tag = some (disclaimed r))) := by
  induction l with
  | nil =>
    intro c h
    refine ⟨h, ?_⟩
    rintro (h2 | ⟨sid, hm, _⟩)
    · exact h2
    · cases hm
  | cons x xs ih =>
    intro c h
    obtain ⟨sid, t⟩ := x
    simp only [refuseAbove]
    split
    · rename_i hgt
      by_cases ht : t = tag
      · subst ht
        have h1 := getReq_refuse_self c sid t r hd he h
        obtain ⟨i1, i2⟩ := ih (refuse c sid t) (.inr h1)
        exact ⟨i1, fun _ => i2 (.inl h1)⟩
      · have hne : tag ≠ t := fun e => ht e.symm
        have h1 : getReq (refuse c sid t) tag = getReq c tag := getReq_refuse_ne c sid t tag hne
        obtain ⟨i1, i2⟩ := ih (refuse c sid t) (by rw [h1]; exact h)
        refine ⟨i1, ?_⟩
        rintro (h2 | ⟨s, hm, hs⟩)
        · exact i2 (.inl (by rw [h1]; exact h2))
        · simp only [List.mem_cons, Prod.mk.injEq] at hm
          rcases hm with ⟨_, e⟩ | hm
          · exact absurd e.symm ht
          · exact i2 (.inr ⟨s, hm, by rw [refuse_closeRef]; exact hs⟩)
    · rename_i hle
      obtain ⟨i1, i2⟩ := ih c h
      refine ⟨i1, ?_⟩
      rintro (h2 | ⟨s, hm, hs⟩)
      · exact i2 (.inl h2)
      · simp only [List.mem_cons, Prod.mk.injEq] at hm
        rcases hm with ⟨e1, _⟩ | hm
        · rw [e1] at hs; exact absurd hs hle
        · exact i2 (.inr ⟨s, hm, hs⟩)

/-- a tag none of whose streams is above `closeRef`: its request and its table entries are left alone -/
theorem refuseAbove_keeps (tag : String) (l : List (Nat × String)) : ∀ c : Conn,
    (∀ p ∈ l, p.1 > c.closeRef → p.2 ≠ tag) →
    getReq (refuseAbove c l) tag = getReq c tag ∧
    ∀ p ∈ c.reqQueued, (∀ q ∈ l, q.1 > c.closeRef → q.1 ≠ p.1) → p ∈ (refuseAbove c l).reqQueued := by
  induction l with
  | nil => intro c _; exact ⟨rfl, fun p hp _ => hp⟩
  | cons x xs ih =>
    intro c hl
    obtain ⟨sid, t⟩ := x
    simp only [refuseAbove]
    split
    · rename_i hgt
      have hne : tag ≠ t := fun e => hl (sid, t) (List.mem_cons_self ..) hgt e.symm
      obtain ⟨i1, i2⟩ := ih (refuse c sid t) (fun p hp hg => hl p (List.mem_cons_of_mem _ hp) (by rw [refuse_closeRef] at hg; exact hg))
      refine ⟨i1.trans (getReq_refuse_ne c sid t tag hne), ?_⟩
      intro p hp hq
      apply i2 p
      · rw [refuse_reqQueued]
        exact mem_eraseA.mpr ⟨hp, fun e => hq (sid, t) (List.mem_cons_self ..) hgt e.symm⟩
      · intro q hq' hg
        exact hq q (List.mem_cons_of_mem _ hq') (by rw [refuse_closeRef] at hg; exact hg)
    · obtain ⟨i1, i2⟩ := ih c (fun p hp => hl p (List.mem_cons_of_mem _ hp))
      exact ⟨i1, fun p hp hq => i2 p hp (fun q hq' => hq q (List.mem_cons_of_mem _ hq'))⟩

/-- **what GOAWAY(last > 0) does, request by request** -/
theorem goaway_disclaims (c : Conn) (f : Frame.Frame) (last code : Nat) (d : Bytes)
    (hs : f.stream = 0) (hb : f.body = .goAway last code d) (hl : 0 < last) :
    (∀ sid tag r, (sid, tag) ∈ c.reqQueued → sid > last → getReq c tag = some r → r.done = false → r.errBuf = none →
      getReq (rdFrame c f).1 tag = some { r with errBuf := some (goAwayErr r) }) ∧
    (∀ tag, (∀ sid, (sid, tag) ∈ c.reqQueued → sid ≤ last) →
      getReq (rdFrame c f).1 tag = getReq c tag ∧
      ∀ sid, (sid, tag) ∈ c.reqQueued → (sid, tag) ∈ (rdFrame c f).1.reqQueued) := by
  have h0 : (last == 0) = false := by simp; omega
  simp only [rdFrame, hs, hb, beq_self_eq_true, if_true, h0, Bool.false_eq_true, if_false, afterGoAway]
  constructor
  · intro sid tag r hm hgt hq hd he
    exact ((refuseAbove_spec tag r hd he c.reqQueued { c with goAway := true, closeRef := last, stateClosed := true })
      (.inl hq)).2 (.inr ⟨sid, hm, hgt⟩)
  · intro tag hle
    have hl' : ∀ p ∈ c.reqQueued, p.1 > last → p.2 ≠ tag := by
      intro p hp hg e
      have := hle p.1 (by rw [← e]; exact hp)
      omega
    obtain ⟨k1, k2⟩ := refuseAbove_keeps tag c.reqQueued { c with goAway := true, closeRef := last, stateClosed := true } hl'
    refine ⟨k1, ?_⟩
    intro sid hm
    apply k2 (sid, tag) hm
    intro q _ hg e
    have := hle sid hm
    simp only at e hg
    omega

/-! ## C18c: MAX_CONCURRENT_STREAMS at every HEADERS written -/

theorem canOpen_below {c : Conn} (h : canOpenStream c = true) : c.openStreams < (c.maxStreams : Int) := by
  simp only [canOpenStream, Bool.and_eq_true, decide_eq_true_eq] at h
  exact h.2

/-- **MAX_CONCURRENT_STREAMS obeyed in every run**: whenever a step writes a HEADERS frame, the number of open streams
just before was below the `maxStreams` the connection held at that moment; the event is a request, the connection
has seen no GOAWAY, and the frame opens stream `nextID` -/
theorem headers_within_limit (c : Conn) (h : HInv c) (evs : List Event) :
    AllSteps (fun c e _ o => writesHeaders o = true →
      c.openStreams < (c.maxStreams : Int) ∧ c.goAway = false ∧ ∃ r, e = .req r) c evs := by
  refine allSteps_of_inv (I := HInv) step_hinv ?_ evs c h
  intro c e h hw
  rcases step_frames_spec c h.inv h.outQ e with ⟨_, hf⟩ | ⟨r, he, hc, _⟩
  · cases ho : (step c e).2 with
    | frames fs => rw [ho] at hw; rw [show writesHeaders (.frames fs) = fs.any OutFrame.isHeaders from rfl, noHdr_any (hf fs ho)] at hw; cases hw
    | _ => rw [ho] at hw; cases hw
  · exact ⟨canOpen_below hc, canOpen_goAway hc, r, he⟩

end H2.Client
