import H2.Proofs.ServerFlowFull
/-!
# Receive-side credit of the FULL server model, step level (C14, server role)

The run-level statements (`recv_ledger`, `recv_conservation`, `recv_never_overcredits`, `no_zero_increment`) are in
`ServerFlowFull.lean`, where the invariant is. Here: what `consumeConnWindow` / `consumeRecvWindow` do to the state and
the outputs, and that the three places where the model meets a DATA frame it accepts, drops (request-body limit) or
ignores (stream reset by this side) charge exactly `fr.length` octets through them.
-/
namespace H2.Server
open H2.Frame (Frame Body)

/-- `r'` is `r` after `n` received octets have been charged to the connection window: some outputs `l` appended,
`recvWin` lowered by `n` and raised by the connection credit written in `l`; no output of `l` is a WINDOW_UPDATE with
increment 0 -/
def Charged (r r' : R) (n : Nat) : Prop :=
  ∃ l, r'.out = r.out ++ l ∧ r'.s.recvWin + (n : Int) = r.s.recvWin + (cred0 l : Int) ∧ (∀ o ∈ l, o.bad = false) ∧
    sentC l = 0

theorem Charged.of_eq (r : R) {r1 r' : R} {n : Nat} (h : Charged r1 r' n) (ho : r1.out = r.out) (hw : r1.s.recvWin = r.s.recvWin) :
    Charged r r' n := by
  obtain ⟨l, a, b, c, d⟩ := h
  exact ⟨l, by rw [a, ho], by rw [b, hw], c, d⟩

/-- **`consumeConnWindow`**: nothing for `n = 0`; otherwise the window goes down by `n`, and when that takes it below
half of 4 MiB one `WINDOW_UPDATE(0, inc)` with `inc = 4 MiB − (recvWin − n) > 0` is written and the window is 4 MiB again -/
theorem consumeConnWindow_spec (r : R) (n : Nat) :
    (n = 0 → consumeConnWindow r n = r) ∧
    (n ≠ 0 → r.s.recvWin - n < (Gen.c_serverMaxWindow : Int) / 2 →
      (consumeConnWindow r n).out = r.out ++ [.wu 0 ((Gen.c_serverMaxWindow : Int) - (r.s.recvWin - n)).toNat] ∧
      (consumeConnWindow r n).s.recvWin = Gen.c_serverMaxWindow ∧
      0 < ((Gen.c_serverMaxWindow : Int) - (r.s.recvWin - n)).toNat) ∧
    (n ≠ 0 → ¬ r.s.recvWin - n < (Gen.c_serverMaxWindow : Int) / 2 →
      (consumeConnWindow r n).out = r.out ∧ (consumeConnWindow r n).s.recvWin = r.s.recvWin - n) := by
  rw [consumeConnWindow_eq]
  refine ⟨?_, ?_, ?_⟩
  · intro h; simp [h]
  · intro h1 h2
    have : (n == 0) = false := by simpa using h1
    rw [this]
    simp only [Bool.false_eq_true, if_false, h2, if_true]
    exact ⟨rfl, rfl, by omega⟩
  · intro h1 h2
    have : (n == 0) = false := by simpa using h1
    rw [this]
    simp only [Bool.false_eq_true, if_false, h2]
    exact ⟨by simp [setRecv], rfl⟩

theorem consumeConnWindow_charged (r : R) (n : Nat) : Charged r (consumeConnWindow r n) n := by
  obtain ⟨h0, h1, h2⟩ := consumeConnWindow_spec r n
  by_cases hn : n = 0
  · rw [h0 hn, hn]; exact ⟨[], by simp, by simp, by simp, rfl⟩
  · by_cases hc : r.s.recvWin - n < (Gen.c_serverMaxWindow : Int) / 2
    · obtain ⟨a, b, c⟩ := h1 hn hc
      refine ⟨_, a, ?_, ?_, rfl⟩
      · rw [b]; simp only [cred0_single, Out.credit, if_true]; omega
      · intro o ho; simp only [List.mem_singleton] at ho; subst ho
        simp only [Out.bad, beq_eq_false_iff_ne, ne_eq]; omega
    · obtain ⟨a, b⟩ := h2 hn hc
      exact ⟨[], by simp [a], by rw [b]; simp, by simp, rfl⟩

/-- **`consumeRecvWindow`**: a non-empty frame that does not end its stream gets its whole length back on the stream
at once, before the connection is looked at -/
theorem consumeRecvWindow_stream_credit (r : R) (st : Strm) (fr : Frame) (n : Nat) (hn : n ≠ 0)
    (hes : Frame.hasFlag fr.flags Gen.c_FlagEndStream = false) :
    consumeRecvWindow r st fr n = consumeConnWindow (r.emit (.wu st.id n)) n := by
  unfold consumeRecvWindow
  have : (n == 0) = false := by simpa using hn
  simp [this, hes]

/-- … and a frame that ends its stream gets no stream credit (nothing is owed on a stream the peer has finished) -/
theorem consumeRecvWindow_final (r : R) (st : Strm) (fr : Frame) (n : Nat)
    (hes : Frame.hasFlag fr.flags Gen.c_FlagEndStream = true) :
    consumeRecvWindow r st fr n = consumeConnWindow r n := by
  unfold consumeRecvWindow
  by_cases hn : n = 0
  · subst hn; simp [consumeConnWindow]
  · have : (n == 0) = false := by simpa using hn
    simp [this, hes]

theorem consumeRecvWindow_charged (r : R) (st : Strm) (fr : Frame) (n : Nat) (hid : st.id ≠ 0) :
    Charged r (consumeRecvWindow r st fr n) n := by
  unfold consumeRecvWindow
  split
  · rename_i hz
    have hz : n = 0 := by simpa using hz
    subst hz
    exact ⟨[], by simp, by simp, by simp, rfl⟩
  · rename_i hz
    have hz : n ≠ 0 := by simpa using hz
    split
    · obtain ⟨l, a, b, c, d⟩ := consumeConnWindow_charged (r.emit (.wu st.id n)) n
      refine ⟨.wu st.id n :: l, by rw [a]; simp, ?_, ?_, ?_⟩
      · have e : cred0 (.wu st.id n :: l) = cred0 l := by
          show cred0 ([.wu st.id n] ++ l) = _
          rw [cred0_append]; simp [Out.credit, hid]
        rw [e]; exact b
      · intro o ho
        rcases List.mem_cons.mp ho with ho | ho
        · subst ho; simpa [Out.bad] using hz
        · exact c o ho
      · show sentC ([.wu st.id n] ++ l) = 0
        rw [sentC_append, d]; rfl
    · exact consumeConnWindow_charged r n

/-- **a DATA frame for a stream that may receive** (in the table, headers finished, not half-closed or closed, frame
allowed in its state) is charged `fr.length` octets — whether it is accepted or dropped by the request-body limit -/
theorem handleFrame_data_charged (r : R) (uid : Nat) (fr : Frame) (st : Strm) (hg : r.getStrm uid = some st)
    (hv : verifyState st fr = none) (ht : fr.typ = Gen.c_FrameData) (hf : st.headersFinished = true)
    (hr : ¬ st.state.rank ≥ StState.halfClosed.rank) (hid : st.id ≠ 0) :
    Charged r (handleFrame r uid fr).1 fr.length ∧
      ((handleFrame r uid fr).2 = none ∨ (handleFrame r uid fr).2 = some (.reset Gen.c_EnhanceYourCalm)) := by
  rw [handleFrame_eq, hg]
  simp only [hv, ht]
  have e1 : (Gen.c_FrameData == Gen.c_FrameHeaders || Gen.c_FrameData == Gen.c_FrameContinuation) = false := rfl
  simp only [e1, Bool.false_eq_true, if_false, beq_self_eq_true, if_true]
  unfold hfData
  simp only [hf, Bool.not_true, Bool.false_eq_true, if_false, hr]
  split
  · refine ⟨?_, Or.inr rfl⟩
    exact Charged.of_eq r (consumeConnWindow_charged _ _) rfl rfl
  · refine ⟨?_, Or.inl rfl⟩
    exact Charged.of_eq r (consumeRecvWindow_charged _ _ _ _ hid) rfl rfl

/-- **a DATA frame for a stream this side has reset** is ignored, but charged to the connection -/
theorem unknownStream_data_ignored (r : R) (fr : Frame) (wc : Bool) (hc : r.s.resetByUs.contains fr.stream = true)
    (ht : fr.typ = Gen.c_FrameData) : unknownStream r fr wc = (consumeConnWindow r fr.length, none) := by
  unfold unknownStream
  rw [if_pos hc]
  have : (fr.typ == Gen.c_FrameData) = true := by rw [ht]; rfl
  rw [if_pos this]

theorem unknownStream_data_charged (r : R) (fr : Frame) (wc : Bool) (hc : r.s.resetByUs.contains fr.stream = true)
    (ht : fr.typ = Gen.c_FrameData) : Charged r (unknownStream r fr wc).1 fr.length := by
  rw [unknownStream_data_ignored r fr wc hc ht]
  exact consumeConnWindow_charged r fr.length

/-! non-vacuity at step level: half the window is out; one more octet takes it below half: one increment of
2 097 153 and the window is full again -/
example : (consumeConnWindow { s := { recvWin := 2097152 } } 1).out.map Out.toString = ["WU(0,2097153)"] ∧
    (consumeConnWindow { s := { recvWin := 2097152 } } 1).s.recvWin = 4194304 := by decide +kernel
example : (consumeConnWindow { s := {} } 100).out.length = 0 ∧ (consumeConnWindow { s := {} } 100).s.recvWin = 4194204 := by
  decide +kernel

end H2.Server
