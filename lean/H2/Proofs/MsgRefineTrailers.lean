import H2.Proofs.MsgRefineReq
/-!
# C20 — refinement, the long shape with trailers: `HEADERS(END_HEADERS), DATA*, trailers HEADERS(END_HEADERS|END_STREAM)`

* `field_regular_keeps`, `loop_regular_keeps`, `pseudoOK_trailers` — a field accepted from a `regularSeen` state keeps the
  pseudo-header flags and `:path`: `validateRequestPseudoHeaders`, run again after the trailer block, still passes
* `request_headers'` — `request_headers` with `prevHdr = []` kept in view (the trailer frame's loop starts on the fragment alone)
* `last_trailers` — the trailer HEADERS frame (END_HEADERS | END_STREAM) through the body of the stream loop
* `long_request_trailers` — the whole request against `Msg.validate hs trailers dataLen`
-/
set_option linter.unusedSimpArgs false
namespace H2.Server.Lock
open H2.Server H2.Frame

/-! ## the trailer block cannot touch the pseudo-header bookkeeping -/

theorem field_regular_keeps (cfg : Msg.Cfg) (m m' : Msg.St) (f : MsgSpec.Field) (h : Msg.field cfg m f = .ok m')
    (hr : m.regularSeen = true) :
    m'.regularSeen = true ∧ m'.pMethod = m.pMethod ∧ m'.pScheme = m.pScheme ∧ m'.pPath = m.pPath ∧ m'.path = m.path := by
  have hu := Msg.field_ok_upd h
  by_cases hp : Msg.isPseudo f.1 = true
  · exfalso
    simp only [Msg.field, hp, hr, if_true] at h
    repeat' split at h
    all_goals cases h
  · subst hu
    simp only [Msg.upd, hp, Msg.bump, Bool.false_eq_true, if_false]
    repeat' split
    all_goals exact ⟨rfl, rfl, rfl, rfl, rfl⟩

theorem loop_regular_keeps (cfg : Msg.Cfg) (fs : List MsgSpec.Field) : ∀ (m m' : Msg.St), Msg.loop cfg m fs = .ok m' →
    m.regularSeen = true →
    m'.pMethod = m.pMethod ∧ m'.pScheme = m.pScheme ∧ m'.pPath = m.pPath ∧ m'.path = m.path := by
  induction fs with
  | nil => intro m m' h _; simp only [Msg.loop] at h; cases h; exact ⟨rfl, rfl, rfl, rfl⟩
  | cons f fs ih =>
    intro m m' h hr
    rw [loop_cons] at h
    cases hf : Msg.field cfg m f with
    | error e => rw [hf] at h; cases h
    | ok m1 =>
      rw [hf] at h
      obtain ⟨a, b, c, d, e⟩ := field_regular_keeps cfg m m1 f hf hr
      obtain ⟨b', c', d', e'⟩ := ih m1 m' h a
      exact ⟨b'.trans b, c'.trans c, d'.trans d, e'.trans e⟩

/-- **the pseudo-header test after the trailer block is the one after the request block** -/
theorem pseudoOK_trailers (cfg : Msg.Cfg) (tr : List MsgSpec.Field) (m mt : Msg.St)
    (h : Msg.loop cfg (Msg.startTrailers m) tr = .ok mt) : Msg.pseudoOK mt = Msg.pseudoOK m := by
  obtain ⟨a, b, c, d⟩ := loop_regular_keeps cfg tr _ mt h rfl
  simp only [Msg.pseudoOK, a, b, c, d, Msg.startTrailers]

/-! ## the record after an accepted HEADERS frame with END_HEADERS carries nothing over -/

theorem hf_block_prev (r : R) (uid : Nat) (fr : Frame) (st : Strm) (O : Strm → Prop) (ht : Tbl r uid st O)
    (htyp : fr.typ = Gen.c_FrameHeaders) (hst : st.state = .idle ∨ st.state = .open)
    (heh : Frame.hasFlag fr.flags Gen.c_FlagEndHeaders = true) (hok : (handleFrame r uid fr).2 = none)
    (st' : Strm) (hg : (handleFrame r uid fr).1.getStrm uid = some st') : st'.prevHdr = [] := by
  rcases hX : handleHeaderFrame r.s st fr with ⟨s1, st1, e1⟩
  have hb := hf_block r uid fr st O ht htyp hst heh s1 st1 e1 hX
  cases e1 with
  | some e => simp only at hb; rw [hb.1] at hok; cases hok
  | none =>
    simp only at hb
    cases hp : st1.prevHdr.isEmpty
    · rw [hb.1, hp] at hok; simp at hok
    · have := hb.2.1.get
      rw [hg] at this
      cases this
      simpa using hp

/-- the request's HEADERS frame, as `request_headers`, with `prevHdr = []` of the resulting record kept in view -/
theorem request_headers' (r : R) (uid : Nat) (fr : Frame) (rest : List Frame) (st : Strm) (O : Strm → Prop) (es : Bool)
    (prio : Option (Nat × Nat)) (frag : Bytes)
    (ht : Tbl r uid st O) (hf : Fresh st) (htyp : fr.typ = Gen.c_FrameHeaders)
    (hb : fr.body = .headers es true prio frag) (heh : Frame.hasFlag fr.flags Gen.c_FlagEndHeaders = true)
    (hes : Frame.hasFlag fr.flags Gen.c_FlagEndStream = false)
    (hprio : ∀ dep w, prio = some (dep, w) → (dep == st.id) = false)
    (hp : headersPrelude r fr = (r, true))
    (fs : List Hpack.Field) (d : Hpack.DecState) (hdec : decRun (frag.length + 1) r.s.dec true 0 frag = (fs, .clean d))
    (m : Msg.St) (hl : Msg.loop (cfgOf r.s.cfg) Msg.St.init (fs.map kv) = .ok m) (hps : Msg.pseudoOK m = true) :
    ∃ r1 st1, runReq r uid (fr :: rest) = runReq r1 uid rest ∧ Tbl r1 uid st1 O ∧ Body st st1 m ∧ st1.recvBody = 0 ∧
      st1.prevHdr = [] ∧ st1.body = st.body ∧ sig r1.out = sig r.out ∧ r1.s.dec = d ∧ r1.s.cfg = r.s.cfg := by
  have hh := hhf_headers r.s st fr es true prio frag hb hf.fin hprio
  rw [hf.prev] at hh
  simp only [List.nil_append] at hh
  have hgood0 : Strm.Good { st with fieldSeen := false, prevHdr := [] } := by
    refine ⟨?_, ?_⟩
    · show 0 ≤ st.contentLength
      rw [hf.cl]; exact Int.le_refl 0
    · show st.uri = st.path
      have : (msgSt st).path = [] := by rw [hf.msg]; rfl
      rw [hf.uri]; exact this.symm
  have hbf := block_frame r uid fr st { st with fieldSeen := false, prevHdr := [] } O ht htyp (.inl hf.state) heh frag hh rfl
    hgood0 rfl fs d hdec
  have hm0 : msgSt { st with fieldSeen := false, prevHdr := [] } = Msg.St.init := hf.msg
  rw [hm0, hl] at hbf
  simp only at hbf
  obtain ⟨st1, h1, h2, h3, h4, h5, h6, h7, h8⟩ := hbf
  have c := ctl_fields h4
  rw [validatePseudo_msg, h3, hps] at h1
  simp only [if_true] at h1
  have hprev : st1.prevHdr = [] := hf_block_prev r uid fr st O ht htyp (.inl hf.state) heh h1 { st1 with headersFinished := true } h2.get
  have hst1 : st1.state = .idle := c.2.2.1.trans hf.state
  have e0 : (Gen.c_FrameHeaders == Gen.c_FrameResetStream) = false := rfl
  have hstate : (handleState fr { st1 with headersFinished := true }).state = .open := by
    simp [handleState, htyp, e0, hst1, hes]
  have hS := handleState_eq fr { st1 with headersFinished := true }
  rw [hstate] at hS
  have hresp1 : st1.responded = false := c.2.2.2.2.2.1.trans hf.resp
  have hpend : Pending (handleState fr { st1 with headersFinished := true }) := by
    rw [hS]; exact ⟨hresp1, by simp, by simp⟩
  obtain ⟨k1, k2⟩ := knownStream_pending r uid fr _ O hp h1 h2 hpend
  rw [hS] at k2
  have kout : (knownStream r uid fr false).out = r.out := by rw [k1]; exact h6
  have hlen : ((sig (knownStream r uid fr false).out).length == (sig r.out).length) = true := by rw [kout]; simp
  exact ⟨knownStream r uid fr false, _, by simp only [runReq, hlen, if_true], k2,
    ⟨rfl, rfl, hresp1, h3, h5, c.2.1⟩, c.2.2.2.1.trans hf.recv, hprev, c.2.2.2.2.2.2, by rw [kout], by rw [k1]; exact h7,
    by rw [k1]; exact h8⟩

/-! ## the trailer frame -/

/-- **the trailer HEADERS frame (END_HEADERS | END_STREAM)** on the open stream whose request block was accepted: refused with
the answer `Msg.loop` over the trailer fields calls for, or the decision at END_STREAM on the state after the trailers -/
theorem last_trailers (r : R) (uid : Nat) (fr : Frame) (st0 st : Strm) (m : Msg.St) (ht : Tbl r uid st (Settled fr.stream))
    (hB : Body st0 st m) (hps : Msg.pseudoOK m = true) (hprev : st.prevHdr = []) (hid : st.id = fr.stream)
    (htyp : fr.typ = Gen.c_FrameHeaders) (es : Bool) (prio : Option (Nat × Nat)) (frag : Bytes)
    (hb : fr.body = .headers es true prio frag) (heh : Frame.hasFlag fr.flags Gen.c_FlagEndHeaders = true)
    (hes : Frame.hasFlag fr.flags Gen.c_FlagEndStream = true)
    (hprio : ∀ dep w, prio = some (dep, w) → (dep == st.id) = false)
    (fs : List Hpack.Field) (d : Hpack.DecState) (hdec : decRun (frag.length + 1) r.s.dec true 0 frag = (fs, .clean d)) :
    match Msg.loop (cfgOf r.s.cfg) (Msg.startTrailers m) (fs.map kv) with
    | .error v => ∃ o, sig (runReq r uid [fr]).out = sig r.out ++ [o] ∧ Answers st.id o v
    | .ok mt => sig (runReq r uid [fr]).out = sig r.out ++
        [match lastClause mt st.recvBody with
         | .dispatch => dispOut st.id mt.view st.body
         | _ => .rst st.id Gen.c_ProtocolError] := by
  have hp := prelude_ok r uid st fr ht hB.fin hid
  have hh := hhf_trailers r.s st fr es true prio frag hb hB.fin hes heh hprio
  rw [hprev] at hh
  simp only [List.nil_append] at hh
  have hgood0 : Strm.Good { st with regularSeen := true, fieldSeen := false, prevHdr := [] } := hB.good
  have hbf := block_frame r uid fr st { st with regularSeen := true, fieldSeen := false, prevHdr := [] } (Settled fr.stream) ht htyp
    (.inr hB.state) heh frag hh rfl hgood0 rfl fs d hdec
  have hm0 : msgSt { st with regularSeen := true, fieldSeen := false, prevHdr := [] } = Msg.startTrailers m := by
    rw [← hB.msg]; rfl
  rw [hm0] at hbf
  cases hl : Msg.loop (cfgOf r.s.cfg) (Msg.startTrailers m) (fs.map kv) with
  | error v =>
    simp only [hl] at hbf ⊢
    obtain ⟨e, st1, h1, h2, h3, h4, h5⟩ := hbf
    have c := ctl_fields h4
    refine ⟨_, runReq_refused r uid fr [] st1 e _ hp h1 h3 (c.2.2.2.2.2.1.trans hB.resp) (by rw [h5]), ?_⟩
    rw [← h2, ← c.2.1]
    exact errOut_answers _ _ _
  | ok mt =>
    simp only [hl] at hbf ⊢
    obtain ⟨st1, h1, h2, h3, h4, h5, h6, _, _⟩ := hbf
    have c := ctl_fields h4
    have hpm : Msg.pseudoOK mt = true := by rw [pseudoOK_trailers _ _ _ _ hl]; exact hps
    rw [validatePseudo_msg, h3, hpm] at h1
    simp only [if_true] at h1
    have hst1 : st1.state = .open := c.2.2.1.trans hB.state
    have e0 : (Gen.c_FrameHeaders == Gen.c_FrameResetStream) = false := rfl
    have hstate : (handleState fr { st1 with headersFinished := true }).state = .halfClosed := by
      simp [handleState, htyp, e0, hst1, hes]
    have hS := handleState_eq fr { st1 with headersFinished := true }
    rw [hstate] at hS
    have hresp1 : st1.responded = false := c.2.2.2.2.2.1.trans hB.resp
    have hk := knownStream_decides r uid fr _ hp h1 h2.get (by rw [hS]; exact ⟨rfl, rfl, hresp1⟩) (by rw [hS]; exact h5)
    rw [hS] at hk
    rw [runReq_single, hk, sig_append, h6]
    have hm : msgSt ({ st1 with headersFinished := true, state := StState.halfClosed } : Strm) = mt := h3
    rw [hm]
    simp only
    rw [show st1.recvBody = st.recvBody from c.2.2.2.1, show st1.id = st.id from c.2.1, show st1.body = st.body from c.2.2.2.2.2.2]
    cases lastClause mt st.recvBody <;> simp [sig, isWU, dispOut]

/-- **the long shape with trailers**: `HEADERS(END_HEADERS), DATA*, trailers HEADERS(END_HEADERS | END_STREAM)` on a fresh stream,
frame after frame through the body of the stream loop: exactly one answer besides WINDOW_UPDATEs — the dispatch record with
`Msg.requestView` iff `Msg.validate hs trailers dataLen = .dispatch`, otherwise the RST_STREAM / GOAWAY `Msg.validate` calls for -/
theorem long_request_trailers (r : R) (uid : Nat) (frH frT : Frame) (ds : List Frame) (st : Strm) (es esT : Bool)
    (prio prioT : Option (Nat × Nat)) (frag fragT : Bytes)
    (ht : Tbl r uid st (Settled st.id)) (hf : Fresh st) (htyp : frH.typ = Gen.c_FrameHeaders)
    (hb : frH.body = .headers es true prio frag) (heh : Frame.hasFlag frH.flags Gen.c_FlagEndHeaders = true)
    (hes : Frame.hasFlag frH.flags Gen.c_FlagEndStream = false)
    (hprio : ∀ dep w, prio = some (dep, w) → (dep == st.id) = false)
    (hp : headersPrelude r frH = (r, true))
    (fs : List Hpack.Field) (d : Hpack.DecState) (hdec : decRun (frag.length + 1) r.s.dec true 0 frag = (fs, .clean d))
    (hds : ∀ fr ∈ ds, PlainData fr)
    (hTt : frT.typ = Gen.c_FrameHeaders) (hTs : frT.stream = st.id) (hTb : frT.body = .headers esT true prioT fragT)
    (hTeh : Frame.hasFlag frT.flags Gen.c_FlagEndHeaders = true) (hTes : Frame.hasFlag frT.flags Gen.c_FlagEndStream = true)
    (hTprio : ∀ dep w, prioT = some (dep, w) → (dep == st.id) = false)
    (fsT : List Hpack.Field) (d2 : Hpack.DecState) (hdecT : decRun (fragT.length + 1) d true 0 fragT = (fsT, .clean d2)) :
    ∃ o, sig (runReq r uid (frH :: (ds ++ [frT]))).out = sig r.out ++ [o] ∧
      match Msg.validate (cfgOf r.s.cfg) (fs.map kv) (fsT.map kv) (tot ds) with
      | .dispatch => ∃ v body, Msg.requestView (cfgOf r.s.cfg) (fs.map kv) (fsT.map kv) (tot ds) = some v ∧ o = dispOut st.id v body
      | w => Answers st.id o w := by
  have hH := request_headers r uid frH (ds ++ [frT]) st _ es prio frag ht hf htyp hb heh hes hprio hp fs d hdec
  cases hl : Msg.loop (cfgOf r.s.cfg) Msg.St.init (fs.map kv) with
  | error v =>
    simp only [hl] at hH
    obtain ⟨o, h1, h2⟩ := hH
    refine ⟨o, h1, ?_⟩
    rw [validate_hs_error _ _ _ _ v hl]
    cases v <;> first | exact h2 | exact h2.elim
  | ok m =>
    simp only [hl] at hH
    cases hps : Msg.pseudoOK m
    · simp only [hps, Bool.false_eq_true, if_false] at hH
      refine ⟨_, hH, ?_⟩
      rw [validate_pseudo _ _ _ _ m hl hps]
      rfl
    · obtain ⟨r1, st1, h1, h2, hB, h4, hpv, hbd, h5, h6, h7⟩ :=
        request_headers' r uid frH (ds ++ [frT]) st _ es prio frag ht hf htyp hb heh hes hprio hp fs d hdec m hl hps
      have h0 : ¬ (0 < r1.s.cfg.maxBody ∧ r1.s.cfg.maxBody < st1.recvBody) := by rw [h4]; omega
      rcases data_frames uid (Settled st.id) [frT] ds r1 st1 h2 hds hB.fin hB.state hB.resp h0 with
        ⟨a, b⟩ | ⟨a, r2, st2, b1, b2, b3, b4, b5, b6⟩
      · rw [h7, h4] at b
        refine ⟨_, by rw [h1, a, h5], ?_⟩
        have hov : 0 < (cfgOf r.s.cfg).maxBody ∧ (cfgOf r.s.cfg).maxBody < tot ds := by
          simp only [cfgOf]; omega
        rw [validate_body _ _ _ _ m hl hps hov, hB.id]
        rfl
      · have hB2 : Body st st2 m := by
          rw [b3]
          exact ⟨hB.fin, hB.state, hB.resp, hB.msg, hB.good, hB.id⟩
        have hrecv : st2.recvBody = tot ds := by rw [b3]; simp [h4]
        have hprev2 : st2.prevHdr = [] := by rw [b3]; exact hpv
        have hid2 : st2.id = frT.stream := by rw [hTs]; exact hB2.id
        have b2' : Tbl r2 uid st2 (Settled frT.stream) := by rw [hTs]; exact b2
        have hTprio2 : ∀ dep w, prioT = some (dep, w) → (dep == st2.id) = false := by rw [hB2.id]; exact hTprio
        have hdecT2 : decRun (fragT.length + 1) r2.s.dec true 0 fragT = (fsT, .clean d2) := by rw [b5, h6]; exact hdecT
        have hL := last_trailers r2 uid frT st st2 m b2' hB2 hps hprev2 hid2 hTt esT prioT fragT hTb hTeh hTes hTprio2 fsT d2 hdecT2
        rw [b6, h7, hrecv, hB2.id] at hL
        rw [h7, h4] at a
        have hnov : ¬ (0 < (cfgOf r.s.cfg).maxBody ∧ (cfgOf r.s.cfg).maxBody < tot ds) := by
          simp only [cfgOf]; omega
        cases hlt : Msg.loop (cfgOf r.s.cfg) (Msg.startTrailers m) (fsT.map kv) with
        | error v =>
          simp only [hlt] at hL
          obtain ⟨o, e1, e2⟩ := hL
          refine ⟨o, by rw [h1, b1, e1, b4, h5], ?_⟩
          rw [validate_tr_error _ _ _ _ m v hl hps hnov hlt]
          cases v <;> first | exact e2 | exact e2.elim
        | ok mt =>
          simp only [hlt] at hL
          refine ⟨_, by rw [h1, b1, hL, b4, h5], ?_⟩
          have hve := validate_end (cfgOf r.s.cfg) (fs.map kv) (fsT.map kv) (tot ds) m mt hl hps hnov hlt
          rw [hve.1]
          cases hcl : lastClause mt (tot ds) with
          | dispatch =>
            simp only
            exact ⟨_, _, hve.2 hcl, rfl⟩
          | rst c =>
            simp only [lastClause] at hcl
            split at hcl
            · cases hcl; simp only [Answers]
            · cases hcl
          | goAway c =>
            simp only [lastClause] at hcl
            split at hcl <;> cases hcl

end H2.Server.Lock
