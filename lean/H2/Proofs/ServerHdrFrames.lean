import H2.Proofs.ServerOnce
/-!
# The frames of a response header block (property C18, SETTINGS_MAX_FRAME_SIZE; finding F33 repaired)

`writeHeaderBlock` (headers.go) is `cutBlock` + `blockOuts` in the full server model: the encoder's block is cut into
fragments of at most `maxDataFrameSize` = 16384 octets, the first goes out in the HEADERS frame, the others in
CONTINUATION frames.

* the fragments are a partition of the block (`cutBlock_whole`), none longer than the maximum (`cutBlock_le`), and only
  the first can be empty (`cutRest_ne`);
* `fragLen` projects the payload length out of HEADERS and CONTINUATION outputs; `fm fragLen` of the frames of a block is
  the list of its fragment lengths (`fm_fragLen_blockOuts`);
* run level, in the preservation style of `ServerOnce`: every function of the model other than `responseHeaders` adds
  nothing to `fm fragLen`, so every HEADERS/CONTINUATION output of EVERY run carries at most 16384 octets
  (`run_frags_le`).
-/
namespace H2.Server

/-! ## the cut -/

theorem cutRest_le (max fuel : Nat) (b : Bytes) : ∀ f ∈ cutRest max fuel b, f.length ≤ max := by
  induction fuel generalizing b with
  | zero => intro f h; simp [cutRest] at h
  | succ n ih =>
    intro f h
    simp only [cutRest] at h
    split at h
    · cases h
    · rcases List.mem_cons.mp h with rfl | h
      · simp only [List.length_take]; exact Nat.min_le_left _ _
      · exact ih _ f h

/-- the CONTINUATION loop never writes an empty frame -/
theorem cutRest_ne (max : Nat) (hm : 0 < max) (fuel : Nat) (b : Bytes) : ∀ f ∈ cutRest max fuel b, f ≠ [] := by
  induction fuel generalizing b with
  | zero => intro f h; simp [cutRest] at h
  | succ n ih =>
    intro f h
    simp only [cutRest] at h
    split at h
    · cases h
    · rename_i hb
      rcases List.mem_cons.mp h with rfl | h
      · cases b with
        | nil => simp at hb
        | cons c cs =>
          cases max with
          | zero => omega
          | succ m => simp
      · exact ih _ f h

theorem cutRest_flatten (max : Nat) (hm : 0 < max) (fuel : Nat) (b : Bytes) (hf : b.length ≤ fuel) :
    (cutRest max fuel b).flatten = b := by
  induction fuel generalizing b with
  | zero =>
    have : b = [] := List.eq_nil_of_length_eq_zero (by omega)
    subst this; rfl
  | succ n ih =>
    simp only [cutRest]
    split
    · rename_i hb
      have : b = [] := by simpa using hb
      subst this; rfl
    · rename_i hb
      have hne : b ≠ [] := by simpa using hb
      have hl : 0 < b.length := List.length_pos_iff.mpr hne
      rw [List.flatten_cons, ih (b.drop max) (by simp only [List.length_drop]; omega), List.take_append_drop]

/-- **the fragments are the block**: written one after the other they are the encoder's octets, nothing lost, nothing
added, nothing reordered -/
theorem cutBlock_whole (max : Nat) (hm : 0 < max) (b : Bytes) : (cutBlock max b).flatten = b := by
  simp only [cutBlock, List.flatten_cons]
  rw [cutRest_flatten max hm _ _ (by simp only [List.length_drop]; omega), List.take_append_drop]

/-- **no fragment is longer than the maximum** -/
theorem cutBlock_le (max : Nat) (b : Bytes) : ∀ f ∈ cutBlock max b, f.length ≤ max := by
  intro f h
  simp only [cutBlock] at h
  rcases List.mem_cons.mp h with rfl | h
  · simp only [List.length_take]; exact Nat.min_le_left _ _
  · exact cutRest_le _ _ _ f h

/-- the lengths of the pieces the `n` octets after the first `max` are written in -/
def restLens (max : Nat) : Nat → Nat → List Nat
  | 0, _ => []
  | fuel + 1, n => if n = 0 then [] else min max n :: restLens max fuel (n - max)

theorem cutRest_lens (max fuel : Nat) (b : Bytes) : (cutRest max fuel b).map List.length = restLens max fuel b.length := by
  induction fuel generalizing b with
  | zero => rfl
  | succ n ih =>
    simp only [cutRest, restLens]
    cases b with
    | nil => simp
    | cons c cs => simp [ih, List.length_take, List.length_drop]

/-- the frame sizes depend on the length of the block alone: `max`, `max`, …, and what is left -/
theorem cutBlock_lens (max : Nat) (b : Bytes) :
    (cutBlock max b).map List.length = min max b.length :: restLens max b.length (b.length - max) := by
  simp [cutBlock, cutRest_lens, List.length_take, List.length_drop]

/-! ## the payload lengths of the header-block frames in an output list -/

/-- the payload length of a HEADERS or CONTINUATION output -/
def fragLen : Out → Option Nat
  | .headers _ _ _ len _ _ => some len
  | .cont _ _ len _ _ => some len
  | _ => none

theorem fragLen_only : Only fragLen [.headers, .cont] := by
  intro o h; cases o <;> simp_all [Out.kind, fragLen]

theorem fm_fragLen_contOuts (sid : Nat) (fs : List (Bytes × Bytes)) (err : Bool) (frags : List Bytes) :
    fm fragLen (contOuts sid fs err frags) = frags.map List.length := by
  induction frags with
  | nil => rfl
  | cons f rest ih => simp [contOuts, fm_cons', fragLen, ih]

/-- the frames of a block carry its fragments: their payload lengths are the fragment lengths, in order -/
theorem fm_fragLen_blockOuts (sid : Nat) (es : Bool) (fs : List (Bytes × Bytes)) (err : Bool) (frags : List Bytes) :
    fm fragLen (blockOuts sid es fs err frags) = frags.map List.length := by
  cases frags with
  | nil => rfl
  | cons f rest => simp [blockOuts, fm_cons', fragLen, fm_fragLen_contOuts]

/-- the block `responseHeaders` encodes -/
def responseBlock (r : R) (resp : Resp) : Bytes := (encodeFields r.s.enc (responseFields resp)).2

/-- `responseHeaders` writes the frames of one block and nothing else: the encoder's block, cut at 16384 -/
theorem responseHeaders_block (r : R) (st : Strm) (resp : Resp) (hb : Bool) :
    ∃ fs e, (responseHeaders r st resp hb).out =
      r.out ++ blockOuts st.id (!hb) fs e (cutBlock Gen.c_maxDataFrameSize (responseBlock r resp)) := by
  simp only [responseHeaders, responseBlock]
  split <;> exact ⟨_, _, rfl⟩

theorem responseHeaders_frags (r : R) (st : Strm) (resp : Resp) (hb : Bool) :
    fm fragLen (responseHeaders r st resp hb).out =
      fm fragLen r.out ++ (cutBlock Gen.c_maxDataFrameSize (responseBlock r resp)).map List.length := by
  obtain ⟨fs, e, h⟩ := responseHeaders_block r st resp hb
  rw [h, fm_append, fm_fragLen_blockOuts]

/-! ## run level -/

/-- every header-block frame written so far is within the size every peer accepts -/
def FragsOK (l : List Out) : Prop := ∀ n ∈ fm fragLen l, n ≤ Gen.c_maxDataFrameSize

theorem FragsOK.nil : FragsOK [] := by intro n h; cases h

theorem FragsOK.append {a b : List Out} (ha : FragsOK a) (hb : FragsOK b) : FragsOK (a ++ b) := by
  intro n h
  rw [fm_append] at h
  rcases List.mem_append.mp h with h | h
  · exact ha n h
  · exact hb n h

theorem responseHeaders_fragsOK (r : R) (st : Strm) (resp : Resp) (hb : Bool) (h : FragsOK r.out) :
    FragsOK (responseHeaders r st resp hb).out := by
  intro n hn
  rw [responseHeaders_frags] at hn
  rcases List.mem_append.mp hn with hn | hn
  · exact h n hn
  · obtain ⟨f, hf, rfl⟩ := List.mem_map.mp hn
    exact cutBlock_le _ _ f hf

theorem fragsOK_of_fm {a b : List Out} (h : fm fragLen a = fm fragLen b) (hb : FragsOK b) : FragsOK a := by
  intro n hn; rw [h] at hn; exact hb n hn

theorem finishRequest_fragsOK (r : R) (uid : Nat) (resp : Resp) (h : FragsOK r.out) :
    FragsOK (finishRequest r uid resp).1.out := by
  have hs : ∀ (x : R) (u : Nat), fm fragLen (sendData x u).1.out = fm fragLen x.out :=
    fun x u => sendData_fm fragLen _ fragLen_only (by simp) x u
  simp only [finishRequest]
  repeat' split
  all_goals first
    | exact h
    | exact responseHeaders_fragsOK _ _ _ _ h
    | exact fragsOK_of_fm (by rw [hs]; rfl) (responseHeaders_fragsOK _ _ _ _ h)

theorem slHandlerDone_fragsOK (r : R) (sid : Nat) (resp : Resp) (h : FragsOK r.out) :
    FragsOK (slHandlerDone r sid resp).out := by
  have h0 : FragsOK (if resp.kind == "panic" then r.emit .handlerPanicLogged else r).out := by
    split
    · exact fragsOK_of_fm (by simp [fragLen]) h
    · exact h
  have hr : ∀ (x : R) (st : Strm), fm fragLen (releaseStream x st).out = fm fragLen x.out := by
    intro x st; rw [releaseStream_out]
  simp only [slHandlerDone]
  generalize (if resp.kind == "panic" then r.emit .handlerPanicLogged else r) = r0 at h0
  repeat' split
  all_goals first
    | exact h0
    | exact fragsOK_of_fm (by simp only [hr]) h0
    | (try simp only [stopLoop_out, closeDone_out]
       exact finishRequest_fragsOK _ _ _ (fragsOK_of_fm (by rfl) h0))

/-- **one step**: whatever the state and the event, the HEADERS and CONTINUATION frames the step writes carry at most
16384 octets each -/
theorem stepR_fragsOK (s : Srv) (ev : Event) : FragsOK (stepR s ev).out := by
  cases ev with
  | done sid resp =>
    apply fragsOK_of_fm (b := (slHandlerDone { s := s } sid resp).out)
    · simp [stepR, settle_fm fragLen _ fragLen_only (by simp [UpQuiet])]
    · exact slHandlerDone_fragsOK _ _ _ FragsOK.nil
  | bytes b =>
    have := stepR_fm_input fragLen _ fragLen_only (by simp [UpQuiet])
      (fun r uid st => dispatchOrSend_fm fragLen _ fragLen_only (by simp) r uid st) s (.bytes b) (by intro _ _ h; cases h)
    intro n hn; rw [this] at hn; cases hn
  | cut =>
    have := stepR_fm_input fragLen _ fragLen_only (by simp [UpQuiet])
      (fun r uid st => dispatchOrSend_fm fragLen _ fragLen_only (by simp) r uid st) s .cut (by intro _ _ h; cases h)
    intro n hn; rw [this] at hn; cases hn
  | idle =>
    have := stepR_fm_input fragLen _ fragLen_only (by simp [UpQuiet])
      (fun r uid st => dispatchOrSend_fm fragLen _ fragLen_only (by simp) r uid st) s .idle (by intro _ _ h; cases h)
    intro n hn; rw [this] at hn; cases hn

theorem runFrom_fragsOK (s : Srv) (evs : List Event) : FragsOK (runFrom s evs).2 := by
  induction evs generalizing s with
  | nil => exact FragsOK.nil
  | cons ev evs ih => exact FragsOK.append (stepR_fragsOK s ev) (ih _)

/-- **every run**: no HEADERS or CONTINUATION frame of any run of the full model carries more than 16384 octets -/
theorem run_frags_le (cfg : Cfg) (evs : List Event) : FragsOK (runOuts cfg evs) := runFrom_fragsOK _ evs

end H2.Server
