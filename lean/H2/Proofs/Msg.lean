import H2.Server.Abs.Msg
/-!
# C20 / C01 — proofs about the request-validation model `H2.Server.Msg`

1. bridges between the Boolean tests of the model and the predicates of the specification;
2. `parseUint` against `Digits` / `natVal`;
3. `acc_iff`: the field loop gets through a list (and the content-length test at dispatch passes) iff the
   list satisfies the clauses of `WFRequest`, relative to the flags the loop starts with;
4. `dispatched_iff_wf`, the refusal theorems;
5. the view the handler gets (`view_intact`, for C01), `chunk_invariance`.
-/
namespace H2.Server.Msg
open H2.Server.MsgSpec

/-! ## bridges -/

theorem hasUpper_eq_false {k : Bytes} : hasUpper k = false ↔ upperFree k := by
  unfold hasUpper upperFree
  rw [List.any_eq_false]
  constructor
  · intro h c hc hcc
    have := h c hc
    simp only [Bool.and_eq_true, decide_eq_true_eq, not_and, Nat.not_le] at this
    have := this hcc.1
    omega
  · intro h c hc
    have := h c hc
    simp only [Bool.and_eq_true, decide_eq_true_eq]
    exact this

theorem hasUpper_eq_true {k : Bytes} : hasUpper k = true ↔ ¬ upperFree k := by
  rw [← hasUpper_eq_false]; cases hasUpper k <;> simp

theorem isPseudo_eq_true {k : Bytes} : isPseudo k = true ↔ Pseudo k := by
  unfold isPseudo Pseudo; simp

theorem isPseudo_eq_false {k : Bytes} : isPseudo k = false ↔ ¬ Pseudo k := by
  rw [← isPseudo_eq_true]; cases isPseudo k <;> simp

theorem isConnSpecific_eq_true {k : Bytes} : isConnSpecific k = true ↔ ConnSpecific k := by
  unfold isConnSpecific ConnSpecific; simp

/-! ## parseUint -/

def step10 (a c : Nat) : Nat := a * 10 + (c - 48)

theorem natVal_eq (v : Bytes) : natVal v = v.foldl step10 0 := rfl

theorem foldl_step10_ge (v : Bytes) (a : Nat) : a ≤ v.foldl step10 a := by
  induction v generalizing a with
  | nil => simp
  | cons c cs ih =>
    simp only [List.foldl_cons]
    have := ih (step10 a c)
    unfold step10 at this ⊢
    omega

theorem parseUintAux_some {v : Bytes} {a n : Nat} (h : parseUintAux v a = some n) :
    (∀ c ∈ v, 48 ≤ c ∧ c ≤ 57) ∧ v.foldl step10 a = n ∧ (a ≤ maxInt → n ≤ maxInt) := by
  induction v generalizing a with
  | nil => simp [parseUintAux] at h; subst h; simp
  | cons c cs ih =>
    unfold parseUintAux at h
    split at h
    · cases h
    · split at h
      · cases h
      · rename_i h1 h2
        have := ih h
        refine ⟨?_, this.2.1, ?_⟩
        · intro x hx
          simp only [List.mem_cons] at hx
          rcases hx with rfl | hx
          · omega
          · exact this.1 x hx
        · intro _; exact this.2.2 (by omega)

theorem parseUintAux_none {v : Bytes} {a : Nat} (h : parseUintAux v a = none) :
    (∃ c ∈ v, ¬ (48 ≤ c ∧ c ≤ 57)) ∨ maxInt < v.foldl step10 a := by
  induction v generalizing a with
  | nil => simp [parseUintAux] at h
  | cons c cs ih =>
    unfold parseUintAux at h
    split at h
    · left; exact ⟨c, by simp, by omega⟩
    · split at h
      · right
        rename_i h1 h2
        simp only [List.foldl_cons]
        have := foldl_step10_ge cs (step10 a c)
        unfold step10 at this ⊢
        omega
      · rcases ih h with ⟨x, hx, hd⟩ | hgt
        · left; exact ⟨x, by simp [hx], hd⟩
        · right; simpa [List.foldl_cons, step10] using hgt

theorem parseUint_some {v : Bytes} {n : Nat} (h : parseUint v = some n) :
    Digits v ∧ natVal v = n ∧ n ≤ maxInt := by
  unfold parseUint at h
  split at h
  · cases h
  · rename_i hne
    have := parseUintAux_some h
    refine ⟨⟨?_, this.1⟩, this.2.1, this.2.2 (by decide)⟩
    intro he; subst he; simp at hne

theorem parseUint_none {v : Bytes} (h : parseUint v = none) : ¬ Digits v ∨ maxInt < natVal v := by
  unfold parseUint at h
  split at h
  · left; rename_i he; intro hd; exact hd.1 (by simpa using he)
  · rcases parseUintAux_none h with ⟨c, hc, hd⟩ | hgt
    · left; intro hdig; exact hd (hdig.2 c hc)
    · right; exact hgt

/-- `parseUint` is `1*DIGIT` read as an unbounded integer, as long as the value fits a Go `int` -/
theorem parseUint_iff {v : Bytes} {n : Nat} (hn : n ≤ maxInt) :
    parseUint v = some n ↔ Digits v ∧ natVal v = n := by
  constructor
  · intro h; exact ⟨(parseUint_some h).1, (parseUint_some h).2.1⟩
  · intro ⟨hd, hv⟩
    cases hp : parseUint v with
    | some m => have := (parseUint_some hp).2.1; simp_all
    | none =>
      rcases parseUint_none hp with h | h
      · exact absurd hd h
      · omega

/-! ## the field loop against the clauses of `WFRequest` -/

def fsize (f : Field) : Nat := f.1.length + f.2.length + 32
def total (fs : List Field) : Nat := (fs.map fsize).sum

/-- the header list stays within `MaxHeaderListSize` (or the limit is off) -/
def sizeWithin (cfg : Cfg) (n : Nat) : Prop := ¬ (0 < cfg.maxHeaderList ∧ cfg.maxHeaderList < (n : Int))

theorem sizeWithin_mono {cfg : Cfg} {a b : Nat} (h : sizeWithin cfg b) (hab : a ≤ b) : sizeWithin cfg a := by
  unfold sizeWithin at *; omega

/-- the limits the verdict is stated within: header list size, body size (declared and received) -/
structure Lim (cfg : Cfg) (st : St) (fs : List Field) (d : Nat) : Prop where
  size : sizeWithin cfg (st.listSize + total fs)
  body : 0 < cfg.maxBody → d ≤ cfg.maxBody
  int : d ≤ maxInt

/-- the loop gets through `fs` from `st`, and the content-length test of the dispatch passes for `d` octets -/
def Acc (cfg : Cfg) (st : St) (fs : List Field) (d : Nat) : Prop :=
  ∃ st', loop cfg st fs = .ok st' ∧ (st'.hasCL = true → st'.cl = d)

def b2n (b : Bool) : Nat := if b then 1 else 0
def cnt (p : Bytes) (fs : List Field) : Nat := fs.countP fun f => f.1 = p

/-- the clauses of `WFRequest` for a list `fs` that continues a message: relative to what has been seen
before it (`rs`: a regular field; `pM … pA`: the pseudo-headers; `hc`, `c`: a content-length and its value) -/
structure Cond (rs pM pS pP pA hc : Bool) (c : Nat) (fs : List Field) (d : Nat) : Prop where
  lower : ∀ f ∈ fs, upperFree f.1
  order : fs.Pairwise fun a b => Pseudo b.1 → Pseudo a.1
  first : rs = true → ∀ f ∈ fs, ¬ Pseudo f.1
  known : ∀ f ∈ fs, Pseudo f.1 → f.1 ∈ requestPseudo
  onceM : cnt sMethod fs + b2n pM ≤ 1
  onceS : cnt sScheme fs + b2n pS ≤ 1
  onceP : cnt sPath fs + b2n pP ≤ 1
  onceA : cnt sAuthority fs + b2n pA ≤ 1
  noConn : ∀ f ∈ fs, ¬ ConnSpecific f.1
  te : ∀ f ∈ fs, TEok f
  cl : ∀ f ∈ fs, f.1 = sContentLength → Digits f.2 ∧ natVal f.2 = d
  clSt : hc = true → c = d

abbrev CondSt (st : St) (fs : List Field) (d : Nat) : Prop :=
  Cond st.regularSeen st.pMethod st.pScheme st.pPath st.pAuthority st.hasCL st.cl fs d

theorem acc_nil (cfg : Cfg) (st : St) (d : Nat) : Acc cfg st [] d ↔ (st.hasCL = true → st.cl = d) := by
  simp [Acc, loop]

theorem acc_cons (cfg : Cfg) (st : St) (f : Field) (fs : List Field) (d : Nat) :
    Acc cfg st (f :: fs) d ↔ ∃ st1, field cfg st f = .ok st1 ∧ Acc cfg st1 fs d := by
  unfold Acc
  simp only [loop]
  constructor
  · rintro ⟨st', h, hcl⟩
    cases hf : field cfg st f with
    | error e => simp [hf] at h
    | ok st1 => simp only [hf] at h; exact ⟨st1, rfl, st', h, hcl⟩
  · rintro ⟨st1, hf, st', h, hcl⟩
    exact ⟨st', by simp only [hf]; exact h, hcl⟩

theorem cond_nil {rs pM pS pP pA hc : Bool} {c d : Nat} : Cond rs pM pS pP pA hc c [] d ↔ (hc = true → c = d) := by
  constructor
  · intro h; exact h.clSt
  · intro h
    refine ⟨by simp, by simp, by simp, by simp, ?_, ?_, ?_, ?_, by simp, by simp, by simp, h⟩ <;>
      (simp [cnt, b2n]; split <;> omega)

theorem cond_iff {rs pM pS pP pA hc : Bool} {c : Nat} {fs : List Field} {d : Nat} :
    Cond rs pM pS pP pA hc c fs d ↔
      (∀ f ∈ fs, upperFree f.1) ∧ (fs.Pairwise fun a b => Pseudo b.1 → Pseudo a.1) ∧
      (rs = true → ∀ f ∈ fs, ¬ Pseudo f.1) ∧ (∀ f ∈ fs, Pseudo f.1 → f.1 ∈ requestPseudo) ∧
      cnt sMethod fs + b2n pM ≤ 1 ∧ cnt sScheme fs + b2n pS ≤ 1 ∧ cnt sPath fs + b2n pP ≤ 1 ∧
      cnt sAuthority fs + b2n pA ≤ 1 ∧ (∀ f ∈ fs, ¬ ConnSpecific f.1) ∧ (∀ f ∈ fs, TEok f) ∧
      (∀ f ∈ fs, f.1 = sContentLength → Digits f.2 ∧ natVal f.2 = d) ∧ (hc = true → c = d) :=
  ⟨fun h => ⟨h.1, h.2, h.3, h.4, h.5, h.6, h.7, h.8, h.9, h.10, h.11, h.12⟩,
   fun ⟨h1, h2, h3, h4, h5, h6, h7, h8, h9, h10, h11, h12⟩ => ⟨h1, h2, h3, h4, h5, h6, h7, h8, h9, h10, h11, h12⟩⟩

theorem cnt_cons (p : Bytes) (f : Field) (fs : List Field) :
    cnt p (f :: fs) = cnt p fs + (if f.1 = p then 1 else 0) := by
  simp [cnt, List.countP_cons]

section names
variable {rs pM pS pP pA hc : Bool} {c : Nat} {f : Field} {fs : List Field} {d : Nat}

theorem teok_of_ne (h : f.1 ≠ Gen.s_StringTE) : TEok f := fun e => absurd e h

theorem cond_cons_method (hk : f.1 = sMethod) :
    Cond rs pM pS pP pA hc c (f :: fs) d ↔ rs = false ∧ pM = false ∧ Cond rs true pS pP pA hc c fs d := by
  have n7 : TEok f := teok_of_ne (by rw [hk]; decide)
  simp only [cond_iff, List.forall_mem_cons, List.pairwise_cons, cnt_cons, hk]
  cases rs <;> cases pM <;>
    simp [b2n, n7, (by decide : Pseudo sMethod), (by decide : upperFree sMethod), (by decide : sMethod ≠ sScheme),
      (by decide : sMethod ≠ sPath), (by decide : sMethod ≠ sAuthority), (by decide : sMethod ≠ sContentLength),
      (by decide : ¬ ConnSpecific sMethod), (by decide : sMethod ∈ requestPseudo)]

theorem cond_cons_scheme (hk : f.1 = sScheme) :
    Cond rs pM pS pP pA hc c (f :: fs) d ↔ rs = false ∧ pS = false ∧ Cond rs pM true pP pA hc c fs d := by
  have n7 : TEok f := teok_of_ne (by rw [hk]; decide)
  simp only [cond_iff, List.forall_mem_cons, List.pairwise_cons, cnt_cons, hk]
  cases rs <;> cases pS <;>
    simp [b2n, n7, (by decide : Pseudo sScheme), (by decide : upperFree sScheme), (by decide : sScheme ≠ sMethod),
      (by decide : sScheme ≠ sPath), (by decide : sScheme ≠ sAuthority), (by decide : sScheme ≠ sContentLength),
      (by decide : ¬ ConnSpecific sScheme), (by decide : sScheme ∈ requestPseudo)]

theorem cond_cons_path (hk : f.1 = sPath) :
    Cond rs pM pS pP pA hc c (f :: fs) d ↔ rs = false ∧ pP = false ∧ Cond rs pM pS true pA hc c fs d := by
  have n7 : TEok f := teok_of_ne (by rw [hk]; decide)
  simp only [cond_iff, List.forall_mem_cons, List.pairwise_cons, cnt_cons, hk]
  cases rs <;> cases pP <;>
    simp [b2n, n7, (by decide : Pseudo sPath), (by decide : upperFree sPath), (by decide : sPath ≠ sMethod),
      (by decide : sPath ≠ sScheme), (by decide : sPath ≠ sAuthority), (by decide : sPath ≠ sContentLength),
      (by decide : ¬ ConnSpecific sPath), (by decide : sPath ∈ requestPseudo)]

theorem cond_cons_authority (hk : f.1 = sAuthority) :
    Cond rs pM pS pP pA hc c (f :: fs) d ↔ rs = false ∧ pA = false ∧ Cond rs pM pS pP true hc c fs d := by
  have n7 : TEok f := teok_of_ne (by rw [hk]; decide)
  simp only [cond_iff, List.forall_mem_cons, List.pairwise_cons, cnt_cons, hk]
  cases rs <;> cases pA <;>
    simp [b2n, n7, (by decide : Pseudo sAuthority), (by decide : upperFree sAuthority), (by decide : sAuthority ≠ sMethod),
      (by decide : sAuthority ≠ sScheme), (by decide : sAuthority ≠ sPath), (by decide : sAuthority ≠ sContentLength),
      (by decide : ¬ ConnSpecific sAuthority), (by decide : sAuthority ∈ requestPseudo)]

/-- a regular field other than content-length -/
theorem cond_cons_regular (hp : ¬ Pseudo f.1) (hcl : f.1 ≠ sContentLength) :
    Cond rs pM pS pP pA hc c (f :: fs) d ↔
      upperFree f.1 ∧ ¬ ConnSpecific f.1 ∧ TEok f ∧ Cond true pM pS pP pA hc c fs d := by
  have m1 : f.1 ≠ sMethod := fun e => hp (by rw [e]; decide)
  have m2 : f.1 ≠ sScheme := fun e => hp (by rw [e]; decide)
  have m3 : f.1 ≠ sPath := fun e => hp (by rw [e]; decide)
  have m4 : f.1 ≠ sAuthority := fun e => hp (by rw [e]; decide)
  simp only [cond_iff, List.forall_mem_cons, List.pairwise_cons, cnt_cons]
  simp only [hp, m1, m2, m3, m4, hcl, ↓reduceIte, Nat.add_zero, false_implies, imp_false, true_and, not_false_eq_true]
  constructor
  · intro h; grind
  · intro h; grind

/-- a content-length field -/
theorem cond_cons_cl (hk : f.1 = sContentLength) :
    Cond rs pM pS pP pA hc c (f :: fs) d ↔
      (Digits f.2 ∧ natVal f.2 = d) ∧ (hc = true → c = d) ∧ Cond true pM pS pP pA true d fs d := by
  have n7 : TEok f := teok_of_ne (by rw [hk]; decide)
  simp only [cond_iff, List.forall_mem_cons, List.pairwise_cons, cnt_cons, hk]
  simp only [(by decide : ¬ Pseudo sContentLength), (by decide : upperFree sContentLength),
    (by decide : sContentLength ≠ sMethod), (by decide : sContentLength ≠ sScheme), (by decide : sContentLength ≠ sPath),
    (by decide : sContentLength ≠ sAuthority), (by decide : ¬ ConnSpecific sContentLength), n7,
    ↓reduceIte, Nat.add_zero, false_implies, imp_false, true_and, not_false_eq_true, forall_const]
  constructor
  · intro h; grind
  · intro h; grind

end names
/-! ### one iteration of the loop, by the kind of the field -/

/-- the size test as `field` writes it -/
def sizeOver (cfg : Cfg) (st : St) (f : Field) : Prop :=
  0 < cfg.maxHeaderList ∧ cfg.maxHeaderList < ((st.listSize + f.1.length + f.2.length + 32 : Nat) : Int)

/-- the running header-list size is updated before anything else -/
def bump (st : St) (f : Field) : St := { st with listSize := st.listSize + f.1.length + f.2.length + 32 }

theorem not_sizeOver {cfg : Cfg} {st : St} {f : Field} (h : sizeWithin cfg (st.listSize + fsize f)) :
    ¬ sizeOver cfg st f := by
  unfold sizeOver; unfold sizeWithin fsize at h
  rw [show st.listSize + f.1.length + f.2.length + 32 = st.listSize + (f.1.length + f.2.length + 32) by omega]
  exact h

section kinds
variable {cfg : Cfg} {st : St} {f : Field}

theorem field_size (hsz : sizeOver cfg st f) : field cfg st f = .error eListSize := by
  unfold sizeOver at hsz
  simp only [field, hsz, and_self, ↓reduceIte]

theorem field_upper (hsz : ¬ sizeOver cfg st f) (hu : hasUpper f.1 = true) : field cfg st f = .error eProtocol := by
  unfold sizeOver at hsz
  simp only [field, hsz, hu, ↓reduceIte]

theorem field_method (hsz : ¬ sizeOver cfg st f) (hu : hasUpper f.1 = false) (hk : f.1 = Gen.s_StringMethod) :
    field cfg st f = if st.regularSeen then .error eProtocol else if st.pMethod then .error eProtocol
      else .ok { bump st f with pMethod := true, method := f.2 } := by
  have hp : isPseudo f.1 = true := by rw [hk]; decide
  have hkT : (f.1 = Gen.s_StringMethod) = True := eq_true hk
  unfold sizeOver at hsz
  simp only [field, hu, hp, hkT, hsz, Bool.false_eq_true, ↓reduceIte, bump]

theorem field_path (hsz : ¬ sizeOver cfg st f) (hu : hasUpper f.1 = false) (hk : f.1 = Gen.s_StringPath) :
    field cfg st f = if st.regularSeen then .error eProtocol else if st.pPath then .error eProtocol
      else .ok { bump st f with pPath := true, path := f.2 } := by
  have hp : isPseudo f.1 = true := by rw [hk]; decide
  have hkT : (f.1 = Gen.s_StringPath) = True := eq_true hk
  have n1 : (f.1 = Gen.s_StringMethod) = False := eq_false (by rw [hk]; decide)
  unfold sizeOver at hsz
  simp only [field, hu, hp, hkT, n1, hsz, Bool.false_eq_true, ↓reduceIte, bump]

theorem field_scheme (hsz : ¬ sizeOver cfg st f) (hu : hasUpper f.1 = false) (hk : f.1 = Gen.s_StringScheme) :
    field cfg st f = if st.regularSeen then .error eProtocol else if st.pScheme then .error eProtocol
      else .ok { bump st f with pScheme := true } := by
  have hp : isPseudo f.1 = true := by rw [hk]; decide
  have hkT : (f.1 = Gen.s_StringScheme) = True := eq_true hk
  have n1 : (f.1 = Gen.s_StringMethod) = False := eq_false (by rw [hk]; decide)
  have n2 : (f.1 = Gen.s_StringPath) = False := eq_false (by rw [hk]; decide)
  unfold sizeOver at hsz
  simp only [field, hu, hp, hkT, n1, n2, hsz, Bool.false_eq_true, ↓reduceIte, bump]

theorem field_authority (hsz : ¬ sizeOver cfg st f) (hu : hasUpper f.1 = false) (hk : f.1 = Gen.s_StringAuthority) :
    field cfg st f = if st.regularSeen then .error eProtocol else if st.pAuthority then .error eProtocol
      else .ok { bump st f with pAuthority := true, authority := f.2 } := by
  have hp : isPseudo f.1 = true := by rw [hk]; decide
  have hkT : (f.1 = Gen.s_StringAuthority) = True := eq_true hk
  have n1 : (f.1 = Gen.s_StringMethod) = False := eq_false (by rw [hk]; decide)
  have n2 : (f.1 = Gen.s_StringPath) = False := eq_false (by rw [hk]; decide)
  have n3 : (f.1 = Gen.s_StringScheme) = False := eq_false (by rw [hk]; decide)
  unfold sizeOver at hsz
  simp only [field, hu, hp, hkT, n1, n2, n3, hsz, Bool.false_eq_true, ↓reduceIte, bump]

theorem field_pseudo_unknown (hsz : ¬ sizeOver cfg st f) (hu : hasUpper f.1 = false) (hp : isPseudo f.1 = true)
    (n1 : f.1 ≠ Gen.s_StringMethod) (n2 : f.1 ≠ Gen.s_StringPath) (n3 : f.1 ≠ Gen.s_StringScheme)
    (n4 : f.1 ≠ Gen.s_StringAuthority) : field cfg st f = .error eProtocol := by
  unfold sizeOver at hsz
  simp only [field, hu, hp, n1, n2, n3, n4, hsz, Bool.false_eq_true, ↓reduceIte, ite_self]

/-- a regular field: what is left of the loop body -/
theorem field_regular (hsz : ¬ sizeOver cfg st f) (hu : hasUpper f.1 = false) (hp : isPseudo f.1 = false) :
    field cfg st f =
      if isConnSpecific f.1 then .error eProtocol
      else if f.1 = Gen.s_StringTE ∧ f.2 ≠ Gen.s_StringTrailers then .error eProtocol
      else if f.1 = Gen.s_StringUserAgent then .ok { bump st f with regularSeen := true, userAgent := some f.2 }
      else if f.1 = Gen.s_StringContentType then .ok { bump st f with regularSeen := true, contentType := some f.2 }
      else if f.1 = Gen.s_StringContentLength then
        match parseUint f.2 with
        | none => .error eProtocol
        | some n =>
          if st.hasCL ∧ n ≠ st.cl then .error eProtocol
          else if 0 < cfg.maxBody ∧ cfg.maxBody < n then .error eTooLarge
          else .ok { bump st f with regularSeen := true, hasCL := true, cl := n }
      else .ok { bump st f with regularSeen := true, fields := st.fields ++ [(f.1, f.2)] } := by
  unfold sizeOver at hsz
  simp only [field, hu, hp, hsz, Bool.false_eq_true, ↓reduceIte, bump]
  rfl

end kinds

/-! ### the loop against the clauses -/

theorem lim_cons {cfg : Cfg} {st st1 : St} {f : Field} {fs : List Field} {d : Nat} (hl : Lim cfg st (f :: fs) d)
    (h1 : st1.listSize = st.listSize + f.1.length + f.2.length + 32) : Lim cfg st1 fs d := by
  refine ⟨?_, hl.body, hl.int⟩
  have := hl.size
  simp only [total, List.map_cons, List.sum_cons, fsize] at this ⊢
  rw [h1]
  exact sizeWithin_mono this (by omega)

theorem lim_head {cfg : Cfg} {st : St} {f : Field} {fs : List Field} {d : Nat} (hl : Lim cfg st (f :: fs) d) :
    ¬ sizeOver cfg st f := by
  apply not_sizeOver
  have := hl.size
  simp only [total, List.map_cons, List.sum_cons] at this
  exact sizeWithin_mono this (by omega)

/-- **the core of C20**: within the limits, the field loop gets through `fs` and the content-length test
passes for `d` DATA octets iff `fs` satisfies the clauses of a well-formed request, relative to the flags the
loop starts with. -/
theorem acc_iff (cfg : Cfg) (fs : List Field) :
    ∀ (st : St) (d : Nat), Lim cfg st fs d → (Acc cfg st fs d ↔ CondSt st fs d) := by
  induction fs with
  | nil => intro st d _; rw [acc_nil]; exact cond_nil.symm
  | cons f fs ih =>
    intro st d hl
    have hsz := lim_head hl
    rw [acc_cons]
    by_cases hu : hasUpper f.1 = true
    · -- an upper-case letter in the name
      rw [field_upper hsz hu]
      constructor
      · rintro ⟨_, h, _⟩; cases h
      · intro h; exact absurd (h.lower f (by simp)) (hasUpper_eq_true.mp hu)
    · simp only [Bool.not_eq_true] at hu
      have hlow : upperFree f.1 := hasUpper_eq_false.mp hu
      by_cases hp : isPseudo f.1 = true
      · have hps : Pseudo f.1 := isPseudo_eq_true.mp hp
        by_cases k1 : f.1 = Gen.s_StringMethod
        · rw [field_method hsz hu k1, show CondSt st (f :: fs) d ↔ _ from cond_cons_method k1]
          cases hrs : st.regularSeen <;> cases hpm : st.pMethod <;> simp
          rw [ih _ d (lim_cons hl rfl)]
          simp [CondSt, bump, hrs]
        · by_cases k2 : f.1 = Gen.s_StringPath
          · rw [field_path hsz hu k2, show CondSt st (f :: fs) d ↔ _ from cond_cons_path k2]
            cases hrs : st.regularSeen <;> cases hpm : st.pPath <;> simp
            rw [ih _ d (lim_cons hl rfl)]
            simp [CondSt, bump, hrs]
          · by_cases k3 : f.1 = Gen.s_StringScheme
            · rw [field_scheme hsz hu k3, show CondSt st (f :: fs) d ↔ _ from cond_cons_scheme k3]
              cases hrs : st.regularSeen <;> cases hpm : st.pScheme <;> simp
              rw [ih _ d (lim_cons hl rfl)]
              simp [CondSt, bump, hrs]
            · by_cases k4 : f.1 = Gen.s_StringAuthority
              · rw [field_authority hsz hu k4, show CondSt st (f :: fs) d ↔ _ from cond_cons_authority k4]
                cases hrs : st.regularSeen <;> cases hpm : st.pAuthority <;> simp
                rw [ih _ d (lim_cons hl rfl)]
                simp [CondSt, bump, hrs]
              · -- a pseudo-header that is not a request pseudo-header
                rw [field_pseudo_unknown hsz hu hp k1 k2 k3 k4]
                constructor
                · rintro ⟨_, h, _⟩; cases h
                · intro h
                  have := h.known f (by simp) hps
                  simp [requestPseudo, sMethod, sScheme, sPath, sAuthority, k1, k2, k3, k4] at this
      · simp only [Bool.not_eq_true] at hp
        have hnp : ¬ Pseudo f.1 := isPseudo_eq_false.mp hp
        rw [field_regular hsz hu hp]
        by_cases c1 : isConnSpecific f.1 = true
        · simp only [c1, ↓reduceIte]
          constructor
          · rintro ⟨_, h, _⟩; cases h
          · intro h; exact absurd (isConnSpecific_eq_true.mp c1) (h.noConn f (by simp))
        · have hnc : ¬ ConnSpecific f.1 := fun h => c1 (isConnSpecific_eq_true.mpr h)
          simp only [c1, Bool.false_eq_true, ↓reduceIte]
          by_cases c2 : f.1 = Gen.s_StringTE ∧ f.2 ≠ Gen.s_StringTrailers
          · simp only [c2, ne_eq, not_false_eq_true, and_self, ↓reduceIte]
            constructor
            · rintro ⟨_, h, _⟩; cases h
            · intro h; exact absurd (h.te f (by simp) c2.1) c2.2
          · have hte : TEok f := by
              intro e; by_cases e2 : f.2 = Gen.s_StringTrailers
              · exact e2
              · exact absurd ⟨e, e2⟩ c2
            rw [if_neg c2]
            by_cases c5 : f.1 = Gen.s_StringContentLength
            · -- content-length
              have nua : f.1 ≠ Gen.s_StringUserAgent := by rw [c5]; decide
              have nct : f.1 ≠ Gen.s_StringContentType := by rw [c5]; decide
              rw [if_neg nua, if_neg nct, if_pos c5, show CondSt st (f :: fs) d ↔ _ from cond_cons_cl c5]
              cases hpu : parseUint f.2 with
              | none =>
                simp only
                constructor
                · rintro ⟨_, h, _⟩; cases h
                · rintro ⟨⟨hd, hv⟩, _⟩
                  rcases parseUint_none hpu with h | h
                  · exact absurd hd h
                  · have := hl.int; omega
              | some n =>
                simp only
                have hn := parseUint_some hpu
                constructor
                · rintro ⟨st1, h, hacc⟩
                  split at h
                  · cases h
                  · split at h
                    · cases h
                    · rename_i h1 h2
                      cases h
                      rw [ih _ d (lim_cons hl rfl)] at hacc
                      have hnd : n = d := hacc.clSt rfl
                      subst hnd
                      refine ⟨⟨hn.1, hn.2.1⟩, ?_, ?_⟩
                      · intro hc
                        have : ¬ (st.hasCL = true ∧ n ≠ st.cl) := h1
                        simp only [hc, true_and, ne_eq, Decidable.not_not] at this
                        exact this.symm
                      · simpa [CondSt, bump] using hacc
                · rintro ⟨⟨hd, hv⟩, hc, hcond⟩
                  have hnd : n = d := by rw [← hn.2.1, hv]
                  subst hnd
                  have h1 : ¬ (st.hasCL = true ∧ n ≠ st.cl) := by
                    rintro ⟨a, b⟩; exact b (hc a).symm
                  have h2 : ¬ (0 < cfg.maxBody ∧ cfg.maxBody < n) := by
                    rintro ⟨a, b⟩; have := hl.body a; omega
                  refine ⟨_, by rw [if_neg h1, if_neg h2], ?_⟩
                  rw [ih _ n (lim_cons hl rfl)]
                  simpa [CondSt, bump] using hcond
            · -- any other regular field
              rw [show CondSt st (f :: fs) d ↔ _ from cond_cons_regular hnp c5]
              have key : ∀ st1 : St, st1.listSize = st.listSize + f.1.length + f.2.length + 32 →
                  st1.regularSeen = true → st1.pMethod = st.pMethod → st1.pScheme = st.pScheme → st1.pPath = st.pPath →
                  st1.pAuthority = st.pAuthority → st1.hasCL = st.hasCL → st1.cl = st.cl →
                  ((∃ st2, (Except.ok st1 : Except Verdict St) = .ok st2 ∧ Acc cfg st2 fs d) ↔
                    upperFree f.1 ∧ ¬ ConnSpecific f.1 ∧ TEok f ∧
                      Cond true st.pMethod st.pScheme st.pPath st.pAuthority st.hasCL st.cl fs d) := by
                intro st1 e0 e1 e2 e3 e4 e5 e6 e7
                have := ih st1 d (lim_cons hl e0)
                simp only [CondSt, e1, e2, e3, e4, e5, e6, e7] at this
                constructor
                · rintro ⟨st2, h, hacc⟩; cases h; exact ⟨hlow, hnc, hte, this.mp hacc⟩
                · rintro ⟨_, _, _, h⟩; exact ⟨st1, rfl, this.mpr h⟩
              by_cases c3 : f.1 = Gen.s_StringUserAgent
              · rw [if_pos c3]; exact key _ rfl rfl rfl rfl rfl rfl rfl rfl
              · rw [if_neg c3]
                by_cases c4 : f.1 = Gen.s_StringContentType
                · rw [if_pos c4]; exact key _ rfl rfl rfl rfl rfl rfl rfl rfl
                · rw [if_neg c4, if_neg c5]; exact key _ rfl rfl rfl rfl rfl rfl rfl rfl

/-! ## what an accepted list leaves behind -/

/-- the bookkeeping of one accepted field (what `field` returns when it accepts) -/
def upd (st : St) (f : Field) : St :=
  let st := bump st f
  if isPseudo f.1 then
    if f.1 = Gen.s_StringMethod then { st with pMethod := true, method := f.2 }
    else if f.1 = Gen.s_StringPath then { st with pPath := true, path := f.2 }
    else if f.1 = Gen.s_StringScheme then { st with pScheme := true }
    else if f.1 = Gen.s_StringAuthority then { st with pAuthority := true, authority := f.2 }
    else st
  else
    let st := { st with regularSeen := true }
    if f.1 = Gen.s_StringUserAgent then { st with userAgent := some f.2 }
    else if f.1 = Gen.s_StringContentType then { st with contentType := some f.2 }
    else if f.1 = Gen.s_StringContentLength then
      match parseUint f.2 with
      | some n => { st with hasCL := true, cl := n }
      | none => st
    else { st with fields := st.fields ++ [(f.1, f.2)] }

theorem field_ok_upd {cfg : Cfg} {st st1 : St} {f : Field} (h : field cfg st f = .ok st1) : st1 = upd st f := by
  by_cases hsz : sizeOver cfg st f
  · rw [field_size hsz] at h; cases h
  by_cases hu : hasUpper f.1 = true
  · rw [field_upper hsz hu] at h; cases h
  simp only [Bool.not_eq_true] at hu
  by_cases hp : isPseudo f.1 = true
  · by_cases k1 : f.1 = Gen.s_StringMethod
    · rw [field_method hsz hu k1] at h
      split at h
      · cases h
      · split at h
        · cases h
        · cases h; simp [upd, hp, eq_true k1]
    by_cases k2 : f.1 = Gen.s_StringPath
    · rw [field_path hsz hu k2] at h
      split at h
      · cases h
      · split at h
        · cases h
        · cases h; simp [upd, hp, k1, eq_true k2]
    by_cases k3 : f.1 = Gen.s_StringScheme
    · rw [field_scheme hsz hu k3] at h
      split at h
      · cases h
      · split at h
        · cases h
        · cases h; simp [upd, hp, k1, k2, eq_true k3]
    by_cases k4 : f.1 = Gen.s_StringAuthority
    · rw [field_authority hsz hu k4] at h
      split at h
      · cases h
      · split at h
        · cases h
        · cases h; simp [upd, hp, k1, k2, k3, eq_true k4]
    rw [field_pseudo_unknown hsz hu hp k1 k2 k3 k4] at h; cases h
  · simp only [Bool.not_eq_true] at hp
    rw [field_regular hsz hu hp] at h
    split at h
    · cases h
    split at h
    · cases h
    split at h
    · rename_i c3; cases h; simp [upd, hp, eq_true c3]
    split at h
    · rename_i c3 c4; cases h; simp [upd, hp, c3, eq_true c4]
    split at h
    · rename_i c3 c4 c5
      split at h
      · cases h
      · rename_i n hn
        split at h
        · cases h
        split at h
        · cases h
        · cases h; simp [upd, hp, c3, c4, eq_true c5, hn]
    · rename_i c3 c4 c5; cases h; simp [upd, hp, c3, c4, c5, bump]

theorem loop_ok_fold {cfg : Cfg} {fs : List Field} : ∀ {st st' : St}, loop cfg st fs = .ok st' → st' = fs.foldl upd st := by
  induction fs with
  | nil => intro st st' h; simp [loop] at h; simp [h]
  | cons f fs ih =>
    intro st st' h
    simp only [loop] at h
    cases hf : field cfg st f with
    | error e => simp [hf] at h
    | ok st1 =>
      simp only [hf] at h
      rw [List.foldl_cons, ← field_ok_upd hf]
      exact ih h

/-- the view-relevant part of one `upd`, in closed form -/
theorem upd_view (st : St) (f : Field) :
    (upd st f).method = (if f.1 = sMethod then f.2 else st.method) ∧
    (upd st f).path = (if f.1 = sPath then f.2 else st.path) ∧
    (upd st f).authority = (if f.1 = sAuthority then f.2 else st.authority) ∧
    (upd st f).contentType = (if f.1 = sContentType then some f.2 else st.contentType) ∧
    (upd st f).userAgent = (if f.1 = sUserAgent then some f.2 else st.userAgent) ∧
    (upd st f).fields = st.fields ++ (if plain f then [f] else []) ∧
    (upd st f).pMethod = (st.pMethod || decide (f.1 = sMethod)) ∧
    (upd st f).pScheme = (st.pScheme || decide (f.1 = sScheme)) ∧
    (upd st f).pPath = (st.pPath || decide (f.1 = sPath)) := by
  obtain ⟨k, v⟩ := f
  by_cases k1 : k = sMethod
  · subst k1; simp +decide [upd, bump, plain]
  by_cases k2 : k = sPath
  · subst k2; simp +decide [upd, bump, plain]
  by_cases k3 : k = sScheme
  · subst k3; simp +decide [upd, bump, plain]
  by_cases k4 : k = sAuthority
  · subst k4; simp +decide [upd, bump, plain]
  by_cases k5 : k = sUserAgent
  · subst k5; simp +decide [upd, bump, plain]
  by_cases k6 : k = sContentType
  · subst k6; simp +decide [upd, bump, plain]
  by_cases k7 : k = sContentLength
  · subst k7; simp +decide [upd, bump, plain]; split <;> simp
  · have e1 : k ≠ Gen.s_StringMethod := k1
    have e2 : k ≠ Gen.s_StringPath := k2
    have e3 : k ≠ Gen.s_StringScheme := k3
    have e4 : k ≠ Gen.s_StringAuthority := k4
    have e5 : k ≠ Gen.s_StringUserAgent := k5
    have e6 : k ≠ Gen.s_StringContentType := k6
    have e7 : k ≠ Gen.s_StringContentLength := k7
    by_cases hp : isPseudo k = true
    · have : (k.head? == some 58) = true := hp
      simp [upd, bump, plain, hp, k1, k2, k3, k4, k5, k6, e1, e2, e3, e4, this]
    · simp only [Bool.not_eq_true] at hp
      have : (k.head? == some 58) = false := hp
      simp [upd, bump, plain, hp, k1, k2, k3, k4, k5, k6, k7, e5, e6, e7, this]

theorem lastOf_cons (n : Bytes) (f : Field) (fs : List Field) :
    lastOf n (f :: fs) = (lastOf n fs).or (if f.1 = n then some f.2 else none) := by
  unfold lastOf
  by_cases h : f.1 = n
  · simp only [List.filter_cons, h, decide_true, ↓reduceIte, List.getLast?_cons]
    cases (List.filter (fun f => decide (f.1 = n)) fs).getLast? <;> simp
  · simp [h]

theorem lastOf_append (n : Bytes) (a b : List Field) : lastOf n (a ++ b) = (lastOf n b).or (lastOf n a) := by
  unfold lastOf
  rw [List.filter_append, List.getLast?_append]
  cases (List.filter (fun f => decide (f.1 = n)) b).getLast? <;> simp

theorem lastOf_none_of_forall {n : Bytes} {fs : List Field} (h : ∀ f ∈ fs, f.1 ≠ n) : lastOf n fs = none := by
  unfold lastOf
  have : List.filter (fun f => decide (f.1 = n)) fs = [] := by
    rw [List.filter_eq_nil_iff]; intro f hf; simpa using h f hf
  simp [this]

/-- what a list of accepted fields leaves in the request, in closed form -/
theorem fold_view (fs : List Field) : ∀ st : St,
    (fs.foldl upd st).method = (lastOf sMethod fs).getD st.method ∧
    (fs.foldl upd st).path = (lastOf sPath fs).getD st.path ∧
    (fs.foldl upd st).authority = (lastOf sAuthority fs).getD st.authority ∧
    (fs.foldl upd st).contentType = (lastOf sContentType fs).or st.contentType ∧
    (fs.foldl upd st).userAgent = (lastOf sUserAgent fs).or st.userAgent ∧
    (fs.foldl upd st).fields = st.fields ++ fs.filter plain ∧
    (fs.foldl upd st).pMethod = (st.pMethod || fs.any fun f => decide (f.1 = sMethod)) ∧
    (fs.foldl upd st).pScheme = (st.pScheme || fs.any fun f => decide (f.1 = sScheme)) ∧
    (fs.foldl upd st).pPath = (st.pPath || fs.any fun f => decide (f.1 = sPath)) := by
  induction fs with
  | nil => intro st; simp [lastOf]
  | cons f fs ih =>
    intro st
    obtain ⟨u1, u2, u3, u4, u5, u6, u7, u8, u9⟩ := upd_view st f
    obtain ⟨i1, i2, i3, i4, i5, i6, i7, i8, i9⟩ := ih (upd st f)
    simp only [List.foldl_cons, lastOf_cons, List.filter_cons, List.any_cons]
    refine ⟨?_, ?_, ?_, ?_, ?_, ?_, ?_, ?_, ?_⟩
    · rw [i1, u1]; cases lastOf sMethod fs <;> by_cases h : f.1 = sMethod <;> simp [h]
    · rw [i2, u2]; cases lastOf sPath fs <;> by_cases h : f.1 = sPath <;> simp [h]
    · rw [i3, u3]; cases lastOf sAuthority fs <;> by_cases h : f.1 = sAuthority <;> simp [h]
    · rw [i4, u4]; cases lastOf sContentType fs <;> by_cases h : f.1 = sContentType <;> simp [h]
    · rw [i5, u5]; cases lastOf sUserAgent fs <;> by_cases h : f.1 = sUserAgent <;> simp [h]
    · rw [i6, u6]; cases plain f <;> simp
    · rw [i7, u7]; simp [Bool.or_assoc]
    · rw [i8, u8]; simp [Bool.or_assoc]
    · rw [i9, u9]; simp [Bool.or_assoc]

/-! ## errors: which, and why -/

theorem upd_listSize (st : St) (f : Field) : (upd st f).listSize = st.listSize + f.1.length + f.2.length + 32 := by
  unfold upd bump
  simp only
  repeat' split
  all_goals rfl

theorem fold_listSize (fs : List Field) : ∀ st : St, (fs.foldl upd st).listSize = st.listSize + total fs := by
  induction fs with
  | nil => intro st; simp [total]
  | cons f fs ih =>
    intro st
    rw [List.foldl_cons, ih, upd_listSize]
    simp only [total, List.map_cons, List.sum_cons, fsize]; omega

/-- a declared length above `MaxRequestBodySize` -/
def clOver (cfg : Cfg) (f : Field) : Prop :=
  f.1 = sContentLength ∧ ∃ n, parseUint f.2 = some n ∧ 0 < cfg.maxBody ∧ cfg.maxBody < n

theorem field_error {cfg : Cfg} {st : St} {f : Field} {e : Verdict} (h : field cfg st f = .error e) :
    e = eProtocol ∨ (e = eListSize ∧ sizeOver cfg st f) ∨ (e = eTooLarge ∧ clOver cfg f) := by
  by_cases hsz : sizeOver cfg st f
  · rw [field_size hsz] at h; cases h; exact .inr (.inl ⟨rfl, hsz⟩)
  by_cases hu : hasUpper f.1 = true
  · rw [field_upper hsz hu] at h; cases h; exact .inl rfl
  simp only [Bool.not_eq_true] at hu
  by_cases hp : isPseudo f.1 = true
  · by_cases k1 : f.1 = Gen.s_StringMethod
    · rw [field_method hsz hu k1] at h
      repeat' split at h
      all_goals first | (cases h; exact .inl rfl) | cases h
    by_cases k2 : f.1 = Gen.s_StringPath
    · rw [field_path hsz hu k2] at h
      repeat' split at h
      all_goals first | (cases h; exact .inl rfl) | cases h
    by_cases k3 : f.1 = Gen.s_StringScheme
    · rw [field_scheme hsz hu k3] at h
      repeat' split at h
      all_goals first | (cases h; exact .inl rfl) | cases h
    by_cases k4 : f.1 = Gen.s_StringAuthority
    · rw [field_authority hsz hu k4] at h
      repeat' split at h
      all_goals first | (cases h; exact .inl rfl) | cases h
    rw [field_pseudo_unknown hsz hu hp k1 k2 k3 k4] at h; cases h; exact .inl rfl
  · simp only [Bool.not_eq_true] at hp
    rw [field_regular hsz hu hp] at h
    split at h
    · cases h; exact .inl rfl
    split at h
    · cases h; exact .inl rfl
    split at h
    · cases h
    split at h
    · cases h
    split at h
    · rename_i c5
      split at h
      · cases h; exact .inl rfl
      · rename_i n hn
        split at h
        · cases h; exact .inl rfl
        split at h
        · rename_i hb; cases h; exact .inr (.inr ⟨rfl, c5, n, hn, hb⟩)
        · cases h
    · cases h

theorem loop_error {cfg : Cfg} {fs : List Field} : ∀ {st : St} {e : Verdict}, loop cfg st fs = .error e →
    e = eProtocol ∨ (e = eListSize ∧ ¬ sizeWithin cfg (st.listSize + total fs)) ∨
      (e = eTooLarge ∧ ∃ f ∈ fs, clOver cfg f) := by
  induction fs with
  | nil => intro st e h; simp [loop] at h
  | cons f fs ih =>
    intro st e h
    simp only [loop] at h
    cases hf : field cfg st f with
    | error e' =>
      simp only [hf] at h; cases h
      rcases field_error hf with h1 | ⟨h1, h2⟩ | ⟨h1, h2⟩
      · exact .inl h1
      · refine .inr (.inl ⟨h1, ?_⟩)
        intro hw
        apply not_sizeOver (sizeWithin_mono hw _) h2
        simp only [total, List.map_cons, List.sum_cons]; omega
      · exact .inr (.inr ⟨h1, f, by simp, h2⟩)
    | ok st1 =>
      simp only [hf] at h
      rcases ih h with h1 | ⟨h1, h2⟩ | ⟨h1, g, hg, h2⟩
      · exact .inl h1
      · refine .inr (.inl ⟨h1, ?_⟩)
        rw [field_ok_upd hf, upd_listSize] at h2
        simp only [total, List.map_cons, List.sum_cons, fsize] at h2 ⊢
        intro hw; apply h2; exact sizeWithin_mono hw (by omega)
      · exact .inr (.inr ⟨h1, g, by simp [hg], h2⟩)

/-! ## chunks -/

theorem loop_append (cfg : Cfg) (a b : List Field) : ∀ st : St,
    loop cfg st (a ++ b) = match loop cfg st a with
      | .error e => .error e
      | .ok st' => loop cfg st' b := by
  induction a with
  | nil => intro st; simp [loop]
  | cons f a ih =>
    intro st
    simp only [List.cons_append, loop]
    cases field cfg st f with
    | error e => rfl
    | ok st1 => exact ih st1

/-- **chunk invariance**: however a field list is cut into consecutive chunks (HEADERS / CONTINUATION
boundaries), running the loop chunk by chunk gives what running it over the whole list gives -/
theorem chunk_invariance (cfg : Cfg) (cs : List (List Field)) : ∀ st : St,
    loopChunks cfg st cs = loop cfg st cs.flatten := by
  induction cs with
  | nil => intro st; simp [loopChunks, loop]
  | cons c cs ih =>
    intro st
    simp only [loopChunks, List.flatten_cons, loop_append]
    cases loop cfg st c with
    | error e => rfl
    | ok st1 => exact ih st1

/-! ## the whole message -/

/-- the limits inside which C20 is stated (exceeding them is answered, by design, with ENHANCE_YOUR_CALM) -/
structure WithinLimits (cfg : Cfg) (hs trailers : List Field) (d : Nat) : Prop where
  /-- header list (request block and trailers together) within `MaxHeaderListSize` -/
  list : sizeWithin cfg (total (hs ++ trailers))
  /-- DATA received within `MaxRequestBodySize` -/
  body : 0 < cfg.maxBody → d ≤ cfg.maxBody
  /-- every declared length within `MaxRequestBodySize` -/
  declared : 0 < cfg.maxBody → ∀ f ∈ hs ++ trailers, f.1 = sContentLength → Digits f.2 → natVal f.2 ≤ cfg.maxBody
  /-- the octet count is a Go `int` -/
  int : d ≤ maxInt

theorem total_append (a b : List Field) : total (a ++ b) = total a + total b := by
  simp [total, List.map_append, List.sum_append]

theorem pairwise_of_no_pseudo {l : List Field} (h : ∀ f ∈ l, ¬ Pseudo f.1) :
    l.Pairwise fun a b => Pseudo b.1 → Pseudo a.1 := by
  induction l with
  | nil => simp
  | cons a l ih =>
    rw [List.pairwise_cons]
    exact ⟨fun b hb hp => absurd hp (h b (by simp [hb])), ih fun f hf => h f (by simp [hf])⟩

theorem cnt_zero_of_no_pseudo {l : List Field} {p : Bytes} (hp : Pseudo p) (h : ∀ f ∈ l, ¬ Pseudo f.1) : cnt p l = 0 := by
  unfold cnt
  rw [List.countP_eq_zero]
  intro f hf
  simp only [decide_eq_true_eq]
  intro e; exact h f hf (by rw [e]; exact hp)

/-- the clauses for a trailer block (a regular field has been seen: `startTrailers`) -/
theorem cond_trailers {pM pS pP pA hc : Bool} {c : Nat} {tr : List Field} {d : Nat} :
    Cond true pM pS pP pA hc c tr d ↔
      (∀ f ∈ tr, upperFree f.1 ∧ ¬ Pseudo f.1 ∧ ¬ ConnSpecific f.1 ∧ TEok f) ∧
      (∀ f ∈ tr, f.1 = sContentLength → Digits f.2 ∧ natVal f.2 = d) ∧ (hc = true → c = d) := by
  constructor
  · intro h
    exact ⟨fun f hf => ⟨h.lower f hf, h.first rfl f hf, h.noConn f hf, h.te f hf⟩, h.cl, h.clSt⟩
  · rintro ⟨h1, h2, h3⟩
    have np : ∀ f ∈ tr, ¬ Pseudo f.1 := fun f hf => (h1 f hf).2.1
    have b : ∀ b : Bool, b2n b ≤ 1 := by intro b; cases b <;> simp [b2n]
    refine ⟨fun f hf => (h1 f hf).1, pairwise_of_no_pseudo np, fun _ => np, fun f hf hp => absurd hp (np f hf),
      ?_, ?_, ?_, ?_, fun f hf => (h1 f hf).2.2.1, fun f hf => (h1 f hf).2.2.2, h2, h3⟩
    · rw [cnt_zero_of_no_pseudo (by decide) np]; have := b pM; omega
    · rw [cnt_zero_of_no_pseudo (by decide) np]; have := b pS; omega
    · rw [cnt_zero_of_no_pseudo (by decide) np]; have := b pP; omega
    · rw [cnt_zero_of_no_pseudo (by decide) np]; have := b pA; omega

theorem lastOf_some_mem {n : Bytes} {fs : List Field} {v : Bytes} (h : lastOf n fs = some v) :
    ∃ f ∈ fs, f.1 = n ∧ f.2 = v := by
  unfold lastOf at h
  simp only [Option.map_eq_some_iff] at h
  obtain ⟨f, hf, hv⟩ := h
  have := List.mem_of_getLast? hf
  simp only [List.mem_filter, decide_eq_true_eq] at this
  exact ⟨f, this.1, this.2, hv⟩

/-- a name that occurs at most once: its last value is the value of any field carrying it -/
theorem lastOf_of_once {n : Bytes} {fs : List Field} (hc : cnt n fs ≤ 1) {f : Field} (hf : f ∈ fs) (hn : f.1 = n) :
    lastOf n fs = some f.2 := by
  induction fs with
  | nil => simp at hf
  | cons g fs ih =>
    rw [cnt_cons] at hc
    rw [lastOf_cons]
    simp only [List.mem_cons] at hf
    rcases hf with rfl | hf
    · have h0 : cnt f.1 fs = 0 := by simp only [hn, ↓reduceIte] at hc; subst hn; omega
      have : lastOf n fs = none := by
        apply lastOf_none_of_forall
        intro x hx e
        unfold cnt at h0
        rw [List.countP_eq_zero] at h0
        exact h0 x hx (by simp [e, hn])
      simp [this, hn]
    · by_cases hg : g.1 = n
      · exfalso
        simp only [hg, ↓reduceIte] at hc
        have : 0 < cnt n fs := by
          unfold cnt; rw [List.countP_pos_iff]; exact ⟨f, hf, by simp [hn]⟩
        omega
      · simp only [hg, ↓reduceIte, Nat.add_zero] at hc
        rw [ih hc hf]; simp [hg]

theorem valueOf_eq_lastOf {n : Bytes} {fs : List Field} (hc : cnt n fs ≤ 1) :
    valueOf n fs = (lastOf n fs).getD [] := by
  induction fs with
  | nil => simp [valueOf, lastOf]
  | cons g fs ih =>
    rw [cnt_cons] at hc
    by_cases hg : g.1 = n
    · simp only [hg, ↓reduceIte] at hc
      have h0 : cnt n fs = 0 := by omega
      have : lastOf n fs = none := by
        apply lastOf_none_of_forall
        intro x hx e
        unfold cnt at h0
        rw [List.countP_eq_zero] at h0
        exact h0 x hx (by simp [e])
      rw [lastOf_cons, this]
      simp [valueOf, hg]
    · simp only [hg, ↓reduceIte, Nat.add_zero] at hc
      rw [lastOf_cons]
      have := ih hc
      simp only [valueOf, List.find?_cons, hg, decide_false] at this ⊢
      rw [this]; simp

/-- when `validate` dispatches, in terms of the two runs of the loop -/
theorem validate_dispatch_iff (cfg : Cfg) (hs tr : List Field) (d : Nat) :
    validate cfg hs tr d = .dispatch ↔
      ∃ st, loop cfg St.init hs = .ok st ∧ pseudoOK st = true ∧ ¬ (0 < cfg.maxBody ∧ cfg.maxBody < d) ∧
        Acc cfg (startTrailers st) tr d := by
  unfold validate message Acc
  cases h1 : loop cfg St.init hs with
  | error e =>
    simp only [false_and, exists_false, iff_false, reduceCtorEq]
    rcases loop_error h1 with h | ⟨h, _⟩ | ⟨h, _⟩ <;> subst h <;> simp [eProtocol, eListSize, eTooLarge]
  | ok st =>
    simp only [Except.ok.injEq, exists_eq_left']
    cases hp : pseudoOK st with
    | false => simp [eProtocol]
    | true =>
      simp only [Bool.not_true, Bool.false_eq_true, ↓reduceIte, true_and]
      by_cases hb : 0 < cfg.maxBody ∧ cfg.maxBody < d
      · simp [hb, eTooLarge]
      · simp only [hb, ↓reduceIte, not_false_eq_true, true_and]
        cases h2 : loop cfg (startTrailers st) tr with
        | error e =>
          simp only [false_and, exists_false, iff_false, reduceCtorEq]
          rcases loop_error h2 with h | ⟨h, _⟩ | ⟨h, _⟩ <;> subst h <;> simp [eProtocol, eListSize, eTooLarge]
        | ok st' =>
          simp only [Except.ok.injEq, exists_eq_left']
          by_cases hc : st'.hasCL = true ∧ st'.cl ≠ d
          · rw [if_pos hc]
            simp only [eProtocol, reduceCtorEq, false_iff]
            intro h; exact hc.2 (h hc.1)
          · rw [if_neg hc]
            simp only [true_iff]
            intro h; by_cases e : st'.cl = d
            · exact e
            · exact absurd ⟨h, e⟩ hc

/-- vocabulary: no `content-length` among the trailers (RFC 7230 §4.1.2 forbids it there; neither RFC says
what a receiver does with one) -/
def NoTrailerCL (tr : List Field) : Prop := ∀ f ∈ tr, f.1 ≠ sContentLength

theorem lim_init {cfg : Cfg} {hs tr : List Field} {d : Nat} (hl : WithinLimits cfg hs tr d) : Lim cfg St.init hs d := by
  refine ⟨?_, hl.body, hl.int⟩
  have := hl.list
  rw [total_append] at this
  exact sizeWithin_mono this (by simp [St.init])

theorem lim_trailers {cfg : Cfg} {hs tr : List Field} {d : Nat} (hl : WithinLimits cfg hs tr d) {st : St}
    (h : loop cfg St.init hs = .ok st) : Lim cfg (startTrailers st) tr d := by
  refine ⟨?_, hl.body, hl.int⟩
  have := hl.list
  rw [total_append] at this
  have e : (startTrailers st).listSize = total hs := by
    rw [loop_ok_fold h]; simp [startTrailers, fold_listSize, St.init]
  rw [e]; exact this

theorem any_name_iff {n : Bytes} {fs : List Field} : (fs.any fun f => decide (f.1 = n)) = true ↔ ∃ f ∈ fs, f.1 = n := by
  simp [List.any_eq_true]

/-- **C20, server half**: within the limits, a complete request is dispatched iff it is well-formed. -/
theorem dispatched_iff_wf (cfg : Cfg) (hs tr : List Field) (d : Nat) (hl : WithinLimits cfg hs tr d)
    (hv : NoTrailerCL tr) : validate cfg hs tr d = .dispatch ↔ WFRequest hs tr d := by
  rw [validate_dispatch_iff]
  have hb : ¬ (0 < cfg.maxBody ∧ cfg.maxBody < d) := by rintro ⟨a, b⟩; have := hl.body a; omega
  constructor
  · rintro ⟨st, h1, hp, _, hacc⟩
    rw [acc_iff cfg tr _ d (lim_trailers hl h1)] at hacc
    have htr := cond_trailers.mp (show Cond true st.pMethod st.pScheme st.pPath st.pAuthority st.hasCL st.cl tr d from hacc)
    have hacc1 : Acc cfg St.init hs d := ⟨st, h1, htr.2.2⟩
    rw [acc_iff cfg hs _ d (lim_init hl)] at hacc1
    have hfold := loop_ok_fold h1
    obtain ⟨_, v2, _, _, _, _, v7, v8, v9⟩ := fold_view hs St.init
    rw [← hfold] at v2 v7 v8 v9
    simp only [pseudoOK, Bool.and_eq_true, Bool.not_eq_true', List.isEmpty_eq_false_iff] at hp
    obtain ⟨⟨⟨p1, p2⟩, p3⟩, p4⟩ := hp
    rw [v7] at p1; rw [v8] at p2; rw [v9] at p3
    simp only [St.init, Bool.false_or] at p1 p2 p3
    have hpath : ∃ f ∈ hs, f.1 = sPath ∧ f.2 ≠ [] := by
      rw [v2] at p4
      cases hlo : lastOf sPath hs with
      | none => simp [hlo, St.init] at p4
      | some v =>
        obtain ⟨f, hf, e1, e2⟩ := lastOf_some_mem hlo
        refine ⟨f, hf, e1, ?_⟩
        rw [e2]; simpa [hlo] using p4
    exact ⟨hacc1.lower, hacc1.order, hacc1.known,
      (by
        intro p hp
        simp only [requestPseudo, List.mem_cons, List.not_mem_nil, or_false] at hp
        have b0 : b2n false = 0 := rfl
        rcases hp with rfl | rfl | rfl | rfl
        · have := hacc1.onceM; simpa [cnt, St.init, b0] using this
        · have := hacc1.onceS; simpa [cnt, St.init, b0] using this
        · have := hacc1.onceP; simpa [cnt, St.init, b0] using this
        · have := hacc1.onceA; simpa [cnt, St.init, b0] using this),
      any_name_iff.mp p1, any_name_iff.mp p2, hpath, hacc1.noConn, hacc1.te, hacc1.cl, htr.1⟩
  · intro wf
    have honce : ∀ p ∈ requestPseudo, cnt p hs ≤ 1 := fun p hp => by have := wf.once p hp; simpa [cnt] using this
    have hc1 : CondSt St.init hs d :=
      ⟨wf.lower, wf.order, by simp [St.init], wf.known,
        by simpa [St.init, b2n] using honce sMethod (by simp [requestPseudo]),
        by simpa [St.init, b2n] using honce sScheme (by simp [requestPseudo]),
        by simpa [St.init, b2n] using honce sPath (by simp [requestPseudo]),
        by simpa [St.init, b2n] using honce sAuthority (by simp [requestPseudo]),
        wf.noConn, wf.te, wf.cl, by simp [St.init]⟩
    obtain ⟨st, h1, hcl⟩ := (acc_iff cfg hs _ d (lim_init hl)).mpr hc1
    have hfold := loop_ok_fold h1
    obtain ⟨_, v2, _, _, _, _, v7, v8, v9⟩ := fold_view hs St.init
    rw [← hfold] at v2 v7 v8 v9
    refine ⟨st, h1, ?_, hb, ?_⟩
    · obtain ⟨f, hf, e1, e2⟩ := wf.path
      have hlo := lastOf_of_once (honce sPath (by simp [requestPseudo])) hf e1
      simp only [pseudoOK, Bool.and_eq_true, Bool.not_eq_true', List.isEmpty_eq_false_iff]
      refine ⟨⟨⟨?_, ?_⟩, ?_⟩, ?_⟩
      · rw [v7]; simp only [St.init, Bool.false_or]; exact any_name_iff.mpr wf.method
      · rw [v8]; simp only [St.init, Bool.false_or]; exact any_name_iff.mpr wf.scheme
      · rw [v9]; simp only [St.init, Bool.false_or]; exact any_name_iff.mpr ⟨f, hf, e1⟩
      · rw [v2, hlo]; simpa using e2
    · rw [acc_iff cfg tr _ d (lim_trailers hl h1)]
      exact cond_trailers.mpr ⟨wf.trailers, fun f hf e => absurd e (hv f hf), hcl⟩

/-- every verdict `validate` can give, with the reason for the two that are not about well-formedness -/
theorem validate_cases (cfg : Cfg) (hs tr : List Field) (d : Nat) :
    validate cfg hs tr d = .dispatch ∨ validate cfg hs tr d = eProtocol ∨
    (validate cfg hs tr d = eListSize ∧ ¬ sizeWithin cfg (total (hs ++ tr))) ∨
    (validate cfg hs tr d = eTooLarge ∧ ((0 < cfg.maxBody ∧ cfg.maxBody < d) ∨ ∃ f ∈ hs ++ tr, clOver cfg f)) := by
  unfold validate message
  cases h1 : loop cfg St.init hs with
  | error e =>
    simp only
    rcases loop_error h1 with h | ⟨h, h2⟩ | ⟨h, g, hg, h2⟩
    · exact .inr (.inl h)
    · refine .inr (.inr (.inl ⟨h, fun hw => h2 (sizeWithin_mono hw ?_)⟩))
      rw [total_append]; simp [St.init]
    · exact .inr (.inr (.inr ⟨h, .inr ⟨g, by simp [hg], h2⟩⟩))
  | ok st =>
    simp only
    cases hp : pseudoOK st with
    | false => exact .inr (.inl (by simp))
    | true =>
      simp only [Bool.not_true, Bool.false_eq_true, ↓reduceIte]
      by_cases hb : 0 < cfg.maxBody ∧ cfg.maxBody < d
      · rw [if_pos hb]; exact .inr (.inr (.inr ⟨rfl, .inl hb⟩))
      · rw [if_neg hb]
        cases h2 : loop cfg (startTrailers st) tr with
        | error e =>
          simp only
          rcases loop_error h2 with h | ⟨h, h3⟩ | ⟨h, g, hg, h3⟩
          · exact .inr (.inl h)
          · refine .inr (.inr (.inl ⟨h, fun hw => h3 ?_⟩))
            have e : (startTrailers st).listSize = total hs := by
              rw [loop_ok_fold h1]; simp [startTrailers, fold_listSize, St.init]
            rw [e, ← total_append]; exact hw
          · exact .inr (.inr (.inr ⟨h, .inr ⟨g, by simp [hg], h3⟩⟩))
        | ok st' =>
          simp only
          by_cases hc : st'.hasCL = true ∧ st'.cl ≠ d
          · rw [if_pos hc]; exact .inr (.inl rfl)
          · rw [if_neg hc]; exact .inl rfl

/-- **a malformed request is refused on its stream alone**: within the limits the only verdicts are dispatch and
RST_STREAM(PROTOCOL_ERROR) -/
theorem refused_stream_scoped (cfg : Cfg) (hs tr : List Field) (d : Nat) (hl : WithinLimits cfg hs tr d) :
    validate cfg hs tr d = .dispatch ∨ validate cfg hs tr d = .rst Gen.c_ProtocolError := by
  rcases validate_cases cfg hs tr d with h | h | ⟨_, h⟩ | ⟨_, h | ⟨f, hf, hk, n, hn, h0, hgt⟩⟩
  · exact .inl h
  · exact .inr h
  · exact absurd hl.list h
  · have := hl.body h.1; omega
  · have hp := parseUint_some hn
    have := hl.declared h0 f hf hk hp.1
    omega

/-- whatever the limits: never a connection error, except GOAWAY(ENHANCE_YOUR_CALM) for a header list over
`MaxHeaderListSize` -/
theorem goaway_only_for_list_size (cfg : Cfg) (hs tr : List Field) (d : Nat) (c : Nat)
    (h : validate cfg hs tr d = .goAway c) : c = Gen.c_EnhanceYourCalm ∧ ¬ sizeWithin cfg (total (hs ++ tr)) := by
  rcases validate_cases cfg hs tr d with h1 | h1 | ⟨h1, h2⟩ | ⟨h1, _⟩
  · rw [h1] at h; cases h
  · rw [h1] at h; cases h
  · rw [h1] at h; cases h; exact ⟨rfl, h2⟩
  · rw [h1] at h; cases h

/-! ## the request view (C01) -/

theorem requestView_of_dispatch {cfg : Cfg} {hs tr : List Field} {d : Nat} (h : validate cfg hs tr d = .dispatch) :
    ∃ st st', loop cfg St.init hs = .ok st ∧ loop cfg (startTrailers st) tr = .ok st' ∧
      requestView cfg hs tr d = some st'.view := by
  unfold validate at h
  unfold requestView
  cases hm : message cfg hs tr d with
  | error e =>
    simp only [hm] at h
    unfold message at hm
    cases h1 : loop cfg St.init hs with
    | error e1 => simp only [h1] at hm; cases hm; rcases loop_error h1 with x | ⟨x, _⟩ | ⟨x, _⟩ <;> subst x <;> cases h
    | ok st =>
      simp only [h1] at hm
      split at hm
      · cases hm; cases h
      · split at hm
        · cases hm; cases h
        · cases h2 : loop cfg (startTrailers st) tr with
          | error e2 => rw [h2] at hm; cases hm; rcases loop_error h2 with x | ⟨x, _⟩ | ⟨x, _⟩ <;> subst x <;> cases h
          | ok st' => rw [h2] at hm; cases hm
  | ok st' =>
    simp only [hm] at h ⊢
    unfold message at hm
    cases h1 : loop cfg St.init hs with
    | error e1 => simp [h1] at hm
    | ok st =>
      simp only [h1] at hm
      split at hm
      · cases hm
      · split at hm
        · cases hm
        · refine ⟨st, st', rfl, hm, ?_⟩
          split at h
          · cases h
          · rename_i hc; rw [if_neg hc]

/-- **the handler sees exactly the fields the peer sent** (C01): for every well-formed request the view the
model hands to the handler is `specView hs trailers`: method, path, authority from the pseudo-headers, the
content-type and user-agent slots, every other regular field of the request block and then of the trailer block,
in arrival order, none invented, none lost. -/
theorem view_intact (cfg : Cfg) (hs tr : List Field) (d : Nat) (hl : WithinLimits cfg hs tr d) (hv : NoTrailerCL tr)
    (wf : WFRequest hs tr d) : requestView cfg hs tr d = some (specView hs tr) := by
  obtain ⟨st, st', h1, h2, hr⟩ := requestView_of_dispatch ((dispatched_iff_wf cfg hs tr d hl hv).mpr wf)
  rw [hr]
  have f1 := loop_ok_fold h1
  have f2 := loop_ok_fold h2
  obtain ⟨a1, a2, a3, a4, a5, a6, _, _, _⟩ := fold_view hs St.init
  obtain ⟨b1, b2, b3, b4, b5, b6, _, _, _⟩ := fold_view tr (startTrailers st)
  rw [← f1] at a1 a2 a3 a4 a5 a6
  rw [← f2] at b1 b2 b3 b4 b5 b6
  have np : ∀ n : Bytes, Pseudo n → lastOf n tr = none := by
    intro n hn; apply lastOf_none_of_forall; intro f hf e; exact (wf.trailers f hf).2.1 (by rw [e]; exact hn)
  have once : ∀ p ∈ requestPseudo, cnt p hs ≤ 1 := fun p hp => by have := wf.once p hp; simpa [cnt] using this
  simp only [startTrailers] at b1 b2 b3 b4 b5 b6
  simp only [St.view, specView, Option.some.injEq, View.mk.injEq]
  refine ⟨?_, ?_, ?_, ?_⟩
  · rw [b1, np _ (by decide), a1, valueOf_eq_lastOf (once _ (by simp [requestPseudo]))]; simp [St.init]
  · rw [b2, np _ (by decide), a2, valueOf_eq_lastOf (once _ (by simp [requestPseudo]))]; simp [St.init]
  · rw [b3, np _ (by decide), a3, valueOf_eq_lastOf (once _ (by simp [requestPseudo]))]; simp [St.init]
  · rw [b4, b5, b6, a4, a5, a6, lastOf_append, lastOf_append, List.filter_append]
    simp [St.init, sContentType, sUserAgent]

end H2.Server.Msg
