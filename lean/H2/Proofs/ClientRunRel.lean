import H2.Proofs.ClientRun
/-!
# Full serial client model: what the read loop and the write loop do to the table of waiting requests

`RdRel c c'` relates the state before and after a function of the read loop (`readStream`, `settle`, `dispatch`,
`refuse`, `afterGoAway`, `rdFrame`, `rdFrames`): requests evolve without a result being replaced (`MapLe`), a stream
leaves the table only with its request settled (`TableOK`), nothing enters the table, `dead`, `stuck`, `nextID` stay,
`goAway` is never taken back, nothing of type HEADERS is queued for the write loop.
One lemma per function of the model; `rdFrames_rel` is the one the step lemmas use.
-/
namespace H2.Client

/-- the frame belongs to a header block: HEADERS (whole, or cut: `hfrag`) or CONTINUATION -/
def OutFrame.isHeaders : OutFrame → Bool
  | .headers _ _ _ => true
  | .hfrag _ _ _ => true
  | .cont _ _ _ _ => true
  | _ => false

/-- the frame opens a stream: a HEADERS frame, with END_HEADERS or without -/
def OutFrame.opens : OutFrame → Bool
  | .headers _ _ _ => true
  | .hfrag _ _ _ => true
  | _ => false

theorem OutFrame.opens_isHeaders {f : OutFrame} (h : f.opens = true) : f.isHeaders = true := by
  cases f <;> first | rfl | cases h

/-- a control frame: what the read loop queues for the write loop (neither HEADERS nor DATA) -/
def OutFrame.isCtl : OutFrame → Bool
  | .headers _ _ _ => false
  | .hfrag _ _ _ => false
  | .cont _ _ _ _ => false
  | .data _ _ _ => false
  | _ => true

theorem OutFrame.isCtl_notHeaders {f : OutFrame} (h : f.isCtl = true) : f.isHeaders = false := by
  cases f <;> first | rfl | cases h

/-- some stream of the table is registered for the tag -/
def InTable (c : Conn) (t : String) : Prop := ∃ sid, (sid, t) ∈ c.reqQueued

/-- the request found under the tag (if any) has a result waiting or was taken back by its caller -/
def SettledAt (c : Conn) (t : String) : Prop := ∀ r, getReq c t = some r → r.done = true ∨ r.errBuf.isSome = true

def TableOK (c c' : Conn) : Prop := ∀ t, InTable c t → InTable c' t ∨ SettledAt c' t

/-- stream ids of the table are distinct -/
def Keys (c : Conn) : Prop := (c.reqQueued.map (·.1)).Nodup

theorem Req.Le.settled {r r' : Req} (h : Req.Le r r') (hs : r.done = true ∨ r.errBuf.isSome = true) :
    r'.done = true ∨ r'.errBuf.isSome = true := by
  rcases hs with hs | hs
  · left; rw [h.done]; exact hs
  · right; rw [h.keep (.inr hs)]; exact hs

theorem MapLe.settled {c c' : Conn} (h : MapLe c c') {t : String} (hs : SettledAt c t) : SettledAt c' t := by
  intro r' hr'
  rcases h.get t with ⟨_, h2⟩ | ⟨r, r2, h1, h2, hle⟩
  · rw [h2] at hr'; cases hr'
  · rw [h2] at hr'; cases hr'
    exact hle.settled (hs r h1)

structure RdRel (c c' : Conn) : Prop where
  le : MapLe c c'
  table : TableOK c c'
  sub : c'.reqQueued.Sublist c.reqQueued
  dead : c'.dead = c.dead
  stuck : c'.stuck = c.stuck
  nextID : c'.nextID = c.nextID
  goAway : c.goAway = true → c'.goAway = true
  closed : c'.stateClosed = true → c.stateClosed = true ∨ c'.goAway = true
  outQ : ∀ f ∈ c'.outQ, f ∈ c.outQ ∨ f.isCtl = true

theorem TableOK.of_eq {c c' : Conn} (h : c'.reqQueued = c.reqQueued) : TableOK c c' := by
  intro t ⟨sid, hm⟩; left; exact ⟨sid, by rw [h]; exact hm⟩

theorem TableOK.trans {a b c : Conn} (h1 : TableOK a b) (h2 : TableOK b c) (hle : MapLe b c) : TableOK a c := by
  intro t ht
  rcases h1 t ht with h | h
  · exact h2 t h
  · right; exact hle.settled h

/-- a function that touches neither the requests nor the table -/
theorem RdRel.of_fields {c c' : Conn} (h1 : c'.reqs = c.reqs) (h2 : c'.reqQueued = c.reqQueued) (h3 : c'.dead = c.dead)
    (h4 : c'.stuck = c.stuck) (h5 : c'.nextID = c.nextID) (h6 : c.goAway = true → c'.goAway = true)
    (h7 : c'.stateClosed = true → c.stateClosed = true ∨ c'.goAway = true)
    (h8 : ∀ f ∈ c'.outQ, f ∈ c.outQ ∨ f.isCtl = true) : RdRel c c' :=
  ⟨MapLe.of_reqs h1, TableOK.of_eq h2, by rw [h2]; exact List.Sublist.refl _, h3, h4, h5, h6, h7, h8⟩

theorem RdRel.refl (c : Conn) : RdRel c c :=
  RdRel.of_fields rfl rfl rfl rfl rfl id Or.inl (fun _ h => .inl h)

theorem RdRel.trans {a b c : Conn} (h1 : RdRel a b) (h2 : RdRel b c) : RdRel a c := by
  refine ⟨h1.le.trans h2.le, h1.table.trans h2.table h2.le, h2.sub.trans h1.sub, h2.dead.trans h1.dead,
    h2.stuck.trans h1.stuck, h2.nextID.trans h1.nextID, fun h => h2.goAway (h1.goAway h), ?_, ?_⟩
  · intro h
    rcases h2.closed h with h | h
    · rcases h1.closed h with h | h
      · exact .inl h
      · exact .inr (h2.goAway h)
    · exact .inr h
  · intro f hf
    rcases h2.outQ f hf with h | h
    · exact h1.outQ f h
    · exact .inr h

theorem RdRel.keys {c c' : Conn} (h : RdRel c c') (hk : Keys c) : Keys c' :=
  List.Nodup.sublist (h.sub.map _) hk

/-! ## association lists -/

theorem lookupA_mem {α} {l : List (Nat × α)} {k : Nat} {v : α} (h : lookupA l k = some v) : (k, v) ∈ l := by
  simp only [lookupA, Option.map_eq_some_iff] at h
  obtain ⟨p, hp, rfl⟩ := h
  have h1 := List.find?_some hp
  have h2 := List.mem_of_find?_eq_some hp
  have : p.1 = k := by simpa using h1
  rw [← this]; exact h2

theorem keys_unique {α} {l : List (Nat × α)} (hk : (l.map (·.1)).Nodup) {k : Nat} {a b : α}
    (ha : (k, a) ∈ l) (hb : (k, b) ∈ l) : a = b := by
  induction l with
  | nil => cases ha
  | cons x xs ih =>
    simp only [List.map_cons, List.nodup_cons, List.mem_map, not_exists, not_and] at hk
    simp only [List.mem_cons] at ha hb
    rcases ha with ha | ha <;> rcases hb with hb | hb
    · rw [← ha] at hb; cases hb; rfl
    · exact absurd (by rw [← ha]) (hk.1 _ hb)
    · exact absurd (by rw [← hb]) (hk.1 _ ha)
    · exact ih hk.2 ha hb

theorem Keys.unique {c : Conn} (hk : Keys c) {sid : Nat} {tag : String} (h : lookupA c.reqQueued sid = some tag) :
    ∀ t, (sid, t) ∈ c.reqQueued → t = tag :=
  fun _ ht => keys_unique hk ht (lookupA_mem h)

theorem eraseA_none' {α} (l : List (Nat × α)) (k : Nat) (h : lookupA l k = none) : eraseA l k = l := by
  simp only [lookupA, Option.map_eq_none_iff, List.find?_eq_none] at h
  simp only [eraseA, List.filter_eq_self]
  intro p hp
  have := h p hp
  simpa using this

theorem eraseA_sublist {α} (l : List (Nat × α)) (k : Nat) : (eraseA l k).Sublist l := List.filter_sublist

theorem mem_eraseA {α} {l : List (Nat × α)} {k : Nat} {p : Nat × α} : p ∈ eraseA l k ↔ p ∈ l ∧ p.1 ≠ k := by
  simp [eraseA]

theorem insertA_append {α} (l : List (Nat × α)) (k : Nat) (v : α) (h : ∀ p ∈ l, p.1 < k) : insertA l k v = l ++ [(k, v)] := by
  induction l with
  | nil => rfl
  | cons x xs ih =>
    obtain ⟨k', v'⟩ := x
    have h1 : k' < k := h (k', v') (List.mem_cons_self ..)
    have h2 : ¬ k < k' := by omega
    have h3 : (k == k') = false := by simp; omega
    simp only [insertA, h2, if_false, h3, Bool.false_eq_true, List.cons_append]
    rw [ih (fun p hp => h p (List.mem_cons_of_mem _ hp))]

/-! ## the primitives -/

theorem takeReq_reqQueued (c : Conn) (sid : Nat) : (takeReq c sid).reqQueued = eraseA c.reqQueued sid := by
  unfold takeReq
  split
  · rfl
  · rename_i h
    have : lookupA c.reqQueued sid = none := by
      cases hl : lookupA c.reqQueued sid with
      | none => rfl
      | some v => simp [hl] at h
    exact (eraseA_none' _ _ this).symm

theorem takeReq_shape (c : Conn) (sid : Nat) :
    ∃ o, takeReq c sid = { c with reqQueued := eraseA c.reqQueued sid, openStreams := o } := by
  unfold takeReq
  split
  · exact ⟨_, rfl⟩
  · rename_i h
    have : lookupA c.reqQueued sid = none := by
      cases hl : lookupA c.reqQueued sid with
      | none => rfl
      | some v => simp [hl] at h
    refine ⟨c.openStreams, ?_⟩
    rw [eraseA_none' _ _ this]

theorem finish_shape (c : Conn) (tag : String) (sid : Nat) (e : Err) :
    ∃ o, finish c tag sid e = { c with reqs := (resolve c tag e).reqs, reqQueued := eraseA c.reqQueued sid, openStreams := o,
                                        pending := eraseA c.pending sid } := by
  obtain ⟨o, h⟩ := takeReq_shape c sid
  unfold finish
  rw [h]
  exact ⟨o, rfl⟩

theorem getReq_congr {c c' : Conn} (h : c'.reqs = c.reqs) (t : String) : getReq c' t = getReq c t := by
  unfold getReq; rw [h]

theorem settledAt_resolve_self (c : Conn) (tag : String) (e : Err) : SettledAt (resolve c tag e) tag := by
  intro r' hr'
  have hm : getReq (resolve c tag e) tag = (getReq c tag).map fun r => if r.tag == tag then r.resolve e else r :=
    MapLe.getReq_map (g := fun r => if r.tag == tag then r.resolve e else r)
      (by intro r; split
          · exact (Req.resolve_le r e).tag
          · rfl) rfl tag
  rw [hm] at hr'
  cases hq : getReq c tag with
  | none => rw [hq] at hr'; cases hr'
  | some r =>
    rw [hq] at hr'
    simp only [Option.map_some, getReq_tag' hq, beq_self_eq_true, if_true, Option.some.injEq] at hr'
    subst hr'
    exact Req.resolve_settled' r e

theorem rdRel_finish (c : Conn) (tag : String) (sid : Nat) (e : Err) (hu : ∀ t, (sid, t) ∈ c.reqQueued → t = tag) :
    RdRel c (finish c tag sid e) := by
  obtain ⟨o, h⟩ := finish_shape c tag sid e
  have hle : MapLe c (finish c tag sid e) := mapLe_finish c tag sid e
  refine ⟨hle, ?_, ?_, ?_, ?_, ?_, ?_, ?_, ?_⟩
  · intro t ⟨s, hm⟩
    by_cases hs : s = sid
    · right
      subst hs
      rw [hu t hm]
      intro r' hr'
      rw [getReq_congr (c := resolve c tag e) (by rw [h])] at hr'
      exact settledAt_resolve_self c tag e r' hr'
    · left; refine ⟨s, ?_⟩; rw [h]; exact mem_eraseA.mpr ⟨hm, hs⟩
  all_goals rw [h]
  · exact eraseA_sublist _ _
  · exact id
  · exact Or.inl
  · exact fun _ h => .inl h

theorem prepare_shape (c : Conn) (f : Frame.Frame) : ∃ h, (prepare c f).1 = { c with hdrEndStream := h } := by
  simp only [prepare, noteHeaders]
  split <;> split <;> exact ⟨_, rfl⟩

theorem rdRel_prepare (c : Conn) (f : Frame.Frame) : RdRel c (prepare c f).1 := by
  obtain ⟨h, e⟩ := prepare_shape c f
  rw [e]; exact RdRel.of_fields rfl rfl rfl rfl rfl id Or.inl (fun _ h => .inl h)

theorem rdRel_updReq (c : Conn) (tag : String) (f : Req → Req) (hf : ∀ r, r.tag = tag → (f r).tag = tag)
    (hl : ∀ r, getReq c tag = some r → Req.Le r (f r)) : RdRel c (updReq c tag f) :=
  ⟨mapLe_updReq c tag f hf hl, TableOK.of_eq rfl, List.Sublist.refl _, rfl, rfl, rfl, id, Or.inl, fun _ h => .inl h⟩

theorem rdRel_queueOut (c : Conn) (f : OutFrame) (hf : f.isCtl = true) : RdRel c (queueOut c f) := by
  refine RdRel.of_fields rfl rfl rfl rfl rfl id Or.inl ?_
  intro g hg
  simp only [queueOut, List.mem_append, List.mem_singleton] at hg
  rcases hg with hg | hg
  · exact .inl hg
  · right; rw [hg]; exact hf

theorem rdRel_readStream (c : Conn) (tag : String) (r : Req) (f : Frame.Frame) (hr : getReq c tag = some r) :
    RdRel c (readStream c tag r f).1 := by
  have ht : r.tag = tag := getReq_tag' hr
  have hdr : ∀ (c1 : Conn) (r' : Req), c1.reqs = c.reqs → c1.reqQueued = c.reqQueued → c1.dead = c.dead →
      c1.stuck = c.stuck → c1.nextID = c.nextID → c1.goAway = c.goAway → c1.stateClosed = c.stateClosed →
      c1.outQ = c.outQ → r'.tag = r.tag → r'.read = r.read → r'.done = r.done → r'.errBuf = r.errBuf →
      r'.sid = r.sid → r'.streamed = r.streamed → r'.hasConn = r.hasConn →
      RdRel c (updReq c1 tag fun _ => r') := by
    intro c1 r' e1 e2 e3 e4 e5 e6 e7 e8 t1 t2 t3 t4 t5 t6 t7
    refine (RdRel.of_fields e1 e2 e3 e4 e5 (by rw [e6]; exact id) (by rw [e7]; exact Or.inl)
      (by rw [e8]; exact fun _ h => .inl h)).trans (rdRel_updReq c1 tag _ (fun _ _ => t1.trans ht) ?_)
    intro q hq
    rw [getReq_congr e1, hr] at hq
    cases hq
    exact ⟨t1, t2, t3, fun _ => t4, t5, t7, t6⟩
  unfold readStream
  split
  · simp only
    split
    · obtain ⟨h1, h2, h3, h4, h5, h6, h7⟩ := readHeader_le _ c.dec r false false 0 _
      exact hdr _ _ rfl rfl rfl rfl rfl rfl rfl rfl h1 h2 h3 h4 h5 h6 h7
    · exact RdRel.of_fields rfl rfl rfl rfl rfl id Or.inl (fun _ h => .inl h)
  · simp only
    split
    · obtain ⟨h1, h2, h3, h4, h5, h6, h7⟩ := readHeader_le _ c.dec r false false 0 _
      exact hdr _ _ rfl rfl rfl rfl rfl rfl rfl rfl h1 h2 h3 h4 h5 h6 h7
    · exact RdRel.of_fields rfl rfl rfl rfl rfl id Or.inl (fun _ h => .inl h)
  · exact RdRel.refl c
  · have h1 : ∀ d : Bytes, RdRel c
        (if (d.length != 0) = true then updReq c tag fun q => { q with body := q.body ++ d } else c) := by
      intro d
      split
      · exact rdRel_updReq c tag _ (fun _ h => h) (fun q _ => ⟨rfl, rfl, rfl, fun _ => rfl, rfl, rfl, rfl⟩)
      · exact RdRel.refl c
    simp only
    split
    · exact (h1 _).trans (rdRel_queueOut _ _ rfl)
    · exact h1 _
  · exact RdRel.refl c

theorem readStream_reqQueued (c : Conn) (tag : String) (r : Req) (f : Frame.Frame) :
    (readStream c tag r f).1.reqQueued = c.reqQueued := by
  unfold readStream
  split
  · simp only; split <;> rfl
  · simp only; split <;> rfl
  · rfl
  · simp only; split <;> split <;> rfl
  · rfl

theorem rdRel_settle (c : Conn) (tag : String) (sid : Nat) (err : Option Err) (endS : Bool)
    (hu : ∀ t, (sid, t) ∈ c.reqQueued → t = tag) : RdRel c (settle c tag sid err endS).1 := by
  unfold settle
  simp only
  split
  · split
    · exact rdRel_finish c tag sid _ hu
    · exact RdRel.refl c
  · exact rdRel_finish c tag sid _ hu

/-- `dispatch` with projections instead of destructuring `let`s -/
theorem dispatch_eq (c : Conn) (f : Frame.Frame) :
    dispatch c f = match lookupA c.reqQueued f.stream with
      | none => (skipHeaders c f, false)
      | some tag =>
        match getReq c tag with
        | none => (skipHeaders c f, false)
        | some r =>
          if r.done then ({ (skipHeaders c f) with reqQueued := eraseA c.reqQueued f.stream }, false)
          else settle (readStream (prepare c f).1 tag r f).1 tag f.stream (readStream (prepare c f).1 tag r f).2
                 (prepare c f).2 := by
  unfold dispatch
  cases lookupA c.reqQueued f.stream with
  | none => rfl
  | some tag =>
    simp only
    cases getReq c tag with
    | none => rfl
    | some r => rfl

theorem rdRel_skipHeaders (c : Conn) (f : Frame.Frame) : RdRel c (skipHeaders c f) := by
  obtain ⟨d, b, e, h⟩ := skipHeaders_shape c f
  rw [h]; exact RdRel.of_fields rfl rfl rfl rfl rfl id Or.inl (fun _ h => .inl h)

theorem rdRel_dispatch (c : Conn) (f : Frame.Frame) (hk : Keys c) : RdRel c (dispatch c f).1 := by
  rw [dispatch_eq]
  split
  · exact rdRel_skipHeaders c f
  · rename_i tag hl
    split
    · exact rdRel_skipHeaders c f
    · rename_i r hr
      split
      · rename_i hd
        obtain ⟨d, b, e, hsk⟩ := skipHeaders_shape c f
        rw [hsk]
        refine ⟨MapLe.of_reqs rfl, ?_, eraseA_sublist _ _, rfl, rfl, rfl, id, Or.inl, fun _ h => .inl h⟩
        intro t ⟨s, hm⟩
        by_cases hs : s = f.stream
        · right
          subst hs
          rw [hk.unique hl t hm]
          intro r' hr'
          have hr'' : getReq c tag = some r' := hr'
          rw [hr] at hr''; cases hr''; exact .inl hd
        · left; exact ⟨s, mem_eraseA.mpr ⟨hm, hs⟩⟩
      · have p := rdRel_prepare c f
        have hr1 : getReq (prepare c f).1 tag = some r := by
          obtain ⟨h, e⟩ := prepare_shape c f
          rw [e]; exact hr
        have q := rdRel_readStream (prepare c f).1 tag r f hr1
        have hq : (readStream (prepare c f).1 tag r f).1.reqQueued = c.reqQueued := by
          rw [readStream_reqQueued]
          obtain ⟨h, e⟩ := prepare_shape c f
          rw [e]
        refine (p.trans q).trans (rdRel_settle _ tag f.stream _ _ ?_)
        rw [hq]; exact hk.unique hl

theorem rdRel_refuse (c : Conn) (sid : Nat) (tag : String) (hu : ∀ t, (sid, t) ∈ c.reqQueued → t = tag) :
    RdRel c (refuse c sid tag) := by
  have herase : SettledAt c tag → RdRel c { c with reqQueued := eraseA c.reqQueued sid } := by
    intro hs
    refine ⟨MapLe.of_reqs rfl, ?_, eraseA_sublist _ _, rfl, rfl, rfl, id, Or.inl, fun _ h => .inl h⟩
    intro t ⟨s, hm⟩
    by_cases h : s = sid
    · right; subst h; rw [hu t hm]; exact hs
    · left; exact ⟨s, mem_eraseA.mpr ⟨hm, h⟩⟩
  unfold refuse
  split
  · rename_i hn
    exact herase (fun r hr => by rw [hn] at hr; cases hr)
  · rename_i r hr
    split
    · rename_i hd
      exact herase (fun r' hr' => by rw [hr] at hr'; cases hr'; exact .inl hd)
    · exact rdRel_finish c tag sid _ hu

theorem rdRel_refuseAbove (l : List (Nat × String)) : ∀ c : Conn,
    (∀ p ∈ l, ∀ t, (p.1, t) ∈ c.reqQueued → t = p.2) → RdRel c (refuseAbove c l) := by
  induction l with
  | nil => intro c _; exact RdRel.refl c
  | cons x xs ih =>
    intro c hl
    obtain ⟨sid, tag⟩ := x
    simp only [refuseAbove]
    split
    · have h1 := rdRel_refuse c sid tag (hl (sid, tag) (List.mem_cons_self ..))
      refine h1.trans (ih _ ?_)
      intro p hp t ht
      exact hl p (List.mem_cons_of_mem _ hp) t (h1.sub.subset ht)
    · exact ih c (fun p hp => hl p (List.mem_cons_of_mem _ hp))

theorem rdRel_afterGoAway (c : Conn) (hk : Keys c) : RdRel c (afterGoAway c).1 := by
  unfold afterGoAway
  apply rdRel_refuseAbove
  intro p hp t ht
  exact keys_unique hk ht hp

theorem dispatchLoop_eq (c : Conn) (f : Frame.Frame) :
    dispatchLoop c f = if (dispatch c f).1.stateClosed then
        ((afterGoAway (dispatch c f).1).1, (dispatch c f).2 || (afterGoAway (dispatch c f).1).2)
      else ((dispatch c f).1, (dispatch c f).2) := by
  unfold dispatchLoop
  cases dispatch c f with
  | mk c1 s => rfl

theorem rdRel_dispatchLoop (c : Conn) (f : Frame.Frame) (hk : Keys c) : RdRel c (dispatchLoop c f).1 := by
  rw [dispatchLoop_eq]
  have h := rdRel_dispatch c f hk
  split
  · exact h.trans (rdRel_afterGoAway _ (h.keys hk))
  · exact h

theorem rdRel_setLastErr (c : Conn) (e : Err) : RdRel c (setLastErr c e) := by
  obtain ⟨l, h⟩ := setLastErr_shape c e
  rw [h]; exact RdRel.of_fields rfl rfl rfl rfl rfl id Or.inl (fun _ h => .inl h)

theorem rdRel_handleSettings (c : Conn) (s : Frame.SettingsVal) : RdRel c (handleSettings c s) := by
  obtain ⟨a, b, d, e, f, g, sw, p, w, h⟩ := handleSettings_shape c s
  rw [h]
  refine RdRel.of_fields rfl rfl rfl rfl rfl id Or.inl ?_
  intro x hx
  simp only [List.mem_append, List.mem_singleton] at hx
  rcases hx with hx | hx
  · exact .inl hx
  · right; rw [hx]; rfl

theorem addWindow_shape (c : Conn) (sid inc : Nat) :
    ∃ w p, addWindow c sid inc = { c with connWindow := w, pending := p, winTok := true } := by
  unfold addWindow
  split
  · exact ⟨_, c.pending, rfl⟩
  · exact ⟨c.connWindow, _, rfl⟩

theorem rdRel_addWindow (c : Conn) (sid inc : Nat) : RdRel c (addWindow c sid inc) := by
  obtain ⟨w, p, h⟩ := addWindow_shape c sid inc
  rw [h]; exact RdRel.of_fields rfl rfl rfl rfl rfl id Or.inl (fun _ h => .inl h)

theorem rdRel_consumeConnWindow (c : Conn) (n : Nat) : RdRel c (consumeConnWindow c n) := by
  unfold consumeConnWindow
  simp only
  split
  · exact (RdRel.of_fields (c := c) (c' := { c with currentWindow := maxWindow }) rfl rfl rfl rfl rfl id Or.inl
      (fun _ h => .inl h)).trans (rdRel_queueOut _ _ rfl)
  · exact RdRel.of_fields rfl rfl rfl rfl rfl id Or.inl (fun _ h => .inl h)

theorem rdRel_rdFrame (c : Conn) (f : Frame.Frame) (hk : Keys c) : RdRel c (rdFrame c f).1 := by
  unfold rdFrame
  split
  · split
    · split
      · exact RdRel.refl c
      · exact rdRel_handleSettings c _
    · exact rdRel_addWindow c 0 _
    · split
      · exact RdRel.refl c
      · exact rdRel_queueOut c _ rfl
    · simp only
      split
      · exact (RdRel.of_fields (c := c) (c' := { c with goAway := true }) rfl rfl rfl rfl rfl (fun _ => rfl)
          (fun _ => .inr rfl) (fun _ h => .inl h)).trans (rdRel_setLastErr _ _)
      · exact (RdRel.of_fields (c := c) (c' := { c with goAway := true, closeRef := _, stateClosed := true })
          rfl rfl rfl rfl rfl (fun _ => rfl) (fun _ => .inr rfl) (fun _ h => .inl h)).trans
          (rdRel_afterGoAway _ hk)
    · exact RdRel.refl c
  · split
    · exact rdRel_setLastErr c _
    · have h := rdRel_addWindow c f.stream ‹Nat›
      exact h.trans (rdRel_dispatchLoop _ f (h.keys hk))
    · have h := rdRel_consumeConnWindow c f.length
      exact h.trans (rdRel_dispatchLoop _ f (h.keys hk))
    · exact rdRel_dispatchLoop c f hk

theorem rdFrames_cons_frame (f : Frame.Frame) (fs : List RdFrame) (c : Conn) :
    rdFrames (.frame f :: fs) c = if c.stuck then (c, false) else
      if (rdFrame c f).2 then ((rdFrame c f).1, true) else rdFrames fs (rdFrame c f).1 := by
  simp only [rdFrames]

theorem rdRel_rdFrames (fs : List RdFrame) : ∀ c : Conn, Keys c → RdRel c (rdFrames fs c).1 := by
  induction fs with
  | nil => intro c _; exact RdRel.refl c
  | cons x xs ih =>
    intro c hk
    cases x with
    | unknown => simp only [rdFrames]; exact ih c hk
    | bad ga oth => simp only [rdFrames]; exact rdRel_setLastErr c _
    | frame f =>
      rw [rdFrames_cons_frame]
      have h := rdRel_rdFrame c f hk
      split
      · exact RdRel.refl c
      · split
        · exact h
        · exact h.trans (ih _ (h.keys hk))

/-! ## teardown and the write side -/

def dieMap (c : Conn) (e : Err) (r : Req) : Req := if (c.reqQueued.any fun p => p.2 == r.tag) then r.resolve e else r

theorem dieWith_shape (c : Conn) (e : Err) :
    ∃ l, dieWith c e = { c with lastErr := l, dead := true, outQ := [], winTok := false,
                                reqs := c.reqs.map (dieMap c e), reqQueued := [] } := by
  obtain ⟨l, h⟩ := setLastErr_shape c e
  unfold dieWith
  rw [h]
  exact ⟨l, rfl⟩

theorem dieMap_tag (c : Conn) (e : Err) (r : Req) : (dieMap c e r).tag = r.tag := by
  unfold dieMap; split
  · exact (Req.resolve_le r e).tag
  · rfl

theorem mapLe_dieWith (c : Conn) (e : Err) : MapLe c (dieWith c e) := by
  obtain ⟨l, h⟩ := dieWith_shape c e
  refine ⟨dieMap c e, dieMap_tag c e, ?_, by rw [h]⟩
  intro r _
  unfold dieMap; split
  · exact Req.resolve_le r e
  · exact Req.Le.refl r

theorem tableOK_dieWith (c : Conn) (e : Err) : TableOK c (dieWith c e) := by
  obtain ⟨l, h⟩ := dieWith_shape c e
  intro t ⟨sid, hm⟩
  right
  intro r' hr'
  rw [MapLe.getReq_map (dieMap_tag c e) (by rw [h])] at hr'
  cases hq : getReq c t with
  | none => rw [hq] at hr'; cases hr'
  | some r =>
    rw [hq] at hr'
    simp only [Option.map_some, Option.some.injEq] at hr'
    subst hr'
    have : (c.reqQueued.any fun p => p.2 == r.tag) = true := by
      rw [List.any_eq_true]; exact ⟨(sid, t), hm, by simp [getReq_tag' hq]⟩
    simp only [dieMap, this, if_true]
    exact Req.resolve_settled' r e

theorem afterWrites_eq (c : Conn) (fs : List OutFrame) :
    afterWrites c fs = match (wireBytes c fs).1.wbudget with
      | none => ((wireBytes c fs).1, .frames (wireFrames c fs))
      | some b =>
        if (wireBytes c fs).2 ≤ b then
          ({ (wireBytes c fs).1 with wbudget := some (b - (wireBytes c fs).2) }, .frames (wireFrames c fs))
        else (dieWith (wireBytes c fs).1 .writeErr, .dead) := by
  unfold afterWrites
  rfl

/-- `afterWrites`: the state is the argument with encoder and budget moved, or that state torn down -/
theorem afterWrites_cases (c : Conn) (fs : List OutFrame) :
    (∃ e s b, (afterWrites c fs) = ({ c with enc := e, encTableSet := s, wbudget := b }, .frames (wireFrames c fs))) ∨
    (∃ e s, (afterWrites c fs) = (dieWith { c with enc := e, encTableSet := s } .writeErr, .dead)) := by
  rw [afterWrites_eq]
  obtain ⟨e, s, h⟩ := wireBytes_shape fs c
  rw [h]
  split
  · left; exact ⟨e, s, c.wbudget, rfl⟩
  · split
    · left; exact ⟨e, s, _, rfl⟩
    · right; exact ⟨e, s, rfl⟩

theorem mapLe_afterWrites (c : Conn) (fs : List OutFrame) :
    MapLe c (afterWrites c fs).1 ∧ TableOK c (afterWrites c fs).1 := by
  rcases afterWrites_cases c fs with ⟨e, s, b, h⟩ | ⟨e, s, h⟩
  · rw [h]; exact ⟨MapLe.of_reqs rfl, TableOK.of_eq rfl⟩
  · rw [h]
    exact ⟨(MapLe.of_reqs (c := c) (c' := { c with enc := e, encTableSet := s }) rfl).trans (mapLe_dieWith _ _),
      (TableOK.of_eq (c := c) (c' := { c with enc := e, encTableSet := s }) rfl).trans (tableOK_dieWith _ _)
        (mapLe_dieWith _ _)⟩

/-! ### `writeRequest` -/

def reqStreamed (r : ReqSpec) : Bool :=
  match r.body with
  | .stream _ _ _ => true
  | _ => false

/-- the state after `writeRequest` has registered the request on stream `nextID`, before the body -/
def wrOpen (c : Conn) (r : ReqSpec) : Conn :=
  updReq { c with nextID := c.nextID + 2, reqQueued := insertA c.reqQueued c.nextID r.tag, openStreams := c.openStreams + 1 }
    r.tag fun q => { q with sid := c.nextID, hasConn := true, streamed := reqStreamed r }

/-- the `pendingBody` of a request that has a body -/
def wrPending (c : Conn) (r : ReqSpec) : Option Pending :=
  match r.body with
  | .none => none
  | .buf n => some { tag := r.tag, window := c.streamWindow, body := n }
  | .stream d chunks term =>
    some { tag := r.tag, window := c.streamWindow, isStream := true, chunks := chunks, term := term, size := d, drained := d == 0 }

def wrHeaders (c : Conn) (r : ReqSpec) : OutFrame :=
  .headers c.nextID (!(match r.body with | .none => false | _ => true)) (requestFields r)

theorem writeRequest_eq (c : Conn) (r : ReqSpec) :
    writeRequest c r = if !canOpenStream c then (resolve c r.tag .noStreams, []) else
      match wrPending c r with
      | none => (wrOpen c r, [wrHeaders c r])
      | some pb =>
        ((sendPending 100000 { wrOpen c r with pending := insertA c.pending c.nextID pb } c.nextID).1,
          wrHeaders c r :: (sendPending 100000 { wrOpen c r with pending := insertA c.pending c.nextID pb } c.nextID).2) := by
  simp only [writeRequest, wrPending, wrOpen, wrHeaders, reqStreamed]
  split
  · rfl
  · cases r.body <;> simp only [updReq]

end H2.Client
