import H2.Proofs.MsgRefine
import H2.Proofs.ServerOnce
import H2.Proofs.HpackSplit
/-!
# C20 — refinement, lifted over the loop: `fieldLoop` of the full server model IS `Msg.loop` of the message model

`MsgRefine.field_refines` is about one iteration. Here: for the octets of one header-bearing frame (`carried-over tail ++
fragment`), the full model's `fieldLoop` gives — through the projection `msgSt` — what `Msg.loop` gives on the list of fields
the decoder yields from those octets (`decRun`: the decoder's pass alone, no validation), followed by what the end of the
decoder's pass means (`tailVerdict`: nothing / octets carried over / COMPRESSION_ERROR / the unfinished field is too long).

* `decRun`            — the fields `Hpack.Dec.next` yields from the octets, and how the pass ends (`Tail`)
* `fieldLoop_refines` — `absOut (fieldLoop …) = loopSpec … (decRun …)` : same verdict, same resulting `msgSt`
* `fieldLoop_state`   — where no error is reported: decoder state, carried-over octets, `fieldSeen`
* `fieldLoop_ctl`     — the loop touches nothing else of the stream record (`Strm.ctl`)
* `Strm.Good`         — `0 ≤ contentLength` (hypothesis of `field_refines`) and `uri = path`: invariants of the loop
-/
namespace H2.Server.Lock
open H2.Server

/-- a decoded field as the message model sees it -/
def kv (f : Hpack.Field) : MsgSpec.Field := (f.name, f.value)

/-- how the decoder's pass over the octets of one frame ends -/
inductive Tail where
  /-- the octets are used up (or only dynamic table size updates were left): nothing is carried over -/
  | clean (dec : Hpack.DecState)
  /-- the octets end inside a representation: `rest` is what `nextField` hands back (size updates applied: `dec`) -/
  | cut (dec : Hpack.DecState) (rest : Bytes)
  /-- decoding error (or the fuel is used up: never, see `decRun_fuel`) -/
  | bad
deriving DecidableEq, Repr

/-- the decoder's pass: the control flow of `fieldLoop` with the validation left out -/
def decRun : Nat → Hpack.DecState → Bool → Nat → Bytes → List Hpack.Field × Tail
  | 0, _, _, _, _ => ([], .bad)
  | _, dec, _, _, [] => ([], .clean dec)
  | fuel + 1, dec, bs, fp, b =>
    match Hpack.Dec.next dec bs fp b with
    | .needMore => ([], .cut (Hpack.Dec.skipUpdates dec bs fp b).1 (Hpack.Dec.skipUpdates dec bs fp b).2)
    | .err => ([], .bad)
    | .ok dec' none _ => ([], .clean dec')
    | .ok dec' (some f) rest => (f :: (decRun fuel dec' bs (fp + 1) rest).1, (decRun fuel dec' bs (fp + 1) rest).2)

/-- these are the fields of `ServerOnce.loopFields` (the ones `handleHeaderFrame_view` folds `viewUpd` over) -/
theorem decRun_fields (fuel : Nat) (dec : Hpack.DecState) (bs : Bool) (fp : Nat) (b : Bytes) :
    (decRun fuel dec bs fp b).1 = loopFields fuel dec bs fp b := by
  induction fuel generalizing dec fp b with
  | zero => simp [decRun, loopFields]
  | succ n ih =>
    cases b with
    | nil => simp [decRun, loopFields]
    | cons c cs =>
      simp only [decRun, loopFields]
      cases hd : Hpack.Dec.next dec bs fp (c :: cs) with
      | needMore => rfl
      | err => rfl
      | ok dec' fo rest =>
        cases fo with
        | none => rfl
        | some f => simp [ih]

/-- what the end of the decoder's pass means to the loop: `none` = the frame is accepted -/
def tailVerdict (cfg : Server.Cfg) (eh : Bool) : Tail → Option SErr
  | .clean _ => none
  | .cut _ rest =>
    if eh then some (.goAway Gen.c_CompressionError "compression")
    else if heldTooLong cfg rest then some (.goAway Gen.c_EnhanceYourCalm "header field exceeds the maximum header list size")
    else none
  | .bad => some (.goAway Gen.c_CompressionError "compression")

/-- the message model's account of one frame: `Msg.loop` over the decoded fields, then the end of the pass -/
def loopSpec (cfg : Server.Cfg) (eh : Bool) (m : Msg.St) (run : List Hpack.Field × Tail) : Except Msg.Verdict Msg.St :=
  match Msg.loop (cfgOf cfg) m (run.1.map kv) with
  | .error v => .error v
  | .ok m' =>
    match tailVerdict cfg eh run.2 with
    | some e => .error (absErr e)
    | none => .ok m'

/-- the full model's result seen through the projection -/
def absOut (x : Srv × Strm × Option SErr) : Except Msg.Verdict Msg.St :=
  match x.2.2 with
  | some e => .error (absErr e)
  | none => .ok (msgSt x.2.1)

/-! ## invariants of the loop on the stream record -/

/-- `0 ≤ contentLength` (it starts at 0 and is only ever set to a parsed value) and `uri = path` (`:path` sets both) -/
def _root_.H2.Server.Strm.Good (st : Strm) : Prop := 0 ≤ st.contentLength ∧ st.uri = st.path

theorem fieldUpdate_uri (st : Strm) (f : Hpack.Field) (h : st.uri = st.path) : (fieldUpdate st f).uri = (fieldUpdate st f).path := by
  simp only [fieldUpdate]
  repeat' split
  all_goals first | exact h | rfl

theorem fieldUpdate_good (st : Strm) (f : Hpack.Field) (h : st.Good) : (fieldUpdate st f).Good :=
  ⟨contentLength_nonneg st f h.1, fieldUpdate_uri st f h.2⟩

/-- everything of the stream record the field loop does not write -/
structure Ctl where
  uid : Nat
  id : Nat
  window : Int
  state : StState
  origType : Nat
  recvBody : Nat
  headersFinished : Bool
  responded : Bool
  handlerRunning : Bool
  body : Digest
  pendLen : Nat
  stream : Option BodyStream
deriving DecidableEq

def _root_.H2.Server.Strm.ctl (st : Strm) : Ctl :=
  ⟨st.uid, st.id, st.window, st.state, st.origType, st.recvBody, st.headersFinished, st.responded, st.handlerRunning,
   st.body, st.pendLen, st.stream⟩

theorem fieldUpdate_ctl (st : Strm) (f : Hpack.Field) : (fieldUpdate st f).ctl = st.ctl := by
  simp only [fieldUpdate]
  repeat' split
  all_goals rfl

theorem fieldUpdate_prevHdr (st : Strm) (f : Hpack.Field) : (fieldUpdate st f).prevHdr = st.prevHdr := by
  simp only [fieldUpdate]
  repeat' split
  all_goals rfl

theorem fieldUpdate_fieldSeen (st : Strm) (f : Hpack.Field) : (fieldUpdate st f).fieldSeen = st.fieldSeen := by
  simp only [fieldUpdate]
  repeat' split
  all_goals rfl

/-- the loop keeps `Good` and `ctl`, with or without an error -/
theorem fieldLoop_ctl (fuel : Nat) (s : Srv) (st : Strm) (bs eh : Bool) (fp : Nat) (b : Bytes) :
    (fieldLoop fuel s st bs eh fp b).2.1.ctl = st.ctl ∧ (st.Good → (fieldLoop fuel s st bs eh fp b).2.1.Good) ∧
    (fieldLoop fuel s st bs eh fp b).1.cfg = s.cfg := by
  induction fuel generalizing s st fp b with
  | zero => simp [fieldLoop]
  | succ n ih =>
    cases b with
    | nil => simp [fieldLoop]
    | cons c cs =>
      simp only [fieldLoop]
      cases hd : Hpack.Dec.next s.dec bs fp (c :: cs) with
      | needMore =>
        simp only
        repeat' split
        all_goals exact ⟨rfl, fun h => h, rfl⟩
      | err => exact ⟨rfl, fun h => h, rfl⟩
      | ok dec fo rest =>
        cases fo with
        | none => exact ⟨rfl, fun h => h, rfl⟩
        | some f =>
          simp only [fieldStep]
          have hg : st.Good → (fieldUpdate { st with fieldSeen := true } f).Good :=
            fun h => fieldUpdate_good { st with fieldSeen := true } f h
          have hc : (fieldUpdate { st with fieldSeen := true } f).ctl = st.ctl := fieldUpdate_ctl { st with fieldSeen := true } f
          cases hv : fieldVerdict s.cfg { st with fieldSeen := true } f with
          | some e => exact ⟨hc, hg, rfl⟩
          | none =>
            simp only
            obtain ⟨i1, i2, i3⟩ := ih { s with dec := dec } (fieldUpdate { st with fieldSeen := true } f) (fp + 1) rest
            exact ⟨i1.trans hc, fun h => i2 (hg h), i3⟩

/-! ## the loop refinement -/

theorem loop_cons (cfg : Msg.Cfg) (m : Msg.St) (f : MsgSpec.Field) (fs : List MsgSpec.Field) :
    Msg.loop cfg m (f :: fs) = match Msg.field cfg m f with
      | .error e => .error e
      | .ok m' => Msg.loop cfg m' fs := rfl

/-- **loop refinement**: on the octets `b` of one header-bearing frame, the full model's field loop gives, through `msgSt` /
`absErr`, exactly what the message model's loop gives on the fields the decoder yields from `b`, followed by the meaning of
the end of the decoder's pass: the same verdict (accepted / RST_STREAM with the same code / GOAWAY with the same code) and,
when the frame is accepted, the same per-stream state -/
theorem fieldLoop_refines (fuel : Nat) (s : Srv) (st : Strm) (bs eh : Bool) (fp : Nat) (b : Bytes)
    (hcl : 0 ≤ st.contentLength) :
    absOut (fieldLoop fuel s st bs eh fp b) = loopSpec s.cfg eh (msgSt st) (decRun fuel s.dec bs fp b) := by
  induction fuel generalizing s st fp b with
  | zero => simp [fieldLoop, decRun, absOut, loopSpec, tailVerdict, Msg.loop]
  | succ n ih =>
    cases b with
    | nil => simp [fieldLoop, decRun, absOut, loopSpec, tailVerdict, Msg.loop]
    | cons c cs =>
      simp only [fieldLoop, decRun]
      cases hd : Hpack.Dec.next s.dec bs fp (c :: cs) with
      | needMore =>
        simp only [loopSpec, List.map_nil, Msg.loop, tailVerdict]
        cases eh
        · cases hh : heldTooLong s.cfg (Hpack.Dec.skipUpdates s.dec bs fp (c :: cs)).2
          · simp [absOut, msgSt]
          · simp [absOut]
        · simp [absOut]
      | err => simp [absOut, loopSpec, tailVerdict, Msg.loop]
      | ok dec fo rest =>
        cases fo with
        | none => simp [absOut, loopSpec, tailVerdict, Msg.loop]
        | some f =>
          have hr := field_refines s.cfg { st with fieldSeen := true } f hcl
          have hm : msgSt { st with fieldSeen := true } = msgSt st := rfl
          rw [hm] at hr
          simp only [fieldStep, loopSpec, List.map_cons, loop_cons, kv]
          rw [hr]
          cases hv : fieldVerdict s.cfg { st with fieldSeen := true } f with
          | some e => simp [absOut]
          | none =>
            simp only
            have := ih { s with dec := dec } (fieldUpdate { st with fieldSeen := true } f) (fp + 1) rest
              (contentLength_nonneg _ f hcl)
            rw [this]
            rfl

/-- where the loop reports no error: the decoder state it leaves, the octets it carries over to the next frame, and whether
a field of the block has been seen -/
theorem fieldLoop_state (fuel : Nat) (s : Srv) (st : Strm) (bs eh : Bool) (fp : Nat) (b : Bytes)
    (hn : (fieldLoop fuel s st bs eh fp b).2.2 = none) :
    match (decRun fuel s.dec bs fp b).2 with
    | .clean dec => (fieldLoop fuel s st bs eh fp b).1 = { s with dec := dec } ∧
        (fieldLoop fuel s st bs eh fp b).2.1.prevHdr = st.prevHdr ∧
        (fieldLoop fuel s st bs eh fp b).2.1.fieldSeen = (st.fieldSeen || !(decRun fuel s.dec bs fp b).1.isEmpty)
    | .cut dec rest => eh = false ∧ heldTooLong s.cfg rest = false ∧
        (fieldLoop fuel s st bs eh fp b).1 = { s with dec := dec } ∧
        (fieldLoop fuel s st bs eh fp b).2.1.prevHdr = rest ∧
        (fieldLoop fuel s st bs eh fp b).2.1.fieldSeen = (st.fieldSeen || !(decRun fuel s.dec bs fp b).1.isEmpty)
    | .bad => False := by
  induction fuel generalizing s st fp b with
  | zero => simp [fieldLoop] at hn
  | succ n ih =>
    cases b with
    | nil => simp [fieldLoop, decRun]
    | cons c cs =>
      simp only [fieldLoop, decRun] at hn ⊢
      cases hd : Hpack.Dec.next s.dec bs fp (c :: cs) with
      | needMore =>
        simp only [hd] at hn ⊢
        cases eh
        · cases hh : heldTooLong s.cfg (Hpack.Dec.skipUpdates s.dec bs fp (c :: cs)).2
          · simp
          · simp [hh] at hn
        · simp at hn
      | err => simp [hd] at hn
      | ok dec fo rest =>
        cases fo with
        | none => simp
        | some f =>
          simp only [hd, fieldStep] at hn ⊢
          cases hv : fieldVerdict s.cfg { st with fieldSeen := true } f with
          | some e => simp [hv] at hn
          | none =>
            simp only [hv] at hn ⊢
            have := ih { s with dec := dec } (fieldUpdate { st with fieldSeen := true } f) (fp + 1) rest hn
            have hp : (fieldUpdate { st with fieldSeen := true } f).prevHdr = st.prevHdr := fieldUpdate_prevHdr _ f
            have hs : (fieldUpdate { st with fieldSeen := true } f).fieldSeen = true := fieldUpdate_fieldSeen _ f
            cases ht : (decRun n dec bs (fp + 1) rest).2 with
            | clean d => simp only [ht] at this ⊢; simpa [hp, hs] using this
            | cut d r => simp only [ht] at this ⊢; simpa [hp, hs] using this
            | bad => simp only [ht] at this

/-! ## fuel: the octets at hand plus one is always enough -/

theorem decRun_fuel : ∀ (n : Nat) (dec : Hpack.DecState) (bs : Bool) (fp : Nat) (b : Bytes),
    b.length < n → decRun n dec bs fp b = decRun (b.length + 1) dec bs fp b := by
  intro n
  induction n using Nat.strongRecOn with
  | _ n ih =>
    intro dec bs fp b h
    cases n with
    | zero => omega
    | succ n =>
      cases b with
      | nil => simp [decRun]
      | cons c cs =>
        simp only [List.length_cons, decRun]
        cases hd : Hpack.Dec.next dec bs fp (c :: cs) with
        | needMore => rfl
        | err => rfl
        | ok dec' fo rest =>
          cases fo with
          | none => rfl
          | some f =>
            have hlt : rest.length < (c :: cs).length := by
              rw [Hpack.next_eq_step] at hd
              exact Hpack.step_progress _ _ _ _ _ _ _ hd
            simp only [List.length_cons] at hlt h
            simp only
            rw [ih n (by omega) dec' bs (fp + 1) rest (by omega),
              ih (cs.length + 1) (by omega) dec' bs (fp + 1) rest (by omega)]

end H2.Server.Lock
