import H2.Proofs.ClientRunFlowA
/-!
# C07 on the full serial client model: DATA written never exceeds what the server granted, in every run

State form with ghost ledgers carried beside the connection (the way `ServerFlowFull` does it for the server).
The ledgers `Led` are moved ONLY by what the connection receives and writes, never by its windows:
* `recv`: a WINDOW_UPDATE frame the read loop processes adds its increment to `connInc` / `strInc sid`; a SETTINGS frame
  (not an acknowledgement) that carries INITIAL_WINDOW_SIZE sets `iws`;
* `wrote`: every `.data sid len _` frame of a step's output adds `len` to `connSent` and `strSent sid`.
The invariant `FL g c` ties `c.connWindow` and `c.pending[*].window` (both `int32`, with the wrap-around of the code) to
these ledgers. Results: `step_fl` (one step), used by `Props/C07.lean` for whole runs.
-/
namespace H2.Client

/-! ## ledgers -/

structure Led where
  iws : Int
  connInc : Nat := 0
  connSent : Nat := 0
  strInc : Nat → Nat := fun _ => 0
  strSent : Nat → Nat := fun _ => 0

def dataLen : OutFrame → Nat
  | .data _ n _ => n
  | _ => 0

/-- octets of DATA on stream `sid` among the frames -/
def dataOn (sid : Nat) : List OutFrame → Nat
  | [] => 0
  | .data s n _ :: fs => (if s = sid then n else 0) + dataOn sid fs
  | _ :: fs => dataOn sid fs

/-- octets of DATA among the frames -/
def dataAll : List OutFrame → Nat
  | [] => 0
  | f :: fs => dataLen f + dataAll fs

theorem dataOn_append (sid : Nat) (a b : List OutFrame) : dataOn sid (a ++ b) = dataOn sid a + dataOn sid b := by
  induction a with
  | nil => simp [dataOn]
  | cons x xs ih => cases x <;> simp [dataOn, ih, Nat.add_assoc]

theorem dataAll_append (a b : List OutFrame) : dataAll (a ++ b) = dataAll a + dataAll b := by
  induction a with
  | nil => simp [dataAll]
  | cons x xs ih => simp [dataAll, ih, Nat.add_assoc]

/-- the frames are control frames or empty DATA: they count for nothing -/
def NoDat (q : List OutFrame) : Prop := ∀ f ∈ q, dataLen f = 0

theorem noDat_on {q : List OutFrame} (h : NoDat q) (sid : Nat) : dataOn sid q = 0 := by
  induction q with
  | nil => rfl
  | cons x xs ih =>
    have hx := h x (List.mem_cons_self ..)
    have := ih (fun f hf => h f (List.mem_cons_of_mem _ hf))
    cases x <;> simp_all [dataOn, dataLen]

theorem noDat_all {q : List OutFrame} (h : NoDat q) : dataAll q = 0 := by
  induction q with
  | nil => rfl
  | cons x xs ih =>
    have hx := h x (List.mem_cons_self ..)
    have := ih (fun f hf => h f (List.mem_cons_of_mem _ hf))
    simp [dataAll, hx, this]

theorem isCtl_dataLen {f : OutFrame} (h : f.isCtl = true) : dataLen f = 0 := by
  cases f <;> first | rfl | cases h

/-- all frames are DATA on `sid` -/
def AllOn (sid : Nat) (fs : List OutFrame) : Prop := ∀ f ∈ fs, ∃ k b, f = .data sid k b

theorem allOn_other {sid : Nat} {fs : List OutFrame} (h : AllOn sid fs) (s : Nat) (hs : s ≠ sid) : dataOn s fs = 0 := by
  induction fs with
  | nil => rfl
  | cons x xs ih =>
    obtain ⟨k, b, rfl⟩ := h x (List.mem_cons_self ..)
    have := ih (fun f hf => h f (List.mem_cons_of_mem _ hf))
    have hne : ¬ sid = s := fun e => hs e.symm
    simp [dataOn, this, hne]

theorem allOn_all {sid : Nat} {fs : List OutFrame} (h : AllOn sid fs) : dataAll fs = dataOn sid fs := by
  induction fs with
  | nil => rfl
  | cons x xs ih =>
    obtain ⟨k, b, rfl⟩ := h x (List.mem_cons_self ..)
    have := ih (fun f hf => h f (List.mem_cons_of_mem _ hf))
    simp [dataOn, dataAll, dataLen, this]

/-- the ledgers after the frames `fs` were written -/
def Led.wrote (g : Led) (fs : List OutFrame) : Led :=
  { g with connSent := g.connSent + dataAll fs, strSent := fun s => g.strSent s + dataOn s fs }

theorem Led.wrote_nil (g : Led) : g.wrote [] = g := by
  cases g; simp [Led.wrote, dataAll, dataOn]

theorem Led.wrote_append (g : Led) (a b : List OutFrame) : (g.wrote a).wrote b = g.wrote (a ++ b) := by
  simp only [Led.wrote, dataAll_append, dataOn_append, Nat.add_assoc]

theorem Led.wrote_noDat (g : Led) {q : List OutFrame} (h : NoDat q) : g.wrote q = g := by
  cases g
  simp only [Led.wrote, noDat_all h, Nat.add_zero, Led.mk.injEq, true_and]
  funext s; simp [noDat_on h s]

def bump (f : Nat → Nat) (k n : Nat) : Nat → Nat := fun x => if x = k then f x + n else f x

/-- the ledgers after a frame the read loop has processed -/
def Led.recv (g : Led) (f : Frame.Frame) : Led :=
  match f.body with
  | .windowUpdate inc =>
    if f.stream == 0 then { g with connInc := g.connInc + inc } else { g with strInc := bump g.strInc f.stream inc }
  | .settings s => if f.stream == 0 && !s.ack && s.hasWindowSize then { g with iws := s.windowSize } else g
  | _ => g

/-! ## the invariant -/

structure EntOK (g : Led) (c : Conn) (sid : Nat) (pb : Pending) : Prop where
  rng : Rng pb.window
  below : sid < c.nextID
  wok : WOK pb.window (g.iws + g.strInc sid - g.strSent sid) g.iws

def MfsOK (n : Nat) : Prop := 16384 ≤ n ∧ n ≤ 16777215

structure FL (g : Led) (c : Conn) : Prop where
  iws : c.streamWindow = g.iws
  iwsR : 0 ≤ g.iws ∧ g.iws ≤ 2147483647
  connR : Rng c.connWindow
  conn : c.connWindow ≤ 65535 + (g.connInc : Int) - g.connSent
  connLe : (g.connSent : Int) ≤ 65535 + g.connInc
  sorted : SortedA c.pending
  ent : ∀ p ∈ c.pending, EntOK g c p.1 p.2
  fresh : ∀ sid, c.nextID ≤ sid → g.strSent sid = 0
  mfs : MfsOK c.maxFrameSize
  outQ : NoDat c.outQ

/-- a function that moves no send window: bodies may be dropped, control frames queued -/
structure WinRel (c c' : Conn) : Prop where
  sub : c'.pending.Sublist c.pending
  connWindow : c'.connWindow = c.connWindow
  streamWindow : c'.streamWindow = c.streamWindow
  nextID : c'.nextID = c.nextID
  maxFrameSize : c'.maxFrameSize = c.maxFrameSize
  outQ : ∀ f ∈ c'.outQ, f ∈ c.outQ ∨ f.isCtl = true

theorem WinRel.refl (c : Conn) : WinRel c c := ⟨List.Sublist.refl _, rfl, rfl, rfl, rfl, fun _ h => .inl h⟩

theorem WinRel.trans {a b c : Conn} (h1 : WinRel a b) (h2 : WinRel b c) : WinRel a c := by
  refine ⟨h2.sub.trans h1.sub, h2.connWindow.trans h1.connWindow, h2.streamWindow.trans h1.streamWindow,
    h2.nextID.trans h1.nextID, h2.maxFrameSize.trans h1.maxFrameSize, ?_⟩
  intro f hf
  rcases h2.outQ f hf with h | h
  · exact h1.outQ f h
  · exact .inr h

theorem FL.winRel {g : Led} {c c' : Conn} (h : FL g c) (r : WinRel c c') : FL g c' := by
  refine ⟨r.streamWindow.trans h.iws, h.iwsR, by rw [r.connWindow]; exact h.connR, by rw [r.connWindow]; exact h.conn,
    h.connLe, List.Pairwise.sublist r.sub h.sorted, ?_, by rw [r.nextID]; exact h.fresh, by rw [r.maxFrameSize]; exact h.mfs, ?_⟩
  · intro p hp
    obtain ⟨a, b, d⟩ := h.ent p (r.sub.subset hp)
    exact ⟨a, by rw [r.nextID]; exact b, d⟩
  · intro f hf
    rcases r.outQ f hf with x | x
    · exact h.outQ f x
    · exact isCtl_dataLen x

/-- frames that were not written: the windows have moved, the ledgers have not -/
theorem FL.forget {g : Led} {c : Conn} {fs : List OutFrame} (h : FL (g.wrote fs) c) : FL g c := by
  refine ⟨h.iws, h.iwsR, h.connR, ?_, ?_, h.sorted, ?_, ?_, h.mfs, h.outQ⟩
  · have := h.conn; simp only [Led.wrote] at this; omega
  · have := h.connLe; simp only [Led.wrote] at this; omega
  · intro p hp
    obtain ⟨a, b, d⟩ := h.ent p hp
    refine ⟨a, b, ?_⟩
    simp only [Led.wrote] at d
    exact d.mono (by omega)
  · intro sid hs
    have := h.fresh sid hs
    simp only [Led.wrote] at this
    omega

/-! ### `WinRel` of the read loop's functions -/

theorem winRel_setLastErr (c : Conn) (e : Err) : WinRel c (setLastErr c e) := by
  obtain ⟨l, h⟩ := setLastErr_shape c e; rw [h]
  exact ⟨List.Sublist.refl _, rfl, rfl, rfl, rfl, fun _ h => .inl h⟩

theorem winRel_queueOut (c : Conn) (f : OutFrame) (hf : f.isCtl = true) : WinRel c (queueOut c f) := by
  refine ⟨List.Sublist.refl _, rfl, rfl, rfl, rfl, ?_⟩
  intro g hg
  simp only [queueOut, List.mem_append, List.mem_singleton] at hg
  rcases hg with hg | hg
  · exact .inl hg
  · right; rw [hg]; exact hf

theorem winRel_consumeConnWindow (c : Conn) (n : Nat) : WinRel c (consumeConnWindow c n) := by
  unfold consumeConnWindow
  simp only
  split
  · exact (WinRel.mk (c := c) (c' := { c with currentWindow := maxWindow }) (List.Sublist.refl _) rfl rfl rfl rfl
      (fun _ h => .inl h)).trans (winRel_queueOut _ _ rfl)
  · exact ⟨List.Sublist.refl _, rfl, rfl, rfl, rfl, fun _ h => .inl h⟩

theorem winRel_prepare (c : Conn) (f : Frame.Frame) : WinRel c (prepare c f).1 := by
  obtain ⟨h, e⟩ := prepare_shape c f
  rw [e]; exact ⟨List.Sublist.refl _, rfl, rfl, rfl, rfl, fun _ h => .inl h⟩

theorem winRel_readStream (c : Conn) (tag : String) (r : Req) (f : Frame.Frame) : WinRel c (readStream c tag r f).1 := by
  have same : ∀ c' : Conn, c'.pending = c.pending → c'.connWindow = c.connWindow → c'.streamWindow = c.streamWindow →
      c'.nextID = c.nextID → c'.maxFrameSize = c.maxFrameSize → c'.outQ = c.outQ → WinRel c c' := by
    intro c' e1 e2 e3 e4 e5 e6
    exact ⟨by rw [e1]; exact List.Sublist.refl _, e2, e3, e4, e5, by rw [e6]; exact fun _ h => .inl h⟩
  unfold readStream
  split
  · simp only; split <;> exact same _ rfl rfl rfl rfl rfl rfl
  · simp only; split <;> exact same _ rfl rfl rfl rfl rfl rfl
  · exact WinRel.refl c
  · have h1 : ∀ d : Bytes, WinRel c
        (if (d.length != 0) = true then updReq c tag fun q => { q with body := q.body ++ d } else c) := by
      intro d; split
      · exact same _ rfl rfl rfl rfl rfl rfl
      · exact WinRel.refl c
    simp only
    split
    · exact (h1 _).trans (winRel_queueOut _ _ rfl)
    · exact h1 _
  · exact WinRel.refl c

theorem winRel_finish (c : Conn) (tag : String) (sid : Nat) (e : Err) : WinRel c (finish c tag sid e) := by
  obtain ⟨o, hs⟩ := finish_shape c tag sid e
  rw [hs]; exact ⟨eraseA_sublist _ _, rfl, rfl, rfl, rfl, fun _ h => .inl h⟩

theorem winRel_settle (c : Conn) (tag : String) (sid : Nat) (err : Option Err) (endS : Bool) :
    WinRel c (settle c tag sid err endS).1 := by
  unfold settle
  simp only
  split
  · split
    · exact winRel_finish _ _ _ _
    · exact WinRel.refl c
  · exact winRel_finish _ _ _ _

theorem winRel_dispatch (c : Conn) (f : Frame.Frame) : WinRel c (dispatch c f).1 := by
  rw [dispatch_eq]
  split
  · exact WinRel.refl c
  · split
    · exact WinRel.refl c
    · split
      · exact ⟨List.Sublist.refl _, rfl, rfl, rfl, rfl, fun _ h => .inl h⟩
      · exact ((winRel_prepare c f).trans (winRel_readStream _ _ _ _)).trans (winRel_settle _ _ _ _ _)

theorem winRel_refuse (c : Conn) (sid : Nat) (tag : String) : WinRel c (refuse c sid tag) := by
  unfold refuse
  split
  · exact ⟨List.Sublist.refl _, rfl, rfl, rfl, rfl, fun _ h => .inl h⟩
  · split
    · exact ⟨List.Sublist.refl _, rfl, rfl, rfl, rfl, fun _ h => .inl h⟩
    · exact winRel_finish _ _ _ _

theorem winRel_refuseAbove (l : List (Nat × String)) : ∀ c : Conn, WinRel c (refuseAbove c l) := by
  induction l with
  | nil => intro c; exact WinRel.refl c
  | cons x xs ih =>
    intro c
    obtain ⟨sid, tag⟩ := x
    simp only [refuseAbove]
    split
    · exact (winRel_refuse c sid tag).trans (ih _)
    · exact ih c

theorem winRel_dispatchLoop (c : Conn) (f : Frame.Frame) : WinRel c (dispatchLoop c f).1 := by
  rw [dispatchLoop_eq]
  split
  · exact (winRel_dispatch c f).trans (winRel_refuseAbove _ _)
  · exact winRel_dispatch c f

/-! ## the write loop -/

theorem dataFrames_spec' (sid step : Nat) (hstep : 0 < step) : ∀ (fuel n : Nat) (e : Bool), n < fuel →
    dataOn sid (dataFrames sid step fuel n e) = n ∧ ∀ f ∈ dataFrames sid step fuel n e, dataLen f ≤ step := by
  intro fuel
  induction fuel with
  | zero => intro n e h; omega
  | succ k ih =>
    intro n e h
    simp only [dataFrames]
    split
    · rename_i hle
      refine ⟨by simp [dataOn], ?_⟩
      intro f hf; simp only [List.mem_singleton] at hf; rw [hf]; exact hle
    · rename_i hgt
      obtain ⟨i1, i2⟩ := ih (n - step) e (by omega)
      refine ⟨by simp [dataOn, i1]; omega, ?_⟩
      intro f hf
      simp only [List.mem_cons] at hf
      rcases hf with rfl | hf
      · exact Nat.le_refl _
      · exact i2 f hf

/-- `writeData` with a valid MAX_FRAME_SIZE: exactly `n` octets, in frames no longer than that -/
theorem writeData_spec (c : Conn) (sid n : Nat) (endS : Bool) (hm : MfsOK c.maxFrameSize) :
    dataOn sid (writeData c sid n endS) = n ∧ ∀ f ∈ writeData c sid n endS, dataLen f ≤ c.maxFrameSize := by
  obtain ⟨m1, m2⟩ := hm
  have h0 : (c.maxFrameSize == 0 || decide (c.maxFrameSize > Gen.c_maxFrameSize)) = false := by
    simp [Gen.c_maxFrameSize]; omega
  simp only [writeData, h0, Bool.false_eq_true, if_false]
  split
  · rename_i hn
    have : n = 0 := by simpa using hn
    subst this
    split
    · refine ⟨by simp [dataOn], ?_⟩
      intro f hf; simp only [List.mem_singleton] at hf; rw [hf]; simp [dataLen]
    · exact ⟨rfl, fun f hf => nomem' hf⟩
  · exact dataFrames_spec' sid c.maxFrameSize (by omega) (n + 1) n endS (by omega)
where
  nomem' {α : Type} {P : Prop} {f : α} (h : f ∈ ([] : List α)) : P := by cases h

theorem refill_window {pb pb' : Pending} (h : refill pb = some pb') : pb'.window = pb.window := by
  unfold refill at h
  split at h
  · split at h
    · cases h
    · cases h
    · simp only [Option.some.injEq] at h; subst h; rfl
  · simp only at h
    split at h
    · cases h
    · simp only [Option.some.injEq] at h
      subst h
      (repeat' split) <;> rfl

/-- the ledgers after `k` octets of DATA were written on `sid` -/
def Led.sent (g : Led) (sid k : Nat) : Led :=
  { g with connSent := g.connSent + k, strSent := fun s => g.strSent s + (if s = sid then k else 0) }

theorem Led.sent_zero (g : Led) (sid : Nat) : g.sent sid 0 = g := by
  cases g; simp [Led.sent]

theorem Led.wrote_allOn (g : Led) {sid : Nat} {fs : List OutFrame} (h : AllOn sid fs) : g.wrote fs = g.sent sid (dataOn sid fs) := by
  simp only [Led.wrote, Led.sent, allOn_all h]
  congr 1
  funext s
  by_cases hs : s = sid
  · simp [hs]
  · simp [hs, allOn_other h s hs]

/-- the body after `n` of its octets have left -/
def spent (pb : Pending) (n : Nat) : Pending := { pb with window := pb.window - n, body := pb.body - n }

/-- `n = spendN …` octets leave the windows of the body `pb` on `sid`, of which `k ≤ n` reach the transport -/
theorem fl_spend {g : Led} {c c' : Conn} (h : FL g c) (sid : Nat) (pb : Pending) (hm : (sid, pb) ∈ c.pending) (n k : Nat)
    (hn : n = spendN pb.body pb.window c.connWindow) (hk : k ≤ n)
    (e1 : c'.connWindow = c.connWindow - n)
    (e2 : c'.pending = eraseA c.pending sid ∨ c'.pending = insertA c.pending sid (spent pb n))
    (e3 : c'.streamWindow = c.streamWindow) (e4 : c'.nextID = c.nextID) (e5 : c'.maxFrameSize = c.maxFrameSize)
    (e6 : c'.outQ = c.outQ) :
    FL (g.sent sid k) c' ∧ (0 < k → (g.strSent sid + k : Int) ≤ g.iws + g.strInc sid) := by
  obtain ⟨n1, n2, _⟩ := spendN_le pb.body pb.window c.connWindow
  rw [← hn] at n1 n2
  have e : EntOK g c sid pb := h.ent (sid, pb) hm
  have hconn := h.conn
  have hconnLe := h.connLe
  have hR := h.connR
  have other : ∀ p ∈ c.pending, p.1 ≠ sid → EntOK (g.sent sid k) c' p.1 p.2 := by
    intro p hp hne
    obtain ⟨a, b, d⟩ := h.ent p hp
    refine ⟨a, by rw [e4]; exact b, ?_⟩
    simpa [Led.sent, hne] using d
  constructor
  · refine ⟨e3.trans h.iws, h.iwsR, by rw [e1]; exact rng_spend hR n n2, ?_, ?_, ?_, ?_, ?_, by rw [e5]; exact h.mfs,
      by rw [e6]; exact h.outQ⟩
    · rw [e1]; simp only [Led.sent]; omega
    · simp only [Led.sent]
      by_cases hk0 : k = 0
      · omega
      · unfold Rng at hR; omega
    · rcases e2 with e2 | e2 <;> rw [e2]
      · exact sortedA_eraseA h.sorted _
      · exact sortedA_insertA h.sorted _ _
    · intro p hp
      rcases e2 with e2 | e2 <;> rw [e2] at hp
      · obtain ⟨hp1, hp2⟩ := mem_eraseA.mp hp
        exact other p hp1 hp2
      · rcases (mem_insertA h.sorted _ _ p).mp hp with rfl | ⟨hp1, hp2⟩
        · refine ⟨rng_spend e.rng n n1, by rw [e4]; exact e.below, ?_⟩
          refine wok_spend e.wok n n1 h.iwsR.2 ?_
          simp only [Led.sent, if_true]
          omega
        · exact other p hp1 hp2
    · intro s hs
      rw [e4] at hs
      have hne : s ≠ sid := by have := e.below; omega
      simp only [Led.sent, hne, if_false, Nat.add_zero]
      exact h.fresh s hs
  · intro hk0
    have := e.wok.le
    omega

theorem fl_deletePending {g : Led} {c : Conn} (h : FL g c) (sid : Nat) : FL g (deletePending c sid) :=
  h.winRel ⟨eraseA_sublist _ _, rfl, rfl, rfl, rfl, fun _ hf => .inl hf⟩

/-- what `sendPending` establishes -/
def SendOK (g : Led) (sid m : Nat) (res : Conn × List OutFrame) : Prop :=
  FL (g.wrote res.2) res.1 ∧
  (0 < dataOn sid res.2 → (g.strSent sid + dataOn sid res.2 : Int) ≤ g.iws + g.strInc sid) ∧
  (∀ f ∈ res.2, dataLen f ≤ m)

theorem sendOK_nothing {g : Led} {c' : Conn} (sid m : Nat) (h : FL g c') : SendOK g sid m (c', []) := by
  unfold SendOK
  rw [Led.wrote_nil]
  exact ⟨h, fun hh => absurd hh (by simp [dataOn]), fun f hf => nomem hf⟩

/-- the spend, all of it written, the body ending or not -/
theorem spend_end {g : Led} {c : Conn} (h : FL g c) (sid : Nat) (pb : Pending) (hm : (sid, pb) ∈ c.pending) (X : Conn)
    (e1 : X.connWindow = c.connWindow - ↑(spendN pb.body pb.window c.connWindow))
    (e2 : X.pending = eraseA c.pending sid ∨
      X.pending = insertA c.pending sid (spent pb (spendN pb.body pb.window c.connWindow)))
    (e3 : X.streamWindow = c.streamWindow) (e4 : X.nextID = c.nextID) (e5 : X.maxFrameSize = c.maxFrameSize)
    (e6 : X.outQ = c.outQ) (endS : Bool) :
    SendOK g sid c.maxFrameSize (X, writeData X sid (spendN pb.body pb.window c.connWindow) endS) := by
  have wd := writeData_spec X sid (spendN pb.body pb.window c.connWindow) endS (by rw [e5]; exact h.mfs)
  have ao : AllOn sid (writeData X sid (spendN pb.body pb.window c.connWindow) endS) := writeData_data _ _ _ _
  have full := fl_spend (c' := X) h sid pb hm _ (spendN pb.body pb.window c.connWindow) rfl (Nat.le_refl _) e1 e2 e3 e4 e5 e6
  unfold SendOK
  simp only
  rw [Led.wrote_allOn g ao, wd.1]
  exact ⟨full.1, full.2, fun f hf => by rw [← e5]; exact wd.2 f hf⟩

theorem spend_more {g : Led} {c : Conn} (h : FL g c) (sid : Nat) (pb : Pending) (hm : (sid, pb) ∈ c.pending) (X : Conn)
    (e1 : X.connWindow = c.connWindow - ↑(spendN pb.body pb.window c.connWindow))
    (e2 : X.pending = eraseA c.pending sid ∨
      X.pending = insertA c.pending sid (spent pb (spendN pb.body pb.window c.connWindow)))
    (e3 : X.streamWindow = c.streamWindow) (e4 : X.nextID = c.nextID) (e5 : X.maxFrameSize = c.maxFrameSize)
    (e6 : X.outQ = c.outQ) (endS : Bool) (rest : Conn × List OutFrame)
    (ih : ∀ g', FL g' X → SendOK g' sid X.maxFrameSize rest) :
    SendOK g sid c.maxFrameSize
      (rest.1, writeData X sid (spendN pb.body pb.window c.connWindow) endS ++ rest.2) := by
  obtain ⟨s1, s2, s3⟩ := spend_end h sid pb hm X e1 e2 e3 e4 e5 e6 endS
  simp only at s1 s2 s3
  obtain ⟨i1, i2, i3⟩ := ih _ s1
  have ao : AllOn sid (writeData X sid (spendN pb.body pb.window c.connWindow) endS) := writeData_data _ _ _ _
  unfold SendOK
  simp only
  rw [Led.wrote_append] at i1
  refine ⟨i1, ?_, ?_⟩
  · intro hpos
    rw [dataOn_append] at hpos ⊢
    by_cases hz : 0 < dataOn sid rest.2
    · have := i2 hz
      simp only [Led.wrote] at this
      omega
    · have h0 : dataOn sid rest.2 = 0 := by omega
      rw [h0] at hpos ⊢
      have := s2 (by omega)
      omega
  · intro f hf
    rcases List.mem_append.mp hf with hf | hf
    · exact s3 f hf
    · rw [← e5]; exact i3 f hf

/-- **`sendPending` against the ledgers**: the frames it writes on `sid` fit the stream's and the connection's allowance -/
theorem sendPending_fl (fuel : Nat) : ∀ (g : Led) (c : Conn) (sid : Nat), FL g c →
    SendOK g sid c.maxFrameSize (sendPending fuel c sid) := by
  induction fuel with
  | zero => intro g c sid h; exact sendOK_nothing sid _ h
  | succ k ih =>
    intro g c sid h
    simp only [sendPending]
    split
    · exact sendOK_nothing sid _ h
    · rename_i pb hl
      have hm : (sid, pb) ∈ c.pending := lookupA_mem hl
      have e : EntOK g c sid pb := h.ent (sid, pb) hm
      split
      · split
        · -- the body cannot be read: dropped, RST_STREAM queued
          refine sendOK_nothing sid _ (h.winRel ⟨eraseA_sublist _ _, rfl, rfl, rfl, rfl, ?_⟩)
          intro f hf
          simp only [deletePending, List.mem_append, List.mem_singleton] at hf
          rcases hf with hf | hf
          · exact .inl hf
          · right; rw [hf]; rfl
        · rename_i pb' hrf
          have hw := refill_window hrf
          have h1 : FL g { c with pending := insertA c.pending sid pb' } := by
            refine ⟨h.iws, h.iwsR, h.connR, h.conn, h.connLe, sortedA_insertA h.sorted _ _, ?_, h.fresh, h.mfs, h.outQ⟩
            intro p hp
            rcases (mem_insertA h.sorted _ _ p).mp hp with rfl | ⟨hp1, _⟩
            · exact ⟨by rw [hw]; exact e.rng, e.below, by rw [hw]; exact e.wok⟩
            · obtain ⟨a, b, d⟩ := h.ent p hp1
              exact ⟨a, b, d⟩
          exact ih g _ sid h1
      · -- octets leave the windows
        have hpend : ∀ b : Bool,
            (if b = true then eraseA c.pending sid
              else insertA c.pending sid (spent pb (spendN pb.body pb.window c.connWindow))) = eraseA c.pending sid ∨
            (if b = true then eraseA c.pending sid
              else insertA c.pending sid (spent pb (spendN pb.body pb.window c.connWindow))) =
              insertA c.pending sid (spent pb (spendN pb.body pb.window c.connWindow)) := by
          intro b; cases b
          · right; rfl
          · left; rfl
        have quiet : ∀ c' : Conn, c'.connWindow = c.connWindow - ↑(spendN pb.body pb.window c.connWindow) →
            (c'.pending = eraseA c.pending sid ∨
              c'.pending = insertA c.pending sid (spent pb (spendN pb.body pb.window c.connWindow))) →
            c'.streamWindow = c.streamWindow → c'.nextID = c.nextID → c'.maxFrameSize = c.maxFrameSize →
            c'.outQ = c.outQ → FL g c' := by
          intro c' e1 e2 e3 e4 e5 e6
          have := (fl_spend (c' := c') h sid pb hm _ 0 rfl (Nat.zero_le _) e1 e2 e3 e4 e5 e6).1
          rwa [Led.sent_zero] at this
        split
        · exact sendOK_nothing sid _ (quiet _ rfl (hpend _) rfl rfl rfl rfl)
        · split
          · exact sendOK_nothing sid _ (quiet _ rfl (hpend _) rfl rfl rfl rfl)
          · split
            · refine sendOK_nothing sid _ (fl_deletePending ?_ sid)
              exact quiet _ rfl (hpend _) rfl rfl rfl rfl
            · split
              · refine spend_end h sid pb hm _ ?_ ?_ ?_ ?_ ?_ ?_ _ <;>
                  first | rfl | exact .inl rfl | exact .inr rfl | exact hpend _
              · refine spend_more h sid pb hm _ ?_ ?_ ?_ ?_ ?_ ?_ _ _ (fun g' hg' => ih g' _ sid hg') <;>
                  first | rfl | exact .inl rfl | exact .inr rfl | exact hpend _

end H2.Client
