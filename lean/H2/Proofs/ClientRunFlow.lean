import H2.Proofs.ClientRunFlowA
/-!
# C07 on the full serial client model: DATA written never exceeds what the server granted, in every run

State form with ghost ledgers carried beside the connection (the way `ServerFlowFull` does it for the server).
The ledgers `Led` are moved ONLY by what the connection receives and writes, never by its windows:
* `recv`: a WINDOW_UPDATE frame the read loop processes adds its increment to `connInc` / `strInc sid`; a SETTINGS frame
  (not an acknowledgement) that carries INITIAL_WINDOW_SIZE sets `iws`;
* `wrote`: every `.data sid len _` frame of a step's output adds `len` to `connSent` and `strSent sid`.
The invariant `FL g c` ties `c.connWindow` and `c.pending[*].window` (both `int32`, with the wrap-around of the code) to
these ledgers. Results: `step_fl` (one step), used by `Props/C07.lean` for whole runs.
-/
namespace H2.Client

/-! ## ledgers -/

structure Led where
  iws : Int
  connInc : Nat := 0
  connSent : Nat := 0
  strInc : Nat → Nat := fun _ => 0
  strSent : Nat → Nat := fun _ => 0

def dataLen : OutFrame → Nat
  | .data _ n _ => n
  | _ => 0

/-- octets of DATA on stream `sid` among the frames -/
def dataOn (sid : Nat) : List OutFrame → Nat
  | [] => 0
  | .data s n _ :: fs => (if s = sid then n else 0) + dataOn sid fs
  | _ :: fs => dataOn sid fs

/-- octets of DATA among the frames -/
def dataAll : List OutFrame → Nat
  | [] => 0
  | f :: fs => dataLen f + dataAll fs

theorem dataOn_append (sid : Nat) (a b : List OutFrame) : dataOn sid (a ++ b) = dataOn sid a + dataOn sid b := by
  induction a with
  | nil => simp [dataOn]
  | cons x xs ih => cases x <;> simp [dataOn, ih, Nat.add_assoc]

theorem dataAll_append (a b : List OutFrame) : dataAll (a ++ b) = dataAll a + dataAll b := by
  induction a with
  | nil => simp [dataAll]
  | cons x xs ih => simp [dataAll, ih, Nat.add_assoc]

/-- the frames are control frames or empty DATA: they count for nothing -/
def NoDat (q : List OutFrame) : Prop := ∀ f ∈ q, dataLen f = 0

theorem noDat_on {q : List OutFrame} (h : NoDat q) (sid : Nat) : dataOn sid q = 0 := by
  induction q with
  | nil => rfl
  | cons x xs ih =>
    have hx := h x (List.mem_cons_self ..)
    have := ih (fun f hf => h f (List.mem_cons_of_mem _ hf))
    cases x <;> simp_all [dataOn, dataLen]

theorem noDat_all {q : List OutFrame} (h : NoDat q) : dataAll q = 0 := by
  induction q with
  | nil => rfl
  | cons x xs ih =>
    have hx := h x (List.mem_cons_self ..)
    have := ih (fun f hf => h f (List.mem_cons_of_mem _ hf))
    simp [dataAll, hx, this]

theorem isCtl_dataLen {f : OutFrame} (h : f.isCtl = true) : dataLen f = 0 := by
  cases f <;> first | rfl | cases h

/-- all frames are DATA on `sid` -/
def AllOn (sid : Nat) (fs : List OutFrame) : Prop := ∀ f ∈ fs, ∃ k b, f = .data sid k b

theorem allOn_other {sid : Nat} {fs : List OutFrame} (h : AllOn sid fs) (s : Nat) (hs : s ≠ sid) : dataOn s fs = 0 := by
  induction fs with
  | nil => rfl
  | cons x xs ih =>
    obtain ⟨k, b, rfl⟩ := h x (List.mem_cons_self ..)
    have := ih (fun f hf => h f (List.mem_cons_of_mem _ hf))
    have hne : ¬ sid = s := fun e => hs e.symm
    simp [dataOn, this, hne]

theorem allOn_all {sid : Nat} {fs : List OutFrame} (h : AllOn sid fs) : dataAll fs = dataOn sid fs := by
  induction fs with
  | nil => rfl
  | cons x xs ih =>
    obtain ⟨k, b, rfl⟩ := h x (List.mem_cons_self ..)
    have := ih (fun f hf => h f (List.mem_cons_of_mem _ hf))
    simp [dataOn, dataAll, dataLen, this]

/-- the ledgers after the frames `fs` were written -/
def Led.wrote (g : Led) (fs : List OutFrame) : Led :=
  { g with connSent := g.connSent + dataAll fs, strSent := fun s => g.strSent s + dataOn s fs }

theorem Led.wrote_nil (g : Led) : g.wrote [] = g := by
  cases g; simp [Led.wrote, dataAll, dataOn]

theorem Led.wrote_append (g : Led) (a b : List OutFrame) : (g.wrote a).wrote b = g.wrote (a ++ b) := by
  simp only [Led.wrote, dataAll_append, dataOn_append, Nat.add_assoc]

theorem Led.wrote_noDat (g : Led) {q : List OutFrame} (h : NoDat q) : g.wrote q = g := by
  cases g
  simp only [Led.wrote, noDat_all h, Nat.add_zero, Led.mk.injEq, true_and]
  funext s; simp [noDat_on h s]

def bump (f : Nat → Nat) (k n : Nat) : Nat → Nat := fun x => if x = k then f x + n else f x

/-- the ledgers after a frame the read loop has processed -/
def Led.recv (g : Led) (f : Frame.Frame) : Led :=
  match f.body with
  | .windowUpdate inc =>
    if f.stream == 0 then { g with connInc := g.connInc + inc } else { g with strInc := bump g.strInc f.stream inc }
  | .settings s => if f.stream == 0 && !s.ack && s.hasWindowSize then { g with iws := s.windowSize } else g
  | _ => g

/-! ## the invariant -/

structure EntOK (g : Led) (c : Conn) (sid : Nat) (pb : Pending) : Prop where
  rng : Rng pb.window
  below : sid < c.nextID
  wok : WOK pb.window (g.iws + g.strInc sid - g.strSent sid) g.iws

def MfsOK (n : Nat) : Prop := 16384 ≤ n ∧ n ≤ 16777215

structure FL (g : Led) (c : Conn) : Prop where
  iws : c.streamWindow = g.iws
  iwsR : 0 ≤ g.iws ∧ g.iws ≤ 2147483647
  connR : Rng c.connWindow
  conn : c.connWindow ≤ 65535 + (g.connInc : Int) - g.connSent
  connLe : (g.connSent : Int) ≤ 65535 + g.connInc
  sorted : SortedA c.pending
  ent : ∀ p ∈ c.pending, EntOK g c p.1 p.2
  fresh : ∀ sid, c.nextID ≤ sid → g.strSent sid = 0
  mfs : MfsOK c.maxFrameSize
  outQ : NoDat c.outQ

/-- a function that moves no send window: bodies may be dropped, control frames queued -/
structure WinRel (c c' : Conn) : Prop where
  sub : c'.pending.Sublist c.pending
  connWindow : c'.connWindow = c.connWindow
  streamWindow : c'.streamWindow = c.streamWindow
  nextID : c'.nextID = c.nextID
  maxFrameSize : c'.maxFrameSize = c.maxFrameSize
  outQ : ∀ f ∈ c'.outQ, f ∈ c.outQ ∨ f.isCtl = true

theorem WinRel.refl (c : Conn) : WinRel c c := ⟨List.Sublist.refl _, rfl, rfl, rfl, rfl, fun _ h => .inl h⟩

theorem WinRel.trans {a b c : Conn} (h1 : WinRel a b) (h2 : WinRel b c) : WinRel a c := by
  refine ⟨h2.sub.trans h1.sub, h2.connWindow.trans h1.connWindow, h2.streamWindow.trans h1.streamWindow,
    h2.nextID.trans h1.nextID, h2.maxFrameSize.trans h1.maxFrameSize, ?_⟩
  intro f hf
  rcases h2.outQ f hf with h | h
  · exact h1.outQ f h
  · exact .inr h

theorem FL.winRel {g : Led} {c c' : Conn} (h : FL g c) (r : WinRel c c') : FL g c' := by
  refine ⟨r.streamWindow.trans h.iws, h.iwsR, by rw [r.connWindow]; exact h.connR, by rw [r.connWindow]; exact h.conn,
    h.connLe, List.Pairwise.sublist r.sub h.sorted, ?_, by rw [r.nextID]; exact h.fresh, by rw [r.maxFrameSize]; exact h.mfs, ?_⟩
  · intro p hp
    obtain ⟨a, b, d⟩ := h.ent p (r.sub.subset hp)
    exact ⟨a, by rw [r.nextID]; exact b, d⟩
  · intro f hf
    rcases r.outQ f hf with x | x
    · exact h.outQ f x
    · exact isCtl_dataLen x

/-- frames that were not written: the windows have moved, the ledgers have not -/
theorem FL.forget {g : Led} {c : Conn} {fs : List OutFrame} (h : FL (g.wrote fs) c) : FL g c := by
  refine ⟨h.iws, h.iwsR, h.connR, ?_, ?_, h.sorted, ?_, ?_, h.mfs, h.outQ⟩
  · have := h.conn; simp only [Led.wrote] at this; omega
  · have := h.connLe; simp only [Led.wrote] at this; omega
  · intro p hp
    obtain ⟨a, b, d⟩ := h.ent p hp
    refine ⟨a, b, ?_⟩
    simp only [Led.wrote] at d
    exact d.mono (by omega)
  · intro sid hs
    have := h.fresh sid hs
    simp only [Led.wrote] at this
    omega

/-! ### `WinRel` of the read loop's functions -/

theorem winRel_setLastErr (c : Conn) (e : Err) : WinRel c (setLastErr c e) := by
  obtain ⟨l, h⟩ := setLastErr_shape c e; rw [h]
  exact ⟨List.Sublist.refl _, rfl, rfl, rfl, rfl, fun _ h => .inl h⟩

theorem winRel_queueOut (c : Conn) (f : OutFrame) (hf : f.isCtl = true) : WinRel c (queueOut c f) := by
  refine ⟨List.Sublist.refl _, rfl, rfl, rfl, rfl, ?_⟩
  intro g hg
  simp only [queueOut, List.mem_append, List.mem_singleton] at hg
  rcases hg with hg | hg
  · exact .inl hg
  · right; rw [hg]; exact hf

theorem winRel_consumeConnWindow (c : Conn) (n : Nat) : WinRel c (consumeConnWindow c n) := by
  unfold consumeConnWindow
  simp only
  split
  · exact (WinRel.mk (c := c) (c' := { c with currentWindow := maxWindow }) (List.Sublist.refl _) rfl rfl rfl rfl
      (fun _ h => .inl h)).trans (winRel_queueOut _ _ rfl)
  · exact ⟨List.Sublist.refl _, rfl, rfl, rfl, rfl, fun _ h => .inl h⟩

theorem winRel_prepare (c : Conn) (f : Frame.Frame) : WinRel c (prepare c f).1 := by
  obtain ⟨h, e⟩ := prepare_shape c f
  rw [e]; exact ⟨List.Sublist.refl _, rfl, rfl, rfl, rfl, fun _ h => .inl h⟩

theorem winRel_readStream (c : Conn) (tag : String) (r : Req) (f : Frame.Frame) : WinRel c (readStream c tag r f).1 := by
  have same : ∀ c' : Conn, c'.pending = c.pending → c'.connWindow = c.connWindow → c'.streamWindow = c.streamWindow →
      c'.nextID = c.nextID → c'.maxFrameSize = c.maxFrameSize → c'.outQ = c.outQ → WinRel c c' := by
    intro c' e1 e2 e3 e4 e5 e6
    exact ⟨by rw [e1]; exact List.Sublist.refl _, e2, e3, e4, e5, by rw [e6]; exact fun _ h => .inl h⟩
  unfold readStream
  split
  · simp only; split <;> exact same _ rfl rfl rfl rfl rfl rfl
  · simp only; split <;> exact same _ rfl rfl rfl rfl rfl rfl
  · exact WinRel.refl c
  · have h1 : ∀ d : Bytes, WinRel c
        (if (d.length != 0) = true then updReq c tag fun q => { q with body := q.body ++ d } else c) := by
      intro d; split
      · exact same _ rfl rfl rfl rfl rfl rfl
      · exact WinRel.refl c
    simp only
    split
    · exact (h1 _).trans (winRel_queueOut _ _ rfl)
    · exact h1 _
  · exact WinRel.refl c

theorem winRel_finish (c : Conn) (tag : String) (sid : Nat) (e : Err) : WinRel c (finish c tag sid e) := by
  obtain ⟨o, hs⟩ := finish_shape c tag sid e
  rw [hs]; exact ⟨eraseA_sublist _ _, rfl, rfl, rfl, rfl, fun _ h => .inl h⟩

theorem winRel_settle (c : Conn) (tag : String) (sid : Nat) (err : Option Err) (endS : Bool) :
    WinRel c (settle c tag sid err endS).1 := by
  unfold settle
  simp only
  split
  · split
    · exact winRel_finish _ _ _ _
    · exact WinRel.refl c
  · exact winRel_finish _ _ _ _

theorem winRel_dispatch (c : Conn) (f : Frame.Frame) : WinRel c (dispatch c f).1 := by
  obtain ⟨skd, skb, ske, hsk⟩ := skipHeaders_shape c f
  rw [dispatch_eq, hsk]
  split
  · exact ⟨List.Sublist.refl _, rfl, rfl, rfl, rfl, fun _ h => .inl h⟩
  · split
    · exact ⟨List.Sublist.refl _, rfl, rfl, rfl, rfl, fun _ h => .inl h⟩
    · split
      · exact ⟨List.Sublist.refl _, rfl, rfl, rfl, rfl, fun _ h => .inl h⟩
      · exact ((winRel_prepare c f).trans (winRel_readStream _ _ _ _)).trans (winRel_settle _ _ _ _ _)

theorem winRel_refuse (c : Conn) (sid : Nat) (tag : String) : WinRel c (refuse c sid tag) := by
  unfold refuse
  split
  · exact ⟨List.Sublist.refl _, rfl, rfl, rfl, rfl, fun _ h => .inl h⟩
  · split
    · exact ⟨List.Sublist.refl _, rfl, rfl, rfl, rfl, fun _ h => .inl h⟩
    · exact winRel_finish _ _ _ _

theorem winRel_refuseAbove (l : List (Nat × String)) : ∀ c : Conn, WinRel c (refuseAbove c l) := by
  induction l with
  | nil => intro c; exact WinRel.refl c
  | cons x xs ih =>
    intro c
    obtain ⟨sid, tag⟩ := x
    simp only [refuseAbove]
    split
    · exact (winRel_refuse c sid tag).trans (ih _)
    · exact ih c

theorem winRel_dispatchLoop (c : Conn) (f : Frame.Frame) : WinRel c (dispatchLoop c f).1 := by
  rw [dispatchLoop_eq]
  split
  · exact (winRel_dispatch c f).trans (winRel_refuseAbove _ _)
  · exact winRel_dispatch c f

/-! ## the write loop -/

theorem dataFrames_spec' (sid step : Nat) (hstep : 0 < step) : ∀ (fuel n : Nat) (e : Bool), n < fuel →
    dataOn sid (dataFrames sid step fuel n e) = n ∧ ∀ f ∈ dataFrames sid step fuel n e, dataLen f ≤ step := by
  intro fuel
  induction fuel with
  | zero => intro n e h; omega
  | succ k ih =>
    intro n e h
    simp only [dataFrames]
    split
    · rename_i hle
      refine ⟨by simp [dataOn], ?_⟩
      intro f hf; simp only [List.mem_singleton] at hf; rw [hf]; exact hle
    · rename_i hgt
      obtain ⟨i1, i2⟩ := ih (n - step) e (by omega)
      refine ⟨by simp [dataOn, i1]; omega, ?_⟩
      intro f hf
      simp only [List.mem_cons] at hf
      rcases hf with rfl | hf
      · exact Nat.le_refl _
      · exact i2 f hf

/-- `writeData` with a valid MAX_FRAME_SIZE: exactly `n` octets, in frames no longer than that -/
theorem writeData_spec (c : Conn) (sid n : Nat) (endS : Bool) (hm : MfsOK c.maxFrameSize) :
    dataOn sid (writeData c sid n endS) = n ∧ ∀ f ∈ writeData c sid n endS, dataLen f ≤ c.maxFrameSize := by
  obtain ⟨m1, m2⟩ := hm
  have h0 : (c.maxFrameSize == 0 || decide (c.maxFrameSize > Gen.c_maxFrameSize)) = false := by
    simp [Gen.c_maxFrameSize]; omega
  simp only [writeData, h0, Bool.false_eq_true, if_false]
  split
  · rename_i hn
    have : n = 0 := by simpa using hn
    subst this
    split
    · refine ⟨by simp [dataOn], ?_⟩
      intro f hf; simp only [List.mem_singleton] at hf; rw [hf]; simp [dataLen]
    · exact ⟨rfl, fun f hf => nomem' hf⟩
  · exact dataFrames_spec' sid c.maxFrameSize (by omega) (n + 1) n endS (by omega)
where
  nomem' {α : Type} {P : Prop} {f : α} (h : f ∈ ([] : List α)) : P := by cases h

theorem refill_window {pb pb' : Pending} (h : refill pb = some pb') : pb'.window = pb.window := by
  unfold refill at h
  split at h
  · split at h
    · cases h
    · cases h
    · simp only [Option.some.injEq] at h; subst h; rfl
  · simp only at h
    split at h
    · cases h
    · simp only [Option.some.injEq] at h
      subst h
      (repeat' split) <;> rfl

/-- the ledgers after `k` octets of DATA were written on `sid` -/
def Led.sent (g : Led) (sid k : Nat) : Led :=
  { g with connSent := g.connSent + k, strSent := fun s => g.strSent s + (if s = sid then k else 0) }

theorem Led.sent_zero (g : Led) (sid : Nat) : g.sent sid 0 = g := by
  cases g; simp [Led.sent]

theorem Led.wrote_allOn (g : Led) {sid : Nat} {fs : List OutFrame} (h : AllOn sid fs) : g.wrote fs = g.sent sid (dataOn sid fs) := by
  simp only [Led.wrote, Led.sent, allOn_all h]
  congr 1
  funext s
  by_cases hs : s = sid
  · simp [hs]
  · simp [hs, allOn_other h s hs]

/-- the body after `n` of its octets have left -/
def spent (pb : Pending) (n : Nat) : Pending := { pb with window := pb.window - n, body := pb.body - n }

/-- `n = spendN …` octets leave the windows of the body `pb` on `sid`, of which `k ≤ n` reach the transport -/
theorem fl_spend {g : Led} {c c' : Conn} (h : FL g c) (sid : Nat) (pb : Pending) (hm : (sid, pb) ∈ c.pending) (n k : Nat)
    (hn : n = spendN pb.body pb.window c.connWindow) (hk : k ≤ n)
    (e1 : c'.connWindow = c.connWindow - n)
    (e2 : c'.pending = eraseA c.pending sid ∨ c'.pending = insertA c.pending sid (spent pb n))
    (e3 : c'.streamWindow = c.streamWindow) (e4 : c'.nextID = c.nextID) (e5 : c'.maxFrameSize = c.maxFrameSize)
    (e6 : c'.outQ = c.outQ) :
    FL (g.sent sid k) c' ∧ (0 < k → (g.strSent sid + k : Int) ≤ g.iws + g.strInc sid) := by
  obtain ⟨n1, n2, _⟩ := spendN_le pb.body pb.window c.connWindow
  rw [← hn] at n1 n2
  have e : EntOK g c sid pb := h.ent (sid, pb) hm
  have hconn := h.conn
  have hconnLe := h.connLe
  have hR := h.connR
  have other : ∀ p ∈ c.pending, p.1 ≠ sid → EntOK (g.sent sid k) c' p.1 p.2 := by
    intro p hp hne
    obtain ⟨a, b, d⟩ := h.ent p hp
    refine ⟨a, by rw [e4]; exact b, ?_⟩
    simpa [Led.sent, hne] using d
  constructor
  · refine ⟨e3.trans h.iws, h.iwsR, by rw [e1]; exact rng_spend hR n n2, ?_, ?_, ?_, ?_, ?_, by rw [e5]; exact h.mfs,
      by rw [e6]; exact h.outQ⟩
    · rw [e1]; simp only [Led.sent]; omega
    · simp only [Led.sent]
      by_cases hk0 : k = 0
      · omega
      · unfold Rng at hR; omega
    · rcases e2 with e2 | e2 <;> rw [e2]
      · exact sortedA_eraseA h.sorted _
      · exact sortedA_insertA h.sorted _ _
    · intro p hp
      rcases e2 with e2 | e2 <;> rw [e2] at hp
      · obtain ⟨hp1, hp2⟩ := mem_eraseA.mp hp
        exact other p hp1 hp2
      · rcases (mem_insertA h.sorted _ _ p).mp hp with rfl | ⟨hp1, hp2⟩
        · refine ⟨rng_spend e.rng n n1, by rw [e4]; exact e.below, ?_⟩
          refine wok_spend e.wok n n1 h.iwsR.2 ?_
          simp only [Led.sent, if_true]
          omega
        · exact other p hp1 hp2
    · intro s hs
      rw [e4] at hs
      have hne : s ≠ sid := by have := e.below; omega
      simp only [Led.sent, hne, if_false, Nat.add_zero]
      exact h.fresh s hs
  · intro hk0
    have := e.wok.le
    omega

theorem fl_deletePending {g : Led} {c : Conn} (h : FL g c) (sid : Nat) : FL g (deletePending c sid) :=
  h.winRel ⟨eraseA_sublist _ _, rfl, rfl, rfl, rfl, fun _ hf => .inl hf⟩

/-- what `sendPending` establishes -/
def SendOK (g : Led) (sid m : Nat) (res : Conn × List OutFrame) : Prop :=
  FL (g.wrote res.2) res.1 ∧
  (0 < dataOn sid res.2 → (g.strSent sid + dataOn sid res.2 : Int) ≤ g.iws + g.strInc sid) ∧
  (∀ f ∈ res.2, dataLen f ≤ m)

theorem sendOK_nothing {g : Led} {c' : Conn} (sid m : Nat) (h : FL g c') : SendOK g sid m (c', []) := by
  unfold SendOK
  rw [Led.wrote_nil]
  exact ⟨h, fun hh => absurd hh (by simp [dataOn]), fun f hf => nomem hf⟩

/-- the spend, all of it written, the body ending or not -/
theorem spend_end {g : Led} {c : Conn} (h : FL g c) (sid : Nat) (pb : Pending) (hm : (sid, pb) ∈ c.pending) (X : Conn)
    (e1 : X.connWindow = c.connWindow - ↑(spendN pb.body pb.window c.connWindow))
    (e2 : X.pending = eraseA c.pending sid ∨
      X.pending = insertA c.pending sid (spent pb (spendN pb.body pb.window c.connWindow)))
    (e3 : X.streamWindow = c.streamWindow) (e4 : X.nextID = c.nextID) (e5 : X.maxFrameSize = c.maxFrameSize)
    (e6 : X.outQ = c.outQ) (endS : Bool) :
    SendOK g sid c.maxFrameSize (X, writeData X sid (spendN pb.body pb.window c.connWindow) endS) := by
  have wd := writeData_spec X sid (spendN pb.body pb.window c.connWindow) endS (by rw [e5]; exact h.mfs)
  have ao : AllOn sid (writeData X sid (spendN pb.body pb.window c.connWindow) endS) := writeData_data _ _ _ _
  have full := fl_spend (c' := X) h sid pb hm _ (spendN pb.body pb.window c.connWindow) rfl (Nat.le_refl _) e1 e2 e3 e4 e5 e6
  unfold SendOK
  simp only
  rw [Led.wrote_allOn g ao, wd.1]
  exact ⟨full.1, full.2, fun f hf => by rw [← e5]; exact wd.2 f hf⟩

theorem spend_more {g : Led} {c : Conn} (h : FL g c) (sid : Nat) (pb : Pending) (hm : (sid, pb) ∈ c.pending) (X : Conn)
    (e1 : X.connWindow = c.connWindow - ↑(spendN pb.body pb.window c.connWindow))
    (e2 : X.pending = eraseA c.pending sid ∨
      X.pending = insertA c.pending sid (spent pb (spendN pb.body pb.window c.connWindow)))
    (e3 : X.streamWindow = c.streamWindow) (e4 : X.nextID = c.nextID) (e5 : X.maxFrameSize = c.maxFrameSize)
    (e6 : X.outQ = c.outQ) (endS : Bool) (rest : Conn × List OutFrame)
    (ih : ∀ g', FL g' X → SendOK g' sid X.maxFrameSize rest) :
    SendOK g sid c.maxFrameSize
      (rest.1, writeData X sid (spendN pb.body pb.window c.connWindow) endS ++ rest.2) := by
  obtain ⟨s1, s2, s3⟩ := spend_end h sid pb hm X e1 e2 e3 e4 e5 e6 endS
  simp only at s1 s2 s3
  obtain ⟨i1, i2, i3⟩ := ih _ s1
  have ao : AllOn sid (writeData X sid (spendN pb.body pb.window c.connWindow) endS) := writeData_data _ _ _ _
  unfold SendOK
  simp only
  rw [Led.wrote_append] at i1
  refine ⟨i1, ?_, ?_⟩
  · intro hpos
    rw [dataOn_append] at hpos ⊢
    by_cases hz : 0 < dataOn sid rest.2
    · have := i2 hz
      simp only [Led.wrote] at this
      omega
    · have h0 : dataOn sid rest.2 = 0 := by omega
      rw [h0] at hpos ⊢
      have := s2 (by omega)
      omega
  · intro f hf
    rcases List.mem_append.mp hf with hf | hf
    · exact s3 f hf
    · rw [← e5]; exact i3 f hf

/-- **`sendPending` against the ledgers**: the frames it writes on `sid` fit the stream's and the connection's allowance -/
theorem sendPending_fl (fuel : Nat) : ∀ (g : Led) (c : Conn) (sid : Nat), FL g c →
    SendOK g sid c.maxFrameSize (sendPending fuel c sid) := by
  induction fuel with
  | zero => intro g c sid h; exact sendOK_nothing sid _ h
  | succ k ih =>
    intro g c sid h
    simp only [sendPending]
    split
    · exact sendOK_nothing sid _ h
    · rename_i pb hl
      have hm : (sid, pb) ∈ c.pending := lookupA_mem hl
      have e : EntOK g c sid pb := h.ent (sid, pb) hm
      split
      · split
        · -- the body cannot be read: dropped, RST_STREAM queued
          refine sendOK_nothing sid _ (h.winRel ⟨eraseA_sublist _ _, rfl, rfl, rfl, rfl, ?_⟩)
          intro f hf
          simp only [deletePending, List.mem_append, List.mem_singleton] at hf
          rcases hf with hf | hf
          · exact .inl hf
          · right; rw [hf]; rfl
        · rename_i pb' hrf
          have hw := refill_window hrf
          have h1 : FL g { c with pending := insertA c.pending sid pb' } := by
            refine ⟨h.iws, h.iwsR, h.connR, h.conn, h.connLe, sortedA_insertA h.sorted _ _, ?_, h.fresh, h.mfs, h.outQ⟩
            intro p hp
            rcases (mem_insertA h.sorted _ _ p).mp hp with rfl | ⟨hp1, _⟩
            · exact ⟨by rw [hw]; exact e.rng, e.below, by rw [hw]; exact e.wok⟩
            · obtain ⟨a, b, d⟩ := h.ent p hp1
              exact ⟨a, b, d⟩
          exact ih g _ sid h1
      · -- octets leave the windows
        have hpend : ∀ b : Bool,
            (if b = true then eraseA c.pending sid
              else insertA c.pending sid (spent pb (spendN pb.body pb.window c.connWindow))) = eraseA c.pending sid ∨
            (if b = true then eraseA c.pending sid
              else insertA c.pending sid (spent pb (spendN pb.body pb.window c.connWindow))) =
              insertA c.pending sid (spent pb (spendN pb.body pb.window c.connWindow)) := by
          intro b; cases b
          · right; rfl
          · left; rfl
        have quiet : ∀ c' : Conn, c'.connWindow = c.connWindow - ↑(spendN pb.body pb.window c.connWindow) →
            (c'.pending = eraseA c.pending sid ∨
              c'.pending = insertA c.pending sid (spent pb (spendN pb.body pb.window c.connWindow))) →
            c'.streamWindow = c.streamWindow → c'.nextID = c.nextID → c'.maxFrameSize = c.maxFrameSize →
            c'.outQ = c.outQ → FL g c' := by
          intro c' e1 e2 e3 e4 e5 e6
          have := (fl_spend (c' := c') h sid pb hm _ 0 rfl (Nat.zero_le _) e1 e2 e3 e4 e5 e6).1
          rwa [Led.sent_zero] at this
        split
        · exact sendOK_nothing sid _ (quiet _ rfl (hpend _) rfl rfl rfl rfl)
        · split
          · exact sendOK_nothing sid _ (quiet _ rfl (hpend _) rfl rfl rfl rfl)
          · split
            · refine sendOK_nothing sid _ (fl_deletePending ?_ sid)
              exact quiet _ rfl (hpend _) rfl rfl rfl rfl
            · split
              · refine spend_end h sid pb hm _ ?_ ?_ ?_ ?_ ?_ ?_ _ <;>
                  first | rfl | exact .inl rfl | exact .inr rfl | exact hpend _
              · refine spend_more h sid pb hm _ ?_ ?_ ?_ ?_ ?_ ?_ _ _ (fun g' hg' => ih g' _ sid hg') <;>
                  first | rfl | exact .inl rfl | exact .inr rfl | exact hpend _

/-! ## steps of the write loop against the ledgers -/

/-- every stream's DATA among `fs` fits what the stream was allowed when `fs` was written -/
def Emit (g : Led) (fs : List OutFrame) : Prop :=
  ∀ sid, 0 < dataOn sid fs → (g.strSent sid + dataOn sid fs : Int) ≤ g.iws + g.strInc sid

/-- what a piece of the write loop establishes: the ledgers moved by the frames it wrote match the windows it left,
each stream's DATA was within the stream's allowance, no DATA frame is longer than `m` -/
def WrOK (g : Led) (m : Nat) (res : Conn × List OutFrame) : Prop :=
  FL (g.wrote res.2) res.1 ∧ Emit g res.2 ∧ (∀ f ∈ res.2, dataLen f ≤ m)

theorem SendOK.wrOK {g : Led} {sid m : Nat} {res : Conn × List OutFrame} (h : SendOK g sid m res) (ao : AllOn sid res.2) :
    WrOK g m res := by
  refine ⟨h.1, ?_, h.2.2⟩
  intro s hs
  by_cases e : s = sid
  · subst e; exact h.2.1 hs
  · rw [allOn_other ao s e] at hs; omega

theorem wrOK_nil {g : Led} {c : Conn} (m : Nat) (h : FL g c) : WrOK g m (c, []) := by
  refine ⟨by rw [Led.wrote_nil]; exact h, fun s hs => absurd hs (by simp [dataOn]), fun f hf => nomem hf⟩

theorem WrOK.append {g : Led} {m : Nat} {c1 c2 : Conn} {a b : List OutFrame} (h1 : WrOK g m (c1, a))
    (h2 : WrOK (g.wrote a) m (c2, b)) : WrOK g m (c2, a ++ b) := by
  obtain ⟨_, e1, s1⟩ := h1
  obtain ⟨f2, e2, s2⟩ := h2
  refine ⟨by rw [← Led.wrote_append]; exact f2, ?_, ?_⟩
  · intro sid hs
    simp only at hs ⊢
    rw [dataOn_append] at hs ⊢
    by_cases hb : 0 < dataOn sid b
    · have := e2 sid hb
      simp only [Led.wrote] at this
      omega
    · have h0 : dataOn sid b = 0 := by omega
      rw [h0] at hs ⊢
      have := e1 sid (by simpa using hs)
      simp only at this
      omega
  · intro f hf
    rcases List.mem_append.mp hf with hf | hf
    · exact s1 f hf
    · exact s2 f hf

/-- frames that carry no DATA octets before and after change nothing -/
theorem WrOK.pad {g : Led} {m : Nat} {c : Conn} {b : List OutFrame} (h : WrOK g m (c, b)) {a d : List OutFrame}
    (ha : NoDat a) (hd : NoDat d) : WrOK g m (c, a ++ b ++ d) := by
  obtain ⟨f1, e1, s1⟩ := h
  have hw : g.wrote (a ++ b ++ d) = g.wrote b := by
    rw [← Led.wrote_append, ← Led.wrote_append, Led.wrote_noDat g ha, Led.wrote_noDat _ hd]
  refine ⟨by rw [hw]; exact f1, ?_, ?_⟩
  · intro sid hs
    simp only [dataOn_append, noDat_on ha, noDat_on hd, Nat.zero_add, Nat.add_zero] at hs ⊢
    exact e1 sid hs
  · intro f hf
    simp only [List.mem_append] at hf
    rcases hf with (hf | hf) | hf
    · rw [ha f hf]; exact Nat.zero_le _
    · exact s1 f hf
    · rw [hd f hf]; exact Nat.zero_le _

theorem sendPending_mfs (fuel : Nat) (c : Conn) (sid : Nat) : (sendPending fuel c sid).1.maxFrameSize = c.maxFrameSize := by
  obtain ⟨p, w, q, hs⟩ := sendPending_shape fuel c sid; rw [hs]

theorem sendPending_wrOK (fuel : Nat) (g : Led) (c : Conn) (sid : Nat) (h : FL g c) :
    WrOK g c.maxFrameSize (sendPending fuel c sid) :=
  (sendPending_fl fuel g c sid h).wrOK (sendPending_out fuel c sid).1

theorem flushFold_wrOK (g : Led) (m : Nat) (l : List Nat) : ∀ (acc : Conn × List OutFrame),
    WrOK g m acc → acc.1.maxFrameSize = m →
    WrOK g m (l.foldl (fun (acc : Conn × List OutFrame) sid =>
      ((sendPending 100000 acc.1 sid).1, acc.2 ++ (sendPending 100000 acc.1 sid).2)) acc) := by
  induction l with
  | nil => intro acc h _; exact h
  | cons x xs ih =>
    intro acc h hm
    simp only [List.foldl_cons]
    apply ih
    · have h2 := sendPending_wrOK 100000 (g.wrote acc.2) acc.1 x h.1
      rw [hm] at h2
      exact WrOK.append (c1 := acc.1) h h2
    · simp only [sendPending_mfs, hm]

theorem flushPending_wrOK (g : Led) (c : Conn) (h : FL g c) : WrOK g c.maxFrameSize (flushPending c) := by
  rw [flushPending_eq]
  apply flushFold_wrOK
  · apply wrOK_nil
    split
    · exact h.winRel ⟨List.Sublist.refl _, rfl, rfl, rfl, rfl, fun _ hf => .inl hf⟩
    · exact h
  · split <;> rfl

theorem flushPending_mfs (c : Conn) : (flushPending c).1.maxFrameSize = c.maxFrameSize := by
  obtain ⟨p, w, q, a, hs⟩ := flushPending_shape c; rw [hs]

/-- **`drain` against the ledgers** -/
theorem drain_wrOK (g : Led) (c : Conn) (h : FL g c) : WrOK g c.maxFrameSize (drain c) := by
  rw [drain_eq]
  split
  · have h1 : FL g { c with outQ := [], winTok := false } :=
      h.winRel ⟨List.Sublist.refl _, rfl, rfl, rfl, rfl, fun _ hf => nomem hf⟩
    have h2 := flushPending_wrOK g _ h1
    have h3 : WrOK g c.maxFrameSize
        ({ (flushPending { c with outQ := [], winTok := false }).1 with outQ := [] },
          (flushPending { c with outQ := [], winTok := false }).2) :=
      ⟨h2.1.winRel ⟨List.Sublist.refl _, rfl, rfl, rfl, rfl, fun _ hf => nomem hf⟩, h2.2.1, h2.2.2⟩
    exact h3.pad h.outQ h2.1.outQ
  · have h1 : WrOK g c.maxFrameSize ({ c with outQ := [] }, []) :=
      wrOK_nil _ (h.winRel ⟨List.Sublist.refl _, rfl, rfl, rfl, rfl, fun _ hf => nomem hf⟩)
    exact h1.pad h.outQ (fun _ hf => nomem hf)

theorem drain_mfs (c : Conn) : (drain c).1.maxFrameSize = c.maxFrameSize := by
  obtain ⟨p, w, a, hs⟩ := drain_shape c; rw [hs]

/-- a frame without DATA octets in front -/
theorem WrOK.cons {g : Led} {m : Nat} {c : Conn} {b : List OutFrame} (h : WrOK g m (c, b)) (f : OutFrame)
    (hf : dataLen f = 0) : WrOK g m (c, f :: b) := by
  have := h.pad (a := [f]) (d := []) (fun x hx => by simp only [List.mem_singleton] at hx; rw [hx]; exact hf)
    (fun _ hx => nomem hx)
  simpa using this

/-- **`writeRequest` against the ledgers**: a new stream starts with the INITIAL_WINDOW_SIZE in force and nothing sent -/
theorem writeRequest_wrOK (g : Led) (c : Conn) (r : ReqSpec) (h : FL g c) : WrOK g c.maxFrameSize (writeRequest c r) := by
  rw [writeRequest_eq]
  split
  · exact wrOK_nil _ (h.winRel ⟨List.Sublist.refl _, rfl, rfl, rfl, rfl, fun _ hf => .inl hf⟩)
  · have entUp : ∀ p ∈ c.pending, ∀ c' : Conn, c'.nextID = c.nextID + 2 → EntOK g c' p.1 p.2 := by
      intro p hp c' hn
      obtain ⟨a, b, d⟩ := h.ent p hp
      exact ⟨a, by rw [hn]; omega, d⟩
    split
    · -- no body
      refine WrOK.cons (wrOK_nil _ ?_) _ rfl
      exact ⟨h.iws, h.iwsR, h.connR, h.conn, h.connLe, h.sorted, fun p hp => entUp p hp _ rfl,
        fun sid hs => h.fresh sid (by simp only [wrOpen, updReq] at hs; omega), h.mfs, h.outQ⟩
    · rename_i pb hpb
      have hwin : pb.window = g.iws := by
        rw [← h.iws]
        unfold wrPending at hpb
        split at hpb
        · cases hpb
        · simp only [Option.some.injEq] at hpb; rw [← hpb]
        · simp only [Option.some.injEq] at hpb; rw [← hpb]
      have h1 : FL g { wrOpen c r with pending := insertA c.pending c.nextID pb } := by
        refine ⟨h.iws, h.iwsR, h.connR, h.conn, h.connLe, sortedA_insertA h.sorted _ _, ?_,
          fun sid hs => h.fresh sid (by simp only [wrOpen, updReq] at hs; omega), h.mfs, h.outQ⟩
        intro p hp
        rcases (mem_insertA h.sorted _ _ p).mp hp with rfl | ⟨hp1, _⟩
        · refine ⟨?_, by simp only [wrOpen, updReq]; omega, ?_⟩
          · simp only; rw [hwin]; have := h.iwsR; unfold Rng; omega
          · simp only; rw [hwin, h.fresh c.nextID (Nat.le_refl _)]
            exact wok_new g.iws (g.strInc c.nextID)
        · exact entUp p hp1 _ rfl
      have h2 : WrOK g c.maxFrameSize
          ((sendPending 100000 { wrOpen c r with pending := insertA c.pending c.nextID pb } c.nextID).1,
           (sendPending 100000 { wrOpen c r with pending := insertA c.pending c.nextID pb } c.nextID).2) :=
        sendPending_wrOK 100000 g _ c.nextID h1
      exact WrOK.cons h2 _ rfl

theorem writeRequest_mfs (c : Conn) (r : ReqSpec) : (writeRequest c r).1.maxFrameSize = c.maxFrameSize :=
  (ctl_writeRequest c r).maxFrameSize

/-! ## the read loop against the ledgers -/

/-- WINDOW_UPDATE on the connection -/
theorem fl_addWindow_conn {g : Led} {c : Conn} (h : FL g c) (inc : Nat) :
    FL { g with connInc := g.connInc + inc } (addWindow c 0 inc) := by
  have hR := h.connR
  have h1 := h.conn
  have h2 := h.connLe
  have hle : addWin c.connWindow inc ≤ c.connWindow + inc := wrap32_le _ (by unfold Rng at hR; omega)
  refine ⟨h.iws, h.iwsR, wrap32_rng _, ?_, ?_, h.sorted, ?_, h.fresh, h.mfs, h.outQ⟩
  · show addWin c.connWindow inc ≤ _
    simp only; omega
  · simp only; omega
  · intro p hp
    obtain ⟨a, b, d⟩ := h.ent p hp
    exact ⟨a, b, d⟩

/-- WINDOW_UPDATE on a stream -/
theorem fl_addWindow_stream {g : Led} {c : Conn} (h : FL g c) (sid inc : Nat) (hs : sid ≠ 0) :
    FL { g with strInc := bump g.strInc sid inc } (addWindow c sid inc) := by
  have h0 : (sid == 0) = false := by simpa using hs
  simp only [addWindow, h0, Bool.false_eq_true, if_false]
  refine ⟨h.iws, h.iwsR, h.connR, h.conn, h.connLe, ?_, ?_, h.fresh, h.mfs, h.outQ⟩
  · exact sortedA_map h.sorted _ (fun p => by split <;> rfl)
  · intro p' hp'
    simp only [List.mem_map] at hp'
    obtain ⟨p, hp, rfl⟩ := hp'
    obtain ⟨a, b, d⟩ := h.ent p hp
    by_cases hk : p.1 = sid
    · have hk' : (p.1 == sid) = true := by simpa using hk
      simp only [hk', if_true]
      refine ⟨wrap32_rng _, b, ?_⟩
      have := wok_wu d a inc
      simpa [bump, hk, addWin, Int.add_sub_assoc, Int.add_assoc, Int.add_comm, Int.add_left_comm] using
        this.mono (by simp only [bump, hk, if_true]; omega)
    · have hk' : (p.1 == sid) = false := by simpa using hk
      simp only [hk', Bool.false_eq_true, if_false]
      refine ⟨a, b, ?_⟩
      simpa [bump, hk] using d

/-- a change of SETTINGS_INITIAL_WINDOW_SIZE -/
theorem fl_applyInitialWindow {g : Led} {c : Conn} (h : FL g c) (size : Nat) (hsz : size ≤ 2147483647) :
    FL { g with iws := size } (applyInitialWindow c size) := by
  simp only [applyInitialWindow]
  refine ⟨rfl, ⟨by simp only; omega, by simp only; omega⟩, h.connR, h.conn, h.connLe, ?_, ?_, h.fresh, h.mfs, h.outQ⟩
  · exact sortedA_map h.sorted _ (fun p => rfl)
  · intro p' hp'
    simp only [List.mem_map] at hp'
    obtain ⟨p, hp, rfl⟩ := hp'
    obtain ⟨a, b, d⟩ := h.ent p hp
    refine ⟨wrap32_rng _, b, ?_⟩
    have := wok_settings (new := (size : Int)) d a h.iwsR ⟨by omega, by omega⟩
    rw [h.iws]
    exact this.mono (by simp only; omega)

theorem applyPairs_mfs (ps : List (Nat × Nat)) : ∀ c : Conn, MfsOK c.maxFrameSize →
    (∀ p ∈ ps, p.1 = Gen.c_MaxFrameSize → 16384 ≤ p.2 ∧ p.2 ≤ 16777215) → MfsOK (applyPairs c ps).maxFrameSize := by
  induction ps with
  | nil => intro c h _; exact h
  | cons x xs ih =>
    intro c h hp
    obtain ⟨k, v⟩ := x
    have hx := fun p hp' => hp p (List.mem_cons_of_mem _ hp')
    simp only [applyPairs]
    split
    · exact ih _ h hx
    · split
      · exact ih _ h hx
      · split
        · rename_i hk
          exact ih _ (hp (k, v) (List.mem_cons_self ..) (by simpa using hk)) hx
        · exact ih _ h hx

/-- SETTINGS (not an acknowledgement) -/
theorem fl_handleSettings {g : Led} {c : Conn} (h : FL g c) (s : Frame.SettingsVal) (hok : SettingsOK s) :
    FL (if s.hasWindowSize then { g with iws := s.windowSize } else g) (handleSettings c s) := by
  rw [handleSettings_eq]
  have hm := applyPairs_mfs s.pairs c h.mfs hok.pairs
  obtain ⟨a, b, d, h1⟩ := applyPairs_shape s.pairs c
  rw [h1] at hm ⊢
  obtain ⟨e, f, k, h2⟩ := noteTableSizes_shape s.pairs { c with srvTableSize := a, maxStreams := b, maxFrameSize := d }
  rw [h2]
  have h3 : FL g { c with srvTableSize := a, maxStreams := b, maxFrameSize := d, encTableMin := e, encTableSize := f,
                          encTableSet := k } :=
    ⟨h.iws, h.iwsR, h.connR, h.conn, h.connLe, h.sorted, fun p hp => by obtain ⟨x, y, z⟩ := h.ent p hp; exact ⟨x, y, z⟩,
      h.fresh, hm, h.outQ⟩
  split
  · exact (fl_applyInitialWindow h3 s.windowSize hok.win).winRel (winRel_queueOut _ _ rfl)
  · exact h3.winRel (winRel_queueOut _ _ rfl)

theorem winRel_afterGoAway (c : Conn) : WinRel c (afterGoAway c).1 := winRel_refuseAbove _ _

/-- **one frame through the read loop**: the windows follow the ledgers -/
theorem rdFrame_fl {g : Led} {c : Conn} (h : FL g c) (f : Frame.Frame) (hok : FrameOK f) :
    FL (g.recv f) (rdFrame c f).1 := by
  by_cases hs : f.stream = 0
  · have hs' : (f.stream == 0) = true := by simpa using hs
    cases hb : f.body with
    | settings s =>
      simp only [rdFrame, Led.recv, hs', hb, if_true, Bool.true_and]
      cases ha : s.ack with
      | true => simpa using h
      | false =>
        simp only [Bool.false_eq_true, if_false, Bool.not_false, Bool.true_and]
        exact fl_handleSettings h s (hok s hb)
    | windowUpdate inc =>
      simp only [rdFrame, Led.recv, hs', hb, if_true]
      exact fl_addWindow_conn h inc
    | ping a d =>
      simp only [rdFrame, Led.recv, hs', hb, if_true]
      split
      · exact h
      · exact h.winRel (winRel_queueOut _ _ rfl)
    | goAway last code d =>
      simp only [rdFrame, Led.recv, hs', hb, if_true]
      have h1 : ∀ c' : Conn, c'.pending = c.pending → c'.connWindow = c.connWindow → c'.streamWindow = c.streamWindow →
          c'.nextID = c.nextID → c'.maxFrameSize = c.maxFrameSize → c'.outQ = c.outQ → FL g c' := by
        intro c' e1 e2 e3 e4 e5 e6
        exact h.winRel ⟨by rw [e1]; exact List.Sublist.refl _, e2, e3, e4, e5, by rw [e6]; exact fun _ hf => .inl hf⟩
      split
      · refine FL.winRel ?_ (winRel_setLastErr _ _)
        exact h1 _ rfl rfl rfl rfl rfl rfl
      · refine FL.winRel ?_ (winRel_afterGoAway _)
        exact h1 _ rfl rfl rfl rfl rfl rfl
    | data e d => simp only [rdFrame, Led.recv, hs', hb, if_true]; exact h
    | headers a b p q => simp only [rdFrame, Led.recv, hs', hb, if_true]; exact h
    | priority a b => simp only [rdFrame, Led.recv, hs', hb, if_true]; exact h
    | rstStream a => simp only [rdFrame, Led.recv, hs', hb, if_true]; exact h
    | pushPromise a b d => simp only [rdFrame, Led.recv, hs', hb, if_true]; exact h
    | continuation a b => simp only [rdFrame, Led.recv, hs', hb, if_true]; exact h
  · have hs' : (f.stream == 0) = false := by simpa using hs
    have loop : ∀ c1 : Conn, FL g c1 → FL g (dispatchLoop c1 f).1 := fun c1 h1 => h1.winRel (winRel_dispatchLoop c1 f)
    cases hb : f.body with
    | windowUpdate inc =>
      simp only [rdFrame, Led.recv, hs', hb, Bool.false_eq_true, if_false]
      exact (fl_addWindow_stream h f.stream inc hs).winRel (winRel_dispatchLoop _ f)
    | pushPromise a b d =>
      simp only [rdFrame, Led.recv, hs', hb, Bool.false_eq_true, if_false]
      exact h.winRel (winRel_setLastErr _ _)
    | data e d =>
      simp only [rdFrame, Led.recv, hs', hb, Bool.false_eq_true, if_false]
      exact loop _ (h.winRel (winRel_consumeConnWindow _ _))
    | settings s =>
      simp only [rdFrame, Led.recv, hs', hb, Bool.false_eq_true, if_false, Bool.false_and]
      exact loop _ h
    | ping a d => simp only [rdFrame, Led.recv, hs', hb, Bool.false_eq_true, if_false]; exact loop _ h
    | goAway a b d => simp only [rdFrame, Led.recv, hs', hb, Bool.false_eq_true, if_false]; exact loop _ h
    | headers a b p q => simp only [rdFrame, Led.recv, hs', hb, Bool.false_eq_true, if_false]; exact loop _ h
    | priority a b => simp only [rdFrame, Led.recv, hs', hb, Bool.false_eq_true, if_false]; exact loop _ h
    | rstStream a => simp only [rdFrame, Led.recv, hs', hb, Bool.false_eq_true, if_false]; exact loop _ h
    | continuation a b => simp only [rdFrame, Led.recv, hs', hb, Bool.false_eq_true, if_false]; exact loop _ h

/-- the ledgers after the frames the read loop goes through (it stops as `rdFrames` stops) -/
def recvFrames : List RdFrame → Conn → Led → Led
  | [], _, g => g
  | .unknown :: fs, c, g => recvFrames fs c g
  | .bad _ _ :: _, _, g => g
  | .frame f :: fs, c, g =>
    if c.stuck then g
    else if (rdFrame c f).2 then g.recv f else recvFrames fs (rdFrame c f).1 (g.recv f)

theorem rdFrames_fl (fs : List RdFrame) : ∀ (g : Led) (c : Conn), FL g c → (∀ f, .frame f ∈ fs → FrameOK f) →
    FL (recvFrames fs c g) (rdFrames fs c).1 := by
  induction fs with
  | nil => intro g c h _; exact h
  | cons x xs ih =>
    intro g c h hok
    have hok' : ∀ f, .frame f ∈ xs → FrameOK f := fun f hf => hok f (List.mem_cons_of_mem _ hf)
    cases x with
    | unknown => simp only [rdFrames, recvFrames]; exact ih g c h hok'
    | bad a b => simp only [rdFrames, recvFrames]; exact h.winRel (winRel_setLastErr _ _)
    | frame f =>
      rw [rdFrames_cons_frame]
      simp only [recvFrames]
      have h1 := rdFrame_fl h f (hok f (List.mem_cons_self ..))
      split
      · exact h
      · split
        · exact h1
        · exact ih _ _ h1 hok'

/-! ## one step of the connection, the ledgers beside it -/

def outFrames : StepOut → List OutFrame
  | .frames fs => fs
  | _ => []

/-- the ledgers after the read loop has gone through the frames of the event (only `bytes` events carry frames) -/
def recvEvent (g : Led) (c : Conn) : Event → Led
  | .bytes b => if c.stuck || c.dead then g else recvFrames (bytesSplit c b).1 { c with rdBuf := (bytesSplit c b).2 } g
  | _ => g

/-- the ledgers after the step: what was received, then what was written -/
def gstep (g : Led) (c : Conn) (ev : Event) : Led := (recvEvent g c ev).wrote (outFrames (step c ev).2)

/-- what one step establishes -/
structure StepOK (g : Led) (c : Conn) (ev : Event) : Prop where
  fl : FL (gstep g c ev) (step c ev).1
  emit : Emit (recvEvent g c ev) (outFrames (step c ev).2)
  size : ∀ f ∈ outFrames (step c ev).2, dataLen f ≤ (step c ev).1.maxFrameSize

theorem winRel_same {c c' : Conn} (e1 : c'.pending = c.pending) (e2 : c'.connWindow = c.connWindow)
    (e3 : c'.streamWindow = c.streamWindow) (e4 : c'.nextID = c.nextID) (e5 : c'.maxFrameSize = c.maxFrameSize)
    (e6 : c'.outQ = c.outQ ∨ c'.outQ = []) : WinRel c c' := by
  refine ⟨by rw [e1]; exact List.Sublist.refl _, e2, e3, e4, e5, ?_⟩
  rcases e6 with e6 | e6 <;> rw [e6]
  · exact fun _ hf => .inl hf
  · exact fun _ hf => nomem hf

theorem winRel_dieWith (c : Conn) (e : Err) : WinRel c (dieWith c e) := by
  obtain ⟨l, hs⟩ := dieWith_shape c e
  rw [hs]; exact winRel_same rfl rfl rfl rfl rfl (.inr rfl)

theorem winRel_takeReq (c : Conn) (sid : Nat) : WinRel c (takeReq c sid) := by
  obtain ⟨o, hs⟩ := takeReq_shape c sid
  rw [hs]; exact winRel_same rfl rfl rfl rfl rfl (.inl rfl)

/-! ### the expansion of queued HEADERS frames into the frames of their blocks carries no DATA -/

theorem contFrames_noDat (sid : Nat) (fl : List (Bytes × Bytes)) (ls : List Nat) : NoDat (contFrames sid fl ls) := by
  induction ls with
  | nil => exact fun f hf => nomem hf
  | cons l ls ih =>
    intro f hf
    simp only [contFrames, List.mem_cons] at hf
    rcases hf with rfl | hf
    · rfl
    · exact ih f hf

theorem headerFrames_noDat (sid : Nat) (es : Bool) (fl : List (Bytes × Bytes)) (ls : List Nat) :
    NoDat (headerFrames sid es fl ls) := by
  cases ls with
  | nil => exact fun f hf => nomem hf
  | cons l ls =>
    intro f hf
    simp only [headerFrames, List.mem_cons] at hf
    rcases hf with rfl | hf
    · split <;> rfl
    · exact contFrames_noDat sid fl ls f hf

/-- the frames on the wire carry the DATA of the frames queued, stream by stream, and no other -/
theorem wireFrames_data (fs : List OutFrame) : ∀ c : Conn,
    (∀ sid, dataOn sid (wireFrames c fs) = dataOn sid fs) ∧ dataAll (wireFrames c fs) = dataAll fs ∧
    (∀ f ∈ wireFrames c fs, dataLen f = 0 ∨ f ∈ fs) := by
  induction fs with
  | nil => intro c; exact ⟨fun _ => rfl, rfl, fun f hf => nomem hf⟩
  | cons x xs ih =>
    intro c
    have keep : ∀ c' : Conn, wireFrames c (x :: xs) = x :: wireFrames c' xs →
        (∀ sid, dataOn sid (wireFrames c (x :: xs)) = dataOn sid (x :: xs)) ∧
        dataAll (wireFrames c (x :: xs)) = dataAll (x :: xs) ∧
        (∀ f ∈ wireFrames c (x :: xs), dataLen f = 0 ∨ f ∈ x :: xs) := by
      intro c' e
      obtain ⟨i1, i2, i3⟩ := ih c'
      rw [e]
      refine ⟨?_, by simp only [dataAll, i2], ?_⟩
      · intro sid; cases x <;> simp only [dataOn, i1 sid]
      · intro f hf
        simp only [List.mem_cons] at hf
        rcases hf with rfl | hf
        · exact .inr (List.mem_cons_self ..)
        · rcases i3 f hf with h | h
          · exact .inl h
          · exact .inr (List.mem_cons_of_mem _ h)
    cases x with
    | headers sid es fl =>
      obtain ⟨i1, i2, i3⟩ := ih (encodeHeaders c fl).1
      have hn := headerFrames_noDat sid es fl (blockLens (frameStep c) (encodeHeaders c fl).2)
      simp only [wireFrames]
      refine ⟨?_, ?_, ?_⟩
      · intro s; rw [dataOn_append, noDat_on hn, i1 s]; simp [dataOn]
      · rw [dataAll_append, noDat_all hn, i2]; simp [dataAll, dataLen]
      · intro f hf
        rcases List.mem_append.mp hf with hf | hf
        · exact .inl (hn f hf)
        · rcases i3 f hf with h | h
          · exact .inl h
          · exact .inr (List.mem_cons_of_mem _ h)
    | hfrag sid es len => exact keep c rfl
    | cont sid eh len fl => exact keep c rfl
    | data sid len es => exact keep c rfl
    | rst sid code => exact keep c rfl
    | settingsAck => exact keep c rfl
    | ping a d => exact keep c rfl
    | windowUpdate sid inc => exact keep c rfl

theorem Led.wrote_wire (g : Led) (c : Conn) (fs : List OutFrame) : g.wrote (wireFrames c fs) = g.wrote fs := by
  obtain ⟨i1, i2, _⟩ := wireFrames_data fs c
  simp only [Led.wrote, i2]
  congr 1
  funext s; rw [i1 s]

/-- the frames reach the transport (the ledgers move) or the connection ends on the write error (they do not) -/
theorem afterWrites_ok {g : Led} {m : Nat} {c : Conn} {fs : List OutFrame} (h : WrOK g m (c, fs)) (hm : c.maxFrameSize = m) :
    FL (g.wrote (outFrames (afterWrites c fs).2)) (afterWrites c fs).1 ∧ Emit g (outFrames (afterWrites c fs).2) ∧
    (∀ f ∈ outFrames (afterWrites c fs).2, dataLen f ≤ (afterWrites c fs).1.maxFrameSize) := by
  obtain ⟨h1, h2, h3⟩ := h
  rcases afterWrites_cases c fs with ⟨e, s, b, hh⟩ | ⟨e, s, hh⟩
  · rw [hh]
    obtain ⟨i1, _, i3⟩ := wireFrames_data fs c
    simp only [outFrames]
    rw [Led.wrote_wire]
    refine ⟨h1.winRel (winRel_same rfl rfl rfl rfl rfl (.inl rfl)), ?_, ?_⟩
    · intro sid hs
      rw [i1 sid] at hs ⊢
      exact h2 sid hs
    · intro f hf
      rw [show _ = m from hm]
      rcases i3 f hf with h0 | hm'
      · rw [h0]; exact Nat.zero_le _
      · exact h3 f hm'
  · rw [hh]
    simp only [outFrames]
    rw [Led.wrote_nil]
    refine ⟨?_, fun s hs => absurd hs (by simp [dataOn]), fun f hf => nomem hf⟩
    exact (h1.forget.winRel (winRel_same (c' := { c with enc := e, encTableSet := s }) rfl rfl rfl rfl rfl (.inl rfl))).winRel
      (winRel_dieWith _ _)

/-- a step that writes nothing and moves no window -/
theorem stepOK_quiet {g : Led} {c : Conn} {ev : Event} (h : FL g c) (hr : recvEvent g c ev = g)
    (hf : outFrames (step c ev).2 = []) (hw : WinRel c (step c ev).1) : StepOK g c ev := by
  refine ⟨?_, ?_, ?_⟩
  · unfold gstep; rw [hr, hf, Led.wrote_nil]; exact h.winRel hw
  · rw [hf]; exact fun s hs => absurd hs (by simp [dataOn])
  · rw [hf]; exact fun f hf => nomem hf

theorem bytesSplit_ok (c : Conn) (b : Bytes) : ∀ f, .frame f ∈ (bytesSplit c b).1 → FrameOK f :=
  fun f hf => splitFrames_ok _ _ f hf

/-- **one step**: the windows follow the ledgers, every stream's DATA of the step is within its allowance,
no DATA frame is longer than MAX_FRAME_SIZE -/
theorem step_fl (g : Led) (c : Conn) (ev : Event) (h : FL g c) : StepOK g c ev := by
  cases ev with
  | read tag =>
    rcases step_read_cases' c tag with hs | hs | ⟨e, q, hs⟩
    · exact stepOK_quiet h rfl (by rw [hs]; rfl) (by rw [hs]; exact WinRel.refl c)
    · exact stepOK_quiet h rfl (by rw [hs]; rfl) (by rw [hs]; exact WinRel.refl c)
    · exact stepOK_quiet h rfl (by rw [hs]; rfl) (by rw [hs]; exact winRel_same rfl rfl rfl rfl rfl (.inl rfl))
  | req r =>
    by_cases hst : c.stuck = true
    · exact stepOK_quiet h rfl (by rw [step_req, if_pos hst]; rfl) (by rw [step_req, if_pos hst]; exact WinRel.refl c)
    · by_cases hd : c.dead = true
      · have e : step c (.req r) = (resolve (withReq c r.tag) r.tag (c.lastErr.getD .connClosed), .dead) := by
          rw [step_req, if_neg hst]; simp only [stepReq, hd, if_true]
        exact stepOK_quiet h rfl (by rw [e]; rfl) (by rw [e]; exact winRel_same rfl rfl rfl rfl rfl (.inl rfl))
      · have e : step c (.req r) = afterWrites (drain (writeRequest (withReq c r.tag) r).1).1
            ((writeRequest (withReq c r.tag) r).2 ++ (drain (writeRequest (withReq c r.tag) r).1).2) := by
          rw [step_req, if_neg hst]; simp only [stepReq, hd, Bool.false_eq_true, if_false]
        have h0 : FL g (withReq c r.tag) := h.winRel (winRel_same rfl rfl rfl rfl rfl (.inl rfl))
        have w1 : WrOK g c.maxFrameSize ((writeRequest (withReq c r.tag) r).1, (writeRequest (withReq c r.tag) r).2) :=
          writeRequest_wrOK g _ r h0
        have w2 : WrOK (g.wrote (writeRequest (withReq c r.tag) r).2) c.maxFrameSize
            ((drain (writeRequest (withReq c r.tag) r).1).1, (drain (writeRequest (withReq c r.tag) r).1).2) := by
          have := drain_wrOK _ _ w1.1
          rw [writeRequest_mfs] at this
          exact this
        have w3 := afterWrites_ok (w1.append w2) (by rw [drain_mfs, writeRequest_mfs]; rfl)
        refine ⟨?_, ?_, ?_⟩
        · unfold gstep; simp only [recvEvent]; rw [e]; exact w3.1
        · simp only [recvEvent]; rw [e]; exact w3.2.1
        · rw [e]; exact w3.2.2
  | bytes b =>
    by_cases hst : c.stuck = true
    · exact stepOK_quiet h (by simp [recvEvent, hst]) (by rw [step_bytes, if_pos hst]; rfl)
        (by rw [step_bytes, if_pos hst]; exact WinRel.refl c)
    · by_cases hd : c.dead = true
      · have e : step c (.bytes b) = (c, .dead) := by rw [step_bytes, if_neg hst]; simp only [stepBytes, hd, if_true]
        exact stepOK_quiet h (by simp [recvEvent, hd]) (by rw [e]; rfl) (by rw [e]; exact WinRel.refl c)
      · have hst' : c.stuck = false := by simpa using hst
        have hd' : c.dead = false := by simpa using hd
        have hr : recvEvent g c (.bytes b) = recvFrames (bytesSplit c b).1 { c with rdBuf := (bytesSplit c b).2 } g := by
          simp [recvEvent, hst', hd']
        have h0 : FL g { c with rdBuf := (bytesSplit c b).2 } := h.winRel (winRel_same rfl rfl rfl rfl rfl (.inl rfl))
        have h1 : FL (recvEvent g c (.bytes b)) (bytesRead c b).1 := by
          rw [hr]; exact rdFrames_fl _ g _ h0 (bytesSplit_ok c b)
        have quiet : ∀ c' o, step c (.bytes b) = (c', o) → outFrames o = [] → WinRel (bytesRead c b).1 c' →
            StepOK g c (.bytes b) := by
          intro c' o e ho hw
          refine ⟨?_, ?_, ?_⟩
          · unfold gstep; rw [e]; simp only; rw [ho, Led.wrote_nil]; exact h1.winRel hw
          · rw [e]; simp only; rw [ho]; exact fun s hs => absurd hs (by simp [dataOn])
          · rw [e]; simp only; rw [ho]; exact fun f hf => nomem hf
        have es : step c (.bytes b) = stepBytes c b := by rw [step_bytes, if_neg hst]
        unfold stepBytes at es
        rw [if_neg hd] at es
        split at es
        · exact quiet _ _ es rfl (WinRel.refl _)
        · split at es
          · exact quiet _ _ es rfl ((winRel_dieWith _ .eof).trans (winRel_same rfl rfl rfl rfl rfl (.inl rfl)))
          · split at es
            · exact quiet _ _ es rfl (winRel_dieWith _ .eof)
            · have w1 := drain_wrOK _ _ h1
              have w3 := afterWrites_ok (c := (drain (bytesRead c b).1).1) (fs := (drain (bytesRead c b).1).2) w1
                (drain_mfs _)
              refine ⟨?_, ?_, ?_⟩
              · unfold gstep; rw [es]; exact w3.1
              · rw [es]; exact w3.2.1
              · rw [es]; exact w3.2.2
  | timeout tag =>
    by_cases hst : c.stuck = true
    · exact stepOK_quiet h rfl (by rw [step_timeout, if_pos hst]; rfl) (by rw [step_timeout, if_pos hst]; exact WinRel.refl c)
    · have es : step c (.timeout tag) = stepTimeout c tag := by rw [step_timeout, if_neg hst]
      unfold stepTimeout at es
      split at es
      · exact stepOK_quiet h rfl (by rw [es]; rfl) (by rw [es]; exact WinRel.refl c)
      · rename_i r hr
        have k1 : WinRel c (takeReq (deletePending (resolve c tag .timeout) r.sid) r.sid) :=
          (WinRel.mk (c := c) (c' := deletePending (resolve c tag .timeout) r.sid) (eraseA_sublist _ _) rfl rfl rfl rfl
            (fun _ hf => .inl hf)).trans (winRel_takeReq _ _)
        split at es
        · refine stepOK_quiet h rfl (by rw [es]; simp only; split <;> rfl)
            (by rw [es]; exact winRel_same rfl rfl rfl rfl rfl (.inl rfl))
        · split at es
          · exact stepOK_quiet h rfl (by rw [es]; rfl) (by rw [es]; exact k1)
          · have w1 : WrOK g c.maxFrameSize
                (takeReq (deletePending (resolve c tag .timeout) r.sid) r.sid, [.rst r.sid Gen.c_StreamCanceled]) :=
              WrOK.cons (wrOK_nil _ (h.winRel k1)) _ rfl
            have w3 := afterWrites_ok w1 k1.maxFrameSize
            refine ⟨?_, ?_, ?_⟩
            · unfold gstep; simp only [recvEvent]; rw [es]; exact w3.1
            · simp only [recvEvent]; rw [es]; exact w3.2.1
            · rw [es]; exact w3.2.2
  | close =>
    by_cases hst : c.stuck = true
    · exact stepOK_quiet h rfl (by rw [step_close, if_pos hst]; rfl) (by rw [step_close, if_pos hst]; exact WinRel.refl c)
    · exact stepOK_quiet h rfl (by rw [step_close, if_neg hst]; rfl) (by rw [step_close, if_neg hst]; exact winRel_dieWith _ _)
  | cut =>
    by_cases hst : c.stuck = true
    · exact stepOK_quiet h rfl (by rw [step_cut, if_pos hst]; rfl) (by rw [step_cut, if_pos hst]; exact WinRel.refl c)
    · exact stepOK_quiet h rfl (by rw [step_cut, if_neg hst]; rfl) (by rw [step_cut, if_neg hst]; exact winRel_dieWith _ _)
  | failwrite n =>
    by_cases hst : c.stuck = true
    · exact stepOK_quiet h rfl (by rw [step_failwrite, if_pos hst]; rfl)
        (by rw [step_failwrite, if_pos hst]; exact WinRel.refl c)
    · exact stepOK_quiet h rfl (by rw [step_failwrite, if_neg hst]; rfl)
        (by rw [step_failwrite, if_neg hst]; exact winRel_same rfl rfl rfl rfl rfl (.inl rfl))

/-! ## runs -/

/-- the ledgers and the connection after a run -/
def grun : Led → Conn → List Event → Led × Conn
  | g, c, [] => (g, c)
  | g, c, e :: es => grun (gstep g c e) (step c e).1 es

/-- `P` holds of every step of the run, the ledgers stepped beside the connection -/
def GAll (P : Led → Conn → Event → Prop) : Led → Conn → List Event → Prop
  | _, _, [] => True
  | g, c, e :: es => P g c e ∧ GAll P (gstep g c e) (step c e).1 es

theorem grun_conn : ∀ (evs : List Event) (g : Led) (c : Conn), (grun g c evs).2 = (run c evs).1 := by
  intro evs
  induction evs with
  | nil => intros; rfl
  | cons e es ih => intro g c; simp only [grun, run_cons]; exact ih _ _

theorem gall_stepOK : ∀ (evs : List Event) (g : Led) (c : Conn), FL g c → GAll StepOK g c evs := by
  intro evs
  induction evs with
  | nil => intros; trivial
  | cons e es ih => intro g c h; exact ⟨step_fl g c e h, ih _ _ (step_fl g c e h).fl⟩

theorem grun_fl : ∀ (evs : List Event) (g : Led) (c : Conn), FL g c → FL (grun g c evs).1 (grun g c evs).2 := by
  intro evs
  induction evs with
  | nil => intro g c h; exact h
  | cons e es ih => intro g c h; exact ih _ _ (step_fl g c e h).fl

theorem GAll.imp {P Q : Led → Conn → Event → Prop} (hpq : ∀ g c e, P g c e → Q g c e) :
    ∀ (evs : List Event) (g : Led) (c : Conn), GAll P g c evs → GAll Q g c evs := by
  intro evs
  induction evs with
  | nil => intros; trivial
  | cons e es ih => intro g c h; exact ⟨hpq _ _ _ h.1, ih _ _ h.2⟩

/-! ### the ledgers of what was sent are the DATA frames of the outputs, nothing else -/

theorem Led.recv_sent (g : Led) (f : Frame.Frame) : (g.recv f).connSent = g.connSent ∧ (g.recv f).strSent = g.strSent := by
  unfold Led.recv
  repeat' split
  all_goals exact ⟨rfl, rfl⟩

theorem recvFrames_sent (fs : List RdFrame) : ∀ (c : Conn) (g : Led),
    (recvFrames fs c g).connSent = g.connSent ∧ (recvFrames fs c g).strSent = g.strSent := by
  induction fs with
  | nil => intros; exact ⟨rfl, rfl⟩
  | cons x xs ih =>
    intro c g
    cases x with
    | unknown => exact ih c g
    | bad a b => exact ⟨rfl, rfl⟩
    | frame f =>
      simp only [recvFrames]
      split
      · exact ⟨rfl, rfl⟩
      · split
        · exact g.recv_sent f
        · obtain ⟨a, b⟩ := ih (rdFrame c f).1 (g.recv f)
          obtain ⟨a', b'⟩ := g.recv_sent f
          exact ⟨a.trans a', b.trans b'⟩

theorem recvEvent_sent (g : Led) (c : Conn) (ev : Event) :
    (recvEvent g c ev).connSent = g.connSent ∧ (recvEvent g c ev).strSent = g.strSent := by
  cases ev with
  | bytes b => simp only [recvEvent]; split; exact ⟨rfl, rfl⟩; exact recvFrames_sent _ _ _
  | _ => exact ⟨rfl, rfl⟩

/-- all frames written in a run, in order -/
def runFrames (outs : List StepOut) : List OutFrame := outs.flatMap outFrames

/-- **the `sent` ledgers are the DATA octets of the run's outputs**, per stream and in total -/
theorem grun_sent : ∀ (evs : List Event) (g : Led) (c : Conn),
    (grun g c evs).1.connSent = g.connSent + dataAll (runFrames (run c evs).2) ∧
    ∀ sid, (grun g c evs).1.strSent sid = g.strSent sid + dataOn sid (runFrames (run c evs).2) := by
  intro evs
  induction evs with
  | nil => intro g c; exact ⟨rfl, fun _ => rfl⟩
  | cons e es ih =>
    intro g c
    obtain ⟨i1, i2⟩ := ih (gstep g c e) (step c e).1
    obtain ⟨r1, r2⟩ := recvEvent_sent g c e
    simp only [grun, run_cons, runFrames, List.flatMap_cons, dataAll_append, dataOn_append]
    simp only [runFrames] at i1 i2
    constructor
    · rw [i1]; simp only [gstep, Led.wrote, r1]; omega
    · intro sid; rw [i2 sid]; simp only [gstep, Led.wrote, r2]; omega

/-! ### the connection the driver creates -/

/-- `Init` and the values `Settings.Read` admits -/
structure InitF (c : Conn) : Prop where
  init : Init c
  win : 0 ≤ c.streamWindow ∧ c.streamWindow ≤ 2147483647
  mfs : MfsOK c.maxFrameSize

def Led.init (c : Conn) : Led := { iws := c.streamWindow }

theorem fl_init {c : Conn} (h : InitF c) : FL (Led.init c) c := by
  have i := h.init
  refine ⟨rfl, h.win, ?_, ?_, ?_, ?_, ?_, fun _ _ => rfl, h.mfs, ?_⟩
  · rw [i.connWindow]; unfold Rng; omega
  · rw [i.connWindow]; simp [Led.init]
  · simp [Led.init]
  · rw [i.pending]; exact sortedA_nil
  · rw [i.pending]; exact fun p hp => nomem hp
  · rw [i.outQ]; exact fun f hf => nomem hf

theorem initF_default : InitF {} := ⟨init_default, by decide, by unfold MfsOK; decide⟩

theorem handshake_initF {b : Bytes} {c : Conn} (h : Drv.handshake b = some c) : InitF c := by
  refine ⟨handshake_init h, ?_, ?_⟩
  all_goals (
    unfold Drv.handshake at h
    split at h
    · rename_i f hsp
      have hok : FrameOK f := splitFrames_ok 2 b f (by rw [hsp]; exact List.mem_cons_self ..)
      split at h
      · rename_i s hb
        have := hok s hb
        split at h
        · simp only [Option.some.injEq] at h; subst h; first | decide | (unfold MfsOK; decide)
        · simp only [Option.some.injEq] at h; subst h
          first
            | exact ⟨by simp, by simp only; have := this.win; omega⟩
            | exact this.frame
      · cases h
    · cases h)

/-! ### the `received` ledgers are the WINDOW_UPDATE frames the read loop went through, nothing else -/

/-- the frames `rdFrames` hands to `rdFrame`, in order (it stops where `rdFrames` stops) -/
def taken : List RdFrame → Conn → List Frame.Frame
  | [], _ => []
  | .unknown :: fs, c => taken fs c
  | .bad _ _ :: _, _ => []
  | .frame f :: fs, c => if c.stuck then [] else f :: (if (rdFrame c f).2 then [] else taken fs (rdFrame c f).1)

theorem recvFrames_eq (fs : List RdFrame) : ∀ (c : Conn) (g : Led), recvFrames fs c g = (taken fs c).foldl Led.recv g := by
  induction fs with
  | nil => intros; rfl
  | cons x xs ih =>
    intro c g
    cases x with
    | unknown => exact ih c g
    | bad a b => rfl
    | frame f =>
      simp only [recvFrames, taken]
      split
      · rfl
      · split
        · rfl
        · simp only [List.foldl_cons]; exact ih _ _

/-- the frames the read loop goes through in one step -/
def stepTaken (c : Conn) : Event → List Frame.Frame
  | .bytes b => if c.stuck || c.dead then [] else taken (bytesSplit c b).1 { c with rdBuf := (bytesSplit c b).2 }
  | _ => []

/-- … and in a run -/
def runTaken : Conn → List Event → List Frame.Frame
  | _, [] => []
  | c, e :: es => stepTaken c e ++ runTaken (step c e).1 es

/-- the increment a frame carries for stream `sid` (0: the connection) -/
def wuOn (sid : Nat) (f : Frame.Frame) : Nat :=
  match f.body with
  | .windowUpdate inc => if f.stream = sid then inc else 0
  | _ => 0

theorem Led.recv_inc (g : Led) (f : Frame.Frame) :
    (g.recv f).connInc = g.connInc + wuOn 0 f ∧ ∀ sid, sid ≠ 0 → (g.recv f).strInc sid = g.strInc sid + wuOn sid f := by
  unfold Led.recv wuOn
  cases f.body with
  | windowUpdate inc =>
    simp only
    by_cases h0 : f.stream = 0
    · simp only [h0, beq_self_eq_true, if_true]
      refine ⟨trivial, fun sid hs => ?_⟩
      have : ¬ 0 = sid := fun e => hs e.symm
      simp [this]
    · have h0' : (f.stream == 0) = false := by simpa using h0
      simp only [h0', Bool.false_eq_true, if_false, h0, Nat.add_zero, true_and]
      intro sid _
      by_cases hs : sid = f.stream
      · simp [bump, hs]
      · have : ¬ f.stream = sid := fun e => hs e.symm
        simp [bump, hs, this]
  | settings s => simp only; split <;> exact ⟨rfl, fun _ _ => rfl⟩
  | _ => exact ⟨rfl, fun _ _ => rfl⟩

theorem foldl_recv_inc (fs : List Frame.Frame) : ∀ g : Led,
    (fs.foldl Led.recv g).connInc = g.connInc + (fs.map (wuOn 0)).sum ∧
    ∀ sid, sid ≠ 0 → (fs.foldl Led.recv g).strInc sid = g.strInc sid + (fs.map (wuOn sid)).sum := by
  induction fs with
  | nil => intro g; exact ⟨rfl, fun _ _ => rfl⟩
  | cons f fs ih =>
    intro g
    obtain ⟨i1, i2⟩ := ih (g.recv f)
    obtain ⟨r1, r2⟩ := g.recv_inc f
    simp only [List.foldl_cons, List.map_cons, List.sum_cons]
    exact ⟨by rw [i1, r1]; omega, fun sid hs => by rw [i2 sid hs, r2 sid hs]; omega⟩

theorem recvEvent_eq (g : Led) (c : Conn) (ev : Event) : recvEvent g c ev = (stepTaken c ev).foldl Led.recv g := by
  cases ev with
  | bytes b =>
    simp only [recvEvent, stepTaken]
    split
    · rfl
    · exact recvFrames_eq _ _ _
  | _ => rfl

/-- **the `received` ledgers are the increments of the WINDOW_UPDATE frames the read loop went through in the run**:
those on stream 0 for the connection, those on `sid` for stream `sid` -/
theorem grun_inc : ∀ (evs : List Event) (g : Led) (c : Conn),
    (grun g c evs).1.connInc = g.connInc + ((runTaken c evs).map (wuOn 0)).sum ∧
    ∀ sid, sid ≠ 0 → (grun g c evs).1.strInc sid = g.strInc sid + ((runTaken c evs).map (wuOn sid)).sum := by
  intro evs
  induction evs with
  | nil => intro g c; exact ⟨rfl, fun _ _ => rfl⟩
  | cons e es ih =>
    intro g c
    obtain ⟨i1, i2⟩ := ih (gstep g c e) (step c e).1
    obtain ⟨f1, f2⟩ := foldl_recv_inc (stepTaken c e) g
    simp only [grun, runTaken, List.map_append, List.sum_append]
    have hg1 : (gstep g c e).connInc = (recvEvent g c e).connInc := rfl
    have hg2 : (gstep g c e).strInc = (recvEvent g c e).strInc := rfl
    rw [recvEvent_eq] at hg1 hg2
    exact ⟨by rw [i1, hg1, f1]; omega, fun sid hs => by rw [i2 sid hs, hg2, f2 sid hs]; omega⟩

theorem Led.recv_iws_congr (g g' : Led) (f : Frame.Frame) (h : g.iws = g'.iws) : (g.recv f).iws = (g'.recv f).iws := by
  unfold Led.recv
  cases f.body with
  | windowUpdate inc => simp only; split <;> exact h
  | settings s => simp only; split <;> first | rfl | exact h
  | _ => exact h

theorem foldl_recv_iws_congr (fs : List Frame.Frame) : ∀ g g' : Led, g.iws = g'.iws →
    (fs.foldl Led.recv g).iws = (fs.foldl Led.recv g').iws := by
  induction fs with
  | nil => intro g g' h; exact h
  | cons f fs ih => intro g g' h; exact ih _ _ (Led.recv_iws_congr g g' f h)

/-- **the INITIAL_WINDOW_SIZE ledger is the last value among the SETTINGS frames the read loop went through** (the value
of the handshake if there was none): the fold of `Led.recv` over those frames -/
theorem grun_iws : ∀ (evs : List Event) (g : Led) (c : Conn),
    (grun g c evs).1.iws = ((runTaken c evs).foldl Led.recv g).iws := by
  intro evs
  induction evs with
  | nil => intros; rfl
  | cons e es ih =>
    intro g c
    simp only [grun, runTaken, List.foldl_append]
    rw [ih]
    apply foldl_recv_iws_congr
    show (recvEvent g c e).iws = _
    rw [recvEvent_eq]

end H2.Client
