import H2.Proofs.HpackDec
/-! The encoder model `Enc.append` (mirror of `AppendHeader`) against the specification decoder. Core only. -/
namespace H2.Hpack
open H2

theorem evict_fits : ∀ (t : List (Bytes × Bytes)) (max : Nat), tableSize (evict t max) ≤ max := by
  intro t max
  induction h : t.length using Nat.strongRecOn generalizing t with
  | _ n ih =>
    cases t with
    | nil => simp [evict, tableSize]
    | cons e t' =>
      unfold evict
      split
      · assumption
      · exact ih _ (by subst h; simp [List.length_dropLast]) _ rfl

theorem evict_of_fits (t : List (Bytes × Bytes)) (max : Nat) (h : tableSize t ≤ max) : evict t max = t := by
  cases t with
  | nil => simp [evict]
  | cons e t' => unfold evict; simp [h]

/-- what `search` returns: 0, or the index of an entry with the field's name (and value when `full`);
a name-only match is always a static entry -/
theorem search_spec (st : EncState) (f : Field) :
    ((search st f).1 = 0 ∧ (search st f).2 = false) ∨
    (0 < (search st f).1 ∧ ∃ e, lookup st.dyn (search st f).1 = some e ∧ e.1 = f.name ∧
      ((search st f).2 = true → e.2 = f.value) ∧ ((search st f).2 = false → (search st f).1 < Gen.maxIndex)) := by
  unfold search
  simp only
  cases hd : st.dyn.reverse.findIdx? (fun e => e.1 == f.name && e.2 == f.value) with
  | some j =>
    right
    simp only
    have hj := List.findIdx?_eq_some_iff_getElem.mp hd
    obtain ⟨hlt, hp, _⟩ := hj
    simp only [List.length_reverse] at hlt
    refine ⟨by have : 0 < Gen.maxIndex := by decide
               omega, ?_⟩
    have hget : st.dyn.reverse[j] = st.dyn[st.dyn.length - 1 - j] := by
      rw [List.getElem_reverse]
    refine ⟨st.dyn[st.dyn.length - 1 - j], ?_, ?_, ?_, ?_⟩
    · unfold lookup
      have h0 : Gen.maxIndex + (st.dyn.length - 1 - j) ≠ 0 := by
        have : 0 < Gen.maxIndex := by decide
        omega
      have h1 : ¬ Gen.maxIndex + (st.dyn.length - 1 - j) < Gen.maxIndex := by omega
      simp only [h0, h1, if_false]
      rw [show Gen.maxIndex + (st.dyn.length - 1 - j) - Gen.maxIndex = st.dyn.length - 1 - j by omega]
      exact List.getElem?_eq_getElem (by omega)
    · rw [hget] at hp
      simp only [Bool.and_eq_true, beq_iff_eq] at hp
      exact hp.1
    · intro _
      rw [hget] at hp
      simp only [Bool.and_eq_true, beq_iff_eq] at hp
      exact hp.2
    · intro h; cases h
  | none =>
    simp only
    cases hs : Gen.staticTable.findIdx? (fun e => e.1 == f.name && e.2 == f.value) with
    | some j =>
      right
      simp only
      obtain ⟨hlt, hp, _⟩ := List.findIdx?_eq_some_iff_getElem.mp hs
      have hlen := static_len
      refine ⟨by omega, Gen.staticTable[j], ?_, ?_, ?_, ?_⟩
      · unfold lookup
        have h1 : j + 1 < Gen.maxIndex := by omega
        simp only [Nat.add_one_ne_zero, if_false, h1, if_true, Nat.add_sub_cancel]
        exact List.getElem?_eq_getElem hlt
      · simp only [Bool.and_eq_true, beq_iff_eq] at hp; exact hp.1
      · intro _; simp only [Bool.and_eq_true, beq_iff_eq] at hp; exact hp.2
      · intro h; cases h
    | none =>
      simp only
      cases hn : Gen.staticTable.findIdx? (fun e => e.1 == f.name) with
      | some j =>
        right
        simp only
        obtain ⟨hlt, hp, _⟩ := List.findIdx?_eq_some_iff_getElem.mp hn
        have hlen := static_len
        refine ⟨by omega, Gen.staticTable[j], ?_, ?_, ?_, ?_⟩
        · unfold lookup
          have h1 : j + 1 < Gen.maxIndex := by omega
          simp only [Nat.add_one_ne_zero, if_false, h1, if_true, Nat.add_sub_cancel]
          exact List.getElem?_eq_getElem hlt
        · simp only [beq_iff_eq] at hp; exact hp
        · intro h; cases h
        · intro _; omega
      | none => left; simp

end H2.Hpack

namespace H2.Hpack
open H2

/-- the representation `AppendHeader` chooses -/
def encRepr (st : EncState) (f : Field) (store : Bool) : Spec.Repr :=
  let huff := !st.disableCompression
  if f.sens then
    if (search st f).1 > 0 then .literal .never (.idx (search st f).1) f.value false
    else .literal .never (.lit f.name false) f.value false
  else if (search st f).1 > 0 then
    if (search st f).2 then .indexed (search st f).1
    else if !store then .literal .without (.idx (search st f).1) f.value huff
    else .literal .incremental (.idx (search st f).1) f.value huff
  else if !store || st.disableDynamic then .literal .without (.lit f.name huff) f.value huff
  else .literal .incremental (.lit f.name huff) f.value huff

/-- the size updates `AppendHeader` puts in front when a change is pending -/
def encPre (st : EncState) : List Spec.Repr :=
  if st.pending then
    (if st.minPending < st.maxSize then [.sizeUpdate st.minPending] else []) ++ [.sizeUpdate st.maxSize]
  else []

def isIncremental : Spec.Repr → Bool
  | .literal .incremental _ _ _ => true
  | _ => false

def serAll (rs : List Spec.Repr) : Bytes := rs.flatMap Spec.ser

theorem search_pending (st : EncState) (f : Field) : search { st with pending := false } f = search st f := rfl

theorem writeInt_zero (n fl : Nat) (hn : 0 < n) : writeInt n fl 0 = [fl] := by
  have hp : 2 ≤ 2 ^ n := by
    have := Nat.pow_le_pow_right (show 0 < 2 by decide) hn; simpa using this
  unfold writeInt
  have : 0 < 2 ^ n - 1 := by omega
  simp [this]

theorem append_out (st : EncState) (f : Field) (store : Bool) :
    (Enc.append st f store).2 = serAll (encPre st) ++ Spec.ser (encRepr st f store) := by
  have hpre : serAll (encPre st) = (if st.pending then
      (if st.minPending < st.maxSize then writeInt 5 32 st.minPending else []) ++ writeInt 5 32 st.maxSize
    else []) := by
    unfold serAll encPre
    by_cases hp : st.pending
    · by_cases hm : st.minPending < st.maxSize
      · simp [hp, hm, Spec.ser, writeInt_eq_encInt]
      · simp [hp, hm, Spec.ser, writeInt_eq_encInt]
    · simp [hp]
  rw [hpre]
  unfold Enc.append encRepr
  simp only [search_pending]
  have z4 := writeInt_zero 4 0 (by decide)
  have z16 := writeInt_zero 4 16 (by decide)
  have z64 := writeInt_zero 6 64 (by decide)
  by_cases hs : f.sens
  · by_cases hi : (search st f).1 > 0
    · simp [hs, hi, ser_eq, Spec.Mode.prefixBits, Spec.Mode.flags]
    · simp [hs, hi, ser_eq, Spec.Mode.prefixBits, Spec.Mode.flags, z16]
  · by_cases hi : (search st f).1 > 0
    · by_cases hf : (search st f).2
      · simp [hs, hi, hf, ser_eq]
      · by_cases hst : store
        · simp [hs, hi, hf, hst, ser_eq, Spec.Mode.prefixBits, Spec.Mode.flags]
        · simp [hs, hi, hf, hst, ser_eq, Spec.Mode.prefixBits, Spec.Mode.flags]
    · by_cases hst : (!store || st.disableDynamic)
      · simp [hs, hi, hst, ser_eq, Spec.Mode.prefixBits, Spec.Mode.flags, z4]
      · simp [hs, hi, hst, ser_eq, Spec.Mode.prefixBits, Spec.Mode.flags, z64]

theorem append_state (st : EncState) (f : Field) (store : Bool)
    (hidx : (search st f).2 = false → (search st f).1 < Gen.maxIndex) :
    (Enc.append st f store).1 =
      { st with pending := false,
                dyn := if isIncremental (encRepr st f store) then insert st.dyn (f.name, f.value) st.maxSize else st.dyn } := by
  unfold Enc.append encRepr
  simp only [search_pending]
  by_cases hs : f.sens
  · by_cases hi : (search st f).1 > 0
    · simp [hs, hi, isIncremental]
    · simp [hs, hi, isIncremental]
  · by_cases hi : (search st f).1 > 0
    · by_cases hf : (search st f).2
      · simp [hs, hi, hf, isIncremental]
      · by_cases hst : store
        · have := hidx (by simpa using hf)
          simp [hs, hi, hf, hst, isIncremental, this]
        · simp [hs, hi, hf, hst, isIncremental]
    · by_cases hst : (!store || st.disableDynamic)
      · simp [hs, hi, hst, isIncremental]
      · simp [hs, hi, hst, isIncremental]

end H2.Hpack

namespace H2.Hpack
open H2

/-- a field the encoder can be given: octet strings whose encoded lengths fit the wire integers -/
def FieldOK (f : Field) : Prop :=
  WF f.name ∧ WF f.value ∧ ∀ h, Spec.strLen f.name h < 2 ^ 64 ∧ Spec.strLen f.value h < 2 ^ 64

theorem tableSize_ge (t : List (Bytes × Bytes)) : 32 * t.length ≤ tableSize t := by
  induction t with
  | nil => simp [tableSize]
  | cons e t ih =>
    have : 32 ≤ entrySize e := by unfold entrySize; omega
    simp only [tableSize, List.map_cons, List.sum_cons, List.length_cons] at ih ⊢
    omega

/-- every index `search` returns fits a wire integer -/
theorem search_lt (st : EncState) (f : Field) (h : tableSize st.dyn < 2 ^ 32) : (search st f).1 < 2 ^ 64 := by
  rcases search_spec st f with ⟨h0, _⟩ | ⟨_, e, hl, _⟩
  · omega
  · unfold lookup at hl
    have := tableSize_ge st.dyn
    by_cases h0 : (search st f).1 = 0
    · omega
    · simp only [h0, if_false] at hl
      by_cases h1 : (search st f).1 < Gen.maxIndex
      · have : Gen.maxIndex = 62 := by decide
        omega
      · simp only [h1, if_false] at hl
        have := (List.getElem?_eq_some_iff.mp hl).1
        have : Gen.maxIndex = 62 := by decide
        omega

theorem encRepr_wf (st : EncState) (f : Field) (store : Bool) (hf : FieldOK f) (h : tableSize st.dyn < 2 ^ 32) :
    (encRepr st f store).WF := by
  obtain ⟨hn, hv, hl⟩ := hf
  have hlt := search_lt st f h
  unfold encRepr
  simp only
  by_cases hs : f.sens
  · by_cases hi : (search st f).1 > 0
    · simp only [hs, hi, if_true]; exact ⟨hi, hlt, hv, (hl false).2⟩
    · simp only [hs, hi, if_true, if_false]; exact ⟨hn, hv, (hl false).1, (hl false).2⟩
  · by_cases hi : (search st f).1 > 0
    · by_cases hfm : (search st f).2
      · simp only [hs, hi, hfm, if_true, if_false]; exact hlt
      · by_cases hst : store
        · simp only [hs, hi, hfm, hst, if_true, if_false, Bool.not_true, Bool.false_eq_true]; exact ⟨hi, hlt, hv, (hl _).2⟩
        · simp only [hs, hi, hfm, hst, if_true, if_false, Bool.not_false]; exact ⟨hi, hlt, hv, (hl _).2⟩
    · by_cases hst : (!store || st.disableDynamic)
      · simp only [hs, hi, hst, if_true, if_false]; exact ⟨hn, hv, (hl _).1, (hl _).2⟩
      · simp only [hs, hi, hst, if_false]; exact ⟨hn, hv, (hl _).1, (hl _).2⟩

/-- the meaning of the chosen representation on a decoder whose table equals the encoder's: exactly the
field, and the same insertion -/
theorem apply_encRepr (st : EncState) (D : DecState) (f : Field) (store : Bool) (fp : Nat)
    (hd : D.dyn = st.dyn) (hm : D.maxSize = st.maxSize) :
    Spec.apply D fp (encRepr st f store) =
      some ({ D with dyn := if isIncremental (encRepr st f store) then insert st.dyn (f.name, f.value) st.maxSize else st.dyn },
        some f) := by
  obtain ⟨dd, dm, dl⟩ := D
  simp only at hd hm
  subst hd hm
  have hss := search_spec st f
  unfold encRepr
  simp only
  by_cases hs : f.sens
  · by_cases hi : (search st f).1 > 0
    · rcases hss with ⟨h0, _⟩ | ⟨_, e, hl, hn, _, _⟩
      · omega
      · rw [lookup_eq] at hl
        simp only [hs, hi, if_true, Spec.apply, hl, Option.map_some, isIncremental]
        cases f; simp_all
    · simp only [hs, hi, if_true, if_false, Spec.apply, Option.map_some, isIncremental]
      cases f; simp_all
  · have hsf : f.sens = false := by simpa using hs
    by_cases hi : (search st f).1 > 0
    · rcases hss with ⟨h0, _⟩ | ⟨_, e, hl, hn, hfull, _⟩
      · omega
      · rw [lookup_eq] at hl
        by_cases hfm : (search st f).2
        · have := hfull hfm
          simp only [hs, hi, hfm, if_true, if_false, Spec.apply, hl, Option.map_some, isIncremental]
          cases f; simp_all
        · by_cases hst : store
          · simp only [hs, hi, hfm, hst, if_true, if_false, Bool.not_true, Bool.false_eq_true, Spec.apply, hl, Option.map_some,
              isIncremental, ← insert_eq]
            cases f; simp_all
          · simp only [hs, hi, hfm, hst, if_true, if_false, Bool.not_false, Spec.apply, hl, Option.map_some, isIncremental]
            cases f; simp_all
    · by_cases hst : (!store || st.disableDynamic)
      · simp only [hs, hi, hst, if_true, if_false, Spec.apply, Option.map_some, isIncremental]
        cases f; simp_all
      · simp only [hs, hi, hst, if_false, Spec.apply, Option.map_some, isIncremental, ← insert_eq]
        cases f; simp_all

end H2.Hpack

namespace H2.Hpack
open H2

/-- encoder and peer decoder are in step. While a size change is pending the peer still has the table as
of the last block; the encoder's is that table cut down to the smallest size set since. -/
structure Synced (E : EncState) (D : DecState) : Prop where
  lim : E.maxSize = D.limit
  u32 : E.maxSize < 2 ^ 32
  fits : tableSize E.dyn ≤ E.maxSize
  tbl : if E.pending then E.dyn = evict D.dyn E.minPending ∧ E.minPending ≤ E.maxSize
        else E.dyn = D.dyn ∧ E.maxSize = D.maxSize

theorem evict_evict : ∀ (t : List (Bytes × Bytes)) (a b : Nat), evict (evict t a) b = evict t (min a b) := by
  intro t a b
  induction h : t.length using Nat.strongRecOn generalizing t with
  | _ n ih =>
    by_cases hfit : tableSize t ≤ a
    · rw [evict_of_fits t a hfit]
      by_cases hab : a ≤ b
      · rw [Nat.min_eq_left hab, evict_of_fits t a hfit, evict_of_fits t b (by omega)]
      · rw [Nat.min_eq_right (by omega)]
    · cases t with
      | nil => simp [evict]
      | cons e t' =>
        have e1 : evict (e :: t') a = evict (e :: t').dropLast a := by
          conv => lhs; unfold evict
          simp [hfit]
        have hm : ¬ tableSize (e :: t') ≤ min a b := by
          have := Nat.min_le_left a b; omega
        have e2 : evict (e :: t') (min a b) = evict (e :: t').dropLast (min a b) := by
          conv => lhs; unfold evict
          simp [hm]
        rw [e1, e2]
        exact ih _ (by subst h; simp [List.length_dropLast]) _ rfl

/-- `SetMaxTableSize(n)` on the encoder while the peer's SETTINGS limit becomes `n` -/
theorem synced_setMax (E : EncState) (D : DecState) (n : Nat) (hn : n < 2 ^ 32) (hs : Synced E D) :
    Synced (E.setMax n) (Spec.setLimit D n) := by
  obtain ⟨lim, u32, fits, tbl⟩ := hs
  unfold EncState.setMax Spec.setLimit
  by_cases he : E.maxSize = n
  · simp only [he, if_true]
    exact ⟨he, by omega, fits, tbl⟩
  · simp only [he, if_false]
    refine ⟨rfl, hn, evict_fits _ _, ?_⟩
    simp only [if_true]
    by_cases hp : E.pending
    · simp only [hp, if_true] at tbl
      obtain ⟨hd, hmin⟩ := tbl
      by_cases hlt : n < E.minPending
      · simp only [hp, Bool.not_true, Bool.false_or, hlt, decide_true, if_true]
        refine ⟨?_, Nat.le_refl _⟩
        rw [hd, evict_evict, Nat.min_eq_right (by omega)]
      · simp only [hp, Bool.not_true, Bool.false_or, hlt, decide_false, Bool.false_eq_true, if_false]
        refine ⟨?_, ?_⟩
        · rw [hd, evict_evict, Nat.min_eq_left (by omega)]
        · omega
    · simp only [hp, if_false] at tbl
      simp only [hp, Bool.not_false, Bool.true_or, if_true]
      exact ⟨by rw [tbl.1], Nat.le_refl _⟩

/-- the size updates in front of a block bring the peer's table to the encoder's -/
theorem step_pre (E : EncState) (D : DecState) (tail : Bytes) (hs : Synced E D) :
    Spec.step D true 0 (serAll (encPre E) ++ tail) =
      Spec.step { D with maxSize := E.maxSize, dyn := E.dyn } true 0 tail := by
  obtain ⟨lim, u32, fits, tbl⟩ := hs
  unfold encPre serAll
  by_cases hp : E.pending
  · simp only [hp, if_true] at tbl ⊢
    obtain ⟨hd, hmin⟩ := tbl
    have hfin : ∀ D1 : DecState, D1.limit = D.limit → D1.dyn = E.dyn →
        Spec.step D1 true 0 (Spec.ser (.sizeUpdate E.maxSize) ++ tail) =
          Spec.step { D with maxSize := E.maxSize, dyn := E.dyn } true 0 tail := by
      intro D1 hl hdyn
      have ha : Spec.apply D1 (if true then 0 else 0 + 1) (.sizeUpdate E.maxSize) =
          some ({ D1 with maxSize := E.maxSize, dyn := Spec.evict D1.dyn E.maxSize }, none) := by
        simp [Spec.apply, hl, ← lim]
      rw [step_ser D1 true 0 _ tail (show (Spec.Repr.sizeUpdate E.maxSize).WF by show E.maxSize < 2 ^ 64; omega) _ _ ha]
      simp only
      rw [← evict_eq, hdyn, evict_of_fits _ _ fits]
      obtain ⟨d1, m1, l1⟩ := D1
      obtain ⟨d, m, l⟩ := D
      simp only at hl
      subst hl
      rfl
    by_cases hm : E.minPending < E.maxSize
    · simp only [hm, if_true, List.cons_append, List.nil_append, List.flatMap_cons, List.flatMap_nil, List.append_nil,
        List.append_assoc]
      have ha : Spec.apply D (if true then 0 else 0 + 1) (.sizeUpdate E.minPending) =
          some ({ D with maxSize := E.minPending, dyn := Spec.evict D.dyn E.minPending }, none) := by
        have : E.minPending ≤ D.limit := by omega
        simp [Spec.apply, this]
      rw [step_ser D true 0 _ _ (show (Spec.Repr.sizeUpdate E.minPending).WF by show E.minPending < 2 ^ 64; omega) _ _ ha]
      simp only
      exact hfin _ rfl (by simp only [← evict_eq]; exact hd.symm)
    · simp only [hm, if_false, List.nil_append, List.flatMap_cons, List.flatMap_nil, List.append_nil]
      have heq : E.minPending = E.maxSize := by omega
      have ha : Spec.apply D (if true then 0 else 0 + 1) (.sizeUpdate E.maxSize) =
          some ({ D with maxSize := E.maxSize, dyn := Spec.evict D.dyn E.maxSize }, none) := by
        simp [Spec.apply, ← lim]
      rw [step_ser D true 0 _ tail (show (Spec.Repr.sizeUpdate E.maxSize).WF by show E.maxSize < 2 ^ 64; omega) _ _ ha]
      simp only
      rw [← evict_eq, ← heq, ← hd]
  · simp only [hp, if_false] at tbl ⊢
    try simp only [List.flatMap_nil, List.nil_append]
    obtain ⟨d, m, l⟩ := D
    simp only at tbl
    obtain ⟨h1, h2⟩ := tbl
    subst h1 h2
    rfl

/-- **one `AppendHeader` call**: the specification decoder, in step with the encoder, reads the emitted
octets as exactly the field given (name, value, never-indexed mark), and is in step again afterwards.
`fp` is the number of fields already decoded in the block; a pending size change is announced by the
first field of a block only. -/
theorem enc_step (E : EncState) (D : DecState) (f : Field) (store : Bool) (fp : Nat) (rest : Bytes)
    (hs : Synced E D) (hf : FieldOK f) (hp : E.pending = true → fp = 0) :
    ∃ D', Spec.step D true fp ((Enc.append E f store).2 ++ rest) = .ok D' (some f) rest ∧
      Synced (Enc.append E f store).1 D' ∧ (Enc.append E f store).1.pending = false := by
  have hss := search_spec E f
  have hidx : (search E f).2 = false → (search E f).1 < Gen.maxIndex := by
    intro h
    rcases hss with ⟨h0, _⟩ | ⟨_, _, _, _, _, h2⟩
    · have : 0 < Gen.maxIndex := by decide
      omega
    · exact h2 h
  have hsz : tableSize E.dyn < 2 ^ 32 := by have := hs.fits; have := hs.u32; omega
  rw [append_out, append_state E f store hidx, List.append_assoc]
  let D2 : DecState := { D with maxSize := E.maxSize, dyn := E.dyn }
  have ha := apply_encRepr E D2 f store fp rfl rfl
  have hwf := encRepr_wf E f store hf hsz
  have hstep : Spec.step D2 true fp (Spec.ser (encRepr E f store) ++ rest) =
      .ok { D2 with dyn := if isIncremental (encRepr E f store) then insert E.dyn (f.name, f.value) E.maxSize else E.dyn }
        (some f) rest := by
    rw [step_ser D2 true fp _ rest hwf _ _ (by simpa using ha)]
  refine ⟨{ D2 with dyn := if isIncremental (encRepr E f store) then insert E.dyn (f.name, f.value) E.maxSize else E.dyn },
    ?_, ?_, rfl⟩
  · by_cases hpe : E.pending
    · have := hp hpe
      subst this
      rw [step_pre E D _ hs]
      exact hstep
    · have : serAll (encPre E) = [] := by simp [encPre, serAll, hpe]
      rw [this, List.nil_append]
      have hD : D2 = D := by
        have := hs.tbl
        simp only [hpe, if_false] at this
        obtain ⟨d, m, l⟩ := D
        simp only at this
        obtain ⟨h1, h2⟩ := this
        show ({ dyn := E.dyn, maxSize := E.maxSize, limit := l } : DecState) = _
        rw [h1, h2]
      rw [← hD]
      exact hstep
  · refine ⟨hs.lim, hs.u32, ?_, ?_⟩
    · simp only
      split
      · exact evict_fits _ _
      · exact hs.fits
    · simp
      rfl

end H2.Hpack

namespace H2.Hpack
open H2

/-- a header block as the encoder produces it: one `AppendHeader` per field -/
def encBlock (E : EncState) : List (Field × Bool) → EncState × Bytes
  | [] => (E, [])
  | (f, s) :: fs => ((encBlock (Enc.append E f s).1 fs).1, (Enc.append E f s).2 ++ (encBlock (Enc.append E f s).1 fs).2)

/-- decoding a block field by field with the specification step -/
def specFields : Nat → DecState → Nat → Bytes → Option (DecState × List Field)
  | 0, st, _, b => if b = [] then some (st, []) else none
  | n + 1, st, fp, b =>
    match Spec.step st true fp b with
    | .ok st' (some f) rest => (specFields n st' (fp + 1) rest).map fun (s, fs) => (s, f :: fs)
    | _ => none

theorem enc_block : ∀ (fs : List (Field × Bool)) (E : EncState) (D : DecState) (fp : Nat),
    Synced E D → (∀ p ∈ fs, FieldOK p.1) → (E.pending = true → fp = 0) →
    ∃ D', specFields fs.length D fp (encBlock E fs).2 = some (D', fs.map (·.1)) ∧ Synced (encBlock E fs).1 D' ∧
      (fs ≠ [] → (encBlock E fs).1.pending = false) := by
  intro fs
  induction fs with
  | nil => intro E D fp hs _ _; exact ⟨D, by simp [specFields, encBlock], hs, by simp⟩
  | cons p fs ih =>
    intro E D fp hs hok hp
    obtain ⟨f, s⟩ := p
    obtain ⟨D1, hstep, hs1, hpend⟩ := enc_step E D f s fp (encBlock (Enc.append E f s).1 fs).2 hs
      (hok (f, s) (by simp)) hp
    obtain ⟨D', hrest, hs', hp'⟩ := ih (Enc.append E f s).1 D1 (fp + 1) hs1
      (fun q hq => hok q (by simp [hq])) (by rw [hpend]; intro h; cases h)
    refine ⟨D', ?_, hs', ?_⟩
    · simp only [encBlock, List.length_cons, specFields, hstep, hrest, Option.map_some, List.map_cons]
    · intro _
      cases fs with
      | nil => simpa [encBlock] using hpend
      | cons q qs => exact hp' (by simp)

/-- a connection as the encoder sees it -/
inductive EncEvent where
  | setMax (n : Nat)                       -- the peer's SETTINGS_HEADER_TABLE_SIZE arrives
  | block (fs : List (Field × Bool))       -- a header list is encoded

def EncEvent.ok : EncEvent → Prop
  | .setMax n => n < 2 ^ 32
  | .block fs => fs ≠ [] ∧ ∀ p ∈ fs, FieldOK p.1

/-- run encoder and specification decoder side by side; `none` as soon as the decoder does not get back
the header list that went in -/
def runHistory (E : EncState) (D : DecState) : List EncEvent → Option (EncState × DecState)
  | [] => some (E, D)
  | .setMax n :: es => runHistory (E.setMax n) (Spec.setLimit D n) es
  | .block fs :: es =>
    if D.maxSize > D.limit && !Spec.startsWithUpdateOctet (encBlock E fs).2 then none else
    match specFields fs.length D 0 (encBlock E fs).2 with
    | some (D', out) => if out = fs.map (·.1) then runHistory (encBlock E fs).1 D' es else none
    | none => none

theorem encPre_head (E : EncState) (tail : Bytes) (hp : E.pending = true) :
    Spec.startsWithUpdateOctet (serAll (encPre E) ++ tail) = true := by
  unfold encPre serAll
  simp only [hp, if_true]
  by_cases hm : E.minPending < E.maxSize
  · obtain ⟨x, tl, hx, hlt⟩ := writeInt_head 5 32 E.minPending
    simp only [hm, if_true, List.cons_append, List.flatMap_cons, Spec.ser, ← writeInt_eq_encInt, hx, Spec.startsWithUpdateOctet]
    simp; omega
  · obtain ⟨x, tl, hx, hlt⟩ := writeInt_head 5 32 E.maxSize
    simp only [hm, if_false, List.nil_append, List.flatMap_cons, Spec.ser, ← writeInt_eq_encInt, hx, List.cons_append,
      Spec.startsWithUpdateOctet]
    simp; omega

theorem enc_history_aux : ∀ (es : List EncEvent) (E : EncState) (D : DecState), Synced E D → (∀ e ∈ es, e.ok) →
    ∃ E' D', runHistory E D es = some (E', D') ∧ Synced E' D' := by
  intro es
  induction es with
  | nil => intro E D hs _; exact ⟨E, D, rfl, hs⟩
  | cons e es ih =>
    intro E D hs hok
    cases e with
    | setMax n =>
      have hn : n < 2 ^ 32 := hok (.setMax n) (by simp)
      exact ih _ _ (synced_setMax E D n hn hs) (fun e he => hok e (by simp [he]))
    | block fs =>
      obtain ⟨hne, hf⟩ := hok (.block fs) (by simp)
      have hpend : D.maxSize > D.limit → E.pending = true := by
        intro h
        cases hp : E.pending with
        | true => rfl
        | false =>
          have := hs.tbl
          simp only [hp, Bool.false_eq_true, if_false] at this
          have := hs.lim
          omega
      obtain ⟨D', hdec, hs', _⟩ := enc_block fs E D 0 hs hf (fun _ => rfl)
      have hstart : (D.maxSize > D.limit && !Spec.startsWithUpdateOctet (encBlock E fs).2) = false := by
        by_cases h : D.maxSize > D.limit
        · have hp := hpend h
          cases fs with
          | nil => exact absurd rfl hne
          | cons p ps =>
            obtain ⟨f, s⟩ := p
            simp only [encBlock, append_out, List.append_assoc]
            rw [encPre_head E _ hp]; simp
        · simp [h]
      obtain ⟨E2, D2, hrun, hs2⟩ := ih _ _ hs' (fun e he => hok e (by simp [he]))
      refine ⟨E2, D2, ?_, hs2⟩
      simp only [runHistory, hstart, Bool.false_eq_true, if_false, hdec, if_true, hrun]

end H2.Hpack
