import H2.Frame.Spec
/-! Helper lemmas for C05/C16: the mirror model `Frame.readFrame` refines the RFC grammar `Frame.Spec.parse`. -/
namespace H2.Frame
open H2

theorem hasFlag_bitAt (fl k : Nat) : hasFlag fl (2 ^ k) = Spec.bitAt fl k := by
  simp only [hasFlag, Spec.bitAt]
  by_cases h : fl / 2 ^ k % 2 = 1 <;> simp [h]

theorem hasFlag_1 (fl : Nat) : hasFlag fl 1 = Spec.bitAt fl 0 := hasFlag_bitAt fl 0
theorem hasFlag_4 (fl : Nat) : hasFlag fl 4 = Spec.bitAt fl 2 := hasFlag_bitAt fl 2
theorem hasFlag_8 (fl : Nat) : hasFlag fl 8 = Spec.bitAt fl 3 := hasFlag_bitAt fl 3
theorem hasFlag_32 (fl : Nat) : hasFlag fl 32 = Spec.bitAt fl 5 := hasFlag_bitAt fl 5

theorem be32_u32 (a b c d : Nat) (t : Bytes) : be32 (a :: b :: c :: d :: t) = Spec.u32 a b c d := by
  simp [be32, Spec.u32]; omega

theorem be32_u31 (a b c d : Nat) (t : Bytes) (hb : b < 256) (hc : c < 256) (hd : d < 256) :
    be32 (a :: b :: c :: d :: t) % 2 ^ 31 = Spec.u31 a b c d := by
  simp [be32, Spec.u31, Spec.u32]; omega

theorem cutPadding_unpad (p : Bytes) : cutPadding p = Spec.unpad true p := by
  cases p with
  | nil => simp [cutPadding, Spec.unpad]
  | cons n rest =>
    simp only [cutPadding, Spec.unpad, List.length_cons, if_true]
    by_cases h : n ≤ rest.length
    · have h1 : ¬ (n + 1 > rest.length + 1) := by omega
      have h2 : rest.length + 1 - n - 1 = rest.length - n := by omega
      simp [h, h1, h2]
    · have h1 : n + 1 > rest.length + 1 := by omega
      simp [h, h1]

def withPairs (s : SettingsVal) (q : List (Nat × Nat)) : SettingsVal := { s with pairs := q }

theorem applyPair_withPairs (s : SettingsVal) (q : List (Nat × Nat)) (p : Nat × Nat) :
    Spec.applyPair (withPairs s q) p = withPairs (Spec.applyPair s p) q := by
  unfold Spec.applyPair withPairs
  repeat' split
  all_goals rfl

theorem foldl_withPairs (ps : List (Nat × Nat)) (s : SettingsVal) (q : List (Nat × Nat)) :
    ps.foldl Spec.applyPair (withPairs s q) = withPairs (ps.foldl Spec.applyPair s) q := by
  induction ps generalizing s with
  | nil => rfl
  | cons p ps ih => simp only [List.foldl_cons, applyPair_withPairs, ih]

theorem settingsRead_cons (i0 i1 v0 v1 v2 v3 : Nat) (rest : Bytes) (s : SettingsVal) :
    settingsRead (i0 :: i1 :: v0 :: v1 :: v2 :: v3 :: rest) s =
      match Spec.pairBad (i0 * 256 + i1, Spec.u32 v0 v1 v2 v3) with
      | some c => .inr c
      | none => settingsRead rest (withPairs (Spec.applyPair s (i0 * 256 + i1, Spec.u32 v0 v1 v2 v3))
                  (s.pairs ++ [(i0 * 256 + i1, Spec.u32 v0 v1 v2 v3)])) := by
  rw [settingsRead]
  simp only [be32_u32]
  generalize i0 * 256 + i1 = k
  generalize Spec.u32 v0 v1 v2 v3 = v
  simp only [Spec.pairBad, Spec.applyPair, withPairs, Gen.c_HeaderTableSize, Gen.c_EnablePush, Gen.c_MaxConcurrentStreams,
    Gen.c_MaxWindowSize, Gen.c_MaxFrameSize, Gen.c_MaxHeaderListSize, Gen.c_ProtocolError, Gen.c_FlowControlError]
  by_cases h1 : k = 1
  · subst h1; simp
  by_cases h2 : k = 2
  · subst h2; by_cases hv : v > 1 <;> simp [hv]
  by_cases h3 : k = 3
  · subst h3; simp
  by_cases h4 : k = 4
  · subst h4; by_cases hv : v > 2 ^ 31 - 1 <;> simp [hv]
  by_cases h5 : k = 5
  · subst h5; by_cases hv : v < 2 ^ 14 ∨ v > 2 ^ 24 - 1 <;> simp [hv]
  by_cases h6 : k = 6
  · subst h6; simp
  simp [h1, h2, h3, h4, h5, h6]

theorem settingsRead_spec (p : Bytes) (s : SettingsVal) :
    settingsRead p s = match Spec.firstBad (Spec.pairsOf p) with
      | some c => .inr c
      | none => .inl (some (withPairs ((Spec.pairsOf p).foldl Spec.applyPair s) (s.pairs ++ Spec.pairsOf p))) := by
  fun_induction Spec.pairsOf p generalizing s with
  | case1 i0 i1 v0 v1 v2 v3 rest ih =>
    rw [settingsRead_cons]
    simp only [Spec.firstBad, List.foldl_cons]
    cases hb : Spec.pairBad (i0 * 256 + i1, Spec.u32 v0 v1 v2 v3) with
    | some c => rfl
    | none =>
      simp only [ih, foldl_withPairs]
      cases Spec.firstBad (Spec.pairsOf rest) with
      | some c => rfl
      | none => simp [withPairs]
  | case2 p h =>
    unfold settingsRead
    split
    · exact absurd rfl (fun e => h _ _ _ _ _ _ _ e)
    · simp [Spec.firstBad, withPairs]
set_option linter.unusedSimpArgs false

theorem u32_mod (a b c d : Nat) (hb : b < 256) (hc : c < 256) (hd : d < 256) :
    Spec.u32 a b c d % 2147483648 = Spec.u31 a b c d := by
  simp [Spec.u31, Spec.u32]; omega

/-- what it means for the mirror model's `Deserialize` to agree with the RFC's payload grammar -/
def Agrees (s : Spec.BodyRes) (m : Body ⊕ ErrKind) : Prop :=
  match s with
  | .ok bd => m = .inl bd
  | .bad _ => ∃ k, m = .inr k ∧ k ≠ .io

theorem deser_data (flags : Nat) (p : Bytes) : Agrees (Spec.body 0 flags p) (deserialize 0 flags p) := by
  simp only [Spec.body, deserialize, Gen.c_FrameData, Gen.c_FlagPadded, Gen.c_FlagEndStream, hasFlag_8, hasFlag_1,
    cutPadding_unpad, if_true]
  by_cases h : Spec.bitAt flags 3
  · simp only [h, if_true]
    cases Spec.unpad true p <;> simp [Agrees]
  · simp [h, Spec.unpad, Agrees]

theorem unpad_wf (pd : Bool) (p q : Bytes) (hp : WF p) (h : Spec.unpad pd p = some q) : WF q := by
  unfold Spec.unpad at h
  split at h
  · split at h
    · cases h
    · rename_i n rest
      split at h
      · cases h
        intro x hx
        exact hp x (List.mem_cons_of_mem _ (List.mem_of_mem_take hx))
      · cases h
  · cases h; exact hp

theorem deser_headers (flags : Nat) (p : Bytes) (hp : WF p) : Agrees (Spec.body 1 flags p) (deserialize 1 flags p) := by
  simp only [Spec.body, deserialize, Gen.c_FrameData, Gen.c_FrameHeaders, Gen.c_FlagPadded, Gen.c_FlagEndStream,
    Gen.c_FlagEndHeaders, Gen.c_FlagPriority, hasFlag_8, hasFlag_1, hasFlag_4, hasFlag_32, cutPadding_unpad]
  have hu : (if Spec.bitAt flags 3 = true then Spec.unpad true p else some p) = Spec.unpad (Spec.bitAt flags 3) p := by
    by_cases h : Spec.bitAt flags 3 <;> simp [h, Spec.unpad]
  simp only [Nat.reduceEqDiff, if_false, if_true, hu]
  cases hq : Spec.unpad (Spec.bitAt flags 3) p with
  | none => simp [Agrees]
  | some q =>
    have hw := unpad_wf _ _ _ hp hq
    by_cases h5 : Spec.bitAt flags 5
    · simp only [h5, if_true]
      rcases q with _ | ⟨a, _ | ⟨b, _ | ⟨c, _ | ⟨d, _ | ⟨w, frag⟩⟩⟩⟩⟩
      all_goals try (simp [Agrees]; done)
      have hb := hw b (by simp); have hc := hw c (by simp); have hd := hw d (by simp)
      simp [Agrees, be32_u31 a b c d _ hb hc hd]
    · simp [h5, Agrees]

theorem deser_priority (flags : Nat) (p : Bytes) (hp : WF p) : Agrees (Spec.body 2 flags p) (deserialize 2 flags p) := by
  simp only [Spec.body, deserialize, Gen.c_FrameData, Gen.c_FrameHeaders, Gen.c_FramePriority, Gen.c_FrameSizeError]
  rcases p with _ | ⟨a, _ | ⟨b, _ | ⟨c, _ | ⟨d, _ | ⟨w, _ | ⟨x, t⟩⟩⟩⟩⟩⟩
  all_goals try (simp [Agrees]; done)
  have hb := hp b (by simp); have hc := hp c (by simp); have hd := hp d (by simp)
  simp [Agrees, be32_u31 a b c d _ hb hc hd]

theorem deser_rst (flags : Nat) (p : Bytes) : Agrees (Spec.body 3 flags p) (deserialize 3 flags p) := by
  simp only [Spec.body, deserialize, Gen.c_FrameData, Gen.c_FrameHeaders, Gen.c_FramePriority, Gen.c_FrameResetStream,
    Gen.c_FrameSizeError]
  rcases p with _ | ⟨a, _ | ⟨b, _ | ⟨c, _ | ⟨d, _ | ⟨x, t⟩⟩⟩⟩⟩
  all_goals try (simp [Agrees]; done)
  simp [Agrees, be32_u32]

theorem deser_settings (flags : Nat) (p : Bytes) : Agrees (Spec.body 4 flags p) (deserialize 4 flags p) := by
  simp only [Spec.body, deserialize, Gen.c_FrameData, Gen.c_FrameHeaders, Gen.c_FramePriority, Gen.c_FrameResetStream,
    Gen.c_FrameSettings, Gen.c_FrameSizeError, Gen.c_FlagAck, hasFlag_1, settingsRead_spec]
  by_cases h6 : p.length % 6 = 0
  · by_cases ha : Spec.bitAt flags 0 = true ∧ p.length ≠ 0
    · have hpos : 0 < p.length := by omega
      simp [h6, ha, hpos, Agrees]
    · have : ¬ ((Spec.bitAt flags 0 && decide (p.length > 0)) = true) := by
        intro h; apply ha; simp at h; exact ⟨h.1, by omega⟩
      simp only [h6, ha, this]
      cases Spec.firstBad (Spec.pairsOf p) with
      | some c => simp [Agrees]
      | none => simp [Agrees, Spec.settingsVal, withPairs]
  · simp [h6, Agrees]

theorem deser_push (flags : Nat) (p : Bytes) (hp : WF p) : Agrees (Spec.body 5 flags p) (deserialize 5 flags p) := by
  simp only [Spec.body, deserialize, Gen.c_FrameData, Gen.c_FrameHeaders, Gen.c_FramePriority, Gen.c_FrameResetStream, Gen.c_FrameSettings, Gen.c_FramePushPromise, Gen.c_FramePing, Gen.c_FrameGoAway, Gen.c_FrameWindowUpdate, Gen.c_FrameContinuation, Gen.c_FrameSizeError, Gen.c_ProtocolError, Gen.c_FlagPadded, Gen.c_FlagEndHeaders, hasFlag_8, hasFlag_4, cutPadding_unpad]
  have hu : (if Spec.bitAt flags 3 = true then Spec.unpad true p else some p) = Spec.unpad (Spec.bitAt flags 3) p := by
    by_cases h : Spec.bitAt flags 3 <;> simp [h, Spec.unpad]
  simp only [Nat.reduceEqDiff, if_false, if_true, hu]
  cases hq : Spec.unpad (Spec.bitAt flags 3) p with
  | none => simp [Agrees]
  | some q =>
    have hw := unpad_wf _ _ _ hp hq
    rcases q with _ | ⟨a, _ | ⟨b, _ | ⟨c, _ | ⟨d, frag⟩⟩⟩⟩
    all_goals try (simp [Agrees]; done)
    have hb := hw b (by simp); have hc := hw c (by simp); have hd := hw d (by simp)
    simp [Agrees, be32_u31 a b c d _ hb hc hd]

theorem deser_ping (flags : Nat) (p : Bytes) : Agrees (Spec.body 6 flags p) (deserialize 6 flags p) := by
  simp only [Spec.body, deserialize, Gen.c_FrameData, Gen.c_FrameHeaders, Gen.c_FramePriority, Gen.c_FrameResetStream, Gen.c_FrameSettings, Gen.c_FramePushPromise, Gen.c_FramePing, Gen.c_FrameGoAway, Gen.c_FrameWindowUpdate, Gen.c_FrameContinuation, Gen.c_FrameSizeError, Gen.c_ProtocolError, Gen.c_FlagAck, hasFlag_1]
  by_cases h : p.length = 8 <;> simp [h, Agrees]

theorem deser_goaway (flags : Nat) (p : Bytes) (hp : WF p) : Agrees (Spec.body 7 flags p) (deserialize 7 flags p) := by
  simp only [Spec.body, deserialize, Gen.c_FrameData, Gen.c_FrameHeaders, Gen.c_FramePriority, Gen.c_FrameResetStream, Gen.c_FrameSettings, Gen.c_FramePushPromise, Gen.c_FramePing, Gen.c_FrameGoAway, Gen.c_FrameWindowUpdate, Gen.c_FrameContinuation, Gen.c_FrameSizeError, Gen.c_ProtocolError]
  rcases p with _ | ⟨a, _ | ⟨b, _ | ⟨c, _ | ⟨d, _ | ⟨e, _ | ⟨f, _ | ⟨g, _ | ⟨h, dbg⟩⟩⟩⟩⟩⟩⟩⟩
  all_goals try (simp [Agrees]; done)
  have hb := hp b (by simp); have hc := hp c (by simp); have hd := hp d (by simp)
  have hl : ¬ (dbg.length + 1 + 1 + 1 + 1 + 1 + 1 + 1 + 1 < 8) := by omega
  simp [Agrees, be32_u32, u32_mod a b c d hb hc hd, hl]

theorem deser_wu (flags : Nat) (p : Bytes) (hp : WF p) : Agrees (Spec.body 8 flags p) (deserialize 8 flags p) := by
  simp only [Spec.body, deserialize, Gen.c_FrameData, Gen.c_FrameHeaders, Gen.c_FramePriority, Gen.c_FrameResetStream, Gen.c_FrameSettings, Gen.c_FramePushPromise, Gen.c_FramePing, Gen.c_FrameGoAway, Gen.c_FrameWindowUpdate, Gen.c_FrameContinuation, Gen.c_FrameSizeError, Gen.c_ProtocolError]
  rcases p with _ | ⟨a, _ | ⟨b, _ | ⟨c, _ | ⟨d, _ | ⟨x, t⟩⟩⟩⟩⟩
  all_goals try (simp [Agrees]; done)
  have hb := hp b (by simp); have hc := hp c (by simp); have hd := hp d (by simp)
  simp [Agrees, be32_u31 a b c d _ hb hc hd]

theorem deser_cont (flags : Nat) (p : Bytes) : Agrees (Spec.body 9 flags p) (deserialize 9 flags p) := by
  simp [Spec.body, deserialize, Gen.c_FrameData, Gen.c_FrameHeaders, Gen.c_FramePriority, Gen.c_FrameResetStream, Gen.c_FrameSettings, Gen.c_FramePushPromise, Gen.c_FramePing, Gen.c_FrameGoAway, Gen.c_FrameWindowUpdate, Gen.c_FrameContinuation, Gen.c_FrameSizeError, Gen.c_ProtocolError, Gen.c_FlagEndHeaders, hasFlag_4, Agrees]

/-- every `Deserialize` reads a payload exactly as RFC 7540 §6 lays it out, and rejects what §6 rejects -/
theorem deser_agrees (typ flags : Nat) (p : Bytes) (hp : WF p) (ht : typ ≤ 9) :
    Agrees (Spec.body typ flags p) (deserialize typ flags p) := by
  have : typ = 0 ∨ typ = 1 ∨ typ = 2 ∨ typ = 3 ∨ typ = 4 ∨ typ = 5 ∨ typ = 6 ∨ typ = 7 ∨ typ = 8 ∨ typ = 9 := by omega
  rcases this with rfl | rfl | rfl | rfl | rfl | rfl | rfl | rfl | rfl | rfl
  · exact deser_data flags p
  · exact deser_headers flags p hp
  · exact deser_priority flags p hp
  · exact deser_rst flags p
  · exact deser_settings flags p
  · exact deser_push flags p hp
  · exact deser_ping flags p
  · exact deser_goaway flags p hp
  · exact deser_wu flags p hp
  · exact deser_cont flags p


/-- the mirror model's outcome `m` on input `b` is what the RFC grammar's outcome `s` demands -/
def Refines (b : Bytes) (s : Spec.Res) (m : ReadRes) : Prop :=
  match s with
  | .frame f rest => m = .ok f (9 + f.length) ∧ rest = b.drop (9 + f.length) ∧ 9 + f.length ≤ b.length
  | .ignored t l rest => m = .unknownType t (9 + l) ∧ rest = b.drop (9 + l) ∧ 9 + l ≤ b.length
  | .malformed _ => ∃ k n, m = .err k n ∧ k ≠ .io
  | .incomplete => (∃ n, m = .err .io n) ∨ (∃ t, m = .unknownType t b.length)

theorem read_refines (max : Nat) (b : Bytes) (hb : WF b) : Refines b (Spec.parse max b) (readFrame max b) := by
  rcases b with _ | ⟨l0, _ | ⟨l1, _ | ⟨l2, _ | ⟨t, _ | ⟨f, _ | ⟨s0, _ | ⟨s1, _ | ⟨s2, _ | ⟨s3, rest⟩⟩⟩⟩⟩⟩⟩⟩⟩
  all_goals try (simp [Spec.parse, Spec.parseHdr, readFrame, Refines]; done)
  have h1 := hb s1 (by simp); have h2 := hb s2 (by simp); have h3 := hb s3 (by simp)
  have hrest : WF rest := fun x hx => hb x (by simp [hx])
  have hlen : ¬ ((l0 :: l1 :: l2 :: t :: f :: s0 :: s1 :: s2 :: s3 :: rest).length < 9) := by simp
  have h24 : be24 (l0 :: l1 :: l2 :: t :: f :: s0 :: s1 :: s2 :: s3 :: rest) = (l0 * 256 + l1) * 256 + l2 := by
    simp [be24]; omega
  simp only [Spec.parse, Spec.parseHdr, readFrame, hlen, if_false, h24, List.getD_cons_succ, List.getD_cons_zero,
    List.drop_succ_cons, List.drop_zero, be32_u31 s0 s1 s2 s3 rest h1 h2 h3, Gen.c_FrameContinuation]
  generalize (l0 * 256 + l1) * 256 + l2 = len
  have hL : (l0 :: l1 :: l2 :: t :: f :: s0 :: s1 :: s2 :: s3 :: rest).length = rest.length + 9 := by simp
  by_cases hm : max ≠ 0 ∧ len > max
  · have : (decide (max ≠ 0) && decide (len > max)) = true := by simp [hm.1, hm.2]
    simp [hm, this, Refines]
  · have : ¬ ((decide (max ≠ 0) && decide (len > max)) = true) := by
      intro h; apply hm; simpa using h
    simp only [hm, this, if_false, Bool.false_eq_true]
    by_cases hr : rest.length < len
    · by_cases ht : t > 9
      · simp only [hr, ht, if_true, Refines, List.length_cons]
        right; exact ⟨t, by congr 1; omega⟩
      · simp [hr, ht, Refines]
    · by_cases ht : t > 9
      · simp only [hr, ht, if_true, if_false, Refines, List.length_cons]
        refine ⟨by congr 1; omega, ?_, by omega⟩
        have : 9 + len = len + 9 := by omega
        simp [this]
      · simp only [hr, ht, if_false]
        have hw : WF (rest.take len) := fun x hx => hrest x (List.mem_of_mem_take hx)
        have ha := deser_agrees t f (rest.take len) hw (by omega)
        unfold Agrees at ha
        cases hs : Spec.body t f (List.take len rest) with
        | ok bd =>
          rw [hs] at ha
          simp only [ha, Refines, List.length_cons]
          refine ⟨trivial, ?_, by omega⟩
          have : 9 + len = len + 9 := by omega
          simp [this]
        | bad c =>
          rw [hs] at ha
          obtain ⟨k, hk, hio⟩ := ha
          simp only [hk, Refines]
          exact ⟨k, _, rfl, hio⟩

end H2.Frame
