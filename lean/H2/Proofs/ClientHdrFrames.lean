import H2.Client.Model
/-!
# The frames of a request header block (property C18, client half; finding F33 repaired)

`writeRequest` hands its HEADERS frame to `writeHeaderBlock` (headers.go) with `frameStep`, the value `writeData` cuts
DATA at: the server's SETTINGS_MAX_FRAME_SIZE. In the model a queued `.headers` frame becomes, on the wire
(`wireFrames`), itself when its block fits and otherwise `.hfrag` (HEADERS without END_HEADERS) followed by `.cont`
frames; `blockLens` gives the payload lengths.
-/
namespace H2.Client

theorem cutLens_le (step fuel n : Nat) : ∀ l ∈ cutLens step fuel n, l ≤ step := by
  induction fuel generalizing n with
  | zero => intro l h; simp [cutLens] at h
  | succ k ih =>
    intro l h
    simp only [cutLens] at h
    split at h
    · cases h
    · rcases List.mem_cons.mp h with rfl | h
      · exact Nat.min_le_right _ _
      · exact ih _ l h

/-- no CONTINUATION frame is empty -/
theorem cutLens_pos (step : Nat) (hs : 0 < step) (fuel n : Nat) : ∀ l ∈ cutLens step fuel n, 0 < l := by
  induction fuel generalizing n with
  | zero => intro l h; simp [cutLens] at h
  | succ k ih =>
    intro l h
    simp only [cutLens] at h
    split at h
    · cases h
    · rename_i hn
      rcases List.mem_cons.mp h with rfl | h
      · have : n ≠ 0 := by simpa using hn
        omega
      · exact ih _ l h

theorem cutLens_sum (step : Nat) (hs : 0 < step) (fuel n : Nat) (hf : n ≤ fuel) : (cutLens step fuel n).sum = n := by
  induction fuel generalizing n with
  | zero => have : n = 0 := by omega
            subst this; rfl
  | succ k ih =>
    simp only [cutLens]
    split
    · rename_i hn
      have : n = 0 := by simpa using hn
      subst this; rfl
    · rename_i hn
      have : n ≠ 0 := by simpa using hn
      rw [List.sum_cons, ih (n - step) (by omega)]
      omega

/-- **no fragment is longer than the step** -/
theorem blockLens_le (step n : Nat) : ∀ l ∈ blockLens step n, l ≤ step := by
  intro l h
  simp only [blockLens] at h
  rcases List.mem_cons.mp h with rfl | h
  · exact Nat.min_le_right _ _
  · exact cutLens_le _ _ _ l h

/-- **the fragments add up to the block** -/
theorem blockLens_sum (step : Nat) (hs : 0 < step) (n : Nat) : (blockLens step n).sum = n := by
  simp only [blockLens, List.sum_cons]
  rw [cutLens_sum step hs n (n - step) (by omega)]
  omega

/-- a block that fits is one frame … -/
theorem blockLens_small (step n : Nat) (h : n ≤ step) : blockLens step n = [n] := by
  have h0 : n - step = 0 := by omega
  simp only [blockLens, h0]
  cases n with
  | zero => simp [cutLens]
  | succ k => simp [cutLens, Nat.min_eq_left h]

/-- … and one that does not is at least two: the first full, the others not empty -/
theorem blockLens_big (step : Nat) (hs : 0 < step) (n : Nat) (h : step < n) :
    ∃ l rest, blockLens step n = step :: l :: rest ∧ ∀ x ∈ l :: rest, 0 < x := by
  have hn : n - step ≠ 0 := by omega
  obtain ⟨k, hk⟩ : ∃ k, n = k + 1 := ⟨n - 1, by omega⟩
  refine ⟨min (n - step) step, cutLens step k (n - step - step), ?_, ?_⟩
  · simp only [blockLens, Nat.min_eq_right (Nat.le_of_lt h)]
    subst hk
    simp [cutLens, hn]
  · have := cutLens_pos step hs n (n - step)
    subst hk
    simpa [cutLens, hn] using this

theorem frameStep_pos (c : Conn) : 0 < frameStep c := by
  simp only [frameStep]
  split
  · decide
  · rename_i h
    simp only [Bool.or_eq_true, beq_iff_eq, decide_eq_true_eq, not_or] at h
    omega

/-- the step is the server's SETTINGS_MAX_FRAME_SIZE whenever that is a value a SETTINGS frame can carry -/
theorem frameStep_is_servers (c : Conn) (h1 : 0 < c.maxFrameSize) (h2 : c.maxFrameSize ≤ Gen.c_maxFrameSize) :
    frameStep c = c.maxFrameSize := by
  have : ¬ (c.maxFrameSize == 0 || decide (c.maxFrameSize > Gen.c_maxFrameSize)) = true := by
    simp only [Bool.or_eq_true, beq_iff_eq, decide_eq_true_eq, not_or]; omega
  simp [frameStep, this]

/-- … and otherwise the size every peer accepts; never more than what the server announced and never below 16384
when the server's value is in range -/
theorem frameStep_default (c : Conn) (h : c.maxFrameSize = 0 ∨ c.maxFrameSize > Gen.c_maxFrameSize) :
    frameStep c = Gen.c_defaultDataFrameSize := by
  have : (c.maxFrameSize == 0 || decide (c.maxFrameSize > Gen.c_maxFrameSize)) = true := by
    simp only [Bool.or_eq_true, beq_iff_eq, decide_eq_true_eq]; exact h
  simp [frameStep, this]

/-- DATA and header blocks are cut at the same value -/
theorem writeData_step (c : Conn) (sid n : Nat) (endS : Bool) :
    writeData c sid n endS =
      if n == 0 then (if endS then [.data sid 0 true] else []) else dataFrames sid (frameStep c) (n + 1) n endS := rfl

/-- the payload length of a wire-only header-block frame (a HEADERS frame that carries a whole block has no length in
this model: its block fits, see `headerFrames_small`) -/
def OutFrame.fragLen : OutFrame → Option Nat
  | .hfrag _ _ l => some l
  | .cont _ _ l _ => some l
  | _ => none

theorem fragLen_contFrames (sid : Nat) (fields : List (Bytes × Bytes)) (lens : List Nat) :
    (contFrames sid fields lens).filterMap OutFrame.fragLen = lens := by
  induction lens with
  | nil => rfl
  | cons l rest ih => simp [contFrames, OutFrame.fragLen, ih]

theorem headerFrames_small (sid : Nat) (es : Bool) (fields : List (Bytes × Bytes)) (step n : Nat) (h : n ≤ step) :
    headerFrames sid es fields (blockLens step n) = [.headers sid es fields] := by
  simp [blockLens_small step n h, headerFrames, contFrames]

/-- a block longer than the step: HEADERS without END_HEADERS (END_STREAM stays on it) with the first `step` octets, then
CONTINUATION frames whose payload lengths are the other fragment lengths -/
theorem headerFrames_big (sid : Nat) (es : Bool) (fields : List (Bytes × Bytes)) (step : Nat) (hs : 0 < step) (n : Nat)
    (h : step < n) :
    ∃ l rest, blockLens step n = step :: l :: rest ∧
      headerFrames sid es fields (blockLens step n) = .hfrag sid es step :: contFrames sid fields (l :: rest) := by
  obtain ⟨l, rest, e, _⟩ := blockLens_big step hs n h
  exact ⟨l, rest, e, by simp [e, headerFrames]⟩

theorem fragLen_headerFrames (sid : Nat) (es : Bool) (fields : List (Bytes × Bytes)) (lens : List Nat) :
    ∀ x ∈ (headerFrames sid es fields lens).filterMap OutFrame.fragLen, x ∈ lens := by
  cases lens with
  | nil => intro x h; simp [headerFrames] at h
  | cons l rest =>
    intro x h
    simp only [headerFrames, List.filterMap_cons, fragLen_contFrames] at h
    split at h
    · exact List.mem_cons_of_mem _ h
    · rename_i v hv
      rcases List.mem_cons.mp h with rfl | h
      · split at hv
        · simp [OutFrame.fragLen] at hv
        · simp only [OutFrame.fragLen, Option.some.injEq] at hv
          subst hv; exact List.mem_cons_self
      · exact List.mem_cons_of_mem _ h

theorem encodeHeaders_frameStep (c : Conn) (fields : List (Bytes × Bytes)) :
    frameStep (encodeHeaders c fields).1 = frameStep c := rfl

/-- **every wire-only header-block frame a step writes is at most `frameStep` octets**: `wireFrames` adds only fragments
cut by `blockLens` to what it is given -/
theorem wireFrames_frags (c : Conn) (fs : List OutFrame) :
    ∀ n ∈ (wireFrames c fs).filterMap OutFrame.fragLen, n ≤ frameStep c ∨ n ∈ fs.filterMap OutFrame.fragLen := by
  induction fs generalizing c with
  | nil => intro n h; simp [wireFrames] at h
  | cons f fs ih =>
    intro n h
    cases f with
    | headers sid es fields =>
      simp only [wireFrames, List.filterMap_append, List.mem_append] at h
      rcases h with h | h
      · exact Or.inl (blockLens_le _ _ n (fragLen_headerFrames _ _ _ _ n h))
      · rcases ih _ n h with h | h
        · exact Or.inl (by rw [encodeHeaders_frameStep] at h; exact h)
        · exact Or.inr (by simpa [OutFrame.fragLen] using h)
    | hfrag sid es l =>
      simp only [wireFrames, List.filterMap_cons, OutFrame.fragLen, List.mem_cons] at h ⊢
      rcases h with h | h
      · exact Or.inr (Or.inl h)
      · rcases ih _ n h with h | h
        · exact Or.inl h
        · exact Or.inr (Or.inr h)
    | cont sid eh l fields =>
      simp only [wireFrames, List.filterMap_cons, OutFrame.fragLen, List.mem_cons] at h ⊢
      rcases h with h | h
      · exact Or.inr (Or.inl h)
      · rcases ih _ n h with h | h
        · exact Or.inl h
        · exact Or.inr (Or.inr h)
    | data sid len es =>
      simp only [wireFrames, List.filterMap_cons, OutFrame.fragLen] at h ⊢
      exact ih _ n h
    | rst sid code =>
      simp only [wireFrames, List.filterMap_cons, OutFrame.fragLen] at h ⊢
      exact ih _ n h
    | settingsAck =>
      simp only [wireFrames, List.filterMap_cons, OutFrame.fragLen] at h ⊢
      exact ih _ n h
    | ping ack d =>
      simp only [wireFrames, List.filterMap_cons, OutFrame.fragLen] at h ⊢
      exact ih _ n h
    | windowUpdate sid inc =>
      simp only [wireFrames, List.filterMap_cons, OutFrame.fragLen] at h ⊢
      exact ih _ n h

/-- a list of frames without wire-only header-block frames -/
def NoFrag (l : List OutFrame) : Prop := ∀ f ∈ l, f.fragLen = none

theorem NoFrag.nil : NoFrag [] := by intro f h; cases h
theorem NoFrag.cons {f : OutFrame} {l : List OutFrame} (hf : f.fragLen = none) (hl : NoFrag l) : NoFrag (f :: l) := by
  intro g h
  rcases List.mem_cons.mp h with rfl | h
  · exact hf
  · exact hl g h
theorem NoFrag.append {a b : List OutFrame} (ha : NoFrag a) (hb : NoFrag b) : NoFrag (a ++ b) := by
  intro g h
  rcases List.mem_append.mp h with h | h
  · exact ha g h
  · exact hb g h
theorem NoFrag.filterMap {l : List OutFrame} (h : NoFrag l) : l.filterMap OutFrame.fragLen = [] :=
  List.filterMap_eq_nil_iff.mpr h

/-- the frames `writeData` makes are DATA frames -/
theorem dataFrames_noFrag (sid step fuel n : Nat) (e : Bool) : NoFrag (dataFrames sid step fuel n e) := by
  induction fuel generalizing n with
  | zero => exact NoFrag.nil
  | succ k ih =>
    simp only [dataFrames]
    split
    · exact NoFrag.cons rfl NoFrag.nil
    · exact NoFrag.cons rfl (ih _)

theorem writeData_noFrag (c : Conn) (sid n : Nat) (e : Bool) : NoFrag (writeData c sid n e) := by
  rw [writeData_step]
  repeat' split
  all_goals first
    | exact NoFrag.nil
    | exact NoFrag.cons rfl NoFrag.nil
    | exact dataFrames_noFrag _ _ _ _ _

theorem pair_snd_append {α : Type} (p : α × List OutFrame) (fs : List OutFrame) :
    (match p with | (a, b) => (a, fs ++ b)).2 = fs ++ p.2 := by cases p; rfl

theorem pair_snd_cons {α : Type} (p : α × List OutFrame) (f : OutFrame) :
    (match p with | (a, b) => (a, f :: b)).2 = f :: p.2 := by cases p; rfl

theorem sendPending_noFrag (fuel : Nat) (c : Conn) (sid : Nat) : NoFrag (sendPending fuel c sid).2 := by
  induction fuel generalizing c with
  | zero => exact NoFrag.nil
  | succ k ih =>
    simp only [sendPending]
    repeat' split
    all_goals first
      | exact NoFrag.nil
      | exact ih _
      | exact writeData_noFrag _ _ _ _
      | (rw [pair_snd_append]; exact NoFrag.append (writeData_noFrag _ _ _ _) (ih _))

/-- what `writeRequest` queues holds no wire-only frame: its header block is ONE queued HEADERS frame, cut where it is
written -/
theorem writeRequest_noFrag (c : Conn) (r : ReqSpec) : NoFrag (writeRequest c r).2 := by
  simp only [writeRequest]
  repeat' split
  all_goals first
    | exact NoFrag.nil
    | exact NoFrag.cons rfl NoFrag.nil
    | (rw [pair_snd_cons]; exact NoFrag.cons rfl (sendPending_noFrag _ _ _))

end H2.Client
