import H2.Proofs.MsgRefineLoop
/-!
# C20 — refinement across frames: a header block cut into HEADERS + CONTINUATION frames

`MsgRefineLoop.fieldLoop_refines` is about the octets of one frame. Here the carry-over (`prevHdr`, `fieldSeen`, the decoder
state) between the frames of one block: the frames fed one by one give the verdict and the `msgSt` the whole block gives in
one frame (with END_HEADERS).

* `decRun_append` — the decoder's pass over `x ++ y` is the pass over `x`, then the pass over `what was carried over ++ y`
  (with the fields in front, also when the pass fails: unlike C03's `loop_gen`/`frames_gen` the fields decoded before an
  error are kept, the verdict depends on them)
* `decRun_congr`  — the pass depends on `(blockStart, fieldsProcessed)` only through "no field of the block yet"
* `fieldLoop_split` — two pieces, the second one final: the verdict / state of the whole
* `feedBlock_whole` — any number of pieces
-/
namespace H2.Server.Lock
open H2.Server

/-- how the pass ended, the carried-over octets forgotten: `none` error, `some none` inside a representation,
`some (some dec)` at a representation boundary -/
def Tail.fin : Tail → Option (Option Hpack.DecState)
  | .clean d => some (some d)
  | .cut _ _ => some none
  | .bad => none

abbrev Coarse := List Hpack.Field × Option (Option Hpack.DecState)

def coarse (r : List Hpack.Field × Tail) : Coarse := (r.1, r.2.fin)

def prep (fs : List Hpack.Field) (c : Coarse) : Coarse := (fs ++ c.1, c.2)

theorem prep_nil (c : Coarse) : prep [] c = c := rfl

theorem prep_cons (f : Hpack.Field) (fs : List Hpack.Field) (c : Coarse) : prep (f :: fs) c = (f :: (prep fs c).1, (prep fs c).2) := rfl

theorem next_progress {dec dec' : Hpack.DecState} {bs : Bool} {fp : Nat} {b rest : Bytes} {f : Hpack.Field}
    (h : Hpack.Dec.next dec bs fp b = .ok dec' (some f) rest) : rest.length < b.length := by
  rw [Hpack.next_eq_step] at h
  exact Hpack.step_progress _ _ _ _ _ _ _ h

/-- two passes whose first decoder call gives the same result go the same way -/
theorem decRun_first (dec dec' : Hpack.DecState) (bs bs' : Bool) (fp : Nat) (c c' : Nat) (cs cs' : Bytes)
    (h : Hpack.Dec.next dec bs fp (c :: cs) = Hpack.Dec.next dec' bs' fp (c' :: cs'))
    (hrec : ∀ d rest, coarse (decRun (rest.length + 1) d bs (fp + 1) rest) = coarse (decRun (rest.length + 1) d bs' (fp + 1) rest)) :
    coarse (decRun ((c :: cs).length + 1) dec bs fp (c :: cs)) = coarse (decRun ((c' :: cs').length + 1) dec' bs' fp (c' :: cs')) := by
  simp only [List.length_cons, decRun]
  rw [← h]
  cases hd : Hpack.Dec.next dec bs fp (c :: cs) with
  | needMore => rfl
  | err => rfl
  | ok d fo rest =>
    cases fo with
    | none => rfl
    | some f =>
      have h1 := next_progress hd
      have h2 := next_progress (h ▸ hd)
      simp only [List.length_cons] at h1 h2
      simp only [coarse]
      rw [decRun_fuel (cs.length + 1) d bs (fp + 1) rest (by omega), decRun_fuel (cs'.length + 1) d bs' (fp + 1) rest (by omega)]
      have := hrec d rest
      simp only [coarse, Prod.mk.injEq] at this
      simp [this.1, this.2]

/-- the pass depends on `(blockStart, fieldsProcessed)` only through "no field of the block yet" -/
theorem decRun_congr (bs bs' : Bool) : ∀ (n : Nat) (fp fp' : Nat) (dec : Hpack.DecState) (b : Bytes),
    ((if bs then fp else fp + 1) = 0 ↔ (if bs' then fp' else fp' + 1) = 0) →
    coarse (decRun n dec bs fp b) = coarse (decRun n dec bs' fp' b) := by
  intro n
  induction n with
  | zero => intro fp fp' dec b _; rfl
  | succ n ih =>
    intro fp fp' dec b hK
    cases b with
    | nil => rfl
    | cons c cs =>
      simp only [decRun]
      have e : Hpack.Dec.next dec bs fp (c :: cs) = Hpack.Dec.next dec bs' fp' (c :: cs) := by
        rw [Hpack.next_eq_step, Hpack.next_eq_step]
        exact Hpack.step_congr bs bs' fp fp' hK _ dec _ (Nat.le_refl _)
      rw [← e]
      cases hd : Hpack.Dec.next dec bs fp (c :: cs) with
      | needMore => rfl
      | err => rfl
      | ok d fo rest =>
        cases fo with
        | none => rfl
        | some f =>
          have := ih (fp + 1) (fp' + 1) d rest (by cases bs <;> cases bs' <;> simp)
          simp only [coarse, Prod.mk.injEq] at this ⊢
          simp [this.1, this.2]

/-- **the pass over `x ++ y`** is the pass over `x` and then — from the decoder state it left, on the octets it handed back
followed by `y` — the pass over the rest; the fields decoded before an error included -/
theorem decRun_append (bs : Bool) (y : Bytes) : ∀ (n : Nat) (dec : Hpack.DecState) (fp : Nat) (x : Bytes), x.length ≤ n →
    coarse (decRun ((x ++ y).length + 1) dec bs fp (x ++ y)) =
      match decRun (x.length + 1) dec bs fp x with
      | (fs1, .bad) => (fs1, none)
      | (fs1, .clean d) => prep fs1 (coarse (decRun (y.length + 1) d bs (fp + fs1.length) y))
      | (fs1, .cut d r) => prep fs1 (coarse (decRun ((r ++ y).length + 1) d bs (fp + fs1.length) (r ++ y))) := by
  intro n
  induction n with
  | zero =>
    intro dec fp x hx
    have : x = [] := List.eq_nil_of_length_eq_zero (by omega)
    subst this
    simp [decRun, prep_nil]
  | succ n ih =>
    intro dec fp x hx
    cases x with
    | nil => simp [decRun, prep_nil]
    | cons c cs =>
      have hA := Hpack.step_append bs fp y (c :: cs).length dec (c :: cs) (Nat.le_refl _)
      have hrefl : ∀ (k : Nat) (d : Hpack.DecState) (rest : Bytes),
          coarse (decRun (rest.length + 1) d bs k rest) = coarse (decRun (rest.length + 1) d bs k rest) := fun _ _ _ => rfl
      cases hd : Hpack.Dec.next dec bs fp (c :: cs) with
      | err =>
        have hs : Hpack.Spec.step dec bs fp (c :: cs) = .err := by rw [← Hpack.next_eq_step]; exact hd
        simp only [hs] at hA
        have hd2 : Hpack.Dec.next dec bs fp (c :: (cs ++ y)) = .err := by rw [Hpack.next_eq_step]; exact hA
        simp only [List.cons_append, List.length_cons, decRun, hd, hd2]
        rfl
      | needMore =>
        have hs : Hpack.Spec.step dec bs fp (c :: cs) = .needMore := by rw [← Hpack.next_eq_step]; exact hd
        have hsk := Hpack.skip_step bs fp y (c :: cs).length dec (c :: cs) (Nat.le_refl _)
        have hsk0 := Hpack.skip_step bs fp [] (c :: cs).length dec (c :: cs) (Nat.le_refl _)
        simp only [List.append_nil, hs] at hsk0
        -- what is handed back is not empty
        cases hr : (Hpack.Dec.skipUpdates dec bs fp (c :: cs)).2 with
        | nil => rw [hr, Hpack.step_nil] at hsk0; cases hsk0
        | cons c' cs' =>
          have e1 : decRun ((c :: cs).length + 1) dec bs fp (c :: cs) =
              ([], .cut (Hpack.Dec.skipUpdates dec bs fp (c :: cs)).1 (c' :: cs')) := by
            simp only [decRun, hd, hr]
          rw [e1]
          simp only [prep_nil, List.length_nil, Nat.add_zero, List.cons_append]
          apply decRun_first _ _ bs bs fp _ _ _ _ _ (hrefl (fp + 1))
          rw [Hpack.next_eq_step, Hpack.next_eq_step]
          rw [hr] at hsk
          simpa using hsk
      | ok d fo rest =>
        have hs : Hpack.Spec.step dec bs fp (c :: cs) = .ok d fo rest := by rw [← Hpack.next_eq_step]; exact hd
        cases fo with
        | none =>
          simp only [hs] at hA
          obtain ⟨_, hA⟩ := hA
          have e1 : decRun ((c :: cs).length + 1) dec bs fp (c :: cs) = ([], .clean d) := by
            simp only [decRun, hd]
          rw [e1]
          simp only [prep_nil, List.length_nil, Nat.add_zero]
          cases y with
          | nil =>
            simp only [List.append_nil, List.length_cons, decRun, hd]
          | cons c' cs' =>
            simp only [List.cons_append]
            apply decRun_first _ _ bs bs fp _ _ _ _ _ (hrefl (fp + 1))
            rw [Hpack.next_eq_step, Hpack.next_eq_step]
            simpa using hA
        | some f =>
          simp only [hs] at hA
          have hd2 : Hpack.Dec.next dec bs fp (c :: (cs ++ y)) = .ok d (some f) (rest ++ y) := by
            rw [Hpack.next_eq_step]; simpa using hA
          have hlt := next_progress hd
          have hlt2 := next_progress hd2
          simp only [List.length_cons, List.length_append] at hlt hlt2 hx
          have e1 : decRun ((c :: cs).length + 1) dec bs fp (c :: cs) =
              (f :: (decRun (rest.length + 1) d bs (fp + 1) rest).1, (decRun (rest.length + 1) d bs (fp + 1) rest).2) := by
            simp only [List.length_cons, decRun, hd]
            rw [decRun_fuel (cs.length + 1) d bs (fp + 1) rest (by omega)]
          have e2 : decRun ((c :: cs ++ y).length + 1) dec bs fp (c :: cs ++ y) =
              (f :: (decRun ((rest ++ y).length + 1) d bs (fp + 1) (rest ++ y)).1,
               (decRun ((rest ++ y).length + 1) d bs (fp + 1) (rest ++ y)).2) := by
            simp only [List.cons_append, List.length_cons, decRun, hd2]
            rw [decRun_fuel ((cs ++ y).length + 1) d bs (fp + 1) (rest ++ y) (by simp only [List.length_append]; omega)]
          rw [e1, e2]
          have := ih d (fp + 1) rest (by omega)
          rcases hrun : decRun (rest.length + 1) d bs (fp + 1) rest with ⟨fs1, t1⟩
          rw [hrun] at this
          simp only [coarse] at this ⊢
          have harith : fp + (fs1.length + 1) = fp + 1 + fs1.length := by omega
          cases t1 with
          | bad =>
            simp only [Prod.mk.injEq] at this ⊢
            simpa [List.length_append] using this
          | clean d1 =>
            simp only [List.length_cons, harith, prep_cons]
            simp only [prep, Prod.mk.injEq] at this ⊢
            simpa [List.length_append] using this
          | cut d1 r1 =>
            simp only [List.length_cons, harith, prep_cons]
            simp only [prep, Prod.mk.injEq] at this ⊢
            simpa [List.length_append] using this

/-! ## the field loop across the frames of one block -/

theorem loop_append (cfg : Msg.Cfg) (m : Msg.St) (a b : List MsgSpec.Field) :
    Msg.loop cfg m (a ++ b) = match Msg.loop cfg m a with
      | .error e => .error e
      | .ok m' => Msg.loop cfg m' b := by
  induction a generalizing m with
  | nil => rfl
  | cons f fs ih =>
    simp only [List.cons_append, loop_cons]
    cases Msg.field cfg m f with
    | error e => rfl
    | ok m1 => exact ih m1

/-- the result of the loop on a frame that ends the block, seen through the projection: verdict, or the per-stream state and
the decoder state it leaves -/
def absFin (x : Srv × Strm × Option SErr) : Except Msg.Verdict (Msg.St × Hpack.DecState) :=
  match x.2.2 with
  | some e => .error (absErr e)
  | none => .ok (msgSt x.2.1, x.1.dec)

/-- the message model's account of a block that ends here: `Msg.loop` over the fields; octets left over or undecodable are
COMPRESSION_ERROR -/
def specC (cfg : Server.Cfg) (m : Msg.St) (c : Coarse) : Except Msg.Verdict (Msg.St × Hpack.DecState) :=
  match Msg.loop (cfgOf cfg) m (c.1.map kv) with
  | .error v => .error v
  | .ok m' =>
    match c.2 with
    | some (some d) => .ok (m', d)
    | _ => .error (.goAway Gen.c_CompressionError)

theorem specC_prep (cfg : Server.Cfg) (m : Msg.St) (fs : List Hpack.Field) (c : Coarse) :
    specC cfg m (prep fs c) = match Msg.loop (cfgOf cfg) m (fs.map kv) with
      | .error v => .error v
      | .ok m' => specC cfg m' c := by
  simp only [specC, prep, List.map_append, loop_append]
  cases Msg.loop (cfgOf cfg) m (fs.map kv) <;> rfl

/-- Part 1 for a frame with END_HEADERS, the decoder state included -/
theorem fieldLoop_final (fuel : Nat) (s : Srv) (st : Strm) (bs : Bool) (fp : Nat) (b : Bytes) (hcl : 0 ≤ st.contentLength) :
    absFin (fieldLoop fuel s st bs true fp b) = specC s.cfg (msgSt st) (coarse (decRun fuel s.dec bs fp b)) := by
  have h1 := fieldLoop_refines fuel s st bs true fp b hcl
  simp only [absOut, loopSpec] at h1
  simp only [absFin, specC, coarse]
  cases hl : Msg.loop (cfgOf s.cfg) (msgSt st) ((decRun fuel s.dec bs fp b).1.map kv) with
  | error v =>
    simp only [hl] at h1 ⊢
    cases he : (fieldLoop fuel s st bs true fp b).2.2 with
    | none => simp [he] at h1
    | some e => simpa [he] using h1
  | ok m' =>
    simp only [hl] at h1 ⊢
    cases he : (fieldLoop fuel s st bs true fp b).2.2 with
    | some e =>
      simp only [he] at h1 ⊢
      cases ht : (decRun fuel s.dec bs fp b).2 with
      | clean d => simp [ht, tailVerdict] at h1
      | cut d r => simp only [ht, tailVerdict] at h1 ⊢; simpa [Tail.fin, absErr] using h1
      | bad => simp only [ht, tailVerdict] at h1 ⊢; simpa [Tail.fin, absErr] using h1
    | none =>
      have h2 := fieldLoop_state fuel s st bs true fp b he
      simp only [he] at h1 ⊢
      cases ht : (decRun fuel s.dec bs fp b).2 with
      | clean d =>
        simp only [ht, tailVerdict] at h1 h2 ⊢
        simp only [Tail.fin]
        rw [h2.1]
        simpa using h1
      | cut d r => simp [ht] at h2
      | bad => simp [ht] at h2

/-- the octets carried over to the next frame stay within `maxHeldHeaderFactor` times the list limit (otherwise the server
gives up on the block with GOAWAY(ENHANCE_YOUR_CALM): F68 — a verdict the whole block in one frame cannot get) -/
def HeldOK (cfg : Server.Cfg) (run : List Hpack.Field × Tail) : Prop :=
  ∀ d r, run.2 = .cut d r → heldTooLong cfg r = false

/-- **two pieces**: the octets `x` in a frame without END_HEADERS, then — on what was carried over — `y` in a frame with
END_HEADERS, against `x ++ y` in one frame with END_HEADERS: same verdict; when accepted, same `msgSt` and decoder state -/
theorem fieldLoop_split (s : Srv) (st : Strm) (x y : Bytes) (hg : st.Good) (hp : st.prevHdr = [])
    (hh : HeldOK s.cfg (decRun (x.length + 1) s.dec (!st.fieldSeen) 0 x)) :
    absFin (fieldLoop ((x ++ y).length + 1) s st (!st.fieldSeen) true 0 (x ++ y)) =
      match (fieldLoop (x.length + 1) s st (!st.fieldSeen) false 0 x).2.2 with
      | some e => .error (absErr e)
      | none =>
        let s1 := (fieldLoop (x.length + 1) s st (!st.fieldSeen) false 0 x).1
        let st1 := (fieldLoop (x.length + 1) s st (!st.fieldSeen) false 0 x).2.1
        absFin (fieldLoop ((st1.prevHdr ++ y).length + 1) s1 { st1 with prevHdr := [] } (!st1.fieldSeen) true 0 (st1.prevHdr ++ y)) := by
  rw [fieldLoop_final _ s st _ 0 (x ++ y) hg.1]
  have hA := decRun_append (!st.fieldSeen) y x.length s.dec 0 x (Nat.le_refl _)
  rw [hA]
  have h1 := fieldLoop_refines (x.length + 1) s st (!st.fieldSeen) false 0 x hg.1
  obtain ⟨_, k2, k3⟩ := fieldLoop_ctl (x.length + 1) s st (!st.fieldSeen) false 0 x
  have hst := fieldLoop_state (x.length + 1) s st (!st.fieldSeen) false 0 x
  have hgood := k2 hg
  clear hA k2
  rcases hrun : decRun (x.length + 1) s.dec (!st.fieldSeen) 0 x with ⟨fs1, t1⟩
  rw [hrun] at hh
  simp only [hrun, absOut, loopSpec] at h1 hst
  generalize fieldLoop (x.length + 1) s st (!st.fieldSeen) false 0 x = out1 at *
  obtain ⟨s1, st1, e1⟩ := out1
  simp only at h1 hst hgood k3 ⊢
  cases e1 with
  | some e =>
    simp only at h1 ⊢
    cases hl : Msg.loop (cfgOf s.cfg) (msgSt st) (fs1.map kv) with
    | error v =>
      simp only [hl] at h1
      injection h1 with h1
      cases t1 with
      | bad => simp only [specC, hl]; rw [h1]
      | clean d => simp only [specC_prep, hl]; rw [h1]
      | cut d r => simp only [specC_prep, hl]; rw [h1]
    | ok m1 =>
      simp only [hl] at h1
      cases t1 with
      | clean d => simp [tailVerdict] at h1
      | bad =>
        simp only [tailVerdict] at h1
        simp only [specC, hl]
        injection h1 with h1
        rw [h1]; rfl
      | cut d r =>
        have := hh d r rfl
        simp [tailVerdict, this] at h1
  | none =>
    have h2 := hst rfl
    simp only at h1 ⊢
    have hcongr : ∀ (d : Hpack.DecState) (z : Bytes),
        coarse (decRun (z.length + 1) d (!st.fieldSeen) (0 + fs1.length) z) =
        coarse (decRun (z.length + 1) d (!(st.fieldSeen || !fs1.isEmpty)) 0 z) := by
      intro d z
      apply decRun_congr
      cases st.fieldSeen <;> cases fs1 <;> simp
    have hf := fieldLoop_final ((st1.prevHdr ++ y).length + 1) s1 { st1 with prevHdr := [] } (!st1.fieldSeen) 0 (st1.prevHdr ++ y) hgood.1
    have hm0 : msgSt { st1 with prevHdr := [] } = msgSt st1 := rfl
    rw [hf, hm0, k3]
    cases hl : Msg.loop (cfgOf s.cfg) (msgSt st) (fs1.map kv) with
    | error v => simp [hl] at h1
    | ok m1 =>
      simp only [hl] at h1
      cases t1 with
      | bad => simp [tailVerdict] at h1
      | clean d =>
        simp only [tailVerdict] at h1 h2 ⊢
        obtain ⟨e1, e2, e3⟩ := h2
        simp only [specC_prep, hl]
        injection h1 with h1
        rw [h1, e1, e2, hp, e3]
        simp only [List.nil_append]
        rw [hcongr]
      | cut d r =>
        simp only [tailVerdict] at h1 h2 ⊢
        obtain ⟨_, hht, e1, e2, e3⟩ := h2
        simp only [specC_prep, hl]
        simp only [hht, Bool.false_eq_true, if_false] at h1
        injection h1 with h1
        rw [h1, e1, e2, e3]
        rw [hcongr]

end H2.Server.Lock

namespace H2.Server.Lock
open H2.Server

/-! ## any number of pieces -/

/-- the loop of `handleHeaderFrame` over the frames of one block (after the frame-level preamble): every piece is decoded
together with what the previous piece left over (`prevHdr`), `blockStart` is `!fieldSeen`; END_HEADERS on the last piece -/
def feedBlock (s : Srv) (st : Strm) : List Bytes → Srv × Strm × Option SErr
  | [] => (s, st, none)
  | [p] => fieldLoop ((st.prevHdr ++ p).length + 1) s { st with prevHdr := [] } (!st.fieldSeen) true 0 (st.prevHdr ++ p)
  | p :: q :: ps =>
    match (fieldLoop ((st.prevHdr ++ p).length + 1) s { st with prevHdr := [] } (!st.fieldSeen) false 0 (st.prevHdr ++ p)).2.2 with
    | none =>
      feedBlock (fieldLoop ((st.prevHdr ++ p).length + 1) s { st with prevHdr := [] } (!st.fieldSeen) false 0 (st.prevHdr ++ p)).1
        (fieldLoop ((st.prevHdr ++ p).length + 1) s { st with prevHdr := [] } (!st.fieldSeen) false 0 (st.prevHdr ++ p)).2.1 (q :: ps)
    | some _ => fieldLoop ((st.prevHdr ++ p).length + 1) s { st with prevHdr := [] } (!st.fieldSeen) false 0 (st.prevHdr ++ p)

/-- at every cut the octets carried over stay within the bound of F68 (`HeldOK`) -/
def cutsOK (s : Srv) (st : Strm) : List Bytes → Prop
  | [] => True
  | [_] => True
  | p :: q :: ps =>
    HeldOK s.cfg (decRun ((st.prevHdr ++ p).length + 1) s.dec (!st.fieldSeen) 0 (st.prevHdr ++ p)) ∧
    ((fieldLoop ((st.prevHdr ++ p).length + 1) s { st with prevHdr := [] } (!st.fieldSeen) false 0 (st.prevHdr ++ p)).2.2 = none →
      cutsOK (fieldLoop ((st.prevHdr ++ p).length + 1) s { st with prevHdr := [] } (!st.fieldSeen) false 0 (st.prevHdr ++ p)).1
        (fieldLoop ((st.prevHdr ++ p).length + 1) s { st with prevHdr := [] } (!st.fieldSeen) false 0 (st.prevHdr ++ p)).2.1 (q :: ps))

/-- **across frames**: a block cut into any number of pieces (HEADERS, CONTINUATION, …; empty pieces allowed; cuts anywhere),
fed piece by piece through the `prevHdr` carry-over, ends with the verdict of the whole block in one frame — and, when it is
accepted, with the same `msgSt` and the same decoder state -/
theorem feedBlock_whole : ∀ (ps : List Bytes) (s : Srv) (st : Strm), ps ≠ [] → st.Good → cutsOK s st ps →
    absFin (feedBlock s st ps) = absFin (feedBlock s st [ps.flatten]) := by
  intro ps
  induction ps with
  | nil => intro s st h; exact absurd rfl h
  | cons p ps ih =>
    intro s st _ hg hc
    cases ps with
    | nil => simp [feedBlock]
    | cons q qs =>
      have hg0 : Strm.Good { st with prevHdr := [] } := hg
      have hsp := fieldLoop_split s { st with prevHdr := [] } (st.prevHdr ++ p) (q :: qs).flatten hg0 rfl hc.1
      have hflat : st.prevHdr ++ (p :: q :: qs).flatten = (st.prevHdr ++ p) ++ (q :: qs).flatten := by simp
      have k2 := (fieldLoop_ctl ((st.prevHdr ++ p).length + 1) s { st with prevHdr := [] } (!st.fieldSeen) false 0 (st.prevHdr ++ p)).2.1 hg0
      simp only [feedBlock]
      rw [hflat, hsp]
      cases he : (fieldLoop ((st.prevHdr ++ p).length + 1) s { st with prevHdr := [] } (!st.fieldSeen) false 0 (st.prevHdr ++ p)).2.2 with
      | some e => simp only [absFin, he]
      | none =>
        simp only
        have := ih _ _ (by simp) k2 (hc.2 he)
        rw [this]
        simp [feedBlock]

/-- with the list limit switched off nothing is ever too long to be carried over -/
theorem heldOK_unlimited (cfg : Server.Cfg) (h : cfg.maxHeaderList ≤ 0) (run : List Hpack.Field × Tail) : HeldOK cfg run := by
  intro d r _
  have : ¬ cfg.maxHeaderList > 0 := by omega
  simp [heldTooLong, this]

end H2.Server.Lock
