import H2.Proofs.MsgRefineSplit
/-!
# C20 — refinement, the decision at END_STREAM: `dispatchOrSend` against the message model's last clause

* `hhf_headers`, `hhf_cont`, `hhf_trailers` — `handleHeaderFrame` IS `fieldLoop` on `prevHdr ++ fragment` (request block,
  CONTINUATION, trailer block with END_STREAM): what ties `MsgRefineLoop` / `MsgRefineSplit` to the frame level
* `dispatchOrSend_decision` — at END_STREAM: dispatch record (with `Msg.St.view`) iff `lastClause`, else RST_STREAM(PROTOCOL_ERROR)
* `knownStream_accepted`, `knownStream_open` — the loop body of the stream loop around an accepted frame
* `handleFrame_request_block` — `handleFrame` on a HEADERS frame with END_HEADERS for a fresh stream
* `request_one_frame_accepted` / `request_one_frame_refused` — a whole request in one HEADERS frame (END_HEADERS|END_STREAM)
  through `knownStream`: dispatched iff `Msg.validate hs [] 0 = .dispatch`, with `Msg.requestView`; refused with the verdict of
  `Msg.validate`
-/
namespace H2.Server.Lock
open H2.Server H2.Frame

theorem hhf_headers (s : Srv) (st : Strm) (fr : Frame) (es eh : Bool) (prio : Option (Nat × Nat)) (frag : Bytes)
    (hb : fr.body = .headers es eh prio frag) (hfin : st.headersFinished = false)
    (hprio : ∀ dep w, prio = some (dep, w) → (dep == st.id) = false) :
    handleHeaderFrame s st fr =
      fieldLoop ((st.prevHdr ++ frag).length + 1) s { st with fieldSeen := false, prevHdr := [] } true eh 0 (st.prevHdr ++ frag) := by
  cases prio with
  | none => simp [handleHeaderFrame, hb, hfin]
  | some p =>
    obtain ⟨dep, w⟩ := p
    have := hprio dep w rfl
    simp [handleHeaderFrame, hb, hfin, this]

theorem hhf_cont (s : Srv) (st : Strm) (fr : Frame) (eh : Bool) (frag : Bytes)
    (hb : fr.body = .continuation eh frag) (hfin : st.headersFinished = false) :
    handleHeaderFrame s st fr =
      fieldLoop ((st.prevHdr ++ frag).length + 1) s { st with prevHdr := [] } (!st.fieldSeen) eh 0 (st.prevHdr ++ frag) := by
  simp [handleHeaderFrame, hb, hfin]

theorem hhf_trailers (s : Srv) (st : Strm) (fr : Frame) (es eh : Bool) (prio : Option (Nat × Nat)) (frag : Bytes)
    (hb : fr.body = .headers es eh prio frag) (hfin : st.headersFinished = true)
    (hes : Frame.hasFlag fr.flags Gen.c_FlagEndStream = true) (heh : Frame.hasFlag fr.flags Gen.c_FlagEndHeaders = true)
    (hprio : ∀ dep w, prio = some (dep, w) → (dep == st.id) = false) :
    handleHeaderFrame s st fr =
      fieldLoop ((st.prevHdr ++ frag).length + 1) s { st with regularSeen := true, fieldSeen := false, prevHdr := [] } true eh 0 (st.prevHdr ++ frag) := by
  cases prio with
  | none => simp [handleHeaderFrame, hb, hfin, hes, heh]
  | some p =>
    obtain ⟨dep, w⟩ := p
    have := hprio dep w rfl
    simp [handleHeaderFrame, hb, hfin, this, hes, heh]

/-- the message model's request view as a dispatch record of the full model -/
def dispOut (sid : Nat) (v : MsgSpec.View) (body : Digest) : Out := .dispatch sid v.method v.path v.authority v.fields body

theorem reqView_msg (st : Strm) (hu : st.uri = st.path) : reqView st = dispOut st.id (msgSt st).view st.body := by
  simp only [reqView, dispOut, Msg.St.view, msgSt, viewFields, hu]
  cases st.contentType <;> cases st.userAgent <;> rfl

/-- a request that is complete but for the decision: END_STREAM received, header block(s) finished, not handed over yet -/
def AtEnd (st : Strm) : Prop := st.state = .halfClosed ∧ st.headersFinished = true ∧ st.responded = false

/-- the message model's last clause (`Msg.validate` after `Msg.message`) on the state `m` with `n` DATA octets received -/
def lastClause (m : Msg.St) (n : Nat) : Msg.Verdict := if m.hasCL ∧ m.cl ≠ n then Msg.eProtocol else .dispatch

/-- **decision**: at END_STREAM `dispatchOrSend` hands the request over iff the message model's last clause says so, with the
message model's request view; otherwise it answers RST_STREAM(PROTOCOL_ERROR) — nothing else is sent -/
theorem dispatchOrSend_decision (r : R) (uid : Nat) (st : Strm) (he : AtEnd st) (hg : st.Good) :
    (dispatchOrSend r uid st).out = r.out ++
      [match lastClause (msgSt st) st.recvBody with
       | .dispatch => dispOut st.id (msgSt st).view st.body
       | _ => .rst st.id Gen.c_ProtocolError] := by
  obtain ⟨h1, h2, h3⟩ := he
  have hcl : ((st.recvBody : Int) != st.contentLength) = decide (st.contentLength.toNat ≠ st.recvBody) := by
    have := hg.1
    by_cases h : (st.recvBody : Int) = st.contentLength
    · have : st.contentLength.toNat = st.recvBody := by omega
      simp [h, this]
    · have : st.contentLength.toNat ≠ st.recvBody := by omega
      simp [h, this]
  cases hh : st.hasCL
  · simp [dispatchOrSend, h1, h2, h3, hh, lastClause, msgSt, dispatch_out, reqView_msg st hg.2]
  · by_cases hc : st.contentLength.toNat = st.recvBody
    · simp [dispatchOrSend, h1, h2, h3, hh, lastClause, msgSt, hcl, hc, dispatch_out, reqView_msg st hg.2]
    · simp [dispatchOrSend, h1, h2, h3, hh, lastClause, msgSt, hcl, hc, Msg.eProtocol, writeReset, R.emit, R.updStrm]


theorem handleState_uid (fr : Frame) (x : Strm) : (handleState fr x).uid = x.uid := by
  simp only [handleState]
  repeat' split
  all_goals rfl

theorem closeIfClosed_out (r : R) (uid : Nat) : (closeIfClosed r uid).out = r.out := by
  simp only [closeIfClosed, closeStream, releaseStream]
  repeat' split
  all_goals rfl


theorem knownStream_accepted (r : R) (uid : Nat) (fr : Frame) (st1 : Strm) (hp : headersPrelude r fr = (r, true))
    (hok : (handleFrame r uid fr).2 = none) (hg1 : (handleFrame r uid fr).1.getStrm uid = some st1) :
    knownStream r uid fr false =
      closeIfClosed (dispatchOrSend ((handleFrame r uid fr).1.updStrm uid (handleState fr)) uid (handleState fr st1)) uid := by
  have hg2 := getStrm_upd _ uid (handleState fr) st1 (fun x hx => by rw [handleState_uid]; exact hx) hg1
  simp only [knownStream, hp, hok, onFrameError, Bool.not_true, Bool.false_eq_true, if_false, hg2, Bool.false_and]

/-- a frame that is accepted and leaves the stream open (request not complete): the loop body only records it -/
theorem knownStream_open (r : R) (uid : Nat) (fr : Frame) (st1 : Strm) (hp : headersPrelude r fr = (r, true))
    (hok : (handleFrame r uid fr).2 = none) (hg1 : (handleFrame r uid fr).1.getStrm uid = some st1)
    (ho : (handleState fr st1).state = .open) (hr : (handleState fr st1).responded = false) :
    knownStream r uid fr false = (handleFrame r uid fr).1.updStrm uid (handleState fr) := by
  have hg2 := getStrm_upd _ uid (handleState fr) st1 (fun x hx => by rw [handleState_uid]; exact hx) hg1
  rw [knownStream_accepted r uid fr st1 hp hok hg1]
  have : dispatchOrSend ((handleFrame r uid fr).1.updStrm uid (handleState fr)) uid (handleState fr st1) =
      (handleFrame r uid fr).1.updStrm uid (handleState fr) := by
    simp [dispatchOrSend, ho, hr]
  rw [this]
  simp [closeIfClosed, hg2, ho]

/-- a stream as `unknownStream` has just created it -/
structure Fresh (st : Strm) : Prop where
  state : st.state = .idle
  fin : st.headersFinished = false
  resp : st.responded = false
  prev : st.prevHdr = []
  msg : msgSt st = Msg.St.init
  cl : st.contentLength = 0
  uri : st.uri = []
  recv : st.recvBody = 0

theorem handleFrame_request_block (r : R) (uid : Nat) (fr : Frame) (st : Strm) (es : Bool) (prio : Option (Nat × Nat)) (frag : Bytes)
    (hg : r.getStrm uid = some st) (hf : Fresh st) (ht : fr.typ = Gen.c_FrameHeaders)
    (hb : fr.body = .headers es true prio frag) (heh : Frame.hasFlag fr.flags Gen.c_FlagEndHeaders = true)
    (hprio : ∀ dep w, prio = some (dep, w) → (dep == st.id) = false)
    (s1 : Srv) (st1 : Strm) (e1 : Option SErr)
    (hX : fieldLoop (frag.length + 1) r.s { st with fieldSeen := false, prevHdr := [] } true true 0 frag = (s1, st1, e1)) :
    handleFrame r uid fr =
      match e1 with
      | some e => (({ r with s := s1 } : R).updStrm uid fun _ => st1, some e)
      | none => ((({ r with s := s1 } : R).updStrm uid fun _ => st1).updStrm uid fun s => { s with headersFinished := true },
                 validatePseudo st1) := by
  have hh := hhf_headers r.s st fr es true prio frag hb hf.fin hprio
  rw [hf.prev] at hh
  simp only [List.nil_append] at hh
  rw [hX] at hh
  have e0 : (Gen.c_FrameHeaders == Gen.c_FrameHeaders) = true := rfl
  have hrank : (decide (StState.idle.rank ≥ StState.halfClosed.rank)) = false := by decide
  have e2 : (Gen.c_FrameHeaders != Gen.c_FrameHeaders && Gen.c_FrameHeaders != Gen.c_FramePriority) = false := rfl
  have hprev : e1 = none → st1.prevHdr = [] := by
    intro he
    have h2 := fieldLoop_state (frag.length + 1) r.s { st with fieldSeen := false, prevHdr := [] } true true 0 frag
      (by rw [hX]; exact he)
    rw [hX] at h2
    cases ht : (decRun (frag.length + 1) r.s.dec true 0 frag).2 with
    | clean d => simp only [ht] at h2; exact h2.2.1
    | cut d rr => simp [ht] at h2
    | bad => simp [ht] at h2
  simp only [handleFrame, hg, verifyState, hf.state, ht, e0, hh, heh, e2, Bool.true_or, if_true, hrank, Bool.false_and,
    Bool.false_eq_true, if_false]
  cases e1 with
  | some e => rfl
  | none =>
    have := hprev rfl
    simp [this]

theorem validatePseudo_msg (st : Strm) :
    validatePseudo st = if Msg.pseudoOK (msgSt st) then none else some (.reset Gen.c_ProtocolError) := by
  have key : ∀ (a b c d : Bool) (x : SErr),
      (if (!a || !b || !c) = true then some x else if d = true then some x else none) =
      if (a && b && c && !d) = true then none else some x := by
    intro a b c d x
    cases a <;> cases b <;> cases c <;> cases d <;> rfl
  simp only [validatePseudo, Msg.pseudoOK, msgSt]
  exact key _ _ _ _ _

theorem handleState_eq (fr : Frame) (x : Strm) : handleState fr x = { x with state := (handleState fr x).state } := by
  simp only [handleState]
  repeat' split
  all_goals rfl

/-- the message model on a request without body and trailers, once its header list is through the loop -/
theorem validate_no_body (cfg : Msg.Cfg) (hs : List MsgSpec.Field) (m : Msg.St) (hl : Msg.loop cfg Msg.St.init hs = .ok m)
    (hps : Msg.pseudoOK m = true) :
    Msg.validate cfg hs [] 0 = lastClause m 0 ∧ (lastClause m 0 = .dispatch → Msg.requestView cfg hs [] 0 = some m.view) := by
  have hb : ¬ (0 < cfg.maxBody ∧ cfg.maxBody < 0) := by omega
  simp only [Msg.validate, Msg.requestView, Msg.message, hl, hps, Bool.not_true, Bool.false_eq_true, if_false, hb, Msg.loop,
    lastClause, Msg.startTrailers]
  refine ⟨trivial, ?_⟩
  intro h
  split
  · rename_i hc; simp [hc] at h; cases h
  · rfl

/-- **a whole request in one HEADERS frame (END_HEADERS | END_STREAM), accepted by the loop and the pseudo-header test**: the
stream loop's body ends with exactly one more output — the dispatch record carrying the message model's request view when
`Msg.validate` says dispatch, RST_STREAM(PROTOCOL_ERROR) when it does not -/
theorem request_one_frame_accepted (r : R) (uid : Nat) (fr : Frame) (st : Strm) (prio : Option (Nat × Nat)) (frag : Bytes)
    (hg : r.getStrm uid = some st) (hf : Fresh st) (ht : fr.typ = Gen.c_FrameHeaders)
    (hb : fr.body = .headers true true prio frag) (heh : Frame.hasFlag fr.flags Gen.c_FlagEndHeaders = true)
    (hes : Frame.hasFlag fr.flags Gen.c_FlagEndStream = true)
    (hprio : ∀ dep w, prio = some (dep, w) → (dep == st.id) = false)
    (hp : headersPrelude r fr = (r, true))
    (fs : List Hpack.Field) (d : Hpack.DecState) (hdec : decRun (frag.length + 1) r.s.dec true 0 frag = (fs, .clean d))
    (m : Msg.St) (hl : Msg.loop (cfgOf r.s.cfg) Msg.St.init (fs.map kv) = .ok m) (hps : Msg.pseudoOK m = true) :
    (knownStream r uid fr false).out = r.out ++
      [match Msg.validate (cfgOf r.s.cfg) (fs.map kv) [] 0 with
       | .dispatch => dispOut st.id m.view st.body
       | _ => .rst st.id Gen.c_ProtocolError] ∧
    (Msg.validate (cfgOf r.s.cfg) (fs.map kv) [] 0 = .dispatch → Msg.requestView (cfgOf r.s.cfg) (fs.map kv) [] 0 = some m.view) := by
  have hv := validate_no_body (cfgOf r.s.cfg) (fs.map kv) m hl hps
  refine ⟨?_, fun h => hv.2 (hv.1 ▸ h)⟩
  rw [hv.1]
  have hu : st.uid = uid := by
    have := List.find?_some hg
    simpa using this
  have hgood0 : Strm.Good { st with fieldSeen := false, prevHdr := [] } := by
    refine ⟨?_, ?_⟩
    · show 0 ≤ st.contentLength
      rw [hf.cl]; exact Int.le_refl 0
    · show st.uri = st.path
      have : (msgSt st).path = [] := by rw [hf.msg]; rfl
      rw [hf.uri]; exact this.symm
  have hfin := fieldLoop_final (frag.length + 1) r.s { st with fieldSeen := false, prevHdr := [] } true 0 frag hgood0.1
  obtain ⟨kc, kg, _⟩ := fieldLoop_ctl (frag.length + 1) r.s { st with fieldSeen := false, prevHdr := [] } true true 0 frag
  have kk := fieldLoop_keeps (frag.length + 1) r.s { st with fieldSeen := false, prevHdr := [] } true true 0 frag
  have hm0 : msgSt { st with fieldSeen := false, prevHdr := [] } = Msg.St.init := hf.msg
  rw [hdec, hm0] at hfin
  simp only [specC, coarse, hl, Tail.fin] at hfin
  rcases hX : fieldLoop (frag.length + 1) r.s { st with fieldSeen := false, prevHdr := [] } true true 0 frag with ⟨s1, st1, e1⟩
  rw [hX] at hfin kc kg kk
  have hgood1 := kg hgood0
  simp only at kc hgood1 kk
  have hF := handleFrame_request_block r uid fr st true prio frag hg hf ht hb heh hprio s1 st1 e1 hX
  cases e1 with
  | some e => simp [absFin] at hfin
  | none =>
    simp only [absFin, Except.ok.injEq, Prod.mk.injEq] at hfin
    simp only at hF
    have hvp : validatePseudo st1 = none := by rw [validatePseudo_msg, hfin.1, hps]; rfl
    rw [hvp] at hF
    have huid1 : st1.uid = uid := by
      have := congrArg Ctl.uid kc
      simp only [Strm.ctl] at this
      rw [this]; exact hu
    have g0 : ({ r with s := s1 } : R).getStrm uid = some st := by
      simp only [R.getStrm] at hg ⊢
      rw [kk.1]; exact hg
    have g1 := getStrm_upd ({ r with s := s1 } : R) uid (fun _ => st1) st (fun _ _ => huid1) g0
    have g2 := getStrm_upd _ uid (fun s => { s with headersFinished := true }) st1 (fun x hx => hx) g1
    have hok : (handleFrame r uid fr).2 = none := by rw [hF]
    have hg1 : (handleFrame r uid fr).1.getStrm uid = some { st1 with headersFinished := true } := by rw [hF]; exact g2
    rw [knownStream_accepted r uid fr _ hp hok hg1, closeIfClosed_out]
    have hstate : (handleState fr { st1 with headersFinished := true }).state = .halfClosed := by
      have h1 : st1.state = .idle := by
        have := congrArg Ctl.state kc
        simp only [Strm.ctl] at this
        rw [this]; exact hf.state
      have e0 : (Gen.c_FrameHeaders == Gen.c_FrameResetStream) = false := rfl
      have e1 : (Gen.c_FrameHeaders == Gen.c_FrameHeaders) = true := rfl
      simp [handleState, ht, e0, h1, hes]
    have hS := handleState_eq fr { st1 with headersFinished := true }
    rw [hstate] at hS
    rw [hS]
    have hresp : st1.responded = false := by
      have := congrArg Ctl.responded kc
      simp only [Strm.ctl] at this
      rw [this]; exact hf.resp
    have hrecv : st1.recvBody = 0 := by
      have := congrArg Ctl.recvBody kc
      simp only [Strm.ctl] at this
      rw [this]; exact hf.recv
    have hid : st1.id = st.id := by
      have := congrArg Ctl.id kc
      simpa only [Strm.ctl] using this
    have hbody : st1.body = st.body := by
      have := congrArg Ctl.body kc
      simpa only [Strm.ctl] using this
    have hdec := dispatchOrSend_decision ((handleFrame r uid fr).1.updStrm uid (handleState fr)) uid
      { st1 with headersFinished := true, state := .halfClosed } ⟨rfl, rfl, hresp⟩ hgood1
    rw [hdec]
    have hm : msgSt { st1 with headersFinished := true, state := .halfClosed } = m := hfin.1
    rw [hm]
    simp only [hrecv, hid, hbody]
    have hout : ((handleFrame r uid fr).1.updStrm uid (handleState fr)).out = r.out := by rw [hF]; rfl
    rw [hout]

/-- … **refused**: when the loop or the pseudo-header test refuses the block, `handleFrame` returns the error whose
abstraction is the verdict of `Msg.validate` (RST_STREAM or GOAWAY with that code) -/
theorem request_one_frame_refused (r : R) (uid : Nat) (fr : Frame) (st : Strm) (es : Bool) (prio : Option (Nat × Nat)) (frag : Bytes)
    (hg : r.getStrm uid = some st) (hf : Fresh st) (ht : fr.typ = Gen.c_FrameHeaders)
    (hb : fr.body = .headers es true prio frag) (heh : Frame.hasFlag fr.flags Gen.c_FlagEndHeaders = true)
    (hprio : ∀ dep w, prio = some (dep, w) → (dep == st.id) = false)
    (fs : List Hpack.Field) (d : Hpack.DecState) (hdec : decRun (frag.length + 1) r.s.dec true 0 frag = (fs, .clean d))
    (tr : List MsgSpec.Field) (n : Nat)
    (href : ∀ m, Msg.loop (cfgOf r.s.cfg) Msg.St.init (fs.map kv) = .ok m → Msg.pseudoOK m = false) :
    ∃ e, (handleFrame r uid fr).2 = some e ∧ absErr e = Msg.validate (cfgOf r.s.cfg) (fs.map kv) tr n := by
  have hgood0 : (0 : Int) ≤ ({ st with fieldSeen := false, prevHdr := [] } : Strm).contentLength := by
    show 0 ≤ st.contentLength
    rw [hf.cl]; exact Int.le_refl 0
  have hfin := fieldLoop_final (frag.length + 1) r.s { st with fieldSeen := false, prevHdr := [] } true 0 frag hgood0
  have hm0 : msgSt { st with fieldSeen := false, prevHdr := [] } = Msg.St.init := hf.msg
  rw [hdec, hm0] at hfin
  simp only [specC, coarse, Tail.fin] at hfin
  rcases hX : fieldLoop (frag.length + 1) r.s { st with fieldSeen := false, prevHdr := [] } true true 0 frag with ⟨s1, st1, e1⟩
  rw [hX] at hfin
  have hF := handleFrame_request_block r uid fr st es prio frag hg hf ht hb heh hprio s1 st1 e1 hX
  cases hl : Msg.loop (cfgOf r.s.cfg) Msg.St.init (fs.map kv) with
  | error v =>
    simp only [hl] at hfin
    cases e1 with
    | none => simp [absFin] at hfin
    | some e =>
      simp only [absFin, Except.error.injEq] at hfin
      refine ⟨e, by rw [hF], ?_⟩
      simp only [Msg.validate, Msg.message, hl]
      exact hfin
  | ok m =>
    simp only [hl] at hfin
    cases e1 with
    | some e => simp [absFin] at hfin
    | none =>
      simp only [absFin, Except.ok.injEq, Prod.mk.injEq] at hfin
      have hps := href m hl
      refine ⟨.reset Gen.c_ProtocolError, ?_, ?_⟩
      · rw [hF]; simp only; rw [validatePseudo_msg, hfin.1, hps]; rfl
      · simp [Msg.validate, Msg.message, hl, hps, absErr, Msg.eProtocol]

end H2.Server.Lock
