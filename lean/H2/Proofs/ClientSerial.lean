import H2.Client.Model
/-! Lemmas about the serial client model used by C02 (stream ids, request rendering, who a frame can touch). -/
namespace H2.Client

theorem sendPending_nextID (fuel : Nat) (c : Conn) (sid : Nat) : (sendPending fuel c sid).1.nextID = c.nextID := by
  induction fuel generalizing c with
  | zero => simp [sendPending]
  | succ k ih =>
    simp only [sendPending]
    split
    · rfl
    · split
      · split
        · simp [deletePending]
        · rw [ih]
      · split
        · rfl
        · split
          · rfl
          · split
            · simp [deletePending]
            · split
              · rfl
              · rw [ih]

theorem find_map_other (l : List Req) (tag t : String) (f : Req → Req) (hf : ∀ r, r.tag = tag → (f r).tag = tag) (hne : t ≠ tag) :
    (l.map fun r => if r.tag == tag then f r else r).find? (fun r => r.tag == t) = l.find? (fun r => r.tag == t) := by
  induction l with
  | nil => rfl
  | cons r rs ih =>
    rw [List.map_cons, List.find?_cons, List.find?_cons]
    by_cases h1 : (r.tag == tag) = true
    · have h1' : r.tag = tag := by simpa using h1
      have e1 : ((f r).tag == t) = false := by rw [hf r h1']; simpa using Ne.symm hne
      have e2 : (r.tag == t) = false := by rw [h1']; simpa using Ne.symm hne
      rw [if_pos h1, e1, e2]; exact ih
    · rw [if_neg h1]
      cases h2 : (r.tag == t)
      · exact ih
      · rfl

theorem getReq_updReq_other (c : Conn) (tag t : String) (f : Req → Req) (hf : ∀ r, r.tag = tag → (f r).tag = tag) (hne : t ≠ tag) :
    getReq (updReq c tag f) t = getReq c t := by
  simp only [getReq, updReq]
  exact find_map_other c.reqs tag t f hf hne

theorem resolve_tag (r : Req) (e : Err) : (r.resolve e).tag = r.tag := by
  unfold Req.resolve; split <;> rfl

theorem getReq_resolve_other (c : Conn) (tag t : String) (e : Err) (hne : t ≠ tag) :
    getReq (resolve c tag e) t = getReq c t :=
  getReq_updReq_other c tag t _ (fun r h => (resolve_tag r e).trans h) hne

/-- every request other than `tag` is the same in `c'` as in `c` -/
def OthersSame (tag : String) (c c' : Conn) : Prop := ∀ t, t ≠ tag → getReq c' t = getReq c t

theorem OthersSame.refl (tag : String) (c : Conn) : OthersSame tag c c := fun _ _ => rfl

theorem OthersSame.trans {tag : String} {a b c : Conn} (h1 : OthersSame tag a b) (h2 : OthersSame tag b c) :
    OthersSame tag a c := fun t ht => (h2 t ht).trans (h1 t ht)

theorem OthersSame.of_reqs {tag : String} {c c' : Conn} (h : c'.reqs = c.reqs) : OthersSame tag c c' := by
  intro t _; simp [getReq, h]

theorem othersSame_updReq (c : Conn) (tag : String) (f : Req → Req) (hf : ∀ r, r.tag = tag → (f r).tag = tag) :
    OthersSame tag c (updReq c tag f) := fun t ht => getReq_updReq_other c tag t f hf ht

theorem othersSame_finish (c : Conn) (tag : String) (sid : Nat) (e : Err) : OthersSame tag c (finish c tag sid e) := by
  unfold finish
  refine OthersSame.trans (b := deletePending (takeReq c sid) sid) ?_ (othersSame_updReq _ tag _ (fun r h => (resolve_tag r e).trans h))
  apply OthersSame.of_reqs
  simp only [deletePending, takeReq]; split <;> rfl

theorem fieldStep_tag {r : Req} {a b : Bool} {k v : Bytes} {r' : Req} {rs ss : Bool}
    (h : fieldStep r a b k v = some (r', rs, ss)) : r'.tag = r.tag := by
  unfold fieldStep at h
  repeat' split at h
  all_goals (cases h; try rfl)

theorem readHeader_tag (fuel : Nat) (st : Hpack.DecState) (r : Req) (a b : Bool) (nf : Nat) (bs : Bytes) :
    (readHeader fuel st r a b nf bs).2.1.tag = r.tag := by
  induction fuel generalizing st r a b nf bs with
  | zero => simp [readHeader]
  | succ k ih =>
    simp only [readHeader]
    split
    · rfl
    · split <;> try rfl
      split
      · rfl
      · rename_i hfs
        rw [ih]; exact fieldStep_tag hfs

theorem getReq_tag {c : Conn} {tag : String} {r : Req} (h : getReq c tag = some r) : r.tag = tag := by
  have := List.find?_some h
  simpa using this

theorem othersSame_readStream (c : Conn) (tag : String) (r : Req) (f : Frame.Frame) (hr : r.tag = tag) :
    OthersSame tag c (readStream c tag r f).1 := by
  unfold readStream
  split
  · simp only
    split
    · exact (OthersSame.of_reqs rfl).trans (othersSame_updReq _ tag _ (fun _ _ => (readHeader_tag _ _ _ _ _ _ _).trans hr))
    · exact OthersSame.of_reqs rfl
  · simp only
    split
    · exact (OthersSame.of_reqs rfl).trans (othersSame_updReq _ tag _ (fun _ _ => (readHeader_tag _ _ _ _ _ _ _).trans hr))
    · exact OthersSame.of_reqs rfl
  · exact OthersSame.refl _ _
  · have h1 : ∀ d : Bytes, OthersSame tag c
        (if (d.length != 0) = true then updReq c tag fun q => { q with body := q.body ++ d } else c) := by
      intro d
      split
      · exact othersSame_updReq c tag (fun q => { q with body := q.body ++ d }) (fun _ h => h)
      · exact OthersSame.refl _ _
    simp only
    split
    · exact (h1 _).trans (OthersSame.of_reqs rfl)
    · exact h1 _
  · exact OthersSame.refl _ _

end H2.Client
