import H2.Frame.Checked
/-! Helper lemmas for C16 `no_panic`: the checked read path (Frame/Checked.lean) never takes a panic branch and equals `readFrame`. -/
namespace H2.Frame.Chk
open H2 H2.Frame
set_option linter.unusedSimpArgs false

theorem at?_some (p : Bytes) (i : Nat) (h : i < p.length) : at? p i = some (p.getD i 0) := by
  simp [at?, List.getD, List.getElem?_eq_getElem h]

theorem slice?_some (p : Bytes) (lo hi : Nat) (h1 : lo ≤ hi) (h2 : hi ≤ p.length) :
    slice? p lo hi = some ((p.take hi).drop lo) := by
  simp [slice?, h1, h2]

theorem u32?_some (p : Bytes) (h : 4 ≤ p.length) : u32? p = some (be32 p) := by simp [u32?, h]

theorem cutPadding?_eq (p : Bytes) : cutPadding? p p.length = some (cutPadding p) := by
  cases p with
  | nil => simp [cutPadding?, cutPadding]
  | cons n rest =>
    by_cases h : rest.length < n
    · have c2 : n + 1 > rest.length + 1 := by omega
      have c3 : rest.length + 1 < n + 1 := by omega
      simp [cutPadding?, cutPadding, at?, c2, c3, pure]
      intro _ h2; omega
    · have c2 : ¬ (n + 1 > rest.length + 1) := by omega
      have c3 : ¬ (rest.length + 1 < n + 1) := by omega
      have c4 : ¬ (rest.length + 1 + n + 1 < rest.length + 1) := by omega
      have c5 : 1 ≤ rest.length + 1 - n := by omega
      have e : rest.length + 1 - n = (rest.length + 1 - n - 1) + 1 := by omega
      simp [cutPadding?, cutPadding, at?, slice?, c2, c3, c4, c5, pure]
      have c6 : ¬ (rest.length + 1 + n < rest.length ∨ rest.length < n) := by omega
      simp only [c6, if_false]
      rw [e, List.take_succ_cons]
      simp

theorem settingsRead?_eq (fuel : Nat) (d : Bytes) (last : Nat) (s : SettingsVal) (hl : last ≤ d.length)
    (hf : d.length - last < fuel) : settingsRead? fuel d last (last + 6) s = some (settingsRead (d.drop last) s) := by
  induction fuel generalizing last s with
  | zero => omega
  | succ fuel ih =>
    unfold settingsRead?
    by_cases hi : last + 6 ≤ d.length
    · have hlen : (d.drop last).length = d.length - last := List.length_drop
      have hrest : d.drop (last + 6) = (d.drop last).drop 6 := by rw [List.drop_drop]
      have hsl : slice? d last (last + 6) = some ((d.drop last).take 6) := by
        rw [slice?_some d last (last + 6) (by omega) hi, List.drop_take]
        congr 2; omega
      have ih' : ∀ s', settingsRead? fuel d (last + 6) (last + 6 + 6) s' = some (settingsRead (d.drop (last + 6)) s') :=
        fun s' => ih (last + 6) s' hi (by omega)
      rcases hd : d.drop last with _ | ⟨k0, _ | ⟨k1, _ | ⟨v0, _ | ⟨v1, _ | ⟨v2, _ | ⟨v3, rest⟩⟩⟩⟩⟩⟩
      all_goals rw [hd] at hlen hrest hsl
      all_goals try (simp at hlen; omega)
      simp only [List.drop_succ_cons, List.drop_zero] at hrest
      rw [settingsRead]
      simp only [hi, if_true, hsl, List.take_succ_cons, List.take_zero, Option.bind_eq_bind, Option.bind_some, at?,
        List.getElem?_cons_zero, List.getElem?_cons_succ, ih', hrest, be32, List.getD_cons_zero, List.getD_cons_succ, pure]
      repeat' split
      all_goals rfl
    · have hshort : (d.drop last).length < 6 := by rw [List.length_drop]; omega
      simp only [hi, if_false, pure]
      rw [settingsRead]
      · intro k0 k1 v0 v1 v2 v3 rest h
        rw [h] at hshort
        simp at hshort
        omega

theorem slice?_tail (q : Bytes) (k : Nat) (h : k ≤ q.length) : slice? q k q.length = some (q.drop k) := by
  rw [slice?_some q k q.length h (Nat.le_refl _), List.take_length]

theorem padded?_eq (c : Bool) (p : Bytes) : padded? c p = some (if c = true then cutPadding p else some p) := by
  cases c <;> simp [padded?, cutPadding?_eq]

theorem deserialize?_eq (typ flags : Nat) (p : Bytes) : deserialize? typ flags p = some (deserialize typ flags p) := by
  unfold deserialize? deserialize
  by_cases h0 : typ = Gen.c_FrameData
  · simp only [h0, if_true]
    by_cases hp : hasFlag flags Gen.c_FlagPadded = true
    · simp only [hp, if_true, cutPadding?_eq, Option.bind_eq_bind, Option.bind_some, bind]
      cases cutPadding p <;> rfl
    · simp only [hp, if_false, pure, Bool.false_eq_true]
  simp only [h0, if_false]
  by_cases h1 : typ = Gen.c_FrameHeaders
  · simp only [h1, if_true, padded?_eq, Option.bind_eq_bind, Option.bind_some, bind]
    cases (if hasFlag flags Gen.c_FlagPadded = true then cutPadding p else some p) with
    | none => rfl
    | some q =>
      simp only
      by_cases hpr : hasFlag flags Gen.c_FlagPriority = true
      · simp only [hpr, if_true]
        by_cases h5 : q.length < 5
        · simp only [h5, if_true, pure]
        · simp only [h5, if_false, u32?_some q (by omega), at?_some q 4 (by omega), slice?_tail q 5 (by omega),
            Option.bind_some, pure]
      · simp only [hpr, if_false, pure, Bool.false_eq_true]
  simp only [h1, if_false]
  by_cases h2 : typ = Gen.c_FramePriority
  · simp only [h2, if_true]
    by_cases h5 : p.length = 5
    · simp [h5, u32?_some p (by omega), at?_some p 4 (by omega), pure]
    · simp [h5, pure]
  simp only [h2, if_false]
  by_cases h3 : typ = Gen.c_FrameResetStream
  · simp only [h3, if_true]
    by_cases h4 : p.length = 4
    · simp [h4, u32?_some p (by omega), pure]
    · simp [h4, pure]
  simp only [h3, if_false]
  by_cases h4 : typ = Gen.c_FrameSettings
  · simp only [h4, if_true]
    by_cases h6 : p.length % 6 = 0
    case neg => simp [h6, pure]
    · simp only [h6, ne_eq, not_true_eq_false, if_false]
      by_cases ha : (hasFlag flags Gen.c_FlagAck && decide (p.length > 0)) = true
      · simp only [ha, if_true, pure]
      · have := settingsRead?_eq (p.length + 1) p 0 { ack := hasFlag flags Gen.c_FlagAck } (by omega) (by omega)
        simp only [Nat.zero_add, List.drop_zero] at this
        simp only [ha, if_false, this, Option.bind_eq_bind, Option.bind_some, bind, Bool.false_eq_true]
        cases settingsRead p { ack := hasFlag flags Gen.c_FlagAck } with
        | inl o => cases o <;> rfl
        | inr c => rfl
  simp only [h4, if_false]
  by_cases h5 : typ = Gen.c_FramePushPromise
  · simp only [h5, if_true, padded?_eq, Option.bind_eq_bind, Option.bind_some, bind]
    cases (if hasFlag flags Gen.c_FlagPadded = true then cutPadding p else some p) with
    | none => rfl
    | some q =>
      simp only
      by_cases h4 : q.length < 4
      · simp only [h4, if_true, pure]
      · simp only [h4, if_false, u32?_some q (by omega), slice?_tail q 4 (by omega), Option.bind_some, pure]
  simp only [h5, if_false]
  by_cases h6 : typ = Gen.c_FramePing
  · simp only [h6, if_true]
    by_cases h8 : p.length = 8 <;> simp [h8, pure]
  simp only [h6, if_false]
  by_cases h7 : typ = Gen.c_FrameGoAway
  · simp only [h7, if_true]
    by_cases h8 : p.length < 8
    · simp only [h8, if_true, pure]
    · simp only [h8, if_false, u32?_some p (by omega), slice?_tail p 4 (by omega), slice?_tail p 8 (by omega),
        u32?_some (p.drop 4) (by simp; omega), Option.bind_eq_bind, Option.bind_some, bind, pure]
  simp only [h7, if_false]
  by_cases h8 : typ = Gen.c_FrameWindowUpdate
  · simp only [h8, if_true]
    by_cases h4 : p.length = 4
    · simp [h4, u32?_some p (by omega), pure]
    · simp [h4, pure]
  simp only [h8, if_false, pure]

theorem kind_small (t : Nat) (h : t ≤ 9) : kindOf t = (t : Int) ∧ ¬ (kindOf t < 0 ∨ kindOf t > (9 : Nat)) ∧ (kindOf t).toNat = t := by
  have : t % 256 = t := by omega
  simp [kindOf, this]
  omega

theorem kind_big (t : Nat) (h : 9 < t) (h2 : t < 256) : kindOf t < 0 ∨ kindOf t > (9 : Nat) := by
  have : t % 256 = t := by omega
  simp only [kindOf, this]
  split <;> omega

theorem header?_eq (b : Bytes) (h : 9 ≤ b.length) :
    header? b = some (be24 b, b.getD 3 0, b.getD 4 0, be32 (b.drop 5)) := by
  rcases b with _ | ⟨l0, _ | ⟨l1, _ | ⟨l2, _ | ⟨t, _ | ⟨f, _ | ⟨s0, _ | ⟨s1, _ | ⟨s2, _ | ⟨s3, rest⟩⟩⟩⟩⟩⟩⟩⟩⟩
  all_goals try (simp at h; done)
  all_goals try (simp at h; omega)
  simp [header?, slice?, at?, u32?, be24, be32, pure]

/-- **no_panic**: on every input none of the run-time checks of the read path fires, and the checked
model returns exactly what `readFrame` returns -/
theorem readFrame?_eq (max : Nat) (b : Bytes) (ht : b.getD 3 0 < 256) : readFrame? max b = some (readFrame max b) := by
  unfold readFrame? readFrame
  by_cases h9 : b.length < 9
  · simp only [h9, if_true, pure]
  · simp only [h9, if_false, header?_eq b (by omega), Option.bind_eq_bind, Option.bind_some, bind, pure]
    by_cases hm : (decide (max ≠ 0) && decide (be24 b > max)) = true
    · simp only [hm, if_true]
    · simp only [hm, if_false, Bool.false_eq_true, Gen.c_FrameContinuation]
      by_cases h10 : b.getD 3 0 > 9
      · have hk := kind_big _ h10 ht
        simp only [h10, hk, if_true]
      · have hk := kind_small (b.getD 3 0) (by omega)
        have hp : poolIdx? (kindOf (b.getD 3 0)) = some (b.getD 3 0) := by
          simp only [poolIdx?, hk.1, Gen.c_FrameContinuation]
          have : (0 : Int) ≤ ((b.getD 3 0 : Nat) : Int) ∧ ((b.getD 3 0 : Nat) : Int) ≤ ((9 : Nat) : Int) := by omega
          rw [if_pos this]; simp
        simp only [h10, hk.2.1, if_false, hp, Option.bind_some, hk.2.2]
        by_cases hl : (b.drop 9).length < be24 b
        · simp only [hl, if_true]
        · have hs := slice?_some (b.drop 9) 0 (be24 b) (Nat.zero_le _) (by omega)
          simp only [hl, if_false, hs, List.drop_zero, Option.bind_some, deserialize?_eq]
          cases deserialize (b.getD 3 0) (b.getD 4 0) (List.take (be24 b) (List.drop 9 b)) <;> rfl
end H2.Frame.Chk
