import H2.Proofs.HpackBlock
/-! Reassembly of a header block across frames: results on a prefix carry over to the whole. Core only. -/
namespace H2.Hpack
open H2

/-! ### prefix stability of the parsers -/

theorem readCont_append (m : Nat) : ∀ (b : Bytes) (i acc : Nat) (q : Bytes),
    (∀ v r, readCont m b i acc = .ok v r → readCont m (b ++ q) i acc = .ok v (r ++ q)) ∧
    (readCont m b i acc = .overflow → readCont m (b ++ q) i acc = .overflow) := by
  intro b
  induction b with
  | nil => intro i acc q; simp [readCont]
  | cons c cs ih =>
    intro i acc q
    simp only [List.cons_append]
    unfold readCont
    by_cases h1 : 7 * i ≥ 64
    · simp [h1]
    · by_cases h2 : acc + c % 128 * 2 ^ (7 * i) + m ≥ 2 ^ 64
      · simp [h1, h2]
      · by_cases h3 : c < 128
        · simp [h1, h2, h3]
        · simp only [h1, h2, h3, if_false]
          exact ih _ _ q

theorem readInt_append_ok (n : Nat) (b : Bytes) (v : Nat) (r q : Bytes) (h : readInt n b = .ok v r) :
    readInt n (b ++ q) = .ok v (r ++ q) := by
  cases b with
  | nil => simp [readInt] at h
  | cons b0 rest =>
    simp only [List.cons_append]
    unfold readInt at h ⊢
    simp only at h ⊢
    by_cases hne : b0 % 2 ^ n ≠ 2 ^ n - 1
    · rw [if_pos hne] at h ⊢
      injection h with h1 h2
      subst h1 h2; rfl
    · rw [if_neg hne] at h ⊢
      exact (readCont_append _ _ _ _ q).1 _ _ h

theorem readInt_append_overflow (n : Nat) (b q : Bytes) (h : readInt n b = .overflow) :
    readInt n (b ++ q) = .overflow := by
  cases b with
  | nil => simp [readInt] at h
  | cons b0 rest =>
    simp only [List.cons_append]
    unfold readInt at h ⊢
    simp only at h ⊢
    by_cases hne : b0 % 2 ^ n ≠ 2 ^ n - 1
    · rw [if_pos hne] at h
      cases h
    · rw [if_neg hne] at h ⊢
      exact (readCont_append _ _ _ _ q).2 h

theorem readString_append_ok (b s r q : Bytes) (h : readString b = .ok s r) :
    readString (b ++ q) = .ok s (r ++ q) := by
  cases b with
  | nil => simp [readString] at h
  | cons b0 rest =>
    simp only [List.cons_append]
    unfold readString at h ⊢
    cases hi : readInt 7 (b0 :: rest) with
    | needMore => simp [hi] at h
    | overflow => simp [hi] at h
    | ok n r' =>
      have hi' := readInt_append_ok 7 _ _ _ q hi
      simp only [List.cons_append] at hi'
      simp only [hi] at h
      simp only [hi']
      by_cases h1 : r'.length < n
      · simp [h1] at h
      · have h1' : ¬ (r' ++ q).length < n := by simp; omega
        have ht : (r' ++ q).take n = r'.take n := List.take_append_of_le_length (by omega)
        have hd : (r' ++ q).drop n = r'.drop n ++ q := List.drop_append_of_le_length (by omega)
        simp only [h1, if_false] at h
        simp only [h1', if_false, ht, hd]
        by_cases h2 : b0 ≥ 128
        · simp only [h2, if_true] at h ⊢
          cases hdz : Huffman.decode (r'.take n) with
          | none => simp [hdz] at h
          | some s' =>
            simp only [hdz] at h ⊢
            injection h with h3 h4
            subst h3 h4; rfl
        · simp only [h2, if_false] at h ⊢
          injection h with h3 h4
          subst h3 h4; rfl

theorem readString_append_err (b q : Bytes) (h : readString b = .err) : readString (b ++ q) = .err := by
  cases b with
  | nil => simp [readString] at h
  | cons b0 rest =>
    simp only [List.cons_append]
    unfold readString at h ⊢
    cases hi : readInt 7 (b0 :: rest) with
    | needMore => simp [hi] at h
    | overflow =>
      have hi' := readInt_append_overflow 7 _ q hi
      simp only [List.cons_append] at hi'
      simp [hi']
    | ok n r' =>
      have hi' := readInt_append_ok 7 _ _ _ q hi
      simp only [List.cons_append] at hi'
      simp only [hi] at h
      simp only [hi']
      by_cases h1 : r'.length < n
      · simp [h1] at h
      · have h1' : ¬ (r' ++ q).length < n := by simp; omega
        have ht : (r' ++ q).take n = r'.take n := List.take_append_of_le_length (by omega)
        simp only [h1, if_false] at h
        simp only [h1', if_false, ht]
        by_cases h2 : b0 ≥ 128
        · simp only [h2, if_true] at h ⊢
          cases hdz : Huffman.decode (r'.take n) with
          | none => simp
          | some s' => simp [hdz] at h
        · simp [h2] at h

end H2.Hpack

namespace H2.Hpack
open H2

theorem parseLiteral_append (valid : Nat → Bool) (m : Spec.Mode) (b q : Bytes) :
    (∀ r rest, Spec.parseLiteral valid m b = .ok r rest → Spec.parseLiteral valid m (b ++ q) = .ok r (rest ++ q)) ∧
    (Spec.parseLiteral valid m b = .invalid → Spec.parseLiteral valid m (b ++ q) = .invalid) := by
  unfold Spec.parseLiteral
  cases hi : readInt m.prefixBits b with
  | needMore => simp
  | overflow => simp [readInt_append_overflow _ _ q hi]
  | ok i r1 =>
    simp only [readInt_append_ok _ _ _ _ q hi]
    by_cases hz : i = 0
    · simp only [hz, if_true]
      cases r1 with
      | nil => simp
      | cons h1 t1 =>
        simp only [List.cons_append]
        cases hs : readString (h1 :: t1) with
        | needMore => simp
        | err =>
          have := readString_append_err _ q hs
          simp only [List.cons_append] at this
          simp [this]
        | ok n r2 =>
          have := readString_append_ok _ _ _ q hs
          simp only [List.cons_append] at this
          simp only [this]
          cases r2 with
          | nil => simp
          | cons h2 t2 =>
            simp only [List.cons_append]
            cases hs2 : readString (h2 :: t2) with
            | needMore => simp
            | err =>
              have := readString_append_err _ q hs2
              simp only [List.cons_append] at this
              simp [this]
            | ok v r3 =>
              have := readString_append_ok _ _ _ q hs2
              simp only [List.cons_append] at this
              simp only [this]
              constructor
              · intro r rest h; injection h with h1 h2; subst h1 h2; rfl
              · intro h; cases h
    · simp only [hz, if_false]
      by_cases hv : valid i
      · simp only [hv, Bool.not_true, Bool.false_eq_true, if_false]
        cases r1 with
        | nil => simp
        | cons h1 t1 =>
          simp only [List.cons_append]
          cases hs : readString (h1 :: t1) with
          | needMore => simp
          | err =>
            have := readString_append_err _ q hs
            simp only [List.cons_append] at this
            simp [this]
          | ok v r3 =>
            have := readString_append_ok _ _ _ q hs
            simp only [List.cons_append] at this
            simp only [this]
            constructor
            · intro r rest h; injection h with h1 h2; subst h1 h2; rfl
            · intro h; cases h
      · simp [hv]

theorem parse_append (valid : Nat → Bool) (b q : Bytes) :
    (∀ r rest, Spec.parse valid b = .ok r rest → Spec.parse valid (b ++ q) = .ok r (rest ++ q)) ∧
    (Spec.parse valid b = .invalid → Spec.parse valid (b ++ q) = .invalid) := by
  cases b with
  | nil => simp [Spec.parse]
  | cons c cs =>
    simp only [List.cons_append]
    unfold Spec.parse
    have hl := fun m => parseLiteral_append valid m (c :: cs) q
    simp only [List.cons_append] at hl
    by_cases h128 : c ≥ 128
    · simp only [h128, if_true]
      cases hi : readInt 7 (c :: cs) with
      | needMore => simp
      | overflow =>
        have := readInt_append_overflow _ _ q hi
        simp only [List.cons_append] at this
        simp [this]
      | ok i r =>
        have := readInt_append_ok _ _ _ _ q hi
        simp only [List.cons_append] at this
        simp only [this]
        constructor
        · intro r rest h; injection h with h1 h2; subst h1 h2; rfl
        · intro h; cases h
    · simp only [h128, if_false]
      by_cases h64 : c ≥ 64
      · simp only [h64, if_true]; exact hl _
      · simp only [h64, if_false]
        by_cases h32 : c ≥ 32
        · simp only [h32, if_true]
          cases hi : readInt 5 (c :: cs) with
          | needMore => simp
          | overflow =>
            have := readInt_append_overflow _ _ q hi
            simp only [List.cons_append] at this
            simp [this]
          | ok i r =>
            have := readInt_append_ok _ _ _ _ q hi
            simp only [List.cons_append] at this
            simp only [this]
            constructor
            · intro r rest h; injection h with h1 h2; subst h1 h2; rfl
            · intro h; cases h
        · simp only [h32, if_false]
          by_cases h16 : c ≥ 16
          · simp only [h16, if_true]; exact hl _
          · simp only [h16, if_false]; exact hl _

end H2.Hpack

namespace H2.Hpack
open H2

/-! ### the RFC step, unfolded once, and what a suffix behind its input changes -/

theorem step_nil (st : DecState) (bs : Bool) (fp : Nat) : Spec.step st bs fp [] = .ok st none [] := by
  simp [Spec.step, Spec.stepFuel]

theorem step_cons (st : DecState) (bs : Bool) (fp c : Nat) (cs : Bytes) :
    Spec.step st bs fp (c :: cs) =
      match Spec.parse (Spec.validIn st) (c :: cs) with
      | .incomplete => .needMore
      | .invalid => .err
      | .ok r rest =>
        match Spec.apply st (if bs then fp else fp + 1) r with
        | none => .err
        | some (st', some f) => .ok st' (some f) rest
        | some (st', none) => Spec.step st' bs fp rest := by
  show Spec.stepFuel (cs.length + 1 + 1) st bs fp (c :: cs) = _
  simp only [Spec.stepFuel]
  cases hp : Spec.parse (Spec.validIn st) (c :: cs) with
  | incomplete => rfl
  | invalid => rfl
  | ok r rest =>
    have hlt := parse_progress _ _ _ _ hp
    simp only [List.length_cons] at hlt
    simp only
    cases ha : Spec.apply st (if bs then fp else fp + 1) r with
    | none => rfl
    | some p =>
      obtain ⟨st', o⟩ := p
      cases o with
      | some f => rfl
      | none =>
        simp only
        exact stepFuel_fuel (cs.length + 1) st' bs fp rest (by omega)

/-- the meaning of a representation depends on the number of fields before it only through "none yet" -/
theorem apply_congr (st : DecState) (k k' : Nat) (r : Spec.Repr) (h : k = 0 ↔ k' = 0) :
    Spec.apply st k r = Spec.apply st k' r := by
  cases r with
  | indexed i => rfl
  | literal m nr v vh => rfl
  | sizeUpdate n => simp only [Spec.apply, h]

theorem step_congr (bs bs' : Bool) (fp fp' : Nat)
    (h : (if bs then fp else fp + 1) = 0 ↔ (if bs' then fp' else fp' + 1) = 0) :
    ∀ (n : Nat) (st : DecState) (b : Bytes), b.length ≤ n → Spec.step st bs fp b = Spec.step st bs' fp' b := by
  intro n
  induction n with
  | zero =>
    intro st b hb
    have : b = [] := List.eq_nil_of_length_eq_zero (by omega)
    subst this; simp [step_nil]
  | succ n ih =>
    intro st b hb
    cases b with
    | nil => simp [step_nil]
    | cons c cs =>
      rw [step_cons, step_cons]
      cases hp : Spec.parse (Spec.validIn st) (c :: cs) with
      | incomplete => rfl
      | invalid => rfl
      | ok r rest =>
        have hlt := parse_progress _ _ _ _ hp
        simp only [List.length_cons] at hlt hb
        simp only
        rw [apply_congr st _ _ r h]
        cases ha : Spec.apply st (if bs' then fp' else fp' + 1) r with
        | none => rfl
        | some p =>
          obtain ⟨st', o⟩ := p
          cases o with
          | some f => rfl
          | none => exact ih st' rest (by omega)

/-- what the step makes of `x` it makes of `x ++ y`, except that it goes on into `y` where `x` ran out -/
theorem step_append (bs : Bool) (fp : Nat) (y : Bytes) : ∀ (n : Nat) (st : DecState) (x : Bytes), x.length ≤ n →
    match Spec.step st bs fp x with
    | .err => Spec.step st bs fp (x ++ y) = .err
    | .ok st' (some f) rest => Spec.step st bs fp (x ++ y) = .ok st' (some f) (rest ++ y)
    | .ok st' none rest => rest = [] ∧ Spec.step st bs fp (x ++ y) = Spec.step st' bs fp y
    | .needMore => True := by
  intro n
  induction n with
  | zero =>
    intro st x hx
    have : x = [] := List.eq_nil_of_length_eq_zero (by omega)
    subst this; simp [step_nil]
  | succ n ih =>
    intro st x hx
    cases x with
    | nil => simp [step_nil]
    | cons c cs =>
      simp only [List.cons_append]
      rw [step_cons, step_cons]
      have hpa := parse_append (Spec.validIn st) (c :: cs) y
      simp only [List.cons_append] at hpa
      cases hp : Spec.parse (Spec.validIn st) (c :: cs) with
      | incomplete => simp
      | invalid => simp [hpa.2 hp]
      | ok r rest =>
        have hlt := parse_progress _ _ _ _ hp
        simp only [List.length_cons] at hlt hx
        rw [hpa.1 _ _ hp]
        simp only
        cases ha : Spec.apply st (if bs then fp else fp + 1) r with
        | none => simp
        | some p =>
          obtain ⟨st', o⟩ := p
          cases o with
          | some f => simp
          | none => exact ih st' rest (by omega)

/-! ### the octets a cut-short `nextField` call hands back -/

theorem skipFuel_fuel : ∀ (fuel : Nat) (st : DecState) (bs : Bool) (fp : Nat) (b : Bytes),
    b.length + 1 ≤ fuel → skipFuel fuel st bs fp b = skipFuel (b.length + 1) st bs fp b := by
  intro fuel
  induction fuel using Nat.strongRecOn with
  | _ fuel ih =>
    intro st bs fp b h
    cases fuel with
    | zero => omega
    | succ fuel =>
      cases b with
      | nil => simp [skipFuel]
      | cons c cs =>
        simp only [List.length_cons]
        unfold skipFuel
        by_cases hc : 32 ≤ c ∧ c < 64
        · simp only [hc, and_self, if_true]
          cases hi : readInt 5 (c :: cs) with
          | needMore => rfl
          | overflow => rfl
          | ok n r =>
            have hlt := readInt_progress _ _ _ _ hi
            simp only [List.length_cons] at hlt h
            simp only
            split
            · rfl
            · split
              · rfl
              · rw [ih fuel (by omega) _ bs fp r (by omega), ih (cs.length + 1) (by omega) _ bs fp r (by omega)]
        · simp [hc]

theorem skip_nil (st : DecState) (bs : Bool) (fp : Nat) : Dec.skipUpdates st bs fp [] = (st, []) := by
  simp [Dec.skipUpdates, skipFuel]

theorem skip_cons (st : DecState) (bs : Bool) (fp c : Nat) (cs : Bytes) :
    Dec.skipUpdates st bs fp (c :: cs) =
      if 32 ≤ c ∧ c < 64 then
        match readInt 5 (c :: cs) with
        | .ok n r =>
          if !bs || fp > 0 then (st, c :: cs)
          else if n > st.limit then (st, c :: cs)
          else Dec.skipUpdates { st with maxSize := n, dyn := evict st.dyn n } bs fp r
        | _ => (st, c :: cs)
      else (st, c :: cs) := by
  show skipFuel (cs.length + 1 + 1) st bs fp (c :: cs) = _
  simp only [skipFuel]
  by_cases hc : 32 ≤ c ∧ c < 64
  · simp only [hc, and_self, if_true]
    cases hi : readInt 5 (c :: cs) with
    | needMore => rfl
    | overflow => rfl
    | ok n r =>
      have hlt := readInt_progress _ _ _ _ hi
      simp only [List.length_cons] at hlt
      simp only
      split
      · rfl
      · split
        · rfl
        · exact skipFuel_fuel (cs.length + 1) _ bs fp r (by omega)
  · simp [hc]

/-- a size update octet starts a size update -/
theorem parse_update (valid : Nat → Bool) (c : Nat) (cs : Bytes) (hc : 32 ≤ c ∧ c < 64) :
    Spec.parse valid (c :: cs) =
      match readInt 5 (c :: cs) with
      | .ok n r => .ok (.sizeUpdate n) r
      | .needMore => .incomplete
      | .overflow => .invalid := by
  unfold Spec.parse
  have h1 : ¬ c ≥ 128 := by omega
  have h2 : ¬ c ≥ 64 := by omega
  have h3 : c ≥ 32 := hc.1
  simp only [h1, h2, h3, if_false, if_true]
  cases readInt 5 (c :: cs) <;> rfl

/-- the step on the whole remaining block is the step from where the cut-short call left off: the size
updates it consumed were applied once, and what it hands back starts behind them -/
theorem skip_step (bs : Bool) (fp : Nat) (y : Bytes) : ∀ (n : Nat) (st : DecState) (x : Bytes), x.length ≤ n →
    Spec.step st bs fp (x ++ y) =
      Spec.step (Dec.skipUpdates st bs fp x).1 bs fp ((Dec.skipUpdates st bs fp x).2 ++ y) := by
  intro n
  induction n with
  | zero =>
    intro st x hx
    have : x = [] := List.eq_nil_of_length_eq_zero (by omega)
    subst this; simp [skip_nil]
  | succ n ih =>
    intro st x hx
    cases x with
    | nil => simp [skip_nil]
    | cons c cs =>
      rw [skip_cons]
      by_cases hc : 32 ≤ c ∧ c < 64
      · simp only [hc, and_self, if_true]
        cases hi : readInt 5 (c :: cs) with
        | needMore => rfl
        | overflow => rfl
        | ok v r =>
          simp only
          by_cases hk : (!bs || decide (fp > 0)) = true
          · simp [hk]
          · simp only [hk, Bool.false_eq_true, if_false]
            by_cases hl : v > st.limit
            · simp [hl]
            · simp only [hl, if_false]
              have hlt := readInt_progress _ _ _ _ hi
              simp only [List.length_cons] at hlt hx
              rw [← ih _ r (by omega)]
              -- the step on `c :: cs ++ y` takes the size update and goes on behind it
              have hbs : bs = true ∧ fp = 0 := by
                cases bs
                · simp at hk
                · simp at hk; exact ⟨rfl, hk⟩
              obtain ⟨rfl, rfl⟩ := hbs
              simp only [List.cons_append]
              rw [step_cons, parse_update _ _ _ hc]
              have hia := readInt_append_ok 5 _ _ _ y hi
              simp only [List.cons_append] at hia
              simp only [hia]
              have hle : v ≤ st.limit := by omega
              simp [Spec.apply, hle, evict_eq]
      · simp [hc]

/-! ### the block decoder in terms of the step -/

theorem blockFuel_fuel : ∀ (n : Nat) (st : DecState) (fp : Nat) (b : Bytes),
    b.length < n → Spec.blockFuel n st fp b = Spec.blockFuel (b.length + 1) st fp b := by
  intro n
  induction n using Nat.strongRecOn with
  | _ n ih =>
    intro st fp b h
    cases n with
    | zero => omega
    | succ n =>
      cases b with
      | nil => simp [Spec.blockFuel]
      | cons c cs =>
        simp only [List.length_cons, Spec.blockFuel]
        cases hs : Spec.step st true fp (c :: cs) with
        | needMore => rfl
        | err => rfl
        | ok st' o rest =>
          cases o with
          | none => rfl
          | some f =>
            have hlt := step_progress _ _ _ _ _ _ _ hs
            simp only [List.length_cons] at hlt h
            simp only
            rw [ih n (by omega) st' (fp + 1) rest (by omega), ih (cs.length + 1) (by omega) st' (fp + 1) rest (by omega)]

/-- the specification's decoding of what is left of a block, `fp` fields in -/
def blk (st : DecState) (fp : Nat) (b : Bytes) : Option (DecState × List Field) :=
  Spec.blockFuel (b.length + 1) st fp b

theorem blk_step (st : DecState) (fp : Nat) (b : Bytes) :
    blk st fp b =
      match Spec.step st true fp b with
      | .ok st' (some f) rest => (blk st' (fp + 1) rest).map fun p => (p.1, f :: p.2)
      | .ok st' none _ => some (st', [])
      | _ => none := by
  unfold blk
  cases b with
  | nil => simp [Spec.blockFuel, step_nil]
  | cons c cs =>
    simp only [List.length_cons, Spec.blockFuel]
    cases hs : Spec.step st true fp (c :: cs) with
    | needMore => rfl
    | err => rfl
    | ok st' o rest =>
      cases o with
      | none => rfl
      | some f =>
        have hlt := step_progress _ _ _ _ _ _ _ hs
        simp only [List.length_cons] at hlt
        simp only
        rw [blockFuel_fuel _ _ _ _ (by omega)]

theorem blk_congr (st st' : DecState) (fp : Nat) (b b' : Bytes)
    (h : Spec.step st true fp b = Spec.step st' true fp b') : blk st fp b = blk st' fp b' := by
  rw [blk_step, blk_step, h]

theorem map_prepend_nil (o : Option (DecState × List Field)) :
    o.map (fun p => (p.1, ([] : List Field) ++ p.2)) = o := by
  cases o <;> simp

/-- `strm.fieldSeen` as the loop leaves it, from what it was when the frame started -/
theorem seen_eq (bs : Bool) (fpF fpW : Nat) (h : (bs = true ∧ fpF = 0) ↔ fpW = 0) :
    (!bs || decide (fpF > 0)) = seenAfter fpW [] := by
  simp only [seenAfter, List.length_nil, Nat.add_zero]
  cases bs
  · have : fpW ≠ 0 := fun h0 => by have := h.2 h0; simp at this
    have : 0 < fpW := by omega
    simp [this]
  · by_cases hf : fpF = 0
    · have : fpW = 0 := h.1 ⟨rfl, hf⟩
      simp [hf, this]
    · have : fpW ≠ 0 := fun h0 => hf (h.2 h0).2
      have h1 : 0 < fpW := by omega
      have h2 : fpF > 0 := by omega
      simp [h1, h2]

/-- the loop of `handleHeaderFrame` over the octets at hand (`x`: carry-over plus this frame) against the
specification's decoding of the whole remaining block (`x ++ y`). `fpW` counts the fields of the block so
far; the loop knows `bs` (no field in earlier frames) and `fpF` (fields in this frame). -/
theorem loop_gen : ∀ (m : Nat) (dec : DecState) (bs eh : Bool) (fpF fpW : Nat) (x y : Bytes) (acc : List Field),
    x.length ≤ m → (eh = true → y = []) → ((bs = true ∧ fpF = 0) ↔ fpW = 0) →
    match Block.loop m dec bs eh fpF x acc with
    | .ok ⟨dec', r, sn⟩ acc' => ∃ fs, acc' = acc ++ fs ∧ (eh = true → r = []) ∧ sn = seenAfter fpW fs ∧
        blk dec fpW (x ++ y) = (blk dec' (fpW + fs.length) (r ++ y)).map (fun p => (p.1, fs ++ p.2))
    | .err _ => blk dec fpW (x ++ y) = none := by
  intro m
  induction m with
  | zero =>
    intro dec bs eh fpF fpW x y acc hm hy hI
    have : x = [] := List.eq_nil_of_length_eq_zero (by omega)
    subst this
    simp only [Block.loop]
    exact ⟨[], by simp, by simp, seen_eq bs fpF fpW hI, by simp⟩
  | succ m ih =>
    intro dec bs eh fpF fpW x y acc hm hy hI
    cases x with
    | nil =>
      simp only [Block.loop, List.isEmpty_nil, if_true]
      exact ⟨[], by simp, by simp, seen_eq bs fpF fpW hI, by simp⟩
    | cons c cs =>
      have hK : (if bs = true then fpF else fpF + 1) = 0 ↔ (if (true : Bool) = true then fpW else fpW + 1) = 0 := by
        cases bs
        · simp only [Bool.false_eq_true, if_false, if_true]
          constructor
          · intro h; omega
          · intro h; have := hI.2 h; simp at this
        · simp only [if_true]
          constructor
          · intro h; exact hI.1 ⟨rfl, h⟩
          · intro h; exact (hI.2 h).2
      have hcg : ∀ (st : DecState) (b : Bytes), Spec.step st bs fpF b = Spec.step st true fpW b :=
        fun st b => step_congr bs true fpF fpW hK b.length st b (Nat.le_refl _)
      have hF : Dec.next dec bs fpF (c :: cs) = Spec.step dec true fpW (c :: cs) := by
        rw [next_eq_step, hcg]
      simp only [Block.loop, List.isEmpty_cons, Bool.false_eq_true, if_false, hF]
      have hA := step_append true fpW y (c :: cs).length dec (c :: cs) (Nat.le_refl _)
      cases hs : Spec.step dec true fpW (c :: cs) with
      | err =>
        simp only [hs] at hA ⊢
        rw [blk_step, hA]
      | needMore =>
        simp only
        cases eh with
        | true =>
          simp only [if_true]
          have := hy rfl
          subst this
          rw [List.append_nil, blk_step, hs]
        | false =>
          simp only [Bool.false_eq_true, if_false]
          refine ⟨[], by simp, (fun h => by cases h), seen_eq bs fpF fpW hI, ?_⟩
          have e : blk dec fpW (c :: cs ++ y) =
              blk (Dec.skipUpdates dec bs fpF (c :: cs)).1 fpW ((Dec.skipUpdates dec bs fpF (c :: cs)).2 ++ y) := by
            apply blk_congr
            rw [← hcg, skip_step bs fpF y (c :: cs).length dec (c :: cs) (Nat.le_refl _), hcg]
          rw [e]
          simp
      | ok dec1 o rest =>
        cases o with
        | none =>
          simp only [hs] at hA ⊢
          obtain ⟨_, hA⟩ := hA
          refine ⟨[], by simp, by simp, seen_eq bs fpF fpW hI, ?_⟩
          rw [blk_congr _ _ _ _ _ hA]
          simp
        | some f =>
          simp only [hs] at hA ⊢
          have hlt := step_progress _ _ _ _ _ _ _ hs
          simp only [List.length_cons] at hlt hm
          have hI' : (bs = true ∧ fpF + 1 = 0) ↔ fpW + 1 = 0 := by
            constructor
            · intro h; omega
            · intro h; omega
          have := ih dec1 bs eh (fpF + 1) (fpW + 1) rest y (acc ++ [f]) (by omega) hy hI'
          rw [blk_step, hA]
          simp only
          cases hl : Block.loop m dec1 bs eh (fpF + 1) rest (acc ++ [f]) with
          | err fs => simp only [hl] at this; rw [this]; rfl
          | ok s acc' =>
            obtain ⟨dec', r, sn⟩ := s
            simp only [hl] at this
            obtain ⟨fs', hacc, hr, hsn, hb⟩ := this
            refine ⟨f :: fs', by simp [hacc], hr, ?_, ?_⟩
            · rw [hsn]
              have : fpW + 1 + fs'.length = fpW + (fs'.length + 1) := by omega
              simp only [seenAfter, List.length_cons, this]
            · rw [hb]
              simp only [List.length_cons, Option.map_map]
              have e : fpW + 1 + fs'.length = fpW + (fs'.length + 1) := by omega
              rw [e]
              congr 1

end H2.Hpack

namespace H2.Hpack
open H2

/-- the frames of one header block: a HEADERS frame, then CONTINUATION frames; END_HEADERS on the last -/
def feedFrames : Block.State → Bool → List Bytes → List Field → Block.Res
  | st, _, [], acc => .ok st acc
  | st, first, [p], acc =>
    match Block.feed st (!first) true p with
    | .ok s fs => .ok s (acc ++ fs)
    | .err fs => .err (acc ++ fs)
  | st, first, p :: q :: ps, acc =>
    match Block.feed st (!first) false p with
    | .ok s fs => feedFrames s false (q :: ps) (acc ++ fs)
    | .err fs => .err (acc ++ fs)

/-- **reassembly**: the frames of a block, fed one by one with the carry-over between them, against the
specification's decoding of the concatenation — `fpW` fields of the block already decoded, `prev` carried
over, `sn` what `strm.fieldSeen` says -/
theorem frames_gen : ∀ (frames : List Bytes) (dec : DecState) (prev : Bytes) (sn first : Bool) (fpW : Nat) (acc : List Field),
    frames ≠ [] → (first = true → fpW = 0) → (first = false → sn = seenAfter fpW []) →
    match feedFrames ⟨dec, prev, sn⟩ first frames acc with
    | .ok ⟨dec', r, sn'⟩ acc' => r = [] ∧ ∃ fs, acc' = acc ++ fs ∧ sn' = seenAfter fpW fs ∧
        blk dec fpW (prev ++ frames.flatten) = some (dec', fs)
    | .err _ => blk dec fpW (prev ++ frames.flatten) = none := by
  intro frames
  induction frames with
  | nil => intro dec prev sn first fpW acc h; exact absurd rfl h
  | cons p ps ih =>
    intro dec prev sn first fpW acc _ hfirst hcont
    -- what the frame loop knows about the block so far
    have hI : ((!(!first && sn)) = true ∧ 0 = 0) ↔ fpW = 0 := by
      cases first with
      | true => simp [hfirst rfl]
      | false =>
        have := hcont rfl
        subst this
        simp only [seenAfter, List.length_nil, Nat.add_zero, Bool.not_false, Bool.true_and]
        by_cases h0 : fpW = 0
        · simp [h0]
        · have : 0 < fpW := by omega
          simp [this, h0]
    cases ps with
    | nil =>
      have hg := loop_gen (prev ++ p).length dec (!(!first && sn)) true 0 fpW (prev ++ p) [] []
        (Nat.le_refl _) (fun _ => rfl) hI
      simp only [feedFrames, Block.feed, List.flatten_cons, List.flatten_nil, List.append_nil] at hg ⊢
      cases hl : Block.loop (prev ++ p).length dec (!(!first && sn)) true 0 (prev ++ p) [] with
      | err fs => simp only [hl] at hg ⊢; exact hg
      | ok s fs =>
        obtain ⟨dec', r, sn'⟩ := s
        simp only [hl] at hg ⊢
        obtain ⟨fs', hfs, hr, hsn, hb⟩ := hg
        have hr' : r = [] := by simpa using hr
        subst hr'
        simp only [List.nil_append] at hfs
        subst hfs
        refine ⟨rfl, fs, rfl, hsn, ?_⟩
        rw [hb]
        simp [blk, Spec.blockFuel]
    | cons q qs =>
      have hg := loop_gen (prev ++ p).length dec (!(!first && sn)) false 0 fpW (prev ++ p) (q :: qs).flatten []
        (Nat.le_refl _) (fun h => by cases h) hI
      have hflat : prev ++ (p :: q :: qs).flatten = (prev ++ p) ++ (q :: qs).flatten := by simp
      rw [hflat]
      simp only [feedFrames, Block.feed]
      cases hl : Block.loop (prev ++ p).length dec (!(!first && sn)) false 0 (prev ++ p) [] with
      | err fs => simp only [hl] at hg ⊢; exact hg
      | ok s fs =>
        obtain ⟨dec', r, sn'⟩ := s
        simp only [hl] at hg ⊢
        obtain ⟨fs', hfs, _, hsn, hb⟩ := hg
        simp only [List.nil_append] at hfs
        subst hfs
        have hsn' : sn' = seenAfter (fpW + fs.length) [] := by
          rw [hsn]; simp [seenAfter]
        have := ih dec' r sn' false (fpW + fs.length) (acc ++ fs) (by simp) (fun h => by cases h) (fun _ => hsn')
        rw [hb]
        cases hrec : feedFrames ⟨dec', r, sn'⟩ false (q :: qs) (acc ++ fs) with
        | err e => simp only [hrec] at this ⊢; rw [this]; rfl
        | ok s2 acc2 =>
          obtain ⟨dec2, r2, sn2⟩ := s2
          simp only [hrec] at this ⊢
          obtain ⟨hr2, fs2, hacc2, hsn2, hb2⟩ := this
          refine ⟨hr2, fs ++ fs2, by simp [hacc2], ?_, ?_⟩
          · rw [hsn2]; simp [seenAfter, Nat.add_assoc]
          · rw [hb2]; rfl

end H2.Hpack
