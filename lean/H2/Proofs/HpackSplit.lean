import H2.Proofs.HpackBlock
/-! Reassembly of a header block across frames: results on a prefix carry over to the whole. Core only. -/
namespace H2.Hpack
open H2

/-! ### prefix stability of the parsers -/

theorem readCont_append (m : Nat) : ∀ (b : Bytes) (i acc : Nat) (q : Bytes),
    (∀ v r, readCont m b i acc = .ok v r → readCont m (b ++ q) i acc = .ok v (r ++ q)) ∧
    (readCont m b i acc = .overflow → readCont m (b ++ q) i acc = .overflow) := by
  intro b
  induction b with
  | nil => intro i acc q; simp [readCont]
  | cons c cs ih =>
    intro i acc q
    simp only [List.cons_append]
    unfold readCont
    by_cases h1 : 7 * i ≥ 64
    · simp [h1]
    · by_cases h2 : acc + c % 128 * 2 ^ (7 * i) + m ≥ 2 ^ 64
      · simp [h1, h2]
      · by_cases h3 : c < 128
        · simp [h1, h2, h3]
        · simp only [h1, h2, h3, if_false]
          exact ih _ _ q

theorem readInt_append_ok (n : Nat) (b : Bytes) (v : Nat) (r q : Bytes) (h : readInt n b = .ok v r) :
    readInt n (b ++ q) = .ok v (r ++ q) := by
  cases b with
  | nil => simp [readInt] at h
  | cons b0 rest =>
    simp only [List.cons_append]
    unfold readInt at h ⊢
    simp only at h ⊢
    by_cases hne : b0 % 2 ^ n ≠ 2 ^ n - 1
    · rw [if_pos hne] at h ⊢
      injection h with h1 h2
      subst h1 h2; rfl
    · rw [if_neg hne] at h ⊢
      exact (readCont_append _ _ _ _ q).1 _ _ h

theorem readInt_append_overflow (n : Nat) (b q : Bytes) (h : readInt n b = .overflow) :
    readInt n (b ++ q) = .overflow := by
  cases b with
  | nil => simp [readInt] at h
  | cons b0 rest =>
    simp only [List.cons_append]
    unfold readInt at h ⊢
    simp only at h ⊢
    by_cases hne : b0 % 2 ^ n ≠ 2 ^ n - 1
    · rw [if_pos hne] at h
      cases h
    · rw [if_neg hne] at h ⊢
      exact (readCont_append _ _ _ _ q).2 h

theorem readString_append_ok (b s r q : Bytes) (h : readString b = .ok s r) :
    readString (b ++ q) = .ok s (r ++ q) := by
  cases b with
  | nil => simp [readString] at h
  | cons b0 rest =>
    simp only [List.cons_append]
    unfold readString at h ⊢
    cases hi : readInt 7 (b0 :: rest) with
    | needMore => simp [hi] at h
    | overflow => simp [hi] at h
    | ok n r' =>
      have hi' := readInt_append_ok 7 _ _ _ q hi
      simp only [List.cons_append] at hi'
      simp only [hi] at h
      simp only [hi']
      by_cases h1 : r'.length < n
      · simp [h1] at h
      · have h1' : ¬ (r' ++ q).length < n := by simp; omega
        have ht : (r' ++ q).take n = r'.take n := List.take_append_of_le_length (by omega)
        have hd : (r' ++ q).drop n = r'.drop n ++ q := List.drop_append_of_le_length (by omega)
        simp only [h1, if_false] at h
        simp only [h1', if_false, ht, hd]
        by_cases h2 : b0 ≥ 128
        · simp only [h2, if_true] at h ⊢
          cases hdz : Huffman.decode (r'.take n) with
          | none => simp [hdz] at h
          | some s' =>
            simp only [hdz] at h ⊢
            injection h with h3 h4
            subst h3 h4; rfl
        · simp only [h2, if_false] at h ⊢
          injection h with h3 h4
          subst h3 h4; rfl

theorem readString_append_err (b q : Bytes) (h : readString b = .err) : readString (b ++ q) = .err := by
  cases b with
  | nil => simp [readString] at h
  | cons b0 rest =>
    simp only [List.cons_append]
    unfold readString at h ⊢
    cases hi : readInt 7 (b0 :: rest) with
    | needMore => simp [hi] at h
    | overflow =>
      have hi' := readInt_append_overflow 7 _ q hi
      simp only [List.cons_append] at hi'
      simp [hi']
    | ok n r' =>
      have hi' := readInt_append_ok 7 _ _ _ q hi
      simp only [List.cons_append] at hi'
      simp only [hi] at h
      simp only [hi']
      by_cases h1 : r'.length < n
      · simp [h1] at h
      · have h1' : ¬ (r' ++ q).length < n := by simp; omega
        have ht : (r' ++ q).take n = r'.take n := List.take_append_of_le_length (by omega)
        simp only [h1, if_false] at h
        simp only [h1', if_false, ht]
        by_cases h2 : b0 ≥ 128
        · simp only [h2, if_true] at h ⊢
          cases hdz : Huffman.decode (r'.take n) with
          | none => simp
          | some s' => simp [hdz] at h
        · simp [h2] at h

end H2.Hpack

namespace H2.Hpack
open H2

theorem parseLiteral_append (valid : Nat → Bool) (m : Spec.Mode) (b q : Bytes) :
    (∀ r rest, Spec.parseLiteral valid m b = .ok r rest → Spec.parseLiteral valid m (b ++ q) = .ok r (rest ++ q)) ∧
    (Spec.parseLiteral valid m b = .invalid → Spec.parseLiteral valid m (b ++ q) = .invalid) := by
  unfold Spec.parseLiteral
  cases hi : readInt m.prefixBits b with
  | needMore => simp
  | overflow => simp [readInt_append_overflow _ _ q hi]
  | ok i r1 =>
    simp only [readInt_append_ok _ _ _ _ q hi]
    by_cases hz : i = 0
    · simp only [hz, if_true]
      cases r1 with
      | nil => simp
      | cons h1 t1 =>
        simp only [List.cons_append]
        cases hs : readString (h1 :: t1) with
        | needMore => simp
        | err =>
          have := readString_append_err _ q hs
          simp only [List.cons_append] at this
          simp [this]
        | ok n r2 =>
          have := readString_append_ok _ _ _ q hs
          simp only [List.cons_append] at this
          simp only [this]
          cases r2 with
          | nil => simp
          | cons h2 t2 =>
            simp only [List.cons_append]
            cases hs2 : readString (h2 :: t2) with
            | needMore => simp
            | err =>
              have := readString_append_err _ q hs2
              simp only [List.cons_append] at this
              simp [this]
            | ok v r3 =>
              have := readString_append_ok _ _ _ q hs2
              simp only [List.cons_append] at this
              simp only [this]
              constructor
              · intro r rest h; injection h with h1 h2; subst h1 h2; rfl
              · intro h; cases h
    · simp only [hz, if_false]
      by_cases hv : valid i
      · simp only [hv, Bool.not_true, Bool.false_eq_true, if_false]
        cases r1 with
        | nil => simp
        | cons h1 t1 =>
          simp only [List.cons_append]
          cases hs : readString (h1 :: t1) with
          | needMore => simp
          | err =>
            have := readString_append_err _ q hs
            simp only [List.cons_append] at this
            simp [this]
          | ok v r3 =>
            have := readString_append_ok _ _ _ q hs
            simp only [List.cons_append] at this
            simp only [this]
            constructor
            · intro r rest h; injection h with h1 h2; subst h1 h2; rfl
            · intro h; cases h
      · simp [hv]

theorem parse_append (valid : Nat → Bool) (b q : Bytes) :
    (∀ r rest, Spec.parse valid b = .ok r rest → Spec.parse valid (b ++ q) = .ok r (rest ++ q)) ∧
    (Spec.parse valid b = .invalid → Spec.parse valid (b ++ q) = .invalid) := by
  cases b with
  | nil => simp [Spec.parse]
  | cons c cs =>
    simp only [List.cons_append]
    unfold Spec.parse
    have hl := fun m => parseLiteral_append valid m (c :: cs) q
    simp only [List.cons_append] at hl
    by_cases h128 : c ≥ 128
    · simp only [h128, if_true]
      cases hi : readInt 7 (c :: cs) with
      | needMore => simp
      | overflow =>
        have := readInt_append_overflow _ _ q hi
        simp only [List.cons_append] at this
        simp [this]
      | ok i r =>
        have := readInt_append_ok _ _ _ _ q hi
        simp only [List.cons_append] at this
        simp only [this]
        constructor
        · intro r rest h; injection h with h1 h2; subst h1 h2; rfl
        · intro h; cases h
    · simp only [h128, if_false]
      by_cases h64 : c ≥ 64
      · simp only [h64, if_true]; exact hl _
      · simp only [h64, if_false]
        by_cases h32 : c ≥ 32
        · simp only [h32, if_true]
          cases hi : readInt 5 (c :: cs) with
          | needMore => simp
          | overflow =>
            have := readInt_append_overflow _ _ q hi
            simp only [List.cons_append] at this
            simp [this]
          | ok i r =>
            have := readInt_append_ok _ _ _ _ q hi
            simp only [List.cons_append] at this
            simp only [this]
            constructor
            · intro r rest h; injection h with h1 h2; subst h1 h2; rfl
            · intro h; cases h
        · simp only [h32, if_false]
          by_cases h16 : c ≥ 16
          · simp only [h16, if_true]; exact hl _
          · simp only [h16, if_false]; exact hl _

end H2.Hpack

namespace H2.Hpack
open H2

theorem parse_sizeUpdate_octet (valid : Nat → Bool) (c : Nat) (cs : Bytes) (n : Nat) (rest : Bytes)
    (hp : Spec.parse valid (c :: cs) = .ok (.sizeUpdate n) rest) : 32 ≤ c ∧ c < 64 := by
  unfold Spec.parse at hp
  by_cases h128 : c ≥ 128
  · simp only [h128, if_true] at hp
    cases hi : readInt 7 (c :: cs) <;> simp [hi] at hp
  · simp only [h128, if_false] at hp
    by_cases h64 : c ≥ 64
    · simp only [h64, if_true] at hp
      obtain ⟨_, _, _, hr⟩ := parseLiteral_shape _ _ _ _ _ hp
      cases hr
    · simp only [h64, if_false] at hp
      by_cases h32 : c ≥ 32
      · omega
      · simp only [h32, if_false] at hp
        by_cases h16 : c ≥ 16
        · simp only [h16, if_true] at hp
          obtain ⟨_, _, _, hr⟩ := parseLiteral_shape _ _ _ _ _ hp
          cases hr
        · simp only [h16, if_false] at hp
          obtain ⟨_, _, _, hr⟩ := parseLiteral_shape _ _ _ _ _ hp
          cases hr

/-- one representation, when a size update cannot be accepted here (not the start of a block, or the
first octet is not `001xxxxx`) -/
def oneRepr (st : DecState) (b : Bytes) : DecRes :=
  match Spec.parse (Spec.validIn st) b with
  | .incomplete => .needMore
  | .invalid => .err
  | .ok r rest =>
    match Spec.apply st 1 r with
    | some (st', some f) => .ok st' (some f) rest
    | _ => .err

theorem step_one (st : DecState) (bs : Bool) (fp c : Nat) (cs : Bytes)
    (hR : ¬ (bs = true ∧ fp = 0 ∧ 32 ≤ c ∧ c < 64)) :
    Spec.step st bs fp (c :: cs) = oneRepr st (c :: cs) := by
  unfold Spec.step oneRepr
  simp only [List.length_cons]
  unfold Spec.stepFuel
  cases hp : Spec.parse (Spec.validIn st) (c :: cs) with
  | incomplete => rfl
  | invalid => rfl
  | ok r rest =>
    simp only
    cases r with
    | indexed i =>
      simp only [Spec.apply]
      cases hl : Spec.lookup st.dyn i <;> simp
    | literal m nr v vh =>
      simp only [Spec.apply]
      cases nr with
      | idx i => cases hl : Spec.lookup st.dyn i <;> cases m <;> simp [hl]
      | lit n nh => cases m <;> simp
    | sizeUpdate n =>
      have hc := parse_sizeUpdate_octet _ _ _ _ _ hp
      have hk : (if bs = true then fp else fp + 1) ≠ 0 := by
        cases bs
        · simp
        · simp only [if_true]
          intro h0
          exact hR ⟨rfl, h0, hc.1, hc.2⟩
      simp [Spec.apply, hk]

theorem oneRepr_append_ok (st : DecState) (b q : Bytes) (st' : DecState) (o : Option Field) (rest : Bytes)
    (h : oneRepr st b = .ok st' o rest) : oneRepr st (b ++ q) = .ok st' o (rest ++ q) := by
  unfold oneRepr at h ⊢
  cases hp : Spec.parse (Spec.validIn st) b with
  | incomplete => simp [hp] at h
  | invalid => simp [hp] at h
  | ok r rest1 =>
    rw [(parse_append _ b q).1 _ _ hp]
    simp only [hp] at h
    simp only
    cases ha : Spec.apply st 1 r with
    | none => simp [ha] at h
    | some p =>
      obtain ⟨s1, o1⟩ := p
      cases o1 with
      | none => simp [ha] at h
      | some f =>
        simp only [ha] at h ⊢
        injection h with h1 h2 h3
        subst h1 h2 h3; rfl

theorem oneRepr_append_err (st : DecState) (b q : Bytes) (h : oneRepr st b = .err) : oneRepr st (b ++ q) = .err := by
  unfold oneRepr at h ⊢
  cases hp : Spec.parse (Spec.validIn st) b with
  | incomplete => simp [hp] at h
  | invalid => rw [(parse_append _ b q).2 hp]
  | ok r rest1 =>
    rw [(parse_append _ b q).1 _ _ hp]
    simp only [hp] at h
    simp only
    cases ha : Spec.apply st 1 r with
    | none => rfl
    | some p =>
      obtain ⟨s1, o1⟩ := p
      cases o1 with
      | none => rfl
      | some f => simp [ha] at h

theorem oneRepr_some (st : DecState) (b : Bytes) (st' : DecState) (o : Option Field) (rest : Bytes)
    (h : oneRepr st b = .ok st' o rest) : ∃ f, o = some f := by
  unfold oneRepr at h
  cases hp : Spec.parse (Spec.validIn st) b with
  | incomplete => simp [hp] at h
  | invalid => simp [hp] at h
  | ok r rest1 =>
    simp only [hp] at h
    cases ha : Spec.apply st 1 r with
    | none => simp [ha] at h
    | some p =>
      obtain ⟨s1, o1⟩ := p
      cases o1 with
      | none => simp [ha] at h
      | some f =>
        simp only [ha] at h
        injection h with _ h2 _
        exact ⟨f, h2.symm⟩

theorem blockFuel_fuel : ∀ (n : Nat) (st : DecState) (fp : Nat) (b : Bytes),
    b.length < n → Spec.blockFuel n st fp b = Spec.blockFuel (b.length + 1) st fp b := by
  intro n
  induction n using Nat.strongRecOn with
  | _ n ih =>
    intro st fp b h
    cases n with
    | zero => omega
    | succ n =>
      cases b with
      | nil => simp [Spec.blockFuel]
      | cons c cs =>
        simp only [List.length_cons, Spec.blockFuel]
        cases hs : Spec.step st true fp (c :: cs) with
        | needMore => rfl
        | err => rfl
        | ok st' o rest =>
          cases o with
          | none => rfl
          | some f =>
            have hlt := step_progress _ _ _ _ _ _ _ hs
            simp only [List.length_cons] at hlt h
            simp only
            rw [ih n (by omega) st' (fp + 1) rest (by omega), ih (cs.length + 1) (by omega) st' (fp + 1) rest (by omega)]

theorem afterUpdates_id (st : DecState) (bs : Bool) (fp : Nat) (b : Bytes)
    (hR : ∀ c cs, b = c :: cs → ¬ (bs = true ∧ fp = 0 ∧ 32 ≤ c ∧ c < 64)) : Dec.afterUpdates st bs fp b = st := by
  unfold Dec.afterUpdates
  cases b with
  | nil => simp [updFuel]
  | cons c cs =>
    simp only [List.length_cons, updFuel]
    by_cases hc : 32 ≤ c ∧ c < 64
    · simp only [hc, and_self, if_true]
      cases hi : readInt 5 (c :: cs) with
      | needMore => rfl
      | overflow => rfl
      | ok n r =>
        simp only
        have := hR c cs rfl
        cases bs
        · simp
        · by_cases hfp : fp = 0
          · exact absurd ⟨rfl, hfp, hc.1, hc.2⟩ this
          · have : fp > 0 := by omega
            simp [this]
    · simp [hc]

end H2.Hpack

namespace H2.Hpack
open H2

theorem upd_cons (c : Nat) (cs : Bytes) : Spec.startsWithUpdateOctet (c :: cs) = true ↔ (32 ≤ c ∧ c < 64) := by
  simp [Spec.startsWithUpdateOctet]

theorem map_prepend_nil (o : Option (DecState × List Field)) :
    o.map (fun p => (p.1, ([] : List Field) ++ p.2)) = o := by
  cases o <;> simp

/-- the loop of `handleHeaderFrame` over the octets at hand (`x`: carry-over plus this frame) against the
specification's decoding of the whole remaining block (`x ++ y`), where no size update can be accepted -/
theorem loop_gen : ∀ (m : Nat) (dec : DecState) (bs eh : Bool) (fpF fpW : Nat) (hf : Field) (x y : Bytes) (acc : List Field),
    x.length ≤ m → (eh = true → y = []) →
    (Spec.startsWithUpdateOctet x = true → fpW > 0 ∧ (bs = false ∨ fpF > 0)) →
    match Block.loop m dec bs eh fpF hf x acc with
    | .ok ⟨dec', r⟩ acc' => ∃ fs, acc' = acc ++ fs ∧ (eh = true → r = []) ∧
        (Spec.startsWithUpdateOctet r = true → fpW + fs.length > 0) ∧ (fs = [] → r = x) ∧
        Spec.blockFuel ((x ++ y).length + 1) dec fpW (x ++ y) =
          (Spec.blockFuel ((r ++ y).length + 1) dec' (fpW + fs.length) (r ++ y)).map (fun p => (p.1, fs ++ p.2))
    | .err _ => Spec.blockFuel ((x ++ y).length + 1) dec fpW (x ++ y) = none := by
  intro m
  induction m with
  | zero =>
    intro dec bs eh fpF fpW hf x y acc hm hy hx
    have : x = [] := List.eq_nil_of_length_eq_zero (by omega)
    subst this
    simp only [Block.loop]
    refine ⟨[], ?_, ?_, ?_, ?_, ?_⟩ <;> simp [Spec.startsWithUpdateOctet, map_prepend_nil]
  | succ m ih =>
    intro dec bs eh fpF fpW hf x y acc hm hy hx
    cases x with
    | nil =>
      simp only [Block.loop, List.isEmpty_nil, if_true]
      refine ⟨[], ?_, ?_, ?_, ?_, ?_⟩ <;> simp [Spec.startsWithUpdateOctet, map_prepend_nil]
    | cons c cs =>
      have hRF : ¬ (bs = true ∧ fpF = 0 ∧ 32 ≤ c ∧ c < 64) := by
        intro ⟨h1, h2, h3, h4⟩
        have := hx ((upd_cons c cs).2 ⟨h3, h4⟩)
        rcases this.2 with h | h
        · rw [h1] at h; cases h
        · omega
      have hRW : ¬ ((true : Bool) = true ∧ fpW = 0 ∧ 32 ≤ c ∧ c < 64) := by
        intro ⟨_, h2, h3, h4⟩
        have := hx ((upd_cons c cs).2 ⟨h3, h4⟩)
        omega
      have hF : Dec.next dec bs fpF (c :: cs) = oneRepr dec (c :: cs) := by
        rw [next_eq_step, step_one _ _ _ _ _ hRF]
      have hW : Spec.step dec true fpW (c :: (cs ++ y)) = oneRepr dec ((c :: cs) ++ y) := by
        rw [step_one _ _ _ _ _ hRW]; rfl
      simp only [Block.loop, List.isEmpty_cons, Bool.false_eq_true, if_false, hF, List.cons_append, List.length_cons]
      simp only [Spec.blockFuel, hW]
      cases ho : oneRepr dec (c :: cs) with
      | needMore =>
        simp only
        cases eh with
        | true =>
          simp only [if_true]
          have := hy rfl
          subst this
          simp [ho]
        | false =>
          simp only [Bool.false_eq_true, if_false]
          have hid : Dec.afterUpdates dec bs fpF (c :: cs) = dec := by
            apply afterUpdates_id
            intro c' cs' he
            injection he with h1 h2
            subst h1 h2
            exact hRF
          rw [hid]
          refine ⟨[], by simp, (fun h => by cases h), ?_, (fun _ => by simp), ?_⟩
          · intro hu
            have := hx hu
            simp; omega
          · simp only [List.length_nil, Nat.add_zero, List.cons_append, List.length_cons, Spec.blockFuel, hW, map_prepend_nil]
      | err =>
        simp only
        rw [oneRepr_append_err _ _ y ho]
      | ok dec1 o rest =>
        obtain ⟨f, rfl⟩ := oneRepr_some _ _ _ _ _ ho
        have hlt : rest.length < (c :: cs).length := by
          have hs : Spec.step dec bs fpF (c :: cs) = .ok dec1 (some f) rest := by rw [step_one _ _ _ _ _ hRF, ho]
          exact step_progress _ _ _ _ _ _ _ hs
        simp only [List.length_cons] at hlt hm
        simp only
        rw [oneRepr_append_ok _ _ y _ _ _ ho]
        simp only
        have hfu : Spec.blockFuel ((cs ++ y).length + 1) dec1 (fpW + 1) (rest ++ y) =
            Spec.blockFuel ((rest ++ y).length + 1) dec1 (fpW + 1) (rest ++ y) :=
          blockFuel_fuel _ _ _ _ (by simp only [List.length_append]; omega)
        rw [hfu]
        have := ih dec1 bs eh (fpF + 1) (fpW + 1) f rest y (acc ++ [f]) (by omega) hy (fun _ => ⟨by omega, Or.inr (by omega)⟩)
        cases hl : Block.loop m dec1 bs eh (fpF + 1) f rest (acc ++ [f]) with
        | err fs => simp only [hl] at this; rw [this]; rfl
        | ok s acc' =>
          obtain ⟨dec', r⟩ := s
          simp only [hl] at this
          obtain ⟨fs', hacc, hr, hu, _, hb⟩ := this
          refine ⟨f :: fs', by simp [hacc], hr, ?_, (fun h => by cases h), ?_⟩
          · intro h; simp only [List.length_cons]; omega
          · rw [hb]
            simp only [List.length_cons, Option.map_map]
            have e : fpW + 1 + fs'.length = fpW + (fs'.length + 1) := by omega
            rw [e]
            congr 1

end H2.Hpack

namespace H2.Hpack
open H2

/-- the frames of one header block: a HEADERS frame, then CONTINUATION frames; END_HEADERS on the last -/
def feedFrames : Block.State → Bool → List Bytes → List Field → Block.Res
  | st, _, [], acc => .ok st acc
  | st, first, [p], acc =>
    match Block.feed st (!first) true p with
    | .ok s fs => .ok s (acc ++ fs)
    | .err fs => .err (acc ++ fs)
  | st, first, p :: q :: ps, acc =>
    match Block.feed st (!first) false p with
    | .ok s fs => feedFrames s false (q :: ps) (acc ++ fs)
    | .err fs => .err (acc ++ fs)

theorem upd_append (x y : Bytes) (hx : x ≠ []) :
    Spec.startsWithUpdateOctet (x ++ y) = Spec.startsWithUpdateOctet x := by
  cases x with
  | nil => exact absurd rfl hx
  | cons c cs => rfl

theorem frames_gen : ∀ (frames : List Bytes) (dec : DecState) (prev : Bytes) (first : Bool) (fpW : Nat) (acc : List Field),
    frames ≠ [] → (first = true → prev = [] ∧ fpW = 0) →
    (Spec.startsWithUpdateOctet (prev ++ frames.flatten) = true → fpW > 0) →
    match feedFrames ⟨dec, prev⟩ first frames acc with
    | .ok ⟨dec', r⟩ acc' => r = [] ∧ ∃ fs, acc' = acc ++ fs ∧
        Spec.blockFuel ((prev ++ frames.flatten).length + 1) dec fpW (prev ++ frames.flatten) = some (dec', fs)
    | .err _ => Spec.blockFuel ((prev ++ frames.flatten).length + 1) dec fpW (prev ++ frames.flatten) = none := by
  intro frames
  induction frames with
  | nil => intro dec prev first fpW acc h; exact absurd rfl h
  | cons p ps ih =>
    intro dec prev first fpW acc _ hfirst hupd
    -- the loop over `prev ++ p`, with the rest of the block behind it
    have hx : ∀ y, prev ++ (p :: ps).flatten = (prev ++ p) ++ y → Spec.startsWithUpdateOctet (prev ++ p) = true →
        fpW > 0 ∧ ((!(!first) && prev.isEmpty) = false ∨ 0 > 0) := by
      intro y hy hu
      have hne : prev ++ p ≠ [] := by
        intro h; rw [h] at hu; simp [Spec.startsWithUpdateOctet] at hu
      have h1 : fpW > 0 := hupd (by rw [hy, upd_append _ _ hne]; exact hu)
      refine ⟨h1, Or.inl ?_⟩
      cases first with
      | false => rfl
      | true => have := (hfirst rfl).2; omega
    cases ps with
    | nil =>
      have hg := loop_gen (prev ++ p).length dec (!(!first) && prev.isEmpty) true 0 fpW ⟨[], [], false⟩ (prev ++ p) [] []
        (Nat.le_refl _) (fun _ => rfl) (hx [] (by simp))
      simp only [feedFrames, Block.feed, List.flatten_cons, List.flatten_nil, List.append_nil] at hg ⊢
      cases hl : Block.loop (prev ++ p).length dec (!(!first) && prev.isEmpty) true 0 ⟨[], [], false⟩ (prev ++ p) [] with
      | err fs => simp only [hl] at hg ⊢; exact hg
      | ok s fs =>
        obtain ⟨dec', r⟩ := s
        simp only [hl] at hg ⊢
        obtain ⟨fs', hfs, hr, _, _, hb⟩ := hg
        have hr' : r = [] := by simpa using hr
        subst hr'
        simp only [List.nil_append] at hfs
        subst hfs
        refine ⟨rfl, fs, rfl, ?_⟩
        rw [hb]
        simp [Spec.blockFuel]
    | cons q qs =>
      have hg := loop_gen (prev ++ p).length dec (!(!first) && prev.isEmpty) false 0 fpW ⟨[], [], false⟩ (prev ++ p) (q :: qs).flatten []
        (Nat.le_refl _) (fun h => by cases h) (hx (q :: qs).flatten (by simp))
      have hflat : prev ++ (p :: q :: qs).flatten = (prev ++ p) ++ (q :: qs).flatten := by simp
      rw [hflat]
      simp only [feedFrames, Block.feed]
      cases hl : Block.loop (prev ++ p).length dec (!(!first) && prev.isEmpty) false 0 ⟨[], [], false⟩ (prev ++ p) [] with
      | err fs => simp only [hl] at hg ⊢; exact hg
      | ok s fs =>
        obtain ⟨dec', r⟩ := s
        simp only [hl] at hg ⊢
        obtain ⟨fs', hfs, _, hu, hnil, hb⟩ := hg
        simp only [List.nil_append] at hfs
        subst hfs
        have hupd' : Spec.startsWithUpdateOctet (r ++ (q :: qs).flatten) = true → fpW + fs.length > 0 := by
          intro h
          by_cases hrn : r = []
          · by_cases hfn : fs = []
            · have hxe := hnil hfn
              rw [hrn] at hxe
              have : fpW > 0 := hupd (by rw [hflat, ← hxe]; rw [hrn] at h; exact h)
              omega
            · have : 0 < fs.length := List.length_pos_iff.mpr hfn
              omega
          · rw [upd_append _ _ hrn] at h
            exact hu h
        have := ih dec' r false (fpW + fs.length) (acc ++ fs) (by simp) (fun h => by cases h) hupd'
        rw [hb]
        cases hrec : feedFrames ⟨dec', r⟩ false (q :: qs) (acc ++ fs) with
        | err e => simp only [hrec] at this ⊢; rw [this]; rfl
        | ok s2 acc2 =>
          obtain ⟨dec2, r2⟩ := s2
          simp only [hrec] at this ⊢
          obtain ⟨hr2, fs2, hacc2, hb2⟩ := this
          refine ⟨hr2, fs ++ fs2, by simp [hacc2], ?_⟩
          rw [hb2]; rfl

end H2.Hpack
