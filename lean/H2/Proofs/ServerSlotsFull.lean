import H2.Proofs.ServerOnce
/-!
# Slot accounting (C13) and GOAWAY truth (C10), proved directly on the FULL server model

Everything here is about `H2.Server.step` (`H2/Server/Model.lean`), for EVERY configuration and EVERY event list
(`run cfg evs` / `runOuts cfg evs` of `ServerOnce.lean`): no abstract model, no lockstep check in between.

* Part 1: the invariant `SF cfg G L r` on the state (and the outputs of the current step). `G` is the list of
  last-stream-ids of the GOAWAY frames written in earlier steps, `L` the value of `lastID` when the step began. It is
  self-contained (it carries its own "one table entry per uid / per id", "uid < nextUid", "id ≤ lastID" clauses), so
  the preservation lemmas do not need the invariant `Inv` of `ServerOnce.lean`; only the run-level GOAWAY theorems
  use `dispatched_le_lastID` from there.
* Part 2: preservation by every function of the model (`…_sf`), in the order of `Model.lean`.
* Part 3: runs: the slot theorems (`open_slots_are_table_plus_abandoned`, `open_slots_within_limit`,
  `handlers_within_limit`, `ring_bounded`, `stream_objects_distinct`, `dispatched_body_within_limit`,
  `buffered_body_within_limit`) and the GOAWAY theorems (`goaway_covers_dispatched`,
  `no_dispatch_after_goaway_above_last`, `goaway_ge_every_dispatch`, `goaway_ge_lastID`, `closing_is_permanent`,
  `closing_iff_goaway`, `no_new_stream_after_goaway`).
* Part 4: non-vacuity on concrete runs (`Ex.gaRun`, `Ex.slotRun`, `Ex.bodyRun`).

Notes for whoever extends this: a new clause that only looks at the state goes into `SF`; then `SF.congrB`, `SF.emit`,
`SF.upd`, `writeGoAway_sf`, `closeStream_sf`, `new_sf` and the abandoned branch of `slHandlerDone_sf` are the only
places that build an `SF` field by field. A clause about one stream's fields goes into `Sl`/`GoodT`. A clause that is
broken between two functions (as the header-list limit is between `handleFrame` and `onFrameError`) is better kept in
an invariant of its own: see `ServerHdrLimitFull.lean` (`HL`/`HLw`).
-/
namespace H2.Server

/-! ## Part 1 — the invariant -/

/-- the last-stream-id of a GOAWAY frame -/
def pG : Out → Option Nat
  | .goAway l _ _ => some l
  | _ => none

theorem pG_only : Only pG [.goAway] := by
  intro o h; cases o <;> simp_all [Out.kind, pG]

/-- what the slot accounting needs of a stream: uid, id, the type of the frame that opened it, octets of body
buffered, octets of DATA received -/
structure Sl where
  uid : Nat
  id : Nat
  ot : Nat
  blen : Nat
  recv : Nat

def Strm.sl (st : Strm) : Sl := ⟨st.uid, st.id, st.origType, st.body.len, st.recvBody⟩

def sls (r : R) : List Sl := r.s.strms.map Strm.sl

/-- a table entry is in order: opened by HEADERS (so it holds a slot), and its buffered body is no longer than
what was received and within MaxRequestBodySize when a limit is set -/
def GoodT (cfg : Cfg) (t : Sl) : Prop :=
  t.ot = Gen.c_FrameHeaders ∧ t.blen ≤ t.recv ∧ (cfg.maxBody > 0 → t.blen ≤ cfg.maxBody)

/-- an output is in order: a dispatch record carries a body within MaxRequestBodySize when a limit is set -/
def OutOK (cfg : Cfg) : Out → Prop
  | .dispatch _ _ _ _ _ b => cfg.maxBody > 0 → b.len ≤ cfg.maxBody
  | _ => True

/-- the rest of the state the invariant looks at -/
def Srv.rest (s : Srv) : List Strm × Int × Nat × List Nat × List Nat × Cfg × Nat × Bool :=
  (s.abandoned, s.openStreams, s.nextUid, s.ring, s.resetByUs, s.cfg, s.lastID, s.closing)

def Srv.rest2 (s : Srv) : List Strm × Int × Nat × Cfg × Nat × Bool :=
  (s.abandoned, s.openStreams, s.nextUid, s.cfg, s.lastID, s.closing)

structure SF (cfg : Cfg) (G : List Nat) (L : Nat) (r : R) : Prop where
  /-- the configuration never changes -/
  cf : r.s.cfg = cfg
  /-- the table holds each stream object once, each id once; uids were handed out before, ids are at most `lastID` -/
  tun : ((sls r).map (·.uid)).Nodup
  tid : ((sls r).map (·.id)).Nodup
  tlt : ∀ t ∈ sls r, t.uid < r.s.nextUid ∧ t.id ≤ r.s.lastID
  good : ∀ t ∈ sls r, GoodT cfg t
  /-- abandoned streams: opened by HEADERS, handler still running, a uid handed out before -/
  ab : ∀ a ∈ r.s.abandoned, a.origType = Gen.c_FrameHeaders ∧ a.handlerRunning = true ∧ a.uid < r.s.nextUid
  /-- `openStreams` is the number of live stream objects: table plus abandoned -/
  cnt : r.s.openStreams = (((sls r).length + r.s.abandoned.length : Nat) : Int)
  lim : r.s.openStreams ≤ (cfg.maxStreams : Int)
  anodup : (r.s.abandoned.map (·.uid)).Nodup
  adisj : ∀ a ∈ r.s.abandoned, ∀ t ∈ sls r, a.uid ≠ t.uid
  ring : r.s.ring.length ≤ Gen.c_closedStrmsCap
  rbu : r.s.resetByUs.length ≤ Gen.c_closedStrmsCap
  bo : ∀ o ∈ r.out, OutOK cfg o
  /-- `lastID` is a 31-bit stream id (so `writeGoAway` does not truncate it) -/
  llt : r.s.lastID < 2 ^ 31
  /-- every GOAWAY written so far names at least `lastID` -/
  gge : ∀ l ∈ G ++ fm pG r.out, r.s.lastID ≤ l
  /-- `closing` is set exactly when a GOAWAY has been written -/
  gcl : G ++ fm pG r.out ≠ [] ↔ r.s.closing = true
  /-- once a GOAWAY has been written (in an earlier step) `lastID` stays what it was (`L`): no stream is created -/
  fro : G ≠ [] → r.s.lastID = L

section
variable {cfg : Cfg} {G : List Nat} {L : Nat} {r r' : R}

/-- the state may differ in the ring / the reset list (bounds given) and in what the invariant does not look at -/
theorem SF.congrB (h : SF cfg G L r) (hs : sls r' = sls r) (hr : r'.s.rest2 = r.s.rest2) (ho : r'.out = r.out)
    (hring : r'.s.ring.length ≤ Gen.c_closedStrmsCap) (hrbu : r'.s.resetByUs.length ≤ Gen.c_closedStrmsCap) :
    SF cfg G L r' := by
  simp only [Srv.rest2, Prod.mk.injEq] at hr
  obtain ⟨h1, h2, h3, h6, h7, h8⟩ := hr
  exact {
    cf := by rw [h6]; exact h.cf
    tun := by rw [hs]; exact h.tun
    tid := by rw [hs]; exact h.tid
    tlt := by rw [hs, h3, h7]; exact h.tlt
    good := by rw [hs]; exact h.good
    ab := by rw [h1, h3]; exact h.ab
    cnt := by rw [h1, h2, hs]; exact h.cnt
    lim := by rw [h2]; exact h.lim
    anodup := by rw [h1]; exact h.anodup
    adisj := by rw [h1, hs]; exact h.adisj
    ring := hring
    rbu := hrbu
    bo := by rw [ho]; exact h.bo
    llt := by rw [h7]; exact h.llt
    gge := by rw [h7, ho]; exact h.gge
    gcl := by rw [h8, ho]; exact h.gcl
    fro := by rw [h7]; exact h.fro }

theorem SF.congr (h : SF cfg G L r) (hs : sls r' = sls r) (hr : r'.s.rest = r.s.rest) (ho : r'.out = r.out) :
    SF cfg G L r' := by
  simp only [Srv.rest, Prod.mk.injEq] at hr
  obtain ⟨h1, h2, h3, h4, h5, h6, h7, h8⟩ := hr
  exact h.congrB hs (by simp only [Srv.rest2, h1, h2, h3, h6, h7, h8]) ho (by rw [h4]; exact h.ring) (by rw [h5]; exact h.rbu)

/-- an output that is no GOAWAY -/
theorem SF.emit (h : SF cfg G L r) (o : Out) (hg : pG o = none) (hk : OutOK cfg o) : SF cfg G L (r.emit o) :=
  { h with
    bo := by
      intro x hx
      simp only [R.emit, List.mem_append, List.mem_singleton] at hx
      rcases hx with hx | rfl
      · exact h.bo x hx
      · exact hk
    gge := by simpa [R.emit, hg] using h.gge
    gcl := by simpa [R.emit, hg] using h.gcl
    fro := h.fro }

theorem SF.uidNodup (h : SF cfg G L r) : (r.s.strms.map (·.uid)).Nodup := by
  have := h.tun
  simpa [sls, List.map_map, Function.comp_def, Strm.sl] using this

theorem SF.idNodup (h : SF cfg G L r) : (r.s.strms.map (·.id)).Nodup := by
  have := h.tid
  simpa [sls, List.map_map, Function.comp_def, Strm.sl] using this

/-- the skeletons after an update: every entry with that uid is replaced by the image of `f` -/
theorem sls_upd (r : R) (uid : Nat) (f : Strm → Strm) :
    sls (r.updStrm uid f) = r.s.strms.map fun x => if x.uid == uid then (f x).sl else x.sl := by
  simp only [sls, R.updStrm, List.map_map]
  apply List.map_congr_left
  intro x _
  simp only [Function.comp]
  split <;> rfl

/-- **in-place update**: the entries with uid `uid` are replaced by entries with the same uid and id that are in order -/
theorem SF.upd (h : SF cfg G L r) (uid : Nat) (f : Strm → Strm)
    (hf : ∀ x ∈ r.s.strms, x.uid = uid → (f x).uid = x.uid ∧ (f x).id = x.id ∧ GoodT cfg (f x).sl) :
    SF cfg G L (r.updStrm uid f) := by
  have hmem : ∀ t ∈ sls (r.updStrm uid f), ∃ x ∈ r.s.strms, t.uid = x.uid ∧ t.id = x.id ∧ (t = x.sl ∨ (x.uid = uid ∧ t = (f x).sl)) := by
    intro t ht
    rw [sls_upd] at ht
    obtain ⟨x, hx, rfl⟩ := List.mem_map.mp ht
    refine ⟨x, hx, ?_⟩
    by_cases hu : x.uid = uid
    · have hb : (x.uid == uid) = true := by simpa using hu
      rw [if_pos hb]
      exact ⟨(hf x hx hu).1, (hf x hx hu).2.1, Or.inr ⟨hu, rfl⟩⟩
    · have hb : ¬ (x.uid == uid) = true := by simpa using hu
      rw [if_neg hb]
      exact ⟨rfl, rfl, Or.inl rfl⟩
  have huid : (sls (r.updStrm uid f)).map (·.uid) = (sls r).map (·.uid) := by
    rw [sls_upd]
    simp only [sls, List.map_map]
    apply List.map_congr_left
    intro x hx
    simp only [Function.comp]
    split
    · rename_i hu; exact (hf x hx (by simpa using hu)).1
    · rfl
  have hid : (sls (r.updStrm uid f)).map (·.id) = (sls r).map (·.id) := by
    rw [sls_upd]
    simp only [sls, List.map_map]
    apply List.map_congr_left
    intro x hx
    simp only [Function.comp]
    split
    · rename_i hu; exact (hf x hx (by simpa using hu)).2.1
    · rfl
  have hlen : (sls (r.updStrm uid f)).length = (sls r).length := by simp [sls, R.updStrm]
  exact {
    cf := h.cf
    tun := by rw [huid]; exact h.tun
    tid := by rw [hid]; exact h.tid
    tlt := by
      intro t ht
      obtain ⟨x, hx, e1, e2, _⟩ := hmem t ht
      rw [e1, e2]; exact h.tlt x.sl (List.mem_map_of_mem hx)
    good := by
      intro t ht
      obtain ⟨x, hx, _, _, e | ⟨hu, e⟩⟩ := hmem t ht
      · rw [e]; exact h.good _ (List.mem_map_of_mem hx)
      · rw [e]; exact (hf x hx hu).2.2
    ab := h.ab
    cnt := by rw [hlen]; exact h.cnt
    lim := h.lim
    anodup := h.anodup
    adisj := by
      intro a ha t ht
      obtain ⟨x, hx, e1, _, _⟩ := hmem t ht
      rw [e1]; exact h.adisj a ha _ (List.mem_map_of_mem hx)
    ring := h.ring
    rbu := h.rbu
    bo := h.bo
    llt := h.llt
    gge := h.gge
    gcl := h.gcl
    fro := h.fro }

/-- an update that keeps uid, id, opening frame type, body and DATA count -/
theorem SF.updK (h : SF cfg G L r) (uid : Nat) (f : Strm → Strm) (hf : ∀ x, (f x).sl = x.sl) : SF cfg G L (r.updStrm uid f) :=
  h.upd uid f fun x hx _ => by
    rw [hf x]
    exact ⟨congrArg Sl.uid (hf x), congrArg Sl.id (hf x), h.good _ (List.mem_map_of_mem hx)⟩

/-- what `getStrm uid = some st` gives: membership, the uid, and that `st` is the only entry with that uid -/
theorem getStrm_mem {uid : Nat} {st : Strm} (hg : r.getStrm uid = some st) : st ∈ r.s.strms ∧ st.uid = uid := by
  refine ⟨List.mem_of_find?_eq_some hg, ?_⟩
  have := List.find?_some hg
  simpa using this

theorem SF.the (h : SF cfg G L r) {uid : Nat} {st : Strm} (hg : r.getStrm uid = some st) :
    ∀ x ∈ r.s.strms, x.uid = uid → x = st :=
  find_uid_unique _ _ _ h.uidNodup hg

/-- replacing the stream `getStrm uid` returns by a stream with the same uid and id that is in order -/
theorem SF.updG (h : SF cfg G L r) (uid : Nat) (st st' : Strm) (hg : r.getStrm uid = some st)
    (h1 : st'.uid = st.uid) (h2 : st'.id = st.id) (h3 : GoodT cfg st'.sl) : SF cfg G L (r.updStrm uid fun _ => st') := by
  refine h.upd uid _ fun x hx hu => ?_
  rw [h.the hg x hx hu]
  exact ⟨h1, h2, h3⟩

theorem SF.good_of (h : SF cfg G L r) {uid : Nat} {st : Strm} (hg : r.getStrm uid = some st) : GoodT cfg st.sl :=
  h.good _ (List.mem_map_of_mem (getStrm_mem hg).1)

/-- replacing the stream `getStrm uid` returns by a stream with the same slot skeleton -/
theorem SF.updC (h : SF cfg G L r) (uid : Nat) (st st' : Strm) (hg : r.getStrm uid = some st) (hs : st'.sl = st.sl) :
    SF cfg G L (r.updStrm uid fun _ => st') :=
  h.updG uid st st' hg (congrArg Sl.uid hs) (congrArg Sl.id hs) (by rw [hs]; exact h.good_of hg)

end

/-! ## Part 2 — preservation, function by function -/

section Pres
variable {cfg : Cfg} {G : List Nat} {L : Nat} {r : R}

theorem rbu_len (l : List Nat) (sid : Nat) (h : l.length ≤ Gen.c_closedStrmsCap) :
    (if (if l.length ≥ Gen.c_closedStrmsCap then [] else l).contains sid
      then (if l.length ≥ Gen.c_closedStrmsCap then [] else l)
      else (if l.length ≥ Gen.c_closedStrmsCap then [] else l) ++ [sid]).length ≤ Gen.c_closedStrmsCap := by
  by_cases hc : l.length ≥ Gen.c_closedStrmsCap
  · rw [if_pos hc]; simp [Gen.c_closedStrmsCap]
  · rw [if_neg hc]
    split
    · exact h
    · simp only [List.length_append, List.length_singleton]; omega

theorem writeReset_sf (sid code : Nat) (h : SF cfg G L r) : SF cfg G L (writeReset r sid code) := by
  have h1 := h.emit (.rst sid code) rfl trivial
  exact h1.congrB (r' := writeReset r sid code) rfl rfl rfl h.ring (rbu_len _ _ h.rbu)


theorem writeGoAway_keeps (r : R) (sid code : Nat) (tag : String) :
    (writeGoAway r sid code tag).s.strms = r.s.strms ∧ (writeGoAway r sid code tag).s.abandoned = r.s.abandoned ∧
    (writeGoAway r sid code tag).s.openStreams = r.s.openStreams ∧ (writeGoAway r sid code tag).s.nextUid = r.s.nextUid ∧
    (writeGoAway r sid code tag).s.ring = r.s.ring ∧ (writeGoAway r sid code tag).s.resetByUs = r.s.resetByUs ∧
    (writeGoAway r sid code tag).s.cfg = r.s.cfg ∧ (writeGoAway r sid code tag).s.lastID = r.s.lastID ∧
    (writeGoAway r sid code tag).s.closing = true := by
  unfold writeGoAway
  simp only []
  split <;> exact ⟨rfl, rfl, rfl, rfl, rfl, rfl, rfl, rfl, trivial⟩

/-- **a GOAWAY**: it names `max(sid, lastID)`, which is at least `lastID` (both are 31-bit ids), and sets `closing` -/
theorem writeGoAway_sf (sid code : Nat) (tag : String) (hs : sid < 2 ^ 31) (h : SF cfg G L r) :
    SF cfg G L (writeGoAway r sid code tag) := by
  obtain ⟨k1, k2, k3, k4, k5, k6, k7, k8, k9⟩ := writeGoAway_keeps r sid code tag
  have hl := h.llt
  have hge : r.s.lastID ≤ (if sid > r.s.lastID then sid else r.s.lastID) % 2 ^ 31 := by
    split
    · rw [Nat.mod_eq_of_lt hs]; omega
    · rw [Nat.mod_eq_of_lt hl]; exact Nat.le_refl _
  exact {
    cf := by rw [k7]; exact h.cf
    tun := by simp only [sls, k1]; exact h.tun
    tid := by simp only [sls, k1]; exact h.tid
    tlt := by simp only [sls, k1, k4, k8]; exact h.tlt
    good := by simp only [sls, k1]; exact h.good
    ab := by rw [k2, k4]; exact h.ab
    cnt := by simp only [sls, k1, k2, k3]; exact h.cnt
    lim := by rw [k3]; exact h.lim
    anodup := by rw [k2]; exact h.anodup
    adisj := by simp only [sls, k1, k2]; exact h.adisj
    ring := by rw [k5]; exact h.ring
    rbu := by rw [k6]; exact h.rbu
    bo := by
      intro x hx
      rw [writeGoAway_out] at hx
      rcases List.mem_append.mp hx with hx | hx
      · exact h.bo x hx
      · simp only [List.mem_singleton] at hx; subst hx; trivial
    llt := by rw [k8]; exact hl
    gge := by
      intro l hl'
      rw [k8]
      rw [writeGoAway_out, fm_append, ← List.append_assoc] at hl'
      rcases List.mem_append.mp hl' with hl' | hl'
      · exact h.gge l hl'
      · simp only [fm_single, pG, Option.toList, List.mem_singleton] at hl'
        subst hl'; exact hge
    gcl := by
      rw [k9, writeGoAway_out]
      simp [pG]
    fro := by rw [k8]; exact h.fro }

/-- `writeError` for a stream whose id is at most `lastID` (every stream of the table: `Inv.ile`) -/
theorem writeError_sf (uid : Nat) (e : SErr) (hid : ∀ st, r.getStrm uid = some st → st.id ≤ r.s.lastID) (h : SF cfg G L r) :
    SF cfg G L (writeError r uid e) := by
  unfold writeError
  split
  · exact h
  · rename_i st hg
    have hlt : st.id < 2 ^ 31 := Nat.lt_of_le_of_lt (hid st hg) h.llt
    cases e with
    | goAway code tag => exact (writeGoAway_sf _ _ _ hlt h).updK _ _ fun _ => rfl
    | reset code => exact (writeReset_sf _ _ h).updK _ _ fun _ => rfl

theorem markClosed_len (ring : List Nat) (id : Nat) (h : ring.length ≤ Gen.c_closedStrmsCap) :
    (markClosed ring id).length ≤ Gen.c_closedStrmsCap := by
  unfold markClosed
  split
  · exact h
  · split
    · simp only [List.length_append, List.length_singleton]; omega
    · simp only [List.length_append, List.length_singleton, List.length_drop]
      simp only [Gen.c_closedStrmsCap] at *; omega

/-- with one table entry per id, `Streams.Del(st.id)` removes `st` and nothing else -/
theorem delFirst_spec (l : List Strm) (st : Strm) (hm : st ∈ l) (hn : (l.map (·.id)).Nodup) :
    (delFirst l st.id).length + 1 = l.length ∧ ∀ x ∈ delFirst l st.id, x ∈ l ∧ x.id ≠ st.id := by
  induction l with
  | nil => cases hm
  | cons a l ih =>
    simp only [List.map_cons, List.nodup_cons] at hn
    simp only [delFirst]
    by_cases ha : a.id = st.id
    · simp only [ha, beq_self_eq_true, if_true]
      refine ⟨rfl, fun x hx => ⟨List.mem_cons_of_mem _ hx, fun hxe => ?_⟩⟩
      exact hn.1 (List.mem_map.mpr ⟨x, hx, by rw [hxe, ha]⟩)
    · have hb : (a.id == st.id) = false := by simpa using ha
      simp only [hb, Bool.false_eq_true, if_false]
      have hm' : st ∈ l := by
        rcases List.mem_cons.mp hm with rfl | hm'
        · exact absurd rfl ha
        · exact hm'
      obtain ⟨i1, i2⟩ := ih hm' hn.2
      refine ⟨by simp only [List.length_cons]; omega, fun x hx => ?_⟩
      rcases List.mem_cons.mp hx with rfl | hx
      · exact ⟨List.mem_cons_self, ha⟩
      · exact ⟨List.mem_cons_of_mem _ (i2 x hx).1, (i2 x hx).2⟩

/-- **closeStream**: the entry leaves the table; it gives its slot back at once, or — its handler still running —
moves to `abandoned` and keeps it -/
theorem closeStream_sf (uid : Nat) (h : SF cfg G L r) : SF cfg G L (closeStream r uid) := by
  unfold closeStream
  split
  · exact h
  · rename_i st hg
    obtain ⟨hm, hu⟩ := getStrm_mem hg
    obtain ⟨d1, d2⟩ := delFirst_spec r.s.strms st hm h.idNodup
    have hgood := h.good _ (List.mem_map_of_mem hm)
    have hot : st.origType = Gen.c_FrameHeaders := hgood.1
    have hne : ∀ x ∈ delFirst r.s.strms st.id, st.uid ≠ x.uid := by
      intro x hx hxe
      exact (d2 x hx).2 (congrArg (·.id) (nodup_map_inj (·.uid) _ h.uidNodup x st (d2 x hx).1 hm hxe.symm))
    have hlen : (delFirst r.s.strms st.id).length + 1 = (sls r).length := by simp only [sls, List.length_map]; exact d1
    have hsub : ∀ t ∈ (delFirst r.s.strms st.id).map Strm.sl, t ∈ sls r := by
      intro t ht
      obtain ⟨x, hx, rfl⟩ := List.mem_map.mp ht
      exact List.mem_map_of_mem (d2 x hx).1
    have hring := markClosed_len r.s.ring st.id h.ring
    simp only []
    split
    · rename_i hrun
      exact {
        cf := h.cf
        tun := h.tun.sublist (((delFirst_sublist _ _).map _).map _)
        tid := h.tid.sublist (((delFirst_sublist _ _).map _).map _)
        tlt := fun t ht => h.tlt t (hsub t ht)
        good := fun t ht => h.good t (hsub t ht)
        ab := by
          intro a ha
          rcases List.mem_append.mp ha with ha | ha
          · exact h.ab a ha
          · simp only [List.mem_singleton] at ha; subst ha
            exact ⟨hot, hrun, (h.tlt a.sl (List.mem_map_of_mem hm)).1⟩
        cnt := by
          have := h.cnt
          simp only [sls, List.length_map, List.length_append, List.length_singleton] at this hlen ⊢
          rw [this]; congr 1; omega
        lim := h.lim
        anodup := by
          simp only [List.map_append, List.map_cons, List.map_nil]
          rw [List.nodup_append]
          refine ⟨h.anodup, by simp, ?_⟩
          intro a ha b hb
          simp only [List.mem_singleton] at hb; subst hb
          obtain ⟨a0, ha0, rfl⟩ := List.mem_map.mp ha
          have := h.adisj a0 ha0 st.sl (List.mem_map_of_mem hm)
          exact this
        adisj := by
          intro a ha t ht
          rcases List.mem_append.mp ha with ha | ha
          · exact h.adisj a ha t (hsub t ht)
          · simp only [List.mem_singleton] at ha; subst ha
            obtain ⟨x, hx, rfl⟩ := List.mem_map.mp ht
            exact hne x hx
        ring := hring
        rbu := h.rbu
        bo := h.bo
        llt := h.llt
        gge := h.gge
        gcl := h.gcl
        fro := h.fro }
    · have hb : (st.origType == Gen.c_FrameHeaders) = true := by rw [hot]; rfl
      unfold releaseStream
      simp only [hb, if_true]
      exact {
        cf := h.cf
        tun := h.tun.sublist (((delFirst_sublist _ _).map _).map _)
        tid := h.tid.sublist (((delFirst_sublist _ _).map _).map _)
        tlt := fun t ht => h.tlt t (hsub t ht)
        good := fun t ht => h.good t (hsub t ht)
        ab := h.ab
        cnt := by
          have := h.cnt
          simp only [sls, List.length_map] at this hlen ⊢
          rw [this]; omega
        lim := by have := h.lim; show r.s.openStreams - 1 ≤ _; omega
        anodup := h.anodup
        adisj := fun a ha t ht => h.adisj a ha t (hsub t ht)
        ring := hring
        rbu := h.rbu
        bo := h.bo
        llt := h.llt
        gge := h.gge
        gcl := h.gcl
        fro := h.fro }


/-! ### sending the response -/

theorem refillRead_sl (st : Strm) (bs : BodyStream) : (refillRead st bs).sl = st.sl := by
  simp only [refillRead]; split <;> rfl

theorem closeBody_sf (uid : Nat) (h : SF cfg G L r) : SF cfg G L (closeBody r uid) :=
  h.updK _ _ fun _ => rfl

theorem refill_sf (uid : Nat) (st : Strm) (hg : r.getStrm uid = some st) (h : SF cfg G L r) :
    SF cfg G L (refill r uid st).1 := by
  rw [refill_eq]
  repeat' split
  all_goals first
    | exact h
    | exact writeReset_sf _ _ (h.updC uid st _ hg rfl)
    | exact (h.updC uid st _ hg (refillRead_sl st _)).emit _ rfl trivial
    | exact h.updC uid st _ hg (refillRead_sl st _)

theorem sendFrame_sf (uid : Nat) (st : Strm) (step : Nat) (h : SF cfg G L r) : SF cfg G L (sendFrame r uid st step).1 := by
  rw [sendFrame_eq]
  refine SF.congr (r := (r.updStrm uid fun s => { s with pendOff := s.pendOff + step, pendLen := st.pendLen - step, window := s.window - step }).emit
      (.data st.id (st.pendingEnd && st.pendLen - step == 0) step (st.src.digest st.pendOff step))) ?_ rfl rfl rfl
  exact (h.updK uid _ (by intro; rfl)).emit _ rfl trivial

theorem sendDataFuel_sf (fuel : Nat) (uid : Nat) (h : SF cfg G L r) : SF cfg G L (sendDataFuel fuel r uid).1 := by
  induction fuel generalizing r with
  | zero => exact h
  | succ n ih =>
    rw [sendDataFuel_succ]
    split
    · exact h
    · rename_i st0 hg
      have h1 := refill_sf uid st0 hg h
      repeat' split
      all_goals first
        | exact h1
        | exact closeBody_sf _ h1
        | exact closeBody_sf _ (sendFrame_sf _ _ _ h1)
        | exact ih (sendFrame_sf _ _ _ h1)

theorem sendData_sf (uid : Nat) (h : SF cfg G L r) : SF cfg G L (sendData r uid).1 := by
  simp only [sendData]
  split
  · exact h
  · exact sendDataFuel_sf _ _ h

theorem flushOne_sf (acc : R × List Nat) (uid : Nat) (h : SF cfg G L acc.1) : SF cfg G L (flushOne acc uid).1 := by
  simp only [flushOne]
  repeat' split
  all_goals first | exact h | exact sendData_sf _ h

theorem closeDone_sf (uid : Nat) (h : SF cfg G L r) : SF cfg G L (closeDone r uid) := by
  simp only [closeDone]
  exact closeStream_sf _ (h.updK _ _ fun _ => rfl)

theorem flushStreams_sf (h : SF cfg G L r) : SF cfg G L (flushStreams r) := by
  simp only [flushStreams]
  have h1 : SF cfg G L ((r.s.strms.map (·.uid)).foldl flushOne (r, [])).1 :=
    foldl_inv (fun acc : R × List Nat => SF cfg G L acc.1) flushOne (fun b a hb => flushOne_sf b a hb) _ _ h
  exact foldl_inv (fun x : R => SF cfg G L x) closeDone (fun b a hb => closeDone_sf a hb) _ _ h1

theorem responseHeaders_sf (st : Strm) (resp : Resp) (hb : Bool) (h : SF cfg G L r) :
    SF cfg G L (responseHeaders r st resp hb) := by
  have hstep : ∀ (r : R) (o : Out), SF cfg G L r → o.isBlock = true → SF cfg G L (r.emit o) := by
    intro r o h ho
    cases o <;> first | exact SF.emit h _ rfl trivial | (simp [Out.isBlock] at ho)
  simp only [responseHeaders]
  split
  · refine emits_inv (SF cfg G L) _ hstep _ _ (blockOuts_isBlock _ _ _ _ _) ?_
    exact h.congr rfl rfl rfl
  · refine emits_inv (SF cfg G L) _ hstep _ _ (blockOuts_isBlock _ _ _ _ _) ?_
    exact h.congr rfl rfl rfl

theorem finishRequest_sf (uid : Nat) (resp : Resp) (h : SF cfg G L r) : SF cfg G L (finishRequest r uid resp).1 := by
  simp only [finishRequest]
  split
  · exact h
  · repeat' split
    all_goals first
      | exact responseHeaders_sf _ _ _ h
      | exact sendData_sf _ ((responseHeaders_sf _ _ _ h).updK _ _ fun _ => rfl)

/-! ### receiving -/

theorem consumeConnWindow_sf (n : Nat) (h : SF cfg G L r) : SF cfg G L (consumeConnWindow r n) := by
  simp only [consumeConnWindow]
  repeat' split
  · exact h
  · exact (h.emit (.wu 0 _) rfl trivial).congr rfl rfl rfl
  · exact h.congr rfl rfl rfl

theorem consumeRecvWindow_sf (st : Strm) (fr : Frame.Frame) (n : Nat) (h : SF cfg G L r) :
    SF cfg G L (consumeRecvWindow r st fr n) := by
  simp only [consumeRecvWindow]
  repeat' split
  · exact h
  · exact consumeConnWindow_sf _ (h.emit _ rfl trivial)
  · exact consumeConnWindow_sf _ h

theorem fieldUpdate_sl (st : Strm) (f : Hpack.Field) : (fieldUpdate st f).sl = st.sl := by
  simp only [fieldUpdate]
  repeat' split
  all_goals rfl

theorem fieldLoop_keeps_sl (fuel : Nat) (s : Srv) (st : Strm) (bs eh : Bool) (fp : Nat) (b : Bytes) :
    (fieldLoop fuel s st bs eh fp b).1.strms = s.strms ∧ (fieldLoop fuel s st bs eh fp b).1.rest = s.rest ∧
    (fieldLoop fuel s st bs eh fp b).2.1.sl = st.sl := by
  induction fuel generalizing s st fp b with
  | zero => simp [fieldLoop]
  | succ n ih =>
    cases b with
    | nil => simp [fieldLoop]
    | cons c cs =>
      simp only [fieldLoop]
      repeat' split
      all_goals first
        | exact ⟨rfl, rfl, rfl⟩
        | exact ⟨rfl, rfl, fieldUpdate_sl _ _⟩
        | (rename_i dec fo rest _ _ _
           have := ih { s with dec := dec } (fieldStep s.cfg { st with fieldSeen := true } fo).1 (fp + 1) rest
           simp only [fieldStep] at this ⊢
           rw [fieldUpdate_sl] at this
           exact this)

theorem handleHeaderFrame_keeps_sl (s : Srv) (st : Strm) (fr : Frame.Frame) :
    (handleHeaderFrame s st fr).1.strms = s.strms ∧ (handleHeaderFrame s st fr).1.rest = s.rest ∧
    (handleHeaderFrame s st fr).2.1.sl = st.sl := by
  simp only [handleHeaderFrame]
  repeat' split
  all_goals first
    | exact ⟨rfl, rfl, rfl⟩
    | (refine ⟨(fieldLoop_keeps_sl ..).1, (fieldLoop_keeps_sl ..).2.1, ?_⟩
       rw [(fieldLoop_keeps_sl ..).2.2]; try rfl)

theorem hhf_sf (uid : Nat) (st : Strm) (fr : Frame.Frame) (hg : r.getStrm uid = some st) (h : SF cfg G L r) :
    SF cfg G L (({ r with s := (handleHeaderFrame r.s st fr).1 } : R).updStrm uid fun _ => (handleHeaderFrame r.s st fr).2.1) := by
  obtain ⟨k1, k2, k3⟩ := handleHeaderFrame_keeps_sl r.s st fr
  have h0 : SF cfg G L ({ r with s := (handleHeaderFrame r.s st fr).1 } : R) :=
    h.congr (by simp only [sls]; rw [k1]) k2 rfl
  refine h0.updC uid st _ ?_ k3
  simp only [R.getStrm] at hg ⊢
  rw [k1]; exact hg

theorem Digest.add_len (d : Digest) (b : Bytes) : (d.add b).len = d.len + b.length := by
  unfold Digest.add
  induction b generalizing d with
  | nil => rfl
  | cons c cs ih => simp only [List.foldl_cons, List.length_cons]; rw [ih]; simp only []; omega

/-- the DATA case of `handleFrame`: the octets are counted first; they are added to the body only when the count
stays within MaxRequestBodySize -/
theorem data_sf (uid : Nat) (st : Strm) (d : Bytes) (hg : r.getStrm uid = some st) (h : SF cfg G L r) :
    SF cfg G L (r.updStrm uid fun _ => { st with recvBody := st.recvBody + d.length }) ∧
    (¬ (r.s.cfg.maxBody > 0 ∧ st.recvBody + d.length > r.s.cfg.maxBody) →
      SF cfg G L ((r.updStrm uid fun _ => { st with recvBody := st.recvBody + d.length }).updStrm uid
        fun s => { s with body := s.body.add d })) := by
  obtain ⟨g1, g2, g3⟩ := h.good_of hg
  have h1 : SF cfg G L (r.updStrm uid fun _ => { st with recvBody := st.recvBody + d.length }) :=
    h.updG uid st _ hg rfl rfl ⟨g1, by simp only [Strm.sl] at g2 ⊢; omega, g3⟩
  refine ⟨h1, fun hc => ?_⟩
  obtain ⟨hm, hu⟩ := getStrm_mem hg
  have hg1 := getStrm_upd r uid (fun _ => { st with recvBody := st.recvBody + d.length }) st (fun _ _ => hu) hg
  refine h1.upd uid _ fun x hx hxu => ?_
  rw [h1.the hg1 x hx hxu]
  refine ⟨rfl, rfl, g1, ?_, ?_⟩
  · simp only [Strm.sl, Digest.add_len] at g2 ⊢; omega
  · intro hpos
    simp only [Strm.sl, Digest.add_len] at g2 ⊢
    rw [h.cf] at hc
    omega

theorem handleFrame_sf (uid : Nat) (fr : Frame.Frame) (h : SF cfg G L r) : SF cfg G L (handleFrame r uid fr).1 := by
  simp only [handleFrame]
  split
  · exact h
  · rename_i st hg
    have hh := hhf_sf uid st fr hg h
    have hd := fun d => data_sf uid st d hg h
    repeat' split
    all_goals first
      | exact h
      | exact hh
      | exact hh.updK _ _ fun _ => rfl
      | exact consumeConnWindow_sf _ (hd _).1
      | (rename_i hc
         refine consumeRecvWindow_sf _ _ _ ((hd _).2 fun hcon => hc ?_)
         simp only [Bool.and_eq_true, decide_eq_true_eq]
         exact hcon)
      | exact h.updK _ _ fun _ => rfl

/-! ### the stream loop -/

theorem closeIdleBelow_sf (fuel : Nat) (id : Nat) (h : SF cfg G L r) : SF cfg G L (closeIdleBelow fuel r id) := by
  induction fuel generalizing r with
  | zero => exact h
  | succ n ih =>
    simp only [closeIdleBelow]
    repeat' split
    all_goals first
      | exact h
      | exact ih (writeReset_sf _ _ (closeStream_sf _ (h.updK _ _ fun _ => rfl)))

theorem stopLoop_sf (h : SF cfg G L r) : SF cfg G L (stopLoop r) := h.congr rfl rfl rfl
theorem rlStop_sf (h : SF cfg G L r) : SF cfg G L (rlStop r) := h.congr rfl rfl rfl

theorem closeIfDone_sf (h : SF cfg G L r) : SF cfg G L (closeIfDone r) := by
  simp only [closeIfDone]; split
  · exact stopLoop_sf h
  · exact h

theorem closeIfClosing_sf (h : SF cfg G L r) : SF cfg G L (closeIfClosing r) := by
  simp only [closeIfClosing]; split
  · exact stopLoop_sf h
  · exact h


theorem SF.id_le (h : SF cfg G L r) {uid : Nat} : ∀ st, r.getStrm uid = some st → st.id ≤ r.s.lastID :=
  fun st hg => (h.tlt st.sl (List.mem_map_of_mem (getStrm_mem hg).1)).2

/-- the state after the creation of a stream in `unknownStream` -/
def sfWithNew (r : R) (id typ : Nat) (win : Int) : R :=
  { r with s := { r.s with strms := r.s.strms ++ [{ uid := r.s.nextUid, id := id, window := win, origType := typ }],
                            nextUid := r.s.nextUid + 1, openStreams := r.s.openStreams + 1, lastID := id } }

/-- **a new stream**: only while no GOAWAY has been written and a slot is free; its id is above `lastID` -/
theorem new_sf (id typ : Nat) (win : Int) (hid : r.s.lastID < id) (hlt : id < 2 ^ 31) (htyp : typ = Gen.c_FrameHeaders)
    (hcl : r.s.closing = false) (hlim : r.s.openStreams < (r.s.cfg.maxStreams : Int)) (h : SF cfg G L r) :
    SF cfg G L (sfWithNew r id typ win) := by
  have hnil : G ++ fm pG r.out = [] := by
    apply Classical.byContradiction
    intro hne
    have := h.gcl.mp hne
    rw [hcl] at this; cases this
  have hs : sls (sfWithNew r id typ win) = sls r ++ [⟨r.s.nextUid, id, typ, 0, 0⟩] := by
    simp [sls, Strm.sl, sfWithNew]
  exact {
    cf := h.cf
    tun := by
      rw [hs, List.map_append, List.nodup_append]
      refine ⟨h.tun, by simp, ?_⟩
      intro a ha b hb
      simp only [List.map_cons, List.map_nil, List.mem_singleton] at hb; subst hb
      obtain ⟨t, ht, rfl⟩ := List.mem_map.mp ha
      have := (h.tlt t ht).1; omega
    tid := by
      rw [hs, List.map_append, List.nodup_append]
      refine ⟨h.tid, by simp, ?_⟩
      intro a ha b hb
      simp only [List.map_cons, List.map_nil, List.mem_singleton] at hb; subst hb
      obtain ⟨t, ht, rfl⟩ := List.mem_map.mp ha
      have := (h.tlt t ht).2; omega
    tlt := by
      intro t ht
      rw [hs] at ht
      rcases List.mem_append.mp ht with ht | ht
      · have := h.tlt t ht
        exact ⟨Nat.lt_succ_of_lt this.1, by show t.id ≤ id; omega⟩
      · simp only [List.mem_singleton] at ht; subst ht
        exact ⟨Nat.lt_succ_self _, Nat.le_refl _⟩
    good := by
      intro t ht
      rw [hs] at ht
      rcases List.mem_append.mp ht with ht | ht
      · exact h.good t ht
      · simp only [List.mem_singleton] at ht; subst ht
        exact ⟨htyp, Nat.le_refl _, fun _ => Nat.zero_le _⟩
    ab := fun a ha => ⟨(h.ab a ha).1, (h.ab a ha).2.1, Nat.lt_succ_of_lt (h.ab a ha).2.2⟩
    cnt := by
      rw [hs]
      have := h.cnt
      simp only [List.length_append, List.length_singleton] at this ⊢
      show r.s.openStreams + 1 = (((sls r).length + 1 + r.s.abandoned.length : Nat) : Int)
      rw [this]; omega
    lim := by
      have := h.cf
      show r.s.openStreams + 1 ≤ _
      rw [← this]; omega
    anodup := h.anodup
    adisj := by
      intro a ha t ht
      rw [hs] at ht
      rcases List.mem_append.mp ht with ht | ht
      · exact h.adisj a ha t ht
      · simp only [List.mem_singleton] at ht; subst ht
        have := (h.ab a ha).2.2
        show a.uid ≠ r.s.nextUid
        omega
    ring := h.ring
    rbu := h.rbu
    bo := h.bo
    llt := hlt
    gge := by
      show ∀ l ∈ G ++ fm pG r.out, _
      rw [hnil]; intro l hl; cases hl
    gcl := h.gcl
    fro := by
      intro hne
      exact absurd (List.append_eq_nil_iff.mp hnil).1 hne }

theorem unknownStream_sf (fr : Frame.Frame) (wc : Bool) (hfs : fr.stream < 2 ^ 31) (hwc : r.s.closing = true → wc = true)
    (h : SF cfg G L r) : SF cfg G L (unknownStream r fr wc).1 := by
  simp only [unknownStream]
  repeat' split
  all_goals first
    | exact h
    | exact consumeConnWindow_sf _ h
    | exact closeIfDone_sf (writeGoAway_sf _ _ _ hfs h)
    | exact stopLoop_sf (writeGoAway_sf _ _ _ hfs h)
    | exact writeReset_sf _ _ (h.congr rfl rfl rfl)
    | (rename_i hty hlim hlow
       simp only [Bool.or_eq_true, decide_eq_true_eq, not_or, Bool.not_eq_true] at hlim hlow
       have hty' : fr.typ = Gen.c_FrameHeaders := by simpa using hty
       have hcl : r.s.closing = false := by
         cases hc : r.s.closing
         · rfl
         · have := hwc hc; rw [hlim.2] at this; cases this
       exact new_sf _ _ _ (by omega) hfs hty' hcl (by omega) h)

theorem headersPrelude_sf (fr : Frame.Frame) (h : SF cfg G L r) : SF cfg G L (headersPrelude r fr).1 := by
  simp only [headersPrelude]
  repeat' split
  all_goals first
    | exact h
    | exact closeIdleBelow_sf _ _ h
    | (dsimp only; exact writeError_sf _ _ h.id_le h)

theorem onFrameError_sf (uid : Nat) (e : Option SErr) (h : SF cfg G L r) : SF cfg G L (onFrameError r uid e).1 := by
  simp only [onFrameError]
  repeat' split
  all_goals first
    | exact h
    | exact (writeError_sf _ _ h.id_le h).updK _ _ (by intro; rfl)

/-- **the dispatch**: the record carries the body buffered for the stream -/
theorem dispatch_sf (uid : Nat) (st : Strm) (hb : cfg.maxBody > 0 → st.body.len ≤ cfg.maxBody) (h : SF cfg G L r) :
    SF cfg G L (dispatch r uid st) := by
  simp only [dispatch]
  exact (h.updK uid _ (by intro; rfl)).emit _ rfl hb

theorem dispatchOrSend_sf (uid : Nat) (st : Strm) (hg : r.getStrm uid = some st) (h : SF cfg G L r) :
    SF cfg G L (dispatchOrSend r uid st) := by
  have hb := (h.good_of hg).2.2
  simp only [dispatchOrSend]
  repeat' split
  all_goals first
    | exact h
    | exact (writeReset_sf _ _ (h.updK _ _ (by intro; rfl))).updK _ _ (by intro; rfl)
    | exact dispatch_sf _ _ hb (h.updK _ _ (by intro; rfl))
    | exact sendData_sf _ h
    | exact (sendData_sf _ h).updK _ _ (by intro; rfl)

theorem handleState_sl (fr : Frame.Frame) (x : Strm) : (handleState fr x).sl = x.sl := by
  simp only [handleState]
  (repeat' split) <;> rfl

theorem closeIfClosed_sf (uid : Nat) (h : SF cfg G L r) : SF cfg G L (closeIfClosed r uid) := by
  simp only [closeIfClosed]
  repeat' split
  all_goals first | exact h | exact closeStream_sf _ h

theorem knownStream_sf (uid : Nat) (fr : Frame.Frame) (wc : Bool) (h : SF cfg G L r) : SF cfg G L (knownStream r uid fr wc) := by
  simp only [knownStream]
  have h1 := headersPrelude_sf fr h
  split
  · exact h1
  · have h2 := onFrameError_sf uid (handleFrame (headersPrelude r fr).1 uid fr).2 (handleFrame_sf uid fr h1)
    split
    · exact stopLoop_sf h2
    · have h3 := h2.updK uid (handleState fr) (handleState_sl fr)
      split
      · exact h3
      · rename_i st hg
        have h4 := closeIfClosed_sf uid (dispatchOrSend_sf uid st hg h3)
        split
        · exact stopLoop_sf h4
        · exact h4

theorem slStreamFrame_sf (fr : Frame.Frame) (hfs : fr.stream < 2 ^ 31) (h : SF cfg G L r) : SF cfg G L (slStreamFrame r fr) := by
  simp only [slStreamFrame]
  repeat' split
  all_goals first
    | exact knownStream_sf _ _ _ h
    | exact unknownStream_sf _ _ hfs (fun x => x) h
    | exact knownStream_sf _ _ _ (unknownStream_sf _ _ hfs (fun x => x) h)

theorem applyDelta_sl (d : Int) (l : List Strm) : (applyDelta d l).1.map Strm.sl = l.map Strm.sl := by
  induction l with
  | nil => rfl
  | cons a l ih =>
    simp only [applyDelta]
    split
    · simp [Strm.sl]
    · simp [Strm.sl, ih]

theorem slFrame_sf (fr : Frame.Frame) (hfs : fr.stream < 2 ^ 31) (h : SF cfg G L r) : SF cfg G L (slFrame r fr) := by
  have hf : SF cfg G L ({ r with fwd := r.fwd ++ [fr] } : R) := h.congr rfl rfl rfl
  have h0 : (0 : Nat) < 2 ^ 31 := by decide
  simp only [slFrame]
  split
  · exact h
  · split
    · split
      · rename_i st _
        have h1 : SF cfg G L (applyTableSize { r with fwd := r.fwd ++ [fr] } st) := hf.congr rfl rfl rfl
        split
        · have h2 : SF cfg G L ({ (applyTableSize { r with fwd := r.fwd ++ [fr] } st) with
              s := { (applyTableSize { r with fwd := r.fwd ++ [fr] } st).s with
                curInitWin := st.windowSize,
                strms := (applyDelta ((st.windowSize : Int) - (applyTableSize { r with fwd := r.fwd ++ [fr] } st).s.curInitWin)
                  (applyTableSize { r with fwd := r.fwd ++ [fr] } st).s.strms).1 } } : R) :=
            h1.congr (applyDelta_sl _ _) rfl rfl
          split
          · exact stopLoop_sf (writeGoAway_sf _ _ _ h0 h2)
          · exact closeIfClosing_sf (flushStreams_sf h2)
        · exact closeIfClosing_sf h1
      · rename_i inc _
        have h2 : SF cfg G L ({ r with fwd := r.fwd ++ [fr], s := { r.s with clientWindow := r.s.clientWindow + inc } } : R) :=
          h.congr rfl rfl rfl
        split
        · exact stopLoop_sf (writeGoAway_sf _ _ _ h0 h2)
        · exact closeIfClosing_sf (flushStreams_sf h2)
      · exact closeIfClosing_sf hf
    · exact slStreamFrame_sf fr hfs hf

/-- removing the (only) entry with the uid of `st` from `abandoned` -/
theorem filter_uid_len (l : List Strm) (st : Strm) (hm : st ∈ l) (hn : (l.map (·.uid)).Nodup) :
    (l.filter (·.uid != st.uid)).length + 1 = l.length := by
  induction l with
  | nil => cases hm
  | cons a l ih =>
    simp only [List.map_cons, List.nodup_cons] at hn
    by_cases ha : a.uid = st.uid
    · have hall : l.filter (·.uid != st.uid) = l := by
        apply List.filter_eq_self.mpr
        intro x hx
        have : x.uid ≠ st.uid := fun e => hn.1 (List.mem_map.mpr ⟨x, hx, by rw [e, ha]⟩)
        simpa using this
      simp [ha, hall]
    · have hm' : st ∈ l := by
        rcases List.mem_cons.mp hm with rfl | hm'
        · exact absurd rfl ha
        · exact hm'
      have := ih hm' hn.2
      have hb : (a.uid != st.uid) = true := by simpa using ha
      rw [List.filter_cons, if_pos hb]
      simp only [List.length_cons]; omega

/-- **a handler reports back**: for an abandoned stream the slot is given back; for a stream of the table the
response is written -/
theorem slHandlerDone_sf (sid : Nat) (resp : Resp) (h : SF cfg G L r) : SF cfg G L (slHandlerDone r sid resp) := by
  simp only [slHandlerDone]
  have h0 : SF cfg G L (if resp.kind == "panic" then r.emit .handlerPanicLogged else r) := by
    split
    · exact h.emit _ rfl trivial
    · exact h
  generalize (if resp.kind == "panic" then r.emit .handlerPanicLogged else r) = r0 at h0 ⊢
  split
  · exact h0
  · split
    · split
      · rename_i st hf
        have hm : st ∈ r0.s.abandoned := List.mem_of_find?_eq_some hf
        have hot : (st.origType == Gen.c_FrameHeaders) = true := by rw [(h0.ab st hm).1]; rfl
        have hlen := filter_uid_len r0.s.abandoned st hm h0.anodup
        have hsub : ∀ a ∈ r0.s.abandoned.filter (·.uid != st.uid), a ∈ r0.s.abandoned := fun a ha => (List.mem_filter.mp ha).1
        unfold releaseStream
        simp only [hot, if_true]
        exact {
          cf := h0.cf
          tun := h0.tun
          tid := h0.tid
          tlt := h0.tlt
          good := h0.good
          ab := fun a ha => h0.ab a (hsub a ha)
          cnt := by
            have := h0.cnt
            show r0.s.openStreams - 1 = (((sls r0).length + (r0.s.abandoned.filter (·.uid != st.uid)).length : Nat) : Int)
            rw [this]; omega
          lim := by have := h0.lim; show r0.s.openStreams - 1 ≤ _; omega
          anodup := h0.anodup.sublist (List.filter_sublist.map _)
          adisj := fun a ha t ht => h0.adisj a (hsub a ha) t ht
          ring := h0.ring
          rbu := h0.rbu
          bo := h0.bo
          llt := h0.llt
          gge := h0.gge
          gcl := h0.gcl
          fro := h0.fro }
      · exact h0
    · rename_i st hf
      have h2 := finishRequest_sf st.uid resp (h0.updK st.uid (fun s => { s with handlerRunning := false }) (by intro; rfl))
      repeat' split
      all_goals first
        | exact h2
        | exact closeDone_sf _ h2
        | exact stopLoop_sf h2
        | exact stopLoop_sf (closeDone_sf _ h2)

/-! ### the read loop -/

theorem contCheck_sf (fr : Frame.Frame) (h : SF cfg G L r) : SF cfg G L (contCheck r fr).1 := by
  have h0 : (0 : Nat) < 2 ^ 31 := by decide
  simp only [contCheck]
  repeat' split
  all_goals first
    | exact h
    | exact writeGoAway_sf _ _ _ h0 h
    | exact h.congr rfl rfl rfl

theorem handleSettings_sf (st : Frame.SettingsVal) (h : SF cfg G L r) : SF cfg G L (handleSettings r st) := by
  simp only [handleSettings]
  refine SF.emit ?_ _ rfl trivial
  exact h.congr rfl rfl rfl

theorem rlFrame_sf (fr : Frame.Frame) (hfs : fr.stream < 2 ^ 31) (h : SF cfg G L r) : SF cfg G L (rlFrame r fr) := by
  have hc := contCheck_sf fr h
  have h0 : (0 : Nat) < 2 ^ 31 := by decide
  simp only [rlFrame, rlConnFrame]
  repeat' split
  all_goals first
    | exact hc
    | exact rlStop_sf hc
    | exact slFrame_sf _ hfs hc
    | exact rlStop_sf (writeGoAway_sf _ _ _ h0 hc)
    | exact slFrame_sf _ hfs (handleSettings_sf _ hc)
    | exact hc.emit _ rfl trivial

theorem readFrame_stream_lt (m : Nat) (b : Bytes) (fr : Frame.Frame) (n : Nat) (h : Frame.readFrame m b = .ok fr n) :
    fr.stream < 2 ^ 31 := by
  simp only [Frame.readFrame] at h
  repeat' split at h
  all_goals (cases h; try exact Nat.mod_lt _ (by decide))

theorem rlDrain_sf (fuel : Nat) (h : SF cfg G L r) : SF cfg G L (rlDrain fuel r) := by
  have h0 : (0 : Nat) < 2 ^ 31 := by decide
  induction fuel generalizing r with
  | zero => exact h
  | succ n ih =>
    simp only [rlDrain]
    repeat' split
    all_goals first
      | exact h
      | exact rlStop_sf h
      | exact rlStop_sf (writeGoAway_sf _ _ _ h0 h)
      | (rename_i fr _ hrf
         exact ih (rlFrame_sf _ (readFrame_stream_lt _ _ _ _ hrf) (h.congr rfl rfl rfl)))
      | exact ih (h.congr rfl rfl rfl)
      | exact rlStop_sf (writeGoAway_sf _ _ _ h0 (h.congr rfl rfl rfl))

theorem settle_sf (h : SF cfg G L r) : SF cfg G L (settle r) := by
  simp only [settle]
  split
  · exact (h.emit .returned rfl trivial).congr rfl rfl rfl
  · exact h

/-- **one step preserves the invariant** -/
theorem stepR_sf (s : Srv) (ev : Event) (h : SF cfg G L { s := s }) : SF cfg G L (stepR s ev) := by
  simp only [stepR]
  apply settle_sf
  cases ev with
  | bytes b => exact rlDrain_sf _ (h.congr rfl rfl rfl)
  | done sid resp => exact slHandlerDone_sf sid resp h
  | cut => exact rlStop_sf h
  | idle => exact stopLoop_sf (writeGoAway_sf _ _ _ (by decide) h)

end Pres

/-! ## Part 3 — runs -/

/-- the last-stream-ids of the GOAWAY frames written, in order -/
def goAwayLasts (l : List Out) : List Nat := fm pG l

/-- the invariant between steps (`G`: the GOAWAYs written so far) -/
def SFS (cfg : Cfg) (G : List Nat) (s : Srv) : Prop := SF cfg G s.lastID { s := s }

section Runs
variable {cfg : Cfg} {G : List Nat} {s : Srv}

theorem SFS.closing_iff (h : SFS cfg G s) : s.closing = true ↔ G ≠ [] := by
  have := h.gcl
  simp only [fm_nil, List.append_nil] at this
  exact this.symm

/-- **one step**: the invariant goes on, every output of the step is in order, and once `closing` is set the step
leaves `lastID` alone (no stream is created) -/
theorem step_sfs (ev : Event) (h : SFS cfg G s) :
    SFS cfg (G ++ goAwayLasts (step s ev).2) (step s ev).1 ∧ (∀ o ∈ (step s ev).2, OutOK cfg o) ∧
    (s.closing = true → (step s ev).1.lastID = s.lastID) := by
  have k := stepR_sf s ev h
  refine ⟨?_, k.bo, fun hc => k.fro (h.closing_iff.mp hc)⟩
  exact {
    cf := k.cf, tun := k.tun, tid := k.tid, tlt := k.tlt, good := k.good, ab := k.ab, cnt := k.cnt, lim := k.lim
    anodup := k.anodup, adisj := k.adisj, ring := k.ring, rbu := k.rbu
    bo := by intro o ho; cases ho
    llt := k.llt
    gge := by simpa [goAwayLasts, step] using k.gge
    gcl := by simpa [goAwayLasts, step] using k.gcl
    fro := fun _ => rfl }

/-- **closing is permanent** (step level) -/
theorem step_closing (ev : Event) (h : SFS cfg G s) (hc : s.closing = true) : (step s ev).1.closing = true := by
  have h1 := (step_sfs ev h).1
  refine h1.closing_iff.mpr ?_
  have := h.closing_iff.mp hc
  intro he
  exact this (List.append_eq_nil_iff.mp he).1

theorem runFrom_sfs (evs : List Event) (h : SFS cfg G s) :
    SFS cfg (G ++ goAwayLasts (runFrom s evs).2) (runFrom s evs).1 ∧ (∀ o ∈ (runFrom s evs).2, OutOK cfg o) := by
  induction evs generalizing s G with
  | nil => exact ⟨by simpa [runFrom, goAwayLasts] using h, by intro o ho; cases ho⟩
  | cons ev evs ih =>
    obtain ⟨h1, h2, _⟩ := step_sfs ev h
    obtain ⟨i1, i2⟩ := ih h1
    refine ⟨by simpa [runFrom, goAwayLasts, List.append_assoc] using i1, ?_⟩
    intro o ho
    simp only [runFrom, List.mem_append] at ho
    rcases ho with ho | ho
    · exact h2 o ho
    · exact i2 o ho

/-- once `closing` is set it stays set and `lastID` stays what it is, whatever events follow -/
theorem runFrom_closing (evs : List Event) (h : SFS cfg G s) (hc : s.closing = true) :
    (runFrom s evs).1.closing = true ∧ (runFrom s evs).1.lastID = s.lastID := by
  induction evs generalizing s G with
  | nil => exact ⟨hc, rfl⟩
  | cons ev evs ih =>
    obtain ⟨h1, _, h3⟩ := step_sfs ev h
    have := ih h1 (step_closing ev h hc)
    simp only [runFrom]
    exact ⟨this.1, by rw [this.2, h3 hc]⟩

theorem init_sfs (cfg : Cfg) : SFS cfg [] { cfg := cfg } := by
  constructor <;> simp [sls, Gen.c_closedStrmsCap]

end Runs

/-- **the invariant holds after every run** from the initial state of any configuration -/
theorem run_sfs (cfg : Cfg) (evs : List Event) :
    SFS cfg (goAwayLasts (runOuts cfg evs)) (run cfg evs).1 ∧ (∀ o ∈ runOuts cfg evs, OutOK cfg o) := by
  simpa [run, runOuts] using runFrom_sfs evs (init_sfs cfg)

/-! ### C13: slots, handlers, memory -/

/-- the entries of a list of streams that hold a slot: those opened by a HEADERS frame (`releaseStream` gives the
slot back for exactly these) -/
def slotHolders (l : List Strm) : Nat := (l.filter fun st => st.origType == Gen.c_FrameHeaders).length

/-- handlers running for the connection: streams of the table with `handlerRunning`, plus the abandoned streams -/
def runningHandlers (s : Srv) : Nat := (s.strms.filter (·.handlerRunning)).length + s.abandoned.length

theorem slotHolders_all (l : List Strm) (h : ∀ st ∈ l, st.origType = Gen.c_FrameHeaders) : slotHolders l = l.length := by
  unfold slotHolders
  rw [List.filter_eq_self.mpr]
  intro st hst
  rw [h st hst]; rfl

/-- **open_slots_are_table_plus_abandoned**: in every reachable state `openStreams` is the number of table entries that
hold a slot plus the number of abandoned streams (closed while their handler runs); every table entry and every
abandoned stream was opened by HEADERS and so does hold a slot; every abandoned stream's handler is still running. -/
theorem open_slots_are_table_plus_abandoned (cfg : Cfg) (evs : List Event) :
    (run cfg evs).1.openStreams = ((slotHolders (run cfg evs).1.strms + (run cfg evs).1.abandoned.length : Nat) : Int) ∧
    slotHolders (run cfg evs).1.strms = (run cfg evs).1.strms.length ∧
    slotHolders (run cfg evs).1.abandoned = (run cfg evs).1.abandoned.length ∧
    (∀ a ∈ (run cfg evs).1.abandoned, a.handlerRunning = true) := by
  have h := (run_sfs cfg evs).1
  have hall : ∀ st ∈ (run cfg evs).1.strms, st.origType = Gen.c_FrameHeaders :=
    fun st hst => (h.good st.sl (List.mem_map_of_mem hst)).1
  have e1 := slotHolders_all _ hall
  refine ⟨?_, e1, slotHolders_all _ fun a ha => (h.ab a ha).1, fun a ha => (h.ab a ha).2.1⟩
  rw [e1]
  have := h.cnt
  simpa [sls] using this

/-- **open_slots_within_limit**: `0 ≤ openStreams ≤ MaxConcurrentStreams`; in particular table plus abandoned streams
are at most MaxConcurrentStreams objects -/
theorem open_slots_within_limit (cfg : Cfg) (evs : List Event) :
    0 ≤ (run cfg evs).1.openStreams ∧ (run cfg evs).1.openStreams ≤ (cfg.maxStreams : Int) ∧
    (run cfg evs).1.strms.length + (run cfg evs).1.abandoned.length ≤ cfg.maxStreams := by
  have h := (run_sfs cfg evs).1
  have hc := h.cnt
  have hl := h.lim
  simp only [sls, List.length_map] at hc
  refine ⟨by rw [hc]; exact Int.natCast_nonneg _, hl, ?_⟩
  rw [hc] at hl
  exact Int.ofNat_le.mp hl

/-- **handlers_within_limit**: handlers running ≤ `openStreams` ≤ MaxConcurrentStreams -/
theorem handlers_within_limit (cfg : Cfg) (evs : List Event) :
    (runningHandlers (run cfg evs).1 : Int) ≤ (run cfg evs).1.openStreams ∧
    (run cfg evs).1.openStreams ≤ (cfg.maxStreams : Int) ∧
    runningHandlers (run cfg evs).1 ≤ cfg.maxStreams := by
  have h := (run_sfs cfg evs).1
  have hc := h.cnt
  have hl := h.lim
  simp only [sls, List.length_map] at hc
  have hf : ((run cfg evs).1.strms.filter (·.handlerRunning)).length ≤ (run cfg evs).1.strms.length :=
    List.length_filter_le _ _
  have h1 : (runningHandlers (run cfg evs).1 : Int) ≤ (run cfg evs).1.openStreams := by
    rw [hc]; unfold runningHandlers; exact Int.ofNat_le.mpr (by omega)
  refine ⟨h1, hl, ?_⟩
  exact Int.ofNat_le.mp (Int.le_trans h1 hl)

/-- **ring_bounded**: the ring of recently closed ids and the list of streams this side reset hold at most
`closedStrmsCap` (256) entries each -/
theorem ring_bounded (cfg : Cfg) (evs : List Event) :
    (run cfg evs).1.ring.length ≤ Gen.c_closedStrmsCap ∧ (run cfg evs).1.resetByUs.length ≤ Gen.c_closedStrmsCap :=
  ⟨(run_sfs cfg evs).1.ring, (run_sfs cfg evs).1.rbu⟩

/-- the table holds each stream object once and each id once, and abandoned stream objects are distinct from each
other and from those of the table (so `handlerDone` for an abandoned stream gives back exactly one slot) -/
theorem stream_objects_distinct (cfg : Cfg) (evs : List Event) :
    (((run cfg evs).1.strms ++ (run cfg evs).1.abandoned).map (·.uid)).Nodup ∧
    ((run cfg evs).1.strms.map (·.id)).Nodup := by
  have h := (run_sfs cfg evs).1
  refine ⟨?_, h.idNodup⟩
  rw [List.map_append, List.nodup_append]
  refine ⟨h.uidNodup, h.anodup, ?_⟩
  intro a ha b hb e
  obtain ⟨x, hx, rfl⟩ := List.mem_map.mp ha
  obtain ⟨y, hy, rfl⟩ := List.mem_map.mp hb
  exact h.adisj y hy x.sl (List.mem_map_of_mem hx) e.symm

/-- **dispatched_body_within_limit**: with a limit set, every request handed to a handler carries a body of at most
MaxRequestBodySize octets -/
theorem dispatched_body_within_limit (cfg : Cfg) (evs : List Event) (sid : Nat) (m p a : Bytes)
    (fields : List (Bytes × Bytes)) (body : Digest)
    (h : Out.dispatch sid m p a fields body ∈ runOuts cfg evs) (hpos : cfg.maxBody > 0) : body.len ≤ cfg.maxBody :=
  (run_sfs cfg evs).2 _ h hpos

/-- … and at every moment the body buffered for a stream of the table is within the limit (per connection:
at most MaxConcurrentStreams × MaxRequestBodySize octets of request bodies in the table) -/
theorem buffered_body_within_limit (cfg : Cfg) (evs : List Event) (hpos : cfg.maxBody > 0) :
    ∀ st ∈ (run cfg evs).1.strms, st.body.len ≤ cfg.maxBody ∧ st.body.len ≤ st.recvBody := by
  intro st hst
  have := (run_sfs cfg evs).1.good st.sl (List.mem_map_of_mem hst)
  exact ⟨this.2.2 hpos, this.2.1⟩

/-! ### C10: what a GOAWAY promises -/

/-- `closing` is set exactly when a GOAWAY has been written -/
theorem closing_iff_goaway (cfg : Cfg) (evs : List Event) :
    (run cfg evs).1.closing = true ↔ goAwayLasts (runOuts cfg evs) ≠ [] :=
  (run_sfs cfg evs).1.closing_iff

theorem run_append (cfg : Cfg) (evs evs' : List Event) :
    run cfg (evs ++ evs') = ((runFrom (run cfg evs).1 evs').1, runOuts cfg evs ++ (runFrom (run cfg evs).1 evs').2) := by
  simp [run, runOuts, runFrom_append]

/-- **closing_is_permanent**: once `closing` is set, it is set after any further events -/
theorem closing_is_permanent (cfg : Cfg) (evs evs' : List Event) (h : (run cfg evs).1.closing = true) :
    (run cfg (evs ++ evs')).1.closing = true := by
  rw [run_append]
  exact (runFrom_closing evs' (run_sfs cfg evs).1 h).1

/-- **no_new_stream_after_goaway**: once `closing` is set, `lastID` never moves again: no stream is created -/
theorem no_new_stream_after_goaway (cfg : Cfg) (evs evs' : List Event) (h : (run cfg evs).1.closing = true) :
    (run cfg (evs ++ evs')).1.lastID = (run cfg evs).1.lastID := by
  rw [run_append]
  exact (runFrom_closing evs' (run_sfs cfg evs).1 h).2

/-- every GOAWAY of a run names at least the final `lastID`, and `lastID` is a 31-bit id -/
theorem goaway_ge_lastID (cfg : Cfg) (evs : List Event) :
    (∀ l ∈ goAwayLasts (runOuts cfg evs), (run cfg evs).1.lastID ≤ l) ∧ (run cfg evs).1.lastID < 2 ^ 31 := by
  have h := (run_sfs cfg evs).1
  refine ⟨?_, h.llt⟩
  have := h.gge
  simpa using this

/-- every GOAWAY of a run names at least every stream id handed to a handler in that run, before or after it -/
theorem goaway_ge_every_dispatch (cfg : Cfg) (evs : List Event) :
    ∀ l ∈ goAwayLasts (runOuts cfg evs), ∀ i ∈ dispatchedIds (runOuts cfg evs), i ≤ l :=
  fun l hl i hi => Nat.le_trans (dispatched_le_lastID cfg evs i hi) ((goaway_ge_lastID cfg evs).1 l hl)

theorem fm_cons {α : Type} (p : Out → Option α) (o : Out) (l : List Out) : fm p (o :: l) = (p o).toList ++ fm p l := by
  have : o :: l = [o] ++ l := rfl
  rw [this, fm_append, fm_single]

theorem goAway_mem_lasts (pre post : List Out) (l c : Nat) (t : String) :
    l ∈ goAwayLasts (pre ++ .goAway l c t :: post) := by
  simp only [goAwayLasts, fm_append, fm_cons, pG, Option.toList]
  exact List.mem_append_right _ (List.mem_append_left _ (List.mem_singleton.mpr rfl))

/-- a last-stream-id that occurs in `goAwayLasts` belongs to a GOAWAY frame of the list: the list splits there -/
theorem split_at_goAway (outs : List Out) (l : Nat) (h : l ∈ goAwayLasts outs) :
    ∃ pre post c t, outs = pre ++ .goAway l c t :: post := by
  induction outs with
  | nil => cases h
  | cons o outs ih =>
    simp only [goAwayLasts, fm_cons] at h
    rcases List.mem_append.mp h with h | h
    · cases o with
      | goAway l' c t =>
        simp only [pG, Option.toList, List.mem_singleton] at h
        subst h
        exact ⟨[], outs, c, t, rfl⟩
      | _ => simp [pG] at h
    · obtain ⟨pre, post, c, t, e⟩ := ih h
      exact ⟨o :: pre, post, c, t, by rw [e]; rfl⟩

/-- **goaway_covers_dispatched**: a GOAWAY names at least every stream id dispatched BEFORE it in the output order -/
theorem goaway_covers_dispatched (cfg : Cfg) (evs : List Event) (pre post : List Out) (l c : Nat) (t : String)
    (h : runOuts cfg evs = pre ++ .goAway l c t :: post) : ∀ i ∈ dispatchedIds pre, i ≤ l := by
  intro i hi
  refine goaway_ge_every_dispatch cfg evs l ?_ i ?_
  · rw [h]; exact goAway_mem_lasts _ _ _ _ _
  · rw [h]; simp only [dispatchedIds, fm_append]; exact List.mem_append_left _ hi

/-- **no_dispatch_after_goaway_above_last**: no stream id above the one a GOAWAY names is dispatched AFTER it -/
theorem no_dispatch_after_goaway_above_last (cfg : Cfg) (evs : List Event) (pre post : List Out) (l c : Nat) (t : String)
    (h : runOuts cfg evs = pre ++ .goAway l c t :: post) : ∀ i ∈ dispatchedIds post, i ≤ l := by
  intro i hi
  refine goaway_ge_every_dispatch cfg evs l ?_ i ?_
  · rw [h]; exact goAway_mem_lasts _ _ _ _ _
  · rw [h]
    simp only [dispatchedIds, fm_append]
    refine List.mem_append_right _ ?_
    rw [fm_cons]
    exact List.mem_append_right _ hi

/-! ## Part 4 — non-vacuity: concrete runs of the full model

`gaRun`: SETTINGS; HEADERS(1) and HEADERS(3) (GET /, END_STREAM) — both dispatched; the handler of 3 answers (204) and
3 is closed; DATA on the closed stream 3 — GOAWAY(last = 3, STREAM_CLOSED) while the handler of 1 still runs, so the
connection stays up; HEADERS(5) — refused (RST_STREAM REFUSED_STREAM), `lastID` stays 3; the handler of 1 answers.

`slotRun` (MaxConcurrentStreams = 1): HEADERS(1) dispatched; HEADERS(3) refused; the peer resets 1 while its handler
runs — 1 leaves the table, is abandoned and keeps the slot; HEADERS(5) is still refused; after the handler of 1 reports
back the slot is free and HEADERS(7) is accepted.

`bodyRun` (MaxRequestBodySize = 2): POST on 1 with 2 octets is dispatched with a body of 2 octets; POST on 3 with 3 octets
is reset and never dispatched. -/
namespace Ex

def settings0 : Event := .bytes [0, 0, 0, 4, 0, 0, 0, 0, 0]
/-- HEADERS(sid, GET / http, END_STREAM | END_HEADERS) -/
def hdrs (sid : Nat) : Event := .bytes [0, 0, 3, 1, 5, 0, 0, 0, sid, 0x82, 0x86, 0x84]
/-- HEADERS(sid, POST / http, END_HEADERS) -/
def post (sid : Nat) : Event := .bytes [0, 0, 3, 1, 4, 0, 0, 0, sid, 0x83, 0x86, 0x84]
/-- RST_STREAM(sid, CANCEL) -/
def rst (sid : Nat) : Event := .bytes [0, 0, 4, 3, 0, 0, 0, 0, sid, 0, 0, 0, 8]

def gaRun : List Event :=
  [settings0, hdrs 1, hdrs 3, .done 3 { status := 204 },
   .bytes [0, 0, 1, 0, 0, 0, 0, 0, 3, 0x61], hdrs 5, .done 1 { status := 204 }]

def slotRun : List Event := [settings0, hdrs 1, hdrs 3, rst 1, hdrs 5]

def bodyRun : List Event :=
  [settings0, post 1, .bytes [0, 0, 2, 0, 1, 0, 0, 0, 1, 0x68, 0x69],
   post 3, .bytes [0, 0, 3, 0, 1, 0, 0, 0, 3, 0x68, 0x69, 0x6a]]

/-- kind and stream id / last-stream-id of the outputs that matter here -/
def tag : Out → Option (String × Nat)
  | .dispatch sid .. => some ("dispatch", sid)
  | .goAway l .. => some ("goaway", l)
  | .rst sid _ => some ("rst", sid)
  | _ => none

example : fm tag (runOuts {} gaRun) = [("dispatch", 1), ("dispatch", 3), ("goaway", 3), ("rst", 5)] := by decide +kernel
example : dispatchedIds (runOuts {} gaRun) = [1, 3] ∧ goAwayLasts (runOuts {} gaRun) = [3] := by decide +kernel
example : (run {} gaRun).1.closing = true ∧ (run {} gaRun).1.lastID = 3 := by decide +kernel
example : (run {} (gaRun.take 4)).1.closing = false := by decide +kernel

example : fm tag (runOuts { maxStreams := 1 } slotRun) = [("dispatch", 1), ("rst", 3), ("rst", 5)] := by decide +kernel
example : (run { maxStreams := 1 } slotRun).1.openStreams = 1 ∧ (run { maxStreams := 1 } slotRun).1.strms.length = 0 ∧
    (run { maxStreams := 1 } slotRun).1.abandoned.length = 1 ∧ runningHandlers (run { maxStreams := 1 } slotRun).1 = 1 ∧
    (run { maxStreams := 1 } slotRun).1.ring = [1] ∧ (run { maxStreams := 1 } slotRun).1.resetByUs = [3, 5] := by
  decide +kernel
example : (run { maxStreams := 1 } (slotRun ++ [.done 1 {}])).1.openStreams = 0 := by decide +kernel
example : dispatchedIds (runOuts { maxStreams := 1 } (slotRun ++ [.done 1 {}, hdrs 7])) = [1, 7] := by decide +kernel

/-- the body lengths of the dispatch records -/
def bodyLens (l : List Out) : List (Nat × Nat) :=
  fm (fun o => match o with | .dispatch sid _ _ _ _ b => some (sid, b.len) | _ => none) l

example : bodyLens (runOuts { maxBody := 2 } bodyRun) = [(1, 2)] ∧
    fm tag (runOuts { maxBody := 2 } bodyRun) = [("dispatch", 1), ("rst", 3)] := by decide +kernel

end Ex

end H2.Server
