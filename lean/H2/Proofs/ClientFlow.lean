import H2.Client.Flow
/-! Invariant of the send-window interleaving model and its consequences (C07). Core tactics only. -/
namespace H2.Client.Flow

open H2.Client

/-! ## `int32` arithmetic -/

theorem wrap32_id {x : Int} (h1 : -2 ^ 31 ≤ x) (h2 : x < 2 ^ 31) : wrap32 x = x := by
  unfold wrap32; omega

theorem wrap32_le {x : Int} (h : -2 ^ 31 ≤ x) : wrap32 x ≤ x := by
  unfold wrap32; omega

theorem wrap32_add (x y : Int) : wrap32 (wrap32 x + y) = wrap32 (x + y) := by
  unfold wrap32; omega

theorem wrap32_range (x : Int) : -2 ^ 31 ≤ wrap32 x ∧ wrap32 x < 2 ^ 31 := by
  unfold wrap32; omega

theorem spendN_le_body (b : Nat) (w cw : Int) : spendN b w cw ≤ b := by
  unfold spendN; omega

theorem spendN_le_window {b : Nat} {w cw : Int} (h : 0 < spendN b w cw) : (spendN b w cw : Int) ≤ w ∧ (spendN b w cw : Int) ≤ cw := by
  unfold spendN at *; omega

theorem spendN_zero_iff (b : Nat) (w cw : Int) : spendN b w cw = 0 ↔ (b = 0 ∨ w ≤ 0 ∨ cw ≤ 0) := by
  unfold spendN; omega

/-! ## the invariant -/

/-- a pending body the windows would let send -/
def Sendable (s : S) (pb : PB) : Prop := (pb.body > 0 ∨ pb.more = true) ∧ pb.window > 0 ∧ s.connWindow > 0

structure PBInv (sw : Int) (pb : PB) : Prop where
  win : pb.window = wrap32 pb.allow
  base : sw - (2 ^ 31 - 1) ≤ pb.allow

structure Inv (s : S) : Prop where
  cwin : s.connWindow = wrap32 s.connAllow
  cnn : 0 ≤ s.connAllow
  sw : 0 ≤ s.streamWindow ∧ s.streamWindow < 2 ^ 31
  pbs : ∀ id pb, s.pending id = some pb → PBInv s.streamWindow pb
  usedP : ∀ id, (s.pending id).isSome → s.used id = true
  endedP : ∀ id, s.ended id = true → s.pending id = none ∧ s.used id = true
  /-- no lost wake-up: a body the windows would let send is either on the write loop's work list or
      the `winCh` token is there -/
  wake : ∀ id pb, s.pending id = some pb → Sendable s pb → s.winTok = true ∨ id ∈ s.todo

theorem init_inv : Inv init := by
  constructor <;> simp [init, wrap32, Gen.c_defaultWindowSize]

/-- facts about one locked section of `sendPending` under the invariant -/
theorem spend_facts {s : S} {id : Nat} {pb : PB} (h : Inv s) (hpid : s.pending id = some pb) :
    let n := spend pb s.connWindow
    n ≤ pb.body ∧
    (0 < n → (n : Int) ≤ pb.allow ∧ (n : Int) ≤ s.connAllow) ∧
    pb.window - n = wrap32 (pb.allow - n) ∧ s.connWindow - n = wrap32 (s.connAllow - n) ∧
    0 ≤ s.connAllow - n ∧ s.streamWindow - (2 ^ 31 - 1) ≤ pb.allow - n ∧
    (n = 0 → pb.body = 0 ∨ pb.window ≤ 0 ∨ s.connWindow ≤ 0) := by
  obtain ⟨hc, hn, hsw, hp, _, _, _⟩ := h
  have hpb := hp id pb hpid
  have hwin := hpb.win
  have hbase := hpb.base
  have hnle := spendN_le_body pb.body pb.window s.connWindow
  have hz := spendN_zero_iff pb.body pb.window s.connWindow
  have hpos : 0 < spendN pb.body pb.window s.connWindow →
      (spendN pb.body pb.window s.connWindow : Int) ≤ pb.window ∧ (spendN pb.body pb.window s.connWindow : Int) ≤ s.connWindow :=
    fun h => spendN_le_window h
  simp only [spend]
  generalize spendN pb.body pb.window s.connWindow = n at *
  by_cases h0 : n = 0
  · subst h0
    refine ⟨by omega, by omega, by simpa using hwin, by simpa using hc, by simpa using hn, by simpa using hbase, ?_⟩
    intro _; exact hz.mp rfl
  · have hp' := hpos (by omega)
    rw [hwin, hc] at hp'
    have e1 : wrap32 pb.allow ≤ pb.allow := wrap32_le (by omega)
    have e2 : wrap32 s.connAllow ≤ s.connAllow := wrap32_le (by omega)
    refine ⟨hnle, fun _ => ⟨by omega, by omega⟩, ?_, ?_, by omega, by omega, fun h => absurd h h0⟩
    · rw [hwin]; unfold wrap32 at *; omega
    · rw [hc]; unfold wrap32 at *; omega

theorem inv_step {s a s' e} (h : Inv s) (st : Step s a s' e) : Inv s' := by
  have hI := h
  obtain ⟨hc, hn, hsw, hp, hu, he, hw⟩ := h
  cases st with
  | wlRegister id body more htodo hused hlive =>
    refine ⟨hc, hn, hsw, ?_, ?_, ?_, ?_⟩
    · intro j pb hj
      simp only [setP_pending, setP_streamWindow] at hj ⊢
      by_cases hji : j = id
      · simp only [hji, if_true, Option.some.injEq] at hj
        subst hj
        exact ⟨by simp only; rw [wrap32_id] <;> omega, by simp only; omega⟩
      · simp only [hji, if_false] at hj; exact hp j pb hj
    · intro j hj
      simp only [setP_pending] at hj ⊢
      by_cases hji : j = id
      · simp [hji]
      · simp only [hji, if_false] at hj ⊢; exact hu j hj
    · intro j hj
      simp only [setP_ended] at hj
      simp only [setP_pending]
      by_cases hji : j = id
      · subst hji
        have := (he j hj).2; rw [hused] at this; cases this
      · simp only [hji, if_false]; exact he j hj
    · intro j pb hj hs
      simp only [setP_pending] at hj
      by_cases hji : j = id
      · right; simp [hji]
      · simp only [hji, if_false] at hj
        rcases hw j pb hj hs with h1 | h1
        · left; exact h1
        · rw [htodo] at h1; cases h1
  | wlTakeTok ids htodo htok hall =>
    refine ⟨hc, hn, hsw, hp, hu, he, ?_⟩
    intro j pb hj _; right; exact hall j (by rw [show s.pending j = some pb from hj]; rfl)
  | wlSpend id rest pb htodo hpid hnr =>
    obtain ⟨f1, f2, f3, f4, f5, f6, f7⟩ := spend_facts hI hpid
    simp only [spendState]
    generalize spend pb s.connWindow = n at *
    refine ⟨f4, f5, hsw, ?_, ?_, ?_, ?_⟩
    · intro j q hj
      simp only [setP] at hj
      by_cases hji : j = id
      · simp only [hji, if_true] at hj
        split at hj
        · cases hj
        · simp only [Option.some.injEq] at hj
          subst hj
          exact ⟨f3, f6⟩
      · simp only [hji, if_false] at hj; exact hp j q hj
    · intro j hj
      simp only [setP] at hj ⊢
      by_cases hji : j = id
      · subst hji; exact hu j (by simp [hpid])
      · simp only [hji, if_false] at hj; exact hu j hj
    · intro j hj
      simp only [setP] at hj ⊢
      by_cases hji : j = id
      · subst hji
        simp only [if_true, Bool.or_eq_true] at hj ⊢
        rcases hj with hj | hj
        · have := (he j hj).1; rw [hpid] at this; cases this
        · simp only [hj, if_true]; exact ⟨trivial, hu j (by simp [hpid])⟩
      · simp only [hji, if_false] at hj ⊢; exact he j hj
    · intro j q hj hs
      simp only [setP] at hj
      by_cases hji : j = id
      · simp only [hji, if_true] at hj
        split at hj
        · cases hj
        · rename_i hend
          simp only [Option.some.injEq] at hj
          subst hj
          by_cases h0 : n = 0
          · -- nothing went out and the body stays: it is blocked
            subst h0
            obtain ⟨hs1, hs2, hs3⟩ := hs
            simp only [Int.natCast_zero, Int.sub_zero, Nat.sub_zero] at hs2 hs3 hs1
            have hbz : pb.body ≠ 0 := by
              intro hb0
              rcases hs1 with h | h
              · omega
              · exact hnr ⟨hb0, h⟩
            have := f7 rfl
            omega
          · right
            have : (!({ window := pb.window - ↑n, body := pb.body - n, more := pb.more, allow := pb.allow - ↑n } : PB).hasMore) = false := by
              simpa using hend
            simp [this, h0, hji]
      · simp only [hji, if_false] at hj
        have hs' : Sendable s q := by
          obtain ⟨a, b, c⟩ := hs
          exact ⟨a, b, by simp only at c; omega⟩
        rcases hw j q hj hs' with h1 | h1
        · left; exact h1
        · right
          rw [htodo] at h1
          simp only [List.mem_cons] at h1
          rcases h1 with h1 | h1
          · exact absurd h1 hji
          · show j ∈ (if _ then rest else id :: rest)
            split
            · exact h1
            · simp [h1]
  | wlSkip id rest htodo hnone =>
    refine ⟨hc, hn, hsw, hp, hu, he, ?_⟩
    intro j pb hj hs
    rcases hw j pb hj hs with h1 | h1
    · left; exact h1
    · right
      rw [htodo] at h1
      simp only [List.mem_cons] at h1
      rcases h1 with h1 | h1
      · subst h1; rw [hnone] at hj; cases hj
      · exact h1
  | wlRefill id rest pb k more' htodo hpid hb hm hk =>
    have hpb := hp id pb hpid
    refine ⟨hc, hn, hsw, ?_, ?_, ?_, ?_⟩
    · intro j q hj
      simp only [setP] at hj
      by_cases hji : j = id
      · simp only [hji, if_true, Option.some.injEq] at hj
        subst hj
        exact ⟨hpb.win, hpb.base⟩
      · simp only [hji, if_false] at hj; exact hp j q hj
    · intro j hj
      simp only [setP] at hj ⊢
      by_cases hji : j = id
      · subst hji; exact hu j (by simp [hpid])
      · simp only [hji, if_false] at hj; exact hu j hj
    · intro j hj
      simp only [setP]
      by_cases hji : j = id
      · subst hji; have := (he j hj).1; rw [hpid] at this; cases this
      · simp only [hji, if_false]; exact he j hj
    · intro j q hj hs
      simp only [setP] at hj
      by_cases hji : j = id
      · right; show j ∈ s.todo; rw [htodo, hji]; simp
      · simp only [hji, if_false] at hj
        exact hw j q hj hs
  | wlRefillFail id rest pb htodo hpid hb hm =>
    refine ⟨hc, hn, hsw, ?_, ?_, ?_, ?_⟩
    · intro j q hj
      simp only [setP] at hj
      by_cases hji : j = id
      · simp [hji] at hj
      · simp only [hji, if_false] at hj; exact hp j q hj
    · intro j hj
      simp only [setP] at hj ⊢
      by_cases hji : j = id
      · simp [hji] at hj
      · simp only [hji, if_false] at hj; exact hu j hj
    · intro j hj
      simp only [setP]
      by_cases hji : j = id
      · subst hji; exact ⟨by simp, (he j hj).2⟩
      · simp only [hji, if_false]; exact he j hj
    · intro j q hj hs
      simp only [setP] at hj
      by_cases hji : j = id
      · simp [hji] at hj
      · simp only [hji, if_false] at hj
        rcases hw j q hj hs with h1 | h1
        · left; exact h1
        · right
          rw [htodo] at h1
          simp only [List.mem_cons] at h1
          rcases h1 with h1 | h1
          · exact absurd h1 hji
          · exact h1
  | rdWindowUpdate id inc hinc =>
    refine ⟨hc, hn, hsw, ?_, ?_, ?_, ?_⟩
    · intro j q hj
      simp only at hj
      by_cases hji : j = id
      · simp only [hji, if_true, Option.map_eq_some_iff] at hj
        obtain ⟨pb, hpb, rfl⟩ := hj
        have := hp id pb hpb
        refine ⟨?_, ?_⟩
        · show addWin pb.window inc = wrap32 (pb.allow + ↑inc)
          rw [addWin, this.win, wrap32_add]
        · show s.streamWindow - (2 ^ 31 - 1) ≤ pb.allow + ↑inc
          have := this.base; omega
      · simp only [hji, if_false] at hj; exact hp j q hj
    · intro j hj
      simp only at hj
      by_cases hji : j = id
      · simp only [hji, if_true, Option.isSome_map] at hj; rw [hji]; exact hu id hj
      · simp only [hji, if_false] at hj; exact hu j hj
    · intro j hj
      simp only
      by_cases hji : j = id
      · simp only [hji, if_true]; rw [hji] at hj; simp [(he id hj).1, (he id hj).2]
      · simp only [hji, if_false]; exact he j hj
    · intro j q _ _; left; rfl
  | rdConnWindowUpdate inc hinc =>
    refine ⟨?_, ?_, hsw, hp, hu, he, ?_⟩
    · show addWin s.connWindow inc = wrap32 (s.connAllow + ↑inc)
      rw [addWin, hc, wrap32_add]
    · show 0 ≤ s.connAllow + ↑inc; omega
    · intro j q _ _; left; rfl
  | rdSettingsWindow v hv =>
    refine ⟨hc, hn, ⟨by simp only; omega, by simp only; omega⟩, ?_, ?_, ?_, ?_⟩
    · intro j q hj
      simp only [Option.map_eq_some_iff] at hj
      obtain ⟨pb, hpb, rfl⟩ := hj
      have := hp j pb hpb
      refine ⟨?_, ?_⟩
      · show wrap32 (pb.window + wrap32 ((v : Int) - s.streamWindow)) = wrap32 (pb.allow + ((v : Int) - s.streamWindow))
        rw [wrap32_id (x := (v : Int) - s.streamWindow) (by omega) (by omega), this.win, wrap32_add]
      · show (v : Int) - (2 ^ 31 - 1) ≤ pb.allow + ((v : Int) - s.streamWindow)
        have := this.base; omega
    · intro j hj
      simp only [Option.isSome_map] at hj; exact hu j hj
    · intro j hj
      simp only [(he j hj).1, Option.map_none, (he j hj).2, and_self]
    · intro j q _ _; left; rfl
  | drop id =>
    refine ⟨hc, hn, hsw, ?_, ?_, ?_, ?_⟩
    · intro j q hj
      simp only [setP] at hj
      by_cases hji : j = id
      · simp [hji] at hj
      · simp only [hji, if_false] at hj; exact hp j q hj
    · intro j hj
      simp only [setP] at hj ⊢
      by_cases hji : j = id
      · simp [hji] at hj
      · simp only [hji, if_false] at hj; exact hu j hj
    · intro j hj
      simp only [setP]
      by_cases hji : j = id
      · subst hji; exact ⟨by simp, (he j hj).2⟩
      · simp only [hji, if_false]; exact he j hj
    · intro j q hj hs
      simp only [setP] at hj
      by_cases hji : j = id
      · simp [hji] at hj
      · simp only [hji, if_false] at hj
        exact hw j q hj hs

theorem reach_inv {s es} (h : Reach s es) : Inv s := by
  induction h with
  | init => exact init_inv
  | step _ st ih => exact inv_step ih st

end H2.Client.Flow
