import H2.Proofs.ServerSlotsFull
/-!
# MaxHeaderListSize on the FULL server model (second half of C13's "what a handler is given")

For EVERY configuration and EVERY event list: in every reachable state of `H2.Server.step`, every stream whose handler
is running — in the table or abandoned — has a header list (RFC 7540 §6.5.2 size, all its header blocks together) of at
most `cfg.maxHeaderList` when that limit is on, and so has every stream of the table that has not been closed.

The invariant `HL` is per stream: (1) not closed → `hdrListSize ≤ limit`; (2) handler running → `hdrListSize ≤ limit`,
the header section is finished and the stream is at least half-closed (so no further header block is ever decoded for
it). Clause (1) is broken for one stream between `handleFrame` (the field loop adds the size of the offending field
before it reports the error) and `onFrameError` (which closes the stream): `HLw uid`.

(3) `hd`, for every stream of the table at every moment (F68 repaired): the octets of a header field that is not complete
yet, carried over to the next CONTINUATION frame (`prevHdr`, Go `previousHeaderBytes`), are at most `heldFactor` = 4 times
the limit — `held_header_octets_bounded`. The field loop checks before it stores.
-/
namespace H2.Server

/-- what the header-list accounting needs of a stream -/
structure Hl where
  uid : Nat
  state : StState
  hsz : Nat
  running : Bool
  hfin : Bool
  held : Nat

def Strm.hl (st : Strm) : Hl :=
  ⟨st.uid, st.state, st.hdrListSize, st.handlerRunning, st.headersFinished, st.prevHdr.length⟩

def hls (r : R) : List Hl := r.s.strms.map Strm.hl

/-- clause (2): a stream whose handler runs -/
def PW (cfg : Cfg) (t : Hl) : Prop :=
  cfg.maxHeaderList > 0 → t.running = true → (t.hsz : Int) ≤ cfg.maxHeaderList ∧ t.hfin = true ∧ t.state.rank ≥ 3

/-- clause (1): a stream that is not closed -/
def P1 (cfg : Cfg) (t : Hl) : Prop :=
  cfg.maxHeaderList > 0 → t.state ≠ .closed → (t.hsz : Int) ≤ cfg.maxHeaderList

def POK (cfg : Cfg) (t : Hl) : Prop := P1 cfg t ∧ PW cfg t

/-- clause (3): the octets of an unfinished header field a stream holds -/
def PH (cfg : Cfg) (t : Hl) : Prop :=
  cfg.maxHeaderList > 0 → (t.held : Int) ≤ (heldFactor : Int) * cfg.maxHeaderList

structure HL (cfg : Cfg) (r : R) : Prop where
  cf : r.s.cfg = cfg
  ok : ∀ t ∈ hls r, POK cfg t
  ab : ∀ a ∈ r.s.abandoned, cfg.maxHeaderList > 0 → (a.hdrListSize : Int) ≤ cfg.maxHeaderList
  hd : ∀ t ∈ hls r, PH cfg t

/-- the weak form: entries with uid `uid` may break clause (1) -/
structure HLw (cfg : Cfg) (uid : Nat) (r : R) : Prop where
  cf : r.s.cfg = cfg
  ok : ∀ t ∈ hls r, PW cfg t ∧ (t.uid ≠ uid → P1 cfg t)
  ab : ∀ a ∈ r.s.abandoned, cfg.maxHeaderList > 0 → (a.hdrListSize : Int) ≤ cfg.maxHeaderList
  hd : ∀ t ∈ hls r, PH cfg t

section
variable {cfg : Cfg} {r r' : R}

theorem HL.weak (h : HL cfg r) (uid : Nat) : HLw cfg uid r :=
  ⟨h.cf, fun t ht => ⟨(h.ok t ht).2, fun _ => (h.ok t ht).1⟩, h.ab, h.hd⟩

theorem HL.congr (h : HL cfg r) (hs : hls r' = hls r) (ha : r'.s.abandoned = r.s.abandoned) (hc : r'.s.cfg = r.s.cfg) :
    HL cfg r' :=
  ⟨by rw [hc]; exact h.cf, by rw [hs]; exact h.ok, by rw [ha]; exact h.ab, by rw [hs]; exact h.hd⟩

theorem HLw.congr {uid : Nat} (h : HLw cfg uid r) (hs : hls r' = hls r) (ha : r'.s.abandoned = r.s.abandoned)
    (hc : r'.s.cfg = r.s.cfg) : HLw cfg uid r' :=
  ⟨by rw [hc]; exact h.cf, by rw [hs]; exact h.ok, by rw [ha]; exact h.ab, by rw [hs]; exact h.hd⟩

theorem hls_upd (r : R) (uid : Nat) (f : Strm → Strm) :
    hls (r.updStrm uid f) = r.s.strms.map fun x => if x.uid == uid then (f x).hl else x.hl := by
  simp only [hls, R.updStrm, List.map_map]
  apply List.map_congr_left
  intro x _
  simp only [Function.comp]
  split <;> rfl

theorem hls_upd_mem {uid : Nat} {f : Strm → Strm} {t : Hl} (ht : t ∈ hls (r.updStrm uid f)) :
    ∃ x ∈ r.s.strms, (x.uid ≠ uid ∧ t = x.hl) ∨ (x.uid = uid ∧ t = (f x).hl) := by
  rw [hls_upd] at ht
  obtain ⟨x, hx, rfl⟩ := List.mem_map.mp ht
  refine ⟨x, hx, ?_⟩
  by_cases hu : x.uid = uid
  · have hb : (x.uid == uid) = true := by simpa using hu
    rw [if_pos hb]; exact Or.inr ⟨hu, rfl⟩
  · have hb : ¬ (x.uid == uid) = true := by simpa using hu
    rw [if_neg hb]; exact Or.inl ⟨hu, rfl⟩

/-- **in-place update**: the new entries with that uid are in order whenever the old ones were -/
theorem HL.upd (h : HL cfg r) (uid : Nat) (f : Strm → Strm)
    (hf : ∀ x ∈ r.s.strms, x.uid = uid → POK cfg x.hl → POK cfg (f x).hl)
    (hh : ∀ x ∈ r.s.strms, x.uid = uid → PH cfg x.hl → PH cfg (f x).hl := by intro _ _ _ hp; exact hp) :
    HL cfg (r.updStrm uid f) := by
  refine ⟨h.cf, ?_, h.ab, ?_⟩
  · intro t ht
    obtain ⟨x, hx, ⟨_, e⟩ | ⟨hu, e⟩⟩ := hls_upd_mem ht
    · rw [e]; exact h.ok _ (List.mem_map_of_mem hx)
    · rw [e]; exact hf x hx hu (h.ok _ (List.mem_map_of_mem hx))
  · intro t ht
    obtain ⟨x, hx, ⟨_, e⟩ | ⟨hu, e⟩⟩ := hls_upd_mem ht
    · rw [e]; exact h.hd _ (List.mem_map_of_mem hx)
    · rw [e]; exact hh x hx hu (h.hd _ (List.mem_map_of_mem hx))

/-- an update that keeps state, size, `handlerRunning` and `headersFinished` -/
theorem HL.updK (h : HL cfg r) (uid : Nat) (f : Strm → Strm) (hf : ∀ x, (f x).hl = x.hl) : HL cfg (r.updStrm uid f) :=
  h.upd uid f (fun _ _ _ hp => by rw [hf]; exact hp) (fun _ _ _ hp => by rw [hf]; exact hp)

theorem POK.close {t : Hl} (h : PW cfg t) (t' : Hl) (h1 : t'.state = .closed) (h2 : t'.hsz = t.hsz) (h3 : t'.running = t.running)
    (h4 : t'.hfin = t.hfin) : POK cfg t' := by
  refine ⟨fun _ hne => absurd h1 hne, fun hpos hr => ?_⟩
  rw [h3] at hr
  obtain ⟨a, b, _⟩ := h hpos hr
  rw [h1, h2, h4]
  exact ⟨a, b, by decide⟩

/-- closing a stream -/
theorem HL.updClose (h : HL cfg r) (uid : Nat) : HL cfg (r.updStrm uid fun s => { s with state := .closed }) :=
  h.upd uid _ fun _x _ _ hp => POK.close hp.2 _ rfl rfl rfl rfl

/-- closing the stream that may break clause (1) repairs the invariant -/
theorem HLw.updClose {uid : Nat} (h : HLw cfg uid r) : HL cfg (r.updStrm uid fun s => { s with state := .closed }) := by
  refine ⟨h.cf, ?_, h.ab, ?_⟩
  · intro t ht
    obtain ⟨x, hx, ⟨hu, e⟩ | ⟨hu, e⟩⟩ := hls_upd_mem ht
    · rw [e]
      have := h.ok _ (List.mem_map_of_mem hx)
      exact ⟨this.2 hu, this.1⟩
    · rw [e]
      exact POK.close (h.ok _ (List.mem_map_of_mem hx)).1 _ rfl rfl rfl rfl
  · intro t ht
    obtain ⟨x, hx, ⟨_, e⟩ | ⟨_, e⟩⟩ := hls_upd_mem ht
    · rw [e]; exact h.hd _ (List.mem_map_of_mem hx)
    · rw [e]; exact (h.hd x.hl (List.mem_map_of_mem hx) : PH cfg x.hl)

theorem HLw.updK {uid : Nat} (h : HLw cfg uid r) (uid' : Nat) (f : Strm → Strm) (hf : ∀ x, (f x).hl = x.hl) :
    HLw cfg uid (r.updStrm uid' f) := by
  refine ⟨h.cf, ?_, h.ab, ?_⟩
  · intro t ht
    obtain ⟨x, hx, ⟨_, e⟩ | ⟨_, e⟩⟩ := hls_upd_mem ht
    · rw [e]; exact h.ok _ (List.mem_map_of_mem hx)
    · rw [e, hf x]; exact h.ok _ (List.mem_map_of_mem hx)
  · intro t ht
    obtain ⟨x, hx, ⟨_, e⟩ | ⟨_, e⟩⟩ := hls_upd_mem ht
    · rw [e]; exact h.hd _ (List.mem_map_of_mem hx)
    · rw [e, hf x]; exact h.hd _ (List.mem_map_of_mem hx)

/-- replacing the stream `getStrm uid` returns by one with the same skeleton -/
theorem HL.updC (h : HL cfg r) (uid : Nat) (st st' : Strm) (hg : r.getStrm uid = some st) (hs : st'.hl = st.hl) :
    HL cfg (r.updStrm uid fun _ => st') :=
  h.upd uid _ (fun _ _ _ _ => by rw [hs]; exact h.ok _ (List.mem_map_of_mem (getStrm_mem hg).1))
    (fun _ _ _ _ => by rw [hs]; exact h.hd _ (List.mem_map_of_mem (getStrm_mem hg).1))

theorem HL.of (h : HL cfg r) {uid : Nat} {st : Strm} (hg : r.getStrm uid = some st) : POK cfg st.hl :=
  h.ok _ (List.mem_map_of_mem (getStrm_mem hg).1)

end

/-! ## the field loop: no error means the running size stayed within the limit -/

theorem fieldUpdate_hsz (st : Strm) (f : Hpack.Field) :
    (fieldUpdate st f).hdrListSize = st.hdrListSize + f.name.length + f.value.length + 32 := by
  simp only [fieldUpdate]
  repeat' split
  all_goals rfl

theorem fieldVerdict_none_limit (cfg : Cfg) (st : Strm) (f : Hpack.Field) (h : fieldVerdict cfg st f = none)
    (hpos : cfg.maxHeaderList > 0) :
    ((st.hdrListSize + f.name.length + f.value.length + 32 : Nat) : Int) ≤ cfg.maxHeaderList := by
  unfold fieldVerdict at h
  simp only [] at h
  split at h
  · cases h
  · rename_i hc
    simp only [Bool.and_eq_true, decide_eq_true_eq, not_and, Int.not_lt] at hc
    exact hc hpos

theorem fieldLoop_limit (fuel : Nat) (s : Srv) (st : Strm) (bs eh : Bool) (fp : Nat) (b : Bytes)
    (hpos : s.cfg.maxHeaderList > 0) (h0 : (st.hdrListSize : Int) ≤ s.cfg.maxHeaderList)
    (hn : (fieldLoop fuel s st bs eh fp b).2.2 = none) :
    ((fieldLoop fuel s st bs eh fp b).2.1.hdrListSize : Int) ≤ s.cfg.maxHeaderList := by
  induction fuel generalizing s st fp b with
  | zero => simp [fieldLoop] at hn
  | succ n ih =>
    cases b with
    | nil => simpa [fieldLoop] using h0
    | cons c cs =>
      simp only [fieldLoop] at hn ⊢
      cases hd : Hpack.Dec.next s.dec bs fp (c :: cs) with
      | needMore =>
        rw [hd] at hn
        simp only [] at hn ⊢
        repeat' split
        all_goals exact h0
      | err =>
        rw [hd] at hn
        simp at hn
      | ok dec fo rest =>
        rw [hd] at hn
        cases fo with
        | none => exact h0
        | some f =>
          simp only [] at hn ⊢
          cases hv : fieldVerdict s.cfg { st with fieldSeen := true } f with
          | some e =>
            simp only [fieldStep, hv] at hn
            cases hn
          | none =>
            simp only [fieldStep, hv] at hn ⊢
            refine ih _ _ _ _ hpos ?_ hn
            rw [fieldUpdate_hsz]
            exact fieldVerdict_none_limit s.cfg _ f hv hpos

/-- `handleHeaderFrame` either fails before the loop or is the loop run on a stream with the same running size -/
theorem handleHeaderFrame_cases_hsz (s : Srv) (st : Strm) (fr : Frame.Frame) :
    (handleHeaderFrame s st fr).2.2 ≠ none ∨
    ∃ (bs eh : Bool) (frag : Bytes) (st0 : Strm),
      handleHeaderFrame s st fr = fieldLoop ((st.prevHdr ++ frag).length + 1) s st0 bs eh 0 (st.prevHdr ++ frag) ∧
      st0.hdrListSize = st.hdrListSize := by
  cases hnl : (st.headersFinished && !Frame.hasFlag fr.flags Gen.c_FlagEndStream)
  · simp only [handleHeaderFrame, hnl, Bool.false_and, Bool.false_eq_true, if_false]
    repeat' split
    all_goals first
      | (left; simp; done)
      | (right; exact ⟨_, _, _, _, rfl, rfl⟩)
  · have hF : st.headersFinished = true := by revert hnl; cases st.headersFinished <;> simp
    cases hH : Frame.hasFlag fr.flags Gen.c_FlagEndHeaders
    · left; simp [handleHeaderFrame, hnl, hH]
    · simp only [handleHeaderFrame, hH, hF, Bool.true_and, Bool.not_true, Bool.and_false, Bool.false_eq_true,
        if_false, if_true]
      repeat' split
      all_goals first
        | (left; simp; done)
        | (right; exact ⟨_, _, _, _, rfl, rfl⟩)

/-- **a header frame accepted without error leaves the running header-list size within the limit** -/
theorem handleHeaderFrame_limit (s : Srv) (st : Strm) (fr : Frame.Frame) (hpos : s.cfg.maxHeaderList > 0)
    (h0 : (st.hdrListSize : Int) ≤ s.cfg.maxHeaderList) (hn : (handleHeaderFrame s st fr).2.2 = none) :
    ((handleHeaderFrame s st fr).2.1.hdrListSize : Int) ≤ s.cfg.maxHeaderList := by
  rcases handleHeaderFrame_cases_hsz s st fr with h | ⟨bs, eh, frag, st0, he, hv⟩
  · exact absurd hn h
  · rw [he] at hn ⊢
    exact fieldLoop_limit _ _ _ _ _ _ _ hpos (by rw [hv]; exact h0) hn

/-- uid, state, `handlerRunning`: untouched by the header-block loop -/
def Strm.h3 (st : Strm) : Nat × StState × Bool := (st.uid, st.state, st.handlerRunning)

theorem fieldUpdate_h3 (st : Strm) (f : Hpack.Field) : (fieldUpdate st f).h3 = st.h3 := by
  simp only [fieldUpdate]
  repeat' split
  all_goals rfl

theorem fieldLoop_keeps_h3 (fuel : Nat) (s : Srv) (st : Strm) (bs eh : Bool) (fp : Nat) (b : Bytes) :
    (fieldLoop fuel s st bs eh fp b).2.1.h3 = st.h3 := by
  induction fuel generalizing s st fp b with
  | zero => simp [fieldLoop]
  | succ n ih =>
    cases b with
    | nil => simp [fieldLoop]
    | cons c cs =>
      simp only [fieldLoop]
      repeat' split
      all_goals first
        | rfl
        | exact fieldUpdate_h3 _ _
        | (rename_i dec fo rest _ _ _
           have := ih { s with dec := dec } (fieldStep s.cfg { st with fieldSeen := true } fo).1 (fp + 1) rest
           simp only [fieldStep] at this ⊢
           rw [fieldUpdate_h3] at this
           exact this)

theorem handleHeaderFrame_keeps_h3 (s : Srv) (st : Strm) (fr : Frame.Frame) :
    (handleHeaderFrame s st fr).2.1.h3 = st.h3 := by
  simp only [handleHeaderFrame]
  repeat' split
  all_goals first
    | rfl
    | (rw [fieldLoop_keeps_h3]; try rfl)

/-! ## the field loop: what it leaves of an unfinished field is within `heldFactor` times the limit -/

/-- the octets of an unfinished field a stream holds are within the bound (trivially so when the limit is off) -/
def HeldOK (cfg : Cfg) (st : Strm) : Prop :=
  cfg.maxHeaderList > 0 → (st.prevHdr.length : Int) ≤ (heldFactor : Int) * cfg.maxHeaderList

theorem fieldUpdate_prev (st : Strm) (f : Hpack.Field) : (fieldUpdate st f).prevHdr = st.prevHdr := by
  simp only [fieldUpdate]
  repeat' split
  all_goals rfl

theorem heldTooLong_false {cfg : Cfg} {tail : Bytes} (h : ¬ heldTooLong cfg tail = true) (hpos : cfg.maxHeaderList > 0) :
    (tail.length : Int) ≤ (heldFactor : Int) * cfg.maxHeaderList := by
  simp only [heldTooLong, Bool.and_eq_true, decide_eq_true_eq, not_and, Int.not_lt] at h
  exact h hpos

/-- **the field loop stores an unfinished field only when it is within the bound**: whatever the octets, with or
without an error -/
theorem fieldLoop_held (fuel : Nat) (s : Srv) (st : Strm) (bs eh : Bool) (fp : Nat) (b : Bytes) (h0 : HeldOK s.cfg st) :
    HeldOK s.cfg (fieldLoop fuel s st bs eh fp b).2.1 := by
  induction fuel generalizing s st fp b with
  | zero => simpa [fieldLoop] using h0
  | succ n ih =>
    cases b with
    | nil => simpa [fieldLoop] using h0
    | cons c cs =>
      simp only [fieldLoop]
      repeat' split
      all_goals first
        | exact h0
        | (intro hpos; exact heldTooLong_false (by assumption) hpos)
        | (intro hpos; simp only [fieldStep, fieldUpdate_prev]; exact h0 hpos)
        | (rename_i dec fo rest _ _ _
           have := ih { s with dec := dec } (fieldStep s.cfg { st with fieldSeen := true } fo).1 (fp + 1) rest
             (by intro hpos; simp only [fieldStep, fieldUpdate_prev]; exact h0 hpos)
           exact this)

/-- **`handleHeaderFrame` leaves the stream with an unfinished field within the bound** (it empties `prevHdr` before
the loop; where it fails before the loop the stream is as it was) -/
theorem handleHeaderFrame_held (s : Srv) (st : Strm) (fr : Frame.Frame) (h0 : HeldOK s.cfg st) :
    HeldOK s.cfg (handleHeaderFrame s st fr).2.1 := by
  have hz : ∀ x : Strm, HeldOK s.cfg { x with prevHdr := [] } := by
    intro x hpos; simp only [List.length_nil, heldFactor]; omega
  simp only [handleHeaderFrame]
  repeat' split
  all_goals first
    | exact h0
    | exact fieldLoop_held _ _ _ _ _ _ _ (hz _)

/-! ## preservation -/

section Pres
variable {cfg : Cfg} {r : R}

theorem HL.triv (hpos : ¬ cfg.maxHeaderList > 0) (hc : r.s.cfg = cfg) : HL cfg r :=
  ⟨hc, fun _ _ => ⟨fun h => absurd h hpos, fun h => absurd h hpos⟩, fun _ _ h => absurd h hpos, fun _ _ h => absurd h hpos⟩

theorem mem_updStrm {uid : Nat} {f : Strm → Strm} {x : Strm} (hx : x ∈ (r.updStrm uid f).s.strms) :
    ∃ y ∈ r.s.strms, (y.uid ≠ uid ∧ x = y) ∨ (y.uid = uid ∧ x = f y) := by
  simp only [R.updStrm] at hx
  obtain ⟨y, hy, rfl⟩ := List.mem_map.mp hx
  refine ⟨y, hy, ?_⟩
  by_cases hu : y.uid = uid
  · have hb : (y.uid == uid) = true := by simpa using hu
    rw [if_pos hb]; exact Or.inr ⟨hu, rfl⟩
  · have hb : ¬ (y.uid == uid) = true := by simpa using hu
    rw [if_neg hb]; exact Or.inl ⟨hu, rfl⟩

/-- update of the exempt stream: the new entries keep the uid and satisfy clause (2) -/
theorem HLw.updW {uid : Nat} (h : HLw cfg uid r) (f : Strm → Strm)
    (hf : ∀ x ∈ r.s.strms, x.uid = uid → (f x).uid = uid ∧ PW cfg (f x).hl ∧ PH cfg (f x).hl) :
    HLw cfg uid (r.updStrm uid f) := by
  refine ⟨h.cf, ?_, h.ab, ?_⟩
  · intro t ht
    obtain ⟨x, hx, ⟨_, e⟩ | ⟨hu, e⟩⟩ := hls_upd_mem ht
    · rw [e]; exact h.ok _ (List.mem_map_of_mem hx)
    · rw [e]
      exact ⟨(hf x hx hu).2.1, fun hne => absurd (hf x hx hu).1 hne⟩
  · intro t ht
    obtain ⟨x, hx, ⟨_, e⟩ | ⟨hu, e⟩⟩ := hls_upd_mem ht
    · rw [e]; exact h.hd _ (List.mem_map_of_mem hx)
    · rw [e]; exact (hf x hx hu).2.2

theorem HLw.toHL {uid : Nat} (h : HLw cfg uid r) (h1 : ∀ x ∈ r.s.strms, x.uid = uid → P1 cfg x.hl) : HL cfg r := by
  refine ⟨h.cf, ?_, h.ab, h.hd⟩
  intro t ht
  obtain ⟨x, hx, rfl⟩ := List.mem_map.mp ht
  have := h.ok _ (List.mem_map_of_mem hx)
  by_cases hu : x.uid = uid
  · exact ⟨h1 x hx hu, this.1⟩
  · exact ⟨this.2 hu, this.1⟩

theorem writeReset_hl (sid code : Nat) (h : HL cfg r) : HL cfg (writeReset r sid code) := h.congr rfl rfl rfl

theorem writeGoAway_hl (sid code : Nat) (tag : String) (h : HL cfg r) : HL cfg (writeGoAway r sid code tag) := by
  obtain ⟨k1, k2, _, _, _, _, k7, _, _⟩ := writeGoAway_keeps r sid code tag
  exact h.congr (by simp only [hls, k1]) k2 k7

theorem writeGoAway_hlw {uid : Nat} (sid code : Nat) (tag : String) (h : HLw cfg uid r) :
    HLw cfg uid (writeGoAway r sid code tag) := by
  obtain ⟨k1, k2, _, _, _, _, k7, _, _⟩ := writeGoAway_keeps r sid code tag
  exact h.congr (by simp only [hls, k1]) k2 k7

theorem writeError_hl (uid : Nat) (e : SErr) (h : HL cfg r) : HL cfg (writeError r uid e) := by
  unfold writeError
  split
  · exact h
  · cases e with
    | goAway code tag => exact (writeGoAway_hl _ _ _ h).updClose _
    | reset code => exact (writeReset_hl _ _ h).updClose _

/-- `writeError` on the exempt stream closes it -/
theorem writeError_hlw (uid : Nat) (e : SErr) (h : HLw cfg uid r) : HLw cfg uid (writeError r uid e) := by
  unfold writeError
  split
  · exact h
  · cases e with
    | goAway code tag => exact (writeGoAway_hlw _ _ _ h).updClose.weak uid
    | reset code => exact (HLw.congr (r' := writeReset r _ code) h rfl rfl rfl).updClose.weak uid

theorem closeStream_hl (uid : Nat) (h : HL cfg r) : HL cfg (closeStream r uid) := by
  unfold closeStream
  split
  · exact h
  · rename_i st hg
    have hsub : ∀ t ∈ (delFirst r.s.strms st.id).map Strm.hl, t ∈ hls r := by
      intro t ht
      obtain ⟨x, hx, rfl⟩ := List.mem_map.mp ht
      exact List.mem_map_of_mem ((delFirst_sublist _ _).subset hx)
    simp only []
    split
    · rename_i hrun
      refine ⟨h.cf, fun t ht => h.ok t (hsub t ht), ?_, fun t ht => h.hd t (hsub t ht)⟩
      intro a ha hpos
      rcases List.mem_append.mp ha with ha | ha
      · exact h.ab a ha hpos
      · simp only [List.mem_singleton] at ha; subst ha
        exact ((h.of hg).2 hpos hrun).1
    · unfold releaseStream
      split
      · exact ⟨h.cf, fun t ht => h.ok t (hsub t ht), h.ab, fun t ht => h.hd t (hsub t ht)⟩
      · exact ⟨h.cf, fun t ht => h.ok t (hsub t ht), h.ab, fun t ht => h.hd t (hsub t ht)⟩

/-! sending -/

theorem refillRead_hl (st : Strm) (bs : BodyStream) : (refillRead st bs).hl = st.hl := by
  simp only [refillRead]; split <;> rfl

theorem closeBody_hl (uid : Nat) (h : HL cfg r) : HL cfg (closeBody r uid) := h.updK _ _ fun _ => rfl

theorem refill_hl (uid : Nat) (st : Strm) (hg : r.getStrm uid = some st) (h : HL cfg r) : HL cfg (refill r uid st).1 := by
  rw [refill_eq]
  repeat' split
  all_goals first
    | exact h
    | exact writeReset_hl _ _ (h.updC uid st _ hg rfl)
    | exact HL.congr (r' := R.emit _ _) (h.updC uid st _ hg (refillRead_hl st _)) rfl rfl rfl
    | exact h.updC uid st _ hg (refillRead_hl st _)

theorem sendFrame_hl (uid : Nat) (st : Strm) (step : Nat) (h : HL cfg r) : HL cfg (sendFrame r uid st step).1 := by
  rw [sendFrame_eq]
  exact HL.congr (h.updK uid (fun s => { s with pendOff := s.pendOff + step, pendLen := st.pendLen - step, window := s.window - step })
    (by intro; rfl)) rfl rfl rfl

theorem sendDataFuel_hl (fuel : Nat) (uid : Nat) (h : HL cfg r) : HL cfg (sendDataFuel fuel r uid).1 := by
  induction fuel generalizing r with
  | zero => exact h
  | succ n ih =>
    rw [sendDataFuel_succ]
    split
    · exact h
    · rename_i st0 hg
      have h1 := refill_hl uid st0 hg h
      repeat' split
      all_goals first
        | exact h1
        | exact closeBody_hl _ h1
        | exact closeBody_hl _ (sendFrame_hl _ _ _ h1)
        | exact ih (sendFrame_hl _ _ _ h1)

theorem sendData_hl (uid : Nat) (h : HL cfg r) : HL cfg (sendData r uid).1 := by
  simp only [sendData]
  split
  · exact h
  · exact sendDataFuel_hl _ _ h

theorem flushOne_hl (acc : R × List Nat) (uid : Nat) (h : HL cfg acc.1) : HL cfg (flushOne acc uid).1 := by
  simp only [flushOne]
  repeat' split
  all_goals first | exact h | exact sendData_hl _ h

theorem closeDone_hl (uid : Nat) (h : HL cfg r) : HL cfg (closeDone r uid) := by
  simp only [closeDone]
  exact closeStream_hl _ (h.updClose _)

theorem flushStreams_hl (h : HL cfg r) : HL cfg (flushStreams r) := by
  simp only [flushStreams]
  have h1 : HL cfg ((r.s.strms.map (·.uid)).foldl flushOne (r, [])).1 :=
    foldl_inv (fun acc : R × List Nat => HL cfg acc.1) flushOne (fun b a hb => flushOne_hl b a hb) _ _ h
  exact foldl_inv (fun x : R => HL cfg x) closeDone (fun b a hb => closeDone_hl a hb) _ _ h1

theorem responseHeaders_hl (st : Strm) (resp : Resp) (hb : Bool) (h : HL cfg r) : HL cfg (responseHeaders r st resp hb) := by
  simp only [responseHeaders]
  split
  · exact h.congr rfl rfl rfl
  · exact h.congr rfl rfl rfl

theorem finishRequest_hl (uid : Nat) (resp : Resp) (h : HL cfg r) : HL cfg (finishRequest r uid resp).1 := by
  simp only [finishRequest]
  split
  · exact h
  · repeat' split
    all_goals first
      | exact responseHeaders_hl _ _ _ h
      | exact sendData_hl _ ((responseHeaders_hl _ _ _ h).updK _ _ (by intro; rfl))

theorem consumeConnWindow_hl (n : Nat) (h : HL cfg r) : HL cfg (consumeConnWindow r n) := by
  simp only [consumeConnWindow]
  repeat' split
  all_goals exact h.congr rfl rfl rfl

theorem consumeRecvWindow_hl (st : Strm) (fr : Frame.Frame) (n : Nat) (h : HL cfg r) : HL cfg (consumeRecvWindow r st fr n) := by
  simp only [consumeRecvWindow]
  repeat' split
  · exact h
  · exact consumeConnWindow_hl _ (h.congr rfl rfl rfl)
  · exact consumeConnWindow_hl _ h

/-! receiving a header frame -/

/-- the header case of `handleFrame`, reached only for a stream that is not (at least half-closed and past its header
section): in particular not for a stream whose handler runs. The stream may now be over the limit — exactly when the
loop reported an error. -/
theorem hhf_hl (uid : Nat) (st : Strm) (fr : Frame.Frame) (hg : r.getStrm uid = some st)
    (hguard : ¬ (decide (st.state.rank ≥ StState.halfClosed.rank) && !continuingHeaders st fr) = true) (h : HL cfg r) :
    HLw cfg uid (({ r with s := (handleHeaderFrame r.s st fr).1 } : R).updStrm uid fun _ => (handleHeaderFrame r.s st fr).2.1) ∧
    ((handleHeaderFrame r.s st fr).2.2 = none →
      HL cfg (({ r with s := (handleHeaderFrame r.s st fr).1 } : R).updStrm uid fun _ => (handleHeaderFrame r.s st fr).2.1)) ∧
    (∀ fin, HLw cfg uid ((({ r with s := (handleHeaderFrame r.s st fr).1 } : R).updStrm uid
      fun _ => (handleHeaderFrame r.s st fr).2.1).updStrm uid fun s => { s with headersFinished := fin })) ∧
    ((handleHeaderFrame r.s st fr).2.2 = none →
      ∀ fin, HL cfg ((({ r with s := (handleHeaderFrame r.s st fr).1 } : R).updStrm uid
        fun _ => (handleHeaderFrame r.s st fr).2.1).updStrm uid fun s => { s with headersFinished := fin })) := by
  obtain ⟨k1, k2, _⟩ := handleHeaderFrame_keeps_sl r.s st fr
  have k3 := handleHeaderFrame_keeps_h3 r.s st fr
  simp only [Srv.rest, Prod.mk.injEq] at k2
  have hab := k2.1
  have hcf := k2.2.2.2.2.2.1
  have h0 : HL cfg ({ r with s := (handleHeaderFrame r.s st fr).1 } : R) := h.congr (by simp only [hls]; rw [k1]) hab hcf
  obtain ⟨hm, hu⟩ := getStrm_mem hg
  have hp := h.of hg
  have e1 : (handleHeaderFrame r.s st fr).2.1.uid = st.uid := congrArg (·.1) k3
  have e2 : (handleHeaderFrame r.s st fr).2.1.state = st.state := congrArg (·.2.1) k3
  have e3 : (handleHeaderFrame r.s st fr).2.1.handlerRunning = st.handlerRunning := congrArg (·.2.2) k3
  -- the handler of this stream does not run (when the limit is on)
  have hrun : cfg.maxHeaderList > 0 → st.handlerRunning = false := by
    intro hpos
    cases hr : st.handlerRunning
    · rfl
    · exfalso
      obtain ⟨_, hf, hk⟩ := hp.2 hpos hr
      apply hguard
      simp only [Strm.hl] at hf hk
      simp [continuingHeaders, hf]
      exact hk
  have pw : ∀ fin, PW cfg ({ (handleHeaderFrame r.s st fr).2.1 with headersFinished := fin } : Strm).hl := by
    intro fin hpos hr
    simp only [Strm.hl] at hr
    rw [e3, hrun hpos] at hr; cases hr
  have pw0 : PW cfg (handleHeaderFrame r.s st fr).2.1.hl := by
    intro hpos hr
    simp only [Strm.hl] at hr
    rw [e3, hrun hpos] at hr; cases hr
  have ph0 : PH cfg (handleHeaderFrame r.s st fr).2.1.hl := by
    have := handleHeaderFrame_held r.s st fr (by rw [h.cf]; exact h.hd st.hl (List.mem_map_of_mem hm))
    rw [h.cf] at this
    exact this
  have p1 : (handleHeaderFrame r.s st fr).2.2 = none → ∀ fin, P1 cfg ({ (handleHeaderFrame r.s st fr).2.1 with headersFinished := fin } : Strm).hl := by
    intro hn fin hpos hne
    simp only [Strm.hl] at hne ⊢
    rw [e2] at hne
    have := handleHeaderFrame_limit r.s st fr (by rw [h.cf]; exact hpos) (by rw [h.cf]; exact hp.1 hpos hne) hn
    rw [h.cf] at this
    exact this
  have hw1 : HLw cfg uid (({ r with s := (handleHeaderFrame r.s st fr).1 } : R).updStrm uid fun _ => (handleHeaderFrame r.s st fr).2.1) :=
    (h0.weak uid).updW _ fun _ _ _ => ⟨by rw [e1, hu], pw0, ph0⟩
  -- every entry with that uid is now the stream the loop returned
  have hthe : ∀ x ∈ (({ r with s := (handleHeaderFrame r.s st fr).1 } : R).updStrm uid fun _ => (handleHeaderFrame r.s st fr).2.1).s.strms,
      x.uid = uid → x = (handleHeaderFrame r.s st fr).2.1 := by
    intro x hx hxu
    obtain ⟨y, _, ⟨hne, e⟩ | ⟨_, e⟩⟩ := mem_updStrm hx
    · rw [e] at hxu; exact absurd hxu hne
    · exact e
  have hw2 : ∀ fin, HLw cfg uid ((({ r with s := (handleHeaderFrame r.s st fr).1 } : R).updStrm uid
      fun _ => (handleHeaderFrame r.s st fr).2.1).updStrm uid fun s => { s with headersFinished := fin }) := by
    intro fin
    refine hw1.updW _ fun x hx hxu => ?_
    rw [hthe x hx hxu]
    exact ⟨by show (handleHeaderFrame r.s st fr).2.1.uid = uid; rw [e1, hu], pw fin, ph0⟩
  refine ⟨hw1, fun hn => hw1.toHL fun x hx hxu => ?_, hw2, fun hn fin => (hw2 fin).toHL fun x hx hxu => ?_⟩
  · rw [hthe x hx hxu]
    exact p1 hn (handleHeaderFrame r.s st fr).2.1.headersFinished
  · obtain ⟨y, hy, ⟨hne, e⟩ | ⟨hyu, e⟩⟩ := mem_updStrm hx
    · rw [e] at hxu; exact absurd hxu hne
    · rw [e, hthe y hy hyu]
      exact p1 hn fin

theorem some_eq_none_elim {α : Type} {a : α} {P : Prop} (h : some a = none) : P := by cases h

theorem handleFrame_hl (uid : Nat) (fr : Frame.Frame) (h : HL cfg r) :
    HLw cfg uid (handleFrame r uid fr).1 ∧ ((handleFrame r uid fr).2 = none → HL cfg (handleFrame r uid fr).1) := by
  simp only [handleFrame]
  split
  · exact ⟨h.weak uid, fun _ => h⟩
  · rename_i st hg
    have hh := fun hguard => hhf_hl uid st fr hg hguard h
    have hd : ∀ d : Bytes, HL cfg (r.updStrm uid fun _ => { st with recvBody := st.recvBody + d.length }) :=
      fun d => h.updC uid st _ hg rfl
    repeat' split
    all_goals first
      | exact ⟨h.weak uid, fun _ => h⟩
      | exact ⟨(hh (by assumption)).1, fun hc => some_eq_none_elim hc⟩
      | exact ⟨(hh (by assumption)).2.2.1 _, fun hc => some_eq_none_elim hc⟩
      | exact ⟨(hh (by assumption)).2.2.1 _, fun _ => (hh (by assumption)).2.2.2 (by assumption) _⟩
      | exact ⟨(hh (by assumption)).1, fun _ => (hh (by assumption)).2.1 (by assumption)⟩
      | exact ⟨(consumeConnWindow_hl _ (hd _)).weak uid, fun hc => some_eq_none_elim hc⟩
      | exact ⟨(consumeRecvWindow_hl _ _ _ ((hd _).updK _ _ (by intro; rfl))).weak uid,
          fun _ => consumeRecvWindow_hl _ _ _ ((hd _).updK _ _ (by intro; rfl))⟩
      | exact ⟨(h.updK _ _ (by intro; rfl)).weak uid, fun _ => h.updK _ _ (by intro; rfl)⟩

/-! the stream loop -/

theorem closeIdleBelow_hl (fuel : Nat) (id : Nat) (h : HL cfg r) : HL cfg (closeIdleBelow fuel r id) := by
  induction fuel generalizing r with
  | zero => exact h
  | succ n ih =>
    simp only [closeIdleBelow]
    repeat' split
    all_goals first
      | exact h
      | exact ih (writeReset_hl _ _ (closeStream_hl _ (h.updClose _)))

theorem stopLoop_hl (h : HL cfg r) : HL cfg (stopLoop r) := h.congr rfl rfl rfl
theorem rlStop_hl (h : HL cfg r) : HL cfg (rlStop r) := h.congr rfl rfl rfl

theorem closeIfDone_hl (h : HL cfg r) : HL cfg (closeIfDone r) := by
  simp only [closeIfDone]; split
  · exact stopLoop_hl h
  · exact h

theorem closeIfClosing_hl (h : HL cfg r) : HL cfg (closeIfClosing r) := by
  simp only [closeIfClosing]; split
  · exact stopLoop_hl h
  · exact h

/-- a new stream: idle, nothing counted yet, no handler -/
theorem new_hl (id typ : Nat) (win : Int) (h : HL cfg r) : HL cfg (sfWithNew r id typ win) := by
  have hs : hls (sfWithNew r id typ win) = hls r ++ [⟨r.s.nextUid, .idle, 0, false, false, 0⟩] := by
    simp [hls, Strm.hl, sfWithNew]
  refine ⟨h.cf, ?_, h.ab, ?_⟩
  · intro t ht
    rw [hs] at ht
    rcases List.mem_append.mp ht with ht | ht
    · exact h.ok t ht
    · simp only [List.mem_singleton] at ht; subst ht
      exact ⟨fun hpos _ => by simp only []; omega, fun _ hr => by simp at hr⟩
  · intro t ht
    rw [hs] at ht
    rcases List.mem_append.mp ht with ht | ht
    · exact h.hd t ht
    · simp only [List.mem_singleton] at ht; subst ht
      intro hpos; simp only [heldFactor]; omega

theorem unknownStream_hl (fr : Frame.Frame) (wc : Bool) (h : HL cfg r) : HL cfg (unknownStream r fr wc).1 := by
  simp only [unknownStream]
  repeat' split
  all_goals first
    | exact h
    | exact consumeConnWindow_hl _ h
    | exact closeIfDone_hl (writeGoAway_hl _ _ _ h)
    | exact stopLoop_hl (writeGoAway_hl _ _ _ h)
    | exact writeReset_hl _ _ (h.congr rfl rfl rfl)
    | exact new_hl _ _ _ h

theorem headersPrelude_hl (fr : Frame.Frame) (h : HL cfg r) : HL cfg (headersPrelude r fr).1 := by
  simp only [headersPrelude]
  repeat' split
  all_goals first
    | exact h
    | exact closeIdleBelow_hl _ _ h
    | (dsimp only; exact writeError_hl _ _ h)

/-- `onFrameError` after `handleFrame`: an error closes the stream that may be over the limit -/
theorem onFrameError_hl (uid : Nat) (e : Option SErr) (hw : HLw cfg uid r) (hn : e = none → HL cfg r) :
    HL cfg (onFrameError r uid e).1 := by
  simp only [onFrameError]
  repeat' split
  all_goals first
    | exact hn rfl
    | exact (writeError_hlw _ _ hw).updClose

theorem rank_closed {s : StState} (h : s.rank ≥ 4) : s = .closed := by
  cases s <;> simp [StState.rank] at h ⊢

theorem POK.mono {t t' : Hl} (hp : POK cfg t) (h2 : t'.hsz = t.hsz) (h3 : t'.running = t.running) (h4 : t'.hfin = t.hfin)
    (hr : t.state.rank ≤ t'.state.rank) : POK cfg t' := by
  refine ⟨fun hpos hne => ?_, fun hpos hrun => ?_⟩
  · rw [h2]
    refine hp.1 hpos fun hc => hne (rank_closed ?_)
    rw [hc] at hr; exact hr
  · rw [h3] at hrun
    obtain ⟨a, b, c⟩ := hp.2 hpos hrun
    rw [h2, h4]
    exact ⟨a, b, Nat.le_trans c hr⟩

theorem handleState_rank (fr : Frame.Frame) (x : Strm) :
    (handleState fr x).hdrListSize = x.hdrListSize ∧ (handleState fr x).handlerRunning = x.handlerRunning ∧
    (handleState fr x).headersFinished = x.headersFinished ∧ x.state.rank ≤ (handleState fr x).state.rank := by
  cases hs : x.state <;> simp only [handleState] <;> (repeat' split) <;> simp_all [StState.rank]

theorem handleState_ph (fr : Frame.Frame) (x : Strm) (hp : PH cfg x.hl) : PH cfg (handleState fr x).hl := by
  have e : (handleState fr x).prevHdr = x.prevHdr := by
    cases hs : x.state <;> simp only [handleState] <;> (repeat' split) <;> simp_all
  intro hpos
  simp only [Strm.hl, e]
  exact hp hpos

theorem handleState_pok (fr : Frame.Frame) (x : Strm) (hp : POK cfg x.hl) : POK cfg (handleState fr x).hl := by
  obtain ⟨a, b, c, d⟩ := handleState_rank fr x
  exact hp.mono a b c d

/-- **the dispatch**: only for a stream that is half-closed with its header section finished — so within the limit -/
theorem dispatchOrSend_hl {cfg' : Cfg} {G : List Nat} {L : Nat} (uid : Nat) (st : Strm) (hg : r.getStrm uid = some st)
    (hs : SF cfg' G L r) (h : HL cfg r) : HL cfg (dispatchOrSend r uid st) := by
  simp only [dispatchOrSend]
  split
  · rename_i hc
    simp only [Bool.and_eq_true, beq_iff_eq, Bool.not_eq_true'] at hc
    have h1 : HL cfg (r.updStrm uid fun s => { s with responded := true }) := h.updK _ _ (by intro; rfl)
    split
    · exact (writeReset_hl _ _ h1).updClose _
    · simp only [dispatch]
      refine HL.congr (r := (r.updStrm uid fun s => { s with responded := true }).updStrm uid
        fun s => { s with handlerRunning := true }) ?_ rfl rfl rfl
      refine h1.upd uid _ fun x hx hxu hp => ?_
      obtain ⟨y, hy, ⟨hne, e⟩ | ⟨hyu, e⟩⟩ := mem_updStrm hx
      · rw [e] at hxu; exact absurd hxu hne
      · have hy' := hs.the hg y hy hyu
        subst hy'
        subst e
        refine ⟨hp.1, fun hpos _ => ?_⟩
        have hst : y.state ≠ .closed := by rw [hc.1.1]; decide
        have := hp.1 hpos hst
        refine ⟨this, hc.1.2, ?_⟩
        show y.state.rank ≥ 3
        rw [hc.1.1]; decide
  · repeat' split
    all_goals first
      | exact h
      | exact sendData_hl _ h
      | exact (sendData_hl _ h).updClose _

theorem closeIfClosed_hl (uid : Nat) (h : HL cfg r) : HL cfg (closeIfClosed r uid) := by
  simp only [closeIfClosed]
  repeat' split
  all_goals first | exact h | exact closeStream_hl _ h

variable {cfg' : Cfg} {G : List Nat} {L : Nat}

theorem knownStream_hl (uid : Nat) (fr : Frame.Frame) (wc : Bool) (hs : SF cfg' G L r) (h : HL cfg r) :
    HL cfg (knownStream r uid fr wc) := by
  simp only [knownStream]
  have s1 := headersPrelude_sf fr hs
  have h1 := headersPrelude_hl fr h
  split
  · exact h1
  · have s2 := onFrameError_sf uid (handleFrame (headersPrelude r fr).1 uid fr).2 (handleFrame_sf uid fr s1)
    obtain ⟨w, n⟩ := handleFrame_hl uid fr h1
    have h2 := onFrameError_hl uid (handleFrame (headersPrelude r fr).1 uid fr).2 w n
    split
    · exact stopLoop_hl h2
    · have s3 := s2.updK uid (handleState fr) (handleState_sl fr)
      have h3 : HL cfg ((onFrameError (handleFrame (headersPrelude r fr).1 uid fr).1 uid
          (handleFrame (headersPrelude r fr).1 uid fr).2).1.updStrm uid (handleState fr)) :=
        h2.upd uid _ (fun x _ _ hp => handleState_pok fr x hp) (fun x _ _ hp => handleState_ph fr x hp)
      split
      · exact h3
      · rename_i st hg
        have h4 := closeIfClosed_hl uid (dispatchOrSend_hl uid st hg s3 h3)
        split
        · exact stopLoop_hl h4
        · exact h4

theorem slStreamFrame_hl (fr : Frame.Frame) (hfs : fr.stream < 2 ^ 31) (hs : SF cfg' G L r) (h : HL cfg r) :
    HL cfg (slStreamFrame r fr) := by
  simp only [slStreamFrame]
  repeat' split
  all_goals first
    | exact knownStream_hl _ _ _ hs h
    | exact unknownStream_hl _ _ h
    | exact knownStream_hl _ _ _ (unknownStream_sf _ _ hfs (fun x => x) hs) (unknownStream_hl _ _ h)

theorem applyDelta_hl (d : Int) (l : List Strm) : (applyDelta d l).1.map Strm.hl = l.map Strm.hl := by
  induction l with
  | nil => rfl
  | cons a l ih =>
    simp only [applyDelta]
    split
    · simp [Strm.hl]
    · simp [Strm.hl, ih]

theorem slFrame_hl (fr : Frame.Frame) (hfs : fr.stream < 2 ^ 31) (hs : SF cfg' G L r) (h : HL cfg r) :
    HL cfg (slFrame r fr) := by
  have hf : HL cfg ({ r with fwd := r.fwd ++ [fr] } : R) := h.congr rfl rfl rfl
  simp only [slFrame]
  split
  · exact h
  · split
    · split
      · rename_i st _
        have h1 : HL cfg (applyTableSize { r with fwd := r.fwd ++ [fr] } st) := hf.congr rfl rfl rfl
        split
        · have h2 : HL cfg ({ (applyTableSize { r with fwd := r.fwd ++ [fr] } st) with
              s := { (applyTableSize { r with fwd := r.fwd ++ [fr] } st).s with
                curInitWin := st.windowSize,
                strms := (applyDelta ((st.windowSize : Int) - (applyTableSize { r with fwd := r.fwd ++ [fr] } st).s.curInitWin)
                  (applyTableSize { r with fwd := r.fwd ++ [fr] } st).s.strms).1 } } : R) :=
            h1.congr (applyDelta_hl _ _) rfl rfl
          split
          · exact stopLoop_hl (writeGoAway_hl _ _ _ h2)
          · exact closeIfClosing_hl (flushStreams_hl h2)
        · exact closeIfClosing_hl h1
      · rename_i inc _
        have h2 : HL cfg ({ r with fwd := r.fwd ++ [fr], s := { r.s with clientWindow := r.s.clientWindow + inc } } : R) :=
          h.congr rfl rfl rfl
        split
        · exact stopLoop_hl (writeGoAway_hl _ _ _ h2)
        · exact closeIfClosing_hl (flushStreams_hl h2)
      · exact closeIfClosing_hl hf
    · exact slStreamFrame_hl fr hfs (hs.congr rfl rfl rfl) hf

theorem slHandlerDone_hl (sid : Nat) (resp : Resp) (h : HL cfg r) : HL cfg (slHandlerDone r sid resp) := by
  simp only [slHandlerDone]
  have h0 : HL cfg (if resp.kind == "panic" then r.emit .handlerPanicLogged else r) := by
    split
    · exact h.congr rfl rfl rfl
    · exact h
  generalize (if resp.kind == "panic" then r.emit .handlerPanicLogged else r) = r0 at h0 ⊢
  split
  · exact h0
  · split
    · split
      · rename_i st _
        have hab : ∀ a ∈ r0.s.abandoned.filter (fun x => x.uid != st.uid), cfg.maxHeaderList > 0 → (a.hdrListSize : Int) ≤ cfg.maxHeaderList :=
          fun a ha => h0.ab a (List.mem_filter.mp ha).1
        unfold releaseStream
        split
        · exact ⟨h0.cf, h0.ok, hab, h0.hd⟩
        · exact ⟨h0.cf, h0.ok, hab, h0.hd⟩
      · exact h0
    · rename_i st hf
      have h1 : HL cfg (r0.updStrm st.uid fun s => { s with handlerRunning := false }) :=
        h0.upd _ _ fun x _ _ hp => ⟨hp.1, fun _ hr => by simp [Strm.hl] at hr⟩
      have h2 := finishRequest_hl st.uid resp h1
      repeat' split
      all_goals first
        | exact h2
        | exact closeDone_hl _ h2
        | exact stopLoop_hl h2
        | exact stopLoop_hl (closeDone_hl _ h2)

theorem contCheck_hl (fr : Frame.Frame) (h : HL cfg r) : HL cfg (contCheck r fr).1 := by
  simp only [contCheck]
  repeat' split
  all_goals first
    | exact h
    | exact writeGoAway_hl _ _ _ h
    | exact h.congr rfl rfl rfl

theorem handleSettings_hl (st : Frame.SettingsVal) (h : HL cfg r) : HL cfg (handleSettings r st) := by
  simp only [handleSettings]
  exact h.congr rfl rfl rfl

theorem rlFrame_hl (fr : Frame.Frame) (hfs : fr.stream < 2 ^ 31) (hs : SF cfg' G L r) (h : HL cfg r) :
    HL cfg (rlFrame r fr) := by
  have sc := contCheck_sf fr hs
  have hc := contCheck_hl fr h
  simp only [rlFrame, rlConnFrame]
  repeat' split
  all_goals first
    | exact hc
    | exact rlStop_hl hc
    | exact slFrame_hl _ hfs sc hc
    | exact rlStop_hl (writeGoAway_hl _ _ _ hc)
    | exact slFrame_hl _ hfs (handleSettings_sf _ sc) (handleSettings_hl _ hc)
    | exact hc.congr rfl rfl rfl

theorem rlDrain_hl (fuel : Nat) (hs : SF cfg' G L r) (h : HL cfg r) : HL cfg (rlDrain fuel r) := by
  induction fuel generalizing r with
  | zero => exact h
  | succ n ih =>
    simp only [rlDrain]
    repeat' split
    all_goals first
      | exact h
      | exact rlStop_hl h
      | exact rlStop_hl (writeGoAway_hl _ _ _ h)
      | (rename_i fr _ hrf
         have hlt := readFrame_stream_lt _ _ _ _ hrf
         exact ih (rlFrame_sf _ hlt (hs.congr rfl rfl rfl)) (rlFrame_hl _ hlt (hs.congr rfl rfl rfl) (h.congr rfl rfl rfl)))
      | exact ih (hs.congr rfl rfl rfl) (h.congr rfl rfl rfl)
      | exact rlStop_hl (writeGoAway_hl _ _ _ (h.congr rfl rfl rfl))

theorem settle_hl (h : HL cfg r) : HL cfg (settle r) := by
  simp only [settle]
  split
  · exact h.congr rfl rfl rfl
  · exact h

/-- **one step preserves the invariant** -/
theorem stepR_hl (s : Srv) (ev : Event) (hs : SF cfg' G L { s := s }) (h : HL cfg { s := s }) : HL cfg (stepR s ev) := by
  simp only [stepR]
  apply settle_hl
  cases ev with
  | bytes b => exact rlDrain_hl _ (hs.congr rfl rfl rfl) (h.congr rfl rfl rfl)
  | done sid resp => exact slHandlerDone_hl sid resp h
  | cut => exact rlStop_hl h
  | idle => exact stopLoop_hl (writeGoAway_hl _ _ _ h)

end Pres

/-! ## runs -/

/-- the invariant between steps -/
def HLS (cfg : Cfg) (s : Srv) : Prop := HL cfg { s := s }

theorem step_hls {cfg cfg' : Cfg} {G : List Nat} {s : Srv} (ev : Event) (hs : SFS cfg' G s) (h : HLS cfg s) :
    HLS cfg (step s ev).1 :=
  (stepR_hl s ev hs h).congr rfl rfl rfl

theorem runFrom_hls {cfg cfg' : Cfg} {G : List Nat} {s : Srv} (evs : List Event) (hs : SFS cfg' G s) (h : HLS cfg s) :
    HLS cfg (runFrom s evs).1 := by
  induction evs generalizing s G with
  | nil => exact h
  | cons ev evs ih => exact ih (step_sfs ev hs).1 (step_hls ev hs h)

theorem init_hls (cfg : Cfg) : HLS cfg { cfg := cfg } :=
  ⟨rfl, fun t ht => by simp [hls] at ht, fun a ha => by simp at ha, fun t ht => by simp [hls] at ht⟩

/-- **the invariant holds after every run** from the initial state of any configuration -/
theorem run_hls (cfg : Cfg) (evs : List Event) : HLS cfg (run cfg evs).1 :=
  runFrom_hls evs (init_sfs cfg) (init_hls cfg)

/-- **handler_headers_within_limit** (run level): with MaxHeaderListSize set, in every reachable state every stream
whose handler is running — in the table or abandoned — has a header list of at most that size (RFC 7540 §6.5.2 size,
summed over all its header blocks); such a stream of the table has its header section finished and is at least
half-closed (no further header block is decoded for it: its size is final); and every stream of the table that is not
closed is within the limit at every moment. -/
theorem handler_headers_within_limit (cfg : Cfg) (evs : List Event) (hpos : cfg.maxHeaderList > 0) :
    (∀ st ∈ (run cfg evs).1.strms, st.handlerRunning = true →
      (st.hdrListSize : Int) ≤ cfg.maxHeaderList ∧ st.headersFinished = true ∧ st.state.rank ≥ StState.halfClosed.rank) ∧
    (∀ a ∈ (run cfg evs).1.abandoned, (a.hdrListSize : Int) ≤ cfg.maxHeaderList) ∧
    (∀ st ∈ (run cfg evs).1.strms, st.state ≠ .closed → (st.hdrListSize : Int) ≤ cfg.maxHeaderList) := by
  have h := run_hls cfg evs
  refine ⟨fun st hst hr => ?_, fun a ha => h.ab a ha hpos, fun st hst hne => ?_⟩
  · exact (h.ok st.hl (List.mem_map_of_mem hst)).2 hpos hr
  · exact (h.ok st.hl (List.mem_map_of_mem hst)).1 hpos hne

/-- **held_header_octets_bounded** (run level): with MaxHeaderListSize set, in every reachable state every stream of the
table holds at most `heldFactor` = 4 times MaxHeaderListSize octets of a header field that is not complete yet
(`prevHdr`, Go `strm.previousHeaderBytes`) — however many HEADERS/CONTINUATION frames the peer has sent. The bound is
attained (`Ex.cutRun`). -/
theorem held_header_octets_bounded (cfg : Cfg) (evs : List Event) (hpos : cfg.maxHeaderList > 0) :
    ∀ st ∈ (run cfg evs).1.strms, (st.prevHdr.length : Int) ≤ 4 * cfg.maxHeaderList := by
  intro st hst
  exact (run_hls cfg evs).hd st.hl (List.mem_map_of_mem hst) hpos

/-- **dispatch_within_header_limit** (step level, under the invariant): where the stream loop hands a request to a
handler (`dispatchOrSend` emits a dispatch record for the stream `st` it was given), that stream's header list is
within the limit -/
theorem dispatch_within_header_limit {cfg : Cfg} {r : R} (h : HL cfg r) (uid : Nat) (st : Strm) (hg : r.getStrm uid = some st)
    (hd : cnt .dispatch (dispatchOrSend r uid st).out ≠ cnt .dispatch r.out) (hpos : cfg.maxHeaderList > 0) :
    (st.hdrListSize : Int) ≤ cfg.maxHeaderList := by
  rw [dispatchOrSend_dispatch] at hd
  have hst : st.state = .halfClosed := by
    apply Classical.byContradiction
    intro hne
    have : (st.state == StState.halfClosed) = false := by simpa using hne
    simp [this] at hd
  refine (h.of hg).1 hpos ?_
  show st.state ≠ .closed
  rw [hst]; decide

/-! non-vacuity: MaxHeaderListSize = 200. GET / http has a header list of 42 + 43 + 38 = 123 octets: dispatched.
The same three fields and twice `accept-encoding: gzip, deflate` (60 octets each) make 243: the second of them breaks
the limit — GOAWAY(ENHANCE_YOUR_CALM), no dispatch; the handler of stream 1 is still running with its 123 octets. -/
namespace Ex

/-- HEADERS(sid, GET / http, accept-encoding ×2, END_STREAM | END_HEADERS) -/
def bigHdrs (sid : Nat) : Event := .bytes [0, 0, 5, 1, 5, 0, 0, 0, sid, 0x82, 0x86, 0x84, 0x90, 0x90]

def hdrRun : List Event := [settings0, hdrs 1, bigHdrs 3]

example : fm tag (runOuts { maxHeaderList := 200 } hdrRun) = [("dispatch", 1), ("goaway", 3)] := by decide +kernel
example : (run { maxHeaderList := 200 } hdrRun).1.strms.map (fun st => (st.id, st.hdrListSize, st.handlerRunning)) =
    [(1, 123, true), (3, 243, false)] := by decide +kernel
example : ((run { maxHeaderList := 200 } hdrRun).1.strms.filter (·.id == 3)).map (·.state) = [.closed] := by decide +kernel

/-- HEADERS(sid, no flags): a literal field without indexing, name `a`, whose value announces 127 octets, with `n`
of them: `5 + n` octets of a field that never ends in this frame -/
def cutHdrs (sid n : Nat) : Event := .bytes ([0, 0, 5 + n, 1, 0, 0, 0, 0, sid, 0x00, 0x01, 0x61, 0x7f, 0x00] ++ List.replicate n 0x78)
/-- CONTINUATION(sid, no flags) with `n` more octets of the value -/
def moreCont (sid n : Nat) : Event := .bytes ([0, 0, n, 9, 0, 0, 0, 0, sid] ++ List.replicate n 0x78)

/-- MaxHeaderListSize = 10, so 40 octets may be held: 5 + 30, then 5 more — held; one more — GOAWAY, nothing held -/
def cutRun : List Event := [settings0, cutHdrs 1 30, moreCont 1 5]

example : (run { maxHeaderList := 10 } cutRun).1.strms.map (fun st => (st.id, st.prevHdr.length)) = [(1, 40)] ∧
    fm tag (runOuts { maxHeaderList := 10 } cutRun) = [] := by decide +kernel
example : (run { maxHeaderList := 10 } (cutRun ++ [moreCont 1 1])).1.strms.map (fun st => (st.id, st.prevHdr.length)) = [(1, 0)] ∧
    fm tag (runOuts { maxHeaderList := 10 } (cutRun ++ [moreCont 1 1])) = [("goaway", 1)] := by decide +kernel
/-- with the check off the same octets are kept -/
example : (run { maxHeaderList := -1 } (cutRun ++ [moreCont 1 1])).1.strms.map (fun st => (st.id, st.prevHdr.length)) = [(1, 41)] := by
  decide +kernel

end Ex

end H2.Server
