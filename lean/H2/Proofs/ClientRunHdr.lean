import H2.Proofs.ClientRunStep
/-!
# Full serial client model: which steps write a HEADERS frame, and what it carries

`step_frames_spec`: a step writes a HEADERS frame only when its event is a request that `CanOpenStream` lets
through; the frame is the first the step writes, the only HEADERS among them, carries the identifier `nextID` held
before the step, and `nextID` moves up by 2; every other step leaves `nextID` alone and writes no HEADERS.
`step_ctl`: GOAWAY is never taken back. Used by the run-level theorems of C11, C18c and C02.
-/
namespace H2.Client

def NoHdr (q : List OutFrame) : Prop := ∀ f ∈ q, f.isHeaders = false

theorem NoHdr.append {a b : List OutFrame} (ha : NoHdr a) (hb : NoHdr b) : NoHdr (a ++ b) := by
  intro f hf
  rcases List.mem_append.mp hf with h | h
  · exact ha f h
  · exact hb f h

theorem noHdr_nil : NoHdr [] := fun _ h => by cases h

theorem nomem {α : Type} {P : Prop} {f : α} (h : f ∈ ([] : List α)) : P := by cases h

/-! ## the frames as they go out (`wireFrames`): only queued HEADERS frames are expanded -/

/-- frames that are not part of a header block go out as they are -/
theorem wireFrames_noHdr (fs : List OutFrame) : ∀ c : Conn, NoHdr fs → wireFrames c fs = fs := by
  induction fs with
  | nil => intro c _; rfl
  | cons f fs ih =>
    intro c h
    have hf := h f (List.mem_cons_self ..)
    have ht : NoHdr fs := fun x hx => h x (List.mem_cons_of_mem _ hx)
    cases f with
    | headers sid es fl => cases hf
    | hfrag sid es len => cases hf
    | cont sid eh len fl => cases hf
    | data sid len es => simp only [wireFrames]; rw [ih c ht]
    | rst sid code => simp only [wireFrames]; rw [ih c ht]
    | settingsAck => simp only [wireFrames]; rw [ih c ht]
    | ping a d => simp only [wireFrames]; rw [ih c ht]
    | windowUpdate sid inc => simp only [wireFrames]; rw [ih c ht]

/-- a queued HEADERS frame followed by frames outside header blocks: the block's frames, then those frames -/
theorem wireFrames_headers (c : Conn) (sid : Nat) (es : Bool) (fl : List (Bytes × Bytes)) (rest : List OutFrame)
    (h : NoHdr rest) :
    wireFrames c (.headers sid es fl :: rest) =
      headerFrames sid es fl (blockLens (frameStep c) (encodeHeaders c fl).2) ++ rest := by
  simp only [wireFrames]
  rw [wireFrames_noHdr rest _ h]

/-- the frames of one header block: the first opens the stream (HEADERS, whole or cut), the others are its CONTINUATIONs -/
def BlockOf (sid : Nat) (es : Bool) (fl : List (Bytes × Bytes)) (hs : List OutFrame) : Prop :=
  ∃ l ls, hs = headerFrames sid es fl (l :: ls)

theorem blockLens_cons (step n : Nat) : ∃ l ls, blockLens step n = l :: ls := ⟨_, _, rfl⟩

/-! ## what the write loop writes for a body -/

theorem dataFrames_data (sid step : Nat) : ∀ (fuel n : Nat) (e : Bool), ∀ f ∈ dataFrames sid step fuel n e,
    ∃ k b, f = .data sid k b := by
  intro fuel
  induction fuel with
  | zero => intro n e f hf; simp [dataFrames] at hf
  | succ k ih =>
    intro n e f hf
    simp only [dataFrames] at hf
    split at hf
    · simp only [List.mem_singleton] at hf; exact ⟨_, _, hf⟩
    · simp only [List.mem_cons] at hf
      rcases hf with hf | hf
      · exact ⟨_, _, hf⟩
      · exact ih _ _ f hf

theorem writeData_data (c : Conn) (sid n : Nat) (e : Bool) : ∀ f ∈ writeData c sid n e, ∃ k b, f = .data sid k b := by
  intro f hf
  simp only [writeData] at hf
  split at hf
  · split at hf
    · simp only [List.mem_singleton] at hf; exact ⟨_, _, hf⟩
    · cases hf
  · exact dataFrames_data _ _ _ _ _ f hf

/-- `sendPending` writes DATA frames of its stream only; what it queues for later is RST_STREAM -/
theorem sendPending_out (fuel : Nat) : ∀ (c : Conn) (sid : Nat),
    (∀ f ∈ (sendPending fuel c sid).2, ∃ k b, f = .data sid k b) ∧
    (∀ f ∈ (sendPending fuel c sid).1.outQ, f ∈ c.outQ ∨ ∃ s code, f = .rst s code) := by
  induction fuel with
  | zero => intro c sid; exact ⟨fun f hf => nomem hf, fun f hf => .inl hf⟩
  | succ k ih =>
    intro c sid
    simp only [sendPending]
    split
    · exact ⟨fun f hf => nomem hf, fun f hf => .inl hf⟩
    · split
      · split
        · refine ⟨fun f hf => nomem hf, ?_⟩
          intro f hf
          simp only [deletePending, List.mem_append, List.mem_singleton] at hf
          rcases hf with hf | hf
          · exact .inl hf
          · exact .inr ⟨_, _, hf⟩
        · exact ih _ sid
      · split
        · exact ⟨fun f hf => nomem hf, fun f hf => .inl hf⟩
        · split
          · exact ⟨fun f hf => nomem hf, fun f hf => .inl hf⟩
          · split
            · exact ⟨fun f hf => nomem hf, fun f hf => .inl hf⟩
            · split
              · exact ⟨fun f hf => writeData_data _ _ _ _ f hf, fun f hf => .inl hf⟩
              · obtain ⟨i1, i2⟩ := ih { c with connWindow := _, pending := _ } sid
                refine ⟨?_, i2⟩
                intro f hf
                rcases List.mem_append.mp hf with h | h
                · exact writeData_data _ _ _ _ f h
                · exact i1 f h

theorem flushFold_out (l : List Nat) : ∀ (acc : Conn × List OutFrame),
    (∀ f ∈ (l.foldl (fun (acc : Conn × List OutFrame) sid =>
        ((sendPending 100000 acc.1 sid).1, acc.2 ++ (sendPending 100000 acc.1 sid).2)) acc).2,
      f ∈ acc.2 ∨ ∃ s k b, f = .data s k b) ∧
    (∀ f ∈ (l.foldl (fun (acc : Conn × List OutFrame) sid =>
        ((sendPending 100000 acc.1 sid).1, acc.2 ++ (sendPending 100000 acc.1 sid).2)) acc).1.outQ,
      f ∈ acc.1.outQ ∨ ∃ s code, f = .rst s code) := by
  induction l with
  | nil => intro acc; exact ⟨fun f hf => .inl hf, fun f hf => .inl hf⟩
  | cons x xs ih =>
    intro acc
    simp only [List.foldl_cons]
    obtain ⟨i1, i2⟩ := ih ((sendPending 100000 acc.1 x).1, acc.2 ++ (sendPending 100000 acc.1 x).2)
    obtain ⟨s1, s2⟩ := sendPending_out 100000 acc.1 x
    constructor
    · intro f hf
      rcases i1 f hf with h | h
      · rcases List.mem_append.mp h with h | h
        · exact .inl h
        · obtain ⟨k, b, e⟩ := s1 f h; exact .inr ⟨x, k, b, e⟩
      · exact .inr h
    · intro f hf
      rcases i2 f hf with h | h
      · exact s2 f h
      · exact .inr h

theorem flushPending_out (c : Conn) :
    (∀ f ∈ (flushPending c).2, ∃ s k b, f = .data s k b) ∧
    (∀ f ∈ (flushPending c).1.outQ, f ∈ c.outQ ∨ ∃ s code, f = .rst s code) := by
  rw [flushPending_eq]
  obtain ⟨i1, i2⟩ := flushFold_out
    ((if flushAmbiguous c then { c with ambiguous := true } else c).pending.map (·.1))
    (if flushAmbiguous c then { c with ambiguous := true } else c, [])
  constructor
  · intro f hf
    rcases i1 f hf with h | h
    · cases h
    · exact h
  · intro f hf
    rcases i2 f hf with h | h
    · left; revert h; split <;> exact id
    · exact .inr h

/-- what `drain` writes: what was queued, DATA, RST_STREAM -/
theorem drain_out (c : Conn) (hq : NoHdr c.outQ) : NoHdr (drain c).2 := by
  rw [drain_eq]
  split
  · obtain ⟨i1, i2⟩ := flushPending_out { c with outQ := [], winTok := false }
    refine (hq.append ?_).append ?_
    · intro f hf; obtain ⟨s, k, b, e⟩ := i1 f hf; rw [e]; rfl
    · intro f hf
      rcases i2 f hf with h | ⟨s, code, e⟩
      · cases h
      · rw [e]; rfl
  · simpa using hq

/-! ## control fields -/

/-- the fields the GOAWAY and SETTINGS handling owns are untouched, no HEADERS gets queued -/
structure Ctl (c c' : Conn) : Prop where
  goAway : c'.goAway = c.goAway
  stateClosed : c'.stateClosed = c.stateClosed
  closeRef : c'.closeRef = c.closeRef
  maxStreams : c'.maxStreams = c.maxStreams
  maxFrameSize : c'.maxFrameSize = c.maxFrameSize
  outQ : NoHdr c.outQ → NoHdr c'.outQ

theorem Ctl.refl (c : Conn) : Ctl c c := ⟨rfl, rfl, rfl, rfl, rfl, id⟩

theorem Ctl.trans {a b c : Conn} (h1 : Ctl a b) (h2 : Ctl b c) : Ctl a c :=
  ⟨h2.goAway.trans h1.goAway, h2.stateClosed.trans h1.stateClosed, h2.closeRef.trans h1.closeRef,
   h2.maxStreams.trans h1.maxStreams, h2.maxFrameSize.trans h1.maxFrameSize, fun h => h2.outQ (h1.outQ h)⟩

theorem ctl_sendPending (fuel : Nat) (c : Conn) (sid : Nat) : Ctl c (sendPending fuel c sid).1 := by
  obtain ⟨p, w, q, hs⟩ := sendPending_shape fuel c sid
  have ho := (sendPending_out fuel c sid).2
  refine ⟨by rw [hs], by rw [hs], by rw [hs], by rw [hs], by rw [hs], ?_⟩
  intro hq f hf
  rcases ho f hf with h | ⟨s, code, e⟩
  · exact hq f h
  · rw [e]; rfl

theorem ctl_drain (c : Conn) : Ctl c (drain c).1 := by
  obtain ⟨p, w, a, hs⟩ := drain_shape c
  rw [hs]; exact ⟨rfl, rfl, rfl, rfl, rfl, fun _ => noHdr_nil⟩

theorem ctl_dieWith (c : Conn) (e : Err) : Ctl c (dieWith c e) := by
  obtain ⟨l, hs⟩ := dieWith_shape c e
  rw [hs]; exact ⟨rfl, rfl, rfl, rfl, rfl, fun _ => noHdr_nil⟩

theorem ctl_afterWrites (c : Conn) (fs : List OutFrame) : Ctl c (afterWrites c fs).1 := by
  rcases afterWrites_cases c fs with ⟨e, s, b, hh⟩ | ⟨e, s, hh⟩
  · rw [hh]; exact ⟨rfl, rfl, rfl, rfl, rfl, id⟩
  · rw [hh]; exact (Ctl.mk (c := c) (c' := { c with enc := e, encTableSet := s }) rfl rfl rfl rfl rfl id).trans (ctl_dieWith _ _)

theorem ctl_takeReq (c : Conn) (sid : Nat) : Ctl c (takeReq c sid) := by
  obtain ⟨o, hs⟩ := takeReq_shape c sid
  rw [hs]; exact ⟨rfl, rfl, rfl, rfl, rfl, id⟩

theorem ctl_writeRequest (c : Conn) (r : ReqSpec) : Ctl c (writeRequest c r).1 := by
  rw [writeRequest_eq]
  have h1 : Ctl c (wrOpen c r) := ⟨rfl, rfl, rfl, rfl, rfl, id⟩
  split
  · exact ⟨rfl, rfl, rfl, rfl, rfl, id⟩
  · split
    · exact h1
    · show Ctl c (sendPending 100000 _ _).1
      exact (Ctl.mk (c := c) (c' := { wrOpen c r with pending := insertA c.pending c.nextID ‹Pending› })
        rfl rfl rfl rfl rfl id).trans (ctl_sendPending _ _ _)

/-! ## `nextID` -/

theorem sendPending_nextID' (fuel : Nat) (c : Conn) (sid : Nat) : (sendPending fuel c sid).1.nextID = c.nextID := by
  obtain ⟨p, w, q, hs⟩ := sendPending_shape fuel c sid; rw [hs]

theorem drain_nextID (c : Conn) : (drain c).1.nextID = c.nextID := by
  obtain ⟨p, w, a, hs⟩ := drain_shape c; rw [hs]

theorem dieWith_nextID (c : Conn) (e : Err) : (dieWith c e).nextID = c.nextID := by
  obtain ⟨l, hs⟩ := dieWith_shape c e; rw [hs]

theorem afterWrites_nextID (c : Conn) (fs : List OutFrame) : (afterWrites c fs).1.nextID = c.nextID := by
  rcases afterWrites_cases c fs with ⟨e, s, b, hh⟩ | ⟨e, s, hh⟩
  · rw [hh]
  · rw [hh, dieWith_nextID]

theorem takeReq_nextID (c : Conn) (sid : Nat) : (takeReq c sid).nextID = c.nextID := by
  obtain ⟨o, hs⟩ := takeReq_shape c sid; rw [hs]

/-- `writeRequest`: turned away (nothing written, `nextID` stays) or opened on stream `nextID` (HEADERS first, then DATA) -/
theorem writeRequest_spec (c : Conn) (r : ReqSpec) :
    (canOpenStream c = false ∧ (writeRequest c r).2 = [] ∧ (writeRequest c r).1.nextID = c.nextID) ∨
    (canOpenStream c = true ∧ (writeRequest c r).1.nextID = c.nextID + 2 ∧
      ∃ rest, (writeRequest c r).2 = wrHeaders c r :: rest ∧ ∀ f ∈ rest, ∃ k b, f = .data c.nextID k b) := by
  rw [writeRequest_eq]
  cases hc : canOpenStream c with
  | false => left; simp [resolve, updReq]
  | true =>
    right
    simp only [Bool.not_true, Bool.false_eq_true, if_false, true_and]
    split
    · exact ⟨rfl, [], rfl, fun f hf => nomem hf⟩
    · refine ⟨?_, _, rfl, (sendPending_out _ _ _).1⟩
      show (sendPending 100000 _ _).1.nextID = _
      rw [sendPending_nextID']; rfl

/-! ## one step -/

theorem afterWrites_frames (c : Conn) (fs fs' : List OutFrame) (h : (afterWrites c fs).2 = .frames fs') :
    fs' = wireFrames c fs := by
  rcases afterWrites_cases c fs with ⟨e, s, b, hh⟩ | ⟨e, s, hh⟩
  · rw [hh] at h; cases h; rfl
  · rw [hh] at h; cases h

theorem afterWrites_frames_noHdr (c : Conn) (fs fs' : List OutFrame) (h : (afterWrites c fs).2 = .frames fs')
    (hn : NoHdr fs) : fs' = fs := by
  rw [afterWrites_frames c fs fs' h, wireFrames_noHdr fs c hn]

/-- END_STREAM on a request's HEADERS: it has no body -/
def wrEndStream (r : ReqSpec) : Bool := !(match r.body with | .none => false | _ => true)

theorem wrHeaders_eq (c : Conn) (r : ReqSpec) : wrHeaders c r = .headers c.nextID (wrEndStream r) (requestFields r) := rfl

/-- GOAWAY is never taken back; `stateClosed` implies it; no HEADERS frame is ever queued for the write loop -/
theorem step_ctl (c : Conn) (h : Inv c) (ev : Event) :
    (NoHdr c.outQ → NoHdr (step c ev).1.outQ) ∧ (c.goAway = true → (step c ev).1.goAway = true) ∧
    ((c.stateClosed = true → c.goAway = true) → (step c ev).1.stateClosed = true → (step c ev).1.goAway = true) := by
  have ofCtl : ∀ c', Ctl c c' → (NoHdr c.outQ → NoHdr c'.outQ) ∧ (c.goAway = true → c'.goAway = true) ∧
      ((c.stateClosed = true → c.goAway = true) → c'.stateClosed = true → c'.goAway = true) := by
    intro c' k
    exact ⟨k.outQ, fun g => by rw [k.goAway]; exact g, fun i s => by rw [k.goAway]; rw [k.stateClosed] at s; exact i s⟩
  cases ev with
  | read tag =>
    rcases step_read_cases' c tag with hs | hs | ⟨e, q, hs⟩ <;> rw [hs] <;> exact ofCtl _ ⟨rfl, rfl, rfl, rfl, rfl, id⟩
  | req r =>
    rw [step_req]; split
    · exact ofCtl _ (Ctl.refl c)
    · unfold stepReq; split
      · exact ofCtl _ ⟨rfl, rfl, rfl, rfl, rfl, id⟩
      · exact ofCtl _ (((Ctl.mk (c := c) (c' := withReq c r.tag) rfl rfl rfl rfl rfl id).trans (ctl_writeRequest _ r)).trans
          ((ctl_drain _).trans (ctl_afterWrites _ _)))
  | bytes b =>
    rw [step_bytes]; split
    · exact ofCtl _ (Ctl.refl c)
    · unfold stepBytes
      have h0 : Inv { c with rdBuf := (bytesSplit c b).2 } := h.of_same rfl rfl rfl rfl rfl
      have rr : RdRel c (bytesRead c b).1 :=
        (RdRel.of_fields (c := c) (c' := { c with rdBuf := (bytesSplit c b).2 }) rfl rfl rfl rfl rfl id Or.inl
          (fun _ h => .inl h)).trans (rdRel_rdFrames _ _ h0.keys)
      have base : (NoHdr c.outQ → NoHdr (bytesRead c b).1.outQ) ∧ (c.goAway = true → (bytesRead c b).1.goAway = true) ∧
          ((c.stateClosed = true → c.goAway = true) → (bytesRead c b).1.stateClosed = true → (bytesRead c b).1.goAway = true) := by
        refine ⟨?_, rr.goAway, ?_⟩
        · intro hq f hf
          rcases rr.outQ f hf with x | x
          · exact hq f x
          · exact OutFrame.isCtl_notHeaders x
        · intro i s
          rcases rr.closed s with x | x
          · exact rr.goAway (i x)
          · exact x
      have then_ : ∀ c', Ctl (bytesRead c b).1 c' → (NoHdr c.outQ → NoHdr c'.outQ) ∧ (c.goAway = true → c'.goAway = true) ∧
          ((c.stateClosed = true → c.goAway = true) → c'.stateClosed = true → c'.goAway = true) := by
        intro c' k
        refine ⟨fun hq => k.outQ (base.1 hq), fun g => by rw [k.goAway]; exact base.2.1 g, ?_⟩
        intro i s
        rw [k.goAway]; rw [k.stateClosed] at s
        exact base.2.2 i s
      split
      · exact ofCtl _ (Ctl.refl c)
      · split
        · exact base
        · split
          · exact then_ _ ((ctl_dieWith _ .eof).trans ⟨rfl, rfl, rfl, rfl, rfl, id⟩)
          · split
            · exact then_ _ (ctl_dieWith _ .eof)
            · exact then_ _ ((ctl_drain _).trans (ctl_afterWrites _ _))
  | timeout tag =>
    rw [step_timeout]; split
    · exact ofCtl _ (Ctl.refl c)
    · unfold stepTimeout
      split
      · exact ofCtl _ (Ctl.refl c)
      · rename_i r _
        have k1 : Ctl c (takeReq (deletePending (resolve c tag .timeout) r.sid) r.sid) :=
          (Ctl.mk (c := c) (c' := deletePending (resolve c tag .timeout) r.sid) rfl rfl rfl rfl rfl id).trans (ctl_takeReq _ _)
        split
        · exact ofCtl _ ⟨rfl, rfl, rfl, rfl, rfl, id⟩
        · split
          · exact ofCtl _ k1
          · exact ofCtl _ (k1.trans (ctl_afterWrites _ _))
  | close => rw [step_close]; split; exact ofCtl _ (Ctl.refl c); exact ofCtl _ (ctl_dieWith _ _)
  | cut => rw [step_cut]; split; exact ofCtl _ (Ctl.refl c); exact ofCtl _ (ctl_dieWith _ _)
  | failwrite n => rw [step_failwrite]; split; exact ofCtl _ (Ctl.refl c); exact ofCtl _ ⟨rfl, rfl, rfl, rfl, rfl, id⟩

/-- **which steps write a header block**: either the step leaves `nextID` alone and writes no frame of a header block
(HEADERS, cut HEADERS, CONTINUATION), or its event is a request that `CanOpenStream` admits on a live connection: `nextID`
moves up by 2 and, if the step's writes reach the transport, they begin with the frames of that request's header block on
the old `nextID` (`headerFrames`: one HEADERS frame, or a HEADERS frame without END_HEADERS and its CONTINUATION frames, in
a row) and nothing else written belongs to a header block -/
theorem step_frames_spec (c : Conn) (h : Inv c) (hq : NoHdr c.outQ) (ev : Event) :
    ((step c ev).1.nextID = c.nextID ∧ ∀ fs, (step c ev).2 = .frames fs → NoHdr fs) ∨
    (∃ r, ev = .req r ∧ canOpenStream c = true ∧ c.dead = false ∧ (step c ev).1.nextID = c.nextID + 2 ∧
      ∀ fs, (step c ev).2 = .frames fs →
        ∃ blk rest, fs = blk ++ rest ∧ BlockOf c.nextID (wrEndStream r) (requestFields r) blk ∧ NoHdr rest) := by
  cases ev with
  | read tag =>
    left
    rcases step_read_cases' c tag with hs | hs | ⟨e, q, hs⟩ <;> rw [hs] <;> exact ⟨rfl, fun fs hf => by cases hf⟩
  | req r =>
    rw [step_req]; split
    · left; exact ⟨rfl, fun fs hf => by cases hf⟩
    · unfold stepReq; split
      · left; exact ⟨rfl, fun fs hf => by cases hf⟩
      · rename_i hd
        have hd' : c.dead = false := by simpa [withReq] using hd
        have hqw : NoHdr (drain (writeRequest (withReq c r.tag) r).1).2 :=
          drain_out _ ((ctl_writeRequest (withReq c r.tag) r).outQ hq)
        rcases writeRequest_spec (withReq c r.tag) r with ⟨hc, h2, hn⟩ | ⟨hc, hn, rest, h2, hr⟩
        · left
          refine ⟨by rw [afterWrites_nextID, drain_nextID, hn]; rfl, ?_⟩
          intro fs hf
          rw [afterWrites_frames_noHdr _ _ _ hf (by rw [h2]; exact hqw), h2]
          exact hqw
        · right
          refine ⟨r, rfl, hc, hd', by rw [afterWrites_nextID, drain_nextID, hn]; rfl, ?_⟩
          intro fs hf
          have hrest : NoHdr (rest ++ (drain (writeRequest (withReq c r.tag) r).1).2) := by
            refine NoHdr.append ?_ hqw
            intro f hf'; obtain ⟨k, b, e⟩ := hr f hf'; rw [e]; rfl
          rw [afterWrites_frames _ _ _ hf, h2, List.cons_append, wrHeaders_eq, wireFrames_headers _ _ _ _ _ hrest]
          obtain ⟨l, ls, e⟩ := blockLens_cons (frameStep (drain (writeRequest (withReq c r.tag) r).1).1)
            (encodeHeaders (drain (writeRequest (withReq c r.tag) r).1).1 (requestFields r)).2
          exact ⟨_, _, rfl, ⟨l, ls, by rw [e]; rfl⟩, hrest⟩
  | bytes b =>
    left
    rw [step_bytes]; split
    · exact ⟨rfl, fun fs hf => by cases hf⟩
    · unfold stepBytes
      have h0 : Inv { c with rdBuf := (bytesSplit c b).2 } := h.of_same rfl rfl rfl rfl rfl
      have rr : RdRel { c with rdBuf := (bytesSplit c b).2 } (bytesRead c b).1 := rdRel_rdFrames _ _ h0.keys
      have hn : (bytesRead c b).1.nextID = c.nextID := rr.nextID
      have hq1 : NoHdr (bytesRead c b).1.outQ := by
        intro f hf
        rcases rr.outQ f hf with x | x
        · exact hq f x
        · exact OutFrame.isCtl_notHeaders x
      split
      · exact ⟨rfl, fun fs hf => by cases hf⟩
      · split
        · exact ⟨hn, fun fs hf => by cases hf⟩
        · split
          · exact ⟨(dieWith_nextID _ _).trans hn, fun fs hf => by cases hf⟩
          · split
            · exact ⟨(dieWith_nextID _ _).trans hn, fun fs hf => by cases hf⟩
            · refine ⟨by rw [afterWrites_nextID, drain_nextID, hn], ?_⟩
              intro fs hf
              rw [afterWrites_frames_noHdr _ _ _ hf (drain_out _ hq1)]
              exact drain_out _ hq1
  | timeout tag =>
    left
    rw [step_timeout]; split
    · exact ⟨rfl, fun fs hf => by cases hf⟩
    · unfold stepTimeout
      split
      · exact ⟨rfl, fun fs hf => by cases hf; exact noHdr_nil⟩
      · rename_i r _
        split
        · refine ⟨rfl, fun fs hf => ?_⟩
          split at hf
          · cases hf
          · cases hf; exact noHdr_nil
        · split
          · exact ⟨takeReq_nextID _ _, fun fs hf => by cases hf⟩
          · refine ⟨by rw [afterWrites_nextID, takeReq_nextID]; rfl, ?_⟩
            intro fs hf
            have hn1 : NoHdr [OutFrame.rst r.sid Gen.c_StreamCanceled] := by
              intro f hf'
              simp only [List.mem_singleton] at hf'
              rw [hf']; rfl
            rw [afterWrites_frames_noHdr _ _ _ hf hn1]
            exact hn1
  | close => left; rw [step_close]; split; exact ⟨rfl, fun fs hf => by cases hf⟩; exact ⟨dieWith_nextID _ _, fun fs hf => by cases hf⟩
  | cut => left; rw [step_cut]; split; exact ⟨rfl, fun fs hf => by cases hf⟩; exact ⟨dieWith_nextID _ _, fun fs hf => by cases hf⟩
  | failwrite n =>
    left; rw [step_failwrite]; split
    · exact ⟨rfl, fun fs hf => by cases hf⟩
    · exact ⟨rfl, fun fs hf => by cases hf; exact noHdr_nil⟩

/-! ## CONTINUATION frames are contiguous -/

/-- every CONTINUATION frame of the list directly follows a HEADERS frame without END_HEADERS or a CONTINUATION frame of
the same stream (`prev`: the stream of the frame before, if that was one of these) -/
def contAfter : Option Nat → List OutFrame → Bool
  | _, [] => true
  | prev, .cont sid _ _ _ :: fs => prev == some sid && contAfter (some sid) fs
  | _, .hfrag sid _ _ :: fs => contAfter (some sid) fs
  | _, _ :: fs => contAfter none fs

theorem contAfter_noHdr (rest : List OutFrame) (h : NoHdr rest) : ∀ p, contAfter p rest = true := by
  induction rest with
  | nil => intro p; rfl
  | cons f fs ih =>
    intro p
    have hf := h f (List.mem_cons_self ..)
    have := ih (fun x hx => h x (List.mem_cons_of_mem _ hx)) none
    cases f <;> first | (cases hf; done) | simpa [contAfter] using this

theorem contAfter_conts (sid : Nat) (fl : List (Bytes × Bytes)) (rest : List OutFrame) (h : NoHdr rest) (ls : List Nat) :
    contAfter (some sid) (contFrames sid fl ls ++ rest) = true := by
  induction ls with
  | nil => exact contAfter_noHdr rest h _
  | cons l ls ih => simp only [contFrames, List.cons_append, contAfter, beq_self_eq_true, Bool.true_and]; exact ih

theorem contAfter_block {sid : Nat} {es : Bool} {fl : List (Bytes × Bytes)} {blk rest : List OutFrame}
    (hb : BlockOf sid es fl blk) (h : NoHdr rest) (p : Option Nat) : contAfter p (blk ++ rest) = true := by
  obtain ⟨l, ls, rfl⟩ := hb
  simp only [headerFrames]
  split
  · rename_i he
    have : ls = [] := by simpa using he
    subst this
    simp only [contFrames, List.cons_append, List.nil_append, contAfter]
    exact contAfter_noHdr rest h _
  · simp only [List.cons_append, contAfter]
    exact contAfter_conts sid fl rest h ls

/-- in the output of any step, CONTINUATION frames only continue the header block just begun -/
theorem step_contiguous (c : Conn) (h : Inv c) (hq : NoHdr c.outQ) (ev : Event) (fs : List OutFrame)
    (ho : (step c ev).2 = .frames fs) : contAfter none fs = true := by
  rcases step_frames_spec c h hq ev with ⟨_, hf⟩ | ⟨r, _, _, _, _, hf⟩
  · exact contAfter_noHdr fs (hf fs ho) _
  · obtain ⟨blk, rest, e, hb, hr⟩ := hf fs ho
    rw [e]; exact contAfter_block hb hr _

end H2.Client
