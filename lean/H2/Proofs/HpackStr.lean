import H2.Proofs.HpackInt
import H2.Props.C15
/-! String literals (RFC 7541 §5.2): `readString` inverts `writeString` (Huffman part: C15). Core only. -/
namespace H2.Hpack
open H2

theorem writeInt7_head (fl v : Nat) :
    ∃ tl, writeInt 7 fl v = (fl + (if v < 127 then v else 127)) :: tl := by
  unfold writeInt
  by_cases h : v < 2 ^ 7 - 1
  · have h' : v < 127 := h
    exact ⟨[], by simp [h, h']⟩
  · have h' : ¬ v < 127 := h
    exact ⟨contBytes (v - (2 ^ 7 - 1)), by simp [h, h']⟩

theorem writeString_eq_encStr (s : Bytes) (huff : Bool) : writeString s huff = Spec.encStr s huff := by
  unfold writeString Spec.encStr
  cases huff <;> simp [writeInt_eq_encInt]

/-- round trip of a string literal, raw or Huffman coded -/
theorem readString_writeString (s rest : Bytes) (huff : Bool) (hs : WF s) (hl : Spec.strLen s huff < 2 ^ 64) :
    readString (writeString s huff ++ rest) = .ok s rest := by
  unfold writeString
  cases huff
  · simp only [Bool.false_eq_true, if_false, Spec.strLen] at hl ⊢
    obtain ⟨tl, htl⟩ := writeInt7_head 0 s.length
    have hr := readInt_writeInt 7 0 s.length (s ++ rest) (by decide) (by decide) hl
    rw [htl] at hr ⊢
    simp only [List.append_assoc, List.cons_append] at hr ⊢
    unfold readString
    simp only [hr]
    have : ¬ (s ++ rest).length < s.length := by simp
    have hb : ¬ (0 + if s.length < 127 then s.length else 127) ≥ 128 := by split <;> omega
    rw [if_neg this, if_neg hb]
    simp
  · simp only [if_true, Spec.strLen] at hl ⊢
    obtain ⟨tl, htl⟩ := writeInt7_head 128 (Huffman.encode s).length
    have hr := readInt_writeInt 7 128 (Huffman.encode s).length (Huffman.encode s ++ rest) (by decide) (by decide) hl
    rw [htl] at hr ⊢
    simp only [List.append_assoc, List.cons_append] at hr ⊢
    unfold readString
    simp only [hr]
    have : ¬ (Huffman.encode s ++ rest).length < (Huffman.encode s).length := by simp
    have hb : (128 + if (Huffman.encode s).length < 127 then (Huffman.encode s).length else 127) ≥ 128 := by omega
    rw [if_neg this, if_pos hb]
    simp [H2.Props.C15.decode_encode s hs]

/-- `readString` consumes at least one octet and leaves a suffix of its input -/
theorem readString_suffix (b s r : Bytes) (h : readString b = .ok s r) : ∃ w, w ≠ [] ∧ b = w ++ r := by
  cases b with
  | nil => simp [readString] at h
  | cons b0 rest =>
    unfold readString at h
    cases hi : readInt 7 (b0 :: rest) with
    | needMore => simp [hi] at h
    | overflow => simp [hi] at h
    | ok n r' =>
      simp only [hi] at h
      obtain ⟨w, hw, hb, _⟩ := readInt_suffix 7 _ _ _ hi
      by_cases h1 : r'.length < n
      · simp [h1] at h
      · simp only [h1, if_false] at h
        have hdrop : r' = r'.take n ++ r'.drop n := (List.take_append_drop n r').symm
        by_cases h2 : b0 ≥ 128
        · simp only [h2, if_true] at h
          split at h
          · injection h with _ h4
            exact ⟨w ++ r'.take n, by simp [hw], by rw [hb, ← h4, List.append_assoc, ← hdrop]⟩
          · cases h
        · simp only [h2, if_false] at h
          injection h with _ h4
          exact ⟨w ++ r'.take n, by simp [hw], by rw [hb, ← h4, List.append_assoc, ← hdrop]⟩

theorem readString_progress (b s r : Bytes) (h : readString b = .ok s r) : r.length < b.length := by
  obtain ⟨w, hw, rfl⟩ := readString_suffix b s r h
  have : 0 < w.length := List.length_pos_iff.mpr hw
  simp; omega

end H2.Hpack
