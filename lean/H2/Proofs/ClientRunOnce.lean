import H2.Proofs.ClientRunStep
/-!
# C12 on the full serial client model: every request resolves exactly once, in every run

* `deliveries_le_one`, `no_more_deliveries`, `read_again_after_delivery`: a request's result is handed to its caller at most
  once (after it `read` answers `readAgain`).
* `Req.resolve_spec` (in `ClientRun.lean`), `result_kept`, `first_result_is_delivered`: a result that waits is never
  replaced; what the caller gets is the first result the request was given.
* `dead_all_settled`, `dead_all_settled_mem`, `req_on_dead_settled`: nothing is left stranded.
* `run_tags`, `run_tags_nodup`: the requests are the `req` events, in order; distinct tags stay distinct.
-/
namespace H2.Client

/-! ## requests evolve (weak form, also across `writeRequest`) -/

structure Req.Le0 (r r' : Req) : Prop where
  tag : r'.tag = r.tag
  read : r'.read = r.read
  done : r'.done = r.done
  keep : (r.done = true ∨ r.errBuf.isSome = true) → r'.errBuf = r.errBuf

theorem Req.Le.le0 {r r' : Req} (h : Req.Le r r') : Req.Le0 r r' := ⟨h.tag, h.read, h.done, h.keep⟩

theorem Req.Le0.refl (r : Req) : Req.Le0 r r := ⟨rfl, rfl, rfl, fun _ => rfl⟩

theorem Req.Le0.trans {a b c : Req} (h1 : Req.Le0 a b) (h2 : Req.Le0 b c) : Req.Le0 a c := by
  refine ⟨h2.tag.trans h1.tag, h2.read.trans h1.read, h2.done.trans h1.done, ?_⟩
  intro h
  have e1 := h1.keep h
  have : b.done = true ∨ b.errBuf.isSome = true := by
    rcases h with h | h
    · left; rw [h1.done]; exact h
    · right; rw [e1]; exact h
  exact (h2.keep this).trans e1

/-- the requests of `c'` are those of `c` in the same order, evolved -/
def MapLe0 (c c' : Conn) : Prop :=
  ∃ g : Req → Req, (∀ r, (g r).tag = r.tag) ∧ (∀ r, First c r → Req.Le0 r (g r)) ∧ c'.reqs = c.reqs.map g

theorem MapLe.le0 {c c' : Conn} (h : MapLe c c') : MapLe0 c c' := by
  obtain ⟨g, t, l, e⟩ := h
  exact ⟨g, t, fun r hr => (l r hr).le0, e⟩

theorem MapLe0.of_reqs {c c' : Conn} (h : c'.reqs = c.reqs) : MapLe0 c c' := (MapLe.of_reqs h).le0

theorem MapLe0.trans {a b c : Conn} (h1 : MapLe0 a b) (h2 : MapLe0 b c) : MapLe0 a c := by
  obtain ⟨g1, t1, l1, e1⟩ := h1
  obtain ⟨g2, t2, l2, e2⟩ := h2
  refine ⟨g2 ∘ g1, fun r => (t2 _).trans (t1 r), ?_, by rw [e2, e1, List.map_map]⟩
  intro r hr
  have hb : First b (g1 r) := by
    unfold First
    rw [MapLe.getReq_map t1 e1, t1 r]
    unfold First at hr
    rw [hr]; rfl
  exact (l1 r hr).trans (l2 _ hb)

theorem MapLe0.tags {c c' : Conn} (h : MapLe0 c c') : c'.reqs.map (·.tag) = c.reqs.map (·.tag) := by
  obtain ⟨g, t, _, e⟩ := h
  rw [e, List.map_map]
  apply List.map_congr_left
  intro r _; exact t r

/-- the request found under a tag is still found, evolved -/
def Grows (c c' : Conn) : Prop := ∀ t r, getReq c t = some r → ∃ r', getReq c' t = some r' ∧ Req.Le0 r r'

theorem MapLe0.grows {c c' : Conn} (h : MapLe0 c c') : Grows c c' := by
  obtain ⟨g, tg, l, e⟩ := h
  intro t r hr
  rw [MapLe.getReq_map tg e, hr]
  exact ⟨g r, rfl, l r (first_of_getReq hr)⟩

theorem Grows.trans {a b c : Conn} (h1 : Grows a b) (h2 : Grows b c) : Grows a c := by
  intro t r hr
  obtain ⟨r1, e1, l1⟩ := h1 t r hr
  obtain ⟨r2, e2, l2⟩ := h2 t r1 e1
  exact ⟨r2, e2, l1.trans l2⟩

theorem grows_withReq (c : Conn) (tag : String) : Grows c (withReq c tag) := by
  intro t r hr
  refine ⟨r, ?_, Req.Le0.refl r⟩
  simp only [getReq, withReq, List.find?_append]
  simp only [getReq] at hr
  rw [hr]; rfl

theorem mapLe0_updReq (c : Conn) (tag : String) (f : Req → Req) (hf : ∀ r, Req.Le0 r (f r)) : MapLe0 c (updReq c tag f) := by
  refine ⟨fun r => if r.tag == tag then f r else r, ?_, ?_, rfl⟩
  · intro r; dsimp only; split
    · exact (hf r).tag
    · rfl
  · intro r _; dsimp only; split
    · exact hf r
    · exact Req.Le0.refl r

theorem mapLe0_writeRequest (c : Conn) (r : ReqSpec) : MapLe0 c (writeRequest c r).1 := by
  rw [writeRequest_eq]
  have h1 : MapLe0 c (wrOpen c r) := by
    unfold wrOpen
    exact (MapLe0.of_reqs (c := c) (c' := { c with nextID := c.nextID + 2, reqQueued := _, openStreams := _ }) rfl).trans
      (mapLe0_updReq _ _ _ (fun _ => ⟨rfl, rfl, rfl, fun _ => rfl⟩))
  split
  · exact (mapLe_resolve c r.tag _).le0
  · split
    · exact h1
    · show MapLe0 c (sendPending 100000 _ _).1
      obtain ⟨p, w, q, hs⟩ := sendPending_shape 100000 { wrOpen c r with pending := insertA c.pending c.nextID ‹Pending› } c.nextID
      rw [hs]
      exact h1.trans (MapLe0.of_reqs rfl)

theorem mapLe0_drain (c : Conn) : MapLe0 c (drain c).1 := by
  obtain ⟨p, w, a, hs⟩ := drain_shape c
  rw [hs]; exact MapLe0.of_reqs rfl

/-- the connection with the request of a `req` event registered; the connection itself for every other event -/
def pre (c : Conn) : Event → Conn
  | .req r => withReq c r.tag
  | _ => c

/-- every event but the caller's `read`: the requests evolve, none is lost, no result is replaced -/
theorem step_mapLe0 (c : Conn) (h : Inv c) (ev : Event) (hne : ∀ tag, ev ≠ .read tag) : MapLe0 (pre c ev) (step c ev).1 := by
  cases ev with
  | read tag => exact absurd rfl (hne tag)
  | req r =>
    rw [step_req]
    have hs := h.stuck
    simp only [hs, Bool.false_eq_true, if_false, pre]
    unfold stepReq
    split
    · exact (mapLe_resolve _ _ _).le0
    · exact ((mapLe0_writeRequest _ r).trans (mapLe0_drain _)).trans (mapLe_afterWrites _ _).1.le0
  | bytes b =>
    rw [step_bytes]
    simp only [h.stuck, Bool.false_eq_true, if_false, pre]
    unfold stepBytes
    have h0 : Inv { c with rdBuf := (bytesSplit c b).2 } := h.of_same rfl rfl rfl rfl rfl
    have h1 : MapLe0 c (bytesRead c b).1 :=
      (MapLe0.of_reqs (c := c) (c' := { c with rdBuf := (bytesSplit c b).2 }) rfl).trans (rdRel_rdFrames _ _ h0.keys).le.le0
    have hdie : MapLe0 c (die (bytesRead c b).1) := h1.trans (mapLe_dieWith _ _).le0
    split
    · exact MapLe0.of_reqs rfl
    · split
      · exact h1
      · split
        · exact hdie.trans (MapLe0.of_reqs rfl)
        · split
          · exact hdie
          · exact (h1.trans (mapLe0_drain _)).trans (mapLe_afterWrites _ _).1.le0
  | timeout tag =>
    rw [step_timeout]
    simp only [h.stuck, Bool.false_eq_true, if_false, pre]
    unfold stepTimeout
    split
    · exact MapLe0.of_reqs rfl
    · rename_i r hr
      have h1 : MapLe0 c (resolve c tag .timeout) := (mapLe_resolve c tag _).le0
      have h2 : MapLe0 c (takeReq (deletePending (resolve c tag .timeout) r.sid) r.sid) :=
        h1.trans (MapLe0.of_reqs (by rw [takeReq_reqs]; rfl))
      split
      · exact h1
      · split
        · exact h2
        · exact h2.trans (mapLe_afterWrites _ _).1.le0
  | close => rw [step_close]; simp only [h.stuck, Bool.false_eq_true, if_false, pre]; exact (mapLe_dieWith _ _).le0
  | cut => rw [step_cut]; simp only [h.stuck, Bool.false_eq_true, if_false, pre]; exact (mapLe_dieWith _ _).le0
  | failwrite n =>
    rw [step_failwrite]; simp only [h.stuck, Bool.false_eq_true, if_false, pre]; exact MapLe0.of_reqs rfl

theorem grows_pre (c : Conn) (ev : Event) : Grows c (pre c ev) := by
  cases ev with
  | req r => exact grows_withReq c r.tag
  | _ => exact fun t r hr => ⟨r, hr, Req.Le0.refl r⟩

theorem step_grows (c : Conn) (h : Inv c) (ev : Event) (hne : ∀ tag, ev ≠ .read tag) : Grows c (step c ev).1 :=
  (grows_pre c ev).trans (step_mapLe0 c h ev hne).grows

/-! ## (a) at most one delivery -/

/-- the output hands the result of the request `tag` to its caller -/
def deliveredTo (tag : String) : StepOut → Bool
  | .readRes (some (_, r)) => r.tag == tag
  | _ => false

/-- the caller of `tag` has had its result -/
def ReadDone (c : Conn) (tag : String) : Prop := ∃ r, getReq c tag = some r ∧ r.read = true

theorem afterWrites_out (c : Conn) (fs : List OutFrame) :
    (afterWrites c fs).2 = .frames (wireFrames c fs) ∨ (afterWrites c fs).2 = .dead := by
  rcases afterWrites_cases c fs with ⟨e, s, b, hh⟩ | ⟨e, s, hh⟩
  · rw [hh]; exact .inl rfl
  · rw [hh]; exact .inr rfl

theorem afterWrites_out_ne (c : Conn) (fs : List OutFrame) (x : Option (Err × Req)) : (afterWrites c fs).2 ≠ .readRes x := by
  rcases afterWrites_out c fs with h | h <;> rw [h] <;> simp

theorem event_read_or (ev : Event) : (∃ t, ev = .read t) ∨ ∀ t, ev ≠ .read t := by
  cases ev <;> first | (left; exact ⟨_, rfl⟩) | (right; intro t h; cases h)

/-- only a `read` event produces a `readRes` -/
theorem step_out_not_readRes (c : Conn) (ev : Event) (hne : ∀ tag, ev ≠ .read tag) : ∀ x, (step c ev).2 ≠ .readRes x := by
  intro x
  cases ev with
  | read tag => exact absurd rfl (hne tag)
  | req r =>
    rw [step_req]; split
    · simp
    · unfold stepReq; split
      · simp
      · exact afterWrites_out_ne _ _ _
  | bytes b =>
    rw [step_bytes]; split
    · simp
    · unfold stepBytes
      repeat' split
      all_goals first
        | exact afterWrites_out_ne _ _ _
        | simp
  | timeout tag =>
    rw [step_timeout]; split
    · simp
    · unfold stepTimeout
      split
      · simp
      · rename_i r _
        split
        · simp only; split <;> simp
        · split
          · simp
          · exact afterWrites_out_ne _ _ _
  | close => rw [step_close]; split <;> simp
  | cut => rw [step_cut]; split <;> simp
  | failwrite n => rw [step_failwrite]; split <;> simp

theorem getReq_updReq_ne (c : Conn) (t tag : String) (f : Req → Req) (hf : ∀ r, (f r).tag = r.tag) (hne : tag ≠ t) :
    getReq (updReq c t f) tag = getReq c tag := by
  have hg : ∀ r : Req, ((fun r : Req => if r.tag == t then f r else r) r).tag = r.tag := by
    intro r; dsimp only; split
    · exact hf r
    · rfl
  rw [MapLe.getReq_map (c := c) (c' := updReq c t f) hg rfl]
  cases hq : getReq c tag with
  | none => rfl
  | some r =>
    have hrt : r.tag ≠ t := by rw [getReq_tag' hq]; exact hne
    simp [hrt]

theorem getReq_updReq_self (c : Conn) (tag : String) (f : Req → Req) (hf : ∀ r, (f r).tag = r.tag) :
    getReq (updReq c tag f) tag = (getReq c tag).map f := by
  have hg : ∀ r : Req, ((fun r : Req => if r.tag == tag then f r else r) r).tag = r.tag := by
    intro r; dsimp only; split
    · exact hf r
    · rfl
  rw [MapLe.getReq_map (c := c) (c' := updReq c tag f) hg rfl]
  cases hq : getReq c tag with
  | none => rfl
  | some r => simp [getReq_tag' hq]

/-- what `read` does, case by case -/
theorem step_read_cases (c : Conn) (t : String) :
    (step c (.read t) = (c, .readRes none)) ∨ (step c (.read t) = (c, .readAgain) ∧ ReadDone c t) ∨
    (∃ q e, getReq c t = some q ∧ q.read = false ∧ q.errBuf = some e ∧
      step c (.read t) = (updReq c t markRead, .readRes (some (e, q)))) := by
  rw [step_read]
  cases hq : getReq c t with
  | none => left; rfl
  | some q =>
    cases hrd : q.read with
    | true => right; left; exact ⟨by simp [hrd], q, hq, hrd⟩
    | false =>
      cases he : q.errBuf with
      | none => left; simp [hrd, he]
      | some e => right; right; exact ⟨q, e, rfl, hrd, he, by simp [hrd, he]⟩

/-- once the caller has read, it stays read; nothing more is delivered for the tag; its `read` answers `readAgain` -/
theorem readDone_step (c : Conn) (h : Inv c) (tag : String) (hr : ReadDone c tag) (ev : Event) :
    ReadDone (step c ev).1 tag ∧ deliveredTo tag (step c ev).2 = false ∧ (ev = .read tag → (step c ev).2 = .readAgain) := by
  obtain ⟨r, hq, hrd⟩ := hr
  rcases event_read_or ev with ⟨t, rfl⟩ | hne
  rotate_left
  · obtain ⟨r', h1, le⟩ := step_grows c h ev hne tag r hq
    refine ⟨⟨r', h1, by rw [le.read]; exact hrd⟩, ?_, fun he => absurd he (hne tag)⟩
    have := step_out_not_readRes c ev hne
    cases ho : (step c ev).2 with
    | readRes x => exact absurd ho (this x)
    | _ => rfl
  · by_cases ht : t = tag
    · subst ht
      have hs : step c (.read t) = (c, .readAgain) := by
        rw [step_read, hq]; simp [hrd]
      rw [hs]
      exact ⟨⟨r, hq, hrd⟩, rfl, fun _ => rfl⟩
    · have hne' : tag ≠ t := fun e => ht e.symm
      have hx : Event.read t = Event.read tag → False := by intro e; cases e; exact ht rfl
      rcases step_read_cases c t with hs | ⟨hs, _⟩ | ⟨q, e, hq2, _, _, hs⟩
      · rw [hs]; exact ⟨⟨r, hq, hrd⟩, rfl, fun e => absurd e hx⟩
      · rw [hs]; exact ⟨⟨r, hq, hrd⟩, rfl, fun e => absurd e hx⟩
      · rw [hs]
        refine ⟨⟨r, ?_, hrd⟩, ?_, fun e => absurd e hx⟩
        · exact (getReq_updReq_ne c t tag markRead (fun _ => rfl) hne').trans hq
        · simp only [deliveredTo, getReq_tag' hq2]
          simpa using ht

/-- a delivery for `tag` is the answer to a `read tag`, and marks the request as read -/
theorem deliveredTo_marks (c : Conn) (ev : Event) (tag : String) (hd : deliveredTo tag (step c ev).2 = true) :
    ev = .read tag ∧ ReadDone (step c ev).1 tag := by
  rcases event_read_or ev with ⟨t, rfl⟩ | hne
  rotate_left
  · have := step_out_not_readRes c ev hne
    cases ho : (step c ev).2 with
    | readRes x => exact absurd ho (this x)
    | _ => rw [ho] at hd; cases hd
  · rcases step_read_cases c t with hs | ⟨hs, _⟩ | ⟨q, e, hq, _, _, hs⟩
    · rw [hs] at hd; cases hd
    · rw [hs] at hd; cases hd
    · rw [hs] at hd ⊢
      simp only [deliveredTo, beq_iff_eq] at hd
      have ht : t = tag := (getReq_tag' hq).symm.trans hd
      subst ht
      refine ⟨rfl, markRead q, ?_, rfl⟩
      rw [getReq_updReq_self c t markRead (fun _ => rfl), hq]; rfl

theorem no_more_deliveries (tag : String) : ∀ (evs : List Event) (c : Conn), Inv c → ReadDone c tag →
    (run c evs).2.filter (deliveredTo tag) = [] := by
  intro evs
  induction evs with
  | nil => intros; rfl
  | cons e es ih =>
    intro c h hr
    obtain ⟨h1, h2, _⟩ := readDone_step c h tag hr e
    simp only [run_cons, List.filter_cons, h2, Bool.false_eq_true, if_false]
    exact ih _ (step_inv c e h) h1

/-- **at most one delivery**: in any run, at most one output hands the result of request `tag` to its caller -/
theorem deliveries_le_one (tag : String) : ∀ (evs : List Event) (c : Conn), Inv c →
    ((run c evs).2.filter (deliveredTo tag)).length ≤ 1 := by
  intro evs
  induction evs with
  | nil => intros; simp
  | cons e es ih =>
    intro c h
    simp only [run_cons, List.filter_cons]
    split
    · rename_i hd
      obtain ⟨_, hr⟩ := deliveredTo_marks c e tag hd
      rw [List.length_cons, no_more_deliveries tag es _ (step_inv c e h) hr]
      simp
    · exact ih _ (step_inv c e h)

/-- after the delivery every `read` of the tag answers `readAgain` -/
theorem read_again_after_delivery (tag : String) (c : Conn) (h : Inv c) (hr : ReadDone c tag) (evs : List Event) :
    AllSteps (fun _ e _ o => deliveredTo tag o = false ∧ (e = .read tag → o = .readAgain)) c evs := by
  refine allSteps_of_inv (I := fun c => Inv c ∧ ReadDone c tag) ?_ ?_ evs c ⟨h, hr⟩
  · intro c e ⟨h, hr⟩; exact ⟨step_inv c e h, (readDone_step c h tag hr e).1⟩
  · intro c e ⟨h, hr⟩; exact (readDone_step c h tag hr e).2

/-! ## (b) a waiting result is never replaced -/

def isReadOf (tag : String) : Event → Bool
  | .read t => t == tag
  | _ => false

/-- a result that waits for its caller stays exactly as it is, whatever happens, until the caller reads it -/
theorem result_kept (tag : String) (e : Err) : ∀ (evs : List Event) (c : Conn), Inv c →
    (∃ r, getReq c tag = some r ∧ r.errBuf = some e) → (∀ ev ∈ evs, isReadOf tag ev = false) →
    ∃ r', getReq (run c evs).1 tag = some r' ∧ r'.errBuf = some e := by
  intro evs
  induction evs with
  | nil => intro c _ h _; exact h
  | cons ev es ih =>
    intro c h ⟨r, hq, he⟩ hno
    have hev := hno ev (List.mem_cons_self ..)
    refine ih _ (step_inv c ev h) ?_ (fun x hx => hno x (List.mem_cons_of_mem _ hx))
    rcases event_read_or ev with ⟨t, rfl⟩ | hne
    rotate_left
    · obtain ⟨r', h1, le⟩ := step_grows c h ev hne tag r hq
      exact ⟨r', h1, by rw [le.keep (.inr (by rw [he]; rfl))]; exact he⟩
    · have ht : tag ≠ t := by
        intro e; subst e; simp [isReadOf] at hev
      refine ⟨r, ?_, he⟩
      rcases step_read_cases c t with hs | ⟨hs, _⟩ | ⟨q, e, _, _, _, hs⟩
      · rw [hs]; exact hq
      · rw [hs]; exact hq
      · rw [hs]; exact (getReq_updReq_ne c t tag markRead (fun _ => rfl) ht).trans hq

/-- what the caller is handed is the result that was stored first -/
theorem first_result_is_delivered (tag : String) (e : Err) (evs : List Event) (c : Conn) (h : Inv c)
    (hr : ∃ r, getReq c tag = some r ∧ r.errBuf = some e) (hno : ∀ ev ∈ evs, isReadOf tag ev = false) :
    ∃ r', (step (run c evs).1 (.read tag)).2 = .readRes (some (e, r')) := by
  obtain ⟨r', hq, he⟩ := result_kept tag e evs c h hr hno
  have hw := (run_invariant h evs).wf tag r' hq
  have hrd : r'.read = false := by
    cases hd : r'.read with
    | false => rfl
    | true =>
      have : r'.done = true := by rw [← hw.1]; exact hd
      have := hw.2 this
      rw [this] at he; cases he
  refine ⟨r', ?_⟩
  rw [step_read, hq]
  simp only [hrd, Bool.false_eq_true, if_false, he]

/-! ## (c) nothing is left stranded -/

/-- on a connection that has ended every request (found under its tag) has a result or was taken back -/
theorem dead_all_settled (c : Conn) (h : Inv c) (hd : c.dead = true) :
    ∀ t r, getReq c t = some r → r.done = true ∨ r.errBuf.isSome = true := by
  intro t r hq
  rcases h.covered t r hq with x | x | ⟨sid, hm⟩
  · exact .inl x
  · exact .inr x
  · rw [h.deadTable hd] at hm; cases hm

theorem find_of_mem_nodup (l : List Req) (hn : (l.map (·.tag)).Nodup) (r : Req) (hr : r ∈ l) :
    l.find? (fun q => q.tag == r.tag) = some r := by
  induction l with
  | nil => cases hr
  | cons x xs ih =>
    simp only [List.map_cons, List.nodup_cons, List.mem_map, not_exists, not_and] at hn
    simp only [List.mem_cons] at hr
    rw [List.find?_cons]
    rcases hr with rfl | hr
    · simp
    · have : (x.tag == r.tag) = false := by
        have := hn.1 r hr
        simpa using fun e => this e.symm
      rw [this]
      exact ih hn.2 hr

theorem getReq_of_mem_nodup (c : Conn) (hn : (c.reqs.map (·.tag)).Nodup) (r : Req) (hr : r ∈ c.reqs) :
    getReq c r.tag = some r := find_of_mem_nodup c.reqs hn r hr

/-- with distinct tags: every request of a dead connection is resolved -/
theorem dead_all_settled_mem (c : Conn) (h : Inv c) (hd : c.dead = true) (hn : (c.reqs.map (·.tag)).Nodup) :
    ∀ r ∈ c.reqs, r.done = true ∨ r.errBuf.isSome = true :=
  fun r hr => dead_all_settled c h hd r.tag r (getReq_of_mem_nodup c hn r hr)

/-- a request handed to a connection that has ended is resolved at once -/
theorem req_on_dead_settled (c : Conn) (r : ReqSpec) (hs : c.stuck = false) (hd : c.dead = true) :
    (step c (.req r)).2 = .dead ∧
    ∀ q ∈ (step c (.req r)).1.reqs, q.tag = r.tag → q.done = true ∨ q.errBuf.isSome = true := by
  rw [step_req]
  simp only [hs, Bool.false_eq_true, if_false, stepReq, hd, if_true, true_and]
  intro q hq ht
  simp only [resolve, updReq, List.mem_map] at hq
  obtain ⟨q0, _, rfl⟩ := hq
  split at ht
  · split
    · exact Req.resolve_settled' q0 _
    · rename_i h1 h2; exact absurd h1 h2
  · rename_i h1
    exact absurd (by simpa using ht) h1

/-! ## (d) the requests are the `req` events -/

def reqTag : Event → Option String
  | .req r => some r.tag
  | _ => none

theorem step_tags (c : Conn) (h : Inv c) (ev : Event) :
    (step c ev).1.reqs.map (·.tag) = c.reqs.map (·.tag) ++ (reqTag ev).toList := by
  rcases event_read_or ev with ⟨t, rfl⟩ | hne
  rotate_left
  · rw [(step_mapLe0 c h ev hne).tags]
    cases ev <;> simp [pre, reqTag, withReq]
  · rw [step_read]
    simp only [reqTag, Option.toList_none, List.append_nil]
    have hu : (updReq c t markRead).reqs.map (·.tag) = c.reqs.map (·.tag) := by
      simp only [updReq, List.map_map]
      apply List.map_congr_left
      intro r _
      simp only [Function.comp]
      split <;> rfl
    repeat' split
    all_goals first | rfl | exact hu

/-- the requests of the connection are the `req` events of the run, in order -/
theorem run_tags : ∀ (evs : List Event) (c : Conn), Inv c →
    (run c evs).1.reqs.map (·.tag) = c.reqs.map (·.tag) ++ evs.filterMap reqTag := by
  intro evs
  induction evs with
  | nil => intro c _; simp
  | cons e es ih =>
    intro c h
    rw [run_cons]
    simp only
    rw [ih _ (step_inv c e h), step_tags c h e, List.append_assoc]
    congr 1
    cases hr : reqTag e <;> simp [List.filterMap_cons, hr]

/-- distinct tags stay distinct -/
theorem run_tags_nodup (evs : List Event) (c : Conn) (h : Inv c)
    (hn : (c.reqs.map (·.tag) ++ evs.filterMap reqTag).Nodup) : ((run c evs).1.reqs.map (·.tag)).Nodup := by
  rw [run_tags evs c h]; exact hn

end H2.Client
