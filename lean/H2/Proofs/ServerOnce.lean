import H2.Proofs.ServerDispatch
/-!
# Whole-history theorems about the full server model (property C01)

Everything here is about `H2.Server.step` (`H2/Server/Model.lean`), for EVERY event list and every
configuration: `runOuts cfg evs` is the concatenation of the outputs of folding `step` over `evs` from the
initial state `{ cfg := cfg }` (what `Server/Drv.lean` creates for `new`).

* Part 1: `fm p l` (= `filterMap`) projections of the output list; for every function of the model and every
  projection `p` that is `none` on the kinds the function emits, the projection is unchanged (the
  `filterMap` analogue of the `cnt` lemmas of `ServerExt.lean`).
* Part 2: the invariant `Inv D H E r` and its preservation by every function of the model.
* Part 3: runs; `at_most_once`, `response_starts_once`, `headers_after_dispatch`, `headers_le_done`,
  `only_complete_requests_dispatched`.
* Part 4: the request view is a function of the decoded field list and of the concatenated DATA payloads.
* Part 5: non-vacuity (a concrete run with two interleaved streams and two dispatches).
-/
namespace H2.Server

/-! ## Part 1 — projections of the output list -/

def fm {α : Type} (p : Out → Option α) (l : List Out) : List α := l.filterMap p

@[simp] theorem fm_nil {α : Type} (p : Out → Option α) : fm p [] = [] := rfl
@[simp] theorem fm_append {α : Type} (p : Out → Option α) (a b : List Out) : fm p (a ++ b) = fm p a ++ fm p b := by
  simp [fm, List.filterMap_append]
theorem fm_cons' {α : Type} (p : Out → Option α) (o : Out) (l : List Out) : fm p (o :: l) = (p o).toList ++ fm p l := by
  simp only [fm, List.filterMap_cons]
  cases p o <;> rfl
@[simp] theorem fm_single {α : Type} (p : Out → Option α) (o : Out) : fm p [o] = (p o).toList := by
  simp only [fm, List.filterMap_cons, List.filterMap_nil]
  cases p o <;> rfl

/-- `p` is `none` on every output whose kind is not in `ks` -/
def Only {α : Type} (p : Out → Option α) (ks : List Kind) : Prop := ∀ o, o.kind ∉ ks → p o = none

section
variable {α : Type} {p : Out → Option α} {ks : List Kind}
theorem Only.ack (h : Only p ks) (hk : Kind.ack ∉ ks) : p .settingsAck = none := h _ hk
theorem Only.settings (h : Only p ks) (hk : Kind.settings ∉ ks) (a) : p (.settings a) = none := h _ hk
theorem Only.wu (h : Only p ks) (hk : Kind.wu ∉ ks) (a b) : p (.wu a b) = none := h _ hk
theorem Only.ping (h : Only p ks) (hk : Kind.ping ∉ ks) (a b) : p (.ping a b) = none := h _ hk
theorem Only.headers (h : Only p ks) (hk : Kind.headers ∉ ks) (a b c d e f) : p (.headers a b c d e f) = none := h _ hk
theorem Only.cont (h : Only p ks) (hk : Kind.cont ∉ ks) (a b c d e) : p (.cont a b c d e) = none := h _ hk
theorem Only.data (h : Only p ks) (hk : Kind.data ∉ ks) (a b c d) : p (.data a b c d) = none := h _ hk
theorem Only.rst (h : Only p ks) (hk : Kind.rst ∉ ks) (a b) : p (.rst a b) = none := h _ hk
theorem Only.goAway (h : Only p ks) (hk : Kind.goAway ∉ ks) (a b c) : p (.goAway a b c) = none := h _ hk
theorem Only.dispatch (h : Only p ks) (hk : Kind.dispatch ∉ ks) (a b c d e f) : p (.dispatch a b c d e f) = none := h _ hk
theorem Only.panicLogged (h : Only p ks) (hk : Kind.panicLogged ∉ ks) : p .handlerPanicLogged = none := h _ hk
theorem Only.returned (h : Only p ks) (hk : Kind.returned ∉ ks) : p .returned = none := h _ hk
end

section
variable {α : Type} (p : Out → Option α) (ks : List Kind) (ho : Only p ks)
include ho

theorem writeError_fm (hk : Kind.rst ∉ ks ∧ Kind.goAway ∉ ks) (r : R) (uid : Nat) (e : SErr) :
    fm p (writeError r uid e).out = fm p r.out := by
  unfold writeError
  split
  · rfl
  · cases e <;> simp [ho.rst hk.1, ho.goAway hk.2]

theorem refill_fm (hk : Kind.rst ∉ ks ∧ Kind.data ∉ ks) (r : R) (uid : Nat) (st : Strm) :
    fm p (refill r uid st).1.out = fm p r.out := by
  simp only [refill]
  repeat' split
  all_goals simp [ho.rst hk.1, ho.data hk.2]

theorem sendFrame_fm (hk : Kind.data ∉ ks) (r : R) (uid : Nat) (st : Strm) (step : Nat) :
    fm p (sendFrame r uid st step).1.out = fm p r.out := by
  simp [sendFrame, ho.data hk]

theorem sendDataFuel_fm (hk : Kind.rst ∉ ks ∧ Kind.data ∉ ks) (fuel : Nat) (r : R) (uid : Nat) :
    fm p (sendDataFuel fuel r uid).1.out = fm p r.out := by
  induction fuel generalizing r with
  | zero => rfl
  | succ n ih =>
    simp only [sendDataFuel]
    repeat' split
    all_goals simp [refill_fm p ks ho hk, sendFrame_fm p ks ho hk.2, ih]

theorem sendData_fm (hk : Kind.rst ∉ ks ∧ Kind.data ∉ ks) (r : R) (uid : Nat) :
    fm p (sendData r uid).1.out = fm p r.out := by
  simp only [sendData]
  split
  · rfl
  · exact sendDataFuel_fm p ks ho hk _ _ _

theorem flushOne_fm (hk : Kind.rst ∉ ks ∧ Kind.data ∉ ks) (acc : R × List Nat) (uid : Nat) :
    fm p (flushOne acc uid).1.out = fm p acc.1.out := by
  simp only [flushOne]
  repeat' split
  all_goals simp [sendData_fm p ks ho hk]

theorem flushStreams_fm (hk : Kind.rst ∉ ks ∧ Kind.data ∉ ks) (r : R) :
    fm p (flushStreams r).out = fm p r.out := by
  simp only [flushStreams]
  have h1 : fm p ((r.s.strms.map (·.uid)).foldl flushOne (r, [])).1.out = fm p r.out :=
    foldl_inv (fun acc : R × List Nat => fm p acc.1.out = fm p r.out) flushOne
      (fun b a hb => by rw [flushOne_fm p ks ho hk, hb]) _ _ rfl
  exact foldl_inv (fun x : R => fm p x.out = fm p r.out) closeDone
    (fun b a hb => by rw [closeDone_out, hb]) _ _ h1

/-- the CONTINUATION frames of a header block are invisible to a projection that ignores their kind -/
theorem fm_contOuts (hk : Kind.cont ∉ ks) (sid : Nat) (fs : List (Bytes × Bytes)) (err : Bool) (frags : List Bytes) :
    fm p (contOuts sid fs err frags) = [] := by
  induction frags with
  | nil => rfl
  | cons f rest ih => simp [contOuts, fm_cons', ho.cont hk, ih]

theorem responseHeaders_fm (hk : Kind.headers ∉ ks ∧ Kind.cont ∉ ks) (r : R) (st : Strm) (resp : Resp) (hb : Bool) :
    fm p (responseHeaders r st resp hb).out = fm p r.out := by
  simp only [responseHeaders]
  split <;> simp [cutBlock, blockOuts, fm_cons', ho.headers hk.1, fm_contOuts p ks ho hk.2]

theorem finishRequest_fm (hk : (Kind.headers ∉ ks ∧ Kind.cont ∉ ks) ∧ Kind.rst ∉ ks ∧ Kind.data ∉ ks) (r : R) (uid : Nat) (resp : Resp) :
    fm p (finishRequest r uid resp).1.out = fm p r.out := by
  simp only [finishRequest]
  repeat' split
  all_goals simp [sendData_fm p ks ho hk.2, responseHeaders_fm p ks ho hk.1]

theorem consumeConnWindow_fm (hk : Kind.wu ∉ ks) (r : R) (n : Nat) :
    fm p (consumeConnWindow r n).out = fm p r.out := by
  simp only [consumeConnWindow]
  repeat' split
  all_goals simp [ho.wu hk]

theorem consumeRecvWindow_fm (hk : Kind.wu ∉ ks) (r : R) (st : Strm) (fr : Frame.Frame) (n : Nat) :
    fm p (consumeRecvWindow r st fr n).out = fm p r.out := by
  simp only [consumeRecvWindow]
  repeat' split
  all_goals simp [ho.wu hk, consumeConnWindow_fm p ks ho hk]

theorem handleFrame_fm (hk : Kind.wu ∉ ks) (r : R) (uid : Nat) (fr : Frame.Frame) :
    fm p (handleFrame r uid fr).1.out = fm p r.out := by
  simp only [handleFrame]
  repeat' split
  all_goals simp [consumeRecvWindow_fm p ks ho hk, consumeConnWindow_fm p ks ho hk]

theorem closeIdleBelow_fm (hk : Kind.rst ∉ ks) (fuel : Nat) (r : R) (id : Nat) :
    fm p (closeIdleBelow fuel r id).out = fm p r.out := by
  induction fuel generalizing r with
  | zero => rfl
  | succ n ih =>
    simp only [closeIdleBelow]
    repeat' split
    all_goals simp [ih, ho.rst hk]

theorem unknownStream_fm (hk : Kind.rst ∉ ks ∧ Kind.goAway ∉ ks ∧ Kind.wu ∉ ks) (r : R) (fr : Frame.Frame) (wc : Bool) :
    fm p (unknownStream r fr wc).1.out = fm p r.out := by
  simp only [unknownStream]
  repeat' split
  all_goals simp [ho.rst hk.1, ho.goAway hk.2.1, consumeConnWindow_fm p ks ho hk.2.2]

theorem headersPrelude_fm (hk : Kind.rst ∉ ks ∧ Kind.goAway ∉ ks) (r : R) (fr : Frame.Frame) :
    fm p (headersPrelude r fr).1.out = fm p r.out := by
  simp only [headersPrelude]
  repeat' split
  all_goals simp [writeError_fm p ks ho hk, closeIdleBelow_fm p ks ho hk.1]

theorem onFrameError_fm (hk : Kind.rst ∉ ks ∧ Kind.goAway ∉ ks) (r : R) (uid : Nat) (e : Option SErr) :
    fm p (onFrameError r uid e).1.out = fm p r.out := by
  simp only [onFrameError]
  repeat' split
  all_goals simp [writeError_fm p ks ho hk]

theorem dispatch_fm (hk : Kind.dispatch ∉ ks) (r : R) (uid : Nat) (st : Strm) :
    fm p (dispatch r uid st).out = fm p r.out := by
  simp [dispatch, ho.dispatch hk]

theorem dispatchOrSend_fm (hk : Kind.rst ∉ ks ∧ Kind.data ∉ ks ∧ Kind.dispatch ∉ ks) (r : R) (uid : Nat) (st : Strm) :
    fm p (dispatchOrSend r uid st).out = fm p r.out := by
  simp only [dispatchOrSend]
  repeat' split
  all_goals simp [ho.rst hk.1, dispatch_fm p ks ho hk.2.2, sendData_fm p ks ho ⟨hk.1, hk.2.1⟩]

/-- the kinds a frame taken by the stream loop can make it emit, without `dispatch` -/
def SlQuiet (ks : List Kind) : Prop :=
  Kind.rst ∉ ks ∧ Kind.goAway ∉ ks ∧ Kind.wu ∉ ks ∧ Kind.data ∉ ks

theorem slFrame_settings_fm (hk : SlQuiet ks) (r : R) (fr : Frame.Frame) (h0 : fr.stream = 0) :
    fm p (slFrame r fr).out = fm p r.out := by
  obtain ⟨h1, h2, h3, h4⟩ := hk
  simp only [slFrame, h0]
  repeat' split
  all_goals simp_all [flushStreams_fm p ks ho ⟨h1, h4⟩, ho.goAway h2]

theorem contCheck_fm (hk : Kind.goAway ∉ ks) (r : R) (fr : Frame.Frame) :
    fm p (contCheck r fr).1.out = fm p r.out := by
  simp only [contCheck]
  repeat' split
  all_goals simp [ho.goAway hk]

theorem handleSettings_fm (hk : Kind.ack ∉ ks) (r : R) (st : Frame.SettingsVal) :
    fm p (handleSettings r st).out = fm p r.out := by
  simp [handleSettings, ho.ack hk]

end

/-! from here on: projections `p` that are silent on the kinds in `UpQuiet` and on whatever `dispatchOrSend`
emits (hypothesis `hd`: either `p` ignores dispatch records, or the record `dispatchOrSend` emits is one `p`
maps to `none`) -/

/-- kinds the read loop / stream loop emit while handling input octets, without `dispatch` -/
def UpQuiet (ks : List Kind) : Prop :=
  Kind.rst ∉ ks ∧ Kind.goAway ∉ ks ∧ Kind.wu ∉ ks ∧ Kind.data ∉ ks ∧ Kind.ack ∉ ks ∧ Kind.ping ∉ ks ∧ Kind.returned ∉ ks

section
variable {α : Type} (p : Out → Option α) (ks : List Kind) (ho : Only p ks) (hq : UpQuiet ks)
  (hd : ∀ r uid st, fm p (dispatchOrSend r uid st).out = fm p r.out)
include ho hq hd

theorem knownStream_fm (r : R) (uid : Nat) (fr : Frame.Frame) (wc : Bool) :
    fm p (knownStream r uid fr wc).out = fm p r.out := by
  obtain ⟨q1, q2, q3, q4, q5, q6, q7⟩ := hq
  simp only [knownStream]
  repeat' split
  all_goals simp [hd, onFrameError_fm p _ ho ⟨q1, q2⟩, handleFrame_fm p _ ho q3,
    headersPrelude_fm p _ ho ⟨q1, q2⟩]

theorem slStreamFrame_fm (r : R) (fr : Frame.Frame) :
    fm p (slStreamFrame r fr).out = fm p r.out := by
  have hq' := hq
  obtain ⟨q1, q2, q3, q4, q5, q6, q7⟩ := hq'
  simp only [slStreamFrame]
  repeat' split
  all_goals simp [knownStream_fm p ks ho hq hd, unknownStream_fm p _ ho ⟨q1, q2, q3⟩]

theorem slFrame_fm (r : R) (fr : Frame.Frame) :
    fm p (slFrame r fr).out = fm p r.out := by
  have hq' := hq
  obtain ⟨q1, q2, q3, q4, q5, q6, q7⟩ := hq'
  simp only [slFrame]
  repeat' split
  all_goals simp [slStreamFrame_fm p ks ho hq hd, flushStreams_fm p _ ho ⟨q1, q4⟩, ho.goAway q2]

theorem rlFrame_fm (r : R) (fr : Frame.Frame) :
    fm p (rlFrame r fr).out = fm p r.out := by
  have hq' := hq
  obtain ⟨q1, q2, q3, q4, q5, q6, q7⟩ := hq'
  simp only [rlFrame, rlConnFrame]
  repeat' split
  all_goals simp [contCheck_fm p _ ho q2, slFrame_fm p ks ho hq hd, handleSettings_fm p _ ho q5,
    ho.goAway q2, ho.ping q6]

theorem rlDrain_fm (fuel : Nat) (r : R) : fm p (rlDrain fuel r).out = fm p r.out := by
  have hq' := hq
  obtain ⟨q1, q2, q3, q4, q5, q6, q7⟩ := hq'
  induction fuel generalizing r with
  | zero => rfl
  | succ n ih =>
    simp only [rlDrain]
    repeat' split
    all_goals simp [ih, rlFrame_fm p ks ho hq hd, ho.goAway q2]

omit hd in
theorem slHandlerDone_fm (hk : Kind.panicLogged ∉ ks ∧ Kind.headers ∉ ks ∧ Kind.cont ∉ ks) (r : R) (sid : Nat) (resp : Resp) :
    fm p (slHandlerDone r sid resp).out = fm p r.out := by
  obtain ⟨q1, q2, q3, q4, q5, q6, q7⟩ := hq
  simp only [slHandlerDone]
  repeat' split
  all_goals simp [ho.panicLogged hk.1, finishRequest_fm p _ ho ⟨hk.2, q1, q4⟩, closeDone_out]

omit hd in
theorem settle_fm (r : R) : fm p (settle r).out = fm p r.out := by
  simp only [settle]
  split <;> simp [ho.returned hq.2.2.2.2.2.2]

/-- a step that is not a handler completion adds nothing to such a projection -/
theorem stepR_fm_input (s : Srv) (ev : Event) (hev : ∀ sid resp, ev ≠ .done sid resp) : fm p (stepR s ev).out = [] := by
  simp only [stepR]
  cases ev with
  | done sid resp => exact absurd rfl (hev sid resp)
  | bytes b => simp [settle_fm p ks ho hq, rlDrain_fm p ks ho hq hd]
  | cut => simp [settle_fm p ks ho hq]
  | idle => simp [settle_fm p ks ho hq, ho.goAway hq.2.1]

/-- … and neither does a handler completion when `p` ignores HEADERS and the panic marker too -/
theorem stepR_fm (hk : Kind.panicLogged ∉ ks ∧ Kind.headers ∉ ks ∧ Kind.cont ∉ ks) (s : Srv) (ev : Event) : fm p (stepR s ev).out = [] := by
  cases ev with
  | done sid resp => simp [stepR, settle_fm p ks ho hq, slHandlerDone_fm p ks ho hq hk]
  | bytes b => exact stepR_fm_input p ks ho hq hd s _ (by intro _ _ h; cases h)
  | cut => exact stepR_fm_input p ks ho hq hd s _ (by intro _ _ h; cases h)
  | idle => exact stepR_fm_input p ks ho hq hd s _ (by intro _ _ h; cases h)

end

/-! ## Part 2 — the invariant

Abstract level first: `L` is the list of stream skeletons (uid, id, responded, handlerRunning) of the table,
`last`/`next` are `lastID`/`nextUid`, `DD` the ids handed to the handler so far, `HH` the ids for which a
response HEADERS frame has been written so far. -/

abbrev Sk := Nat × Nat × Bool × Bool

structure InvA (L : List Sk) (last next : Nat) (DD HH : List Nat) : Prop where
  /-- no id has been dispatched twice -/
  dn : DD.Nodup
  /-- every dispatched id is at most `lastID` -/
  dle : ∀ i ∈ DD, i ≤ last
  /-- every stream of the table has an id at most `lastID` (a new stream needs a larger one) -/
  ile : ∀ t ∈ L, t.2.1 ≤ last
  ult : ∀ t ∈ L, t.1 < next
  /-- the table holds each stream object once … -/
  un : (L.map (·.1)).Nodup
  /-- … and each id once -/
  idn : (L.map (·.2.1)).Nodup
  /-- a stream that is not marked `responded` has not been dispatched -/
  nd : ∀ t ∈ L, t.2.2.1 = false → t.2.1 ∉ DD
  /-- no id got two response HEADERS -/
  hn : HH.Nodup
  /-- a response HEADERS only for a dispatched id -/
  hd : ∀ i ∈ HH, i ∈ DD
  /-- a stream whose handler is running has been dispatched and has no response HEADERS yet -/
  rn : ∀ t ∈ L, t.2.2.2 = true → t.2.1 ∉ HH ∧ t.2.1 ∈ DD

theorem InvA.init (last next : Nat) : InvA [] last next [] [] := by
  constructor <;> simp

theorem InvA.sub {L L' : List Sk} {last next : Nat} {DD HH : List Nat} (h : InvA L last next DD HH)
    (hs : L'.Sublist L) : InvA L' last next DD HH where
  dn := h.dn
  dle := h.dle
  ile := fun t ht => h.ile t (hs.subset ht)
  ult := fun t ht => h.ult t (hs.subset ht)
  un := h.un.sublist (hs.map _)
  idn := h.idn.sublist (hs.map _)
  nd := fun t ht => h.nd t (hs.subset ht)
  hn := h.hn
  hd := h.hd
  rn := fun t ht => h.rn t (hs.subset ht)

/-- a new stream: id above `lastID`, fresh uid, neither dispatched nor running -/
theorem InvA.new {L : List Sk} {last next : Nat} {DD HH : List Nat} (h : InvA L last next DD HH)
    (id : Nat) (hid : last < id) : InvA (L ++ [(next, id, false, false)]) id (next + 1) DD HH where
  dn := h.dn
  dle := fun i hi => by have := h.dle i hi; omega
  ile := fun t ht => by
    rcases List.mem_append.mp ht with ht | ht
    · have := h.ile t ht; omega
    · simp at ht; subst ht; simp
  ult := fun t ht => by
    rcases List.mem_append.mp ht with ht | ht
    · have := h.ult t ht; omega
    · simp at ht; subst ht; simp
  un := by
    rw [List.map_append, List.nodup_append]
    refine ⟨h.un, by simp, ?_⟩
    intro a ha b hb
    simp at hb; subst hb
    obtain ⟨t, ht, rfl⟩ := List.mem_map.mp ha
    have := h.ult t ht; omega
  idn := by
    rw [List.map_append, List.nodup_append]
    refine ⟨h.idn, by simp, ?_⟩
    intro a ha b hb
    simp at hb; subst hb
    obtain ⟨t, ht, rfl⟩ := List.mem_map.mp ha
    have := h.ile t ht; omega
  nd := fun t ht hf => by
    rcases List.mem_append.mp ht with ht | ht
    · exact h.nd t ht hf
    · simp at ht; subst ht
      intro hm; have := h.dle _ hm; simp at this; omega
  hn := h.hn
  hd := h.hd
  rn := fun t ht hr => by
    rcases List.mem_append.mp ht with ht | ht
    · exact h.rn t ht hr
    · simp at ht; subst ht; simp at hr

/-- streams are modified in place: uid and id stay, `responded` only rises, `handlerRunning` only falls -/
theorem InvA.weaken {L : List Sk} {last next : Nat} {DD HH : List Nat} (h : InvA L last next DD HH)
    (g : Sk → Sk) (h1 : ∀ t, (g t).1 = t.1) (h2 : ∀ t, (g t).2.1 = t.2.1)
    (h3 : ∀ t, (g t).2.2.1 = false → t.2.2.1 = false) (h4 : ∀ t, (g t).2.2.2 = true → t.2.2.2 = true) :
    InvA (L.map g) last next DD HH where
  dn := h.dn
  dle := h.dle
  ile := fun t ht => by obtain ⟨t0, ht0, rfl⟩ := List.mem_map.mp ht; rw [h2]; exact h.ile t0 ht0
  ult := fun t ht => by obtain ⟨t0, ht0, rfl⟩ := List.mem_map.mp ht; rw [h1]; exact h.ult t0 ht0
  un := by
    have : (L.map g).map (·.1) = L.map (·.1) := by simp [List.map_map, Function.comp_def, h1]
    rw [this]; exact h.un
  idn := by
    have : (L.map g).map (·.2.1) = L.map (·.2.1) := by simp [List.map_map, Function.comp_def, h2]
    rw [this]; exact h.idn
  nd := fun t ht hf => by
    obtain ⟨t0, ht0, rfl⟩ := List.mem_map.mp ht; rw [h2]; exact h.nd t0 ht0 (h3 t0 hf)
  hn := h.hn
  hd := h.hd
  rn := fun t ht hr => by
    obtain ⟨t0, ht0, rfl⟩ := List.mem_map.mp ht; rw [h2]; exact h.rn t0 ht0 (h4 t0 hr)

/-- the request of stream `i` is handed to the handler -/
theorem InvA.disp {L : List Sk} {last next : Nat} {DD HH : List Nat} (h : InvA L last next DD HH)
    (i : Nat) (hi : i ∉ DD) (hle : i ≤ last)
    (g : Sk → Sk) (h1 : ∀ t, (g t).1 = t.1) (h2 : ∀ t, (g t).2.1 = t.2.1)
    (h3 : ∀ t, (g t).2.2.1 = false → t.2.2.1 = false)
    (h4 : ∀ t ∈ L, (g t).2.2.2 = true → t.2.2.2 = true ∨ t.2.1 = i)
    (h5 : ∀ t ∈ L, t.2.1 = i → (g t).2.2.1 = true) :
    InvA (L.map g) last next (DD ++ [i]) HH where
  dn := by
    rw [List.nodup_append]
    exact ⟨h.dn, by simp, fun a ha b hb => by simp at hb; subst hb; intro e; subst e; exact hi ha⟩
  dle := fun j hj => by
    rcases List.mem_append.mp hj with hj | hj
    · exact h.dle j hj
    · simp at hj; subst hj; exact hle
  ile := fun t ht => by obtain ⟨t0, ht0, rfl⟩ := List.mem_map.mp ht; rw [h2]; exact h.ile t0 ht0
  ult := fun t ht => by obtain ⟨t0, ht0, rfl⟩ := List.mem_map.mp ht; rw [h1]; exact h.ult t0 ht0
  un := by
    have : (L.map g).map (·.1) = L.map (·.1) := by simp [List.map_map, Function.comp_def, h1]
    rw [this]; exact h.un
  idn := by
    have : (L.map g).map (·.2.1) = L.map (·.2.1) := by simp [List.map_map, Function.comp_def, h2]
    rw [this]; exact h.idn
  nd := fun t ht hf => by
    obtain ⟨t0, ht0, rfl⟩ := List.mem_map.mp ht
    rw [h2]
    intro hm
    rcases List.mem_append.mp hm with hm | hm
    · exact h.nd t0 ht0 (h3 t0 hf) hm
    · simp at hm
      have := h5 t0 ht0 hm
      rw [hf] at this; cases this
  hn := h.hn
  hd := fun j hj => List.mem_append_left _ (h.hd j hj)
  rn := fun t ht hr => by
    obtain ⟨t0, ht0, rfl⟩ := List.mem_map.mp ht
    rw [h2]
    rcases h4 t0 ht0 hr with h' | h'
    · exact ⟨(h.rn t0 ht0 h').1, List.mem_append_left _ (h.rn t0 ht0 h').2⟩
    · rw [h']
      exact ⟨fun hm => hi (h.hd i hm), by simp⟩

/-- the response HEADERS of stream `i` is written -/
theorem InvA.hdr {L : List Sk} {last next : Nat} {DD HH : List Nat} (h : InvA L last next DD HH)
    (i : Nat) (hi : i ∉ HH) (hdd : i ∈ DD) (hr : ∀ t ∈ L, t.2.2.2 = true → t.2.1 ≠ i) :
    InvA L last next DD (HH ++ [i]) where
  dn := h.dn
  dle := h.dle
  ile := h.ile
  ult := h.ult
  un := h.un
  idn := h.idn
  nd := h.nd
  hn := by
    rw [List.nodup_append]
    exact ⟨h.hn, by simp, fun a ha b hb => by simp at hb; subst hb; intro e; subst e; exact hi ha⟩
  hd := fun j hj => by
    rcases List.mem_append.mp hj with hj | hj
    · exact h.hd j hj
    · simp at hj; subst hj; exact hdd
  rn := fun t ht hrun => by
    refine ⟨fun hm => ?_, (h.rn t ht hrun).2⟩
    rcases List.mem_append.mp hm with hm | hm
    · exact (h.rn t ht hrun).1 hm
    · simp at hm; exact hr t ht hrun hm

/-! END_STREAM: `L2` is the list of (uid, id, idle) of the table, where a stream is idle when it owes nothing
(no pending data, no body stream); `HH` as above, `EE` the ids for which a frame carrying END_STREAM has been
written so far. -/

abbrev Sk2 := Nat × Nat × Bool

structure Inv2A (L2 : List Sk2) (HH EE : List Nat) : Prop where
  /-- no id got END_STREAM twice -/
  en : EE.Nodup
  /-- END_STREAM only on a stream whose response HEADERS were written (possibly the HEADERS frame itself) -/
  eh : ∀ i ∈ EE, i ∈ HH
  /-- a stream that got END_STREAM owes nothing -/
  ei : ∀ t ∈ L2, t.2.1 ∈ EE → t.2.2 = true
  /-- a stream without response HEADERS owes nothing -/
  hi : ∀ t ∈ L2, t.2.1 ∉ HH → t.2.2 = true

theorem Inv2A.init : Inv2A [] [] [] := by
  constructor <;> simp

theorem Inv2A.sub {L2 L2' : List Sk2} {HH EE : List Nat} (h : Inv2A L2 HH EE) (hs : L2'.Sublist L2) :
    Inv2A L2' HH EE :=
  ⟨h.en, h.eh, fun t ht => h.ei t (hs.subset ht), fun t ht => h.hi t (hs.subset ht)⟩

theorem Inv2A.new {L2 : List Sk2} {HH EE : List Nat} (h : Inv2A L2 HH EE) (u i : Nat) :
    Inv2A (L2 ++ [(u, i, true)]) HH EE := by
  refine ⟨h.en, h.eh, fun t ht he => ?_, fun t ht he => ?_⟩
  · rcases List.mem_append.mp ht with ht | ht
    · exact h.ei t ht he
    · simp at ht; subst ht; rfl
  · rcases List.mem_append.mp ht with ht | ht
    · exact h.hi t ht he
    · simp at ht; subst ht; rfl

/-- streams modified in place: the id stays; `idle` rises, or stays, or the stream is one that has its response
HEADERS and has not had END_STREAM yet (then it may owe whatever it likes) -/
theorem Inv2A.map {L2 : List Sk2} {HH EE : List Nat} (h : Inv2A L2 HH EE) (g : Sk2 → Sk2)
    (h1 : ∀ t, (g t).2.1 = t.2.1)
    (h2 : ∀ t ∈ L2, (g t).2.2 = true ∨ (g t).2.2 = t.2.2 ∨ (t.2.1 ∉ EE ∧ t.2.1 ∈ HH)) :
    Inv2A (L2.map g) HH EE := by
  refine ⟨h.en, h.eh, fun t ht he => ?_, fun t ht he => ?_⟩
  · obtain ⟨t0, ht0, rfl⟩ := List.mem_map.mp ht
    rw [h1] at he
    rcases h2 t0 ht0 with e | e | e
    · exact e
    · rw [e]; exact h.ei t0 ht0 he
    · exact absurd he e.1
  · obtain ⟨t0, ht0, rfl⟩ := List.mem_map.mp ht
    rw [h1] at he
    rcases h2 t0 ht0 with e | e | e
    · exact e
    · rw [e]; exact h.hi t0 ht0 he
    · exact absurd e.2 he

/-- response HEADERS without END_STREAM -/
theorem Inv2A.hdr {L2 : List Sk2} {HH EE : List Nat} (h : Inv2A L2 HH EE) (i : Nat) : Inv2A L2 (HH ++ [i]) EE :=
  ⟨h.en, fun j hj => List.mem_append_left _ (h.eh j hj), h.ei,
   fun t ht he => h.hi t ht (fun hm => he (List.mem_append_left _ hm))⟩

/-- response HEADERS carrying END_STREAM, for a stream that had no HEADERS yet -/
theorem Inv2A.hdrES {L2 : List Sk2} {HH EE : List Nat} (h : Inv2A L2 HH EE) (i : Nat) (hi : i ∉ HH) :
    Inv2A L2 (HH ++ [i]) (EE ++ [i]) := by
  refine ⟨?_, ?_, ?_, ?_⟩
  · rw [List.nodup_append]
    exact ⟨h.en, by simp, fun a ha b hb => by simp at hb; subst hb; intro e; subst e; exact hi (h.eh _ ha)⟩
  · intro j hj
    rcases List.mem_append.mp hj with hj | hj
    · exact List.mem_append_left _ (h.eh j hj)
    · exact List.mem_append_right _ hj
  · intro t ht he
    rcases List.mem_append.mp he with he | he
    · exact h.ei t ht he
    · simp at he; exact h.hi t ht (by rw [he]; exact hi)
  · intro t ht he
    exact h.hi t ht (fun hm => he (List.mem_append_left _ hm))

/-- a DATA frame carrying END_STREAM for stream `i`, which thereby owes nothing any more -/
theorem Inv2A.fin {L2 : List Sk2} {HH EE : List Nat} (h : Inv2A L2 HH EE) (i : Nat) (hi : i ∉ EE) (hh : i ∈ HH)
    (g : Sk2 → Sk2) (_h1 : ∀ t, (g t).2.1 = t.2.1)
    (h2 : ∀ t ∈ L2, t.2.1 = i → (g t).2.2 = true) (h3 : ∀ t ∈ L2, t.2.1 ≠ i → g t = t) :
    Inv2A (L2.map g) HH (EE ++ [i]) := by
  refine ⟨?_, ?_, ?_, ?_⟩
  · rw [List.nodup_append]
    exact ⟨h.en, by simp, fun a ha b hb => by simp at hb; subst hb; intro e; subst e; exact hi ha⟩
  · intro j hj
    rcases List.mem_append.mp hj with hj | hj
    · exact h.eh j hj
    · simp at hj; subst hj; exact hh
  · intro t ht he
    obtain ⟨t0, ht0, rfl⟩ := List.mem_map.mp ht
    by_cases e : t0.2.1 = i
    · exact h2 t0 ht0 e
    · rw [h3 t0 ht0 e] at he ⊢
      rcases List.mem_append.mp he with he | he
      · exact h.ei t0 ht0 he
      · simp at he; exact absurd he e
  · intro t ht he
    obtain ⟨t0, ht0, rfl⟩ := List.mem_map.mp ht
    by_cases e : t0.2.1 = i
    · exact h2 t0 ht0 e
    · rw [h3 t0 ht0 e] at he ⊢
      exact h.hi t0 ht0 he

/-! ### the invariant on the model's state -/

/-- the stream id of a dispatch record -/
def pD : Out → Option Nat
  | .dispatch sid .. => some sid
  | _ => none

/-- the stream id of a (response) HEADERS frame -/
def pH : Out → Option Nat
  | .headers sid .. => some sid
  | _ => none

theorem pD_only : Only pD [.dispatch] := by
  intro o h; cases o <;> simp_all [Out.kind, pD]
theorem pH_only : Only pH [.headers] := by
  intro o h; cases o <;> simp_all [Out.kind, pH]

/-- the stream id of a frame carrying END_STREAM (response HEADERS without body, or the last DATA frame) -/
def pE : Out → Option Nat
  | .headers sid true .. => some sid
  | .data sid true .. => some sid
  | _ => none

theorem pE_only : Only pE [.headers, .data] := by
  intro o h; cases o <;> simp_all [Out.kind, pE]

def Strm.sk (st : Strm) : Sk := (st.uid, st.id, st.responded, st.handlerRunning)

def sks (r : R) : List Sk := r.s.strms.map Strm.sk

/-- a stream owes nothing: no pending data and no body stream (`hasMoreToSend` is false) -/
def Strm.idle (st : Strm) : Bool := st.pendLen == 0 && st.stream.isNone

def Strm.sk2 (st : Strm) : Sk2 := (st.uid, st.id, st.idle)

def sks2 (r : R) : List Sk2 := r.s.strms.map Strm.sk2

/-- `D`, `H`, `E`: ids dispatched / answered with HEADERS / given END_STREAM before the current step; `r`: state and
outputs of the current step so far -/
structure Inv (D H E : List Nat) (r : R) : Prop where
  a : InvA (sks r) r.s.lastID r.s.nextUid (D ++ fm pD r.out) (H ++ fm pH r.out)
  e : Inv2A (sks2 r) (H ++ fm pH r.out) (E ++ fm pE r.out)

section
variable {D H E : List Nat} {r r' : R}

theorem Inv.dn (h : Inv D H E r) : (D ++ fm pD r.out).Nodup := h.a.dn
theorem Inv.dle (h : Inv D H E r) : ∀ i ∈ D ++ fm pD r.out, i ≤ r.s.lastID := h.a.dle
theorem Inv.ile (h : Inv D H E r) : ∀ t ∈ sks r, t.2.1 ≤ r.s.lastID := h.a.ile
theorem Inv.ult (h : Inv D H E r) : ∀ t ∈ sks r, t.1 < r.s.nextUid := h.a.ult
theorem Inv.un (h : Inv D H E r) : ((sks r).map (·.1)).Nodup := h.a.un
theorem Inv.idn (h : Inv D H E r) : ((sks r).map (·.2.1)).Nodup := h.a.idn
theorem Inv.nd (h : Inv D H E r) : ∀ t ∈ sks r, t.2.2.1 = false → t.2.1 ∉ D ++ fm pD r.out := h.a.nd
theorem Inv.hn (h : Inv D H E r) : (H ++ fm pH r.out).Nodup := h.a.hn
theorem Inv.hd (h : Inv D H E r) : ∀ i ∈ H ++ fm pH r.out, i ∈ D ++ fm pD r.out := h.a.hd
theorem Inv.rn (h : Inv D H E r) :
    ∀ t ∈ sks r, t.2.2.2 = true → t.2.1 ∉ H ++ fm pH r.out ∧ t.2.1 ∈ D ++ fm pD r.out := h.a.rn

theorem Inv.sub (h : Inv D H E r) (hs : (sks r').Sublist (sks r)) (hs2 : (sks2 r').Sublist (sks2 r))
    (h1 : r'.s.lastID = r.s.lastID) (h2 : r'.s.nextUid = r.s.nextUid) (h3 : fm pD r'.out = fm pD r.out)
    (h4 : fm pH r'.out = fm pH r.out) (h5 : fm pE r'.out = fm pE r.out) : Inv D H E r' := by
  constructor
  · rw [h1, h2, h3, h4]; exact InvA.sub h.a hs
  · rw [h4, h5]; exact Inv2A.sub h.e hs2

theorem Inv.congr (h : Inv D H E r) (hs : sks r' = sks r) (hs2 : sks2 r' = sks2 r) (h1 : r'.s.lastID = r.s.lastID)
    (h2 : r'.s.nextUid = r.s.nextUid) (h3 : fm pD r'.out = fm pD r.out) (h4 : fm pH r'.out = fm pH r.out)
    (h5 : fm pE r'.out = fm pE r.out) : Inv D H E r' :=
  h.sub (by rw [hs]; exact List.Sublist.refl _) (by rw [hs2]; exact List.Sublist.refl _) h1 h2 h3 h4 h5

theorem Inv.uidNodup (h : Inv D H E r) : (r.s.strms.map (·.uid)).Nodup := by
  have := h.un
  simpa [sks, List.map_map, Function.comp_def, Strm.sk] using this

theorem Inv.idNodup (h : Inv D H E r) : (r.s.strms.map (·.id)).Nodup := by
  have := h.idn
  simpa [sks, List.map_map, Function.comp_def, Strm.sk] using this
end

/-! list facts -/

theorem find_uid_unique (l : List Strm) (uid : Nat) (st : Strm) (hn : (l.map (·.uid)).Nodup)
    (hf : l.find? (·.uid == uid) = some st) : ∀ x ∈ l, x.uid = uid → x = st := by
  induction l with
  | nil => simp at hf
  | cons a l ih =>
    simp only [List.map_cons, List.nodup_cons] at hn
    intro x hx hu
    by_cases ha : a.uid = uid
    · have : a = st := by simpa [List.find?_cons, ha] using hf
      subst this
      rcases List.mem_cons.mp hx with rfl | hx
      · rfl
      · exact absurd (List.mem_map.mpr ⟨x, hx, by rw [hu, ha]⟩) hn.1
    · rcases List.mem_cons.mp hx with rfl | hx
      · exact absurd hu ha
      · have hf' : l.find? (·.uid == uid) = some st := by
          simpa [List.find?_cons, ha] using hf
        exact ih hn.2 hf' x hx hu

theorem map_const_pi {β : Type} (π : Strm → β) (l : List Strm) (uid : Nat) (st' : Strm)
    (h : ∀ x ∈ l, x.uid = uid → π x = π st') :
    (l.map fun x => if x.uid == uid then st' else x).map π = l.map π := by
  rw [List.map_map]
  apply List.map_congr_left
  intro x hx
  by_cases hu : x.uid = uid
  · simp [hu, h x hx hu]
  · simp [hu]

theorem map_keep_pi {β : Type} (π : Strm → β) (l : List Strm) (uid : Nat) (f : Strm → Strm) (h : ∀ x, π (f x) = π x) :
    (l.map fun x => if x.uid == uid then f x else x).map π = l.map π := by
  rw [List.map_map]
  apply List.map_congr_left
  intro x _
  by_cases hu : x.uid = uid
  · simp [hu, h x]
  · simp [hu]

theorem delFirst_sublist (l : List Strm) (id : Nat) : (delFirst l id).Sublist l := by
  induction l with
  | nil => simp [delFirst]
  | cons a l ih =>
    simp only [delFirst]
    split
    · exact List.sublist_cons_self a l
    · exact ih.cons_cons a

theorem applyDelta_sk (d : Int) (l : List Strm) : (applyDelta d l).1.map Strm.sk = l.map Strm.sk := by
  induction l with
  | nil => rfl
  | cons a l ih =>
    simp only [applyDelta]
    split
    · simp [Strm.sk]
    · simp [Strm.sk, ih]

theorem applyDelta_sk2 (d : Int) (l : List Strm) : (applyDelta d l).1.map Strm.sk2 = l.map Strm.sk2 := by
  induction l with
  | nil => rfl
  | cons a l ih =>
    simp only [applyDelta]
    split
    · simp [Strm.sk2, Strm.idle]
    · simp [Strm.sk2, Strm.idle, ih]

theorem nodup_map_inj {α β : Type} (f : α → β) (l : List α) (hn : (l.map f).Nodup) (a b : α) (ha : a ∈ l) (hb : b ∈ l)
    (hab : f a = f b) : a = b := by
  induction l with
  | nil => cases ha
  | cons c l ih =>
    simp only [List.map_cons, List.nodup_cons] at hn
    rcases List.mem_cons.mp ha with ha' | ha' <;> rcases List.mem_cons.mp hb with hb' | hb'
    · rw [ha', hb']
    · exact absurd (List.mem_map.mpr ⟨b, hb', by rw [← hab, ha']⟩) hn.1
    · exact absurd (List.mem_map.mpr ⟨a, ha', by rw [hab, hb']⟩) hn.1
    · exact ih hn.2 ha' hb'

theorem upd_sks (r : R) (uid : Nat) (f : Strm → Strm) (G : Sk → Sk) (hf : ∀ x, (f x).sk = G x.sk) :
    sks (r.updStrm uid f) = (sks r).map fun t => if t.1 == uid then G t else t := by
  simp only [sks, R.updStrm, List.map_map]
  apply List.map_congr_left
  intro x _
  simp only [Function.comp]
  by_cases hu : x.uid = uid
  · subst hu
    have e1 : (x.uid == x.uid) = true := by simp
    have e2 : (x.sk.1 == x.uid) = true := by simp [Strm.sk]
    simp only [e1, e2, if_true, hf]
  · simp [hu, Strm.sk]


theorem find_map_uid (l : List Strm) (uid : Nat) (g : Strm → Strm) (hg : ∀ x, (g x).uid = x.uid) (st : Strm)
    (h : l.find? (·.uid == uid) = some st) : (l.map g).find? (·.uid == uid) = some (g st) := by
  induction l with
  | nil => simp at h
  | cons a l ih =>
    by_cases ha : a.uid = uid
    · have : a = st := by simpa [List.find?_cons, ha] using h
      subst this
      simp [hg, ha]
    · have h' : l.find? (·.uid == uid) = some st := by simpa [List.find?_cons, ha] using h
      simp [hg, ha, ih h']

theorem getStrm_upd (r : R) (uid : Nat) (f : Strm → Strm) (st : Strm) (hf : ∀ x, x.uid = uid → (f x).uid = uid)
    (h : r.getStrm uid = some st) : (r.updStrm uid f).getStrm uid = some (f st) := by
  have hu : st.uid = uid := by
    have := List.find?_some h
    simpa using this
  have := find_map_uid r.s.strms uid (fun x => if x.uid == uid then f x else x)
    (by intro x; by_cases hx : x.uid = uid <;> simp [hx, hf]) st h
  simpa [R.getStrm, R.updStrm, hu] using this


/-! ### preservation, function by function -/

section Pres
variable {D H E : List Nat} {r : R}

syntax "inv_apply" : tactic
macro "inv_step" : tactic => `(tactic| first | assumption | inv_apply)


theorem emit_inv (o : Out) (hd : pD o = none) (hh : pH o = none) (he : pE o = none) (h : Inv D H E r) : Inv D H E (r.emit o) :=
  h.congr rfl rfl rfl rfl (by simp [hd]) (by simp [hh]) (by simp [he])

theorem upd_inv (uid : Nat) (f : Strm → Strm) (hf : ∀ x, (f x).sk = x.sk ∧ (f x).sk2 = x.sk2) (h : Inv D H E r) :
    Inv D H E (r.updStrm uid f) :=
  h.congr (map_keep_pi Strm.sk _ _ _ fun x => (hf x).1) (map_keep_pi Strm.sk2 _ _ _ fun x => (hf x).2) rfl rfl rfl rfl rfl

/-- what `getStrm uid = some st` means under the invariant: `st` is the only entry with that uid and with that id -/
theorem Inv.the (h : Inv D H E r) {uid : Nat} {st : Strm} (hg : r.getStrm uid = some st) :
    st ∈ r.s.strms ∧ st.uid = uid ∧ (∀ x ∈ r.s.strms, x.uid = uid → x = st) ∧ (∀ x ∈ r.s.strms, x.id = st.id → x = st) := by
  have hm : st ∈ r.s.strms := List.mem_of_find?_eq_some hg
  have hu : st.uid = uid := by
    have := List.find?_some hg
    simpa using this
  exact ⟨hm, hu, find_uid_unique _ _ _ h.uidNodup hg, fun x hx hi => nodup_map_inj (·.id) _ h.idNodup x st hx hm hi⟩


theorem updc_inv (uid : Nat) (st st' : Strm) (hg : r.getStrm uid = some st) (hs : st'.sk = st.sk ∧ st'.sk2 = st.sk2)
    (h : Inv D H E r) : Inv D H E (r.updStrm uid fun _ => st') := by
  refine h.congr ?_ ?_ rfl rfl rfl rfl rfl
  · apply map_const_pi
    intro x hx hu
    rw [find_uid_unique _ _ _ h.uidNodup hg x hx hu, hs.1]
  · apply map_const_pi
    intro x hx hu
    rw [find_uid_unique _ _ _ h.uidNodup hg x hx hu, hs.2]

/-- an update of no stream at all -/
theorem upd_none_inv (uid : Nat) (f : Strm → Strm) (hg : r.getStrm uid = none) (h : Inv D H E r) :
    Inv D H E (r.updStrm uid f) := by
  have hn : ∀ x ∈ r.s.strms, (x.uid == uid) = false := by
    intro x hx
    have := List.find?_eq_none.mp hg x hx
    simpa using this
  have e : (r.updStrm uid f).s.strms = r.s.strms := by
    simp only [R.updStrm]
    conv => rhs; rw [← List.map_id r.s.strms]
    apply List.map_congr_left
    intro x hx
    simp [hn x hx]
  exact h.congr (by simp only [sks, e]) (by simp only [sks2, e]) rfl rfl rfl rfl rfl

/-- a stream that owes something has its response HEADERS and has not had END_STREAM -/
theorem Inv.live (h : Inv D H E r) {st : Strm} (hm : st ∈ r.s.strms) (hi : st.idle = false) :
    st.id ∉ E ++ fm pE r.out ∧ st.id ∈ H ++ fm pH r.out := by
  have hm2 : st.sk2 ∈ sks2 r := List.mem_map_of_mem hm
  constructor
  · intro he
    have := h.e.ei st.sk2 hm2 he
    simp only [Strm.sk2] at this
    rw [hi] at this; cases this
  · apply Classical.byContradiction
    intro hh
    have := h.e.hi st.sk2 hm2 hh
    simp only [Strm.sk2] at this
    rw [hi] at this; cases this

/-- the skeletons after an update of the stream `getStrm uid` returns -/
theorem upd_the_sks (uid : Nat) (f : Strm → Strm) (st : Strm) (hg : r.getStrm uid = some st) (hsk : (f st).sk = st.sk)
    (h : Inv D H E r) :
    sks (r.updStrm uid f) = sks r ∧
    sks2 (r.updStrm uid f) = (sks2 r).map (fun t => if t.1 == uid then (t.1, t.2.1, (f st).idle) else t) := by
  obtain ⟨hm, hu, huu, _⟩ := h.the hg
  have h1 : (f st).uid = st.uid := congrArg (·.1) hsk
  have h2 : (f st).id = st.id := congrArg (·.2.1) hsk
  constructor
  · simp only [sks, R.updStrm, List.map_map]
    apply List.map_congr_left
    intro x hx
    by_cases hx' : x.uid = uid
    · have := huu x hx hx'
      subst this
      simp [hx', hsk]
    · simp [hx']
  · simp only [sks2, R.updStrm, List.map_map]
    apply List.map_congr_left
    intro x hx
    by_cases hx' : x.uid = uid
    · have := huu x hx hx'
      subst this
      simp [hx', Strm.sk2, h1, h2]
    · simp [hx', Strm.sk2]

theorem Inv.the_sk2 (h : Inv D H E r) {uid : Nat} {st : Strm} (hg : r.getStrm uid = some st) :
    (∀ t ∈ sks2 r, t.1 = uid → t = st.sk2) ∧ (∀ t ∈ sks2 r, t.2.1 = st.id → t = st.sk2) := by
  obtain ⟨hm, hu, huu, hii⟩ := h.the hg
  constructor
  · intro t ht e
    obtain ⟨x, hx, rfl⟩ := List.mem_map.mp ht
    rw [huu x hx e]
  · intro t ht e
    obtain ⟨x, hx, rfl⟩ := List.mem_map.mp ht
    rw [hii x hx e]

/-- **general in-place update** of the stream `getStrm uid` returns: the (uid, id, responded, handlerRunning) skeleton
stays; what it owes may change only if `idle` rises or stays, or the stream has its response HEADERS and has not had
END_STREAM -/
theorem updG_inv (uid : Nat) (f : Strm → Strm) (st : Strm) (hg : r.getStrm uid = some st) (hsk : (f st).sk = st.sk)
    (hl : (f st).idle = true ∨ (f st).idle = st.idle ∨ (st.id ∉ E ++ fm pE r.out ∧ st.id ∈ H ++ fm pH r.out))
    (h : Inv D H E r) : Inv D H E (r.updStrm uid f) := by
  obtain ⟨e1, e2⟩ := upd_the_sks uid f st hg hsk h
  obtain ⟨hsu, _⟩ := h.the_sk2 hg
  constructor
  · rw [e1]; exact h.a
  · rw [e2]
    refine Inv2A.map h.e _ (by intro t; split <;> rfl) ?_
    intro t ht
    by_cases e : t.1 = uid
    · have := hsu t ht e
      subst this
      have e' : (st.sk2.1 == uid) = true := by simpa using e
      simp only [e', if_true]
      rcases hl with hl | hl | hl
      · exact Or.inl hl
      · exact Or.inr (Or.inl hl)
      · exact Or.inr (Or.inr hl)
    · have e' : (t.1 == uid) = false := by simpa using e
      simp [e']

/-- **END_STREAM on a DATA frame**: the stream has its response HEADERS, has not had END_STREAM, and owes nothing
after the update that goes with the frame -/
theorem fin_inv (uid : Nat) (f : Strm → Strm) (st : Strm) (o : Out) (hg : r.getStrm uid = some st) (hsk : (f st).sk = st.sk)
    (hidle : (f st).idle = true) (hlive : st.id ∉ E ++ fm pE r.out ∧ st.id ∈ H ++ fm pH r.out)
    (hoE : pE o = some st.id) (hoD : pD o = none) (hoH : pH o = none)
    (h : Inv D H E r) : Inv D H E ((r.updStrm uid f).emit o) := by
  obtain ⟨e1, e2⟩ := upd_the_sks uid f st hg hsk h
  obtain ⟨hsu, hsi⟩ := h.the_sk2 hg
  obtain ⟨_, hu, _, _⟩ := h.the hg
  constructor
  · show InvA (sks (r.updStrm uid f)) r.s.lastID r.s.nextUid (D ++ fm pD (r.out ++ [o])) (H ++ fm pH (r.out ++ [o]))
    rw [e1]
    simpa [hoD, hoH] using h.a
  · show Inv2A (sks2 (r.updStrm uid f)) (H ++ fm pH (r.out ++ [o])) (E ++ fm pE (r.out ++ [o]))
    rw [e2]
    have key := Inv2A.fin h.e st.id hlive.1 hlive.2 (fun t => if t.1 == uid then (t.1, t.2.1, (f st).idle) else t)
      (by intro t; split <;> rfl)
      (by
        intro t ht hid
        have := hsi t ht hid
        subst this
        have e' : (st.sk2.1 == uid) = true := by simpa [Strm.sk2] using hu
        simp only [e', if_true]
        exact hidle)
      (by
        intro t ht hid
        have e' : (t.1 == uid) = false := by
          apply Classical.byContradiction
          intro hc
          have hc' : t.1 = uid := by simpa using hc
          exact hid (by rw [hsu t ht hc']; rfl)
        simp only [e', Bool.false_eq_true, if_false])
    simpa [hoE, hoH, List.append_assoc] using key

theorem writeReset_inv (sid code : Nat) (h : Inv D H E r) : Inv D H E (writeReset r sid code) :=
  h.congr rfl rfl rfl rfl (by simp [pD]) (by simp [pH]) (by simp [pE])

theorem writeGoAway_inv (sid code : Nat) (tag : String) (h : Inv D H E r) : Inv D H E (writeGoAway r sid code tag) := by
  refine h.congr ?_ ?_ ?_ ?_ (by simp [pD]) (by simp [pH]) (by simp [pE]) <;> (unfold writeGoAway; simp only []; split <;> rfl)

macro_rules | `(tactic| inv_apply) => `(tactic| apply writeReset_inv)
attribute [local irreducible] writeReset
macro_rules | `(tactic| inv_apply) => `(tactic| apply writeGoAway_inv)
attribute [local irreducible] writeGoAway
macro_rules | `(tactic| inv_apply) => `(tactic| (apply upd_inv; (intro x; exact ⟨rfl, rfl⟩)))

theorem writeError_inv (uid : Nat) (e : SErr) (h : Inv D H E r) : Inv D H E (writeError r uid e) := by
  unfold writeError
  split
  · exact h
  · cases e <;> simp only [] <;> repeat inv_step
macro_rules | `(tactic| inv_apply) => `(tactic| apply writeError_inv)
attribute [local irreducible] writeError

theorem releaseStream_inv (st : Strm) (h : Inv D H E r) : Inv D H E (releaseStream r st) := by
  unfold releaseStream; split
  · exact h.congr rfl rfl rfl rfl rfl rfl rfl
  · exact h
macro_rules | `(tactic| inv_apply) => `(tactic| apply releaseStream_inv)
attribute [local irreducible] releaseStream

theorem closeStream_inv (uid : Nat) (h : Inv D H E r) : Inv D H E (closeStream r uid) := by
  unfold closeStream
  split
  · exact h
  · simp only []
    split
    · exact h.sub ((delFirst_sublist _ _).map _) ((delFirst_sublist _ _).map _) rfl rfl rfl rfl rfl
    · apply releaseStream_inv
      exact h.sub ((delFirst_sublist _ _).map _) ((delFirst_sublist _ _).map _) rfl rfl rfl rfl rfl
macro_rules | `(tactic| inv_apply) => `(tactic| apply closeStream_inv)
attribute [local irreducible] closeStream



/-- the stream as `refill` leaves it after a successful read from the body stream `bs` -/
def refillRead (st : Strm) (bs : BodyStream) : Strm :=
  let rd := readBody bs
  let n := rd.1
  let eof := rd.2.1
  let bs' := rd.2.2.2
  let st' := { st with stream := some bs',
                       pendOff := if n > 0 then st.bodyRead else st.pendOff,
                       pendLen := if n > 0 then n else st.pendLen,
                       bodyRead := st.bodyRead + n,
                       pendingEnd := st.pendingEnd || eof }
  if st'.bodySize ≥ 0 && (st'.bodyRead : Int) ≥ st'.bodySize then { st' with pendingEnd := true } else st'

theorem refillRead_sk (st : Strm) (bs : BodyStream) : (refillRead st bs).sk = st.sk := by
  simp only [refillRead]; split <;> rfl

theorem refillRead_pendLen (st : Strm) (bs : BodyStream) :
    (refillRead st bs).pendLen = if (readBody bs).1 > 0 then (readBody bs).1 else st.pendLen := by
  simp only [refillRead]; split <;> rfl

theorem refillRead_stream (st : Strm) (bs : BodyStream) : (refillRead st bs).stream.isSome = true := by
  simp only [refillRead]; split <;> rfl

theorem refill_eq (r : R) (uid : Nat) (st : Strm) :
    refill r uid st =
      if st.pendLen == 0 then
        match st.stream with
        | none => (r, st, true)
        | some bs =>
          if (readBody bs).2.2.1 || ((readBody bs).1 == 0 && !(readBody bs).2.1) then
            (writeReset (r.updStrm uid fun _ => { st with stream := none }) st.id Gen.c_InternalError,
              { st with stream := none }, true)
          else if (refillRead st bs).pendLen == 0 then
            ((if (refillRead st bs).pendingEnd then (r.updStrm uid fun _ => refillRead st bs).emit (.data st.id true 0 {})
              else r.updStrm uid fun _ => refillRead st bs), refillRead st bs, true)
          else (r.updStrm uid fun _ => refillRead st bs, refillRead st bs, false)
      else (r, st, false) := by
  rfl

theorem closeBody_inv (uid : Nat) (h : Inv D H E r) : Inv D H E (closeBody r uid) := by
  simp only [closeBody]
  cases hg : r.getStrm uid with
  | none => exact upd_none_inv uid _ hg h
  | some st =>
    refine updG_inv uid _ st hg rfl ?_ h
    by_cases hp : st.pendLen = 0
    · left; simp [Strm.idle, hp]
    · right; left; simp [Strm.idle, hp]
macro_rules | `(tactic| inv_apply) => `(tactic| apply closeBody_inv)

/-- one refill: if it ends the loop, the state after `closeBodyStream` satisfies the invariant; if it does not, the
state does, and the stream returned is the one in the table and owes something -/
theorem refill_both (uid : Nat) (st : Strm) (hg : r.getStrm uid = some st) (h : Inv D H E r) :
    ((refill r uid st).2.2 = true → Inv D H E (closeBody (refill r uid st).1 uid)) ∧
    ((refill r uid st).2.2 = false → Inv D H E (refill r uid st).1 ∧
      (refill r uid st).1.getStrm uid = some (refill r uid st).2.1 ∧ (refill r uid st).2.1.idle = false) := by
  obtain ⟨hm, hu, _, _⟩ := h.the hg
  rw [refill_eq]
  split
  · split
    · exact ⟨fun _ => closeBody_inv uid h, fun hc => by simp at hc⟩
    · rename_i bs hs
      have hidle : st.idle = false := by simp [Strm.idle, hs]
      have hlive := h.live hm hidle
      split
      · refine ⟨fun _ => ?_, fun hc => by simp at hc⟩
        exact closeBody_inv uid (writeReset_inv _ _ (updG_inv uid _ st hg rfl (Or.inr (Or.inr hlive)) h))
      · have h1 := updG_inv uid (fun _ => refillRead st bs) st hg (refillRead_sk st bs) (Or.inr (Or.inr hlive)) h
        have hu' : (refillRead st bs).uid = uid := by
          have := congrArg (·.1) (refillRead_sk st bs)
          simp only [Strm.sk] at this
          rw [this, hu]
        have hg1 := getStrm_upd r uid (fun _ => refillRead st bs) st (fun _ _ => hu') hg
        split
        · rename_i hp0
          refine ⟨fun _ => ?_, fun hc => by simp at hc⟩
          split
          · have hid : (refillRead st bs).id = st.id := by
              have := congrArg (·.2.1) (refillRead_sk st bs)
              simpa [Strm.sk] using this
            have hp0' : (refillRead st bs).pendLen = 0 := by simpa using hp0
            exact fin_inv uid (fun s => { s with stream := none }) (refillRead st bs) (.data st.id true 0 {}) hg1 rfl
              (by simp [Strm.idle, hp0']) (by rw [hid]; exact hlive) (by rw [hid]; rfl) rfl rfl h1
          · exact closeBody_inv uid h1
        · rename_i hp0
          refine ⟨fun hc => by simp at hc, fun _ => ⟨h1, hg1, ?_⟩⟩
          have : (refillRead st bs).stream.isSome = true := refillRead_stream st bs
          cases hst : (refillRead st bs).stream with
          | none => rw [hst] at this; cases this
          | some _ => simp [Strm.idle, hst]
  · rename_i hp
    refine ⟨fun hc => by simp at hc, fun _ => ⟨h, hg, ?_⟩⟩
    simp only [Strm.idle]
    cases hq : (st.pendLen == 0)
    · rfl
    · exact absurd hq hp

theorem sendFrame_eq (r : R) (uid : Nat) (st : Strm) (step : Nat) :
    sendFrame r uid st step =
      ({ ((r.updStrm uid fun s => { s with pendOff := s.pendOff + step, pendLen := st.pendLen - step, window := s.window - step }).emit
            (.data st.id (st.pendingEnd && st.pendLen - step == 0) step (st.src.digest st.pendOff step))) with
          s := { ((r.updStrm uid fun s => { s with pendOff := s.pendOff + step, pendLen := st.pendLen - step, window := s.window - step }).emit
            (.data st.id (st.pendingEnd && st.pendLen - step == 0) step (st.src.digest st.pendOff step))).s with
              clientWindow := r.s.clientWindow - step } },
       st.pendingEnd && st.pendLen - step == 0) := rfl

/-- one DATA frame of a stream that owes something: without END_STREAM the invariant holds after it; with END_STREAM
it holds after the `closeBodyStream` that follows -/
theorem sendFrame_both (uid : Nat) (st : Strm) (step : Nat) (hg : r.getStrm uid = some st) (hi : st.idle = false)
    (h : Inv D H E r) :
    ((sendFrame r uid st step).2 = true → Inv D H E (closeBody (sendFrame r uid st step).1 uid)) ∧
    ((sendFrame r uid st step).2 = false → Inv D H E (sendFrame r uid st step).1) := by
  obtain ⟨hm, hu, _, _⟩ := h.the hg
  have hlive := h.live hm hi
  have h1 := updG_inv uid (fun s => { s with pendOff := s.pendOff + step, pendLen := st.pendLen - step, window := s.window - step })
    st hg rfl (Or.inr (Or.inr hlive)) h
  rw [sendFrame_eq]
  constructor
  · intro hfin
    simp only at hfin
    simp only [hfin]
    have hrem : st.pendLen - step = 0 := by
      simp only [Bool.and_eq_true, beq_iff_eq] at hfin
      exact hfin.2
    have hg1 := getStrm_upd r uid (fun s => { s with pendOff := s.pendOff + step, pendLen := st.pendLen - step, window := s.window - step })
      st (fun x hx => hx) hg
    have h2 : Inv D H E ({ (r.updStrm uid fun s => { s with pendOff := s.pendOff + step, pendLen := st.pendLen - step, window := s.window - step }) with
        s := { (r.updStrm uid fun s => { s with pendOff := s.pendOff + step, pendLen := st.pendLen - step, window := s.window - step }).s with
          clientWindow := r.s.clientWindow - step } } : R) := h1.congr rfl rfl rfl rfl rfl rfl rfl
    have h3 := fin_inv (r := ({ (r.updStrm uid fun s => { s with pendOff := s.pendOff + step, pendLen := st.pendLen - step, window := s.window - step }) with
        s := { (r.updStrm uid fun s => { s with pendOff := s.pendOff + step, pendLen := st.pendLen - step, window := s.window - step }).s with
          clientWindow := r.s.clientWindow - step } } : R))
      uid (fun s => { s with stream := none }) _ (.data st.id true step (st.src.digest st.pendOff step)) hg1 rfl
      (by simp [Strm.idle, hrem]) hlive rfl rfl rfl h2
    exact h3
  · intro hfin
    simp only at hfin
    simp only [hfin]
    exact (emit_inv (.data st.id false step (st.src.digest st.pendOff step)) rfl rfl rfl h1).congr rfl rfl rfl rfl rfl rfl rfl

/-- `min(strm.window, clientWindow)` of `sendData` -/
def availOf (r : R) (st : Strm) : Int := if r.s.clientWindow < st.window then r.s.clientWindow else st.window

theorem sendDataFuel_succ (n : Nat) (r : R) (uid : Nat) :
    sendDataFuel (n + 1) r uid =
      match r.getStrm uid with
      | none => (r, true)
      | some st0 =>
        if (refill r uid st0).2.2 then (closeBody (refill r uid st0).1 uid, true)
        else if availOf (refill r uid st0).1 (refill r uid st0).2.1 ≤ 0 then ((refill r uid st0).1, false)
        else if (sendFrame (refill r uid st0).1 uid (refill r uid st0).2.1
            (min (min Gen.c_maxDataFrameSize (availOf (refill r uid st0).1 (refill r uid st0).2.1).toNat)
              (refill r uid st0).2.1.pendLen)).2
          then (closeBody (sendFrame (refill r uid st0).1 uid (refill r uid st0).2.1
            (min (min Gen.c_maxDataFrameSize (availOf (refill r uid st0).1 (refill r uid st0).2.1).toNat)
              (refill r uid st0).2.1.pendLen)).1 uid, true)
        else sendDataFuel n (sendFrame (refill r uid st0).1 uid (refill r uid st0).2.1
            (min (min Gen.c_maxDataFrameSize (availOf (refill r uid st0).1 (refill r uid st0).2.1).toNat)
              (refill r uid st0).2.1.pendLen)).1 uid := rfl

theorem sendDataFuel_inv (fuel : Nat) (uid : Nat) (h : Inv D H E r) : Inv D H E (sendDataFuel fuel r uid).1 := by
  induction fuel generalizing r with
  | zero => exact h
  | succ n ih =>
    rw [sendDataFuel_succ]
    split
    · exact h
    · rename_i st0 hg
      obtain ⟨hc, ho⟩ := refill_both uid st0 hg h
      split
      · rename_i hx; exact hc hx
      · rename_i hx
        obtain ⟨hr, hg1, hi1⟩ := ho (by simpa using hx)
        split
        · exact hr
        · obtain ⟨hc2, ho2⟩ := sendFrame_both uid (refill r uid st0).2.1
            (min (min Gen.c_maxDataFrameSize (availOf (refill r uid st0).1 (refill r uid st0).2.1).toNat)
              (refill r uid st0).2.1.pendLen) hg1 hi1 hr
          split
          · rename_i hy; exact hc2 hy
          · rename_i hy
            exact ih (ho2 (by simpa using hy))

theorem sendData_inv (uid : Nat) (h : Inv D H E r) : Inv D H E (sendData r uid).1 := by
  simp only [sendData]
  split
  · exact h
  · exact sendDataFuel_inv _ _ h
macro_rules | `(tactic| inv_apply) => `(tactic| apply sendData_inv)
attribute [local irreducible] sendData

theorem flushOne_inv (acc : R × List Nat) (uid : Nat) (h : Inv D H E acc.1) : Inv D H E (flushOne acc uid).1 := by
  simp only [flushOne]
  repeat' split
  all_goals first | exact h | exact sendData_inv _ h

theorem closeDone_inv (uid : Nat) (h : Inv D H E r) : Inv D H E (closeDone r uid) := by
  simp only [closeDone]
  repeat inv_step
macro_rules | `(tactic| inv_apply) => `(tactic| apply closeDone_inv)
attribute [local irreducible] closeDone

theorem flushStreams_inv (h : Inv D H E r) : Inv D H E (flushStreams r) := by
  simp only [flushStreams]
  have h1 : Inv D H E ((r.s.strms.map (·.uid)).foldl flushOne (r, [])).1 :=
    foldl_inv (fun acc : R × List Nat => Inv D H E acc.1) flushOne (fun b a hb => flushOne_inv b a hb) _ _ h
  exact foldl_inv (fun x : R => Inv D H E x) closeDone (fun b a hb => closeDone_inv a hb) _ _ h1
macro_rules | `(tactic| inv_apply) => `(tactic| apply flushStreams_inv)
attribute [local irreducible] flushStreams

theorem consumeConnWindow_inv (n : Nat) (h : Inv D H E r) : Inv D H E (consumeConnWindow r n) := by
  simp only [consumeConnWindow]
  repeat' split
  · exact h
  · exact (emit_inv (.wu 0 _) rfl rfl rfl h).congr rfl rfl rfl rfl rfl rfl rfl
  · exact h.congr rfl rfl rfl rfl rfl rfl rfl
macro_rules | `(tactic| inv_apply) => `(tactic| apply consumeConnWindow_inv)
attribute [local irreducible] consumeConnWindow

theorem consumeRecvWindow_inv (st : Strm) (fr : Frame.Frame) (n : Nat) (h : Inv D H E r) :
    Inv D H E (consumeRecvWindow r st fr n) := by
  simp only [consumeRecvWindow]
  repeat' split
  · exact h
  · exact consumeConnWindow_inv _ (emit_inv _ rfl rfl rfl h)
  · exact consumeConnWindow_inv _ h
macro_rules | `(tactic| inv_apply) => `(tactic| apply consumeRecvWindow_inv)
attribute [local irreducible] consumeRecvWindow


/-- both skeletons -/
def Strm.sk3 (st : Strm) : Sk × Sk2 := (st.sk, st.sk2)

/-- the header-block loop changes the decoder only, and keeps the stream's skeleton -/
theorem fieldUpdate_sk (st : Strm) (f : Hpack.Field) : (fieldUpdate st f).sk3 = st.sk3 := by
  simp only [fieldUpdate]
  repeat' split
  all_goals rfl

theorem fieldLoop_keeps (fuel : Nat) (s : Srv) (st : Strm) (bs eh : Bool) (fp : Nat) (b : Bytes) :
    (fieldLoop fuel s st bs eh fp b).1.strms = s.strms ∧ (fieldLoop fuel s st bs eh fp b).1.lastID = s.lastID ∧
    (fieldLoop fuel s st bs eh fp b).1.nextUid = s.nextUid ∧ (fieldLoop fuel s st bs eh fp b).2.1.sk3 = st.sk3 := by
  induction fuel generalizing s st fp b with
  | zero => simp [fieldLoop]
  | succ n ih =>
    cases b with
    | nil => simp [fieldLoop]
    | cons c cs =>
      simp only [fieldLoop]
      repeat' split
      all_goals first
        | exact ⟨rfl, rfl, rfl, rfl⟩
        | exact ⟨rfl, rfl, rfl, fieldUpdate_sk _ _⟩
        | (rename_i dec fo rest _ _ _
           have := ih { s with dec := dec } (fieldStep s.cfg { st with fieldSeen := true } fo).1 (fp + 1) rest
           simp only [fieldStep] at this ⊢
           rw [fieldUpdate_sk] at this
           exact this)

theorem handleHeaderFrame_keeps (s : Srv) (st : Strm) (fr : Frame.Frame) :
    (handleHeaderFrame s st fr).1.strms = s.strms ∧ (handleHeaderFrame s st fr).1.lastID = s.lastID ∧
    (handleHeaderFrame s st fr).1.nextUid = s.nextUid ∧ (handleHeaderFrame s st fr).2.1.sk3 = st.sk3 := by
  simp only [handleHeaderFrame]
  repeat' split
  all_goals first
    | exact ⟨rfl, rfl, rfl, rfl⟩
    | (refine ⟨(fieldLoop_keeps ..).1, (fieldLoop_keeps ..).2.1, (fieldLoop_keeps ..).2.2.1, ?_⟩
       rw [(fieldLoop_keeps ..).2.2.2]; try rfl)


theorem hhf_inv (uid : Nat) (st : Strm) (fr : Frame.Frame) (hg : r.getStrm uid = some st) (h : Inv D H E r) :
    Inv D H E (({ r with s := (handleHeaderFrame r.s st fr).1 } : R).updStrm uid fun _ => (handleHeaderFrame r.s st fr).2.1) := by
  obtain ⟨k1, k2, k3, k4⟩ := handleHeaderFrame_keeps r.s st fr
  have h0 : Inv D H E ({ r with s := (handleHeaderFrame r.s st fr).1 } : R) :=
    h.congr (by simp only [sks]; rw [k1]) (by simp only [sks2]; rw [k1]) k2 k3 rfl rfl rfl
  refine updc_inv uid st _ ?_ ⟨congrArg Prod.fst k4, congrArg Prod.snd k4⟩ h0
  simp only [R.getStrm] at hg ⊢
  rw [k1]; exact hg

theorem handleFrame_inv (uid : Nat) (fr : Frame.Frame) (h : Inv D H E r) : Inv D H E (handleFrame r uid fr).1 := by
  simp only [handleFrame]
  split
  · exact h
  · rename_i st hg
    have hh := hhf_inv uid st fr hg h
    repeat' split
    all_goals first
      | exact h
      | exact hh
      | exact upd_inv _ _ (fun _ => ⟨rfl, rfl⟩) hh
      | exact consumeConnWindow_inv _ (updc_inv uid st _ hg ⟨rfl, rfl⟩ h)
      | exact consumeRecvWindow_inv _ _ _ (upd_inv _ _ (fun _ => ⟨rfl, rfl⟩) (updc_inv uid st _ hg ⟨rfl, rfl⟩ h))
      | exact upd_inv _ _ (fun _ => ⟨rfl, rfl⟩) h
macro_rules | `(tactic| inv_apply) => `(tactic| apply handleFrame_inv)
attribute [local irreducible] handleFrame


theorem closeIdleBelow_inv (fuel : Nat) (id : Nat) (h : Inv D H E r) : Inv D H E (closeIdleBelow fuel r id) := by
  induction fuel generalizing r with
  | zero => exact h
  | succ n ih =>
    simp only [closeIdleBelow]
    repeat' split
    all_goals first
      | exact h
      | (apply ih; repeat inv_step)
macro_rules | `(tactic| inv_apply) => `(tactic| apply closeIdleBelow_inv)
attribute [local irreducible] closeIdleBelow

theorem stopLoop_inv (h : Inv D H E r) : Inv D H E (stopLoop r) := h.congr rfl rfl rfl rfl rfl rfl rfl
macro_rules | `(tactic| inv_apply) => `(tactic| apply stopLoop_inv)
attribute [local irreducible] stopLoop

theorem rlStop_inv (h : Inv D H E r) : Inv D H E (rlStop r) := h.congr rfl rfl rfl rfl rfl rfl rfl
macro_rules | `(tactic| inv_apply) => `(tactic| apply rlStop_inv)
attribute [local irreducible] rlStop

theorem closeIfDone_inv (h : Inv D H E r) : Inv D H E (closeIfDone r) := by
  simp only [closeIfDone]; split <;> repeat inv_step
macro_rules | `(tactic| inv_apply) => `(tactic| apply closeIfDone_inv)
attribute [local irreducible] closeIfDone

theorem closeIfClosing_inv (h : Inv D H E r) : Inv D H E (closeIfClosing r) := by
  simp only [closeIfClosing]; split <;> repeat inv_step
macro_rules | `(tactic| inv_apply) => `(tactic| apply closeIfClosing_inv)
attribute [local irreducible] closeIfClosing

/-- a stream is created only for an id above `lastID` -/
theorem new_inv (id typ : Nat) (win : Int) (hid : r.s.lastID < id) (h : Inv D H E r) :
    Inv D H E ({ r with s := { r.s with strms := r.s.strms ++ [{ uid := r.s.nextUid, id := id, window := win, origType := typ }],
                                          nextUid := r.s.nextUid + 1, openStreams := r.s.openStreams + 1, lastID := id } } : R) := by
  constructor
  · have := InvA.new h.a id hid
    simpa [sks, Strm.sk] using this
  · have := Inv2A.new h.e r.s.nextUid id
    simpa [sks2, Strm.sk2, Strm.idle] using this

theorem unknownStream_inv (fr : Frame.Frame) (wc : Bool) (h : Inv D H E r) : Inv D H E (unknownStream r fr wc).1 := by
  simp only [unknownStream]
  repeat' split
  all_goals first
    | exact h
    | (apply new_inv _ _ _ _ h
       rename_i hc
       simp only [Bool.or_eq_true, decide_eq_true_eq, not_or] at hc
       omega)
    | (apply writeReset_inv; exact h.congr rfl rfl rfl rfl rfl rfl rfl)
    | (repeat inv_step)
macro_rules | `(tactic| inv_apply) => `(tactic| apply unknownStream_inv)
attribute [local irreducible] unknownStream

theorem headersPrelude_inv (fr : Frame.Frame) (h : Inv D H E r) : Inv D H E (headersPrelude r fr).1 := by
  simp only [headersPrelude]
  repeat' split
  all_goals (repeat inv_step)
macro_rules | `(tactic| inv_apply) => `(tactic| apply headersPrelude_inv)
attribute [local irreducible] headersPrelude

theorem onFrameError_inv (uid : Nat) (e : Option SErr) (h : Inv D H E r) : Inv D H E (onFrameError r uid e).1 := by
  simp only [onFrameError]
  repeat' split
  all_goals (repeat inv_step)
macro_rules | `(tactic| inv_apply) => `(tactic| apply onFrameError_inv)
attribute [local irreducible] onFrameError


/-- under the invariant an entry of the table is determined by its uid, and by its id -/
theorem Inv.mem_sk (h : Inv D H E r) {st : Strm} (hm : st ∈ r.s.strms) :
    (∀ t ∈ sks r, t.1 = st.uid → t = st.sk) ∧ (∀ t ∈ sks r, t.2.1 = st.id → t = st.sk) :=
  ⟨fun t ht e => nodup_map_inj (·.1) (sks r) h.un t st.sk ht (List.mem_map_of_mem hm) e,
   fun t ht e => nodup_map_inj (·.2.1) (sks r) h.idn t st.sk ht (List.mem_map_of_mem hm) e⟩

/-- marking a stream `responded` -/
theorem respond_inv (uid : Nat) (h : Inv D H E r) : Inv D H E (r.updStrm uid fun s => { s with responded := true }) := by
  have hs := upd_sks r uid (fun s => { s with responded := true }) (fun t => (t.1, t.2.1, true, t.2.2.2)) (fun _ => rfl)
  constructor
  · show InvA (sks (r.updStrm uid fun s => { s with responded := true })) r.s.lastID r.s.nextUid _ _
    rw [hs]
    exact InvA.weaken h.a _ (by intro t; split <;> rfl) (by intro t; split <;> rfl)
      (by intro t; split <;> simp) (by intro t; split <;> simp)
  · have e2 : sks2 (r.updStrm uid fun s => { s with responded := true }) = sks2 r := map_keep_pi Strm.sk2 _ _ _ fun _ => rfl
    show Inv2A (sks2 (r.updStrm uid fun s => { s with responded := true })) _ _
    rw [e2]; exact h.e

/-- clearing `handlerRunning` -/
theorem stop_inv (uid : Nat) (h : Inv D H E r) : Inv D H E (r.updStrm uid fun s => { s with handlerRunning := false }) := by
  have hs := upd_sks r uid (fun s => { s with handlerRunning := false }) (fun t => (t.1, t.2.1, t.2.2.1, false)) (fun _ => rfl)
  constructor
  · show InvA (sks (r.updStrm uid fun s => { s with handlerRunning := false })) r.s.lastID r.s.nextUid _ _
    rw [hs]
    exact InvA.weaken h.a _ (by intro t; split <;> rfl) (by intro t; split <;> rfl)
      (by intro t; split <;> simp) (by intro t; split <;> simp)
  · have e2 : sks2 (r.updStrm uid fun s => { s with handlerRunning := false }) = sks2 r := map_keep_pi Strm.sk2 _ _ _ fun _ => rfl
    show Inv2A (sks2 (r.updStrm uid fun s => { s with handlerRunning := false })) _ _
    rw [e2]; exact h.e

/-- **the dispatch**: a stream of the table that is not yet marked `responded` is marked and handed over -/
theorem dispatch_inv (uid : Nat) (st : Strm) (hg : r.getStrm uid = some st) (hresp : st.responded = false) (h : Inv D H E r) :
    Inv D H E (dispatch (r.updStrm uid fun s => { s with responded := true }) uid st) := by
  have h1 := respond_inv uid h
  obtain ⟨hm, hu, _, _⟩ := h.the hg
  obtain ⟨hsu, hsi⟩ := h.mem_sk hm
  have hs1 := upd_sks r uid (fun s => { s with responded := true }) (fun t => (t.1, t.2.1, true, t.2.2.2)) (fun _ => rfl)
  have hs2 := upd_sks (r.updStrm uid fun s => { s with responded := true }) uid (fun s => { s with handlerRunning := true })
    (fun t => (t.1, t.2.1, t.2.2.1, true)) (fun _ => rfl)
  have hnd : st.id ∉ D ++ fm pD r.out := h.nd st.sk (List.mem_map_of_mem hm) hresp
  have hle : st.id ≤ r.s.lastID := h.ile st.sk (List.mem_map_of_mem hm)
  have key := InvA.disp h1.a st.id hnd hle (fun t => if t.1 == uid then (t.1, t.2.1, t.2.2.1, true) else t)
    (by intro t; split <;> rfl) (by intro t; split <;> rfl)
    (by intro t; split <;> simp)
    (by
      intro t' ht'
      rw [hs1] at ht'
      obtain ⟨t, ht, rfl⟩ := List.mem_map.mp ht'
      by_cases e : t.1 = uid
      · have := hsu t ht (by rw [e, hu])
        subst this
        intro _; right; simp [hu, Strm.sk]
      · simp [e]; exact Or.inl)
    (by
      intro t' ht' hid
      rw [hs1] at ht'
      obtain ⟨t, ht, rfl⟩ := List.mem_map.mp ht'
      have hid' : t.2.1 = st.id := by
        revert hid; split <;> exact id
      have := hsi t ht hid'
      subst this
      simp [Strm.sk, hu])
  have e0 : sks2 (dispatch (r.updStrm uid fun s => { s with responded := true }) uid st) = sks2 r := by
    have a1 : sks2 (dispatch (r.updStrm uid fun s => { s with responded := true }) uid st) =
        sks2 (r.updStrm uid fun s => { s with responded := true }) := map_keep_pi Strm.sk2 _ _ _ fun _ => rfl
    have a2 : sks2 (r.updStrm uid fun s => { s with responded := true }) = sks2 r := map_keep_pi Strm.sk2 _ _ _ fun _ => rfl
    rw [a1, a2]
  have e1 : sks (dispatch (r.updStrm uid fun s => { s with responded := true }) uid st) =
      (sks (r.updStrm uid fun s => { s with responded := true })).map
        fun t => if t.1 == uid then (t.1, t.2.1, t.2.2.1, true) else t := hs2
  have e2 : fm pD (dispatch (r.updStrm uid fun s => { s with responded := true }) uid st).out = fm pD r.out ++ [st.id] := by
    simp [dispatch, pD]
  have e3 : fm pH (dispatch (r.updStrm uid fun s => { s with responded := true }) uid st).out = fm pH r.out := by
    simp [dispatch, pH]
  have e4 : fm pE (dispatch (r.updStrm uid fun s => { s with responded := true }) uid st).out = fm pE r.out := by
    simp [dispatch, pE]
  constructor
  · show InvA (sks (dispatch (r.updStrm uid fun s => { s with responded := true }) uid st)) r.s.lastID r.s.nextUid _ _
    rw [e1, e2, e3, ← List.append_assoc]
    exact key
  · rw [e0, e3, e4]; exact h.e

theorem dispatchOrSend_inv (uid : Nat) (st : Strm) (hg : r.getStrm uid = some st) (h : Inv D H E r) :
    Inv D H E (dispatchOrSend r uid st) := by
  simp only [dispatchOrSend]
  split
  · rename_i hc
    have hresp : st.responded = false := by
      simp only [Bool.and_eq_true, Bool.not_eq_true'] at hc
      exact hc.2
    split
    · exact upd_inv _ _ (fun _ => ⟨rfl, rfl⟩) (writeReset_inv _ _ (respond_inv uid h))
    · exact dispatch_inv uid st hg hresp h
  · repeat' split
    all_goals first
      | exact h
      | exact sendData_inv _ h
      | exact upd_inv _ _ (fun _ => ⟨rfl, rfl⟩) (sendData_inv _ h)

theorem handleState_sk (fr : Frame.Frame) (x : Strm) : (handleState fr x).sk = x.sk ∧ (handleState fr x).sk2 = x.sk2 := by
  simp only [handleState]
  (repeat' split) <;> exact ⟨rfl, rfl⟩

theorem closeIfClosed_inv (uid : Nat) (h : Inv D H E r) : Inv D H E (closeIfClosed r uid) := by
  simp only [closeIfClosed]
  repeat' split
  all_goals first | exact h | exact closeStream_inv _ h

theorem knownStream_inv (uid : Nat) (fr : Frame.Frame) (wc : Bool) (h : Inv D H E r) : Inv D H E (knownStream r uid fr wc) := by
  simp only [knownStream]
  have h1 := headersPrelude_inv fr h
  split
  · exact h1
  · have h2 := onFrameError_inv uid (handleFrame (headersPrelude r fr).1 uid fr).2 (handleFrame_inv uid fr h1)
    split
    · exact stopLoop_inv h2
    · have h3 := upd_inv uid (handleState fr) (handleState_sk fr) h2
      split
      · exact h3
      · rename_i st hg
        have h4 := closeIfClosed_inv uid (dispatchOrSend_inv uid st hg h3)
        split
        · exact stopLoop_inv h4
        · exact h4

theorem slStreamFrame_inv (fr : Frame.Frame) (h : Inv D H E r) : Inv D H E (slStreamFrame r fr) := by
  simp only [slStreamFrame]
  repeat' split
  all_goals first
    | exact knownStream_inv _ _ _ h
    | exact unknownStream_inv _ _ h
    | exact knownStream_inv _ _ _ (unknownStream_inv _ _ h)

theorem applyTableSize_inv (st : Frame.SettingsVal) (h : Inv D H E r) : Inv D H E (applyTableSize r st) := by
  simp only [applyTableSize]
  exact h.congr rfl rfl rfl rfl rfl rfl rfl

theorem slFrame_inv (fr : Frame.Frame) (h : Inv D H E r) : Inv D H E (slFrame r fr) := by
  have hf : Inv D H E ({ r with fwd := r.fwd ++ [fr] } : R) := h.congr rfl rfl rfl rfl rfl rfl rfl
  simp only [slFrame]
  split
  · exact h
  · split
    · split
      · rename_i st _
        have h1 := applyTableSize_inv st hf
        split
        · have h2 : Inv D H E ({ (applyTableSize { r with fwd := r.fwd ++ [fr] } st) with
              s := { (applyTableSize { r with fwd := r.fwd ++ [fr] } st).s with
                curInitWin := st.windowSize,
                strms := (applyDelta ((st.windowSize : Int) - (applyTableSize { r with fwd := r.fwd ++ [fr] } st).s.curInitWin)
                  (applyTableSize { r with fwd := r.fwd ++ [fr] } st).s.strms).1 } } : R) :=
            h1.congr (applyDelta_sk _ _) (applyDelta_sk2 _ _) rfl rfl rfl rfl rfl
          split
          · exact stopLoop_inv (writeGoAway_inv _ _ _ h2)
          · exact closeIfClosing_inv (flushStreams_inv h2)
        · exact closeIfClosing_inv h1
      · rename_i inc _
        have h2 : Inv D H E ({ r with fwd := r.fwd ++ [fr], s := { r.s with clientWindow := r.s.clientWindow + inc } } : R) :=
          h.congr rfl rfl rfl rfl rfl rfl rfl
        split
        · exact stopLoop_inv (writeGoAway_inv _ _ _ h2)
        · exact closeIfClosing_inv (flushStreams_inv h2)
      · exact closeIfClosing_inv hf
    · exact slStreamFrame_inv fr hf

theorem responseHeaders_keeps (r : R) (st : Strm) (resp : Resp) (hb : Bool) :
    (responseHeaders r st resp hb).s.strms = r.s.strms ∧ (responseHeaders r st resp hb).s.lastID = r.s.lastID ∧
    (responseHeaders r st resp hb).s.nextUid = r.s.nextUid := by
  simp only [responseHeaders]; split <;> exact ⟨rfl, rfl, rfl⟩

theorem responseHeaders_out (r : R) (st : Strm) (resp : Resp) (hb : Bool) :
    ∃ eh len fs e fs' err frags, (responseHeaders r st resp hb).out =
      r.out ++ (.headers st.id (!hb) eh len fs e :: contOuts st.id fs' err frags) := by
  simp only [responseHeaders]; split <;> exact ⟨_, _, _, _, _, _, _, rfl⟩

/-- **the response HEADERS** of a stream that has been dispatched, has none yet, and is not running -/
theorem responseHeaders_inv (st : Strm) (resp : Resp) (hb : Bool) (hi : st.id ∉ H ++ fm pH r.out)
    (hdd : st.id ∈ D ++ fm pD r.out) (hr : ∀ t ∈ sks r, t.2.2.2 = true → t.2.1 ≠ st.id) (h : Inv D H E r) :
    Inv D H E (responseHeaders r st resp hb) := by
  obtain ⟨k1, k2, k3⟩ := responseHeaders_keeps r st resp hb
  obtain ⟨eh, len, fs, e, fs', err, frags, ho⟩ := responseHeaders_out r st resp hb
  have cD := fm_contOuts pD [.dispatch] pD_only (by simp) st.id fs' err frags
  have cH := fm_contOuts pH [.headers] pH_only (by simp) st.id fs' err frags
  have cE := fm_contOuts pE [.headers, .data] pE_only (by simp) st.id fs' err frags
  constructor
  · have key := InvA.hdr h.a st.id hi hdd hr
    rw [k2, k3, ho]
    simpa [sks, k1, pD, pH, cD, cH, fm_cons', List.append_assoc] using key
  · rw [ho]
    cases hb
    · have key := Inv2A.hdrES h.e st.id hi
      simpa [sks2, k1, pH, pE, cH, cE, fm_cons', List.append_assoc] using key
    · have key := Inv2A.hdr h.e st.id
      simpa [sks2, k1, pH, pE, cH, cE, fm_cons', List.append_assoc] using key

/-- after response HEADERS without END_STREAM the stream has its HEADERS and has not had END_STREAM -/
theorem responseHeaders_live (st : Strm) (resp : Resp) (hb : Bool) (hbt : hb = true) (hi : st.id ∉ H ++ fm pH r.out)
    (h : Inv D H E r) :
    st.id ∉ E ++ fm pE (responseHeaders r st resp hb).out ∧ st.id ∈ H ++ fm pH (responseHeaders r st resp hb).out := by
  subst hbt
  obtain ⟨eh, len, fs, e, fs', err, frags, ho⟩ := responseHeaders_out r st resp true
  have cH := fm_contOuts pH [.headers] pH_only (by simp) st.id fs' err frags
  have cE := fm_contOuts pE [.headers, .data] pE_only (by simp) st.id fs' err frags
  rw [ho]
  constructor
  · intro hm
    have : st.id ∈ E ++ fm pE r.out := by simpa [pE, cE, fm_cons'] using hm
    exact hi (h.e.eh _ this)
  · simp [pH, fm_cons']

theorem bnot_ne_true {b : Bool} (h : ¬ (!b) = true) : b = true := by cases b <;> simp_all

theorem responseHeaders_get (st0 : Strm) (resp : Resp) (hb : Bool) (uid : Nat) (st : Strm) (hg : r.getStrm uid = some st) :
    (responseHeaders r st0 resp hb).getStrm uid = some st := by
  simp only [R.getStrm, (responseHeaders_keeps r st0 resp hb).1]; exact hg

theorem finishRequest_inv (uid : Nat) (resp : Resp)
    (hyp : ∀ st, r.getStrm uid = some st → st.id ∉ H ++ fm pH r.out ∧ st.id ∈ D ++ fm pD r.out ∧
      ∀ t ∈ sks r, t.2.2.2 = true → t.2.1 ≠ st.id) (h : Inv D H E r) :
    Inv D H E (finishRequest r uid resp).1 := by
  simp only [finishRequest]
  split
  · exact h
  · rename_i st hg
    obtain ⟨a, b, c⟩ := hyp st hg
    repeat' split
    all_goals first
      | exact responseHeaders_inv _ _ _ a b c h
      | (rename_i hnb _
         exact sendData_inv _ (updG_inv uid _ st (responseHeaders_get _ _ _ uid st hg) rfl
           (Or.inr (Or.inr (responseHeaders_live st _ _ (bnot_ne_true hnb) a h)))
           (responseHeaders_inv _ _ _ a b c h)))

theorem slHandlerDone_inv (sid : Nat) (resp : Resp) (h : Inv D H E r) : Inv D H E (slHandlerDone r sid resp) := by
  simp only [slHandlerDone]
  have h0 : Inv D H E (if resp.kind == "panic" then r.emit .handlerPanicLogged else r) := by
    split
    · exact emit_inv _ rfl rfl rfl h
    · exact h
  generalize (if resp.kind == "panic" then r.emit .handlerPanicLogged else r) = r0 at h0 ⊢
  split
  · exact h0
  · split
    · split
      · exact releaseStream_inv _ (h0.congr rfl rfl rfl rfl rfl rfl rfl)
      · exact h0
    · rename_i st hf
      have hm : st ∈ r0.s.strms := List.mem_of_find?_eq_some hf
      have hrun : st.handlerRunning = true := by
        have := List.find?_some hf
        simp only [Bool.and_eq_true] at this
        exact this.2
      obtain ⟨hsu, hsi⟩ := h0.mem_sk hm
      have hrn := h0.rn st.sk (List.mem_map_of_mem hm) hrun
      have h1 := stop_inv st.uid h0
      have hs1 := upd_sks r0 st.uid (fun s => { s with handlerRunning := false }) (fun t => (t.1, t.2.1, t.2.2.1, false))
        (fun _ => rfl)
      have h2 := finishRequest_inv st.uid resp (by
        intro st1 hg1
        have hm1 : st1 ∈ (r0.updStrm st.uid fun s => { s with handlerRunning := false }).s.strms :=
          List.mem_of_find?_eq_some hg1
        have hu1 : st1.uid = st.uid := by
          have := List.find?_some hg1
          simpa using this
        have hk1 : st1.sk ∈ sks (r0.updStrm st.uid fun s => { s with handlerRunning := false }) :=
          List.mem_map_of_mem hm1
        rw [hs1] at hk1
        obtain ⟨t, ht, e⟩ := List.mem_map.mp hk1
        have ht1 : t.1 = st.uid := by
          have : (if t.1 == st.uid then (t.1, t.2.1, t.2.2.1, false) else t).1 = st1.sk.1 := by rw [e]
          rw [← hu1]; revert this; split <;> exact id
        have hte := hsu t ht ht1
        have hid1 : st1.id = st.id := by
          have : (if t.1 == st.uid then (t.1, t.2.1, t.2.2.1, false) else t).2.1 = st1.sk.2.1 := by rw [e]
          rw [hte] at this
          revert this; split <;> exact fun x => x.symm
        rw [hid1]
        refine ⟨hrn.1, hrn.2, ?_⟩
        intro t' ht' hr'
        rw [hs1] at ht'
        obtain ⟨t0, ht0, rfl⟩ := List.mem_map.mp ht'
        by_cases e0 : t0.1 = st.uid
        · simp [e0] at hr'
        · have e0' : (t0.1 == st.uid) = false := by simp [e0]
          simp only [e0', Bool.false_eq_true, if_false] at hr' ⊢
          intro hid
          exact e0 (by rw [hsi t0 ht0 hid]; rfl)) h1
      repeat' split
      all_goals first
        | exact h2
        | exact closeDone_inv _ h2
        | exact stopLoop_inv h2
        | exact stopLoop_inv (closeDone_inv _ h2)

theorem contCheck_inv (fr : Frame.Frame) (h : Inv D H E r) : Inv D H E (contCheck r fr).1 := by
  simp only [contCheck]
  repeat' split
  all_goals first
    | exact h
    | exact writeGoAway_inv _ _ _ h
    | exact h.congr rfl rfl rfl rfl rfl rfl rfl

theorem handleSettings_inv (st : Frame.SettingsVal) (h : Inv D H E r) : Inv D H E (handleSettings r st) := by
  simp only [handleSettings]
  exact emit_inv _ rfl rfl rfl (h.congr rfl rfl rfl rfl rfl rfl rfl)

theorem rlFrame_inv (fr : Frame.Frame) (h : Inv D H E r) : Inv D H E (rlFrame r fr) := by
  have hc := contCheck_inv fr h
  simp only [rlFrame, rlConnFrame]
  repeat' split
  all_goals first
    | exact hc
    | exact rlStop_inv hc
    | exact slFrame_inv _ hc
    | exact rlStop_inv (writeGoAway_inv _ _ _ hc)
    | exact slFrame_inv _ (handleSettings_inv _ hc)
    | exact emit_inv _ rfl rfl rfl hc

theorem rlDrain_inv (fuel : Nat) (h : Inv D H E r) : Inv D H E (rlDrain fuel r) := by
  induction fuel generalizing r with
  | zero => exact h
  | succ n ih =>
    simp only [rlDrain]
    repeat' split
    all_goals first
      | exact h
      | exact rlStop_inv h
      | exact rlStop_inv (writeGoAway_inv _ _ _ h)
      | exact ih (rlFrame_inv _ (h.congr rfl rfl rfl rfl rfl rfl rfl))
      | exact ih (h.congr rfl rfl rfl rfl rfl rfl rfl)
      | exact rlStop_inv (writeGoAway_inv _ _ _ (h.congr rfl rfl rfl rfl rfl rfl rfl))

theorem settle_inv (h : Inv D H E r) : Inv D H E (settle r) := by
  simp only [settle]
  split
  · exact (emit_inv .returned rfl rfl rfl h).congr rfl rfl rfl rfl rfl rfl rfl
  · exact h

/-- **one step preserves the invariant** -/
theorem stepR_inv (s : Srv) (ev : Event) (h : Inv D H E { s := s }) : Inv D H E (stepR s ev) := by
  simp only [stepR]
  apply settle_inv
  cases ev with
  | bytes b => exact rlDrain_inv _ (h.congr rfl rfl rfl rfl rfl rfl rfl)
  | done sid resp => exact slHandlerDone_inv sid resp h
  | cut => exact rlStop_inv h
  | idle => exact stopLoop_inv (writeGoAway_inv _ _ _ h)

end Pres

/-! ## Part 3 — runs -/

/-- fold of `step` over an event list: the final state and the concatenated outputs -/
def runFrom (s : Srv) : List Event → Srv × List Out
  | [] => (s, [])
  | ev :: evs => ((runFrom (step s ev).1 evs).1, (step s ev).2 ++ (runFrom (step s ev).1 evs).2)

/-- a connection with configuration `cfg` (what `new` creates in `Server/Drv.lean`) fed the events `evs` -/
def run (cfg : Cfg) (evs : List Event) : Srv × List Out := runFrom { cfg := cfg } evs

def runOuts (cfg : Cfg) (evs : List Event) : List Out := (run cfg evs).2

/-- the stream ids handed to the handler, in order -/
def dispatchedIds (l : List Out) : List Nat := fm pD l
/-- the stream ids of the (response) HEADERS frames written, in order -/
def headerIds (l : List Out) : List Nat := fm pH l

theorem runFrom_append (s : Srv) (a b : List Event) :
    runFrom s (a ++ b) = ((runFrom (runFrom s a).1 b).1, (runFrom s a).2 ++ (runFrom (runFrom s a).1 b).2) := by
  induction a generalizing s with
  | nil => simp [runFrom]
  | cons ev a ih => simp [runFrom, ih, List.append_assoc]

/-- the outputs of a run extended by one event: those of the run, then those of the last step -/
theorem runOuts_snoc (cfg : Cfg) (evs : List Event) (ev : Event) :
    runOuts cfg (evs ++ [ev]) = runOuts cfg evs ++ (step (run cfg evs).1 ev).2 := by
  simp [runOuts, run, runFrom_append, runFrom]

/-- the stream ids of the frames written with END_STREAM (response HEADERS without body, last DATA frame), in order -/
def endStreamIds (l : List Out) : List Nat := fm pE l

/-- the invariant between steps -/
def InvS (D H E : List Nat) (s : Srv) : Prop := Inv D H E { s := s }

theorem step_invS {D H E : List Nat} {s : Srv} (ev : Event) (h : InvS D H E s) :
    InvS (D ++ dispatchedIds (step s ev).2) (H ++ headerIds (step s ev).2) (E ++ endStreamIds (step s ev).2)
      (step s ev).1 := by
  have := stepR_inv s ev h
  constructor
  · have ha := this.a
    simpa [sks, step, dispatchedIds, headerIds] using ha
  · have he := this.e
    simpa [sks2, step, headerIds, endStreamIds] using he

theorem runFrom_invS {D H E : List Nat} {s : Srv} (evs : List Event) (h : InvS D H E s) :
    InvS (D ++ dispatchedIds (runFrom s evs).2) (H ++ headerIds (runFrom s evs).2) (E ++ endStreamIds (runFrom s evs).2)
      (runFrom s evs).1 := by
  induction evs generalizing s D H E with
  | nil => simpa [runFrom, dispatchedIds, headerIds, endStreamIds] using h
  | cons ev evs ih =>
    have := ih (step_invS ev h)
    simpa [runFrom, dispatchedIds, headerIds, endStreamIds, List.append_assoc] using this

theorem init_invS (cfg : Cfg) : InvS [] [] [] { cfg := cfg } := by
  constructor
  · simpa [sks] using InvA.init 0 0
  · simpa [sks2] using Inv2A.init

/-- **the invariant holds after every run** from the initial state of any configuration -/
theorem run_invS (cfg : Cfg) (evs : List Event) :
    InvS (dispatchedIds (runOuts cfg evs)) (headerIds (runOuts cfg evs)) (endStreamIds (runOuts cfg evs))
      (run cfg evs).1 := by
  simpa [run, runOuts] using runFrom_invS evs (init_invS cfg)

/-- **end_stream_at_most_once**: in any run, no stream id gets two frames carrying END_STREAM (a response HEADERS
frame without body counts, as does the last — possibly empty — DATA frame) -/
theorem end_stream_at_most_once (cfg : Cfg) (evs : List Event) : (endStreamIds (runOuts cfg evs)).Nodup := by
  have := (run_invS cfg evs).e.en
  simpa using this

/-- **end_stream_after_headers**: END_STREAM only on a stream whose response HEADERS have been written (or on those
HEADERS themselves) -/
theorem end_stream_after_headers (cfg : Cfg) (evs : List Event) :
    ∀ i ∈ endStreamIds (runOuts cfg evs), i ∈ headerIds (runOuts cfg evs) := by
  have := (run_invS cfg evs).e.eh
  simpa using this

/-- in every reachable state, a stream of the table whose END_STREAM has gone out owes nothing any more (nothing
pending, no body stream: `flushStreams`/`sendData` will not touch it again), and neither does a stream that has no
response HEADERS yet -/
theorem reachable_owes (cfg : Cfg) (evs : List Event) :
    (∀ st ∈ (run cfg evs).1.strms, st.id ∈ endStreamIds (runOuts cfg evs) → hasMoreToSend st = false) ∧
    (∀ st ∈ (run cfg evs).1.strms, st.id ∉ headerIds (runOuts cfg evs) → hasMoreToSend st = false) := by
  have h := run_invS cfg evs
  have idle_more : ∀ st : Strm, st.idle = true → hasMoreToSend st = false := by
    intro st hi
    simp only [Strm.idle, Bool.and_eq_true, beq_iff_eq] at hi
    cases hs : st.stream with
    | none => simp [hasMoreToSend, hi.1, hs]
    | some _ => rw [hs] at hi; simp at hi
  constructor
  · intro st hm he
    have := h.e.ei st.sk2 (List.mem_map_of_mem hm) (by simpa [Strm.sk2] using he)
    exact idle_more st this
  · intro st hm he
    have := h.e.hi st.sk2 (List.mem_map_of_mem hm) (by simpa [Strm.sk2] using he)
    exact idle_more st this

/-- **at_most_once**: in the concatenated outputs of any run from the initial state of any configuration,
no stream id is handed to the handler twice. -/
theorem at_most_once (cfg : Cfg) (evs : List Event) : (dispatchedIds (runOuts cfg evs)).Nodup := by
  have := (run_invS cfg evs).dn
  simpa using this

/-- **response_starts_once**: no stream id gets two response HEADERS frames (the model writes no trailers, so
every `Out.headers` is the start of a response). -/
theorem response_starts_once (cfg : Cfg) (evs : List Event) : (headerIds (runOuts cfg evs)).Nodup := by
  have := (run_invS cfg evs).hn
  simpa using this

/-- **headers_after_dispatch**: a response HEADERS frame is written only for a stream id that was dispatched -/
theorem headers_after_dispatch (cfg : Cfg) (evs : List Event) :
    ∀ i ∈ headerIds (runOuts cfg evs), i ∈ dispatchedIds (runOuts cfg evs) := by
  have := (run_invS cfg evs).hd
  simpa using this

/-- every dispatched id is at most `lastID`, so never an id a later HEADERS frame could open a stream with -/
theorem dispatched_le_lastID (cfg : Cfg) (evs : List Event) :
    ∀ i ∈ dispatchedIds (runOuts cfg evs), i ≤ (run cfg evs).1.lastID := by
  have := (run_invS cfg evs).dle
  simpa using this

/-- in every reachable state the table holds each stream id once, each id is at most `lastID`, a stream not yet
marked `responded` has not been dispatched, and a stream whose handler runs has been dispatched and has not
been answered -/
theorem reachable_table (cfg : Cfg) (evs : List Event) :
    ((run cfg evs).1.strms.map (·.id)).Nodup ∧
    (∀ st ∈ (run cfg evs).1.strms, st.id ≤ (run cfg evs).1.lastID) ∧
    (∀ st ∈ (run cfg evs).1.strms, st.responded = false → st.id ∉ dispatchedIds (runOuts cfg evs)) ∧
    (∀ st ∈ (run cfg evs).1.strms, st.handlerRunning = true →
      st.id ∈ dispatchedIds (runOuts cfg evs) ∧ st.id ∉ headerIds (runOuts cfg evs)) := by
  have h := run_invS cfg evs
  refine ⟨Inv.idNodup h, ?_, ?_, ?_⟩
  · intro st hm; exact h.ile st.sk (List.mem_map_of_mem hm)
  · intro st hm hr; have := h.nd st.sk (List.mem_map_of_mem hm) hr; simpa [Strm.sk] using this
  · intro st hm hr; have := h.rn st.sk (List.mem_map_of_mem hm) hr; simpa [and_comm, Strm.sk] using this

/-- a step handling input octets (or a cut, or the idle timer) writes no response HEADERS … -/
theorem input_step_no_headers (s : Srv) (ev : Event) (hev : ∀ sid resp, ev ≠ .done sid resp) :
    headerIds (step s ev).2 = [] :=
  stepR_fm_input pH [.headers] pH_only (by simp [UpQuiet])
    (fun r uid st => dispatchOrSend_fm pH _ pH_only (by simp) r uid st) s ev hev

/-- … and a step handling a handler completion dispatches nothing -/
theorem done_step_no_dispatch (s : Srv) (sid : Nat) (resp : Resp) : dispatchedIds (step s (.done sid resp)).2 = [] := by
  simp [dispatchedIds, step, stepR, settle_fm pD [.dispatch] pD_only (by simp [UpQuiet]),
    slHandlerDone_fm pD [.dispatch] pD_only (by simp [UpQuiet]) (by simp)]

/-- **headers_after_dispatch, strictly**: the response HEADERS written in a step are for stream ids dispatched
in an earlier step -/
theorem headers_after_dispatch_strict (cfg : Cfg) (evs : List Event) (ev : Event) :
    ∀ i ∈ headerIds (step (run cfg evs).1 ev).2, i ∈ dispatchedIds (runOuts cfg evs) := by
  intro i hi
  cases ev with
  | done sid resp =>
    have h := headers_after_dispatch cfg (evs ++ [.done sid resp]) i
    rw [runOuts_snoc] at h
    simp only [headerIds, dispatchedIds, fm_append] at h hi ⊢
    have hd := done_step_no_dispatch (run cfg evs).1 sid resp
    simp only [dispatchedIds] at hd
    rw [hd, List.append_nil] at h
    exact h (List.mem_append_right _ hi)
  | bytes b => rw [input_step_no_headers _ _ (by intro _ _ h; cases h)] at hi; cases hi
  | cut => rw [input_step_no_headers _ _ (by intro _ _ h; cases h)] at hi; cases hi
  | idle => rw [input_step_no_headers _ _ (by intro _ _ h; cases h)] at hi; cases hi

/-! ### by-product: the table-aliasing case of `closeStream` (F17) cannot arise in a reachable state -/

/-- under the invariant (ids unique in the table) `Streams.Del` removes the very stream being closed, so
`closeStream` never raises the `undefined` flag -/
theorem closeStream_defined {D H E : List Nat} {r : R} (uid : Nat) (h : Inv D H E r) :
    (closeStream r uid).s.undefined = r.s.undefined := by
  cases hg : r.getStrm uid with
  | none => simp [closeStream, hg]
  | some st =>
    obtain ⟨hm, hu, _, hii⟩ := h.the hg
    have hfirst : ∃ f, r.s.strms.find? (·.id == st.id) = some f := by
      cases hf : r.s.strms.find? (·.id == st.id) with
      | none =>
        have := List.find?_eq_none.mp hf st hm
        simp at this
      | some f => exact ⟨f, rfl⟩
    obtain ⟨f, hf⟩ := hfirst
    have hfm : f ∈ r.s.strms := List.mem_of_find?_eq_some hf
    have hfid : f.id = st.id := by
      have := List.find?_some hf
      simpa using this
    have hfe : f = st := hii f hfm hfid
    have hflag : (f.uid != uid) = false := by rw [hfe, hu]; simp
    simp only [closeStream, hg, hf, hflag, Bool.or_false]
    split
    · rfl
    · simp only [releaseStream]; split <;> rfl

/-- … in particular in every state reachable from the initial state of any configuration -/
theorem closeStream_defined_reachable (cfg : Cfg) (evs : List Event) (uid : Nat) (out : List Out) :
    (closeStream { s := (run cfg evs).1, out := out } uid).s.undefined = (run cfg evs).1.undefined := by
  have h := run_invS cfg evs
  have h' : Inv (dispatchedIds (runOuts cfg evs)) (headerIds (runOuts cfg evs)) (endStreamIds (runOuts cfg evs))
      ({ s := (run cfg evs).1, out := [] } : R) := h
  cases hg : ({ s := (run cfg evs).1, out := out } : R).getStrm uid with
  | none => simp [closeStream, hg]
  | some st =>
    have := closeStream_defined uid h'
    have e : ∀ o1 o2 : List Out, (closeStream { s := (run cfg evs).1, out := o1 } uid).s =
        (closeStream { s := (run cfg evs).1, out := o2 } uid).s := by
      intro o1 o2
      have hg1 : ({ s := (run cfg evs).1, out := o1 } : R).getStrm uid = some st := hg
      have hg2 : ({ s := (run cfg evs).1, out := o2 } : R).getStrm uid = some st := hg
      simp only [closeStream, hg1, hg2]
      split
      · rfl
      · simp only [releaseStream]; split <;> rfl
    rw [e out []]; exact this

/-! ### the response HEADERS go out on the stream whose handler finished -/

theorem finishRequest_pH (r : R) (uid : Nat) (resp : Resp) :
    fm pH (finishRequest r uid resp).1.out =
      fm pH r.out ++ (match r.getStrm uid with | some st => [st.id] | none => []) := by
  cases hg : r.getStrm uid with
  | none => simp [finishRequest, hg]
  | some st =>
    simp only [finishRequest, hg]
    repeat' split
    all_goals simp [sendData_fm pH _ pH_only (by simp), responseHeaders]
    all_goals (split <;> simp [pH, cutBlock, blockOuts, fm_cons', fm_contOuts pH [.headers] pH_only (by simp)])

theorem upd_get_id {D H E : List Nat} {r : R} (h : Inv D H E r) {st : Strm} (hm : st ∈ r.s.strms) (f : Strm → Strm)
    (hf : ∀ x, (f x).id = x.id) (st1 : Strm) (hg : (r.updStrm st.uid f).getStrm st.uid = some st1) : st1.id = st.id := by
  have hm1 : st1 ∈ (r.updStrm st.uid f).s.strms := List.mem_of_find?_eq_some hg
  have hu1 : st1.uid = st.uid := by
    have := List.find?_some hg
    simpa using this
  simp only [R.updStrm] at hm1
  obtain ⟨x, hx, e⟩ := List.mem_map.mp hm1
  by_cases hxu : x.uid = st.uid
  · have : x = st := nodup_map_inj (·.uid) _ h.uidNodup x st hx hm hxu
    subst this
    simp at e
    rw [← e, hf]
  · have e' : x = st1 := by simpa [hxu] using e
    exact absurd (by rw [e', hu1]) hxu

theorem slHandlerDone_hdr {D H E : List Nat} {r : R} (sid : Nat) (resp : Resp) (h : Inv D H E r) :
    ∀ i ∈ fm pH (slHandlerDone r sid resp).out, i ∈ fm pH r.out ∨ i = sid := by
  simp only [slHandlerDone]
  have h0 : Inv D H E (if resp.kind == "panic" then r.emit .handlerPanicLogged else r) := by
    split
    · exact emit_inv _ rfl rfl rfl h
    · exact h
  have e0 : fm pH (if resp.kind == "panic" then r.emit .handlerPanicLogged else r).out = fm pH r.out := by
    split <;> simp [pH]
  rw [← e0]
  generalize (if resp.kind == "panic" then r.emit .handlerPanicLogged else r) = r0 at h0 ⊢
  split
  · exact fun i hi => Or.inl hi
  · split
    · split
      · intro i hi; left; simpa using hi
      · exact fun i hi => Or.inl hi
    · rename_i st hf
      have hm : st ∈ r0.s.strms := List.mem_of_find?_eq_some hf
      have hid : st.id = sid := by
        have := List.find?_some hf
        simp only [Bool.and_eq_true, beq_iff_eq] at this
        exact this.1
      have key : ∀ i ∈ fm pH (finishRequest (r0.updStrm st.uid fun s => { s with handlerRunning := false }) st.uid resp).1.out,
          i ∈ fm pH r0.out ∨ i = sid := by
        intro i hi
        rw [finishRequest_pH] at hi
        rcases List.mem_append.mp hi with hi | hi
        · exact Or.inl hi
        · right
          cases hg : (r0.updStrm st.uid fun s => { s with handlerRunning := false }).getStrm st.uid with
          | none => rw [hg] at hi; cases hi
          | some st1 =>
            rw [hg] at hi
            simp only [List.mem_singleton] at hi
            rw [hi, upd_get_id h0 hm (fun s => { s with handlerRunning := false }) (fun _ => rfl) st1 hg, hid]
      repeat' split
      all_goals simpa [closeDone_out] using key

/-- **the response starts on the stream whose handler finished**: the response HEADERS written in the step
handling the completion of the handler of stream `sid` carry the id `sid` -/
theorem headers_on_done_stream (cfg : Cfg) (evs : List Event) (sid : Nat) (resp : Resp) :
    ∀ i ∈ headerIds (step (run cfg evs).1 (.done sid resp)).2, i = sid := by
  intro i hi
  have h := run_invS cfg evs
  have := slHandlerDone_hdr sid resp h i (by
    simpa [headerIds, step, stepR, settle_fm pH [.headers] pH_only (by simp [UpQuiet])] using hi)
  simpa using this

/-! ### only complete requests are dispatched -/

/-- the fields `dispatchHandler` shows the handler besides method, path and authority -/
def viewFields (st : Strm) : List (Bytes × Bytes) :=
  (match st.contentType with | some v => [(Gen.s_StringContentType, v)] | none => []) ++
  (match st.userAgent with | some v => [(Gen.s_StringUserAgent, v)] | none => []) ++ st.fields

/-- the record `dispatchHandler` emits for a stream: a function of its id, its request view and its body digest -/
def reqView (st : Strm) : Out := .dispatch st.id st.method st.uri st.host (viewFields st) st.body

/-- a stream whose request is complete and not yet handed over: END_STREAM received (half-closed (remote)), header
block finished, not marked `responded`, and the body as long as `content-length` said (if it was given) -/
def Complete (st : Strm) : Prop :=
  st.state = .halfClosed ∧ st.headersFinished = true ∧ st.responded = false ∧
  (st.hasCL = true → (st.recvBody : Int) = st.contentLength)

open Classical in
/-- dispatch records that are NOT the request view of a complete stream -/
noncomputable def pBad (o : Out) : Option Out :=
  if o.isDispatch = true ∧ ¬ ∃ st, Complete st ∧ o = reqView st then some o else none

theorem pBad_only : Only pBad [.dispatch] := by
  intro o h
  have : o.isDispatch = false := by cases o <;> simp_all [Out.kind, Out.isDispatch]
  simp [pBad, this]

theorem pBad_reqView (st : Strm) (h : Complete st) : pBad (reqView st) = none := by
  have : ∃ st', Complete st' ∧ reqView st = reqView st' := ⟨st, h, rfl⟩
  simp [pBad, this]

theorem dispatchOrSend_pBad (r : R) (uid : Nat) (st : Strm) :
    fm pBad (dispatchOrSend r uid st).out = fm pBad r.out := by
  simp only [dispatchOrSend]
  split
  · rename_i hc
    simp only [Bool.and_eq_true, Bool.not_eq_true', beq_iff_eq] at hc
    split
    · simp [pBad_only.rst (by decide)]
    · rename_i hcl
      have hcomp : Complete st := by
        refine ⟨hc.1.1, hc.1.2, hc.2, ?_⟩
        intro hh
        simp only [hh, Bool.true_and, bne_iff_ne, ne_eq, Decidable.not_not] at hcl
        exact hcl
      have e : (dispatch (r.updStrm uid fun s => { s with responded := true }) uid st).out = r.out ++ [reqView st] := rfl
      rw [e]
      simp [pBad_reqView st hcomp]
  · repeat' split
    all_goals simp [sendData_fm pBad _ pBad_only (by decide)]

theorem fm_eq_nil {α : Type} (p : Out → Option α) (l : List Out) : fm p l = [] ↔ ∀ o ∈ l, p o = none := by
  simp [fm, List.filterMap_eq_nil_iff]

theorem runFrom_fm_nil {α : Type} (p : Out → Option α) (hp : ∀ s ev, fm p (stepR s ev).out = []) (s : Srv)
    (evs : List Event) : fm p (runFrom s evs).2 = [] := by
  induction evs generalizing s with
  | nil => rfl
  | cons ev evs ih =>
    simp only [runFrom, fm_append, ih, List.append_nil]
    exact hp s ev

/-- **only_complete_requests_dispatched**: every dispatch record in any run is the request view (`reqView`) of a
stream that, at that moment, was half-closed (END_STREAM received) with a finished header block, was not marked
`responded`, and had received as many body octets as its `content-length` announced (if it had one) -/
theorem only_complete_requests_dispatched (cfg : Cfg) (evs : List Event) :
    ∀ o ∈ runOuts cfg evs, o.isDispatch = true → ∃ st, Complete st ∧ o = reqView st := by
  have h := runFrom_fm_nil pBad
    (stepR_fm pBad [.dispatch] pBad_only (by simp [UpQuiet]) dispatchOrSend_pBad (by simp)) { cfg := cfg } evs
  rw [fm_eq_nil] at h
  intro o ho hd
  by_cases hx : ∃ st, Complete st ∧ o = reqView st
  · exact hx
  · exfalso
    have := h o ho
    simp [pBad, hd, hx] at this

/-! ## Part 4 — the request view is a function of the decoded fields and of the concatenated DATA payloads -/

/-- the body digest does not depend on how the octets were chunked into DATA frames -/
theorem Digest.add_append (d : Digest) (a b : Bytes) : (d.add a).add b = d.add (a ++ b) := by
  simp [Digest.add, List.foldl_append]

theorem Digest.add_nil (d : Digest) : d.add [] = d := rfl

/-- … for any number of DATA frames (empty ones included): the digest of the concatenation -/
theorem Digest.add_chunks (d : Digest) (chunks : List Bytes) : chunks.foldl Digest.add d = d.add chunks.flatten := by
  induction chunks generalizing d with
  | nil => rfl
  | cons c cs ih => rw [List.foldl_cons, ih, Digest.add_append, List.flatten_cons]

/-- two chunkings of the same octets give the same digest -/
theorem Digest.chunk_invariance (d : Digest) (c1 c2 : List Bytes) (h : c1.flatten = c2.flatten) :
    c1.foldl Digest.add d = c2.foldl Digest.add d := by
  rw [Digest.add_chunks, Digest.add_chunks, h]

/-- what the handler sees of the request headers -/
structure View where
  method : Bytes
  uri : Bytes
  host : Bytes
  contentType : Option Bytes
  userAgent : Option Bytes
  fields : List (Bytes × Bytes)
deriving DecidableEq, Repr

def Strm.view (st : Strm) : View := ⟨st.method, st.uri, st.host, st.contentType, st.userAgent, st.fields⟩

/-- the effect of one decoded field on the view (`fieldUpdate` seen through `Strm.view`) -/
def viewUpd (v : View) (f : Hpack.Field) : View :=
  let k := f.name
  let x := f.value
  if k.head? == some 58 then
    if k == Gen.s_StringMethod then { v with method := x }
    else if k == Gen.s_StringPath then { v with uri := x }
    else if k == Gen.s_StringScheme then v
    else if k == Gen.s_StringAuthority then { v with host := x }
    else v
  else
    if k == Gen.s_StringUserAgent then { v with userAgent := some x }
    else if k == Gen.s_StringContentType then { v with contentType := some x }
    else if k == Gen.s_StringContentLength then v
    else { v with fields := v.fields ++ [(k, x)] }

theorem fieldUpdate_view (st : Strm) (f : Hpack.Field) : (fieldUpdate st f).view = viewUpd st.view f := by
  simp only [fieldUpdate, viewUpd]
  repeat' split
  all_goals rfl

theorem foldl_fieldUpdate_view (fs : List Hpack.Field) (st : Strm) :
    (fs.foldl fieldUpdate st).view = fs.foldl viewUpd st.view := by
  induction fs generalizing st with
  | nil => rfl
  | cons f fs ih => rw [List.foldl_cons, ih, fieldUpdate_view, List.foldl_cons]

/-- the dispatch record is a function of the stream id, the view and the body digest -/
theorem reqView_eq (st : Strm) :
    reqView st = .dispatch st.id st.view.method st.view.uri st.view.host
      ((match st.view.contentType with | some v => [(Gen.s_StringContentType, v)] | none => []) ++
       (match st.view.userAgent with | some v => [(Gen.s_StringUserAgent, v)] | none => []) ++ st.view.fields) st.body := rfl

/-- the fields the loop of `handleHeaderFrame` takes from the octets `b`: one per successful `Hpack.Dec.next`
call that yields a field (`nextField`; an input that held dynamic table size updates only yields none) -/
def loopFields : Nat → Hpack.DecState → Bool → Nat → Bytes → List Hpack.Field
  | 0, _, _, _, _ => []
  | _, _, _, _, [] => []
  | fuel + 1, dec, bs, fp, b =>
    match Hpack.Dec.next dec bs fp b with
    | .ok dec' (some f) rest => f :: loopFields fuel dec' bs (fp + 1) rest
    | _ => []

/-- **the view after a header frame**: when the loop reports no error, the stream's view is the fold of
`viewUpd` over the fields `Hpack.Dec.next` yields from the octets — nothing else enters it -/
theorem fieldLoop_view (fuel : Nat) (s : Srv) (st : Strm) (bs eh : Bool) (fp : Nat) (b : Bytes)
    (hn : (fieldLoop fuel s st bs eh fp b).2.2 = none) :
    (fieldLoop fuel s st bs eh fp b).2.1.view = (loopFields fuel s.dec bs fp b).foldl viewUpd st.view := by
  induction fuel generalizing s st fp b with
  | zero => simp [fieldLoop] at hn
  | succ n ih =>
    cases b with
    | nil => simp [fieldLoop, loopFields]
    | cons c cs =>
      cases hd : Hpack.Dec.next s.dec bs fp (c :: cs) with
      | needMore =>
        simp only [fieldLoop, loopFields, hd] at hn ⊢
        cases eh
        · cases hh : heldTooLong s.cfg (Hpack.Dec.skipUpdates s.dec bs fp (c :: cs)).2
          · simp; rfl
          · simp [hh] at hn
        · simp at hn
      | err => simp [fieldLoop, hd] at hn
      | ok dec fo rest =>
        cases fo with
        | none => simp [fieldLoop, loopFields, hd]
        | some f =>
        simp only [fieldLoop, loopFields, hd, fieldStep] at hn ⊢
        cases hv : fieldVerdict s.cfg { st with fieldSeen := true } f with
        | some e => simp [hv] at hn
        | none =>
          simp only [hv] at hn ⊢
          rw [ih _ _ _ _ hn, fieldUpdate_view, List.foldl_cons]
          rfl

/-- `handleHeaderFrame` either fails before the loop or is the loop run on the carried-over tail of the previous
frame followed by this frame's fragment (padding and priority already removed by the frame parser) -/
theorem handleHeaderFrame_cases (s : Srv) (st : Strm) (fr : Frame.Frame) :
    (handleHeaderFrame s st fr).2.2 ≠ none ∨
    ∃ (bs eh : Bool) (frag : Bytes) (st0 : Strm),
      handleHeaderFrame s st fr = fieldLoop ((st.prevHdr ++ frag).length + 1) s st0 bs eh 0 (st.prevHdr ++ frag) ∧
      st0.view = st.view := by
  -- `notLast`: a trailer section without END_STREAM (answered with a stream error once it has been decoded)
  cases hnl : (st.headersFinished && !Frame.hasFlag fr.flags Gen.c_FlagEndStream)
  · simp only [handleHeaderFrame, hnl, Bool.false_and, Bool.false_eq_true, if_false]
    repeat' split
    all_goals first
      | (left; simp; done)
      | (right; exact ⟨_, _, _, _, rfl, rfl⟩)
  · have hF : st.headersFinished = true := by revert hnl; cases st.headersFinished <;> simp
    cases hH : Frame.hasFlag fr.flags Gen.c_FlagEndHeaders
    · left; simp [handleHeaderFrame, hnl, hH]
    · simp only [handleHeaderFrame, hH, hF, Bool.true_and, Bool.not_true, Bool.and_false, Bool.false_eq_true,
        if_false, if_true]
      repeat' split
      all_goals first
        | (left; simp; done)
        | (right; exact ⟨_, _, _, _, rfl, rfl⟩)

/-- the view after a HEADERS / CONTINUATION frame that was accepted: the fold of `viewUpd` over the fields decoded
from `prevHdr ++ fragment` -/
theorem handleHeaderFrame_view (s : Srv) (st : Strm) (fr : Frame.Frame) (hn : (handleHeaderFrame s st fr).2.2 = none) :
    ∃ (bs : Bool) (frag : Bytes),
      (handleHeaderFrame s st fr).2.1.view =
        (loopFields ((st.prevHdr ++ frag).length + 1) s.dec bs 0 (st.prevHdr ++ frag)).foldl viewUpd st.view := by
  rcases handleHeaderFrame_cases s st fr with h | ⟨bs, eh, frag, st0, he, hv⟩
  · exact absurd hn h
  · rw [he] at hn ⊢
    exact ⟨bs, frag, by rw [fieldLoop_view _ _ _ _ _ _ _ hn, hv]⟩

/-! the DATA case of `handleFrame` -/

theorem consumeConnWindow_strms (r : R) (n : Nat) : (consumeConnWindow r n).s.strms = r.s.strms := by
  simp only [consumeConnWindow]
  (repeat' split) <;> rfl

theorem consumeRecvWindow_strms (r : R) (st : Strm) (fr : Frame.Frame) (n : Nat) :
    (consumeRecvWindow r st fr n).s.strms = r.s.strms := by
  simp only [consumeRecvWindow]
  (repeat' split) <;> simp [consumeConnWindow_strms, R.emit]

/-- **a DATA frame that is accepted** adds exactly its payload (as the frame parser delivers it: padding removed) to
the body digest of its stream (and its length to the count compared with `content-length`); the rest of the stream
record is untouched -/
theorem handleFrame_data (r : R) (uid : Nat) (fr : Frame.Frame) (st : Strm) (es : Bool) (d : Bytes)
    (hg : r.getStrm uid = some st) (ht : fr.typ = Gen.c_FrameData) (hb : fr.body = .data es d)
    (hok : (handleFrame r uid fr).2 = none) :
    (handleFrame r uid fr).1.getStrm uid =
      some { st with recvBody := st.recvBody + d.length, body := st.body.add d } := by
  have hu : st.uid = uid := by
    have := List.find?_some hg
    simpa using this
  have e1 : (Gen.c_FrameData == Gen.c_FrameHeaders) = false := rfl
  have e2 : (Gen.c_FrameData == Gen.c_FrameContinuation) = false := rfl
  have key : (handleFrame r uid fr).2 ≠ none ∨ (handleFrame r uid fr).1.s.strms =
      ((r.updStrm uid fun _ => { st with recvBody := st.recvBody + d.length }).updStrm uid
        fun s => { s with body := s.body.add d }).s.strms := by
    simp only [handleFrame, hg, ht, e1, e2, hb, Bool.or_self, Bool.false_eq_true, ↓reduceIte, beq_self_eq_true]
    repeat' split
    all_goals first
      | (left; simp; done)
      | (right; simp only [consumeRecvWindow_strms]; done)
  rcases key with h | h
  · exact absurd hok h
  · have g1 := getStrm_upd r uid (fun _ => { st with recvBody := st.recvBody + d.length }) st
      (fun _ _ => hu) hg
    have g2 := getStrm_upd _ uid (fun s => { s with body := s.body.add d }) _
      (fun x hx => hx) g1
    simp only [R.getStrm] at g2 ⊢
    rw [h]; exact g2

/-! ### a complete request IS dispatched (step level) -/

theorem dispatch_out (r : R) (uid : Nat) (st : Strm) : (dispatch r uid st).out = r.out ++ [reqView st] := rfl

/-- when the loop body reaches `dispatchOrSend` with a complete stream, its request view is handed to the handler
in this very step -/
theorem dispatchOrSend_complete (r : R) (uid : Nat) (st : Strm) (hc : Complete st) :
    (dispatchOrSend r uid st).out = r.out ++ [reqView st] := by
  obtain ⟨h1, h2, h3, h4⟩ := hc
  have hcl : (st.hasCL && (st.recvBody : Int) != st.contentLength) = false := by
    cases hh : st.hasCL
    · rfl
    · simp [h4 hh]
  simp only [dispatchOrSend, h1, h2, h3, hcl]
  simp [dispatch_out]

/-- **complete_request_dispatched_step**: a frame for a known stream that is accepted (no error that leaves the
loop) and leaves the stream complete (`Complete`: half-closed, header block finished, not yet handed over, body
length as announced) makes the loop body emit the dispatch record of that stream -/
theorem complete_request_dispatched_step (r : R) (uid : Nat) (fr : Frame.Frame) (wc : Bool)
    (hp : (headersPrelude r fr).2 = true)
    (he : (onFrameError (handleFrame (headersPrelude r fr).1 uid fr).1 uid (handleFrame (headersPrelude r fr).1 uid fr).2).2 = false)
    (st : Strm)
    (hg : ((onFrameError (handleFrame (headersPrelude r fr).1 uid fr).1 uid
            (handleFrame (headersPrelude r fr).1 uid fr).2).1.updStrm uid (handleState fr)).getStrm uid = some st)
    (hc : Complete st) : reqView st ∈ (knownStream r uid fr wc).out := by
  simp only [knownStream, hp, he, hg, Bool.not_true, Bool.false_eq_true, if_false]
  split <;> simp [dispatchOrSend_complete _ _ _ hc]

/-! ## Part 5 — non-vacuity: two interleaved streams, two dispatches, two responses

SETTINGS; HEADERS(1, POST /, END_HEADERS); HEADERS(3, GET /, END_HEADERS|END_STREAM) — dispatch of 3;
DATA(1, "hi", END_STREAM) — dispatch of 1; handler of 3 finishes (body "ab"); handler of 1 finishes (204, no body).
The same operations run against the real server give the same two dispatch records (see REPORT). -/

def twoStreams : List Event :=
  [.bytes [0, 0, 0, 4, 0, 0, 0, 0, 0],
   .bytes [0, 0, 3, 1, 4, 0, 0, 0, 1, 0x83, 0x86, 0x84],
   .bytes [0, 0, 3, 1, 5, 0, 0, 0, 3, 0x82, 0x86, 0x84],
   .bytes [0, 0, 2, 0, 1, 0, 0, 0, 1, 0x68, 0x69],
   .done 3 { kind := "buf", src := .hex [0x61, 0x62], len := 2 },
   .done 1 { status := 204 }]

example : dispatchedIds (runOuts {} twoStreams) = [3, 1] := by decide +kernel
example : headerIds (runOuts {} twoStreams) = [3, 1] := by decide +kernel
/-- a dispatch record: id, method, path, authority, fields, body digest -/
structure DispRec where
  sid : Nat
  method : Bytes
  path : Bytes
  authority : Bytes
  fields : List (Bytes × Bytes)
  body : Digest
deriving DecidableEq, Repr

def dispatchRecords (l : List Out) : List DispRec :=
  fm (fun o => match o with | .dispatch sid m p a fs b => some ⟨sid, m, p, a, fs, b⟩ | _ => none) l

example : dispatchRecords (runOuts {} twoStreams) =
    [⟨3, [71, 69, 84], [47], [], [], {}⟩, ⟨1, [80, 79, 83, 84], [47], [], [], ⟨2, 209, 1⟩⟩] := by decide +kernel
/-- the body digest of stream 1 is that of the two octets, however they are cut into DATA frames -/
example : ({} : Digest).add [0x68, 0x69] = (({} : Digest).add [0x68]).add [0x69] := by decide

end H2.Server
